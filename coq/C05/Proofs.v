(* C05 — proofs about the model of keyed redistribution (Model.v). *)
From Coq Require Import List NArith ZArith Bool Lia Permutation SetoidList.
Import ListNotations.
Require Import BS.Common.Util BS.C05.Model.

(* ================================================================== uint32 bounds *)
Section Bounds.
Local Open Scope N_scope.

Definition two32 : N := 4294967296.

Lemma w32_mod x : w32 x = x mod two32.
Proof. unfold w32. change mask32 with (N.ones 32). rewrite N.land_ones. reflexivity. Qed.

Lemma w32_lt x : w32 x < two32.
Proof. rewrite w32_mod. apply N.mod_lt. discriminate. Qed.

Lemma w32_small x : x < two32 -> w32 x = x.
Proof. intro H. rewrite w32_mod. apply N.mod_small, H. Qed.

Lemma lxor_lt32 a b : a < two32 -> b < two32 -> N.lxor a b < two32.
Proof.
  intros Ha Hb.
  destruct (N.eq_dec (N.lxor a b) 0) as [E|E]; [rewrite E; reflexivity|].
  change two32 with (2 ^ 32). apply N.log2_lt_pow2; [lia|].
  eapply N.le_lt_trans; [apply N.log2_lxor|].
  apply N.max_lub_lt.
  - destruct (N.eq_dec a 0) as [->|Na]; [reflexivity|]. apply N.log2_lt_pow2; [lia|exact Ha].
  - destruct (N.eq_dec b 0) as [->|Nb]; [reflexivity|]. apply N.log2_lt_pow2; [lia|exact Hb].
Qed.

Lemma shiftr_lt32 h k : h < two32 -> N.shiftr h k < two32.
Proof.
  intro H. rewrite N.shiftr_div_pow2.
  assert (P : 2 ^ k <> 0) by (apply N.pow_nonzero; discriminate).
  apply N.div_lt_upper_bound; [exact P|]. nia.
Qed.

Lemma mixk_lt k : mixk k < two32.
Proof. unfold mixk, mul32. apply w32_lt. Qed.

Lemma mixh_lt h k : mixh h k < two32.
Proof. unfold mixh, add32. apply w32_lt. Qed.

Lemma body_lt : forall n data h1, (length data <= n)%nat -> h1 < two32 -> fst (body h1 data) < two32.
Proof.
  induction n as [|n IH]; intros data h1 L H;
    destruct data as [|b0 [|b1 [|b2 [|b3 rest]]]]; cbn [body fst]; try exact H.
  - cbn [length] in L. lia.
  - apply IH; [cbn [length] in L; lia | apply mixh_lt].
Qed.

Lemma tailmix_lt h1 tail : h1 < two32 -> tailmix h1 tail < two32.
Proof.
  intro H. destruct tail as [|a [|b [|c [|d t]]]]; cbn [tailmix]; try exact H;
    apply lxor_lt32; auto using mixk_lt.
Qed.

Lemma fmix32_lt h : h < two32 -> fmix32 h < two32.
Proof.
  intro H. unfold fmix32. cbv zeta.
  apply lxor_lt32; [|apply shiftr_lt32]; unfold mul32; apply w32_lt.
Qed.

(* the hash is a uint32 *)
Lemma sum32_lt data seed : seed < two32 -> sum32 data seed < two32.
Proof.
  intro H. unfold sum32.
  pose proof (body_lt (length data) data seed (le_n _) H) as B.
  destruct (body seed data) as [h1 tail]. cbn [fst] in B.
  apply fmix32_lt, lxor_lt32; [apply tailmix_lt, B | apply w32_lt].
Qed.

Lemma hash_val_lt seed v : seed < two32 -> hash_val seed v < two32.
Proof.
  intro H. destruct v; unfold hash_val, hash_val_gen, hash32, hash64; try (apply sum32_lt, H); try exact H.
  destruct b; [unfold add32; apply w32_lt | exact H].
Qed.

Lemma key_hash_lt seed k : seed < two32 -> key_hash seed k < two32.
Proof.
  intro H. unfold key_hash.
  assert (G : forall l acc, acc < two32 ->
            fold_left (fun h v => N.lxor h (hash_val seed v)) l acc < two32).
  { induction l as [|v l IH]; intros acc Ha; cbn [fold_left]; [exact Ha|].
    apply IH, lxor_lt32; [exact Ha | apply hash_val_lt, H]. }
  apply G. reflexivity.
Qed.

(* ---- Frame.HashWithSeed is the xor-fold over the row's key cells, wherever the row sits ---- *)
Lemma hash_loop_fold f i seed : forall n col acc,
  hash_loop f i seed n col acc =
  fold_left (fun h v => N.lxor h (hash_val seed v)) (map (fun c => hcell f c i) (seq col n)) acc.
Proof.
  induction n as [|n IH]; intros col acc; cbn [hash_loop seq map fold_left]; [reflexivity|].
  apply IH.
Qed.

Lemma frame_hash_key f i seed : frame_hash_with_seed f i seed = key_hash seed (row_key f i).
Proof.
  unfold frame_hash_with_seed, key_hash, row_key.
  rewrite seq_S, map_app, fold_left_app, hash_loop_fold. reflexivity.
Qed.

(* position independence: equal key cells give equal hashes, whatever the storage,
   the view offset and the row index *)
Lemma frame_hash_position_free f1 i1 f2 i2 seed :
  row_key f1 i1 = row_key f2 i2 ->
  frame_hash_with_seed f1 i1 seed = frame_hash_with_seed f2 i2 seed.
Proof. intro E. rewrite !frame_hash_key, E. reflexivity. Qed.

(* slicing a view by k and indexing k earlier reads the same cells *)
Lemma frame_hash_slice cols off p k i seed :
  frame_hash_with_seed (mkHF cols (off + k) p) i seed = frame_hash_with_seed (mkHF cols off p) (k + i) seed.
Proof.
  apply frame_hash_position_free. unfold row_key, hcell. cbn [hcols hoff hprefix].
  apply map_ext. intro c. f_equal. lia.
Qed.

(* ---- Go-equal keys hash alike (current code: the float hash normalises -0.0) ---- *)
Lemma float_norm_true : float_norm = true.
Proof. reflexivity. Qed.

Lemma fnorm32_zero x y : fzero32 x = true -> fzero32 y = true ->
  fnorm32 true (w32 x) = fnorm32 true (w32 y).
Proof.
  unfold fzero32, fnorm32. cbv zeta. intros Hx Hy.
  apply orb_true_iff in Hx. apply orb_true_iff in Hy.
  destruct Hx as [Hx|Hx], Hy as [Hy|Hy]; apply N.eqb_eq in Hx, Hy; rewrite Hx, Hy; reflexivity.
Qed.

Lemma fnorm64_zero x y : fzero64 x = true -> fzero64 y = true ->
  fnorm64 true (w64 x) = fnorm64 true (w64 y).
Proof.
  unfold fzero64, fnorm64. cbv zeta. intros Hx Hy.
  apply orb_true_iff in Hx. apply orb_true_iff in Hy.
  destruct Hx as [Hx|Hx], Hy as [Hy|Hy]; apply N.eqb_eq in Hx, Hy; rewrite Hx, Hy; reflexivity.
Qed.

Lemma bytes_eqb_eq x y : bytes_eqb x y = true -> x = y.
Proof. apply list_eqb_spec. intros a b. apply N.eqb_eq. Qed.

(* kval_eqb is Go's == on the column type for every value that is not NaN *)
Lemma hash_val_goeq seed a b : kval_eqb a b = true -> hash_val seed a = hash_val seed b.
Proof.
  unfold hash_val. rewrite float_norm_true. unfold hash_val_gen.
  destruct a, b; cbn [kval_eqb]; intro E; try discriminate E; try reflexivity;
    try (apply bytes_eqb_eq in E; subst; reflexivity);
    try (apply N.eqb_eq in E; subst; reflexivity);
    try (apply Z.eqb_eq in E; subst; reflexivity).
  - apply Bool.eqb_prop in E. subst. reflexivity.
  - apply orb_true_iff in E as [E|E]; [apply N.eqb_eq in E; subst; reflexivity|].
    apply andb_true_iff in E as [E1 E2]. rewrite (fnorm32_zero _ _ E1 E2). reflexivity.
  - apply orb_true_iff in E as [E|E]; [apply N.eqb_eq in E; subst; reflexivity|].
    apply andb_true_iff in E as [E1 E2]. rewrite (fnorm64_zero _ _ E1 E2). reflexivity.
Qed.

Lemma key_hash_goeq seed k1 k2 : key_eqb k1 k2 = true -> key_hash seed k1 = key_hash seed k2.
Proof.
  unfold key_hash, key_eqb. generalize 0. revert k2.
  induction k1 as [|a k1 IH]; intros [|b k2] acc E; cbn [list_eqb] in E; try discriminate E; [reflexivity|].
  apply andb_true_iff in E as [E1 E2]. cbn [fold_left].
  rewrite (hash_val_goeq seed a b E1). apply IH, E2.
Qed.

End Bounds.

(* ================================================================== the default partitioner *)
Local Open Scope Z_scope.

Lemma u32_of_Z_small n : 0 <= n < 4294967296 -> u32_of_Z n = Z.to_N n.
Proof. intro H. unfold u32_of_Z. rewrite Z.mod_small by exact H. reflexivity. Qed.

Theorem partition_in_range k n : 1 <= n < 4294967296 -> 0 <= part k n < n.
Proof.
  intro H. unfold part, default_partitioner.
  rewrite u32_of_Z_small by lia.
  destruct (N.eqb_spec (Z.to_N n) 0) as [E|E]; [lia|].
  pose proof (N.mod_lt (key_hash 0 k) (Z.to_N n) E) as L.
  split; [apply N2Z.is_nonneg|].
  apply N2Z.inj_lt in L. rewrite Z2N.id in L by lia. exact L.
Qed.

(* Go-equal keys (in particular +0.0 and -0.0) get the same shard *)
Lemma part_goeq k1 k2 n : key_eqb k1 k2 = true -> part k1 n = part k2 n.
Proof.
  intro E. unfold part, default_partitioner. rewrite (key_hash_goeq 0%N k1 k2 E). reflexivity.
Qed.

(* with one partition everything is partition 0 *)
Lemma part_one k : part k 1 = 0.
Proof. pose proof (partition_in_range k 1). lia. Qed.

(* ================================================================== the shuffle *)
Section ShuffleProofs.
  Context {A : Type}.
  Variable pf : Z -> A -> Z.

  (* where a row ends up: the partitioner is consulted only when there are >= 2 partitions *)
  Definition dest (n : Z) (r : A) : Z := if 1 <? n then pf n r else 0.
  Definition sel (n : Z) (q : nat) (r : A) : bool := Z.eqb (dest n r) (Z.of_nat q).
  Definition inrange (n : Z) (r : A) : Prop := 0 <= pf n r < n.

  Lemma add_at_length p r (buf : list (list A)) :
    (p < length buf)%nat -> length (add_at p r buf) = length buf.
  Proof.
    intro H. unfold add_at. rewrite app_length, firstn_length. cbn [length]. rewrite skipn_length. lia.
  Qed.

  Lemma add_at_nth p q r (buf : list (list A)) :
    (p < length buf)%nat ->
    nth q (add_at p r buf) [] = if Nat.eqb q p then nth p buf [] ++ [r] else nth q buf [].
  Proof.
    intro H. unfold add_at.
    assert (L : length (firstn p buf) = p) by (rewrite firstn_length; lia).
    destruct (Nat.eqb_spec q p) as [->|Ne].
    - rewrite app_nth2 by lia. rewrite L, Nat.sub_diag. reflexivity.
    - destruct (Nat.lt_ge_cases q p) as [Lt|Ge].
      + rewrite app_nth1 by lia. rewrite nth_firstn.
        destruct (Nat.ltb_spec q p); [reflexivity | lia].
      + rewrite app_nth2 by lia. rewrite L.
        destruct (q - p)%nat as [|m] eqn:E; [lia|]. cbn [nth].
        rewrite nth_skipn. f_equal. lia.
  Qed.

  Lemma place_spec n : forall rows buf buf',
    length buf = Z.to_nat n -> place pf n rows buf = Some buf' ->
    length buf' = length buf /\
    forall q, nth q buf' [] = nth q buf [] ++ filter (fun r => Z.eqb (pf n r) (Z.of_nat q)) rows.
  Proof.
    induction rows as [|r rest IH]; intros buf buf' L P; cbn [place] in P.
    - inversion P; subst. split; [reflexivity|]. intro q. cbn [filter]. rewrite app_nil_r. reflexivity.
    - destruct ((0 <=? pf n r) && (pf n r <? n)) eqn:T; [|discriminate].
      apply andb_true_iff in T as [T1 T2]. apply Z.leb_le in T1. apply Z.ltb_lt in T2.
      assert (Lp : (Z.to_nat (pf n r) < length buf)%nat) by lia.
      apply IH in P; [|rewrite add_at_length by exact Lp; exact L].
      destruct P as [P1 P2]. rewrite add_at_length in P1 by exact Lp.
      split; [exact P1|]. intro q. rewrite P2, add_at_nth by exact Lp. cbn [filter].
      destruct (Nat.eqb_spec q (Z.to_nat (pf n r))) as [->|Ne].
      + rewrite Z2Nat.id by lia. rewrite Z.eqb_refl. rewrite <- app_assoc. reflexivity.
      + destruct (Z.eqb_spec (pf n r) (Z.of_nat q)) as [E|_]; [|reflexivity].
        exfalso. apply Ne. rewrite E. rewrite Nat2Z.id. reflexivity.
  Qed.

  Lemma place_ok n : forall rows buf,
    length buf = Z.to_nat n -> Forall (inrange n) rows -> exists buf', place pf n rows buf = Some buf'.
  Proof.
    induction rows as [|r rest IH]; intros buf L F; cbn [place]; [eauto|].
    inversion F as [|? ? [H1 H2] F']; subst.
    destruct (Z.leb_spec 0 (pf n r)); [|lia]. destruct (Z.ltb_spec (pf n r) n); [|lia]. cbn [andb].
    apply IH; [|exact F']. rewrite add_at_length; [exact L | lia].
  Qed.

  Lemma place_fail n : forall rows buf,
    Exists (fun r => ~ inrange n r) rows -> place pf n rows buf = None.
  Proof.
    induction rows as [|r rest IH]; intros buf E; [inversion E|]. cbn [place].
    destruct ((0 <=? pf n r) && (pf n r <? n)) eqn:T; [|reflexivity].
    apply andb_true_iff in T as [T1 T2]. apply Z.leb_le in T1. apply Z.ltb_lt in T2.
    inversion E as [? ? Bad|? ? E']; subst; [exfalso; apply Bad; split; assumption|].
    apply IH, E'.
  Qed.

  Lemma place_app n : forall a b buf,
    place pf n (a ++ b) buf =
    match place pf n a buf with Some buf' => place pf n b buf' | None => None end.
  Proof.
    induction a as [|r a IH]; intros b buf; cbn [app place]; [reflexivity|].
    destruct ((0 <=? pf n r) && (pf n r <? n)); [apply IH | reflexivity].
  Qed.

  (* ---- batches do not matter ---- *)
  Lemma buffer_batches_concat n : 1 < n -> forall batches buf,
    buffer_batches pf n batches buf = place pf n (concat batches) buf.
  Proof.
    intro H. apply Z.ltb_lt in H.
    induction batches as [|b bs IH]; intro buf; cbn [buffer_batches concat]; [reflexivity|].
    rewrite H, place_app. destruct (place pf n b buf); [apply IH | reflexivity].
  Qed.

  Lemma add_all0_app : forall (a b : list A) buf, add_all0 (a ++ b) buf = add_all0 b (add_all0 a buf).
  Proof. induction a as [|r a IH]; intros b buf; cbn [app add_all0]; [reflexivity | apply IH]. Qed.

  Lemma buffer_batches_concat1 n : n <= 1 -> forall batches buf,
    buffer_batches pf n batches buf = Some (add_all0 (concat batches) buf).
  Proof.
    intro H. assert (E : (1 <? n) = false) by (apply Z.ltb_ge; exact H).
    induction batches as [|b bs IH]; intro buf; cbn [buffer_batches concat]; [reflexivity|].
    rewrite E, add_all0_app. apply IH.
  Qed.

  Lemma add_all0_spec : forall (b : list A) buf, (1 <= length buf)%nat ->
    length (add_all0 b buf) = length buf /\
    forall q, nth q (add_all0 b buf) [] = if Nat.eqb q 0 then nth 0 buf [] ++ b else nth q buf [].
  Proof.
    induction b as [|r b IH]; intros buf L; cbn [add_all0].
    - split; [reflexivity|]. intro q. destruct (Nat.eqb q 0) eqn:E; [|reflexivity].
      apply Nat.eqb_eq in E; subst. rewrite app_nil_r. reflexivity.
    - assert (L' : (1 <= length (add_at 0 r buf))%nat) by (rewrite add_at_length; lia).
      destruct (IH _ L') as [I1 I2]. rewrite add_at_length in I1 by lia.
      split; [exact I1|]. intro q. rewrite I2, !add_at_nth by lia.
      destruct (Nat.eqb q 0) eqn:E; cbn [Nat.eqb]; [|reflexivity].
      rewrite <- app_assoc. reflexivity.
  Qed.

  Theorem buffer_output_batch_irrelevant n batches :
    buffer_output pf n batches = buffer_output pf n [concat batches].
  Proof.
    unfold buffer_output. destruct (Z.lt_ge_cases 1 n) as [H|H].
    - rewrite !buffer_batches_concat by exact H. cbn [concat]. rewrite app_nil_r. reflexivity.
    - rewrite !buffer_batches_concat1 by lia. cbn [concat]. rewrite app_nil_r. reflexivity.
  Qed.

  Lemma filter_all_true (f : A -> bool) l : (forall x, f x = true) -> filter f l = l.
  Proof. intro H. induction l as [|x l IH]; cbn [filter]; [reflexivity|]. rewrite H, IH. reflexivity. Qed.

  Lemma nth_repeat_nil (m q : nat) : nth q (repeat (@nil A) m) [] = [].
  Proof. revert q; induction m as [|m IH]; intros [|q]; cbn; auto. Qed.

  (* ---- one producer: partition q holds exactly its rows destined for q, in order ---- *)
  Theorem buffer_output_spec n batches buf :
    1 <= n -> buffer_output pf n batches = Some buf ->
    length buf = Z.to_nat n /\
    forall q, (q < Z.to_nat n)%nat -> nth q buf [] = filter (sel n q) (concat batches).
  Proof.
    intros Hn B. unfold buffer_output in B.
    assert (LR : length (repeat (@nil A) (Z.to_nat n)) = Z.to_nat n) by apply repeat_length.
    destruct (Z.lt_ge_cases 1 n) as [H|H].
    - rewrite buffer_batches_concat in B by exact H.
      apply place_spec in B; [|exact LR]. destruct B as [B1 B2]. rewrite LR in B1.
      split; [exact B1|]. intros q _. rewrite B2, nth_repeat_nil. cbn [app].
      apply filter_ext. intro r. unfold sel, dest.
      replace (1 <? n) with true by (symmetry; apply Z.ltb_lt; exact H). reflexivity.
    - assert (n = 1) by lia. subst n.
      rewrite buffer_batches_concat1 in B by lia.
      assert (B' : add_all0 (concat batches) (repeat [] (Z.to_nat 1)) = buf) by congruence.
      rewrite <- B'. clear B B'.
      destruct (add_all0_spec (concat batches) (repeat [] (Z.to_nat 1))) as [A1 A2]; [rewrite LR; cbn; lia|].
      split; [rewrite A1; exact LR|]. intros q Hq. assert (q = 0%nat) by (cbn in Hq; lia). subst q.
      rewrite A2. cbn [Nat.eqb]. rewrite nth_repeat_nil. cbn [app].
      symmetry. apply filter_all_true. intro r. unfold sel, dest. reflexivity.
  Qed.

  Lemma buffer_output_ok n batches :
    1 <= n -> (1 < n -> Forall (inrange n) (concat batches)) -> exists buf, buffer_output pf n batches = Some buf.
  Proof.
    intros Hn F. unfold buffer_output. destruct (Z.lt_ge_cases 1 n) as [H|H].
    - rewrite buffer_batches_concat by exact H. apply place_ok; [apply repeat_length | apply F, H].
    - rewrite buffer_batches_concat1 by lia. eauto.
  Qed.

  Lemma buffer_output_fail n batches :
    1 < n -> Exists (fun r => ~ inrange n r) (concat batches) -> buffer_output pf n batches = None.
  Proof.
    intros H E. unfold buffer_output. rewrite buffer_batches_concat by exact H. apply place_fail, E.
  Qed.

  (* ---- all producers ---- *)
  Lemma produce_all_spec n : forall prods bufs,
    produce_all pf n prods = Some bufs ->
    Forall2 (fun pr buf => buffer_output pf n pr = Some buf) prods bufs.
  Proof.
    induction prods as [|pr rest IH]; intros bufs P; cbn [produce_all] in P.
    - inversion P. constructor.
    - destruct (buffer_output pf n pr) as [b|] eqn:B; [|discriminate].
      destruct (produce_all pf n rest) as [bs|]; [|discriminate].
      inversion P; subst. constructor; [exact B | apply IH; reflexivity].
  Qed.

  Definition all_rows (prods : list (list (list A))) : list A := concat (map (@concat A) prods).

  Lemma produce_all_ok n : forall prods,
    1 <= n -> (1 < n -> Forall (inrange n) (all_rows prods)) -> exists bufs, produce_all pf n prods = Some bufs.
  Proof.
    intros prods Hn. induction prods as [|pr rest IH]; intro F; cbn [produce_all]; [eauto|].
    unfold all_rows in F. cbn [map concat] in F.
    destruct (buffer_output_ok n pr Hn) as [b ->].
    { intro H. specialize (F H). apply Forall_app in F. apply F. }
    destruct IH as [bs ->]; [|eauto].
    intro H. specialize (F H). apply Forall_app in F. apply F.
  Qed.

  Lemma produce_all_fail n : forall prods,
    1 < n -> Exists (fun r => ~ inrange n r) (all_rows prods) -> produce_all pf n prods = None.
  Proof.
    intros prods H. induction prods as [|pr rest IH]; intro E; [inversion E|].
    unfold all_rows in E. cbn [map concat] in E. apply Exists_app in E. cbn [produce_all].
    destruct E as [E|E].
    - rewrite (buffer_output_fail n pr H E). reflexivity.
    - rewrite (IH E). destruct (buffer_output pf n pr); reflexivity.
  Qed.

  Lemma consumer_spec n p : (p < Z.to_nat n)%nat -> 1 <= n -> forall prods bufs,
    Forall2 (fun pr buf => buffer_output pf n pr = Some buf) prods bufs ->
    consumer bufs p = filter (sel n p) (all_rows prods).
  Proof.
    intros Hp Hn prods bufs F. induction F as [|pr buf prods bufs B _ IH]; [reflexivity|].
    unfold consumer, all_rows in *. cbn [map concat]. rewrite filter_app, IH. f_equal.
    apply (buffer_output_spec n pr buf Hn B), Hp.
  Qed.

  Lemma nth_map_seq {B} (f : nat -> B) m p d : (p < m)%nat -> nth p (map f (seq 0 m)) d = f p.
  Proof.
    intro H. rewrite (nth_indep _ d (f 0%nat)) by (rewrite map_length, seq_length; exact H).
    rewrite map_nth, seq_nth by exact H. reflexivity.
  Qed.

  (* consumer shard p receives exactly the rows r of all producers with dest r = p,
     in producer order *)
  Theorem shuffle_delivers_eq n prods outs :
    1 <= n -> shuffle pf n prods = Some outs ->
    length outs = Z.to_nat n /\
    forall p, (p < Z.to_nat n)%nat -> nth p outs [] = filter (sel n p) (all_rows prods).
  Proof.
    intros Hn S. unfold shuffle in S.
    destruct (produce_all pf n prods) as [bufs|] eqn:P; [|discriminate]. inversion S; subst; clear S.
    split; [rewrite map_length, seq_length; reflexivity|].
    intros p Hp. rewrite nth_map_seq by exact Hp.
    apply (consumer_spec n p Hp Hn), produce_all_spec, P.
  Qed.

  Theorem shuffle_ok n prods :
    1 <= n -> (1 < n -> Forall (inrange n) (all_rows prods)) -> exists outs, shuffle pf n prods = Some outs.
  Proof.
    intros Hn F. unfold shuffle. destruct (produce_all_ok n prods Hn F) as [bufs ->]. eauto.
  Qed.

  Theorem shuffle_fail n prods :
    1 < n -> Exists (fun r => ~ inrange n r) (all_rows prods) -> shuffle pf n prods = None.
  Proof. intros H E. unfold shuffle. rewrite (produce_all_fail n prods H E). reflexivity. Qed.

  Lemma produce_all_batch_irrelevant n : forall prods,
    produce_all pf n prods = produce_all pf n (map (fun pr => [concat pr]) prods).
  Proof.
    induction prods as [|pr rest IH]; cbn [map produce_all]; [reflexivity|].
    rewrite <- IH, <- buffer_output_batch_irrelevant. reflexivity.
  Qed.

  (* the result does not depend on how a producer's rows were cut into batches *)
  Theorem shuffle_batch_irrelevant n prods :
    shuffle pf n prods = shuffle pf n (map (fun pr => [concat pr]) prods).
  Proof. unfold shuffle. rewrite <- produce_all_batch_irrelevant. reflexivity. Qed.

  (* membership form *)
  Theorem shuffle_in n prods outs p r :
    1 <= n -> shuffle pf n prods = Some outs ->
    (In r (nth p outs []) <-> (p < Z.to_nat n)%nat /\ In r (all_rows prods) /\ dest n r = Z.of_nat p).
  Proof.
    intros Hn S. destruct (shuffle_delivers_eq n prods outs Hn S) as [L D]. split.
    - intro I. assert (Hp : (p < Z.to_nat n)%nat).
      { destruct (Nat.lt_ge_cases p (length outs)) as [Lt|Ge]; [lia|].
        rewrite nth_overflow in I by exact Ge. destruct I. }
      rewrite D in I by exact Hp. apply filter_In in I as [I1 I2].
      unfold sel in I2. apply Z.eqb_eq in I2. auto.
    - intros (Hp & I & E). rewrite D by exact Hp. apply filter_In. split; [exact I|].
      unfold sel. apply Z.eqb_eq, E.
  Qed.
End ShuffleProofs.

(* ---- the shards partition the input: nothing is lost or duplicated ---- *)
Section Partition.
  Context {A : Type}.
  Variable d : A -> nat.

  Lemma filter_none (l : list A) (f : A -> bool) : (forall x, In x l -> f x = false) -> filter f l = [].
  Proof.
    induction l as [|x l IH]; intro H; cbn [filter]; [reflexivity|].
    rewrite H by (left; reflexivity). apply IH. intros y Hy. apply H. right. exact Hy.
  Qed.

  Lemma concat_filters_perm : forall (rows : list A) (m s : nat),
    (forall r, In r rows -> (s <= d r < s + m)%nat) ->
    Permutation (concat (map (fun p => filter (fun r => Nat.eqb (d r) p) rows) (seq s m))) rows.
  Proof.
    intros rows m. revert rows. induction m as [|m IH]; intros rows s H.
    - cbn [seq map concat]. destruct rows as [|r rows]; [constructor|].
      specialize (H r (or_introl eq_refl)). lia.
    - cbn [seq map concat].
      (* rows = those with d = s, interleaved with the others *)
      set (here := filter (fun r => Nat.eqb (d r) s) rows).
      set (rest := filter (fun r => negb (Nat.eqb (d r) s)) rows).
      assert (E : forall p, (s < p)%nat ->
                filter (fun r => Nat.eqb (d r) p) rows = filter (fun r => Nat.eqb (d r) p) rest).
      { intros p Hp. unfold rest. clear -Hp. induction rows as [|r rows IHr]; cbn [filter]; [reflexivity|].
        destruct (Nat.eqb_spec (d r) s) as [Es|Ns]; cbn [negb filter].
        - destruct (Nat.eqb_spec (d r) p); [lia | exact IHr].
        - destruct (Nat.eqb (d r) p); [f_equal|]; exact IHr. }
      assert (M : map (fun p => filter (fun r => Nat.eqb (d r) p) rows) (seq (S s) m)
                  = map (fun p => filter (fun r => Nat.eqb (d r) p) rest) (seq (S s) m)).
      { apply map_ext_in. intros p Hp. apply in_seq in Hp. apply E. lia. }
      rewrite M.
      assert (P : Permutation (concat (map (fun p => filter (fun r => Nat.eqb (d r) p) rest) (seq (S s) m))) rest).
      { apply IH. intros r Hr. unfold rest in Hr. apply filter_In in Hr as [Hr Hn].
        specialize (H r Hr). destruct (Nat.eqb_spec (d r) s); [discriminate|]. lia. }
      rewrite P. unfold here, rest. clear. induction rows as [|r rows IHr]; cbn [filter app]; [constructor|].
      destruct (Nat.eqb (d r) s); cbn [negb app].
      + constructor. exact IHr.
      + apply Permutation_sym, Permutation_cons_app, Permutation_sym. exact IHr.
  Qed.
End Partition.

(* ================================================================== property-level theorems *)
Section Redistribution.
  Context {A : Type}.

  Lemma inrange_dec (pf : Z -> A -> Z) n r : {inrange pf n r} + {~ inrange pf n r}.
  Proof.
    unfold inrange. destruct (Z_le_dec 0 (pf n r)); [|right; lia].
    destruct (Z_lt_dec (pf n r) n); [left; lia | right; lia].
  Qed.

  (* a run that succeeds placed every row inside [0, n) *)
  Lemma shuffle_some_inrange (pf : Z -> A -> Z) n prods outs :
    1 < n -> shuffle pf n prods = Some outs -> Forall (inrange pf n) (all_rows prods).
  Proof.
    intros H S. destruct (Forall_Exists_dec (inrange pf n) (inrange_dec pf n) (all_rows prods)) as [F|E];
      [exact F|]. rewrite (shuffle_fail pf n prods H E) in S. discriminate.
  Qed.

  Lemma dest_range (pf : Z -> A -> Z) n prods outs r :
    1 <= n -> shuffle pf n prods = Some outs -> In r (all_rows prods) -> 0 <= dest pf n r < n.
  Proof.
    intros Hn S I. unfold dest. destruct (Z.ltb_spec 1 n) as [H|H]; [|lia].
    pose proof (shuffle_some_inrange pf n prods outs H S) as F.
    rewrite Forall_forall in F. apply F, I.
  Qed.

  (* shuffle_delivers: consumer p receives exactly the rows with dest = p ... *)
  Theorem shuffle_delivers (pf : Z -> A -> Z) n prods outs p :
    1 <= n -> shuffle pf n prods = Some outs -> (p < Z.to_nat n)%nat ->
    Permutation (nth p outs []) (filter (fun r => Z.eqb (dest pf n r) (Z.of_nat p)) (all_rows prods)).
  Proof.
    intros Hn S Hp. destruct (shuffle_delivers_eq pf n prods outs Hn S) as [_ D].
    rewrite D by exact Hp. apply Permutation_refl.
  Qed.

  (* ... and the shards together are the input: nothing lost, nothing duplicated *)
  Theorem shuffle_partitions (pf : Z -> A -> Z) n prods outs :
    1 <= n -> shuffle pf n prods = Some outs -> Permutation (concat outs) (all_rows prods).
  Proof.
    intros Hn S. destruct (shuffle_delivers_eq pf n prods outs Hn S) as [L D].
    set (rows := all_rows prods) in *.
    set (d := fun r => Z.to_nat (dest pf n r)).
    assert (E : outs = map (fun p => filter (fun r => Nat.eqb (d r) p) rows) (seq 0 (Z.to_nat n))).
    { apply (nth_ext _ _ [] []); [rewrite map_length, seq_length; exact L|].
      intros p Hp. rewrite L in Hp. rewrite D, nth_map_seq by exact Hp.
      apply filter_ext_in. intros r Hr. unfold sel, d.
      pose proof (dest_range pf n prods outs r Hn S Hr) as R.
      destruct (Z.eqb_spec (dest pf n r) (Z.of_nat p)) as [E|E]; symmetry.
      - apply Nat.eqb_eq. lia.
      - apply Nat.eqb_neq. lia. }
    rewrite E. apply concat_filters_perm. intros r Hr.
    pose proof (dest_range pf n prods outs r Hn S Hr). unfold d. lia.
  Qed.

  Variable keyof : A -> list kval.

  (* the partitioner of every keyed operator: a function of the key columns and n only *)
  Definition keyed_pf (n : Z) (r : A) : Z := part (keyof r) n.

  Theorem keyed_shuffle_never_fails n prods :
    1 <= n < 4294967296 -> exists outs, shuffle keyed_pf n prods = Some outs.
  Proof.
    intro Hn. apply shuffle_ok; [lia|]. intros _. apply Forall_forall. intros r _.
    unfold inrange, keyed_pf. apply partition_in_range, Hn.
  Qed.

  Lemma keyed_dest n r : 1 <= n < 4294967296 -> dest keyed_pf n r = part (keyof r) n.
  Proof.
    intro Hn. unfold dest, keyed_pf. destruct (Z.ltb_spec 1 n); [reflexivity|].
    assert (n = 1) by lia. subst n. symmetry. apply part_one.
  Qed.

  (* colocated: whatever the producer, the batch and the position of two rows, equal
     keys end in the same shard, which is part(key, n) *)
  Theorem colocated n prods outs p1 p2 r1 r2 :
    1 <= n < 4294967296 -> shuffle keyed_pf n prods = Some outs ->
    In r1 (nth p1 outs []) -> In r2 (nth p2 outs []) -> keyof r1 = keyof r2 -> p1 = p2.
  Proof.
    intros Hn S I1 I2 E.
    apply (shuffle_in keyed_pf n prods outs) in I1; [|lia|exact S].
    apply (shuffle_in keyed_pf n prods outs) in I2; [|lia|exact S].
    destruct I1 as (_ & _ & D1). destruct I2 as (_ & _ & D2).
    rewrite keyed_dest in D1, D2 by exact Hn. rewrite E in D1. lia.
  Qed.

  Theorem shard_is_part n prods outs p r :
    1 <= n < 4294967296 -> shuffle keyed_pf n prods = Some outs ->
    In r (nth p outs []) -> Z.of_nat p = part (keyof r) n.
  Proof.
    intros Hn S I. apply (shuffle_in keyed_pf n prods outs) in I; [|lia|exact S].
    destruct I as (_ & _ & D). rewrite keyed_dest in D by exact Hn. lia.
  Qed.

  (* the same for keys that are equal as Go values: +0.0 and -0.0 included *)
  Theorem colocated_goeq n prods outs p1 p2 r1 r2 :
    1 <= n < 4294967296 -> shuffle keyed_pf n prods = Some outs ->
    In r1 (nth p1 outs []) -> In r2 (nth p2 outs []) ->
    key_eqb (keyof r1) (keyof r2) = true -> p1 = p2.
  Proof.
    intros Hn S I1 I2 E.
    pose proof (shard_is_part n prods outs p1 r1 Hn S I1) as D1.
    pose proof (shard_is_part n prods outs p2 r2 Hn S I2) as D2.
    rewrite (part_goeq _ _ n E) in D1. lia.
  Qed.

  (* ---- keyed aggregation: if every consumer shard emits each key it received once,
          every key of the input occurs in exactly one row of the whole result ---- *)
  Context {B : Type}.
  Variable keyB : B -> list kval.

  Lemma NoDup_app_disjoint {T} (l l' : list T) :
    NoDup l -> NoDup l' -> (forall x, In x l -> ~ In x l') -> NoDup (l ++ l').
  Proof.
    intros N N' D. induction l as [|x l IH]; cbn [app]; [exact N'|].
    inversion N as [|? ? Nx Nl]; subst. constructor.
    - intro I. apply in_app_or in I as [I|I]; [exact (Nx I)|]. exact (D x (or_introl eq_refl) I).
    - apply IH; [exact Nl|]. intros y Hy. apply D. right. exact Hy.
  Qed.

  Lemma NoDup_concat_disjoint {T} : forall (ls : list (list T)),
    (forall p, NoDup (nth p ls [])) ->
    (forall p q x, In x (nth p ls []) -> In x (nth q ls []) -> p = q) ->
    NoDup (concat ls).
  Proof.
    induction ls as [|l ls IH]; intros N D; cbn [concat]; [constructor|].
    apply NoDup_app_disjoint.
    - exact (N 0%nat).
    - apply IH; [intro p; exact (N (S p))|]. intros p q x Hp Hq.
      assert (S p = S q) by (apply (D (S p) (S q) x); assumption). lia.
    - intros x Hx Hc. apply in_concat in Hc as (l' & Hl' & Hx').
      apply In_nth with (d := []) in Hl' as (q & _ & Eq). subst l'.
      assert (0%nat = S q) by (apply (D 0%nat (S q) x); assumption). lia.
  Qed.

  Lemma in_concat_nth {T} (ls : list (list T)) x :
    In x (concat ls) <-> exists p, (p < length ls)%nat /\ In x (nth p ls []).
  Proof.
    split.
    - intro H. apply in_concat in H as (l & Hl & Hx).
      apply In_nth with (d := []) in Hl as (p & Lp & Ep). subst l. eauto.
    - intros (p & Lp & Hx). apply in_concat. exists (nth p ls []). split; [apply nth_In, Lp | exact Hx].
  Qed.

  Theorem keyed_distinct_global n prods shards (outs : list (list B)) :
    1 <= n < 4294967296 -> shuffle keyed_pf n prods = Some shards ->
    length outs = Z.to_nat n ->
    (forall p, (p < Z.to_nat n)%nat ->
        NoDup (map keyB (nth p outs [])) /\
        forall k, In k (map keyB (nth p outs [])) <-> In k (map keyof (nth p shards []))) ->
    NoDup (map keyB (concat outs)) /\
    forall k, In k (map keyB (concat outs)) <-> In k (map keyof (all_rows prods)).
  Proof.
    intros Hn S L H.
    assert (Hn1 : 1 <= n) by lia.
    assert (NM : forall p, nth p (map (map keyB) outs) [] = map keyB (nth p outs [])).
    { intro p. change (@nil (list kval)) with (map keyB []). apply map_nth. }
    split.
    - rewrite concat_map. apply NoDup_concat_disjoint.
      + intro p. rewrite NM. destruct (Nat.lt_ge_cases p (Z.to_nat n)) as [Lt|Ge].
        * apply H, Lt.
        * rewrite nth_overflow by lia. constructor.
      + intros p q k Hp Hq. rewrite NM in Hp, Hq.
        assert (Lp : (p < Z.to_nat n)%nat).
        { destruct (Nat.lt_ge_cases p (Z.to_nat n)); [assumption|]. rewrite nth_overflow in Hp by lia. destruct Hp. }
        assert (Lq : (q < Z.to_nat n)%nat).
        { destruct (Nat.lt_ge_cases q (Z.to_nat n)); [assumption|]. rewrite nth_overflow in Hq by lia. destruct Hq. }
        apply (H p Lp) in Hp. apply (H q Lq) in Hq.
        apply in_map_iff in Hp as (r1 & E1 & I1). apply in_map_iff in Hq as (r2 & E2 & I2).
        apply (colocated n prods shards p q r1 r2 Hn S I1 I2). congruence.
    - intro k. split.
      + intro I. apply in_map_iff in I as (b & Eb & Ib).
        apply in_concat_nth in Ib as (p & Lp & Ip). rewrite L in Lp.
        assert (Ik : In k (map keyB (nth p outs []))) by (apply in_map_iff; eauto).
        apply (H p Lp) in Ik. apply in_map_iff in Ik as (r & Er & Ir).
        apply (shuffle_in keyed_pf n prods shards) in Ir; [|exact Hn1|exact S].
        apply in_map_iff. exists r. tauto.
      + intro I. apply in_map_iff in I as (r & Er & Ir).
        pose proof (dest_range keyed_pf n prods shards r Hn1 S Ir) as R.
        set (p := Z.to_nat (dest keyed_pf n r)).
        assert (Lp : (p < Z.to_nat n)%nat) by (unfold p; lia).
        assert (Is : In r (nth p shards [])).
        { apply (shuffle_in keyed_pf n prods shards); [exact Hn1|exact S|]. unfold p. repeat split; auto; lia. }
        assert (Ik : In k (map keyB (nth p outs []))).
        { apply (H p Lp). apply in_map_iff. eauto. }
        apply in_map_iff in Ik as (b & Eb & Ib). apply in_map_iff. exists b. split; [exact Eb|].
        apply in_concat_nth. exists p. rewrite L. auto.
  Qed.
  (* ---- the same with key equality as Go's ==: no guard about negative zero ---- *)
  Definition keq (k1 k2 : list kval) : Prop := key_eqb k1 k2 = true.

  Lemma NoDupA_app_disjoint {T} (eqT : T -> T -> Prop) (l l' : list T) :
    NoDupA eqT l -> NoDupA eqT l' -> (forall x y, In x l -> In y l' -> ~ eqT x y) -> NoDupA eqT (l ++ l').
  Proof.
    intros N N' D. induction l as [|x l IH]; cbn [app]; [exact N'|].
    inversion N as [|? ? Nx Nl]; subst. constructor.
    - intro I. apply InA_app_iff in I as [I|I]; [exact (Nx I)|].
      apply InA_alt in I as (y & Exy & Iy). exact (D x y (or_introl eq_refl) Iy Exy).
    - apply IH; [exact Nl|]. intros a b Ha Hb. apply D; [right; exact Ha | exact Hb].
  Qed.

  Lemma NoDupA_concat_disjoint {T} (eqT : T -> T -> Prop) : forall (ls : list (list T)),
    (forall p, NoDupA eqT (nth p ls [])) ->
    (forall p q x y, In x (nth p ls []) -> In y (nth q ls []) -> eqT x y -> p = q) ->
    NoDupA eqT (concat ls).
  Proof.
    induction ls as [|l ls IH]; intros N D; cbn [concat]; [constructor|].
    apply NoDupA_app_disjoint.
    - exact (N 0%nat).
    - apply IH; [intro p; exact (N (S p))|]. intros p q x y Hp Hq E.
      assert (S p = S q) by (apply (D (S p) (S q) x y); assumption). lia.
    - intros x y Hx Hc E. apply in_concat in Hc as (l' & Hl' & Hy).
      apply In_nth with (d := []) in Hl' as (q & _ & Eq). subst l'.
      assert (0%nat = S q) by (apply (D 0%nat (S q) x y); assumption). lia.
  Qed.

  Theorem keyed_distinct_global_goeq n prods shards (outs : list (list B)) :
    1 <= n < 4294967296 -> shuffle keyed_pf n prods = Some shards ->
    length outs = Z.to_nat n ->
    (forall p, (p < Z.to_nat n)%nat ->
        NoDupA keq (map keyB (nth p outs [])) /\
        (forall b, In b (nth p outs []) -> exists r, In r (nth p shards []) /\ keq (keyB b) (keyof r)) /\
        (forall r, In r (nth p shards []) -> exists b, In b (nth p outs []) /\ keq (keyof r) (keyB b))) ->
    NoDupA keq (map keyB (concat outs)) /\
    forall r, In r (all_rows prods) -> exists b, In b (concat outs) /\ keq (keyof r) (keyB b).
  Proof.
    intros Hn S L H.
    assert (Hn1 : 1 <= n) by lia.
    assert (NM : forall p, nth p (map (map keyB) outs) [] = map keyB (nth p outs [])).
    { intro p. change (@nil (list kval)) with (map keyB []). apply map_nth. }
    assert (InLt : forall T (ls : list (list T)) p x, length ls = Z.to_nat n -> In x (nth p ls []) -> (p < Z.to_nat n)%nat).
    { intros T ls p x Ll I. destruct (Nat.lt_ge_cases p (Z.to_nat n)); [assumption|].
      rewrite nth_overflow in I by lia. destruct I. }
    split.
    - rewrite concat_map. apply NoDupA_concat_disjoint.
      + intro p. rewrite NM. destruct (Nat.lt_ge_cases p (Z.to_nat n)) as [Lt|Ge].
        * apply H, Lt.
        * rewrite nth_overflow by lia. constructor.
      + intros p q k k' Hp Hq E. rewrite NM in Hp, Hq.
        apply in_map_iff in Hp as (b1 & E1 & I1). apply in_map_iff in Hq as (b2 & E2 & I2). subst k k'.
        pose proof (InLt _ outs p b1 L I1) as Lp. pose proof (InLt _ outs q b2 L I2) as Lq.
        destruct (H p Lp) as (_ & Hb1 & _). destruct (H q Lq) as (_ & Hb2 & _).
        destruct (Hb1 b1 I1) as (r1 & Ir1 & K1). destruct (Hb2 b2 I2) as (r2 & Ir2 & K2).
        pose proof (shard_is_part n prods shards p r1 Hn S Ir1) as D1.
        pose proof (shard_is_part n prods shards q r2 Hn S Ir2) as D2.
        unfold keq in *.
        rewrite <- (part_goeq _ _ n K1) in D1. rewrite <- (part_goeq _ _ n K2) in D2.
        rewrite (part_goeq _ _ n E) in D1. lia.
    - intros r Ir.
      pose proof (dest_range keyed_pf n prods shards r Hn1 S Ir) as R.
      set (p := Z.to_nat (dest keyed_pf n r)).
      assert (Lp : (p < Z.to_nat n)%nat) by (unfold p; lia).
      assert (Is : In r (nth p shards [])).
      { apply (shuffle_in keyed_pf n prods shards); [exact Hn1|exact S|]. unfold p. repeat split; auto; lia. }
      destruct (H p Lp) as (_ & _ & Hr). destruct (Hr r Is) as (b & Ib & K).
      exists b. split; [|exact K]. apply in_concat_nth. exists p. rewrite L. auto.
  Qed.
End Redistribution.

(* ---- Repartition: the user function's value is the shard ---- *)
Theorem repartition_exact {A} (f : Z -> A -> Z) n prods :
  1 < n ->
  (Forall (fun r => 0 <= f n r < n) (all_rows prods) ->
     exists outs, shuffle f n prods = Some outs /\ length outs = Z.to_nat n /\
       forall p, (p < Z.to_nat n)%nat ->
         nth p outs [] = filter (fun r => Z.eqb (f n r) (Z.of_nat p)) (all_rows prods))
  /\ (Exists (fun r => ~ 0 <= f n r < n) (all_rows prods) -> shuffle f n prods = None).
Proof.
  intro H. split.
  - intro F. destruct (shuffle_ok f n prods) as [outs S]; [lia | intros _; exact F|].
    exists outs. destruct (shuffle_delivers_eq f n prods outs) as [L D]; [lia|exact S|].
    repeat split; [exact S | exact L|]. intros p Hp. rewrite D by exact Hp.
    apply filter_ext. intro r. unfold sel, dest.
    replace (1 <? n) with true by (symmetry; apply Z.ltb_lt; exact H). reflexivity.
  - intro E. apply shuffle_fail; [exact H | exact E].
Qed.

(* with a single shard the function is not consulted: everything is shard 0, and a
   function value outside [0,1) goes unnoticed *)
Theorem repartition_single {A} (f : Z -> A -> Z) prods :
  shuffle f 1 prods = Some [all_rows prods].
Proof.
  destruct (shuffle_ok f 1 prods) as [outs S]; [lia | intro; lia|].
  destruct (shuffle_delivers_eq f 1 prods outs) as [L D]; [lia|exact S|].
  rewrite S. f_equal. destruct outs as [|o [|o' outs]]; try discriminate L.
  f_equal. specialize (D 0%nat). cbn [nth] in D. rewrite D by (cbn; lia).
  apply filter_all_true. intro r. reflexivity.
Qed.

(* ================================================================== sanity: known vectors *)
Section Vectors.
Local Open Scope N_scope.
(* SMHasher / reference MurmurHash3_x86_32 verification vectors *)
Example murmur_empty_0 : sum32 [] 0 = 0. Proof. vm_compute. reflexivity. Qed.
Example murmur_empty_1 : sum32 [] 1 = 0x514E28B7. Proof. vm_compute. reflexivity. Qed.
Example murmur_empty_ff : sum32 [] 0xffffffff = 0x81F16F39. Proof. vm_compute. reflexivity. Qed.
Example murmur_zero4 : sum32 [0;0;0;0] 0 = 0x2362F9DE. Proof. vm_compute. reflexivity. Qed.
Example murmur_zero3 : sum32 [0;0;0] 0 = 0x85F0B427. Proof. vm_compute. reflexivity. Qed.
Example murmur_zero2 : sum32 [0;0] 0 = 0x30F4C306. Proof. vm_compute. reflexivity. Qed.
Example murmur_zero1 : sum32 [0] 0 = 0x514E28B7. Proof. vm_compute. reflexivity. Qed.
Example murmur_ff4 : sum32 [0xff;0xff;0xff;0xff] 0 = 0x76293B50. Proof. vm_compute. reflexivity. Qed.
Example murmur_le4 : sum32 [0x21;0x43;0x65;0x87] 0 = 0xF55B516B. Proof. vm_compute. reflexivity. Qed.
Example murmur_le4_seed : sum32 [0x21;0x43;0x65;0x87] 0x5082EDEE = 0x2362F9DE. Proof. vm_compute. reflexivity. Qed.
Example murmur_le3 : sum32 [0x21;0x43;0x65] 0 = 0x7E4A8634. Proof. vm_compute. reflexivity. Qed.
Example murmur_le2 : sum32 [0x21;0x43] 0 = 0xA0F7B07A. Proof. vm_compute. reflexivity. Qed.
Example murmur_le1 : sum32 [0x21] 0 = 0x72661CF4. Proof. vm_compute. reflexivity. Qed.
(* "Hello, world!" seed 1234, "The quick brown fox jumps over the lazy dog" seed 0x9747b28c *)
Example murmur_hello :
  sum32 [72;101;108;108;111;44;32;119;111;114;108;100;33] 1234 = 0xFAF6CDB3.
Proof. vm_compute. reflexivity. Qed.
Example murmur_fox :
  sum32 [84;104;101;32;113;117;105;99;107;32;98;114;111;119;110;32;102;111;120;32;106;117;109;112;115;32;
         111;118;101;114;32;116;104;101;32;108;97;122;121;32;100;111;103] 0x9747b28c = 0x2FA826CD.
Proof. vm_compute. reflexivity. Qed.

(* int8/int16/int32 keys are sign-extended to 32 bits, int/int64 to 64 bits *)
Example sign_extension_8 : hash_val 0 (VInt8 (-1)) = hash32 0xffffffff 0. Proof. reflexivity. Qed.
Example sign_extension_16 : hash_val 0 (VInt16 (-2)) = hash_val 0 (VUint32 0xfffffffe). Proof. reflexivity. Qed.
Example sign_extension_64 : hash_val 7 (VInt (-1)) = hash_val 7 (VUint64 0xffffffffffffffff). Proof. reflexivity. Qed.
Example width_matters : hash_val 0 (VInt32 5) <> hash_val 0 (VInt64 5). Proof. vm_compute. discriminate. Qed.
Example bool_wraps : hash_val 0xffffffff (VBool true) = 0. Proof. reflexivity. Qed.

(* non-vacuity of the shuffle theorems: three producers, two batches, a key occurring thrice *)
Example shuffle_example :
  let k1 := [VInt 1] in let k2 := [VString [97]] in
  shuffle (fun n (r : list kval * nat) => part (fst r) n) 4
          [[[(k1, 0%nat); (k2, 1%nat)]; [(k1, 2%nat)]]; []; [[(k2, 3%nat); (k1, 4%nat)]]]
  = Some [[(k1, 0%nat); (k1, 2%nat); (k1, 4%nat)]; []; [(k2, 1%nat); (k2, 3%nat)]; []].
Proof. vm_compute. reflexivity. Qed.

(* Fold over a slice whose prefix is 2 shuffles by both columns although it folds by
   the first (finding fold-prefixed-input): equal first columns, different shards *)
Example fold_prefix2_splits_key :
  part [VString [97]; VInt 1] 3 <> part [VString [97]; VInt 3] 3.
Proof. vm_compute. discriminate. Qed.

(* the former code ([norm = false]: the bits of x, not of x+0, were hashed): +0.0 and
   -0.0 are equal float64 keys with different hashes and, for 4 shards, different
   shards (former finding float-negzero-key, repaired in /repo) *)
Example negzero_split_key_formerly :
  (hash_val_gen false 0 (VFloat64 0) mod 4 <> hash_val_gen false 0 (VFloat64 0x8000000000000000) mod 4).
Proof. vm_compute. discriminate. Qed.
(* the current code sends them to the same shard, for every shard count *)
Example negzero_same_shard n :
  part [VFloat64 0] n = part [VFloat64 0x8000000000000000] n
  /\ part [VFloat32 0] n = part [VFloat32 0x80000000] n.
Proof. split; apply part_goeq; reflexivity. Qed.
End Vectors.

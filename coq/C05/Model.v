(* C05 — executable model of keyed redistribution.
   No proofs here: the model must still evaluate when a proof is broken.

   Anchors (statement by statement):
     murmur3.Sum32WithSeed          github.com/spaolacci/murmur3@v1.1.0/murmur32.go
     hash32 / hash64                /repo/frame/ops_builtin.go
     per-type Ops.HashWithSeed      /repo/frame/ops_builtin.go, /repo/frame/ops.go (init)
     Frame.Hash / HashWithSeed      /repo/frame/frame.go
     defaultPartitioner             /repo/exec/compile.go
     bufferOutput (partitioned)     /repo/exec/local.go, same loop in exec/bigmachine.go
     consumer reads partition p of every producer   exec/compile.go (TaskDep), exec/local.go depReaders
     Repartition's partitioner      /repo/reshuffle.go

   uint32 values are N below 2^32; Go int values are Z (64-bit int assumed).
   A byte is an N below 256. The murmur block load (a uint32 read through unsafe.Pointer)
   is native-endian; the model is little-endian (amd64/arm64). *)
From Coq Require Import List NArith ZArith Bool.
Import ListNotations.
Require Import BS.Common.Util BS.Gen.C05_params.
Local Open Scope N_scope.

(* ------------------------------------------------------------------ uint32 *)
Definition mask32 : N := 4294967295.
Definition mask64 : N := 18446744073709551615.
Definition w32 (x : N) : N := N.land x mask32.
Definition w64 (x : N) : N := N.land x mask64.
Definition add32 (a b : N) : N := w32 (a + b).
Definition mul32 (a b : N) : N := w32 (a * b).
Definition shl32 (x r : N) : N := w32 (N.shiftl x r).
(* (x << r) | (x >> (32 - r)) on uint32 *)
Definition rotl32 (x r : N) : N := N.lor (shl32 x r) (N.shiftr x (32 - r)).

(* Go conversions uint32(x), uint64(x) of a signed integer: two's complement *)
Definition u32_of_Z (x : Z) : N := Z.to_N (Z.modulo x 4294967296).
Definition u64_of_Z (x : Z) : N := Z.to_N (Z.modulo x 18446744073709551616).
Definition byte (x : N) : N := N.land x 255.

(* ------------------------------------------------------------------ murmur3-32 *)
Definition c1_32 : N := 3432918353.   (* 0xcc9e2d51 *)
Definition c2_32 : N := 461845907.    (* 0x1b873593 *)

(* k1 *= c1_32; k1 = rotl32(k1, 15); k1 *= c2_32 *)
Definition mixk (k1 : N) : N := mul32 (rotl32 (mul32 k1 c1_32) 15) c2_32.

(* h1 ^= k1; h1 = rotl32(h1, 13); h1 = h1*4 + h1 + 0xe6546b64 *)
Definition mixh (h1 k1 : N) : N :=
  let h := rotl32 (N.lxor h1 k1) 13 in
  add32 (add32 (mul32 h 4) h) 3864292196.

(* little-endian load of one 4-byte block *)
Definition le32 (b0 b1 b2 b3 : N) : N :=
  N.lor (N.lor b0 (N.shiftl b1 8)) (N.lor (N.shiftl b2 16) (N.shiftl b3 24)).

(* the block loop: returns the running hash and the tail data[nblocks*4:] *)
Fixpoint body (h1 : N) (data : list N) : N * list N :=
  match data with
  | b0 :: b1 :: b2 :: b3 :: rest => body (mixh h1 (mixk (le32 b0 b1 b2 b3))) rest
  | _ => (h1, data)
  end.

(* switch len(tail) & 3 { case 3: ...; fallthrough; case 2: ...; fallthrough; case 1: ... } *)
Definition tailmix (h1 : N) (tail : list N) : N :=
  match tail with
  | [t0] => N.lxor h1 (mixk t0)
  | [t0; t1] => N.lxor h1 (mixk (N.lxor (N.shiftl t1 8) t0))
  | [t0; t1; t2] => N.lxor h1 (mixk (N.lxor (N.lxor (N.shiftl t2 16) (N.shiftl t1 8)) t0))
  | _ => h1
  end.

Definition fmix32 (h : N) : N :=
  let h := N.lxor h (N.shiftr h 16) in
  let h := mul32 h 2246822507 in          (* 0x85ebca6b *)
  let h := N.lxor h (N.shiftr h 13) in
  let h := mul32 h 3266489909 in          (* 0xc2b2ae35 *)
  N.lxor h (N.shiftr h 16).

Definition sum32 (data : list N) (seed : N) : N :=
  let '(h1, tail) := body seed data in
  let h1 := tailmix h1 tail in
  let h1 := N.lxor h1 (w32 (N.of_nat (length data))) in
  fmix32 h1.

(* ------------------------------------------------------------------ hash32 / hash64 *)
Definition hash32 (x seed : N) : N :=
  sum32 [byte x; byte (N.shiftr x 8); byte (N.shiftr x 16); byte (N.shiftr x 24)] seed.

Definition hash64 (x seed : N) : N :=
  sum32 [byte x; byte (N.shiftr x 8); byte (N.shiftr x 16); byte (N.shiftr x 24);
         byte (N.shiftr x 32); byte (N.shiftr x 40); byte (N.shiftr x 48); byte (N.shiftr x 56)] seed.

(* ------------------------------------------------------------------ key values
   One constructor per Go column type with registered hashing. Signed integers
   carry their value, unsigned their value, floats their IEEE bit pattern
   (math.Float32bits / math.Float64bits; the driver supplies it), strings and
   byte slices their bytes. *)
Inductive kval : Type :=
| VString (bs : list N)
| VBytes (bs : list N)
| VBool (b : bool)
| VUnit                       (* struct{} *)
| VUint (x : N) | VUint8 (x : N) | VUint16 (x : N) | VUint32 (x : N) | VUint64 (x : N) | VUintptr (x : N)
| VInt (x : Z) | VInt8 (x : Z) | VInt16 (x : Z) | VInt32 (x : Z) | VInt64 (x : Z)
| VFloat32 (bits : N) | VFloat64 (bits : N).

(* Float keys: the code hashes math.Float32bits(x+0) / Float64bits(x+0); x+0 turns
   -0.0 (only the sign bit set) into +0.0 and leaves every other non-NaN value
   unchanged. [norm = false] is the former code, which hashed the bits of x. *)
Definition fnorm32 (norm : bool) (bits : N) : N :=
  if norm && N.eqb bits 2147483648 then 0 else bits.
Definition fnorm64 (norm : bool) (bits : N) : N :=
  if norm && N.eqb bits 9223372036854775808 then 0 else bits.

(* read from the source by goparams: is the argument of Float32bits/Float64bits `slice[i]+0`? *)
Definition float_norm : bool := float_hash_normalises_zero.

(* Ops.HashWithSeed(i, seed) of the column type, on the value at index i *)
Definition hash_val_gen (norm : bool) (seed : N) (v : kval) : N :=
  match v with
  | VString bs => sum32 bs seed                     (* murmur3.Sum32WithSeed([]byte(s), seed) *)
  | VBytes bs => sum32 bs seed
  | VBool b => if b then add32 seed 1 else seed     (* seed + 1 on uint32 *)
  | VUnit => seed
  | VUint x => hash64 (w64 x) seed
  | VUint8 x => hash32 (w32 x) seed
  | VUint16 x => hash32 (w32 x) seed
  | VUint32 x => hash32 (w32 x) seed
  | VUint64 x => hash64 (w64 x) seed
  | VUintptr x => hash64 (w64 x) seed
  | VInt x => hash64 (u64_of_Z x) seed
  | VInt8 x => hash32 (u32_of_Z x) seed             (* uint32(int8): sign extension *)
  | VInt16 x => hash32 (u32_of_Z x) seed
  | VInt32 x => hash32 (u32_of_Z x) seed
  | VInt64 x => hash64 (u64_of_Z x) seed
  | VFloat32 bits => hash32 (fnorm32 norm (w32 bits)) seed
  | VFloat64 bits => hash64 (fnorm64 norm (w64 bits)) seed
  end.

Definition hash_val : N -> kval -> N := hash_val_gen float_norm.

(* ---- key equality as Go's == on the column type (NaN is outside the property);
        +0.0 == -0.0 although their bit patterns differ ---- *)
Definition bytes_eqb := list_eqb N.eqb.
Definition fzero32 (b : N) : bool := let x := w32 b in N.eqb x 0 || N.eqb x 2147483648.
Definition fzero64 (b : N) : bool := let x := w64 b in N.eqb x 0 || N.eqb x 9223372036854775808.

Definition kval_eqb (a b : kval) : bool :=
  match a, b with
  | VString x, VString y => bytes_eqb x y
  | VBytes x, VBytes y => bytes_eqb x y
  | VBool x, VBool y => Bool.eqb x y
  | VUnit, VUnit => true
  | VUint x, VUint y | VUint8 x, VUint8 y | VUint16 x, VUint16 y
  | VUint32 x, VUint32 y | VUint64 x, VUint64 y | VUintptr x, VUintptr y => N.eqb x y
  | VInt x, VInt y | VInt8 x, VInt8 y | VInt16 x, VInt16 y
  | VInt32 x, VInt32 y | VInt64 x, VInt64 y => Z.eqb x y
  | VFloat32 x, VFloat32 y => N.eqb x y || (fzero32 x && fzero32 y)
  | VFloat64 x, VFloat64 y => N.eqb x y || (fzero64 x && fzero64 y)
  | _, _ => false
  end.
Definition key_eqb : list kval -> list kval -> bool := list_eqb kval_eqb.

Notation key := (list kval) (only parsing).

(* xor over the key columns, starting from `var hash uint32` *)
Definition key_hash (seed : N) (k : key) : N :=
  fold_left (fun h v => N.lxor h (hash_val seed v)) k 0.

(* ------------------------------------------------------------------ Frame.HashWithSeed
   A frame for hashing purposes: columns of values, the view offset, and the Go
   field `prefix` (index of the last key column = Prefix()-1). *)
Record hframe := mkHF { hcols : list (list kval); hoff : nat; hprefix : nat }.

Definition hcell (f : hframe) (c i : nat) : kval := nth (i + hoff f) (nth c (hcols f) []) VUnit.

(* for col := 0; col < f.prefix; col++ { hash ^= ops.HashWithSeed(i+f.off, seed) } *)
Fixpoint hash_loop (f : hframe) (i : nat) (seed : N) (ncol : nat) (col : nat) (hash : N) : N :=
  match ncol with
  | O => hash
  | S m => hash_loop f i seed m (S col) (N.lxor hash (hash_val seed (hcell f col i)))
  end.

Definition frame_hash_with_seed (f : hframe) (i : nat) (seed : N) : N :=
  let hash := hash_loop f i seed (hprefix f) 0%nat 0 in
  N.lxor hash (hash_val seed (hcell f (hprefix f) i)).

Definition frame_hash (f : hframe) (i : nat) : N := frame_hash_with_seed f i 0.

(* the key of row i: the first Prefix() cells *)
Definition row_key (f : hframe) (i : nat) : key :=
  map (fun c => hcell f c i) (seq 0 (S (hprefix f))).

(* ------------------------------------------------------------------ defaultPartitioner
   shards[i] = int(frame.Hash(i) % uint32(nshard)).  uint32(nshard) == 0 makes Go
   panic (integer divide by zero). *)
Inductive pres : Type := PShard (p : Z) | PPanic.

Definition default_partitioner (k : key) (nshard : Z) : pres :=
  let d := u32_of_Z nshard in
  if N.eqb d 0 then PPanic else PShard (Z.of_N (N.modulo (key_hash 0 k) d)).

(* as an index: a panic never yields a valid shard *)
Definition part (k : key) (nshard : Z) : Z :=
  match default_partitioner k nshard with PShard p => p | PPanic => (-1)%Z end.

(* ------------------------------------------------------------------ the shuffle
   Rows of any type A; [pf n r] is the partition the task's Partitioner assigns to
   row r for n partitions (for the default partitioner: part (keyof r) n; for
   Repartition (reshuffle.go) the wrapped user function, whose result is used as
   the partition index as is). A producer task reads its output batch by batch
   and appends every row to its partition buffer; the partitioner is consulted
   only when NumPartition > 1, and an index outside [0, n) panics in buf[p]
   (recovered by bufferOutput: the task, hence the run, fails). Consumer shard p
   reads partition p of every producer, in producer order. *)
Section Shuffle.
  Context {A : Type}.
  Variable pf : Z -> A -> Z.

  (* buf[p] = append(buf[p], r) *)
  Definition add_at (p : nat) (r : A) (buf : list (list A)) : list (list A) :=
    firstn p buf ++ (nth p buf [] ++ [r]) :: skipn (S p) buf.

  (* for i := 0; i < n; i++ { p := shards[i]; buf[p] = append(buf[p], in[i]) } *)
  Fixpoint place (n : Z) (rows : list A) (buf : list (list A)) : option (list (list A)) :=
    match rows with
    | [] => Some buf
    | r :: rest =>
        let p := pf n r in
        if ((0 <=? p) && (p <? n))%Z then place n rest (add_at (Z.to_nat p) r buf)
        else None                                  (* index out of range: task fails *)
    end.

  (* NumPartition == 1: buf[0] = append(buf[0], in), the partitioner is not consulted *)
  Fixpoint add_all0 (b : list A) (buf : list (list A)) : list (list A) :=
    match b with
    | [] => buf
    | r :: rest => add_all0 rest (add_at 0 r buf)
    end.

  Fixpoint buffer_batches (n : Z) (batches : list (list A)) (buf : list (list A))
    : option (list (list A)) :=
    match batches with
    | [] => Some buf
    | b :: bs =>
        if (1 <? n)%Z then
          match place n b buf with
          | Some buf' => buffer_batches n bs buf'
          | None => None
          end
        else buffer_batches n bs (add_all0 b buf)
    end.

  (* buf = make(taskBuffer, task.NumPartition) *)
  Definition buffer_output (n : Z) (batches : list (list A)) : option (list (list A)) :=
    buffer_batches n batches (repeat [] (Z.to_nat n)).

  (* every producer runs; any failure fails the run *)
  Fixpoint produce_all (n : Z) (producers : list (list (list A))) : option (list (list (list A))) :=
    match producers with
    | [] => Some []
    | pr :: rest =>
        match buffer_output n pr, produce_all n rest with
        | Some b, Some bs => Some (b :: bs)
        | _, _ => None
        end
    end.

  (* consumer shard p: multiReader over partition p of every producer *)
  Definition consumer (bufs : list (list (list A))) (p : nat) : list A :=
    concat (map (fun buf => nth p buf []) bufs).

  Definition shuffle (n : Z) (producers : list (list (list A))) : option (list (list A)) :=
    match produce_all n producers with
    | Some bufs => Some (map (consumer bufs) (seq 0 (Z.to_nat n)))
    | None => None
    end.
End Shuffle.

Arguments w32 : simpl never.
Arguments mul32 : simpl never.
Arguments sum32 : simpl never.
Arguments hash32 : simpl never.
Arguments hash64 : simpl never.
Arguments hash_val : simpl never.
Arguments hash_val_gen : simpl never.
Arguments key_hash : simpl never.

(* C05 — correspondence drivers: evaluated by vm_compute on harness case files. *)
From Coq Require Import List NArith ZArith Bool.
Import ListNotations.
Require Export BS.Common.Util BS.C05.Model.
Local Open Scope Z_scope.

(* key equality as Go's == on the column type: kval_eqb / key_eqb of Model.v *)

(* ---- cases ---- *)
Inductive ity : Type := TInt8 | TUint8 | TInt16 | TUint16.
Definition ity_val (t : ity) (x : Z) : kval :=
  match t with
  | TInt8 => VInt8 x | TUint8 => VUint8 (Z.to_N x)
  | TInt16 => VInt16 x | TUint16 => VUint16 (Z.to_N x)
  end.

Inductive opk : Type := OReduce | OFold | OCogroup | OReshuffle | OReshard | ORepartition.

(* an input row: the columns the producer's partitioner sees as the frame's key
   prefix (for Repartition: all columns), and what Repartition's function returns for it *)
Record irow := mkIn { ikey : list kval; iwant : Z }.
(* a row seen by the writer appended after the operator: the operator's key
   columns (for Repartition: all columns) and the shard that saw it *)
Record orow := mkOut { okey : list kval; oshard : Z }.

Inductive case : Type :=
(* Frame.HashWithSeed of one key, observed at several placements (frame sizes,
   view offsets, row indices; in the thorough tier also in a second process) *)
| CHash (k : list kval) (seed : N) (obs : list N)
(* sweep: keys lo, lo+1, ... of one 8/16-bit type, each observed at two placements *)
| CHashRange (t : ity) (seed : N) (lo : Z) (obsA obsB : list N)
(* the same key hashed through Frame.HashWithSeed in two separately started OS
   processes (each at a few placements): obs1 by the driver, obs2 by a second process;
   ns are shard counts for which the shard (hash mod n) is compared as well *)
| CCross (k : list kval) (seed : N) (ns : list Z) (obs1 obs2 : list N)
(* end to end: producers -> batches -> rows, whether Run failed, the (key, shard)
   pairs recorded after the operator, and the same recorded by a second OS process *)
| CPart (op : opk) (n : Z) (prods : list (list (list irow))) (failed : bool)
        (outs : list orow) (other : option (list orow)).

(* ---- model predictions ---- *)
Definition agg (op : opk) : bool :=
  match op with OReduce | OFold | OCogroup => true | _ => false end.

(* Fold aggregates by the first column whatever the prefix of its input is *)
Definition op_key (op : opk) (k : list kval) : list kval :=
  match op with OFold => firstn 1 k | _ => k end.

Definition pf_of (op : opk) (n : Z) (r : irow) : Z :=
  match op with ORepartition => iwant r | _ => part (ikey r) n end.

Definition orow_eqb (a b : orow) : bool := key_eqb (okey a) (okey b) && Z.eqb (oshard a) (oshard b).

Fixpoint dedupe (l : list orow) : list orow :=
  match l with
  | [] => []
  | x :: r => if existsb (orow_eqb x) r then dedupe r else x :: dedupe r
  end.

Fixpoint remove1 (x : orow) (l : list orow) : option (list orow) :=
  match l with
  | [] => None
  | y :: r => if orow_eqb x y then Some r
              else match remove1 x r with Some r' => Some (y :: r') | None => None end
  end.
Fixpoint multiset_eqb (a b : list orow) : bool :=
  match a with
  | [] => match b with [] => true | _ => false end
  | x :: r => match remove1 x b with Some b' => multiset_eqb r b' | None => false end
  end.

Fixpoint tag_shards (op : opk) (p : Z) (shards : list (list irow)) : list orow :=
  match shards with
  | [] => []
  | s :: rest => map (fun r => mkOut (op_key op (ikey r)) p) s ++ tag_shards op (p + 1) rest
  end.

(* what the writer after the operator sees according to the model; None = the run fails *)
Definition predicted (op : opk) (n : Z) (prods : list (list (list irow))) : option (list orow) :=
  match shuffle (pf_of op) n prods with
  | None => None
  | Some shards =>
      let rows := tag_shards op 0 shards in
      Some (if agg op then dedupe rows else rows)
  end.

Definition range_keys (t : ity) (lo : Z) (n : nat) : list kval :=
  map (fun j => ity_val t (lo + Z.of_nat j)) (seq 0 n).

Definition case_exact (c : case) : bool :=
  match c with
  | CHash k seed obs => let h := key_hash seed k in forallb (N.eqb h) obs
  | CHashRange t seed lo obsA obsB =>
      let hs := map (hash_val seed) (range_keys t lo (length obsA)) in
      list_eqb N.eqb hs obsA && list_eqb N.eqb hs obsB
  | CCross k seed _ obs1 obs2 => let h := key_hash seed k in forallb (N.eqb h) (obs1 ++ obs2)
  | CPart op n prods failed outs other =>
      match predicted op n prods with
      | None => failed
      | Some rows =>
          negb failed && multiset_eqb rows outs
          && match other with None => true | Some o => multiset_eqb rows o end
      end
  end.

(* ---- the property, judged on what the implementation did ---- *)
(* all rows with equal keys are in the same shard *)
Fixpoint colocated_ok (l : list orow) : bool :=
  match l with
  | [] => true
  | x :: r => forallb (fun y => negb (key_eqb (okey x) (okey y)) || Z.eqb (oshard x) (oshard y)) r
              && colocated_ok r
  end.
(* every key is emitted once *)
Fixpoint once_ok (l : list orow) : bool :=
  match l with
  | [] => true
  | x :: r => negb (existsb (fun y => key_eqb (okey x) (okey y)) r) && once_ok r
  end.
Definition in_range (n w : Z) : bool := (0 <=? w) && (w <? n).
Definition all_rows (prods : list (list (list irow))) : list irow := concat (map (@concat irow) prods).
(* every row whose function value is a valid shard is in exactly that shard, and
   every row seen is in the shard the function returned for it *)
Definition repart_ok (n : Z) (ins : list irow) (outs : list orow) : bool :=
  forallb (fun i => negb (in_range n (iwant i))
                    || existsb (fun o => key_eqb (okey o) (ikey i) && Z.eqb (oshard o) (iwant i)) outs) ins
  && forallb (fun o => existsb (fun i => key_eqb (okey o) (ikey i)
                                       && (Z.eqb (oshard o) (iwant i) || negb (in_range n (iwant i)))) ins) outs.

Fixpoint all_eq (l : list N) : bool :=
  match l with
  | x :: ((y :: _) as r) => N.eqb x y && all_eq r
  | _ => true
  end.

(* the shard the default partitioner derives from an observed hash *)
Definition shard_of_hash (h : N) (n : Z) : N := N.modulo h (u32_of_Z n).

Definition case_ok (c : case) : bool :=
  match c with
  (* both processes observed something, all hashes agree, hence all shards agree;
     judged on the observations alone: the model's value is not consulted *)
  | CCross _ _ ns obs1 obs2 =>
      match obs1, obs2 with
      | h1 :: _, _ :: _ =>
          all_eq (obs1 ++ obs2)
          && forallb (fun n => forallb (fun h => N.eqb (shard_of_hash h n) (shard_of_hash h1 n)) (obs1 ++ obs2)) ns
      | _, _ => false
      end
  | CHash _ _ obs => all_eq obs                          (* position/process independent *)
  | CHashRange _ _ _ obsA obsB => list_eqb N.eqb obsA obsB
  | CPart op n prods failed outs other =>
      match op with
      | ORepartition =>
          failed || (repart_ok n (all_rows prods) outs
                     && match other with None => true | Some o => repart_ok n (all_rows prods) o end)
      | _ =>
          let o := match other with None => [] | Some o => o end in
          colocated_ok (outs ++ o) && (negb (agg op) || (once_ok outs && once_ok o))
      end
  end.

Definition mismatches (cs : list case) : list nat := bad_indices case_exact cs.
Definition violations (cs : list case) : list nat := bad_indices case_ok cs.

(* C10 — correspondence drivers: evaluated by vm_compute on harness case files. *)
From Coq Require Import List ZArith Bool.
Import ListNotations.
Require Export BS.Common.Util BS.C10.Model.
Local Open Scope Z_scope.

(* the combiners the driver uses (all associative and commutative) *)
Inductive cop := OpAdd | OpMax | OpMin.
Definition comb_of (o : cop) : Z -> Z -> Z :=
  match o with OpAdd => Z.add | OpMax => Z.max | OpMin => Z.min end.

(* One run: the inputs and, in [outcome], what the implementation did.
   Observed error codes: the code e of the scripted [Fail e] that came back (>= 0);
   -1 = the call panicked; -2 = watchdog (hang / endless reads); -3 = any other error.
   Observed [CFuel] = the constructor hung. *)
Inductive case :=
| CSort (canary batch : nat) (target : Z) (sizes : list Z) (s : list resp) (demands : list nat) (o : outcome)
| CMerge (batch : nat) (rs : list (list resp)) (demands : list nat) (o : outcome)
| CReduce (chunk : nat) (op : cop) (rs : list (list resp)) (demands : list nat) (o : outcome).

(* ---- canonicalisation: rows sorted by (key, value) ---- *)
Definition row_leb (a b : Z * Z) : bool :=
  (fst a <? fst b) || ((fst a =? fst b) && (snd a <=? snd b)).
Fixpoint cinsert (x : Z * Z) (l : list (Z * Z)) : list (Z * Z) :=
  match l with
  | [] => [x]
  | y :: r => if row_leb x y then x :: l else y :: cinsert x r
  end.
Fixpoint canon (l : list (Z * Z)) : list (Z * Z) :=
  match l with [] => [] | x :: r => cinsert x (canon r) end.

Definition row_eqb (a b : Z * Z) : bool := (fst a =? fst b) && (snd a =? snd b).
Definition rows_eqb := list_eqb row_eqb.
Definition same_multiset (a b : list (Z * Z)) : bool := rows_eqb (canon a) (canon b).

Fixpoint sorted_keysb (l : list (Z * Z)) : bool :=
  match l with
  | x :: ((y :: _) as r) => (fst x <=? fst y) && sorted_keysb r
  | _ => true
  end.
Fixpoint strict_keysb (l : list (Z * Z)) : bool :=
  match l with
  | x :: ((y :: _) as r) => (fst x <? fst y) && strict_keysb r
  | _ => true
  end.

Definition status_eqb (a b : status) : bool :=
  match a, b with
  | SOk, SOk => true
  | SEof, SEof => true
  | SErr x, SErr y => Z.eqb x y
  | _, _ => false
  end.
Definition is_err (s : status) : bool := match s with SErr _ => true | _ => false end.
Definition create_eqb (a b : create) : bool :=
  match a, b with
  | COk, COk => true
  | CErr x, CErr y => Z.eqb x y
  | CPanic, CPanic => true
  | CFuel, CFuel => true
  | _, _ => false
  end.

(* the codes with which the given inputs fail *)
Definition fail_codes (rs : list (list resp)) : list Z :=
  flat_map (fun s => match sfin s with SErr e => [e] | _ => [] end) rs.
Definition memZ (x : Z) (l : list Z) : bool := existsb (Z.eqb x) l.

(* ---- model vs implementation ----
   Which of several equal keys the heap yields first is not fixed, therefore:
   when the model ends with EOF every Read must agree in count and status, the key
   sequence must agree exactly and the rows as a multiset; when the model ends with an
   error (which Read hits a failing input first depends on ties) only the kind of
   ending is compared and the reported code must be one of the inputs' codes. *)
Definition reads_agree (codes : list Z) (mr orr : list (list (Z * Z) * status)) : bool :=
  match final_status mr with
  | SErr _ =>
      match final_status orr with SErr e => memZ e codes | _ => false end
  | _ =>
      list_eqb (fun a b => Nat.eqb (length (fst a)) (length (fst b)) && status_eqb (snd a) (snd b)) mr orr
      && list_eqb Z.eqb (map fst (out_rows mr)) (map fst (out_rows orr))
      && same_multiset (out_rows mr) (out_rows orr)
  end.

Definition outcome_agree (codes : list Z) (m o : outcome) : bool :=
  create_eqb (ocreate m) (ocreate o)
  && reads_agree codes (oreads m) (oreads o)
  && list_eqb Nat.eqb (olens m) (olens o)
  && Nat.eqb (oleft m) (oleft o).

Definition real_oracle (target : Z) (batch : nat) (sizes : list Z) : nat -> nat -> option nat :=
  fun i cur => real_next target (Z.of_nat batch) (nth i sizes 0) cur.

(* The destination sizes of a case are those the implementation was asked with
   until it ended.  When an input fails, ties decide after how many Reads the
   failure is met, so the model is given further Reads (of one row) to get there. *)
Definition extend (demands : list nat) (rs : list (list resp)) : list nat :=
  demands ++ repeat 1%nat (S (S (length (concat (map srows rs))))).

Definition model_of (c : case) : outcome :=
  match c with
  | CSort canary batch target sizes s demands _ =>
      run_sort canary batch (real_oracle target batch sizes) s (extend demands [s])
  | CMerge batch rs demands _ => run_merge batch rs (extend demands rs)
  | CReduce chunk op rs demands _ => run_reduce chunk (comb_of op) rs (extend demands rs)
  end.

Definition observed_of (c : case) : outcome :=
  match c with
  | CSort _ _ _ _ _ _ o => o
  | CMerge _ _ _ o => o
  | CReduce _ _ _ _ o => o
  end.

Definition inputs_of (c : case) : list (list resp) :=
  match c with
  | CSort _ _ _ _ s _ _ => [s]
  | CMerge _ rs _ _ => rs
  | CReduce _ _ rs _ _ => rs
  end.

Definition agrees (c : case) : bool :=
  outcome_agree (fail_codes (inputs_of c)) (model_of c) (observed_of c).

(* ---- the property, judged on the implementation's output alone ---- *)

(* how the run ended for the caller: the constructor's error, else the last Read's *)
Definition ending (o : outcome) : status :=
  match ocreate o with
  | COk => final_status (oreads o)
  | CErr e => SErr e
  | CPanic => SErr (-1)
  | CFuel => SErr (-2)
  end.

(* an input's failure is reported as an error: not EOF, not a panic, not a hang *)
Definition reported (o : outcome) : bool :=
  match ending o with
  | SErr e => negb (e =? -1) && negb (e =? -2)
  | _ => false
  end.
Definition clean_eof (o : outcome) : bool :=
  match ocreate o with COk => status_eqb (final_status (oreads o)) SEof | _ => false end.

Definition any_fails (rs : list (list resp)) : bool :=
  existsb (fun s => is_err (sfin s)) rs.

(* one row per distinct key, ascending, carrying the fold of that key's values *)
Definition reduce_check (comb : Z -> Z -> Z) (all out : list (Z * Z)) : bool :=
  strict_keysb out
  && forallb (fun r => memZ (fst r) (map fst out)) all
  && forallb (fun r => memZ (fst r) (map fst all)) out
  && forallb (fun r => snd r =? fold1 comb (kvals (fst r) all)) out.

Definition ok (c : case) : bool :=
  match c with
  | CSort canary batch target sizes s demands o =>
      Nat.eqb (oleft o) 0
      && (if is_err (sfin s) then reported o
          else clean_eof o
               && sorted_keysb (out_rows (oreads o))
               && same_multiset (out_rows (oreads o)) (srows s))
  | CMerge batch rs demands o =>
      if forallb no_empty_reads rs && forallb (fun s => sorted_keysb (srows s)) rs then
        if any_fails rs then reported o
        else clean_eof o
             && sorted_keysb (out_rows (oreads o))
             && same_multiset (out_rows (oreads o)) (concat (map srows rs))
      else true        (* outside the property's quantifier *)
  | CReduce chunk op rs demands o =>
      if forallb no_empty_reads rs && forallb (fun s => strict_keysb (srows s)) rs then
        if any_fails rs then reported o
        else clean_eof o
             && reduce_check (comb_of op) (concat (map srows rs)) (out_rows (oreads o))
      else true
  end.

Definition mismatches (cs : list case) : list nat := bad_indices agrees cs.
Definition violations (cs : list case) : list nat := bad_indices ok cs.

(* C10 — sortio.Reduce (reader.Read): one row per distinct key, ascending, carrying
   the fold of that key's values; errors reported. *)
From Coq Require Import List ZArith Lia Bool Permutation Sorted.
Import ListNotations.
Require Import BS.C10.Model BS.C10.Lists BS.C10.Buffers BS.C10.Proofs.
Local Open Scope Z_scope.

Definition strict_bufs (bs : list fbuf) : Prop := Forall (fun b => kstrict (bstream b)) bs.

(* ================= gathering the buffers with the smallest key ================= *)

Lemma gather_spec c0 : forall fuel bs comb cs bs1,
  (length bs <= fuel)%nat ->
  Forall (fun b => bkey c0 <= bkey b) bs ->
  gather fuel c0 bs comb = (cs, bs1) ->
  exists extra, cs = comb ++ extra /\ Permutation bs (extra ++ bs1) /\
    Forall (fun b => bkey b = bkey c0) extra /\ Forall (fun b => bkey c0 < bkey b) bs1.
Proof.
  induction fuel as [|f IH]; intros bs comb cs bs1 Hl Hge; simpl.
  - intro H; inversion H; subst. destruct bs1; [|simpl in Hl; lia].
    exists []. rewrite app_nil_r. repeat split; auto.
  - destruct bs as [|b0 bs0] eqn:Eb.
    + intro H; inversion H; subst. exists []. rewrite app_nil_r. repeat split; auto.
    + rewrite <- Eb in *. assert (Hne : bs <> []) by (subst; congruence).
      destruct (min_idx_spec bs Hne) as [Hi Hmin].
      set (i := min_idx bs) in *. set (b := nth i bs bdflt) in *.
      pose proof (remove_at_perm bs i bdflt Hi) as Hp. fold b in Hp.
      destruct (bkey c0 <? bkey b) eqn:E.
      * apply Z.ltb_lt in E. intro H; inversion H; subst cs bs1.
        exists []. rewrite app_nil_r. repeat split; auto.
        eapply Forall_impl; [|exact Hmin]. cbv beta. intros; lia.
      * apply Z.ltb_ge in E. intro H.
        assert (Hb : bkey b = bkey c0).
        { rewrite Forall_forall in Hge. specialize (Hge b (nth_In _ _ Hi)). lia. }
        apply IH in H.
        -- destruct H as [extra [E1 [E2 [E3 E4]]]]. exists (b :: extra).
           split; [rewrite E1, <- app_assoc; reflexivity|].
           split; [rewrite Hp; simpl; apply perm_skip; exact E2|].
           split; auto.
        -- rewrite remove_at_length by auto. lia.
        -- apply (Forall_perm _ _ _ Hp) in Hge. inversion Hge; auto.
Qed.

(* ================= advancing the gathered buffers ================= *)

Lemma advance_spec d : (1 <= d)%nat -> forall cs bs bs2 st,
  Forall bwf cs -> advance d cs bs = (bs2, st) ->
  match st with
  | SOk => Permutation (pending bs2) (pending bs ++ concat (map btail cs)) /\
           (forall P : fbuf -> Prop, Forall P bs ->
              (forall c b2, In c cs -> bwf b2 -> bstream b2 = btail c -> P b2) -> Forall P bs2) /\
           (forall e, fails e bs2 <-> fails e bs \/ fails e cs)
  | SEof => False
  | SErr e => fails e cs
  end.
Proof.
  intros Hd. induction cs as [|c rest IH]; intros bs bs2 st Hwf; simpl.
  - intro H; inversion H; subst. rewrite app_nil_r. split; [reflexivity|]. split; [auto|].
    intro e. unfold fails. split; auto. intros [?|H0]; auto. inversion H0.
  - inversion Hwf as [|? ? Wc Wrest]; subst.
    destruct (next_row d c) as [b2 st0] eqn:En.
    pose proof (next_row_spec d c b2 st0 Hd Wc En) as Hs.
    destruct st0.
    + destruct Hs as [W2 [S2 E2]]. intro H. specialize (IH _ _ _ Wrest H). destruct st; auto.
      * destruct IH as [P [Q F]]. split; [|split].
        -- rewrite P, pending_app. unfold pending at 2. simpl. rewrite app_nil_r, S2, <- app_assoc.
           reflexivity.
        -- intros Pr Hbs Hc. apply Q.
           ++ apply Forall_app. split; auto. constructor; auto. apply (Hc c); auto.
           ++ intros c' b' Hin. apply Hc. right; auto.
        -- intro e. rewrite F. unfold fails. rewrite Exists_app, !Exists_cons, Exists_nil, E2. tauto.
      * unfold fails. apply Exists_cons_tl. exact IH.
    + destruct Hs as [T E2]. intro H. specialize (IH _ _ _ Wrest H). destruct st; auto.
      * destruct IH as [P [Q F]]. split; [|split].
        -- rewrite P, T. reflexivity.
        -- intros Pr Hbs Hc. apply Q; auto. intros c' b' Hin. apply Hc. right; auto.
        -- intro e. rewrite F. unfold fails. rewrite Exists_cons, E2. split; [tauto|].
           intros [?|[?|?]]; auto. discriminate.
      * unfold fails. apply Exists_cons_tl. exact IH.
    + destruct Hs as [T E2]. intro H; inversion H; subst. unfold fails. apply Exists_cons_hd. exact E2.
Qed.

Lemma pending_heads cs : Forall bwf cs ->
  Permutation (pending cs) (map bhead cs ++ concat (map btail cs)).
Proof.
  induction 1 as [|c cs Wc _ IH]; simpl; auto.
  rewrite pending_cons, (bstream_head c Wc), IH. simpl. apply perm_skip.
  rewrite !app_assoc. apply Permutation_app_tail, Permutation_app_comm.
Qed.

(* ================= one output row ================= *)

Lemma reduce_step_spec d comb bs x st bs' : (1 <= d)%nat -> bs <> [] -> Forall bwf bs ->
  reduce_step d comb bs = (x, st, bs') ->
  match st with
  | SOk => exists G, G <> [] /\ Permutation (pending bs) (G ++ pending bs') /\
             Forall (fun g => rkey g = rkey x) G /\ rval x = fold1 comb (map rval G) /\
             Forall bwf bs' /\ (forall e, fails e bs' <-> fails e bs) /\
             (strict_bufs bs -> strict_bufs bs' /\ forall y, In y (pending bs') -> rkey x < rkey y)
  | SEof => False
  | SErr e => fails e bs
  end.
Proof.
  intros Hd Hne Hwf. unfold reduce_step.
  destruct (min_idx_spec bs Hne) as [Hi Hmin].
  set (i := min_idx bs) in *. set (c0 := nth i bs bdflt) in *.
  pose proof (remove_at_perm bs i bdflt Hi) as Hp. fold c0 in Hp.
  destruct (gather (length bs) c0 (remove_at i bs) [c0]) as [cs bs1] eqn:Eg.
  assert (Hge : Forall (fun b => bkey c0 <= bkey b) (remove_at i bs)).
  { apply (Forall_perm _ _ _ Hp) in Hmin. inversion Hmin; auto. }
  assert (Hlen0 : (length (remove_at i bs) <= length bs)%nat)
    by (rewrite remove_at_length by auto; lia).
  destruct (gather_spec c0 _ _ _ _ _ Hlen0 Hge Eg) as [extra [E1 [E2 [E3 E4]]]].
  assert (Hpc : Permutation bs (cs ++ bs1)).
  { rewrite Hp, E1. simpl. apply perm_skip. exact E2. }
  assert (Wall : Forall bwf (cs ++ bs1)) by (eapply Forall_perm; eauto).
  apply Forall_app in Wall as [Wcs Wbs1].
  assert (Kcs : Forall (fun b => bkey b = bkey c0) cs).
  { rewrite E1. constructor; auto. }
  destruct (advance d cs bs1) as [bs2 st0] eqn:Ea.
  pose proof (advance_spec d Hd cs bs1 bs2 st0 Wcs Ea) as Hs.
  intro H; inversion H; subst x st bs'; clear H.
  destruct st0; auto.
  - destruct Hs as [P [Q F]].
    exists (map bhead cs). split; [rewrite E1; discriminate|].
    split.
    { rewrite (pending_perm _ _ Hpc), pending_app, (pending_heads cs Wcs), P, <- app_assoc.
      apply Permutation_app_head, Permutation_app_comm. }
    split.
    { rewrite Forall_forall in *. intros g Hg. apply in_map_iff in Hg as [c [<- Hc]].
      apply (Kcs c Hc). }
    split; [simpl; rewrite map_map; reflexivity|].
    split; [apply (Q bwf); auto|].
    split.
    { intro e. rewrite F, (fails_perm e _ _ Hpc). unfold fails. rewrite Exists_app. tauto. }
    intro Hstrict.
    assert (Sall : strict_bufs (cs ++ bs1)) by (eapply Forall_perm; eauto).
    apply Forall_app in Sall as [Scs Sbs1].
    assert (HP : Forall (fun b => kstrict (bstream b) /\ forall y, In y (bstream b) -> bkey c0 < rkey y) bs2).
    { apply Q.
      - rewrite Forall_forall in *. intros b Hb. split; [apply Sbs1; auto|].
        intros y Hy. specialize (E4 b Hb). specialize (Sbs1 b Hb).
        rewrite (bstream_head b (Wbs1 b Hb)) in Hy, Sbs1.
        apply StronglySorted_inv in Sbs1 as [_ Hall]. rewrite Forall_forall in Hall.
        destruct Hy as [<-|Hy]; [exact E4|]. specialize (Hall y Hy). unfold klt, bkey in *. lia.
      - intros c b2 Hc W2 S2. rewrite Forall_forall in Scs, Wcs, Kcs.
        specialize (Scs c Hc). rewrite (bstream_head c (Wcs c Hc)) in Scs.
        apply StronglySorted_inv in Scs as [St Hall]. rewrite S2. split; auto.
        intros y Hy. rewrite Forall_forall in Hall. specialize (Hall y Hy).
        specialize (Kcs c Hc). unfold klt, bkey in *. lia. }
    split.
    + eapply Forall_impl; [|exact HP]. cbv beta. tauto.
    + intros y Hy. unfold pending in Hy. apply in_concat in Hy as [l [Hl Hy]].
      apply in_map_iff in Hl as [b [<- Hb]]. rewrite Forall_forall in HP.
      apply (proj2 (HP b Hb)); auto.
  - apply (fails_perm e _ _ Hpc). unfold fails. rewrite Exists_app. left. exact Hs.
Qed.

Lemma reduce_loop_spec comb d : (1 <= d)%nat -> forall k bs acc out st bs',
  Forall bwf bs -> reduce_loop d comb k bs acc = (out, st, bs') ->
  match st with
  | SOk => exists new, out = acc ++ new /\ (length new = k \/ bs' = []) /\
           Forall bwf bs' /\ (forall e, fails e bs' <-> fails e bs) /\
           (length new + length (pending bs') <= length (pending bs))%nat
  | SEof => False
  | SErr e => fails e bs
  end.
Proof.
  intros Hd. induction k as [|k IH]; intros bs acc out st bs' Hwf; simpl.
  - intro H; inversion H; subst. exists []. rewrite app_nil_r.
    split; [reflexivity|]. split; [left; reflexivity|]. split; [auto|]. split; [tauto|].
    simpl; lia.
  - destruct bs as [|b0 bs0] eqn:Eb.
    + intro H; inversion H; subst. exists []. rewrite app_nil_r.
      split; [reflexivity|]. split; [right; reflexivity|]. split; [auto|]. split; [tauto|].
      simpl; lia.
    + rewrite <- Eb in *. assert (Hne : bs <> []) by (subst; congruence).
      destruct (reduce_step d comb bs) as [[x st0] bs1] eqn:Es.
      pose proof (reduce_step_spec d comb bs x st0 bs1 Hd Hne Hwf Es) as Hst.
      destruct st0.
      * destruct Hst as [G [Gne [P1 [_ [_ [W1 [F1 _]]]]]]]. intro H.
        specialize (IH _ _ _ _ _ W1 H). destruct st; auto.
        -- destruct IH as [new [E [L [W [F Len]]]]]. exists (x :: new).
           split; [rewrite E, <- app_assoc; reflexivity|].
           split; [simpl; destruct L; [left; lia | right; auto]|].
           split; auto. split; [intro e; rewrite F, F1; tauto|].
           apply Permutation_length in P1. rewrite app_length in P1.
           destruct G; [congruence|]. simpl in *. lia.
        -- apply F1; auto.
      * destruct Hst.
      * intro H; inversion H; subst. exact Hst.
Qed.

(* ================= the invariant of a whole drain ================= *)

Section Reduce.
  Variable comb : Z -> Z -> Z.
  Hypothesis comb_assoc : forall a b c, comb a (comb b c) = comb (comb a b) c.
  Hypothesis comb_comm : forall a b, comb a b = comb b a.

  Record RInv (all out : list (Z * Z)) (bs : list fbuf) : Prop := {
    ri_perm : exists G, Permutation all (G ++ pending bs) /\
                        (forall g, In g G -> In (rkey g) (map rkey out));
    ri_strict : kstrict out;
    ri_lt : forall x y, In x out -> In y (pending bs) -> rkey x < rkey y;
    ri_val : forall x, In x out -> rval x = fold1 comb (kvals (rkey x) all);
    ri_key : forall x, In x out -> In (rkey x) (map rkey all);
    ri_wf : Forall bwf bs;
    ri_bufs : strict_bufs bs
  }.

  Lemma reduce_step_inv d all out bs x bs' : (1 <= d)%nat -> bs <> [] -> RInv all out bs ->
    reduce_step d comb bs = (x, SOk, bs') -> RInv all (out ++ [x]) bs'.
  Proof.
    intros Hd Hne [[G0 [Hp Hg]] Hs Hlt Hval Hkey Hwf Hb] Hst.
    pose proof (reduce_step_spec d comb bs x SOk bs' Hd Hne Hwf Hst)
      as [G [Gne [P [GK [GV [W [_ S]]]]]]].
    destruct (S Hb) as [S1 S2].
    assert (HGin : forall g, In g G -> In g (pending bs)).
    { intros g Hin. eapply Permutation_in; [symmetry; exact P|]. apply in_or_app; auto. }
    assert (Hxk : forall o, In o out -> rkey o < rkey x).
    { intros o Ho. destruct G as [|g G']; [congruence|].
      inversion GK as [|? ? Kg _]; subst. rewrite <- Kg. apply Hlt; auto. apply HGin; left; auto. }
    constructor; auto.
    - exists (G0 ++ G). split.
      + rewrite Hp, P, app_assoc. reflexivity.
      + intros g Hin. rewrite map_app. apply in_or_app. apply in_app_or in Hin as [Hin|Hin].
        * left; auto.
        * right. simpl. left. rewrite Forall_forall in GK. symmetry. apply GK; auto.
    - apply ssorted_app; auto.
      + constructor; constructor.
      + intros a y Ha [<-|[]]. apply Hxk; auto.
    - intros a y Ha Hy. apply in_app_or in Ha as [Ha|[<-|[]]]; [|apply S2; auto].
      apply Hlt; auto. eapply Permutation_in; [symmetry; exact P|]. apply in_or_app; auto.
    - intros a Ha. apply in_app_or in Ha as [Ha|[<-|[]]]; auto.
      rewrite GV. apply fold1_perm; auto.
      (* the rows of key (rkey x) in [all] are exactly G *)
      rewrite (kvals_perm (rkey x) _ _ Hp), kvals_app, (kvals_perm (rkey x) _ _ P), kvals_app.
      rewrite (kvals_none (rkey x) G0), (kvals_none (rkey x) (pending bs')).
      * rewrite app_nil_r. simpl. rewrite kvals_all; [reflexivity|].
        rewrite Forall_forall in GK. exact GK.
      * intros y Hy. specialize (S2 y Hy). lia.
      * intros g Hin. apply Hg in Hin. apply in_map_iff in Hin as [o [Eo Ho]].
        specialize (Hxk o Ho). lia.
    - intros a Ha. apply in_app_or in Ha as [Ha|[<-|[]]]; auto.
      destruct G as [|g G']; [congruence|]. inversion GK as [|? ? Kg _]; subst. rewrite <- Kg.
      apply in_map. eapply Permutation_in; [symmetry; exact Hp|]. apply in_or_app. right.
      apply HGin. left; auto.
  Qed.

  Lemma reduce_loop_inv d : (1 <= d)%nat -> forall k bs acc out bs' all pre,
    reduce_loop d comb k bs acc = (out, SOk, bs') ->
    RInv all (pre ++ acc) bs -> RInv all (pre ++ out) bs'.
  Proof.
    intros Hd. induction k as [|k IH]; intros bs acc out bs' all pre; simpl.
    - intro H; inversion H; subst. auto.
    - destruct bs as [|b0 bs0] eqn:Eb.
      + intro H; inversion H; subst. auto.
      + rewrite <- Eb in *. assert (Hne : bs <> []) by (subst; congruence).
        destruct (reduce_step d comb bs) as [[x st0] bs1] eqn:Es.
        destruct st0; try discriminate.
        intros H M. eapply IH; eauto. rewrite app_assoc. eapply reduce_step_inv; eauto.
  Qed.

  (* the property: one row per distinct key, ascending, carrying the fold of the key's values *)
  Definition is_reduce (all out : list (Z * Z)) : Prop :=
    kstrict out /\
    (forall k, In k (map rkey out) <-> In k (map rkey all)) /\
    (forall x, In x out -> rval x = fold1 comb (kvals (rkey x) all)).

  Lemma RInv_done all out : RInv all out [] -> is_reduce all out.
  Proof.
    intros [[G [Hp Hg]] Hs _ Hval Hkey _ _]. simpl in Hp. rewrite app_nil_r in Hp.
    split; auto. split; auto. intro k. split.
    - intro H. apply in_map_iff in H as [o [<- Ho]]. auto.
    - intro H. apply in_map_iff in H as [a [<- Ha]]. apply Hg.
      eapply Permutation_in; eauto.
  Qed.

  Lemma wf_nonempty bs : Forall bwf bs -> pending bs = [] -> bs = [].
  Proof.
    destruct bs as [|b bs]; auto. intros H E. inversion H; subst.
    rewrite pending_cons, (bstream_head b) in E by auto. discriminate.
  Qed.

  Lemma drain_reduce_ok d : (1 <= d)%nat -> forall demands bs rs all pre,
    RInv all pre bs -> (forall e, ~ fails e bs) ->
    Forall (fun x => (1 <= x)%nat) demands -> (length (pending bs) < length demands)%nat ->
    let reads := drain_reduce d comb (mkR SOk true bs rs) demands in
    final_status reads = SEof /\ is_reduce all (pre ++ out_rows reads).
  Proof.
    intros Hd. induction demands as [|x rest IH]; intros bs rs all pre M Hnf Hdem Hlen;
      [simpl in Hlen; lia|].
    inversion Hdem as [|? ? Hx Hrest]; subst.
    cbn [drain_reduce]. unfold reduce_read. cbn [rerr rinit rbufs rreaders].
    destruct (reduce_loop d comb x bs []) as [[out st] bs'] eqn:El.
    pose proof (reduce_loop_spec comb d Hd x bs [] out st bs' (ri_wf _ _ _ M) El) as Hs.
    destruct st.
    - destruct Hs as [new [E [L [W [F Len]]]]]. simpl in E. subst new.
      pose proof (reduce_loop_inv d Hd x bs [] out bs' all pre El) as I.
      rewrite app_nil_r in I. specialize (I M).
      destruct bs' as [|b1 bs1] eqn:Eb'.
      + cbv zeta. simpl. rewrite app_nil_r. split; auto. apply RInv_done; auto.
      + rewrite <- Eb' in *. assert (Hne' : bs' <> []) by (subst; congruence).
        destruct L as [L|L]; [|congruence].
        assert (Hlen' : (length (pending bs') < length rest)%nat) by (simpl in Hlen; lia).
        specialize (IH bs' rs all (pre ++ out) I (fun e Hf => Hnf e (proj1 (F e) Hf)) Hrest Hlen').
        cbv zeta in IH |- *.
        destruct rest as [|x2 rest2]; [simpl in Hlen'; lia|].
        replace (match bs' with [] => SEof | _ :: _ => SOk end) with SOk by (subst bs'; reflexivity).
        rewrite final_status_cons.
        2:{ cbn [drain_reduce]. destruct (reduce_read d comb (mkR SOk true bs' rs) x2) as [[? s2] ?].
            destruct s2; discriminate. }
        change (out_rows ((out, SOk) :: drain_reduce d comb (mkR SOk true bs' rs) (x2 :: rest2)))
          with (out ++ out_rows (drain_reduce d comb (mkR SOk true bs' rs) (x2 :: rest2))).
        rewrite app_assoc. exact IH.
    - destruct Hs.
    - exfalso. eapply Hnf; eauto.
  Qed.
End Reduce.

(* some input fails: the drain ends with one of the failures, never with EOF
   (no assumption on the combiner or on the order of the inputs) *)
Lemma drain_reduce_err comb d : (1 <= d)%nat -> forall demands bs rs,
  Forall bwf bs -> (exists e, fails e bs) ->
  Forall (fun x => (1 <= x)%nat) demands -> (length (pending bs) < length demands)%nat ->
  exists e, final_status (drain_reduce d comb (mkR SOk true bs rs) demands) = SErr e /\ fails e bs.
Proof.
  intros Hd. induction demands as [|x rest IH]; intros bs rs Hwf Hf Hdem Hlen; [simpl in Hlen; lia|].
  inversion Hdem as [|? ? Hx Hrest]; subst.
  cbn [drain_reduce]. unfold reduce_read. cbn [rerr rinit rbufs rreaders].
  destruct (reduce_loop d comb x bs []) as [[out st] bs'] eqn:El.
  pose proof (reduce_loop_spec comb d Hd x bs [] out st bs' Hwf El) as Hs.
  destruct st.
  - destruct Hs as [new [E [L [W [F Len]]]]]. simpl in E. subst new.
    destruct bs' as [|b1 bs1] eqn:Eb'.
    + destruct Hf as [e Hf]. apply F in Hf. inversion Hf.
    + rewrite <- Eb' in *. assert (Hne' : bs' <> []) by (subst; congruence).
      destruct L as [L|L]; [|congruence].
      assert (Hlen' : (length (pending bs') < length rest)%nat) by (simpl in Hlen; lia).
      assert (Hf' : exists e, fails e bs') by (destruct Hf as [e Hf]; exists e; apply F; auto).
      destruct (IH bs' rs W Hf' Hrest Hlen') as [e [A B]].
      exists e. split; [|apply F; auto].
      replace (match bs' with [] => SEof | _ :: _ => SOk end) with SOk by (subst bs'; reflexivity).
      destruct rest as [|x2 rest2]; [simpl in Hlen'; lia|].
      rewrite final_status_cons; auto.
      cbn [drain_reduce]. destruct (reduce_read d comb (mkR SOk true bs' rs) x2) as [[? s2] ?].
      destruct s2; discriminate.
  - destruct Hs.
  - exists e. simpl. auto.
Qed.

(* ================= Reduce + drain ================= *)

Lemma drain_reduce_init d comb rs bs demands : init_bufs d 0 rs = (bs, SOk) ->
  drain_reduce d comb (new_reduce rs) demands = drain_reduce d comb (mkR SOk true bs rs) demands.
Proof.
  intro Hi. destruct demands as [|x rest]; auto.
  cbn [drain_reduce]. unfold reduce_read, new_reduce. cbn [rerr rinit rbufs rreaders].
  rewrite Hi. reflexivity.
Qed.

Theorem reduce_merge_spec_view : forall comb d rs demands,
  (forall a b c, comb a (comb b c) = comb (comb a b) c) ->
  (forall a b, comb a b = comb b a) ->
  (1 <= d)%nat ->
  Forall (fun s => kstrict (sview s)) rs ->
  Forall (fun s => send s = SEof) rs ->
  Forall (fun x => (1 <= x)%nat) demands -> (total_rows rs < length demands)%nat ->
  let o := run_reduce d comb rs demands in
  ocreate o = COk /\ final_status (oreads o) = SEof /\
  is_reduce comb (concat (map sview rs)) (out_rows (oreads o)).
Proof.
  intros comb d rs demands Ha Hc Hd Hso Hend Hdem Hlen. unfold run_reduce. cbv zeta. simpl ocreate. simpl oreads.
  destruct (init_bufs d 0 rs) as [bs st] eqn:Ei.
  pose proof (init_bufs_spec d Hd rs 0%nat bs st Ei) as Hs.
  assert (Hno : forall e, ~ Exists (fun s => send s = SErr e) rs).
  { intros e H. apply Exists_exists in H as [s [Hin Hs']]. rewrite Forall_forall in Hend.
    rewrite (Hend s Hin) in Hs'. discriminate. }
  destruct st; [| destruct Hs | exfalso; eapply Hno; eauto].
  destruct Hs as [W [P [S F]]].
  rewrite (drain_reduce_init d comb rs bs demands Ei).
  assert (M : RInv comb (concat (map sview rs)) [] bs).
  { constructor; auto.
    - exists []. simpl. rewrite P. split; [reflexivity | intros ? []].
    - constructor.
    - intros ? ? [].
    - intros ? [].
    - intros ? [].
    - apply (S klt); auto. }
  destruct (drain_reduce_ok comb Ha Hc d Hd demands bs rs _ [] M) as [A B]; auto.
  - intros e Hf. apply F in Hf. eapply Hno; eauto.
  - rewrite P. exact Hlen.
Qed.

Theorem reduce_error_reported : forall comb d rs demands e,
  (1 <= d)%nat -> Exists (fun s => send s = SErr e) rs ->
  Forall (fun x => (1 <= x)%nat) demands -> (total_rows rs < length demands)%nat ->
  let o := run_reduce d comb rs demands in
  exists e', Exists (fun s => send s = SErr e') rs /\
             ocreate o = COk /\ final_status (oreads o) = SErr e'.
Proof.
  intros comb d rs demands e Hd Hex Hdem Hlen. unfold run_reduce. cbv zeta. simpl ocreate. simpl oreads.
  destruct (init_bufs d 0 rs) as [bs st] eqn:Ei.
  pose proof (init_bufs_spec d Hd rs 0%nat bs st Ei) as Hs.
  destruct st; [| destruct Hs |].
  - destruct Hs as [W [P [_ F]]].
    rewrite (drain_reduce_init d comb rs bs demands Ei).
    destruct (drain_reduce_err comb d Hd demands bs rs W) as [e' [A B]]; auto.
    + exists e. apply F; auto.
    + rewrite P. exact Hlen.
    + exists e'. split; [apply F; auto | auto].
  - exists e0. split; auto. split; auto.
    destruct demands as [|x rest]; [simpl in Hlen; lia|].
    cbn [drain_reduce]. unfold reduce_read, new_reduce. cbn [rerr rinit rbufs rreaders].
    rewrite Ei. reflexivity.
Qed.

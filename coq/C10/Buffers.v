(* C10 — scripted readers, ReadFull, FrameBuffer.Fill, the heap root: basic lemmas. *)
From Coq Require Import List ZArith Lia Bool Permutation Sorted.
Import ListNotations.
Require Import BS.C10.Model BS.C10.Lists.
Local Open Scope Z_scope.

(* ================= scripted reader ================= *)

Lemma firstn_nonempty {A} (l : list A) d : (1 <= d)%nat -> l <> [] -> firstn d l <> [].
Proof. destruct d, l; simpl; intros; try lia; congruence. Qed.

Lemma skipn_nonempty {A} (l : list A) d : (d < length l)%nat -> skipn d l <> [].
Proof.
  intros H E. apply (f_equal (@length A)) in E. rewrite skipn_length in E. simpl in E. lia.
Qed.

(* what a ReadFull-style consumer learns from one Read *)
Lemma sread_rows s d l st s' : (1 <= d)%nat -> sread s d = (l, st, s') ->
  match st with
  | SOk => srows s = l ++ srows s' /\ sfin s' = sfin s /\ (ssize s' < ssize s)%nat
  | SEof => srows s = l /\ sfin s = SEof
  | SErr e => l = [] /\ sfin s = SErr e
  end.
Proof.
  intros Hd. destruct s as [|[r|r|e] s0]; simpl.
  - intro H; inversion H; subst; auto.
  - destruct (length r <=? d)%nat eqn:E; intro H; inversion H; subst; simpl.
    + repeat split; auto; lia.
    + apply Nat.leb_gt in E. rewrite app_assoc, firstn_skipn. repeat split; auto.
      rewrite skipn_length. lia.
  - destruct (length r <=? d)%nat eqn:E; intro H; inversion H; subst; simpl; auto.
    apply Nat.leb_gt in E. rewrite firstn_skipn. repeat split; auto.
    rewrite skipn_length. lia.
  - intro H; inversion H; subst; auto.
Qed.

(* what a FrameBuffer learns from one Read *)
Lemma sread_view s d l st s' : (1 <= d)%nat -> sread s d = (l, st, s') ->
  match st with
  | SOk => (l = [] -> sview s = [] /\ send s = SEof) /\
           (l <> [] -> sview s = l ++ sview s' /\ send s' = send s)
  | SEof => sview s = l /\ send s = SEof /\ s' = []
  | SErr e => l = [] /\ sview s = [] /\ send s = SErr e
  end.
Proof.
  intros Hd. destruct s as [|[r|r|e] s0]; simpl.
  - intro H; inversion H; subst; auto.
  - destruct (length r <=? d)%nat eqn:E; intro H; inversion H; subst; simpl.
    + split; intro Hl; subst; auto. destruct l; [congruence|auto].
    + apply Nat.leb_gt in E.
      assert (Hs : skipn d r <> []) by (apply skipn_nonempty; lia).
      assert (Hr : r <> []) by (destruct r; simpl in *; [lia|congruence]).
      split; intro Hl.
      * exfalso. eapply firstn_nonempty; eauto.
      * destruct (skipn d r) eqn:Es; [congruence|]. rewrite <- Es.
        destruct r; [congruence|]. rewrite app_assoc, firstn_skipn. auto.
  - destruct (length r <=? d)%nat eqn:E; intro H; inversion H; subst; simpl; auto.
    apply Nat.leb_gt in E. split; intro Hl.
    + exfalso. eapply (firstn_nonempty r d); eauto. destruct r; simpl in *; [lia|congruence].
    + rewrite firstn_skipn. auto.
  - intro H; inversion H; subst; auto.
Qed.

Lemma no_empty_reads_view s : no_empty_reads s = true -> sview s = srows s /\ send s = sfin s.
Proof.
  induction s as [|[r|r|e] s IH]; simpl; auto.
  intro H. apply andb_true_iff in H as [H1 H2]. destruct (IH H2) as [E1 E2].
  destruct r; simpl in *; [discriminate|]. rewrite E1, E2. auto.
Qed.

(* ================= sliceio.ReadFull ================= *)

Lemma readfull_spec fuel : forall s len got, (ssize s < fuel)%nat ->
  exists g st s', readfull fuel s len got = Some (g, st, s') /\
  match st with
  | SOk => got ++ srows s = g ++ srows s' /\ sfin s' = sfin s /\ (ssize s' <= ssize s)%nat /\
           ((length got < len)%nat -> (ssize s' < ssize s)%nat /\ length g = len)
  | SEof => g = got ++ srows s /\ sfin s = SEof
  | SErr e => sfin s = SErr e
  end.
Proof.
  induction fuel as [|f IH]; intros s len got Hf; [lia|]. simpl.
  destruct (length got <? len)%nat eqn:E.
  - apply Nat.ltb_lt in E.
    destruct (sread s (len - length got)) as [[l st] s'] eqn:Er.
    pose proof (sread_rows s (len - length got)%nat l st s' ltac:(lia) Er) as Hs.
    destruct st.
    + destruct Hs as [H1 [H2 H3]].
      assert (Hf' : (ssize s' < f)%nat) by lia.
      destruct (IH s' len (got ++ l) Hf') as [g [st' [s'' [Hr Hspec]]]].
      exists g, st', s''. split; auto. destruct st'.
      * destruct Hspec as [A [B [C D]]].
        split; [rewrite H1, app_assoc; exact A|]. split; [congruence|]. split; [lia|].
        intros _. split; [lia|].
        destruct (Nat.lt_ge_cases (length (got ++ l)) len) as [Hlt|Hge].
        -- apply D; auto.
        -- (* the recursive call returned at once *)
           destruct f; [lia|]. simpl in Hr.
           destruct (length (got ++ l) <? len)%nat eqn:E2; [apply Nat.ltb_lt in E2; lia|].
           inversion Hr; subst.
           (* a read delivers at most what was asked for *)
           assert (length l <= len - length got)%nat.
           { destruct s as [|[r|r|e] s0]; simpl in Er.
             - inversion Er; subst; simpl; lia.
             - destruct (length r <=? len - length got)%nat eqn:E3; inversion Er; subst.
               + apply Nat.leb_le in E3; lia.
               + rewrite firstn_length. lia.
             - destruct (length r <=? len - length got)%nat eqn:E3; inversion Er; subst.
               rewrite firstn_length. lia.
             - inversion Er. }
           rewrite app_length in *. lia.
      * destruct Hspec as [A B]. rewrite A, H1, app_assoc. split; congruence.
      * congruence.
    + exists (got ++ l), SEof, s'. split; auto. destruct Hs as [H1 H2]. subst. auto.
    + exists (got ++ l), (SErr e), s'. split; auto. tauto.
  - apply Nat.ltb_ge in E. exists got, SOk, s. split; auto. repeat split; auto. lia. lia.
Qed.

(* ================= FrameBuffer ================= *)

Definition bstream (b : fbuf) : list (Z * Z) := skipn (bidx b) (brows b) ++ sview (brd b).
Definition btail (b : fbuf) : list (Z * Z) := skipn (S (bidx b)) (brows b) ++ sview (brd b).
Definition bend (b : fbuf) : status := send (brd b).
Definition bwf (b : fbuf) : Prop := (bidx b < blen b)%nat /\ blen b = length (brows b).
Definition pending (bs : list fbuf) : list (Z * Z) := concat (map bstream bs).

Lemma bstream_head b : bwf b -> bstream b = bhead b :: btail b.
Proof.
  intros [H1 H2]. unfold bstream, btail, bhead.
  rewrite (nth_split_skipn (brows b) (bidx b) row0) by lia. reflexivity.
Qed.

Lemma fill_spec d b b' st : (1 <= d)%nat -> fill d b = (b', st) ->
  match st with
  | SOk => bwf b' /\ bidx b' = 0%nat /\ bstream b' = sview (brd b) /\ bend b' = bend b
  | SEof => sview (brd b) = [] /\ bend b = SEof
  | SErr e => sview (brd b) = [] /\ bend b = SErr e
  end.
Proof.
  intros Hd. unfold fill, bend.
  destruct (sread (brd b) d) as [[l st0] s'] eqn:Er.
  pose proof (sread_view _ _ _ _ _ Hd Er) as Hs.
  destruct st0.
  - destruct Hs as [H0 H1]. destruct l as [|x l].
    + simpl. intro H; inversion H; subst. apply H0; auto.
    + simpl. intro H; inversion H; subst. unfold bwf, bstream; simpl.
      destruct (H1 ltac:(congruence)) as [A B]. repeat split; auto; lia.
  - destruct Hs as [A [B C]]. subst s'. destruct l as [|x l].
    + simpl. intro H; inversion H; subst. auto.
    + simpl. intro H; inversion H; subst. unfold bwf, bstream; simpl.
      rewrite app_nil_r. repeat split; auto; lia.
  - intro H; inversion H; subst. tauto.
Qed.

Lemma next_row_spec d b b2 st : (1 <= d)%nat -> bwf b -> next_row d b = (b2, st) ->
  match st with
  | SOk => bwf b2 /\ bstream b2 = btail b /\ bend b2 = bend b
  | SEof => btail b = [] /\ bend b = SEof
  | SErr e => btail b = [] /\ bend b = SErr e
  end.
Proof.
  intros Hd [W1 W2]. unfold next_row. cbv zeta.
  change (bidx (advance_idx b)) with (S (bidx b)). change (blen (advance_idx b)) with (blen b).
  destruct (Nat.eqb (S (bidx b)) (blen b)) eqn:E.
  - apply Nat.eqb_eq in E. intro H.
    pose proof (fill_spec d _ _ _ Hd H) as Hs.
    assert (T : btail b = sview (brd b)).
    { unfold btail. rewrite skipn_all2 by lia. reflexivity. }
    unfold bend in *. simpl in Hs. rewrite T. destruct st; tauto.
  - apply Nat.eqb_neq in E. intro H; inversion H; subst.
    unfold bwf, bstream, btail, bend, advance_idx; simpl. repeat split; auto; lia.
Qed.

(* ================= the heap root ================= *)

Lemma min_idx_spec bs : bs <> [] ->
  (min_idx bs < length bs)%nat /\
  Forall (fun b => bkey (nth (min_idx bs) bs bdflt) <= bkey b) bs.
Proof.
  induction bs as [|b rest IH]; [congruence|]. intros _.
  destruct rest as [|c rest'].
  - simpl. split; [lia|]. constructor; [lia|constructor].
  - destruct (IH ltac:(congruence)) as [H1 H2].
    change (min_idx (b :: c :: rest')) with
      (let j := min_idx (c :: rest') in
       if bkey (nth j (c :: rest') bdflt) <? bkey b then S j else 0%nat).
    cbv zeta. destruct (bkey (nth (min_idx (c :: rest')) (c :: rest') bdflt) <? bkey b) eqn:E.
    + apply Z.ltb_lt in E. split; [simpl in *; lia|].
      change (nth (S (min_idx (c :: rest'))) (b :: c :: rest') bdflt)
        with (nth (min_idx (c :: rest')) (c :: rest') bdflt).
      constructor; [lia | exact H2].
    + apply Z.ltb_ge in E. split; [simpl; lia|].
      change (nth 0 (b :: c :: rest') bdflt) with b.
      constructor; [lia|]. eapply Forall_impl; [|exact H2]. cbv beta. intros; lia.
Qed.

(* ================= creating the buffers ================= *)

Lemma init_bufs_spec d : (1 <= d)%nat -> forall rs i bs st, init_bufs d i rs = (bs, st) ->
  match st with
  | SOk => Forall bwf bs /\ pending bs = concat (map sview rs) /\
           (forall R, Forall (fun s => StronglySorted R (sview s)) rs ->
                      Forall (fun b => StronglySorted R (bstream b)) bs) /\
           (forall e, Exists (fun b => bend b = SErr e) bs <-> Exists (fun s => send s = SErr e) rs)
  | SEof => False
  | SErr e => Exists (fun s => send s = SErr e) rs
  end.
Proof.
  intros Hd. induction rs as [|s rs IH]; intros i bs st; simpl.
  - intro H; inversion H; subst. repeat split; auto.
    + inversion 1. + inversion 1.
  - destruct (fill d (mkB [] 0 0 (i * d) s)) as [b st0] eqn:Ef.
    pose proof (fill_spec d _ _ _ Hd Ef) as Hs. unfold bend in Hs. simpl in Hs.
    destruct st0.
    + destruct (init_bufs d (S i) rs) as [bs' st'] eqn:Ei. intro H; inversion H; subst.
      specialize (IH _ _ _ Ei). destruct st; [| exact IH | apply Exists_cons_tl; exact IH].
      * destruct IH as [A [B [C D]]]. destruct Hs as [W [_ [S1 S2]]].
        split; [constructor; auto|]. split; [unfold pending in *; simpl; rewrite B, S1; auto|].
        split.
        -- intros R HR. inversion HR; subst. constructor; [rewrite S1; auto | apply C; auto].
        -- intro e. rewrite !Exists_cons, D. unfold bend. rewrite S2. tauto.
    + intro H. specialize (IH _ _ _ H). destruct Hs as [S1 S2].
      destruct st; [| exact IH | apply Exists_cons_tl; exact IH].
      * destruct IH as [A [B [C D]]]. split; auto. split; [rewrite S1; auto|]. split.
        -- intros R HR. inversion HR; subst. auto.
        -- intro e. rewrite Exists_cons, D, S2. split; auto. intros [?|?]; [discriminate|auto].
    + intro H; inversion H; subst. apply Exists_cons_hd. tauto.
Qed.

(* a run that was spilled and is read back in batches *)
Lemma chunks_view b : (1 <= b)%nat -> forall fuel l, (length l <= fuel)%nat ->
  sview (map Rows (chunks fuel b l)) = l /\ send (map Rows (chunks fuel b l)) = SEof.
Proof.
  intros Hb. induction fuel as [|f IH]; intros l Hl.
  - destruct l; simpl in *; [auto|lia].
  - destruct l as [|x l]; simpl; auto.
    destruct b as [|b']; [lia|]. simpl.
    assert (Hlen : (length (skipn b' l) <= f)%nat) by (rewrite skipn_length; simpl in Hl; lia).
    destruct (IH (skipn b' l) Hlen) as [A B].
    change (match l with [] => [] | _ :: l0 => skipn b' l0 end) with (skipn (S b') (x :: l)) in *.
    simpl skipn. rewrite A, B. rewrite firstn_skipn. auto.
Qed.

Lemma run_script_view b run : (1 <= b)%nat ->
  sview (run_script b run) = run /\ send (run_script b run) = SEof.
Proof. intro Hb. apply chunks_view; auto. Qed.

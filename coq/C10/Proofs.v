(* C10 — the k-way merge (mergeReader) and SortReader: sorted, a permutation of the
   input, errors reported. *)
From Coq Require Import List ZArith Lia Bool Permutation Sorted.
Import ListNotations.
Require Import BS.C10.Model BS.C10.Lists BS.C10.Buffers.
Local Open Scope Z_scope.

Definition fails (e : Z) (bs : list fbuf) : Prop := Exists (fun b => bend b = SErr e) bs.

Lemma pending_perm bs bs' : Permutation bs bs' -> Permutation (pending bs) (pending bs').
Proof. intro H. unfold pending. apply Permutation_concat, Permutation_map, H. Qed.

Lemma pending_cons b bs : pending (b :: bs) = bstream b ++ pending bs.
Proof. reflexivity. Qed.

Lemma pending_app a b : pending (a ++ b) = pending a ++ pending b.
Proof. unfold pending. rewrite map_app, concat_app. reflexivity. Qed.

Lemma fails_perm e bs bs' : Permutation bs bs' -> (fails e bs <-> fails e bs').
Proof. intro H. split; apply Exists_perm; [|symmetry]; auto. Qed.

(* ================= one step of the merge ================= *)

(* structure: no sortedness needed *)
Lemma merge_step_struct d bs x st bs' : (1 <= d)%nat -> bs <> [] -> Forall bwf bs ->
  merge_step d bs = (x, st, bs') ->
  match st with
  | SOk => Forall bwf bs' /\ Permutation (pending bs) (x :: pending bs') /\
           (forall e, fails e bs' <-> fails e bs) /\
           (forall P : fbuf -> Prop,
              (forall b b2, P b -> bwf b -> bstream b = bhead b :: bstream b2 -> P b2) ->
              Forall P bs -> Forall P bs')
  | SEof => False
  | SErr e => fails e bs
  end.
Proof.
  intros Hd Hne Hwf. unfold merge_step.
  destruct (min_idx_spec bs Hne) as [Hi _].
  set (i := min_idx bs) in *. set (b := nth i bs bdflt).
  pose proof (remove_at_perm bs i bdflt Hi) as Hp. fold b in Hp.
  assert (Wb : bwf b) by (rewrite Forall_forall in Hwf; apply Hwf, nth_In, Hi).
  destruct (next_row d b) as [b2 st0] eqn:En.
  pose proof (next_row_spec d b b2 st0 Hd Wb En) as Hs.
  pose proof (bstream_head b Wb) as Hh.
  assert (Wr : Forall bwf (remove_at i bs)).
  { apply (Forall_perm _ _ _ Hp) in Hwf. inversion Hwf; auto. }
  destruct st0; intro H; inversion H; subst; clear H.
  - destruct Hs as [W2 [S2 E2]].
    pose proof (upd_perm bs i b2 Hi) as Hu.
    split; [eapply Forall_perm; [symmetry; exact Hu|]; constructor; auto|].
    split.
    + rewrite (pending_perm _ _ Hp), (pending_perm _ _ Hu), !pending_cons, Hh, S2. reflexivity.
    + split.
      * intro e. rewrite (fails_perm e _ _ Hu), (fails_perm e _ _ Hp). unfold fails.
        rewrite !Exists_cons, E2. tauto.
      * intros P HP F. eapply Forall_perm; [symmetry; exact Hu|].
        apply (Forall_perm _ _ _ Hp) in F. inversion F; subst. constructor; auto.
        eapply HP; eauto. rewrite S2. auto.
  - destruct Hs as [T E2]. split; auto. split.
    + rewrite (pending_perm _ _ Hp), pending_cons, Hh, T. reflexivity.
    + split.
      * intro e. rewrite (fails_perm e _ _ Hp). unfold fails. rewrite Exists_cons, E2.
        split; auto. intros [?|?]; [discriminate|auto].
      * intros P HP F. apply (Forall_perm _ _ _ Hp) in F. inversion F; auto.
  - destruct Hs as [T E2]. unfold fails. rewrite Exists_exists. exists b. split; auto.
    apply nth_In, Hi.
Qed.

(* the emitted row is a minimum of everything still to come *)
Lemma merge_step_min d bs x st bs' : bs <> [] -> Forall bwf bs ->
  Forall (fun b => ksorted (bstream b)) bs ->
  merge_step d bs = (x, st, bs') ->
  forall y, In y (pending bs) -> rkey x <= rkey y.
Proof.
  intros Hne Hwf Hso. unfold merge_step.
  destruct (min_idx_spec bs Hne) as [Hi Hmin].
  set (i := min_idx bs) in *. set (b := nth i bs bdflt) in *.
  destruct (next_row d b) as [b2 st0].
  assert (Hx : x = bhead b -> forall y, In y (pending bs) -> rkey x <= rkey y).
  { intros -> y Hy. unfold pending in Hy. apply in_concat in Hy as [l [Hl Hy]].
    apply in_map_iff in Hl as [c [<- Hc]].
    rewrite Forall_forall in Hwf, Hso, Hmin.
    specialize (Hmin c Hc). specialize (Hso c Hc). rewrite (bstream_head c (Hwf c Hc)) in Hso, Hy.
    apply StronglySorted_inv in Hso as [_ Hall]. rewrite Forall_forall in Hall.
    unfold bkey in Hmin. destruct Hy as [<-|Hy]; [exact Hmin|].
    specialize (Hall y Hy). unfold kle in Hall. lia. }
  destruct st0; intro H; inversion H; subst; auto.
Qed.

(* ================= the invariant of a whole drain ================= *)

Definition sorted_bufs (bs : list fbuf) : Prop := Forall (fun b => ksorted (bstream b)) bs.

Record MInv (all out : list (Z * Z)) (bs : list fbuf) : Prop := {
  mi_perm : Permutation all (out ++ pending bs);
  mi_sorted : ksorted out;
  mi_le : forall x y, In x out -> In y (pending bs) -> rkey x <= rkey y;
  mi_wf : Forall bwf bs;
  mi_bufs : sorted_bufs bs
}.

Lemma merge_step_inv d all out bs x bs' : (1 <= d)%nat -> bs <> [] -> MInv all out bs ->
  merge_step d bs = (x, SOk, bs') -> MInv all (out ++ [x]) bs'.
Proof.
  intros Hd Hne [Hp Hs Hle Hwf Hb] Hst.
  pose proof (merge_step_struct d bs x SOk bs' Hd Hne Hwf Hst) as [W [P [_ F]]].
  pose proof (merge_step_min d bs x SOk bs' Hne Hwf Hb Hst) as Hmin.
  constructor; auto.
  - rewrite Hp, P, <- app_assoc. reflexivity.
  - apply ssorted_app; auto.
    + constructor; constructor.
    + intros a y Ha [<-|[]]. apply Hle; auto. eapply Permutation_in; [symmetry; exact P|]. left; auto.
  - intros a y Ha Hy. assert (Hy' : In y (pending bs)).
    { eapply Permutation_in; [symmetry; exact P|]. right; auto. }
    apply in_app_or in Ha as [Ha|[<-|[]]]; auto.
  - apply (F (fun b => ksorted (bstream b))); auto.
    intros b b2 Sb _ E. rewrite E in Sb. apply StronglySorted_inv in Sb. exact (proj1 Sb).
Qed.

Lemma merge_loop_spec d : (1 <= d)%nat -> forall k bs acc out st bs',
  Forall bwf bs -> merge_loop d k bs acc = (out, st, bs') ->
  match st with
  | SOk => exists new, out = acc ++ new /\ (length new = k \/ bs' = []) /\
           Forall bwf bs' /\ (forall e, fails e bs' <-> fails e bs) /\
           Permutation (pending bs) (new ++ pending bs') /\
           (forall all pre, MInv all (pre ++ acc) bs -> MInv all (pre ++ out) bs')
  | SEof => False
  | SErr e => fails e bs
  end.
Proof.
  intros Hd. induction k as [|k IH]; intros bs acc out st bs' Hwf; simpl.
  - intro H; inversion H; subst. exists []. rewrite app_nil_r.
    split; [reflexivity|]. split; [left; reflexivity|]. split; [auto|]. split; [tauto|].
    split; [reflexivity | auto].
  - destruct bs as [|b0 bs0] eqn:Eb.
    + intro H; inversion H; subst. exists []. rewrite app_nil_r.
      split; [reflexivity|]. split; [right; reflexivity|]. split; [auto|]. split; [tauto|].
      split; [reflexivity | auto].
    + rewrite <- Eb in *. assert (Hne : bs <> []) by (subst; congruence).
      destruct (merge_step d bs) as [[x st0] bs1] eqn:Es.
      pose proof (merge_step_struct d bs x st0 bs1 Hd Hne Hwf Es) as Hst.
      destruct st0.
      * destruct Hst as [W1 [P1 [F1 _]]]. intro H. specialize (IH _ _ _ _ _ W1 H).
        destruct st; auto.
        -- destruct IH as [new [E [L [W [F [P I]]]]]]. exists (x :: new).
           split; [rewrite E, <- app_assoc; reflexivity|].
           split; [simpl; destruct L; [left; lia | right; auto]|].
           split; auto. split; [intro e; rewrite F, F1; tauto|].
           split; [rewrite P1, P; reflexivity|].
           intros all pre M. apply I. rewrite app_assoc. eapply merge_step_inv; eauto.
        -- apply F1; auto.
      * destruct Hst.
      * intro H; inversion H; subst. exact Hst.
Qed.

(* ================= draining a merge reader ================= *)

Lemma final_status_cons r rest : rest <> [] -> final_status (r :: rest) = final_status rest.
Proof. destruct r, rest; simpl; congruence. Qed.

Lemma drain_merge_ok d : (1 <= d)%nat -> forall demands m all pre,
  merr m = SOk -> MInv all pre (mbufs m) -> (forall e, ~ fails e (mbufs m)) ->
  Forall (fun x => (1 <= x)%nat) demands -> (length (pending (mbufs m)) < length demands)%nat ->
  let reads := drain_merge d m demands in
  final_status reads = SEof /\ ksorted (pre ++ out_rows reads) /\
  Permutation all (pre ++ out_rows reads).
Proof.
  intros Hd. induction demands as [|x rest IH]; intros m all pre He M Hnf Hdem Hlen; [simpl in Hlen; lia|].
  inversion Hdem as [|? ? Hx Hrest]; subst.
  simpl. unfold merge_read. rewrite He.
  destruct (merge_loop d x (mbufs m) []) as [[out st] bs'] eqn:El.
  pose proof (merge_loop_spec d Hd x (mbufs m) [] out st bs' (mi_wf _ _ _ M) El) as Hs.
  destruct st.
  - destruct Hs as [new [E [L [W [F [P I]]]]]]. simpl in E. subst new.
    specialize (I all pre). rewrite app_nil_r in I. specialize (I M).
    destruct (Nat.eqb (length out) 0) eqn:E0.
    + apply Nat.eqb_eq in E0. destruct out; [|discriminate]. simpl.
      destruct L as [L|L]; [simpl in L; lia|]. subst bs'.
      destruct I as [Ip Is _ _ _]. simpl in Ip. rewrite !app_nil_r in *.
      split; [reflexivity|]. split; [exact Is|]. exact Ip.
    + apply Nat.eqb_neq in E0. cbv zeta in IH.
      assert (Hlen' : (length (pending bs') < length rest)%nat).
      { apply Permutation_length in P. rewrite app_length in P. simpl in Hlen. lia. }
      specialize (IH (mkM SOk bs') all (pre ++ out) eq_refl I
                     (fun e Hf => Hnf e (proj1 (F e) Hf)) Hrest Hlen').
      simpl mbufs in *.
      destruct rest as [|x2 rest2]; [simpl in Hlen'; lia|].
      rewrite final_status_cons.
      2:{ simpl. destruct (merge_read d (mkM SOk bs') x2) as [[? s2] ?]. destruct s2; discriminate. }
      change (out_rows ((out, SOk) :: drain_merge d (mkM SOk bs') (x2 :: rest2)))
        with (out ++ out_rows (drain_merge d (mkM SOk bs') (x2 :: rest2))).
      rewrite app_assoc. exact IH.
  - destruct Hs.
  - exfalso. eapply Hnf; eauto.
Qed.

(* some input fails: the drain ends with one of the failures, never with EOF *)
Lemma drain_merge_err d : (1 <= d)%nat -> forall demands m,
  merr m = SOk -> Forall bwf (mbufs m) -> (exists e, fails e (mbufs m)) ->
  Forall (fun x => (1 <= x)%nat) demands -> (length (pending (mbufs m)) < length demands)%nat ->
  exists e, final_status (drain_merge d m demands) = SErr e /\ fails e (mbufs m).
Proof.
  intros Hd. induction demands as [|x rest IH]; intros m He Hwf Hf Hdem Hlen; [simpl in Hlen; lia|].
  inversion Hdem as [|? ? Hx Hrest]; subst.
  simpl. unfold merge_read. rewrite He.
  destruct (merge_loop d x (mbufs m) []) as [[out st] bs'] eqn:El.
  pose proof (merge_loop_spec d Hd x (mbufs m) [] out st bs' Hwf El) as Hs.
  destruct st.
  - destruct Hs as [new [E [L [W [F [P _]]]]]]. simpl in E. subst new.
    destruct (Nat.eqb (length out) 0) eqn:E0.
    + apply Nat.eqb_eq in E0. destruct out; [|discriminate].
      destruct L as [L|L]; [simpl in L; lia|]. subst bs'.
      destruct Hf as [e Hf]. apply F in Hf. inversion Hf.
    + apply Nat.eqb_neq in E0.
      assert (Hlen' : (length (pending bs') < length rest)%nat).
      { apply Permutation_length in P. rewrite app_length in P. simpl in Hlen. lia. }
      assert (Hf' : exists e, fails e bs') by (destruct Hf as [e Hf]; exists e; apply F; auto).
      destruct (IH (mkM SOk bs') eq_refl W Hf' Hrest Hlen') as [e [A B]].
      exists e. split; [|apply F; auto].
      destruct rest as [|x2 rest2]; [simpl in Hlen'; lia|].
      rewrite final_status_cons; auto.
      simpl. destruct (merge_read d (mkM SOk bs') x2) as [[? s2] ?]. destruct s2; discriminate.
  - destruct Hs.
  - exists e. simpl. auto.
Qed.

(* ================= NewMergeReader + drain ================= *)

Definition total_rows (rs : list (list resp)) : nat := length (concat (map sview rs)).

Theorem merge_sorted_union_view : forall d rs demands,
  (1 <= d)%nat ->
  Forall (fun s => ksorted (sview s)) rs ->
  Forall (fun s => send s = SEof) rs ->
  Forall (fun x => (1 <= x)%nat) demands -> (total_rows rs < length demands)%nat ->
  let o := run_merge d rs demands in
  ocreate o = COk /\ final_status (oreads o) = SEof /\
  ksorted (out_rows (oreads o)) /\ Permutation (out_rows (oreads o)) (concat (map sview rs)).
Proof.
  intros d rs demands Hd Hso Hend Hdem Hlen. unfold run_merge, new_merge.
  destruct (init_bufs d 0 rs) as [bs st] eqn:Ei.
  pose proof (init_bufs_spec d Hd rs 0%nat bs st Ei) as Hs.
  assert (Hno : forall e, ~ Exists (fun s => send s = SErr e) rs).
  { intros e H. apply Exists_exists in H as [s [Hin Hs']]. rewrite Forall_forall in Hend.
    rewrite (Hend s Hin) in Hs'. discriminate. }
  destruct st; [| destruct Hs | exfalso; eapply Hno; eauto].
  destruct Hs as [W [P [S F]]]. cbv zeta. simpl ocreate. simpl oreads.
  assert (M : MInv (concat (map sview rs)) [] bs).
  { constructor; auto.
    - simpl. rewrite P. reflexivity.
    - constructor.
    - intros ? ? [].
    - apply S; auto. }
  destruct (drain_merge_ok d Hd demands (mkM SOk bs) _ [] eq_refl M) as [A [B C]]; auto.
  - intros e Hf. apply F in Hf. eapply Hno; eauto.
  - simpl. rewrite P. exact Hlen.
  - simpl in *. repeat split; auto. symmetry; auto.
Qed.

Theorem merge_error_reported : forall d rs demands e,
  (1 <= d)%nat -> Exists (fun s => send s = SErr e) rs ->
  Forall (fun x => (1 <= x)%nat) demands -> (total_rows rs < length demands)%nat ->
  let o := run_merge d rs demands in
  exists e', Exists (fun s => send s = SErr e') rs /\
    (ocreate o = CErr e' \/ (ocreate o = COk /\ final_status (oreads o) = SErr e')).
Proof.
  intros d rs demands e Hd Hex Hdem Hlen. unfold run_merge, new_merge.
  destruct (init_bufs d 0 rs) as [bs st] eqn:Ei.
  pose proof (init_bufs_spec d Hd rs 0%nat bs st Ei) as Hs.
  destruct st; [| destruct Hs | exists e0; split; auto].
  destruct Hs as [W [P [_ F]]]. cbv zeta. simpl ocreate. simpl oreads.
  destruct (drain_merge_err d Hd demands (mkM SOk bs) eq_refl W) as [e' [A B]]; auto.
  - exists e. apply F; auto.
  - simpl. rewrite P. exact Hlen.
  - exists e'. split; [apply F; auto|]. right; auto.
Qed.

(* ================= SortReader ================= *)

(* the oracle is consulted after a full run of n >= 1 rows; it must not panic and must
   answer with a positive run length *)
Definition oracle_ok (oracle : nat -> nat -> option nat) : Prop :=
  forall i n, (1 <= n)%nat -> exists m, oracle i n = Some m /\ (1 <= m)%nat.

Lemma sort_loop_spec oracle : oracle_ok oracle -> forall fuel s len i sp lens,
  (ssize s + 2 <= fuel)%nat -> (1 <= len)%nat ->
  match sfin s with
  | SErr e => exists lens', sort_loop fuel oracle s len i sp lens = SortErr e lens'
  | _ => exists sp' lens', sort_loop fuel oracle s len i sp lens = SortOk sp' lens' /\
           Permutation (concat sp') (concat sp ++ srows s) /\
           (Forall ksorted sp -> Forall ksorted sp')
  end.
Proof.
  intros Ho. induction fuel as [|f IH]; intros s len i sp lens Hf Hlen; [lia|].
  cbn [sort_loop].
  destruct (readfull_spec (S f) s len [] ltac:(lia)) as [g [st [s' [Hr Hs]]]].
  rewrite Hr. destruct st.
  - destruct Hs as [A [B [C D]]]. simpl in A, D. destruct (D Hlen) as [D1 D2].
    destruct (Ho i (length g) ltac:(lia)) as [m [Hm1 Hm2]]. rewrite Hm1.
    specialize (IH s' m (S i) (spill sp (sort_rows g)) (lens ++ [len]) ltac:(lia) Hm2).
    rewrite B in IH. destruct (sfin s) eqn:Efin.
    + destruct IH as [sp' [lens' [E [P S]]]]. exists sp', lens'. split; auto. split.
      * rewrite P. unfold spill. rewrite concat_app. simpl. rewrite app_nil_r, A, <- app_assoc.
        apply Permutation_app_head, Permutation_app_tail, sort_rows_perm.
      * intro F. apply S. unfold spill. apply Forall_app. split; auto.
        constructor; [apply sort_rows_sorted | constructor].
    + destruct IH as [sp' [lens' [E [P S]]]]. exists sp', lens'. split; auto. split.
      * rewrite P. unfold spill. rewrite concat_app. simpl. rewrite app_nil_r, A, <- app_assoc.
        apply Permutation_app_head, Permutation_app_tail, sort_rows_perm.
      * intro F. apply S. unfold spill. apply Forall_app. split; auto.
        constructor; [apply sort_rows_sorted | constructor].
    + exact IH.
  - destruct Hs as [A B]. rewrite B. simpl in A. subst g.
    exists (spill sp (sort_rows (srows s))), (lens ++ [len]). split; auto. split.
    + unfold spill. rewrite concat_app. simpl. rewrite app_nil_r.
      apply Permutation_app_head, sort_rows_perm.
    + intro F. unfold spill. apply Forall_app. split; auto.
      constructor; [apply sort_rows_sorted | constructor].
  - rewrite Hs. eexists; reflexivity.
Qed.

Lemma run_scripts_view batch sp : (1 <= batch)%nat ->
  concat (map sview (map (run_script batch) sp)) = concat sp /\
  Forall (fun s => send s = SEof) (map (run_script batch) sp) /\
  (Forall ksorted sp -> Forall (fun s => ksorted (sview s)) (map (run_script batch) sp)).
Proof.
  intro Hb. induction sp as [|run sp IH]; simpl.
  - repeat split; constructor.
  - destruct IH as [A [B C]]. destruct (run_script_view batch run Hb) as [V E].
    rewrite V, A. repeat split; auto.
    intro F. inversion F; subst. constructor; [rewrite V; auto | auto].
Qed.

Theorem sort_reader_sorted_perm : forall canary batch oracle s demands,
  (1 <= canary)%nat -> (1 <= batch)%nat -> oracle_ok oracle ->
  sfin s = SEof ->
  Forall (fun x => (1 <= x)%nat) demands -> (length (srows s) < length demands)%nat ->
  let o := run_sort canary batch oracle s demands in
  ocreate o = COk /\ final_status (oreads o) = SEof /\
  ksorted (out_rows (oreads o)) /\ Permutation (out_rows (oreads o)) (srows s) /\
  oleft o = 0%nat.
Proof.
  intros canary batch oracle s demands Hc Hb Ho Hfin Hdem Hlen.
  unfold run_sort, sort_reader.
  pose proof (sort_loop_spec oracle Ho (S (S (ssize s))) s canary 0%nat [] [] ltac:(lia) Hc) as Hs.
  rewrite Hfin in Hs. destruct Hs as [sp [lens [E [P S]]]]. rewrite E. simpl in P.
  destruct (run_scripts_view batch sp Hb) as [V [Ve Vs]].
  assert (Ht : total_rows (map (run_script batch) sp) = length (srows s)).
  { unfold total_rows. rewrite V. apply Permutation_length, P. }
  pose proof (merge_sorted_union_view batch (map (run_script batch) sp) demands Hb
                (Vs (S ltac:(constructor))) Ve Hdem ltac:(lia)) as M.
  unfold run_merge in M.
  destruct (new_merge batch (map (run_script batch) sp)) as [m st] eqn:En.
  destruct st; cbv zeta in M; simpl in M.
  - cbv zeta. simpl. destruct M as [_ [A [B C]]]. repeat split; auto.
    rewrite C, V. exact P.
  - cbv zeta. simpl. destruct M as [_ [A [B C]]]. repeat split; auto.
    rewrite C, V. exact P.
  - destruct M as [M _]. discriminate.
Qed.

Theorem sort_error_reported : forall canary batch oracle s demands e,
  (1 <= canary)%nat -> oracle_ok oracle -> sfin s = SErr e ->
  let o := run_sort canary batch oracle s demands in
  ocreate o = CErr e /\ oreads o = [] /\ oleft o = 0%nat.
Proof.
  intros canary batch oracle s demands e Hc Ho Hfin. unfold run_sort, sort_reader.
  pose proof (sort_loop_spec oracle Ho (S (S (ssize s))) s canary 0%nat [] [] ltac:(lia) Hc) as Hs.
  rewrite Hfin in Hs. destruct Hs as [lens E]. rewrite E. simpl. auto.
Qed.

(* spill files never outlive SortReader, whatever happens (deferred Cleanup) *)
Theorem spill_lifetime : forall canary batch oracle s,
  snd (sort_reader canary batch oracle s) = [].
Proof.
  intros. unfold sort_reader.
  destruct (sort_loop _ _ _ _ _ _ _); simpl; auto.
  destruct (new_merge _ _); reflexivity.
Qed.

(* the run-length arithmetic of the code is such an oracle, whatever the encoded sizes *)
Lemma real_next_ok target batch size cur :
  (1 <= cur)%nat -> 1 <= batch ->
  exists m, real_next target batch size cur = Some m /\ (1 <= m)%nat.
Proof.
  intros Hc Hb. unfold real_next.
  destruct (Z.of_nat cur =? 0) eqn:E0; [apply Z.eqb_eq in E0; lia|].
  set (bpr := if Z.quot size (Z.of_nat cur) <? 1 then 1 else Z.quot size (Z.of_nat cur)).
  set (t0 := Z.quot target bpr).
  set (t := if t0 <? batch then batch else t0).
  assert (Ht : 1 <= t) by (unfold t; destruct (t0 <? batch) eqn:E2; [lia | apply Z.ltb_ge in E2; lia]).
  destruct (20 * Z.abs (Z.of_nat cur - t) >? t); eexists; split; eauto. lia.
Qed.

Lemma real_oracle_ok target batch (size : nat -> nat -> Z) :
  1 <= batch -> oracle_ok (fun i n => real_next target batch (size i n) n).
Proof. intros Hb i n Hn. apply real_next_ok; auto. Qed.

(* without the clamp it panicked (integer divide by zero) whenever a run encoded to
   fewer bytes than it had rows *)
Lemma real_next_unclamped_div_zero target batch size cur :
  0 <= size < Z.of_nat cur -> real_next_unclamped target batch size cur = None.
Proof.
  intros H. unfold real_next_unclamped. rewrite Z.quot_small by lia. reflexivity.
Qed.

(* where the old arithmetic did not panic the two agree *)
Lemma real_next_unclamped_agrees target batch size cur :
  (1 <= cur)%nat -> Z.of_nat cur <= size ->
  real_next_unclamped target batch size cur = real_next target batch size cur.
Proof.
  intros Hc Hs. unfold real_next, real_next_unclamped.
  assert (Hq : 1 <= Z.quot size (Z.of_nat cur)).
  { rewrite Z.quot_div_nonneg by lia. apply Z.div_le_lower_bound; lia. }
  destruct (Z.of_nat cur =? 0) eqn:E0; [apply Z.eqb_eq in E0; lia|].
  destruct (Z.quot size (Z.of_nat cur) =? 0) eqn:E; [apply Z.eqb_eq in E; lia|].
  destruct (Z.quot size (Z.of_nat cur) <? 1) eqn:E1; [apply Z.ltb_lt in E1; lia|].
  reflexivity.
Qed.

(* SortReader with the code's own arithmetic, for any spill target and any encoded sizes *)
Theorem sort_reader_real_arithmetic : forall canary batch target (size : nat -> nat -> Z) s demands,
  (1 <= canary)%nat -> (1 <= batch)%nat -> sfin s = SEof ->
  Forall (fun x => (1 <= x)%nat) demands -> (length (srows s) < length demands)%nat ->
  let o := run_sort canary batch (fun i n => real_next target (Z.of_nat batch) (size i n) n) s demands in
  ocreate o = COk /\ final_status (oreads o) = SEof /\
  ksorted (out_rows (oreads o)) /\ Permutation (out_rows (oreads o)) (srows s) /\
  oleft o = 0%nat.
Proof.
  intros. apply sort_reader_sorted_perm; auto. apply real_oracle_ok. lia.
Qed.

(* C10 — list facts used by the proofs (stdlib only, no axioms). *)
From Coq Require Import List ZArith Lia Bool Permutation Sorted.
Import ListNotations.
Require Import BS.C10.Model.
Local Open Scope Z_scope.

(* ---- upd / remove_at ---- *)
Lemma nth_split_skipn {A} (l : list A) i d :
  (i < length l)%nat -> skipn i l = nth i l d :: skipn (S i) l.
Proof.
  revert i; induction l as [|x l IH]; intros [|i] H; simpl in *; try lia; auto.
  apply IH; lia.
Qed.

Lemma remove_at_perm {A} (l : list A) i d :
  (i < length l)%nat -> Permutation l (nth i l d :: remove_at i l).
Proof.
  intro H. unfold remove_at.
  rewrite <- (firstn_skipn i l) at 1. rewrite (nth_split_skipn l i d H).
  symmetry. apply Permutation_middle.
Qed.

Lemma upd_perm {A} (l : list A) i x :
  (i < length l)%nat -> Permutation (upd l i x) (x :: remove_at i l).
Proof. intro H. unfold upd, remove_at. symmetry. apply Permutation_middle. Qed.

Lemma remove_at_length {A} (l : list A) i :
  (i < length l)%nat -> length (remove_at i l) = (length l - 1)%nat.
Proof.
  intro H. unfold remove_at. rewrite app_length, firstn_length, skipn_length. lia.
Qed.

(* ---- Permutation congruences ---- *)
Lemma Permutation_concat {A} (l l' : list (list A)) :
  Permutation l l' -> Permutation (concat l) (concat l').
Proof.
  induction 1; simpl; auto.
  - apply Permutation_app_head; auto.
  - rewrite !app_assoc. apply Permutation_app_tail, Permutation_app_comm.
  - etransitivity; eauto.
Qed.

Lemma Permutation_filter {A} (f : A -> bool) (l l' : list A) :
  Permutation l l' -> Permutation (filter f l) (filter f l').
Proof.
  induction 1; simpl; auto.
  - destruct (f x); auto.
  - destruct (f x), (f y); auto. apply perm_swap.
  - etransitivity; eauto.
Qed.

Lemma Forall_perm {A} (P : A -> Prop) l l' : Permutation l l' -> Forall P l -> Forall P l'.
Proof. intros H F. rewrite Forall_forall in *. intros x Hx. apply F. eapply Permutation_in; [symmetry|]; eauto. Qed.

Lemma Exists_perm {A} (P : A -> Prop) l l' : Permutation l l' -> Exists P l -> Exists P l'.
Proof. intros H F. rewrite Exists_exists in *. destruct F as [x [Hx Px]]. exists x; split; auto. eapply Permutation_in; eauto. Qed.

(* ---- key order ---- *)
Definition kle (a b : Z * Z) : Prop := rkey a <= rkey b.
Definition klt (a b : Z * Z) : Prop := rkey a < rkey b.
Definition ksorted : list (Z * Z) -> Prop := StronglySorted kle.
Definition kstrict : list (Z * Z) -> Prop := StronglySorted klt.

Lemma ssorted_app {A} (R : A -> A -> Prop) (a b : list A) :
  StronglySorted R a -> StronglySorted R b ->
  (forall x y, In x a -> In y b -> R x y) -> StronglySorted R (a ++ b).
Proof.
  induction a as [|x a IH]; simpl; intros Ha Hb H; auto.
  apply StronglySorted_inv in Ha as [Ha Hx]. constructor.
  - apply IH; auto.
  - apply Forall_app; split; auto. rewrite Forall_forall. intros y Hy. apply H; auto.
Qed.

Lemma ssorted_app_inv {A} (R : A -> A -> Prop) (a b : list A) :
  StronglySorted R (a ++ b) ->
  StronglySorted R a /\ StronglySorted R b /\ (forall x y, In x a -> In y b -> R x y).
Proof.
  induction a as [|x a IH]; simpl; intro H.
  - repeat split; auto. constructor. intros ? ? [].
  - apply StronglySorted_inv in H as [H Hx]. apply IH in H as [Ha [Hb Hab]].
    apply Forall_app in Hx as [Hxa Hxb]. repeat split; auto.
    + constructor; auto.
    + intros u y [<-|Hu] Hy; auto. rewrite Forall_forall in Hxb; auto.
Qed.

Lemma ssorted_skipn {A} (R : A -> A -> Prop) n (l : list A) :
  StronglySorted R l -> StronglySorted R (skipn n l).
Proof.
  intro H. rewrite <- (firstn_skipn n l) in H. apply ssorted_app_inv in H. tauto.
Qed.

Lemma kstrict_ksorted l : kstrict l -> ksorted l.
Proof.
  induction 1; constructor; auto.
  eapply Forall_impl; [|eassumption]. unfold klt, kle. intros; lia.
Qed.

(* ---- the model's insertion sort ---- *)
Lemma insert_row_perm x l : Permutation (insert_row x l) (x :: l).
Proof.
  induction l as [|y l IH]; simpl; auto.
  destruct (rkey x <=? rkey y); auto.
  etransitivity; [apply perm_skip, IH | apply perm_swap].
Qed.

Lemma sort_rows_perm l : Permutation (sort_rows l) l.
Proof.
  induction l as [|x l IH]; simpl; auto.
  etransitivity; [apply insert_row_perm | auto].
Qed.

Lemma insert_row_sorted x l : ksorted l -> ksorted (insert_row x l).
Proof.
  induction 1 as [|y l Hl IH Hy]; simpl.
  - constructor; constructor.
  - destruct (rkey x <=? rkey y) eqn:E.
    + apply Z.leb_le in E. constructor; [constructor; auto|].
      constructor; [exact E|]. eapply Forall_impl; [|exact Hy]. unfold kle. intros; lia.
    + apply Z.leb_gt in E. constructor; auto.
      eapply Forall_perm; [symmetry; apply insert_row_perm|].
      constructor; auto. unfold kle; lia.
Qed.

Lemma sort_rows_sorted l : ksorted (sort_rows l).
Proof.
  induction l; simpl; [constructor | apply insert_row_sorted; auto].
Qed.

(* ---- folding an associative, commutative combiner ---- *)
Section Fold.
  Variable comb : Z -> Z -> Z.
  Hypothesis comb_assoc : forall a b c, comb a (comb b c) = comb (comb a b) c.
  Hypothesis comb_comm : forall a b, comb a b = comb b a.

  Lemma fold_left_perm l l' : Permutation l l' ->
    forall a, fold_left comb l a = fold_left comb l' a.
  Proof.
    induction 1; simpl; intros; auto.
    - f_equal. rewrite <- !comb_assoc. f_equal. apply comb_comm.
    - etransitivity; eauto.
  Qed.

  Lemma fold1_perm l l' : Permutation l l' -> fold1 comb l = fold1 comb l'.
  Proof.
    induction 1; simpl; auto.
    - apply fold_left_perm; auto.
    - f_equal. apply comb_comm.
    - etransitivity; eauto.
  Qed.
End Fold.

(* ---- values of a key ---- *)
Lemma kvals_app k a b : kvals k (a ++ b) = kvals k a ++ kvals k b.
Proof. unfold kvals. rewrite filter_app, map_app. reflexivity. Qed.

Lemma kvals_perm k a b : Permutation a b -> Permutation (kvals k a) (kvals k b).
Proof. intro H. unfold kvals. apply Permutation_map, Permutation_filter, H. Qed.

Lemma kvals_none k l : (forall x, In x l -> rkey x <> k) -> kvals k l = [].
Proof.
  induction l as [|x l IH]; intro H; unfold kvals in *; simpl; auto.
  destruct (fst x =? k) eqn:E.
  - apply Z.eqb_eq in E. exfalso. apply (H x); simpl; auto.
  - apply IH. intros; apply H; simpl; auto.
Qed.

Lemma kvals_all k l : (forall x, In x l -> rkey x = k) -> kvals k l = map snd l.
Proof.
  induction l as [|x l IH]; intro H; unfold kvals in *; simpl; auto.
  assert (E : (fst x =? k) = true) by (apply Z.eqb_eq; apply (H x); simpl; auto).
  rewrite E. simpl. f_equal.
  apply IH. intros; apply H; simpl; auto.
Qed.

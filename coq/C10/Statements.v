(* C10 — the theorems in the vocabulary of the property text (scripts that end
   cleanly / end in a failure, no empty reads for merge inputs), soundness of the
   decidable checkers used by the correspondence, and non-vacuity examples. *)
From Coq Require Import List ZArith Lia Bool Permutation Sorted.
Import ListNotations.
Require Import BS.C10.Model BS.C10.Lists BS.C10.Buffers BS.C10.Proofs BS.C10.Reduce BS.C10.Corr.
Local Open Scope Z_scope.

(* ================= shapes of scripts ================= *)

(* the reader delivers the chunks [ls] and then fails with e *)
Definition fails_with (s : list resp) (e : Z) : Prop :=
  exists ls rest, s = map Rows ls ++ Fail e :: rest.

Lemma fails_with_sfin s e : fails_with s e -> sfin s = SErr e.
Proof.
  intros [ls [rest ->]]. induction ls as [|l ls IH]; simpl; auto.
Qed.

Lemma sfin_fails_with s e : sfin s = SErr e -> fails_with s e.
Proof.
  induction s as [|[l|l|e'] s IH]; simpl; intro H; try discriminate.
  - destruct (IH H) as [ls [rest ->]]. exists (l :: ls), rest. reflexivity.
  - inversion H; subst. exists [], s. reflexivity.
Qed.

Lemma views_are_rows rs : Forall (fun s => no_empty_reads s = true) rs ->
  map sview rs = map srows rs /\ map send rs = map sfin rs.
Proof.
  induction 1 as [|s rs Hs _ [IH1 IH2]]; simpl; auto.
  destruct (no_empty_reads_view s Hs) as [A B]. rewrite A, B, IH1, IH2. auto.
Qed.

Lemma Forall_map_eq {A B} (f g : A -> B) (P : B -> Prop) l :
  map f l = map g l -> Forall (fun x => P (f x)) l -> Forall (fun x => P (g x)) l.
Proof.
  induction l as [|x l IH]; simpl; intros E H; auto.
  inversion E; inversion H; subst. constructor; auto. congruence.
Qed.

Lemma Exists_map_eq {A B} (f g : A -> B) (P : B -> Prop) l :
  map f l = map g l -> Exists (fun x => P (f x)) l -> Exists (fun x => P (g x)) l.
Proof.
  induction l as [|x l IH]; simpl; intros E H; inversion H; subst; inversion E.
  - apply Exists_cons_hd. congruence.
  - apply Exists_cons_tl. auto.
Qed.

(* ================= merge and reduce-merge over inputs without empty reads ================= *)

Theorem merge_sorted_union : forall d rs demands,
  (1 <= d)%nat ->
  Forall (fun s => no_empty_reads s = true) rs ->
  Forall (fun s => ksorted (srows s)) rs ->
  Forall (fun s => sfin s = SEof) rs ->
  Forall (fun x => (1 <= x)%nat) demands ->
  (length (concat (map srows rs)) < length demands)%nat ->
  let o := run_merge d rs demands in
  ocreate o = COk /\ final_status (oreads o) = SEof /\
  ksorted (out_rows (oreads o)) /\ Permutation (out_rows (oreads o)) (concat (map srows rs)).
Proof.
  intros d rs demands Hd Hne Hso Hfin Hdem Hlen.
  destruct (views_are_rows rs Hne) as [V E]. rewrite <- V in *.
  apply merge_sorted_union_view; auto.
  - apply (Forall_map_eq srows sview ksorted); auto.
  - apply (Forall_map_eq sfin send (fun st => st = SEof)); auto.
Qed.

Theorem reduce_merge_spec : forall comb d rs demands,
  (forall a b c, comb a (comb b c) = comb (comb a b) c) ->
  (forall a b, comb a b = comb b a) ->
  (1 <= d)%nat ->
  Forall (fun s => no_empty_reads s = true) rs ->
  Forall (fun s => kstrict (srows s)) rs ->
  Forall (fun s => sfin s = SEof) rs ->
  Forall (fun x => (1 <= x)%nat) demands ->
  (length (concat (map srows rs)) < length demands)%nat ->
  let o := run_reduce d comb rs demands in
  ocreate o = COk /\ final_status (oreads o) = SEof /\
  is_reduce comb (concat (map srows rs)) (out_rows (oreads o)).
Proof.
  intros comb d rs demands Ha Hc Hd Hne Hso Hfin Hdem Hlen.
  destruct (views_are_rows rs Hne) as [V E]. rewrite <- V in *.
  apply reduce_merge_spec_view; auto.
  - apply (Forall_map_eq srows sview kstrict); auto.
  - apply (Forall_map_eq sfin send (fun st => st = SEof)); auto.
Qed.

(* ================= read errors are reported, never swallowed as EOF ================= *)

Theorem errors_not_swallowed :
  (* SortReader: the constructor itself returns the error *)
  (forall canary batch oracle s demands e,
     (1 <= canary)%nat -> oracle_ok oracle -> fails_with s e ->
     ocreate (run_sort canary batch oracle s demands) = CErr e) /\
  (* NewMergeReader: the constructor or the Read that meets the failure returns one of
     the inputs' errors; the drained reader never ends with EOF *)
  (forall d rs demands e,
     (1 <= d)%nat -> Forall (fun s => no_empty_reads s = true) rs ->
     Exists (fun s => fails_with s e) rs ->
     Forall (fun x => (1 <= x)%nat) demands ->
     (length (concat (map srows rs)) < length demands)%nat ->
     let o := run_merge d rs demands in
     exists e', Exists (fun s => fails_with s e') rs /\
       (ocreate o = CErr e' \/ (ocreate o = COk /\ final_status (oreads o) = SErr e'))) /\
  (* Reduce: likewise, for any combiner *)
  (forall comb d rs demands e,
     (1 <= d)%nat -> Forall (fun s => no_empty_reads s = true) rs ->
     Exists (fun s => fails_with s e) rs ->
     Forall (fun x => (1 <= x)%nat) demands ->
     (length (concat (map srows rs)) < length demands)%nat ->
     let o := run_reduce d comb rs demands in
     exists e', Exists (fun s => fails_with s e') rs /\
       ocreate o = COk /\ final_status (oreads o) = SErr e').
Proof.
  split; [|split].
  - intros canary batch oracle s demands e Hc Ho Hf.
    apply (sort_error_reported canary batch oracle s demands e Hc Ho (fails_with_sfin s e Hf)).
  - intros d rs demands e Hd Hne Hex Hdem Hlen.
    destruct (views_are_rows rs Hne) as [V E].
    assert (Hex' : Exists (fun s => send s = SErr e) rs).
    { apply (Exists_map_eq sfin send (fun st => st = SErr e)); auto.
      eapply Exists_impl; [|exact Hex]. intros; apply fails_with_sfin; auto. }
    destruct (merge_error_reported d rs demands e Hd Hex' Hdem) as [e' [A B]].
    + unfold total_rows. rewrite V. exact Hlen.
    + exists e'. split; auto.
      apply (Exists_map_eq send sfin (fun st => st = SErr e')) in A; auto.
      eapply Exists_impl; [|exact A]. intros; apply sfin_fails_with; auto.
  - intros comb d rs demands e Hd Hne Hex Hdem Hlen.
    destruct (views_are_rows rs Hne) as [V E].
    assert (Hex' : Exists (fun s => send s = SErr e) rs).
    { apply (Exists_map_eq sfin send (fun st => st = SErr e)); auto.
      eapply Exists_impl; [|exact Hex]. intros; apply fails_with_sfin; auto. }
    destruct (reduce_error_reported comb d rs demands e Hd Hex' Hdem) as [e' [A B]].
    + unfold total_rows. rewrite V. exact Hlen.
    + exists e'. split; auto.
      apply (Exists_map_eq send sfin (fun st => st = SErr e')) in A; auto.
      eapply Exists_impl; [|exact A]. intros; apply sfin_fails_with; auto.
Qed.

(* ================= the decidable checkers of Corr.v accept only what the
                     property allows ================= *)

Lemma sorted_keysb_sound l : sorted_keysb l = true -> ksorted l.
Proof.
  induction l as [|x l IH]; [constructor|].
  destruct l as [|y l']; [intros _; constructor; constructor|].
  intro H. change (sorted_keysb (x :: y :: l')) with ((fst x <=? fst y) && sorted_keysb (y :: l')) in H.
  apply andb_true_iff in H as [H1 H2]. apply Z.leb_le in H1. specialize (IH H2).
  constructor; auto. constructor; [exact H1|].
  apply StronglySorted_inv in IH as [_ Hall]. eapply Forall_impl; [|exact Hall].
  unfold kle, rkey. intros; lia.
Qed.

Lemma strict_keysb_sound l : strict_keysb l = true -> kstrict l.
Proof.
  induction l as [|x l IH]; [constructor|].
  destruct l as [|y l']; [intros _; constructor; constructor|].
  intro H. change (strict_keysb (x :: y :: l')) with ((fst x <? fst y) && strict_keysb (y :: l')) in H.
  apply andb_true_iff in H as [H1 H2]. apply Z.ltb_lt in H1. specialize (IH H2).
  constructor; auto. constructor; [exact H1|].
  apply StronglySorted_inv in IH as [_ Hall]. eapply Forall_impl; [|exact Hall].
  unfold klt, rkey. intros; lia.
Qed.

Lemma cinsert_perm x l : Permutation (cinsert x l) (x :: l).
Proof.
  induction l as [|y l IH]; simpl; auto.
  destruct (row_leb x y); auto.
  etransitivity; [apply perm_skip, IH | apply perm_swap].
Qed.

Lemma canon_perm l : Permutation (canon l) l.
Proof.
  induction l as [|x l IH]; simpl; auto.
  etransitivity; [apply cinsert_perm | auto].
Qed.

Lemma row_eqb_eq a b : row_eqb a b = true <-> a = b.
Proof.
  destruct a, b. unfold row_eqb. simpl. rewrite andb_true_iff, !Z.eqb_eq.
  split; [intros [-> ->]; auto | intro H; inversion H; auto].
Qed.

Lemma same_multiset_sound a b : same_multiset a b = true -> Permutation a b.
Proof.
  unfold same_multiset, rows_eqb. intro H.
  apply (list_eqb_spec row_eqb row_eqb_eq) in H.
  rewrite <- (canon_perm a), H. apply canon_perm.
Qed.

Lemma memZ_In x l : memZ x l = true <-> In x l.
Proof.
  unfold memZ. rewrite existsb_exists. split.
  - intros [y [Hy E]]. apply Z.eqb_eq in E. subst; auto.
  - intro H. exists x. split; auto. apply Z.eqb_refl.
Qed.

Lemma reduce_check_sound comb all out :
  reduce_check comb all out = true -> is_reduce comb all out.
Proof.
  unfold reduce_check. rewrite !andb_true_iff, !forallb_forall.
  intros [[[H1 H2] H3] H4]. split; [apply strict_keysb_sound; auto|]. split.
  - intro k. split; intro H; apply in_map_iff in H as [r [<- Hr]].
    + apply memZ_In. apply H3; auto.
    + apply memZ_In. apply H2; auto.
  - intros x Hx. specialize (H4 x Hx). apply Z.eqb_eq in H4. exact H4.
Qed.

(* the combiners of the driver satisfy the laws the theorem asks for *)
Lemma comb_of_laws o :
  (forall a b c, comb_of o a (comb_of o b c) = comb_of o (comb_of o a b) c) /\
  (forall a b, comb_of o a b = comb_of o b a).
Proof. destruct o; simpl; split; intros; lia. Qed.

(* ================= non-vacuity ================= *)

(* a sort over three runs (canary 2, then runs of 3 rows), an empty read upstream,
   rows arriving with EOF, destination frames of 2 rows *)
Example sort_example :
  run_sort 2 1 (fun _ _ => Some 3%nat)
    [Rows [(3, 1); (1, 2)]; Rows []; Rows [(2, 3); (1, 4); (0, 5)]; EofWith [(5, 6)]]
    [2; 2; 2; 2]%nat
  = mkO COk [([(0, 5); (1, 2)], SOk); ([(1, 4); (2, 3)], SOk); ([(3, 1); (5, 6)], SOk); ([], SEof)]
        [2; 3; 3]%nat 0.
Proof. vm_compute. reflexivity. Qed.

Example sort_example_hyps :
  let s := [Rows [(3, 1); (1, 2)]; Rows []; Rows [(2, 3); (1, 4); (0, 5)]; EofWith [(5, 6)]] in
  sfin s = SEof /\ oracle_ok (fun _ _ => Some 3%nat) /\ (length (srows s) < 7)%nat.
Proof. simpl. repeat split; auto; try lia. intros i n _. exists 3%nat. split; auto. Qed.

(* three streams, one empty, equal keys across streams *)
Example merge_example :
  run_merge 2 [[Rows [(1, 10); (1, 11); (4, 12)]]; [EofWith []]; [Rows [(1, 20)]; EofWith [(2, 21)]]]
    [3; 3; 3]%nat
  = mkO COk [([(1, 10); (1, 11); (1, 20)], SOk); ([(2, 21); (4, 12)], SOk); ([], SEof)] [] 0.
Proof. vm_compute. reflexivity. Qed.

Example reduce_example :
  run_reduce 128 Z.add [[Rows [(1, 10); (4, 12)]]; []; [Rows [(1, 20)]; EofWith [(2, 21); (4, 1)]]]
    [2; 2]%nat
  = mkO COk [([(1, 30); (2, 21)], SOk); ([(4, 13)], SEof)] [] 0.
Proof. vm_compute. reflexivity. Qed.

Example reduce_example_is_reduce :
  is_reduce Z.add [(1, 10); (4, 12); (1, 20); (2, 21); (4, 1)] [(1, 30); (2, 21); (4, 13)].
Proof. apply reduce_check_sound. vm_compute. reflexivity. Qed.

Example error_example :
  ocreate (run_sort 2 1 (fun _ _ => Some 3%nat) [Rows [(3, 1); (1, 2)]; Rows [(0, 0)]; Fail 7] [2]%nat) = CErr 7
  /\ final_status (oreads (run_merge 2 [[Rows [(1, 10)]; Fail 7]; [Rows [(2, 0)]]] [1; 1; 1]%nat)) = SErr 7
  /\ final_status (oreads (run_reduce 128 Z.add [[Rows [(1, 10)]; Fail 7]; [Rows [(2, 0)]]] [1; 1; 1]%nat)) = SErr 7.
Proof. vm_compute. auto. Qed.

(* A run of 4 rows that encodes to 3 bytes (a compressing codec).  With the arithmetic
   as it was before the clamp SortReader panicked although the input is fine; with the
   code's arithmetic the same input is sorted. *)
Theorem unclamped_arithmetic_div_zero :
  exists canary batch target size s demands,
    (1 <= canary)%nat /\ (1 <= batch)%nat /\ sfin s = SEof /\
    ocreate (run_sort canary batch (fun _ n => real_next_unclamped target (Z.of_nat batch) size n) s demands) = CPanic /\
    ocreate (run_sort canary batch (fun _ n => real_next target (Z.of_nat batch) size n) s demands) = COk.
Proof.
  exists 4%nat, 2%nat, 100, 3, [Rows [(0, 0); (0, 0); (0, 0); (0, 0)]; Rows [(0, 0)]], [1%nat].
  vm_compute. repeat split; auto; lia.
Qed.

Example compressing_codec_example :
  run_sort 4 2 (fun _ n => real_next 100 2 3 n)
    [Rows [(2, 0); (0, 0); (1, 0); (0, 0)]; Rows [(0, 1)]] [3; 3; 3]%nat
  = mkO COk [([(0, 0); (0, 0); (0, 1)], SOk); ([(1, 0); (2, 0)], SOk); ([], SEof)] [4; 100]%nat 0.
Proof. vm_compute. reflexivity. Qed.

(* C10 — executable model of sortio (sort.go, reader.go) over scripted upstream
   readers.  No proofs here: the model must still evaluate when a proof is broken.

   A row is (key, value) : Z * Z.  The harness maps the key prefix of every Go row
   type injectively and order-preservingly onto Z (multi-column prefixes
   lexicographically; frame.Less on views is C11's theorem C11_less_position_free)
   and the remaining columns injectively onto Z.

   An upstream sliceio.Reader is a script: the list of its future responses.
   [Rows l]    : returns the rows l with a nil error ([Rows []] = a read that returns
                 no rows without ending);
   [EofWith l] : returns l together with sliceio.EOF, and EOF ever after;
   [Fail e]    : returns (0, error e), sticky.
   A response larger than the destination frame is delivered in pieces. *)
From Coq Require Import List ZArith Lia Bool.
Import ListNotations.
Local Open Scope Z_scope.

Notation row := (Z * Z)%type (only parsing).
Definition rkey (r : Z * Z) : Z := fst r.
Definition rval (r : Z * Z) : Z := snd r.
Definition row0 : Z * Z := (0, 0).

Inductive resp := Rows (l : list (Z * Z)) | EofWith (l : list (Z * Z)) | Fail (e : Z).
Notation script := (list resp) (only parsing).

(* the error value of a Read: nil / sliceio.EOF / any other error (code e) *)
Inductive status := SOk | SEof | SErr (e : Z).

(* ---- scripted reader: Read(ctx, frame of length d) ---- *)
Definition sread (s : script) (d : nat) : list row * status * script :=
  match s with
  | [] => ([], SEof, [])
  | Rows l :: s' =>
      if (length l <=? d)%nat then (l, SOk, s')
      else (firstn d l, SOk, Rows (skipn d l) :: s')
  | EofWith l :: s' =>
      if (length l <=? d)%nat then (l, SEof, [])
      else (firstn d l, SOk, EofWith (skipn d l) :: s')
  | Fail e :: s' => ([], SErr e, Fail e :: s')
  end.

(* ---- specification vocabulary for scripts ---- *)
(* rows and ending seen by a consumer that keeps reading through empty reads
   (sliceio.ReadFull, hence SortReader) *)
Fixpoint srows (s : script) : list row :=
  match s with
  | [] => []
  | Rows l :: s' => l ++ srows s'
  | EofWith l :: _ => l
  | Fail _ :: _ => []
  end.
Fixpoint sfin (s : script) : status :=
  match s with
  | [] => SEof
  | Rows _ :: s' => sfin s'
  | EofWith _ :: _ => SEof
  | Fail e :: _ => SErr e
  end.
(* rows and ending seen through a FrameBuffer, for which an empty read is the end
   of input (sort.go:99-119) *)
Fixpoint sview (s : script) : list row :=
  match s with
  | [] => []
  | Rows l :: s' => match l with [] => [] | _ => l ++ sview s' end
  | EofWith l :: _ => l
  | Fail _ :: _ => []
  end.
Fixpoint send (s : script) : status :=
  match s with
  | [] => SEof
  | Rows l :: s' => match l with [] => SEof | _ => send s' end
  | EofWith _ :: _ => SEof
  | Fail e :: _ => SErr e
  end.
Fixpoint no_empty_reads (s : script) : bool :=
  match s with
  | [] => true
  | Rows l :: s' => negb (Nat.eqb (length l) 0) && no_empty_reads s'
  | EofWith _ :: _ => true
  | Fail _ :: _ => true
  end.
Fixpoint ssize (s : script) : nat :=
  match s with
  | [] => 0%nat
  | Rows l :: s' => S (length l + ssize s')
  | EofWith l :: s' => S (length l + ssize s')
  | Fail _ :: s' => S (ssize s')
  end.

(* ---- sliceio.ReadFull(ctx, r, f), sliceio/reader.go:181 ----
   for n < len { m, err := r.Read(f.Slice(n, len)); n += m; if err != nil { return n, err } }
   [None] = out of fuel (excluded by readfull_fuel). *)
Fixpoint readfull (fuel : nat) (s : script) (len : nat) (got : list row)
  : option (list row * status * script) :=
  match fuel with
  | O => None
  | S f =>
      if (length got <? len)%nat then
        let '(l, st, s') := sread s (len - length got) in
        match st with
        | SOk => readfull f s' len (got ++ l)
        | _ => Some (got ++ l, st, s')
        end
      else Some (got, SOk, s)
  end.

(* ---- sort.Sort(g): any comparison sort; order among equal keys is not observable
        after canonicalisation, the model uses a stable insertion sort ---- *)
Fixpoint insert_row (x : row) (l : list row) : list row :=
  match l with
  | [] => [x]
  | y :: r => if rkey x <=? rkey y then x :: l else y :: insert_row x r
  end.
Fixpoint sort_rows (l : list row) : list row :=
  match l with
  | [] => []
  | x :: r => insert_row x (sort_rows r)
  end.

(* ---- the run-length arithmetic of SortReader, sort.go:61-72 ----
     bytesPerRow := size / n
     if bytesPerRow < 1 { bytesPerRow = 1 }
     targetRows := spillTarget / bytesPerRow
     if targetRows < sliceio.SpillBatchSize { targetRows = sliceio.SpillBatchSize }
     if math.Abs(float64(f.Len()-targetRows)/float64(targetRows)) > 0.05 { f = f.Ensure(targetRows) }
   n = f.Len() = cur at this point.  For integers below 2^50, |d|/t > 0.05 in
   float64 iff 20*|d| > t.  [None] = run-time panic (integer divide by zero); with the
   clamp it only remains for n = 0, i.e. a canary size of 0, outside the property. *)
Definition real_next (target batch size : Z) (cur : nat) : option nat :=
  let n := Z.of_nat cur in
  if n =? 0 then None
  else
    let bpr0 := Z.quot size n in
    let bpr := if bpr0 <? 1 then 1 else bpr0 in
    let t0 := Z.quot target bpr in
    let t := if t0 <? batch then batch else t0 in
    if 20 * Z.abs (n - t) >? t then Some (Z.to_nat t) else Some cur.

(* the arithmetic before the clamp was added (commit a84f39d): bytesPerRow = 0 when a run
   encodes to fewer bytes than it has rows, and spillTarget / 0 panics *)
Definition real_next_unclamped (target batch size : Z) (cur : nat) : option nat :=
  let n := Z.of_nat cur in
  let bpr := Z.quot size n in
  if bpr =? 0 then None
  else
    let t0 := Z.quot target bpr in
    let t := if t0 <? batch then batch else t0 in
    if 20 * Z.abs (n - t) >? t then Some (Z.to_nat t) else Some cur.

(* ---- sliceio.Spiller: the files of the temporary directory ---- *)
Notation spiller := (list (list (Z * Z))) (only parsing).
Definition spill (sp : spiller) (run : list row) : spiller := sp ++ [run].
Definition cleanup (sp : spiller) : spiller := [].     (* os.RemoveAll(dir) *)

(* Spill encodes the frame in batches of SpillBatchSize (spiller.go:59-69); the
   decoding reader hands back one batch per Read (the merge buffers are
   SpillBatchSize long), then EOF. *)
Fixpoint chunks (fuel : nat) (b : nat) (l : list row) : list (list row) :=
  match fuel with
  | O => []
  | S f => match l with
           | [] => []
           | _ => firstn b l :: chunks f b (skipn b l)
           end
  end.
Definition run_script (batch : nat) (run : list row) : script :=
  map Rows (chunks (length run) batch run).

(* ---- the sort-and-spill loop of SortReader, sort.go:43-70 ---- *)
Inductive sortres :=
| SortOk (sp : spiller) (lens : list nat)    (* the spilled runs, the run lengths used *)
| SortErr (e : Z) (lens : list nat)
| SortPanic (lens : list nat)
| SortFuel.

Fixpoint sort_loop (fuel : nat) (oracle : nat -> nat -> option nat) (s : script)
                   (len : nat) (i : nat) (sp : spiller) (lens : list nat) : sortres :=
  match fuel with
  | O => SortFuel
  | S f =>
      match readfull (S f) s len [] with
      | None => SortFuel
      | Some (g, st, s') =>
          match st with
          | SErr e => SortErr e (lens ++ [len])            (* return nil, err *)
          | SEof => SortOk (spill sp (sort_rows g)) (lens ++ [len])
          | SOk =>
              match oracle i (length g) with
              | None => SortPanic (lens ++ [len])
              | Some len' =>
                  sort_loop f oracle s' len' (S i) (spill sp (sort_rows g)) (lens ++ [len])
              end
          end
      end
  end.

(* ================= FrameBuffer and the merge heap ================= *)

(* FrameBuffer{Frame; Reader; Index, Len; Off}: [brows] are the rows the last Read
   put into the buffer's slice of the shared frame. *)
Record fbuf := mkB { brows : list (Z * Z); bidx : nat; blen : nat; boff : nat; brd : list resp }.
Definition bdflt : fbuf := mkB [] 0 0 0 [].

Definition bpos (b : fbuf) : nat := (boff b + bidx b)%nat.
(* f.Less(bi.Pos(), bj.Pos()) reads row Index of each buffer's own slice *)
Definition bhead (b : fbuf) : row := nth (bidx b) (brows b) row0.
Definition bkey (b : fbuf) : Z := rkey (bhead b).

(* FrameBuffer.Fill, sort.go:102-119; d = length of the buffer's frame.  Fill panics
   when Index != Len; every call site below calls it with Index = Len (a fresh buffer,
   or right after Index++ reached Len), so that branch is not modelled. *)
Definition fill (d : nat) (b : fbuf) : fbuf * status :=
  let '(l, st, s') := sread (brd b) d in
  match st with
  | SErr e => (mkB l (bidx b) (length l) (boff b) s', SErr e)
  | _ =>
      let st1 := match st with
                 | SEof => if (0 <? length l)%nat then SOk else SEof
                 | _ => st
                 end in
      let st2 := match st1 with
                 | SOk => if Nat.eqb (length l) 0 then SEof else SOk
                 | _ => st1
                 end in
      (mkB l 0 (length l) (boff b) s', st2)
  end.

(* the root of the heap: a buffer with a minimal current key; leftmost on ties
   (which one container/heap picks among equal keys is not observable after
   canonicalisation) *)
Fixpoint min_idx (bs : list fbuf) : nat :=
  match bs with
  | [] => 0%nat
  | b :: rest =>
      match rest with
      | [] => 0%nat
      | _ => let j := min_idx rest in
             if bkey (nth j rest bdflt) <? bkey b then S j else 0%nat
      end
  end.

Definition upd {A} (l : list A) (i : nat) (x : A) : list A := firstn i l ++ x :: skipn (S i) l.
Definition remove_at {A} (i : nat) (l : list A) : list A := firstn i l ++ skipn (S i) l.

(* the buffer-creation loop shared by NewMergeReader (sort.go:169-184) and
   reader.Read (reader.go:60-76): buffers that are at EOF at once are skipped *)
Fixpoint init_bufs (d : nat) (i : nat) (rs : list script) : list fbuf * status :=
  match rs with
  | [] => ([], SOk)
  | s :: rest =>
      let '(b, st) := fill d (mkB [] 0 0 (i * d) s) in
      match st with
      | SErr e => ([], SErr e)
      | SEof => init_bufs d (S i) rest
      | SOk => let '(bs, st') := init_bufs d (S i) rest in (b :: bs, st')
      end
  end.

(* ---- mergeReader, sort.go:154-222 ---- *)
Record mrd := mkM { merr : status; mbufs : list fbuf }.

Definition new_merge (d : nat) (rs : list script) : mrd * status :=
  let '(bs, st) := init_bufs d 0 rs in (mkM SOk bs, st).

Definition advance_idx (b : fbuf) : fbuf := mkB (brows b) (S (bidx b)) (blen b) (boff b) (brd b).

(* b.Index++; if b.Index == b.Len { err = b.Fill(ctx) }   (sort.go:202-204, reader.go:111-113);
   SOk: the buffer still holds a current row *)
Definition next_row (d : nat) (b : fbuf) : fbuf * status :=
  let b1 := advance_idx b in
  if Nat.eqb (bidx b1) (blen b1) then fill d b1 else (b1, SOk).

(* one iteration of the loop of mergeReader.Read, sort.go:199-216 *)
Definition merge_step (d : nat) (bs : list fbuf) : row * status * list fbuf :=
  let i := min_idx bs in
  let b := nth i bs bdflt in
  let x := bhead b in
  let '(b2, st) := next_row d b in
  match st with
  | SErr e => (x, SErr e, upd bs i b2)
  | SEof => (x, SOk, remove_at i bs)          (* heap.Remove(m.heap, 0) *)
  | SOk => (x, SOk, upd bs i b2)              (* heap.Fix(m.heap, 0) *)
  end.

(* for n < max && len(m.heap.Buffers) > 0 { ... }; k = max - n *)
Fixpoint merge_loop (d : nat) (k : nat) (bs : list fbuf) (acc : list row)
  : list row * status * list fbuf :=
  match k with
  | O => (acc, SOk, bs)
  | S k' =>
      match bs with
      | [] => (acc, SOk, bs)
      | _ =>
          let '(x, st, bs') := merge_step d bs in
          match st with
          | SOk => merge_loop d k' bs' (acc ++ [x])
          | _ => (acc, st, bs')
          end
      end
  end.

Definition merge_read (d : nat) (m : mrd) (max : nat) : list row * status * mrd :=
  match merr m with
  | SOk =>
      let '(out, st, bs) := merge_loop d max (mbufs m) [] in
      match st with
      | SOk => if Nat.eqb (length out) 0 then ([], SEof, mkM SEof bs) else (out, SOk, mkM SOk bs)
      | _ => ([], st, mkM st bs)                (* m.err = err; return 0, err *)
      end
  | e => ([], e, m)
  end.

(* a consumer: Read with the given destination lengths until a non-nil error *)
Fixpoint drain_merge (d : nat) (m : mrd) (demands : list nat) : list (list row * status) :=
  match demands with
  | [] => []
  | x :: rest =>
      let '(out, st, m') := merge_read d m x in
      match st with
      | SOk => (out, st) :: drain_merge d m' rest
      | _ => [(out, st)]
      end
  end.

(* ---- SortReader as a whole, sort.go:31-76 ---- *)
Inductive create := COk | CErr (e : Z) | CPanic | CFuel.

Record outcome := mkO {
  ocreate : create;                         (* what the constructor reported *)
  oreads : list (list (Z * Z) * status);    (* each Read of the consumer: rows, error *)
  olens : list nat;                         (* SortReader: the run lengths used *)
  oleft : nat                               (* SortReader: spill files left after it returned *)
}.

Definition sort_reader (canary batch : nat) (oracle : nat -> nat -> option nat) (s : script)
  : create * mrd * list nat * spiller :=
  match sort_loop (S (S (ssize s))) oracle s canary 0 [] [] with
  | SortFuel => (CFuel, mkM SOk [], [], [])
  | SortErr e lens => (CErr e, mkM SOk [], lens, cleanup [])
  | SortPanic lens => (CPanic, mkM SOk [], lens, cleanup [])
  | SortOk sp lens =>
      (* readers, err := spill.ClosingReaders(); return NewMergeReader(ctx, typ, readers);
         the deferred Cleanup runs after the files were opened *)
      let '(m, st) := new_merge batch (map (run_script batch) sp) in
      (match st with SErr e => CErr e | _ => COk end, m, lens, cleanup sp)
  end.

Definition run_sort (canary batch : nat) (oracle : nat -> nat -> option nat) (s : script)
                    (demands : list nat) : outcome :=
  let '(c, m, lens, sp) := sort_reader canary batch oracle s in
  mkO c (match c with COk => drain_merge batch m demands | _ => [] end) lens (length sp).

Definition run_merge (batch : nat) (rs : list script) (demands : list nat) : outcome :=
  let '(m, st) := new_merge batch rs in
  match st with
  | SErr e => mkO (CErr e) [] [] 0
  | _ => mkO COk (drain_merge batch m demands) [] 0
  end.

(* ================= sortio.Reduce: reader.Read, reader.go:48-130 ================= *)

Record rrd := mkR { rerr : status; rinit : bool; rbufs : list fbuf; rreaders : list (list resp) }.

Definition new_reduce (rs : list script) : rrd := mkR SOk false [] rs.

(* for len(combine) == 0 || len(Buffers) > 0 && !Less(combine[0].Pos(), Buffers[0].Pos())
     { combine = append(combine, heap.Pop(r.heap)) }
   after the first pop; fuel = len(Buffers) *)
Fixpoint gather (fuel : nat) (c0 : fbuf) (bs : list fbuf) (comb : list fbuf)
  : list fbuf * list fbuf :=
  match fuel with
  | O => (comb, bs)
  | S f =>
      match bs with
      | [] => (comb, bs)
      | _ =>
          let i := min_idx bs in
          let b := nth i bs bdflt in
          if bkey c0 <? bkey b then (comb, bs)
          else gather f c0 (remove_at i bs) (comb ++ [b])
      end
  end.

(* combined = val0; combined = combiner(combined, val_i) *)
Definition fold1 (comb : Z -> Z -> Z) (vs : list Z) : Z :=
  match vs with
  | [] => 0
  | v :: t => fold_left comb t v
  end.

(* for _, buf := range combine { buf.Index++; refill or push back } *)
Fixpoint advance (d : nat) (cs : list fbuf) (bs : list fbuf) : list fbuf * status :=
  match cs with
  | [] => (bs, SOk)
  | b :: rest =>
      let '(b2, st) := next_row d b in
      match st with
      | SErr e => (bs, SErr e)
      | SEof => advance d rest bs               (* dropped from the heap *)
      | SOk => advance d rest (bs ++ [b2])      (* heap.Push *)
      end
  end.

Definition reduce_step (d : nat) (comb : Z -> Z -> Z) (bs : list fbuf)
  : row * status * list fbuf :=
  let i := min_idx bs in
  let c0 := nth i bs bdflt in
  let '(cs, bs1) := gather (length bs) c0 (remove_at i bs) [c0] in
  let v := fold1 comb (map (fun b => rval (bhead b)) cs) in
  let '(bs2, st) := advance d cs bs1 in
  ((bkey c0, v), st, bs2).

Fixpoint reduce_loop (d : nat) (comb : Z -> Z -> Z) (k : nat) (bs : list fbuf) (acc : list row)
  : list row * status * list fbuf :=
  match k with
  | O => (acc, SOk, bs)
  | S k' =>
      match bs with
      | [] => (acc, SOk, bs)
      | _ =>
          let '(x, st, bs') := reduce_step d comb bs in
          match st with
          | SOk => reduce_loop d comb k' bs' (acc ++ [x])
          | _ => (acc, st, bs')                    (* return n, err: the row is not counted *)
          end
      end
  end.

Definition reduce_read (d : nat) (comb : Z -> Z -> Z) (r : rrd) (max : nat)
  : list row * status * rrd :=
  match rerr r with
  | SOk =>
      let '(bs0, st0) := if rinit r then (rbufs r, SOk) else init_bufs d 0 (rreaders r) in
      match st0 with
      | SErr e => ([], SErr e, mkR (SErr e) true [] (rreaders r))
      | _ =>
          let '(out, st, bs) := reduce_loop d comb max bs0 [] in
          match st with
          | SOk => (out, match bs with [] => SEof | _ => SOk end, mkR SOk true bs (rreaders r))
          | _ => (out, st, mkR st true bs (rreaders r))
          end
      end
  | e => ([], e, r)
  end.

Fixpoint drain_reduce (d : nat) (comb : Z -> Z -> Z) (r : rrd) (demands : list nat)
  : list (list row * status) :=
  match demands with
  | [] => []
  | x :: rest =>
      let '(out, st, r') := reduce_read d comb r x in
      match st with
      | SOk => (out, st) :: drain_reduce d comb r' rest
      | _ => [(out, st)]
      end
  end.

Definition run_reduce (chunk : nat) (comb : Z -> Z -> Z) (rs : list script) (demands : list nat)
  : outcome :=
  mkO COk (drain_reduce chunk comb (new_reduce rs) demands) [] 0.

(* the values of key k among rows (specification vocabulary of the reduce-merge) *)
Definition kvals (k : Z) (all : list (Z * Z)) : list Z :=
  map snd (filter (fun r => fst r =? k) all).

(* ================= observables of a drained reader ================= *)

(* rows handed to a consumer that, like sliceio.ReadAll, keeps the rows of reads that
   returned nil or EOF and discards those of a failing read *)
Fixpoint out_rows (reads : list (list row * status)) : list row :=
  match reads with
  | [] => []
  | (l, SErr _) :: rest => out_rows rest
  | (l, _) :: rest => l ++ out_rows rest
  end.

(* the error of the last Read; SOk = the consumer stopped before any *)
Fixpoint final_status (reads : list (list row * status)) : status :=
  match reads with
  | [] => SOk
  | (_, st) :: rest => match rest with [] => st | _ => final_status rest end
  end.

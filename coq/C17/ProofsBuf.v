(* C17 — bufferOutput keeps the frames a reader delivered (without copying,
   exec/local.go:232-236) and taskBufferReader reads them back: for every
   reader that satisfies the generic step property, the round trip through a
   task buffer yields exactly the reader's rows, for every demand sequence. *)
From Coq Require Import List ZArith Bool Arith Lia.
Import ListNotations.
Require Import BS.C17.Model BS.C17.Lemmas BS.C17.ProofsMulti BS.C17.ProofsFlatmap BS.C17.ProofsOps BS.C17.ProofsFold.

Section BufOut.
  Variable S : Type.
  Variable read : S -> nat -> list row * status * S.
  Variable Inv : S -> Prop.
  Variable Rem : S -> list row.
  Variable failing mayfail : S -> bool.
  Variable mu : S -> nat.
  Hypothesis Hstep : step_ok S read Inv Rem failing mayfail mu.

  Lemma bufout_spec : forall fuel st frames,
    Inv st -> mu st < fuel ->
    match bufout fuel read st frames with
    | (Some fs, _) => concat fs = concat frames ++ Rem st /\ failing st = false
    | (None, SErr _) => mayfail st = true
    | (None, _) => False
    end.
  Proof.
    induction fuel as [|fuel IH]; intros st frames HI Hm; [lia|].
    simpl. destruct (read st chunk) as [[o s] st'] eqn:E.
    assert (Hc : 1 <= chunk) by (unfold chunk; lia).
    destruct (Hstep _ _ _ _ _ HI Hc E) as [_ Hs].
    assert (Hcat : concat (if is_nil o then frames else frames ++ [o]) = concat frames ++ o).
    { destruct o; simpl; [rewrite app_nil_r; reflexivity|].
      rewrite concat_app. simpl. rewrite app_nil_r. reflexivity. }
    destruct s.
    - destruct Hs as (HR & HI' & HF & HM & Hlt).
      specialize (IH st' (if is_nil o then frames else frames ++ [o]) HI' ltac:(lia)).
      destruct (bufout fuel read st' _) as [[fs|] s1].
      + destruct IH as [Hc1 Hf1]. rewrite Hc1, Hcat, HR, <- app_assoc. split; [reflexivity|congruence].
      + destruct s1; auto. congruence.
    - destruct Hs as (HR & HF). rewrite Hcat, HR. auto.
    - tauto.
    - destruct Hs.
  Qed.

  Theorem bufout_roundtrip st fuel ds :
    Inv st -> mu st < fuel -> mayfail st = false ->
    demands_ok ds -> length (Rem st) < length ds ->
    exists fs, bufout fuel read st [] = (Some fs, SOk) /\
               outs_of (run tb_read (tb_init [fs] 0) ds) = Rem st.
  Proof.
    intros HI Hm Hmf Hds Hl.
    pose proof (bufout_spec fuel st [] HI Hm) as H.
    assert (Hok : forall fu st0 fr fs s, bufout fu read st0 fr = (Some fs, s) -> s = SOk).
    { induction fu as [|fu IHf]; intros st0 fr fs s0 Hb; simpl in Hb; [discriminate|].
      destruct (read st0 chunk) as [[o s1] st1]. destruct s1; try discriminate.
      - eapply IHf; eauto.
      - inversion Hb; reflexivity. }
    destruct (bufout fuel read st []) as [[fs|] s] eqn:E.
    - destruct H as [Hc _]. simpl in Hc. exists fs.
      rewrite (Hok _ _ _ _ _ E). split; [reflexivity|].
      assert (Hsem : sem_tb [fs] 0 = Rem st).
      { unfold sem_tb. simpl. exact Hc. }
      rewrite <- Hsem. apply taskbuf_total; auto. rewrite Hsem. exact Hl.
    - destruct s; try tauto. congruence.
  Qed.
End BufOut.

(* instance: the output of a flatmap, buffered by the local executor and read
   back with any destination sizes *)
Theorem bufout_flatmap_roundtrip f s ds :
  fails s = false -> demands_ok ds -> length (sem_flatmap f (rows_of s)) < length ds ->
  exists fs,
    bufout (smeas s + length (sem_flatmap f (rows_of s)) + 2) (fm_read f) (fm_init s) [] = (Some fs, SOk) /\
    outs_of (run tb_read (tb_init [fs] 0) ds) = sem_flatmap f (rows_of s).
Proof.
  intros HF Hds Hl.
  assert (HR : fm_rem f (fm_init s) = sem_flatmap f (rows_of s)) by reflexivity.
  rewrite <- HR in *.
  apply (bufout_roundtrip _ _ _ _ _ _ _ (fm_step f)); auto.
  - unfold fm_inv; simpl; discriminate.
  - unfold fm_mu, fm_phi. rewrite HR. simpl. rewrite HR in *. lia.
Qed.

(* ------------------------------------------------------------------ *)
(* headReader over ANY upstream reader that satisfies the generic step
   property: it asks the upstream for at most the rows still wanted, delivers
   the first n rows of what the upstream would deliver, and ends. *)
Section HeadOver.
  Variable S : Type.
  Variable read : S -> nat -> list row * status * S.
  Variable Inv : S -> Prop.
  Variable Rem : S -> list row.
  Variable failing mayfail : S -> bool.
  Variable mu : S -> nat.
  Hypothesis Hstep : step_ok S read Inv Rem failing mayfail mu.

  Lemma head_over_step :
    step_ok (S * Z) (head_over read) (fun st => Inv (fst st))
            (fun st => sem_head (snd st) (Rem (fst st))) (fun _ => false)
            (fun st => mayfail (fst st)) (fun st => mu (fst st)).
  Proof.
    intros [u n] d o s st' HI Hd H. simpl in *. unfold head_over in H.
    destruct (Z.leb_spec n 0) as [Hn|Hn].
    - inversion H; subst. simpl. split; [lia|]. unfold sem_head.
      replace (Z.to_nat n) with 0 by lia. auto.
    - set (d' := if (n <? Z.of_nat d)%Z then Z.to_nat n else d) in *.
      assert (Hd' : 1 <= d' /\ d' <= d /\ (Z.of_nat d' <= n)%Z).
      { unfold d'. destruct (Z.ltb_spec n (Z.of_nat d)); lia. }
      destruct (read u d') as [[rows s0] u'] eqn:E. inversion H; subst; clear H.
      destruct (Hstep _ _ _ _ _ HI (proj1 Hd') E) as [Hl Hs].
      split; [lia|]. unfold sem_head. simpl.
      assert (Hcut : forall c, firstn (Z.to_nat n) (o ++ c) = o ++ firstn (Z.to_nat (n - Z.of_nat (length o))) c).
      { intro c. rewrite firstn_app, firstn_all2 by lia. f_equal. f_equal. lia. }
      destruct s.
      + destruct Hs as (HR & HI' & _ & HM & Hlt). rewrite HR, Hcut. repeat split; auto.
      + destruct Hs as (HR & _). rewrite HR. split; [|reflexivity]. apply firstn_all2. lia.
      + destruct Hs as ([c Hc] & HM). split; [|exact HM]. rewrite Hc, Hcut. apply prefix_app_r.
      + exact Hs.
  Qed.

  Theorem head_over_delivers u n ds :
    Inv u -> demands_ok ds ->
    delivers_gen (run (head_over read) (u, n) ds) ds (sem_head n (Rem u)) false (mayfail u).
  Proof. intros HI H. exact (generic_delivers _ _ _ _ _ _ _ head_over_step ds (u, n) HI H). Qed.
  Theorem head_over_progress u n ds :
    Inv u -> demands_ok ds -> mu u < length ds ->
    final_of (run (head_over read) (u, n) ds) <> SOk.
  Proof. intros HI H L. exact (generic_progress _ _ _ _ _ _ _ head_over_step ds (u, n) HI H L). Qed.
End HeadOver.

(* instance: Head(n) directly over a decoded stream delivers the first n rows
   of the stream, whatever the batch sizes and the destination sizes *)
Theorem head_decoding_delivers s n ds :
  demands_ok ds ->
  delivers_gen (run (head_over dec_read) (mkDec s [] SOk, n) ds) ds
               (sem_head n (batches_of s)) false (dec_fails s).
Proof.
  intro H.
  exact (head_over_delivers _ _ _ _ _ _ _ ProofsFold.dec_step (mkDec s [] SOk) n ds eq_refl H).
Qed.
Theorem head_decoding_progress s n ds :
  demands_ok ds -> ProofsFold.dmeas s < length ds ->
  final_of (run (head_over dec_read) (mkDec s [] SOk, n) ds) <> SOk.
Proof.
  intros H L.
  exact (head_over_progress _ _ _ _ _ _ _ ProofsFold.dec_step (mkDec s [] SOk) n ds eq_refl H L).
Qed.

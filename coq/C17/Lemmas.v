(* C17 — shared lemmas: prefixes, the scripted upstream, and the generic
   "what remains" argument every reader proof instantiates. *)
From Coq Require Import List ZArith Bool Arith Lia.
Import ListNotations.
Require Import BS.C17.Model.

(* ------------------------------------------------------------------ *)
Definition prefix {A} (a b : list A) : Prop := exists c, b = a ++ c.

Lemma prefix_nil {A} (b : list A) : prefix [] b.
Proof. exists b; reflexivity. Qed.
Lemma prefix_refl {A} (a : list A) : prefix a a.
Proof. exists []; rewrite app_nil_r; reflexivity. Qed.
Lemma prefix_app {A} (a b c : list A) : prefix b c -> prefix (a ++ b) (a ++ c).
Proof. intros [x ->]. exists x. rewrite app_assoc. reflexivity. Qed.
Lemma prefix_app_r {A} (a b : list A) : prefix a (a ++ b).
Proof. exists b; reflexivity. Qed.
Lemma prefix_trans {A} (a b c : list A) : prefix a b -> prefix b c -> prefix a c.
Proof. intros [x ->] [y ->]. exists (x ++ y). rewrite app_assoc. reflexivity. Qed.
Lemma prefix_length {A} (a b : list A) : prefix a b -> length a <= length b.
Proof. intros [x ->]. rewrite app_length. lia. Qed.

Lemma firstn_skipn_length {A} (l : list A) d : d < length l -> length (firstn d l) = d.
Proof. intro H. rewrite firstn_length. lia. Qed.

Lemma is_nil_true {A} (l : list A) : is_nil l = true <-> l = [].
Proof. destruct l; simpl; split; congruence. Qed.
Lemma is_nil_false {A} (l : list A) : is_nil l = false <-> l <> [].
Proof. destruct l; simpl; split; congruence. Qed.

(* ------------------------------------------------------------------ *)
(* The scripted upstream. *)
Definition demands_ok (ds : list nat) : Prop := Forall (fun d => 1 <= d) ds.

Lemma up_read_spec s d o st s' :
  1 <= d -> up_read s d = (o, st, s') ->
  length o <= d /\
  match st with
  | SOk => rows_of s = o ++ rows_of s' /\ fails s' = fails s /\ smeas s' < smeas s
  | SEof => rows_of s = o /\ fails s = false /\ s' = []
  | SErr _ => o = [] /\ fails s = true /\ s' = s
  | SFuel => False
  end.
Proof.
  intros Hd H. destruct s as [|[l|l|e] r]; simpl in H.
  - inversion H; subst; simpl. repeat split; lia.
  - destruct (Nat.leb_spec (length l) d) as [Hl|Hl]; inversion H; subst; simpl.
    + repeat split; try lia.
    + rewrite firstn_length. split; [lia|].
      rewrite app_assoc, firstn_skipn. repeat split.
      rewrite skipn_length. lia.
  - destruct (Nat.leb_spec (length l) d) as [Hl|Hl]; inversion H; subst; simpl.
    + repeat split; lia.
    + rewrite firstn_length. split; [lia|].
      rewrite firstn_skipn. repeat split.
      rewrite skipn_length. lia.
  - inversion H; subst; simpl. repeat split; lia.
Qed.

Lemma up_read_len s d o st s' : up_read s d = (o, st, s') -> length o <= d.
Proof.
  intro H. destruct s as [|[l|l|e] r]; simpl in H.
  - inversion H; simpl; lia.
  - destruct (Nat.leb_spec (length l) d); inversion H; subst; [lia|rewrite firstn_length; lia].
  - destruct (Nat.leb_spec (length l) d); inversion H; subst; [lia|rewrite firstn_length; lia].
  - inversion H; simpl; lia.
Qed.

(* ------------------------------------------------------------------ *)
(* Results of a run. *)
Fixpoint calls_bounded (r : list (list row * status)) (ds : list nat) : Prop :=
  match r, ds with
  | [], _ => True
  | (o, _) :: r', d :: ds' => length o <= d /\ calls_bounded r' ds'
  | _ :: _, [] => False
  end.

Definition no_fuel (r : list (list row * status)) : Prop := Forall (fun p => snd p <> SFuel) r.

Lemma final_cons o s r : r <> [] -> final_of ((o, s) :: r) = final_of r.
Proof. unfold final_of. destruct r; [congruence|reflexivity]. Qed.
Lemma final_single o s : final_of [(o, s)] = s.
Proof. reflexivity. Qed.
Lemma outs_cons o s r : outs_of ((o, s) :: r) = o ++ outs_of r.
Proof. reflexivity. Qed.

Lemma last_In {A} (l : list A) d : l <> [] -> In (last l d) l.
Proof.
  induction l as [|x l IH]; [congruence|]. intros _.
  destruct l as [|y l']; [left; reflexivity|].
  right. apply IH. discriminate.
Qed.

Section Generic.
  Variable S : Type.
  Variable read : S -> nat -> list row * status * S.
  Variable Inv : S -> Prop.
  Variable Rem : S -> list row.          (* the rows still to be delivered *)
  Variable failing : S -> bool.         (* an input that has to be read fails *)
  Variable mayfail : S -> bool.         (* something (input or user function) can fail *)
  Variable mu : S -> nat.               (* bound on the remaining successful calls *)

  Definition step_ok : Prop :=
    forall st d o s st', Inv st -> 1 <= d -> read st d = (o, s, st') ->
      length o <= d /\
      match s with
      | SOk => Rem st = o ++ Rem st' /\ Inv st' /\ failing st' = failing st /\
               mayfail st' = mayfail st /\ mu st' < mu st
      | SEof => Rem st = o /\ failing st = false
      | SErr _ => prefix o (Rem st) /\ mayfail st = true
      | SFuel => False
      end.

  Hypothesis Hstep : step_ok.

  (* every call returns at most the demand; the concatenation is a prefix of
     what was to be delivered, and all of it at EOF; EOF is never reported when
     an input fails; an error is only reported when an input fails; the model's
     fuel is never exhausted *)
  Theorem generic_delivers : forall ds st,
    Inv st -> demands_ok ds ->
    let r := run read st ds in
    calls_bounded r ds /\
    prefix (outs_of r) (Rem st) /\
    (final_of r = SEof -> outs_of r = Rem st) /\
    (failing st = true -> final_of r <> SEof) /\
    (mayfail st = false -> forall e, final_of r <> SErr e) /\
    no_fuel r.
  Proof.
    induction ds as [|d ds IH]; intros st HI Hds; simpl.
    - repeat split; try discriminate; try apply prefix_nil; constructor.
    - inversion Hds as [|? ? Hd Hds']; subst.
      destruct (read st d) as [[o s] st'] eqn:E.
      destruct (Hstep _ _ _ _ _ HI Hd E) as [Hlen Hs].
      destruct s.
      + destruct Hs as (HR & HI' & HF & HM & _).
        specialize (IH st' HI' Hds'). cbv zeta in IH.
        destruct IH as (B & P & Eo & Fl & Fe & NF).
        destruct (run read st' ds) as [|p r'] eqn:Er.
        * unfold outs_of, final_of; simpl. rewrite app_nil_r.
          repeat split; try discriminate; auto.
          -- rewrite HR. apply prefix_app_r.
          -- constructor; [simpl; discriminate|constructor].
        * rewrite final_cons by discriminate. rewrite outs_cons.
          repeat split; auto.
          -- rewrite HR. apply prefix_app. exact P.
          -- intro Hf. rewrite HR. f_equal. auto.
          -- rewrite <- HF. exact Fl.
          -- rewrite <- HM. exact Fe.
          -- constructor; [simpl; discriminate|exact NF].
      + destruct Hs as (HR & HF). simpl. unfold outs_of, final_of; simpl. rewrite app_nil_r.
        repeat split; auto; try discriminate.
        * rewrite HR. apply prefix_refl.
        * congruence.
        * constructor; [simpl; discriminate|constructor].
      + destruct Hs as (HP & HF). simpl. unfold outs_of, final_of; simpl. rewrite app_nil_r.
        repeat split; auto; try discriminate.
        * congruence.
        * constructor; [simpl; discriminate|constructor].
      + destruct Hs.
  Qed.

  (* no livelock: with more calls than [mu] the run has ended (EOF or error) *)
  Theorem generic_progress : forall ds st,
    Inv st -> demands_ok ds -> mu st < length ds ->
    final_of (run read st ds) <> SOk.
  Proof.
    induction ds as [|d ds IH]; intros st HI Hds Hmu; simpl in *; [lia|].
    inversion Hds as [|? ? Hd Hds']; subst.
    destruct (read st d) as [[o s] st'] eqn:E.
    destruct (Hstep _ _ _ _ _ HI Hd E) as [_ Hs].
    destruct s; try (unfold final_of; simpl; discriminate).
    destruct Hs as (_ & HI' & _ & _ & Hlt).
    assert (Hm : mu st' < length ds) by lia.
    specialize (IH st' HI' Hds' Hm).
    destruct (run read st' ds) as [|p r'] eqn:Er.
    - destruct ds; simpl in *; [lia|].
      destruct (read st' n) as [[? ?] ?]. discriminate.
    - rewrite final_cons by discriminate. exact IH.
  Qed.

  (* how the demands are chosen does not matter *)
  Corollary generic_total : forall ds st,
    Inv st -> demands_ok ds -> mu st < length ds -> mayfail st = false ->
    outs_of (run read st ds) = Rem st /\ final_of (run read st ds) = SEof.
  Proof.
    intros ds st HI Hds Hmu HF.
    destruct (generic_delivers ds st HI Hds) as (_ & _ & Eo & _ & Fe & NF).
    pose proof (generic_progress ds st HI Hds Hmu) as Hp.
    assert (Hfin : final_of (run read st ds) = SEof).
    { destruct (final_of (run read st ds)) eqn:Ef; auto.
      - congruence.
      - exfalso. eapply Fe; eauto.
      - exfalso. unfold final_of in Ef. unfold no_fuel in NF.
        destruct (run read st ds) as [|p r'] eqn:Er; [simpl in Ef; discriminate|].
        assert (Hin : In SFuel (map snd (p :: r'))).
        { rewrite <- Ef. apply last_In. discriminate. }
        apply in_map_iff in Hin as (x & Hx & Hxin).
        rewrite Forall_forall in NF. apply (NF x Hxin). exact Hx. }
    split; auto.
  Qed.
End Generic.

(* ------------------------------------------------------------------ *)
(* The statement proved of every reader: [want] is the operator's meaning
   applied to the rows of the script(s); [failing] says that an input which
   has to be read fails. *)
Definition delivers_gen (r : list (list row * status)) (ds : list nat) (want : list row)
           (failing mayfail : bool) : Prop :=
  calls_bounded r ds /\
  prefix (outs_of r) want /\
  (final_of r = SEof -> outs_of r = want) /\
  (failing = true -> final_of r <> SEof) /\
  (mayfail = false -> forall e, final_of r <> SErr e) /\
  no_fuel r.
Definition delivers r ds want failing : Prop := delivers_gen r ds want failing failing.

Lemma delivers_chunking r1 ds1 r2 ds2 want f1 f2 :
  delivers r1 ds1 want f1 -> delivers r2 ds2 want f2 ->
  final_of r1 = SEof -> final_of r2 = SEof -> outs_of r1 = outs_of r2.
Proof.
  intros (_ & _ & E1 & _) (_ & _ & E2 & _) H1 H2. rewrite E1, E2; auto.
Qed.

Lemma prefix_common {A} (a b c : list A) : prefix a c -> prefix b c -> length a <= length b -> prefix a b.
Proof.
  revert b c. induction a as [|x a IH]; intros b c Ha Hb Hl; [apply prefix_nil|].
  destruct Ha as [u ->]. destruct b as [|y b]; [simpl in Hl; lia|].
  destruct Hb as [v Hv]. simpl in Hv. inversion Hv; subst.
  destruct (IH b (a ++ u)) as [w ->].
  - apply prefix_app_r.
  - exists v. assumption.
  - simpl in Hl. lia.
  - exists w. reflexivity.
Qed.

(* two runs of readers with the same meaning always agree on their common part *)
Lemma delivers_agree r1 ds1 r2 ds2 want f1 f2 :
  delivers r1 ds1 want f1 -> delivers r2 ds2 want f2 ->
  length (outs_of r1) <= length (outs_of r2) -> prefix (outs_of r1) (outs_of r2).
Proof.
  intros (_ & P1 & _) (_ & P2 & _) Hl. eapply prefix_common; eauto.
Qed.

(* how much a read takes out of a script *)
Lemma up_read_meas s d o st s' :
  1 <= d -> up_read s d = (o, st, s') -> (st = SOk \/ st = SEof) ->
  smeas s' + length o <= smeas s /\ (st = SOk -> o = [] -> smeas s' < smeas s).
Proof.
  intros Hd H Hst. destruct s as [|[l|l|e] r]; simpl in H.
  - inversion H; subst; simpl. split; [lia|intros; discriminate].
  - destruct (Nat.leb_spec (length l) d) as [Hl|Hl]; inversion H; subst; simpl.
    + split; intros; lia.
    + rewrite firstn_length, skipn_length. split; [lia|].
      intros _ Hn. apply (f_equal (@length _)) in Hn. rewrite firstn_length in Hn. simpl in Hn. lia.
  - destruct (Nat.leb_spec (length l) d) as [Hl|Hl]; inversion H; subst; simpl.
    + split; [lia|intros; discriminate].
    + rewrite firstn_length, skipn_length. split; [lia|].
      intros _ Hn. apply (f_equal (@length _)) in Hn. rewrite firstn_length in Hn. simpl in Hn. lia.
  - inversion H; subst. destruct Hst; discriminate.
Qed.

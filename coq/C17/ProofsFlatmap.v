(* C17 — flatmapReader: the in/begIn/endIn/out/eof stash logic. *)
From Coq Require Import List ZArith Bool Arith Lia.
Import ListNotations.
Require Import BS.C17.Model BS.C17.Lemmas.

Definition fm_rem (f : flatfn) (st : fm_st) : list row :=
  fm_stash st ++ sem_flatmap f (fm_in st) ++ sem_flatmap f (rows_of (fm_up st)).
Definition fm_inv (st : fm_st) : Prop := fm_eof st = true -> fm_up st = [].
Definition fm_phi (st : fm_st) : nat :=
  smeas (fm_up st) + length (fm_in st) + (if fm_eof st then 0 else 1).
Definition fm_mu (f : flatfn) (st : fm_st) : nat := fm_phi st + length (fm_rem f st).
Definition fm_cond (st : fm_st) (out : list row) (d : nat) : bool :=
  (length out <? d) && (negb (fm_eof st) || negb (is_nil (fm_in st))).
Definition fm_done (st : fm_st) : bool := fm_eof st && is_nil (fm_stash st) && is_nil (fm_in st).

Lemma sem_flatmap_app f a b : sem_flatmap f (a ++ b) = sem_flatmap f a ++ sem_flatmap f b.
Proof. unfold sem_flatmap. apply flat_map_app. Qed.

Lemma sem_flatmap_nil f : sem_flatmap f [] = [].
Proof. reflexivity. Qed.
Lemma fm_rem_mk f up inb stash eof :
  fm_rem f (mkFm up inb stash eof) = stash ++ sem_flatmap f inb ++ sem_flatmap f (rows_of up).
Proof. reflexivity. Qed.
Ltac fm_norm :=
  rewrite ?fm_rem_mk in *; rewrite ?sem_flatmap_nil in *; cbn [app rows_of] in *;
  rewrite ?app_nil_r in *.

(* the inner for-loop *)
Lemma fm_inner_spec f d : forall inb out stash inb' out' stash',
  length out <= d -> (length out < d -> stash = []) ->
  fm_inner f inb out stash d = (inb', out', stash') ->
  exists k, out' = out ++ k /\ length out' <= d /\
    stash ++ sem_flatmap f inb = k ++ stash' ++ sem_flatmap f inb' /\
    (length out' < d -> stash' = [] /\ inb' = []) /\
    length inb' <= length inb /\
    (length out < d -> inb <> [] -> length inb' < length inb).
Proof.
  induction inb as [|r inb IH]; intros out stash inb' out' stash' Hlen Hst H; simpl in H.
  - inversion H; subst. exists []. rewrite app_nil_r. simpl. repeat split; auto; try lia.
    congruence.
  - destruct (Nat.ltb_spec (length out) d) as [Hlt|Hge].
    + specialize (Hst Hlt). subst stash.
      destruct (Nat.ltb_spec (d - length out) (length (apply_flat f r))) as [Hov|Hfit].
      * inversion H; subst. exists (firstn (d - length out) (apply_flat f r)).
        split; [reflexivity|].
        assert (Hl : length (out ++ firstn (d - length out) (apply_flat f r)) = d).
        { rewrite app_length, firstn_length. lia. }
        split; [lia|]. split.
        { simpl. unfold sem_flatmap at 1. simpl. fold (sem_flatmap f inb').
          rewrite app_assoc. rewrite firstn_skipn. reflexivity. }
        split; [intro; lia|]. simpl. split; [lia|]. intros; lia.
      * apply IH in H.
        -- destruct H as (k & -> & Hl' & Heq & Hend & Hle & _).
           exists (firstn (d - length out) (apply_flat f r) ++ k).
           split; [rewrite app_assoc; reflexivity|]. split; [exact Hl'|].
           split.
           { simpl in *. unfold sem_flatmap at 1. simpl. fold (sem_flatmap f inb).
             rewrite firstn_all2 by lia. rewrite <- app_assoc. f_equal. exact Heq. }
           split; [exact Hend|]. simpl. split; [lia|]. intros; lia.
        -- rewrite app_length, firstn_length. lia.
        -- reflexivity.
    + inversion H; subst. exists []. rewrite app_nil_r. simpl. repeat split; auto; try lia.
Qed.

Lemma fm_loop_eq fuel f st out d :
  fm_loop fuel f st out d =
  if fm_cond st out d then
    match fuel with
    | O => (out, SFuel, st)
    | Datatypes.S fuel' =>
        match fm_in st with
        | [] =>
            let '(rows, s, up') := up_read (fm_up st) d in
            match s with
            | SErr e => ([], SErr e, mkFm up' [] (fm_stash st) (fm_eof st))
            | SFuel => ([], SFuel, st)
            | _ =>
                let '(inb', out', stash') := fm_inner f rows out (fm_stash st) d in
                fm_loop fuel' f (mkFm up' inb' stash' (status_eqb s SEof)) out' d
            end
        | inb =>
            let '(inb', out', stash') := fm_inner f inb out (fm_stash st) d in
            fm_loop fuel' f (mkFm (fm_up st) inb' stash' (fm_eof st)) out' d
        end
    end
  else (out, if fm_done st then SEof else SOk, st).
Proof. destruct fuel; reflexivity. Qed.

Lemma fm_loop_spec f d : 1 <= d -> forall fuel st out o s st',
  fm_phi st < fuel -> fm_inv st -> length out <= d -> (length out < d -> fm_stash st = []) ->
  fm_loop fuel f st out d = (o, s, st') ->
  match s with
  | SOk => exists k, o = out ++ k /\ length o <= d /\ fm_rem f st = k ++ fm_rem f st' /\
             fm_inv st' /\ fails (fm_up st') = fails (fm_up st) /\ fm_phi st' <= fm_phi st /\
             (fm_cond st out d = true -> fm_phi st' < fm_phi st) /\
             (fm_cond st out d = false -> k = [] /\ fm_done st = false)
  | SEof => exists k, o = out ++ k /\ length o <= d /\ fm_rem f st = k /\ fails (fm_up st) = false
  | SErr _ => o = [] /\ fails (fm_up st) = true
  | SFuel => False
  end.
Proof.
  intro Hd. induction fuel as [|fuel IH]; intros st out o s st' Hphi HI Hlen Hst H; [lia|].
  rewrite fm_loop_eq in H. destruct (fm_cond st out d) eqn:Hc.
  - (* the loop body runs *)
    unfold fm_cond in Hc. apply andb_true_iff in Hc as [Hc1 Hc2]. apply Nat.ltb_lt in Hc1.
    specialize (Hst Hc1).
    destruct st as [up inb stash eof]; cbn [fm_up fm_in fm_stash fm_eof] in *. subst stash.
    destruct inb as [|r0 inb0].
    + (* no buffered input: read the upstream *)
      assert (Heof : eof = false) by (destruct eof; simpl in Hc2; auto; discriminate).
      subst eof.
      destruct (up_read up d) as [[rows s0] up1] eqn:E.
      destruct (up_read_spec _ _ _ _ _ Hd E) as [Hl Hs].
      destruct s0.
      * (* SOk *)
        destruct (fm_inner f rows out [] d) as [[inb' out'] stash'] eqn:Ei.
        destruct (fm_inner_spec f d _ _ _ _ _ _ Hlen (fun _ => eq_refl) Ei)
          as (k0 & -> & Hl' & Heq & Hend & Hle & Hlt).
        destruct (up_read_meas _ _ _ _ _ Hd E (or_introl eq_refl)) as [Hm1 Hm2].
        destruct Hs as (HR & HF & HM).
        assert (Hphi1 : fm_phi (mkFm up1 inb' stash' false) < fm_phi (mkFm up [] [] false)).
        { unfold fm_phi; simpl. destruct rows as [|x rows'].
          - specialize (Hm2 eq_refl eq_refl). simpl in Hle. lia.
          - assert (length inb' < length (x :: rows')) by (apply Hlt; [lia|discriminate]). lia. }
        simpl status_eqb in H.
        apply IH in H; simpl; auto.
        -- destruct s.
           ++ destruct H as (k & -> & Hlo & Hrem & HI' & HF' & Hp' & _ & _).
              exists (k0 ++ k). rewrite app_assoc. split; [reflexivity|]. split; [exact Hlo|].
              split.
              { fm_norm. rewrite HR, sem_flatmap_app, Heq, <- ?app_assoc.
                f_equal. rewrite <- ?app_assoc in Hrem. exact Hrem. }
              split; [exact HI'|]. split; [cbn [fm_up] in HF'; congruence|].
              unfold fm_cond; simpl. split; [lia|]. split; [intros; lia|].
              intro Hf; discriminate.
           ++ destruct H as (k & -> & Hlo & Hrem & HF').
              exists (k0 ++ k). rewrite app_assoc. split; [reflexivity|]. split; [exact Hlo|].
              split; [|simpl in HF'; congruence].
              fm_norm. rewrite HR, sem_flatmap_app, Heq, <- ?app_assoc.
              f_equal. rewrite <- ?app_assoc in Hrem. exact Hrem.
           ++ destruct H as (-> & HF'). simpl in HF'. split; [reflexivity|congruence].
           ++ exact H.
        -- unfold fm_phi in *; simpl in *. lia.
        -- unfold fm_inv; simpl. discriminate.
        -- intro Hx. apply Hend in Hx. tauto.
      * (* SEof *)
        destruct (fm_inner f rows out [] d) as [[inb' out'] stash'] eqn:Ei.
        destruct (fm_inner_spec f d _ _ _ _ _ _ Hlen (fun _ => eq_refl) Ei)
          as (k0 & -> & Hl' & Heq & Hend & Hle & Hlt).
        destruct (up_read_meas _ _ _ _ _ Hd E (or_intror eq_refl)) as [Hm1 _].
        destruct Hs as (HR & HF & Hup1). subst up1.
        simpl status_eqb in H.
        apply IH in H; simpl; auto.
        -- destruct s.
           ++ destruct H as (k & -> & Hlo & Hrem & HI' & HF' & Hp' & _ & _).
              exists (k0 ++ k). rewrite app_assoc. split; [reflexivity|]. split; [exact Hlo|].
              split.
              { fm_norm. rewrite HR, Heq, <- ?app_assoc. f_equal. exact Hrem. }
              split; [exact HI'|]. split; [simpl in HF'; congruence|].
              unfold fm_cond, fm_phi in *; simpl in *. split; [lia|]. split; [intros; lia|].
              intro Hf; discriminate.
           ++ destruct H as (k & -> & Hlo & Hrem & HF').
              exists (k0 ++ k). rewrite app_assoc. split; [reflexivity|]. split; [exact Hlo|].
              split; [|exact HF].
              fm_norm. rewrite HR, Heq, <- ?app_assoc. f_equal. exact Hrem.
           ++ destruct H as (_ & HF'). simpl in HF'. discriminate.
           ++ exact H.
        -- unfold fm_phi in *; simpl in *. lia.
        -- unfold fm_inv; simpl. reflexivity.
        -- intro Hx. apply Hend in Hx. tauto.
      * (* SErr *)
        inversion H; subst. destruct Hs as (_ & HF & _). split; [reflexivity|exact HF].
      * destruct Hs.
    + (* buffered input *)
      destruct (fm_inner f (r0 :: inb0) out [] d) as [[inb' out'] stash'] eqn:Ei.
      destruct (fm_inner_spec f d _ _ _ _ _ _ Hlen (fun _ => eq_refl) Ei)
        as (k0 & -> & Hl' & Heq & Hend & Hle & Hlt).
      assert (Hlt' : length inb' < length (r0 :: inb0)) by (apply Hlt; [lia|discriminate]).
      apply IH in H; simpl; auto.
      * destruct s.
        -- destruct H as (k & -> & Hlo & Hrem & HI' & HF' & Hp' & _ & _).
           exists (k0 ++ k). rewrite app_assoc. split; [reflexivity|]. split; [exact Hlo|].
           split.
           { fm_norm. rewrite Heq, <- ?app_assoc. f_equal.
             rewrite <- ?app_assoc in Hrem. exact Hrem. }
           split; [exact HI'|]. split; [exact HF'|].
           unfold fm_cond, fm_phi in *; simpl in *. split; [lia|]. split; [intros; lia|].
           intro Hf; discriminate.
        -- destruct H as (k & -> & Hlo & Hrem & HF').
           exists (k0 ++ k). rewrite app_assoc. split; [reflexivity|]. split; [exact Hlo|].
           split; [|exact HF'].
           fm_norm. rewrite Heq, <- ?app_assoc. f_equal.
           rewrite <- ?app_assoc in Hrem. exact Hrem.
        -- exact H.
        -- exact H.
      * unfold fm_phi in *; simpl in *. lia.
      * intro Hx. apply Hend in Hx. tauto.
  - (* the loop does not run *)
    inversion H; subst. destruct (fm_done st') eqn:Hdone.
    + exists []. rewrite app_nil_r. split; [reflexivity|]. split; [exact Hlen|].
      unfold fm_done in Hdone. apply andb_true_iff in Hdone as [Hdone H3].
      apply andb_true_iff in Hdone as [H1 H2].
      apply is_nil_true in H2, H3. specialize (HI H1).
      unfold fm_rem. rewrite H2, H3, HI. split; reflexivity.
    + exists []. rewrite app_nil_r. repeat split; auto; try lia; discriminate.
Qed.

Lemma fm_step f :
  step_ok fm_st (fm_read f) fm_inv (fm_rem f) (fun st => fails (fm_up st))
          (fun st => fails (fm_up st)) (fm_mu f).
Proof.
  intros st d o s st' HI Hd H. unfold fm_read in H.
  set (st0 := mkFm (fm_up st) (fm_in st) (skipn d (fm_stash st)) (fm_eof st)) in *.
  set (out0 := firstn d (fm_stash st)) in *.
  assert (Hl0 : length out0 <= d) by (unfold out0; rewrite firstn_length; lia).
  assert (Hst0 : length out0 < d -> fm_stash st0 = []).
  { unfold out0, st0; simpl. rewrite firstn_length. intro. apply skipn_all2. lia. }
  assert (Hrem0 : fm_rem f st = out0 ++ fm_rem f st0).
  { unfold fm_rem, out0, st0; simpl. rewrite <- (firstn_skipn d (fm_stash st)) at 1.
    rewrite <- app_assoc. reflexivity. }
  assert (Hphi0 : fm_phi st0 = fm_phi st) by reflexivity.
  apply (fm_loop_spec f d Hd) in H; auto.
  - destruct s.
    + destruct H as (k & -> & Hlo & Hrem & HI' & HF & Hp & Hc1 & Hc2).
      split; [exact Hlo|]. split; [rewrite Hrem0, Hrem, app_assoc; reflexivity|].
      split; [exact HI'|]. split; [exact HF|]. split; [exact HF|].
      unfold fm_mu. rewrite Hrem0, Hrem, !app_length.
      destruct (fm_cond st0 out0 d) eqn:Hc.
      * specialize (Hc1 eq_refl). lia.
      * destruct (Hc2 eq_refl) as [-> Hdone].
        destruct out0 as [|x out0'] eqn:Eo; [|simpl; lia].
        exfalso. unfold fm_cond in Hc. simpl in Hc.
        assert (Hs : fm_stash st = []).
        { unfold out0 in Eo. destruct (fm_stash st); auto. destruct d; [lia|discriminate]. }
        destruct d; [lia|]. simpl in Hc.
        apply orb_false_iff in Hc as [Hc3 Hc4].
        apply negb_false_iff in Hc3, Hc4.
        unfold fm_done, st0 in Hdone; simpl in Hdone. rewrite Hs in Hdone.
        rewrite Hc3, Hc4 in Hdone. destruct (Datatypes.S d); discriminate.
    + destruct H as (k & -> & Hlo & Hrem & HF).
      split; [exact Hlo|]. split; [rewrite Hrem0, Hrem; reflexivity|exact HF].
    + destruct H as (-> & HF). split; [simpl; lia|]. split; [apply prefix_nil|exact HF].
    + destruct H.
  - unfold st0, fm_phi; simpl. destruct (fm_eof st); lia.
Qed.

Theorem flatmap_delivers f s ds :
  demands_ok ds ->
  delivers (run (fm_read f) (fm_init s) ds) ds (sem_flatmap f (rows_of s)) (fails s).
Proof.
  intro H.
  exact (generic_delivers _ _ _ _ _ _ _ (fm_step f) ds (fm_init s) (fun (e : false = true) => match Bool.diff_false_true e with end) H).
Qed.

(* the bound: script size + output length + 1 *)
Theorem flatmap_progress f s ds :
  demands_ok ds -> smeas s + 1 + length (sem_flatmap f (rows_of s)) < length ds ->
  final_of (run (fm_read f) (fm_init s) ds) <> SOk.
Proof.
  intros H L.
  apply (generic_progress _ _ _ _ _ _ _ (fm_step f) ds (fm_init s)); auto.
  - unfold fm_inv; simpl; discriminate.
  - unfold fm_mu, fm_phi, fm_rem; simpl. lia.
Qed.

Theorem flatmap_total f s ds :
  demands_ok ds -> smeas s + 1 + length (sem_flatmap f (rows_of s)) < length ds -> fails s = false ->
  outs_of (run (fm_read f) (fm_init s) ds) = sem_flatmap f (rows_of s) /\
  final_of (run (fm_read f) (fm_init s) ds) = SEof.
Proof.
  intros H L F.
  apply (generic_total _ _ _ _ _ _ _ (fm_step f) ds (fm_init s)); auto.
  - unfold fm_inv; simpl; discriminate.
  - unfold fm_mu, fm_phi, fm_rem; simpl. lia.
Qed.

Theorem flatmap_chunking_irrelevant f s1 s2 ds1 ds2 :
  rows_of s1 = rows_of s2 -> demands_ok ds1 -> demands_ok ds2 ->
  final_of (run (fm_read f) (fm_init s1) ds1) = SEof ->
  final_of (run (fm_read f) (fm_init s2) ds2) = SEof ->
  outs_of (run (fm_read f) (fm_init s1) ds1) = outs_of (run (fm_read f) (fm_init s2) ds2).
Proof.
  intros HR H1 H2. eapply delivers_chunking.
  - apply flatmap_delivers; exact H1.
  - rewrite HR. apply flatmap_delivers; exact H2.
Qed.

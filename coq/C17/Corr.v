(* C17 — correspondence drivers: evaluated by vm_compute on harness case files.

   A case = reader kind + parameters, the script(s) of its upstream(s), and for
   every Read call made by the driver: the demand (length of the destination
   frame), the reported count and status, the whole destination frame after
   the call (it was pre-filled with sentinel rows; the part past n is run-length
   encoded), and what differs in rows [0,n) of that frame when re-read after the
   last call of the run.

   mismatches: the model's per-call (rows, status) differ from the observed
     ones (for Fold, whose order comes from a Go map, per-call counts and
     statuses plus the sorted concatenation).
   violations: judged on the OBSERVED data only, against the operator's
     meaning [sem]: a call returned more than the destination's length; a row
     of the backing frame before the window was written; on a non-failing call
     a row after the delivered ones (rest of the window, rows behind it) was
     overwritten; an earlier delivered frame changed;
     the concatenation is not a prefix of [sem] (not equal to it at EOF); EOF
     although an input that had to be read failed; an error although nothing
     could fail; no end within the bound (livelock); a panic or a hang. *)
From Coq Require Import List ZArith Bool Arith.
Import ListNotations.
Require Export BS.Common.Util BS.C17.Model.
Local Open Scope Z_scope.

Inductive kind :=
| KMap (f : mapfn) | KFilter (p : pred) | KFlatmap (f : flatfn) | KHead (n : Z)
| KConst (nshard shard : Z) | KMultiSliceio | KFrame | KFold (f : foldfn)
| KReaderFunc | KWriterFunc (w : wfn) | KScan | KTaskBuf (partition : nat) | KMultiExec
| KCogroup | KDecoding | KClosing | KScanner | KScanBad (after : nat) (arity : bool)
| KMerge | KReduce | KBufOut (inner : kind) | KHeadDecoding (n : Z).

(* The destination of a call is a WINDOW backing.Slice(pre, pre+d) of a
   sentinel-filled backing frame (Len = d; Cap = d + the rows behind it); the
   whole backing frame is recorded after the call:
   c_pre: the rows of the backing frame before the window, run-length encoded;
   c_rows: rows [0,n) of the window; c_tail: everything after them, i.e. the
   rest of the window and the rows of the backing frame behind the window,
   run-length encoded (row, repetitions); c_changed: rows
   [0,n) were re-read after the last call of the run, and this lists every
   (index, row now there) that differs from c_rows (a lossless encoding of the
   re-read: empty = the delivered rows are still what they were) *)
Record call := mkCall { c_d : nat; c_n : nat; c_st : status; c_pre : list (row * nat);
                        c_rows : list row; c_tail : list (row * nat);
                        c_changed : list (nat * row) }.
Record case := mkCase { c_kind : kind; c_ins : list script; c_calls : list call; c_side : list row }.

Definition row_eqb := list_eqb Z.eqb.
Definition rows_eqb := list_eqb row_eqb.

(* ---- the model as one dispatcher ---- *)
Definition reader := { T : Type & (T * (T -> nat -> list row * status * T))%type }.
Definition mk_reader {T : Type} (st : T) (read : T -> nat -> list row * status * T) : reader :=
  existT _ T (st, read).
Definition in0 (ins : list script) : script := hd [] ins.

Fixpoint reader_of (k : kind) (ins : list script) : reader :=
  match k with
  | KMap f => mk_reader (mkMap (in0 ins) SOk) (map_read f)
  | KFilter p => mk_reader (mkFilter (in0 ins) SOk) (filter_read p)
  | KFlatmap f => mk_reader (fm_init (in0 ins)) (fm_read f)
  | KHead n => mk_reader (mkHead (in0 ins) n) head_read
  | KConst nshard shard => mk_reader (const_init (rows_of (in0 ins)) nshard shard) const_read
  | KMultiSliceio | KMultiExec => mk_reader (mkMulti ins SOk) multi_read
  | KFrame => mk_reader (rows_of (in0 ins)) frame_read
  | KFold f => mk_reader (mkFold (in0 ins) None SOk) (fold_read f)
  | KReaderFunc => mk_reader (mkMap (in0 ins) SOk) readerfunc_read
  | KWriterFunc w => mk_reader (mkWf (in0 ins) SOk 0) (wf_read w)
  | KScan => mk_reader (in0 ins) (fun up _ => ([], fst (scanreader_read up), up))
  | KTaskBuf p => mk_reader (tb_init (map frames_of ins) p) tb_read
  | KCogroup => mk_reader (mkCg ins None SOk) cg_read
  | KDecoding => mk_reader (mkDec (in0 ins) [] SOk) dec_read
  | KClosing => mk_reader (mkCl (in0 ins) 0) closing_read
  | KScanner | KScanBad _ _ => mk_reader (sc_init (in0 ins)) scanv_read
  | KHeadDecoding n => mk_reader (mkDec (in0 ins) [] SOk, n) (head_over dec_read)
  | KMerge => mk_reader (mg_init ins) mg_read
  | KReduce => mk_reader (mkRd ins None SOk) rd_read
  | KBufOut inner =>
      let '(existT _ T (st, read)) := reader_of inner ins in
      let fuel := (8 + fold_right (fun s a => smeas s + 4 * length (rows_of s) + a) 0 ins)%nat in
      match bufout fuel read st [] with
      | (Some frames, _) => mk_reader (inl (tb_init [frames] 0)) bo_read
      | (None, e) => mk_reader (inr e) bo_read
      end
  end.

Definition model_run (k : kind) (ins : list script) (ds : list nat) : list (list row * status) :=
  match k with
  | KScanBad after arity =>
      (* [after] good Scans, a bad one, a good one; never stops early *)
      let fix go (n : nat) (st : sc_st) : list (list row * status) * sc_st :=
        match n with
        | O => ([], st)
        | S n' => match sc_scan st with
                  | (Some r, st') => let '(l, f) := go n' st' in (([r], SOk) :: l, f)
                  | (None, st') => let '(l, f) := go n' st' in (([], sc_err st') :: l, f)
                  end
        end in
      let '(pre, st1) := go after (sc_init (in0 ins)) in
      let '(_, st2) := sc_scan_bad st1 in
      let '(o3, st3) := sc_scan st2 in
      pre ++ [([], sc_err st2); (match o3 with Some r => [r] | None => [] end,
                                 match o3 with Some _ => SOk | None => sc_err st3 end)]
  | _ => let '(existT _ T (st, read)) := reader_of k ins in run read st ds
  end.

Definition model_side (k : kind) (ins : list script) (ds : list nat) : list row :=
  match k with
  | KWriterFunc w => outs_of (run (wf_read w) (mkWf (in0 ins) SOk 0) ds)
  | KScan => snd (scanreader_read (in0 ins))
  | KClosing => [[Z.of_nat (cl_closes (snd (run_st closing_read (mkCl (in0 ins) 0) ds)))]]
  | _ => []
  end.

(* ---- observed data ---- *)
Definition obs_rows (c : call) : list row := firstn (c_n c) (c_rows c).
Definition obs_total (cs : list call) : list row := concat (map obs_rows cs).
Definition obs_final (cs : list call) : status := last (map c_st cs) SOk.

Definition sentinel : Z := 424242.
Definition is_sentinel_row (r : row) : bool := forallb (fun z => (z =? sentinel) || (z =? -1)) r.

(* is the order of the output fixed by the inputs? (Fold drains a Go map) *)
Definition ordered (k : kind) : bool := match k with KFold _ | KBufOut (KFold _) => false | _ => true end.

Fixpoint is_prefix (a b : list row) : bool :=
  match a, b with
  | [], _ => true
  | x :: a', y :: b' => row_eqb x y && is_prefix a' b'
  | _ :: _, [] => false
  end.
(* sub-multiset of sorted lists *)
Fixpoint sub_sorted (fuel : nat) (a b : list row) : bool :=
  match fuel with
  | O => false
  | S f =>
      match a, b with
      | [], _ => true
      | _ :: _, [] => false
      | x :: a', y :: b' => if row_eqb x y then sub_sorted f a' b' else sub_sorted f a b'
      end
  end.

(* ---- the property, judged on observed data ---- *)
Fixpoint sem (k : kind) (ins : list script) : list row :=
  match k with
  | KMap f => sem_map f (rows_of (in0 ins))
  | KFilter p => sem_filter p (rows_of (in0 ins))
  | KFlatmap f => sem_flatmap f (rows_of (in0 ins))
  | KHead n => sem_head n (rows_of (in0 ins))
  | KConst nshard shard => const_init (rows_of (in0 ins)) nshard shard
  | KMultiSliceio | KMultiExec => sem_multi ins
  | KFrame | KReaderFunc | KWriterFunc _ | KClosing | KScanner | KScanBad _ _ => rows_of (in0 ins)
  | KFold f => sem_fold f (rows_of (in0 ins))
  | KScan => []
  | KTaskBuf p => sem_tb (map frames_of ins) p
  | KCogroup => sem_cogroup ins
  | KDecoding => batches_of (in0 ins)
  | KHeadDecoding n => sem_head n (batches_of (in0 ins))
  | KMerge => sort_rows (concat (map rows_of ins))
  | KReduce => sem_fold AccSum (sort_rows (concat (map rows_of ins)))
  | KBufOut inner => sem inner ins
  end.

(* ---- exact agreement of model and implementation ----
   Fold drains a Go map, so which keys a call delivers is not fixed: per-call
   counts and statuses are compared, the delivered rows must be rows of the
   model's complete output, and all of them at EOF.  The merge-based readers
   (merge, reduce) break ties between equal keys of different inputs by heap
   position, which the model abstracts; this only shows when an input fails
   (the tie decides in which call the failure is met), so for failing inputs
   nothing is compared here (the property-level judgement still applies). *)
Definition counts_eq (m : list (list row * status)) (cs : list call) : bool :=
  list_eqb (pair_eqb Nat.eqb status_eqb) (map (fun p => (length (fst p), snd p)) m)
           (map (fun c => (c_n c, c_st c)) cs).
Definition full_eq (m : list (list row * status)) (cs : list call) : bool :=
  list_eqb (pair_eqb rows_eqb status_eqb) m (map (fun c => (obs_rows c, c_st c)) cs).

Definition exact_eq (k : kind) (ins : list script) (m : list (list row * status)) (cs : list call) : bool :=
  if ordered k then
    match k with
    | KMerge | KReduce =>
        if existsb fails ins then true else full_eq m cs
    | _ => full_eq m cs
    end
  else
    let got := sort_rows (obs_total cs) in
    let all := sort_rows (sem k ins) in
    counts_eq m cs
    && sub_sorted (S (length got + length all)) got all
    && match obs_final cs with SEof => rows_eqb got all | _ => true end.

Definition case_exact (c : case) : bool :=
  let ds := map c_d (c_calls c) in
  exact_eq (c_kind c) (c_ins c) (model_run (c_kind c) (c_ins c) ds) (c_calls c)
  && rows_eqb (model_side (c_kind c) (c_ins c) ds) (c_side c).

(* must the reader meet a failure of its input before it may report EOF? *)
Fixpoint must_fail (k : kind) (ins : list script) : bool :=
  match k with
  | KHead n => fails (in0 ins) && (Z.of_nat (length (rows_of (in0 ins))) <? n)
  | KConst _ _ | KFrame | KTaskBuf _ => false
  | KDecoding => dec_fails (in0 ins)
  | KHeadDecoding n => dec_fails (in0 ins) && (Z.of_nat (length (batches_of (in0 ins))) <? n)
  | KMultiSliceio | KMultiExec | KCogroup | KMerge | KReduce => existsb fails ins
  | KBufOut inner => must_fail inner ins
  | _ => fails (in0 ins)
  end.

(* can anything fail at all?  (an error is only warranted then) *)
Fixpoint may_fail (k : kind) (ins : list script) : bool :=
  match k with
  | KDecoding | KHeadDecoding _ => dec_fails (in0 ins)
  | KWriterFunc (WFailOn _ _) => true
  | KBufOut inner => may_fail inner ins
  | KConst _ _ | KFrame | KTaskBuf _ => false
  | _ => existsb fails ins
  end.

(* calls (all with demand >= 1) within which the reader must have ended *)
Definition bound (k : kind) (ins : list script) : nat :=
  (4 + length ins + fold_right (fun s a => smeas s + a) 0 ins
   + length (sem k ins) + length (concat (map rows_of ins)))%nat.

Definition bad_status (s : status) : bool :=
  match s with SErr e => (9 <=? e) | SFuel => true | _ => false end.

Definition call_ok (c : call) : bool :=
  (c_n c <=? c_d c)%nat
  && forallb (fun p => is_sentinel_row (fst p)) (c_pre c)
  && negb (bad_status (c_st c))
  && match c_st c with
     | SErr _ | SFuel => true
     | _ => forallb (fun p => is_sentinel_row (fst p)) (c_tail c)
     end
  && is_nil (c_changed c).

Fixpoint all_ok_but_last (l : list status) : bool :=
  match l with
  | [] | [_] => true
  | s :: r => status_eqb s SOk && all_ok_but_last r
  end.

(* the side observation, where the property fixes it: a scanner (KScan) yields
   each row once, in order; WriterFunc is "functionally equivalent to its input" *)
Definition side_ok (c : case) : bool :=
  match c_kind c with
  | KScan =>
      let rows := rows_of (in0 (c_ins c)) in
      is_prefix (c_side c) rows
      && match obs_final (c_calls c) with SEof => rows_eqb (c_side c) rows | _ => true end
  | _ => true
  end.

Definition scanbad_ok (after : nat) (cs : list call) : bool :=
  let pre := firstn after cs in
  if forallb (fun c => status_eqb (c_st c) SOk && Nat.eqb (c_n c) 1) pre && Nat.eqb (length pre) after then
    match skipn after cs with
    | b :: g :: _ =>
        Nat.eqb (c_n b) 0 && match c_st b with SErr _ => true | _ => false end
        && Nat.eqb (c_n g) 0 && match c_st g with SErr _ => true | _ => false end
    | _ => false
    end
  else true.

Definition case_ok (c : case) : bool :=
  let k := c_kind c in
  let cs := c_calls c in
  let want := sem k (c_ins c) in
  let got := obs_total cs in
  let fin := obs_final cs in
  forallb call_ok cs
  && match k with
     | KScanBad after _ => scanbad_ok after cs
     | _ => all_ok_but_last (map c_st cs)
     end
  && (if ordered k then is_prefix got want
      else sub_sorted (S (length got + length want)) (sort_rows got) (sort_rows want))
  && match fin with
     | SEof => (if ordered k then rows_eqb got want else rows_eqb (sort_rows got) (sort_rows want))
               && negb (must_fail k (c_ins c))
     | SOk => match k with
              | KScanBad _ _ => true
              | _ => (length cs <? bound k (c_ins c))%nat
              end
     | SErr _ => match k with KScanBad _ _ => true | _ => may_fail k (c_ins c) end
     | SFuel => false
     end
  && side_ok c.

Definition mismatches (cs : list case) : list nat := bad_indices case_exact cs.
Definition violations (cs : list case) : list nat := bad_indices case_ok cs.

(* C17 — foldReader (compute, then drain the accumulator), the buf/scratch
   logic of decodingReader, and sliceio.Scanner (Scan, Scanv, Err). *)
From Coq Require Import List ZArith Bool Arith Lia.
Import ListNotations.
Require Import BS.C17.Model BS.C17.Lemmas.

(* ------------------------------------------------------------------ *)
(* reading an upstream to its end *)
Lemma drain_spec d : 1 <= d -> forall fuel up acc rows s up',
  smeas up < fuel -> drain fuel up d acc = (rows, s, up') ->
  match s with
  | SEof => rows = acc ++ rows_of up /\ fails up = false
  | SErr _ => fails up = true
  | _ => False
  end.
Proof.
  intro Hd. induction fuel as [|fuel IH]; intros up acc rows s up' Hf H; [lia|].
  simpl in H. destruct (up_read up d) as [[o st] up1] eqn:E.
  destruct (up_read_spec _ _ _ _ _ Hd E) as [_ Hs].
  destruct st.
  - destruct Hs as (HR & HF & HM). apply IH in H; [|lia].
    destruct s; auto.
    + destruct H as [-> HF']. rewrite HR, app_assoc. split; [reflexivity|congruence].
    + congruence.
  - inversion H; subst. destruct Hs as (HR & HF & _). rewrite HR. auto.
  - inversion H; subst. tauto.
  - destruct Hs.
Qed.

(* ------------------------------------------------------------------ *)
(* foldReader *)
Definition fold_inv (st : fold_st) : Prop := fo_err st = SOk.
Definition fold_rem (fn : foldfn) (st : fold_st) : list row :=
  match fo_acc st with
  | Some a => map kv_row a
  | None => sem_fold fn (rows_of (fo_up st))
  end.
Definition fold_failing (st : fold_st) : bool :=
  match fo_acc st with Some _ => false | None => fails (fo_up st) end.

Lemma fold_step fn :
  step_ok fold_st (fold_read fn) fold_inv (fold_rem fn) fold_failing fold_failing
          (fun st => length (fold_rem fn st)).
Proof.
  intros st d o s st' HI Hd H. unfold fold_read in H. rewrite HI in H.
  assert (Drain : forall a up',
     (let rest := skipn d a in
      let s0 := if is_nil rest then SEof else SOk in
      (map kv_row (firstn d a), s0, mkFold up' (Some rest) s0)) = (o, s, st') ->
     length o <= d /\
     match s with
     | SOk => map kv_row a = o ++ fold_rem fn st' /\ fold_inv st' /\ fold_failing st' = false /\
              length (fold_rem fn st') < length (map kv_row a)
     | SEof => map kv_row a = o
     | _ => False
     end).
  { intros a up' Ha. cbv zeta in Ha.
    destruct (skipn d a) as [|x rest] eqn:Es; simpl in Ha; inversion Ha; subst; clear Ha.
    - split; [rewrite map_length, firstn_length; lia|].
      rewrite <- (firstn_skipn d a) at 1. rewrite Es, app_nil_r. reflexivity.
    - split; [rewrite map_length, firstn_length; lia|].
      unfold fold_rem, fold_inv, fold_failing; cbn [fo_acc fo_err fo_up].
      assert (Hpos : length (skipn d a) > 0) by (rewrite Es; simpl; lia).
      rewrite <- Es, <- map_app, firstn_skipn. repeat split; auto.
      rewrite !map_length. rewrite skipn_length in *. lia. }
  destruct (fo_acc st) as [a|] eqn:Ea.
  - assert (R : fold_rem fn st = map kv_row a) by (unfold fold_rem; rewrite Ea; reflexivity).
    assert (F : fold_failing st = false) by (unfold fold_failing; rewrite Ea; reflexivity).
    rewrite R, F. apply Drain in H. destruct H as [Hl Hs]. split; [exact Hl|].
    destruct s; tauto.
  - assert (R : fold_rem fn st = sem_fold fn (rows_of (fo_up st))) by (unfold fold_rem; rewrite Ea; reflexivity).
    assert (F : fold_failing st = fails (fo_up st)) by (unfold fold_failing; rewrite Ea; reflexivity).
    rewrite R, F.
    destruct (drain (Datatypes.S (smeas (fo_up st))) (fo_up st) chunk []) as [[rows s0] up'] eqn:E.
    apply (drain_spec chunk) in E; [|unfold chunk; lia|lia].
    destruct s0; try tauto.
    + destruct E as [-> HF]. simpl app in H. apply Drain in H. destruct H as [Hl Hs].
      split; [exact Hl|]. unfold sem_fold. rewrite HF.
      destruct s; try tauto.
    + inversion H; subst. simpl. split; [lia|]. split; [apply prefix_nil|exact E].
Qed.

Theorem fold_delivers fn s ds :
  demands_ok ds ->
  delivers (run (fold_read fn) (mkFold s None SOk) ds) ds (sem_fold fn (rows_of s)) (fails s).
Proof. intro H. exact (generic_delivers _ _ _ _ _ _ _ (fold_step fn) ds (mkFold s None SOk) eq_refl H). Qed.
Theorem fold_progress fn s ds :
  demands_ok ds -> length (sem_fold fn (rows_of s)) < length ds ->
  final_of (run (fold_read fn) (mkFold s None SOk) ds) <> SOk.
Proof. intros H L. exact (generic_progress _ _ _ _ _ _ _ (fold_step fn) ds (mkFold s None SOk) eq_refl H L). Qed.
Theorem fold_chunking_irrelevant fn s1 s2 ds1 ds2 :
  rows_of s1 = rows_of s2 -> demands_ok ds1 -> demands_ok ds2 ->
  final_of (run (fold_read fn) (mkFold s1 None SOk) ds1) = SEof ->
  final_of (run (fold_read fn) (mkFold s2 None SOk) ds2) = SEof ->
  outs_of (run (fold_read fn) (mkFold s1 None SOk) ds1) = outs_of (run (fold_read fn) (mkFold s2 None SOk) ds2).
Proof.
  intros HR H1 H2. eapply delivers_chunking.
  - apply fold_delivers; exact H1.
  - rewrite HR. apply fold_delivers; exact H2.
Qed.

Lemma NoDup_snoc {A} (l : list A) k : NoDup l -> ~ In k l -> NoDup (l ++ [k]).
Proof.
  induction l as [|x l IH]; intros Hn Hk; simpl.
  - constructor; [intros []|constructor].
  - inversion Hn; subst. constructor.
    + intro Hin. apply in_app_or in Hin as [Hin|[Hin|[]]]; [tauto|]. apply Hk. left. auto.
    + apply IH; auto. intro. apply Hk. right. auto.
Qed.

(* the accumulator holds one entry per distinct key *)
Lemma acc_put_keys fn k v m :
  map fst (acc_put fn k v m) = if existsb (Z.eqb k) (map fst m) then map fst m else map fst m ++ [k].
Proof.
  induction m as [|[k' a] m IH]; simpl; [reflexivity|].
  destruct (Z.eqb_spec k' k) as [->|Hne]; simpl.
  - rewrite Z.eqb_refl. reflexivity.
  - rewrite IH. destruct (Z.eqb_spec k k'); [congruence|]. simpl.
    destruct (existsb (Z.eqb k) (map fst m)); reflexivity.
Qed.
Theorem fold_keys_distinct fn rows : NoDup (map fst (accumulate fn rows [])).
Proof.
  unfold accumulate.
  assert (G : forall rows m, NoDup (map fst m) ->
            NoDup (map fst (fold_left (fun m r => acc_put fn (nth 0 r 0%Z) (nth 1 r 0%Z) m) rows m))).
  { clear. induction rows as [|r rows IH]; intros m Hm; simpl; auto.
    apply IH. rewrite acc_put_keys.
    destruct (existsb (Z.eqb (nth 0 r 0%Z)) (map fst m)) eqn:E; auto.
    apply NoDup_snoc; auto.
    intros Hin. assert (existsb (Z.eqb (nth 0 r 0%Z)) (map fst m) = true).
    { apply existsb_exists. exists (nth 0 r 0%Z). split; auto. apply Z.eqb_refl. }
    congruence. }
  apply G. constructor.
Qed.

(* ------------------------------------------------------------------ *)
(* decodingReader: batches larger than the destination are buffered *)
Fixpoint dmeas (s : script) : nat :=
  match s with
  | [] => 0
  | Rows l :: r | EofWith l :: r => Datatypes.S (length l + dmeas r)
  | Fail _ :: _ => 0
  end.
Definition dec_inv (st : dec_st) : Prop := dc_err st = SOk.
Definition dec_rem (st : dec_st) : list row := dc_buf st ++ batches_of (dc_s st).

Lemma dec_step :
  step_ok dec_st dec_read dec_inv dec_rem (fun st => dec_fails (dc_s st)) (fun st => dec_fails (dc_s st))
          (fun st => length (dc_buf st) + dmeas (dc_s st)).
Proof.
  intros st d o s st' HI Hd H. unfold dec_read in H. rewrite HI in H.
  unfold dec_rem. destruct st as [sc buf err]; simpl in *.
  destruct buf as [|x buf'].
  - assert (Batch : forall b r,
       (if length b <=? d then (b, SOk, mkDec r [] SOk) else (firstn d b, SOk, mkDec r (skipn d b) SOk)) = (o, s, st') ->
       length o <= d /\ s = SOk /\ b ++ batches_of r = o ++ dc_buf st' ++ batches_of (dc_s st') /\
       dec_inv st' /\ dc_s st' = r /\ length (dc_buf st') + dmeas r < Datatypes.S (length b + dmeas r)).
    { intros b r Hb. destruct (Nat.leb_spec (length b) d); inversion Hb; subst; simpl.
      - repeat split; auto. lia.
      - rewrite firstn_length, skipn_length. repeat split; auto; try lia.
        rewrite app_assoc, firstn_skipn. reflexivity. }
    destruct sc as [|[b|b|e] r]; simpl.
    + inversion H; subst. simpl. split; [lia|]. auto.
    + apply Batch in H. destruct H as (Hl & -> & Heq & HI' & Hs & Hm). split; [exact Hl|].
      rewrite Hs in *. repeat split; auto.
    + apply Batch in H. destruct H as (Hl & -> & Heq & HI' & Hs & Hm). split; [exact Hl|].
      rewrite Hs in *. repeat split; auto.
    + inversion H; subst. simpl. split; [lia|]. split; [apply prefix_nil|reflexivity].
  - inversion H; subst; clear H. simpl.
    split; [rewrite firstn_length; lia|].
    rewrite app_assoc. rewrite (firstn_skipn d (x :: buf')). repeat split; auto.
    rewrite skipn_length. cbn [length]. lia.
Qed.

Theorem decoding_delivers s ds :
  demands_ok ds -> delivers (run dec_read (mkDec s [] SOk) ds) ds (batches_of s) (dec_fails s).
Proof. intro H. exact (generic_delivers _ _ _ _ _ _ _ dec_step ds (mkDec s [] SOk) eq_refl H). Qed.
Theorem decoding_progress s ds :
  demands_ok ds -> dmeas s < length ds -> final_of (run dec_read (mkDec s [] SOk) ds) <> SOk.
Proof. intros H L. exact (generic_progress _ _ _ _ _ _ _ dec_step ds (mkDec s [] SOk) eq_refl H L). Qed.
(* how the encoder batched the rows does not matter *)
Theorem decoding_chunking_irrelevant s1 s2 ds1 ds2 :
  batches_of s1 = batches_of s2 -> demands_ok ds1 -> demands_ok ds2 ->
  final_of (run dec_read (mkDec s1 [] SOk) ds1) = SEof ->
  final_of (run dec_read (mkDec s2 [] SOk) ds2) = SEof ->
  outs_of (run dec_read (mkDec s1 [] SOk) ds1) = outs_of (run dec_read (mkDec s2 [] SOk) ds2).
Proof.
  intros HR H1 H2. eapply delivers_chunking.
  - apply decoding_delivers; exact H1.
  - rewrite HR. apply decoding_delivers; exact H2.
Qed.

(* ------------------------------------------------------------------ *)
(* Scanner *)
Definition sc_inv (st : sc_st) : Prop := sc_err st = SOk /\ (sc_ateof st = true -> sc_up st = []).
Definition sc_rem (st : sc_st) : list row := sc_in st ++ rows_of (sc_up st).
Definition sc_phi (st : sc_st) : nat := smeas (sc_up st) + (if sc_ateof st then 0 else 1).

Lemma sc_scan_loop_spec : forall fuel st,
  sc_phi st < fuel -> sc_inv st ->
  match sc_scan_loop fuel st with
  | (Some r, st') => sc_rem st = r :: sc_rem st' /\ sc_inv st' /\ fails (sc_up st') = fails (sc_up st)
  | (None, st') => (sc_err st' = SEof /\ sc_rem st = [] /\ fails (sc_up st) = false) \/
                   (exists e, sc_err st' = SErr e /\ sc_rem st = [] /\ fails (sc_up st) = true)
  end.
Proof.
  induction fuel as [|fuel IH]; intros st Hphi [HE HA]; [lia|].
  destruct st as [up inb ateof err]; unfold sc_rem, sc_inv, sc_phi in *; simpl in *. subst err.
  destruct inb as [|r rest].
  - destruct ateof.
    + rewrite HA by reflexivity. simpl. left. auto.
    + destruct (up_read up chunk) as [[rows s] up1] eqn:E.
      assert (Hc : 1 <= chunk) by (unfold chunk; lia).
      destruct (up_read_spec _ _ _ _ _ Hc E) as [_ Hs].
      destruct s.
      * destruct Hs as (HR & HF & HM).
        specialize (IH (mkSc up1 rows false SOk)). unfold sc_rem, sc_inv, sc_phi in IH; simpl in IH.
        assert (H1 : smeas up1 + 1 < fuel) by lia.
        specialize (IH H1 (conj eq_refl (fun e : false = true => match Bool.diff_false_true e with end))).
        destruct (sc_scan_loop fuel (mkSc up1 rows false SOk)) as [[r|] st'].
        -- destruct IH as (A & B & C). simpl app. rewrite HR. split; [exact A|]. split; [exact B|congruence].
        -- simpl app. rewrite HR, <- HF. exact IH.
      * destruct Hs as (HR & HF & Hup). subst up1.
        specialize (IH (mkSc [] rows true SOk)). unfold sc_rem, sc_inv, sc_phi in IH; simpl in IH.
        assert (H1 : 0 + 0 < fuel) by lia.
        specialize (IH H1 (conj eq_refl (fun _ => eq_refl))).
        destruct (sc_scan_loop fuel (mkSc [] rows true SOk)) as [[r|] st'].
        -- destruct IH as (A & B & C). simpl app. rewrite HR. rewrite app_nil_r in A. split; [exact A|]. split; [exact B|]. simpl in C. congruence.
        -- simpl app. rewrite HR. rewrite app_nil_r in IH. destruct IH as [(A & B & C)|(e & A & B & C)].
           ++ left. auto.
           ++ discriminate.
      * destruct Hs as (-> & HF & _). simpl. right. exists e. repeat split; auto.
        destruct up as [|[l|l|e0] r]; simpl in E; try discriminate;
          try (destruct (length l <=? chunk); discriminate). reflexivity.
      * destruct Hs.
  - simpl. repeat split; auto.
Qed.

Lemma sc_scan_spec st :
  sc_inv st ->
  match sc_scan st with
  | (Some r, st') => sc_rem st = r :: sc_rem st' /\ sc_inv st' /\ fails (sc_up st') = fails (sc_up st)
  | (None, st') => (sc_err st' = SEof /\ sc_rem st = [] /\ fails (sc_up st) = false) \/
                   (exists e, sc_err st' = SErr e /\ sc_rem st = [] /\ fails (sc_up st) = true)
  end.
Proof.
  intro HI. unfold sc_scan. destruct HI as [HE HA]. rewrite HE.
  apply sc_scan_loop_spec; [|split; auto].
  unfold sc_phi. destruct (sc_ateof st); lia.
Qed.

(* Scanv as a reader: d destinations = d Scans *)
Lemma scanv_spec : forall d st acc o s st',
  sc_inv st -> scanv st d acc = (o, s, st') ->
  exists k, o = acc ++ k /\ length k <= d /\
    match s with
    | SOk => length k = d /\ sc_rem st = k ++ sc_rem st' /\ sc_inv st' /\ fails (sc_up st') = fails (sc_up st)
    | SEof => sc_rem st = k /\ fails (sc_up st) = false
    | SErr _ => prefix k (sc_rem st) /\ fails (sc_up st) = true
    | SFuel => False
    end.
Proof.
  induction d as [|d IH]; intros st acc o s st' HI H; simpl in H.
  - inversion H; subst. exists []. rewrite app_nil_r. simpl. repeat split; auto; apply HI.
  - pose proof (sc_scan_spec st HI) as Hs.
    destruct (sc_scan st) as [[r|] st1].
    + destruct Hs as (A & B & C). apply IH in H; auto.
      destruct H as (k & -> & Hk & Hs). exists (r :: k). rewrite <- app_assoc. simpl.
      split; [reflexivity|]. split; [lia|].
      destruct s.
      * destruct Hs as (L & R & I' & F). rewrite A, R. split; [lia|]. split; [reflexivity|]. split; [exact I'|congruence].
      * destruct Hs as (R & F). rewrite A, R. split; [reflexivity|congruence].
      * destruct Hs as (P & F). rewrite A. split; [|congruence].
        destruct P as [c ->]. exists c. reflexivity.
      * exact Hs.
    + inversion H; subst. exists []. rewrite app_nil_r. split; [reflexivity|]. split; [simpl; lia|].
      destruct Hs as [(A & B & C)|(e & A & B & C)]; rewrite A; [auto|].
      split; [apply prefix_nil|exact C].
Qed.

Lemma scanv_step :
  step_ok sc_st scanv_read sc_inv sc_rem (fun st => fails (sc_up st)) (fun st => fails (sc_up st))
          (fun st => length (sc_rem st)).
Proof.
  intros st d o s st' HI Hd H. unfold scanv_read in H.
  apply scanv_spec in H; auto. destruct H as (k & -> & Hk & Hs). simpl.
  split; [exact Hk|]. destruct s; auto.
  destruct Hs as (L & R & I' & F). split; [exact R|]. split; [exact I'|]. split; [exact F|]. split; [exact F|].
  rewrite R, app_length. lia.
Qed.

Lemma sc_init_inv s : sc_inv (sc_init s).
Proof. split; [reflexivity|discriminate]. Qed.

(* a scanner yields each row exactly once, in order, whatever the batch sizes ... *)
Theorem scanner_delivers s ds :
  demands_ok ds -> delivers (run scanv_read (sc_init s) ds) ds (rows_of s) (fails s).
Proof. intro H. exact (generic_delivers _ _ _ _ _ _ _ scanv_step ds (sc_init s) (sc_init_inv s) H). Qed.
Theorem scanner_progress s ds :
  demands_ok ds -> length (rows_of s) < length ds -> final_of (run scanv_read (sc_init s) ds) <> SOk.
Proof. intros H L. exact (generic_progress _ _ _ _ _ _ _ scanv_step ds (sc_init s) (sc_init_inv s) H L). Qed.

(* ... and Scan by Scan: all rows, then false with Err() = nil (recorded as SEof) *)
Lemma scan_all_spec : forall fuel st acc,
  sc_inv st -> fails (sc_up st) = false -> length (sc_rem st) < fuel ->
  let '(seen, st') := scan_all fuel st acc in
  seen = acc ++ sc_rem st /\ sc_err st' = SEof.
Proof.
  induction fuel as [|fuel IH]; intros st acc HI HF Hl; [lia|]. simpl.
  pose proof (sc_scan_spec st HI) as Hs.
  destruct (sc_scan st) as [[r|] st1].
  - destruct Hs as (A & B & C). specialize (IH st1 (acc ++ [r]) B).
    rewrite C in IH. specialize (IH HF). rewrite A in Hl. simpl in Hl.
    specialize (IH ltac:(lia)).
    destruct (scan_all fuel st1 (acc ++ [r])) as [seen st'].
    destruct IH as [-> E]. rewrite A, <- app_assoc. auto.
  - destruct Hs as [(A & B & C)|(e & A & B & C)]; [|congruence].
    rewrite B, app_nil_r. auto.
Qed.

Theorem scan_each_once s :
  fails s = false ->
  let '(seen, st') := scan_all (Datatypes.S (length (rows_of s))) (sc_init s) [] in
  seen = rows_of s /\ sc_err st' = SEof.
Proof.
  intro HF. apply (scan_all_spec _ (sc_init s) [] (sc_init_inv s) HF).
  unfold sc_rem; simpl. lia.
Qed.

(* bigslice.Scan's reader: the callback sees every row once, in order, and the
   reader then reports EOF *)
Theorem scanreader_all s :
  fails s = false -> scanreader_read s = (SEof, rows_of s).
Proof.
  intro HF. unfold scanreader_read.
  assert (L : length (sc_rem (sc_init s)) < Datatypes.S (length (rows_of s) + smeas s))
    by (unfold sc_rem; simpl; lia).
  pose proof (scan_all_spec _ (sc_init s) [] (sc_init_inv s) HF L) as H.
  destruct (scan_all (Datatypes.S (length (rows_of s) + smeas s)) (sc_init s) []) as [seen st'].
  destruct H as [-> ->]. reflexivity.
Qed.

(* a destination of the wrong arity or type is rejected with an error, and the
   scanner stays failed *)
Theorem scan_rejects_bad_destination st :
  sc_err st = SOk ->
  let '(r, st') := sc_scan_bad st in
  r = None /\ sc_err st' = SErr 4%Z /\ sc_scan st' = (None, st') /\ sc_scan_bad st' = (None, st').
Proof.
  intro HE. unfold sc_scan_bad. rewrite HE. simpl. repeat split; auto.
Qed.

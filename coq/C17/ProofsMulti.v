(* C17 — sliceio.multiReader / exec.multiReader (refuted in general, proved
   for upstreams that never return rows together with EOF) and
   exec.taskBufferReader (the i,j,k cursor). *)
From Coq Require Import List ZArith Bool Arith Lia.
Import ListNotations.
Require Import BS.Common.Util BS.C17.Model BS.C17.Lemmas.

(* ------------------------------------------------------------------ *)
(* multiReader *)
Definition qfails (q : list script) : bool := existsb fails q.

Lemma qmeas_cons s q : qmeas (s :: q) = Datatypes.S (smeas s + qmeas q).
Proof. reflexivity. Qed.

Lemma multi_loop_spec d : 1 <= d -> forall fuel q o s q',
  qmeas q < fuel ->
  multi_loop fuel q d = (o, s, q') ->
  length o <= d /\
  match s with
  | SOk => o <> [] /\ sem_multi q = o ++ sem_multi q' /\
           qfails q' = qfails q /\ qmeas q' < qmeas q
  | SEof => o = [] /\ sem_multi q = [] /\ qfails q = false
  | SErr _ => prefix o (sem_multi q) /\ qfails q = true
  | SFuel => False
  end.
Proof.
  intro Hd. induction fuel as [|fuel IH]; intros q o s q' Hf H; [lia|].
  destruct q as [|s0 q0]; simpl in H.
  - inversion H; subst. simpl. repeat split; auto; lia.
  - destruct (up_read s0 d) as [[rows st] s1] eqn:E.
    destruct (up_read_spec _ _ _ _ _ Hd E) as [Hl Hs].
    unfold sem_multi, qfails in *. rewrite qmeas_cons in Hf. cbn [map concat existsb].
    destruct st.
    + destruct Hs as (HR & HF & HM).
      destruct rows as [|r rows']; cbn [is_nil] in H.
      * apply IH in H; [|rewrite qmeas_cons; lia].
        destruct H as [Hlo Hs]. split; [exact Hlo|].
        cbn [map concat existsb] in Hs. rewrite qmeas_cons in Hs. rewrite HR. simpl app.
        destruct s; auto.
        -- destruct Hs as (Hne & Hsem & Hqf & Hqm). rewrite HF in Hqf.
           repeat split; auto. rewrite qmeas_cons. lia.
        -- rewrite HF in Hs. exact Hs.
        -- rewrite HF in Hs. exact Hs.
      * inversion H; subst. split; [exact Hl|].
        split; [discriminate|]. cbn [map concat existsb]. rewrite HR, HF, app_assoc.
        repeat split; auto. rewrite !qmeas_cons. lia.
    + destruct Hs as (HR & HF & _).
      destruct rows as [|r rows']; cbn [is_nil] in H.
      * (* an exhausted reader: popped, the loop goes on *)
        apply IH in H; [|lia].
        destruct H as [Hlo Hs]. split; [exact Hlo|].
        rewrite HR, HF. simpl app. simpl orb.
        destruct s; auto.
        destruct Hs as (Hne & Hsem & Hqf & Hqm). repeat split; auto. rewrite qmeas_cons. lia.
      * (* last rows together with EOF: popped, the rows are delivered *)
        inversion H; subst. split; [exact Hl|].
        split; [discriminate|]. rewrite HR, HF. simpl orb.
        repeat split; auto. rewrite qmeas_cons. lia.
    + inversion H; subst. destruct Hs as (-> & HF & _).
      split; [simpl; lia|]. split; [apply prefix_nil|]. rewrite HF. reflexivity.
    + destruct Hs.
Qed.

Definition multi_inv (st : multi_st) : Prop := mu_err st = SOk.

Lemma multi_step :
  step_ok multi_st multi_read multi_inv (fun st => sem_multi (mu_q st))
          (fun st => qfails (mu_q st)) (fun st => qfails (mu_q st)) (fun st => qmeas (mu_q st)).
Proof.
  intros st d o s st' HE Hd H. unfold multi_read in H. unfold multi_inv in HE. rewrite HE in H.
  destruct (multi_loop (Datatypes.S (qmeas (mu_q st))) (mu_q st) d) as [[rows s0] q'] eqn:E.
  inversion H; subst; clear H.
  apply (multi_loop_spec d Hd) in E; auto.
  destruct E as [Hl Hs]. split; [exact Hl|].
  destruct s; simpl.
  - destruct Hs as (Hne & Hsem & Hqf & Hqm). repeat split; auto.
  - destruct Hs as (-> & Hsem & Hqf). auto.
  - exact Hs.
  - exact Hs.
Qed.

(* the logical concatenation of the inputs, for all scripts: empty reads are
   skipped, rows returned together with EOF are delivered *)
Theorem multi_delivers q ds :
  demands_ok ds ->
  delivers (run multi_read (mkMulti q SOk) ds) ds (sem_multi q) (qfails q).
Proof.
  intro H. exact (generic_delivers _ _ _ _ _ _ _ multi_step ds (mkMulti q SOk) eq_refl H).
Qed.
(* empty upstream reads and exhausted readers are skipped: no livelock *)
Theorem multi_progress q ds :
  demands_ok ds -> qmeas q < length ds ->
  final_of (run multi_read (mkMulti q SOk) ds) <> SOk.
Proof.
  intros H L. exact (generic_progress _ _ _ _ _ _ _ multi_step ds (mkMulti q SOk) eq_refl H L).
Qed.
Theorem multi_total q ds :
  demands_ok ds -> qmeas q < length ds -> qfails q = false ->
  outs_of (run multi_read (mkMulti q SOk) ds) = sem_multi q /\
  final_of (run multi_read (mkMulti q SOk) ds) = SEof.
Proof.
  intros H L F. exact (generic_total _ _ _ _ _ _ _ multi_step ds (mkMulti q SOk) eq_refl H L F).
Qed.
Theorem multi_chunking_irrelevant q1 q2 ds1 ds2 :
  sem_multi q1 = sem_multi q2 ->
  demands_ok ds1 -> demands_ok ds2 ->
  final_of (run multi_read (mkMulti q1 SOk) ds1) = SEof ->
  final_of (run multi_read (mkMulti q2 SOk) ds2) = SEof ->
  outs_of (run multi_read (mkMulti q1 SOk) ds1) = outs_of (run multi_read (mkMulti q2 SOk) ds2).
Proof.
  intros HR H1 H2. eapply delivers_chunking.
  - apply multi_delivers; eauto.
  - rewrite HR. apply multi_delivers; eauto.
Qed.

(* witness of the defect repaired by commit d00fa90: the old readers dropped
   the rows that a sub-reader returned together with EOF (allowed by the
   Reader contract, sliceio/reader.go:42-44) *)
Theorem multi_read_dropping_lost_rows :
  exists q ds, demands_ok ds /\
    final_of (run multi_read_dropping (mkMulti q SOk) ds) = SEof /\
    outs_of (run multi_read_dropping (mkMulti q SOk) ds) <> sem_multi q.
Proof.
  exists [[EofWith [[1%Z]]]], [1]. split; [repeat constructor|].
  vm_compute. split; [reflexivity|discriminate].
Qed.
(* ... and the repaired reader delivers them on the same input *)
Example multi_read_keeps_rows_returned_with_eof :
  outs_of (run multi_read (mkMulti [[EofWith [[1%Z]]]] SOk) [1; 1]) = [[1%Z]] /\
  final_of (run multi_read (mkMulti [[EofWith [[1%Z]]]] SOk) [1; 1]) = SEof.
Proof. vm_compute. split; reflexivity. Qed.

(* ------------------------------------------------------------------ *)
(* taskBufferReader *)
Definition tb_part (st : tb_st) : list (list row) := nth (tb_i st) (tb_q st) [].
Definition tb_buf (st : tb_st) : list row := nth (tb_j st) (tb_part st) [].
Definition tb_rem (st : tb_st) : list row :=
  skipn (tb_k st) (tb_buf st) ++ concat (skipn (Datatypes.S (tb_j st)) (tb_part st))
  ++ concat (map (@concat row) (skipn (Datatypes.S (tb_i st)) (tb_q st))).
Definition tb_wf (st : tb_st) : Prop :=
  tb_i st <= length (tb_q st) /\ tb_j st <= length (tb_part st) /\ tb_k st <= length (tb_buf st).
Definition tb_m (st : tb_st) : nat :=
  (length (tb_q st) - tb_i st) + (length (concat (skipn (tb_i st) (tb_q st))) - tb_j st).

Lemma skipn_nth_cons {A} (l : list A) i d : i < length l -> skipn i l = nth i l d :: skipn (Datatypes.S i) l.
Proof.
  revert i; induction l as [|x l IH]; intros [|i] H; simpl in *; try lia; auto.
  apply IH. lia.
Qed.
Lemma concat_skipn_le {A} (l : list (list A)) i : length (concat (skipn i l)) <= length (concat l).
Proof.
  revert i; induction l as [|x l IH]; intros [|i]; simpl; auto.
  rewrite app_length. specialize (IH i). lia.
Qed.
Lemma concat_skipn_part {A} (q : list (list A)) i :
  i < length q ->
  length (concat (skipn i q)) = length (nth i q []) + length (concat (skipn (Datatypes.S i) q)).
Proof.
  revert i; induction q as [|a q IH]; intros [|i] H; simpl in *; try lia.
  - rewrite app_length. reflexivity.
  - apply IH. lia.
Qed.
Lemma nth_nil {A} n (d : A) : nth n [] d = d.
Proof. destruct n; reflexivity. Qed.
Lemma concat_hd_tl {A} (l : list (list A)) : concat l = nth 0 l [] ++ concat (skipn 1 l).
Proof. destruct l; reflexivity. Qed.

Lemma tb_skip_spec : forall fuel st,
  tb_wf st -> tb_m st < fuel ->
  match tb_skip fuel st with
  | None => tb_rem st = []
  | Some st1 => tb_rem st1 = tb_rem st /\ tb_q st1 = tb_q st /\ tb_wf st1 /\
                tb_k st1 < length (tb_buf st1)
  end.
Proof.
  induction fuel as [|fuel IH]; intros st (Wi & Wj & Wk) Hm; [lia|].
  destruct st as [q i j k]. unfold tb_wf, tb_rem, tb_m, tb_buf, tb_part in *. cbn [tb_q tb_i tb_j tb_k] in *.
  cbn [tb_skip tb_q tb_i tb_j tb_k].
  destruct (Nat.eqb_spec (length q) i) as [Ei|Ei].
  - (* all partitions consumed *)
    subst i. rewrite (nth_overflow q) by lia. rewrite nth_nil, !skipn_nil.
    rewrite (skipn_all2 q) by lia. reflexivity.
  - assert (Hi : i < length q) by lia.
    destruct (Nat.eqb_spec (length (nth i q [])) j) as [Ej|Ej].
    + (* partition exhausted: i++ *)
      subst j. specialize (IH (mkTb q (Datatypes.S i) 0 0)).
      unfold tb_wf, tb_rem, tb_m, tb_buf, tb_part in IH. cbn [tb_q tb_i tb_j tb_k] in IH.
      assert (Hrem : skipn k (nth (length (nth i q [])) (nth i q []) []) ++
                     concat (skipn (Datatypes.S (length (nth i q []))) (nth i q [])) ++
                     concat (map (@concat row) (skipn (Datatypes.S i) q)) =
                     skipn 0 (nth 0 (nth (Datatypes.S i) q []) []) ++
                     concat (skipn 1 (nth (Datatypes.S i) q [])) ++
                     concat (map (@concat row) (skipn (Datatypes.S (Datatypes.S i)) q))).
      { rewrite (nth_overflow (nth i q [])) by lia. rewrite skipn_nil.
        rewrite (skipn_all2 (nth i q [])) by lia. rewrite skipn_O. cbn [concat app].
        destruct (Nat.lt_ge_cases (Datatypes.S i) (length q)) as [Hlt|Hge].
        - rewrite (skipn_nth_cons q (Datatypes.S i) []) by lia. cbn [map concat].
          rewrite (concat_hd_tl (nth (Datatypes.S i) q [])). rewrite <- app_assoc. reflexivity.
        - rewrite !(skipn_all2 q) by lia. rewrite (nth_overflow q) by lia.
          rewrite nth_nil, skipn_nil. reflexivity. }
      assert (Hm' : length q - Datatypes.S i + (length (concat (skipn (Datatypes.S i) q)) - 0) < fuel).
      { rewrite (concat_skipn_part q i) in Hm by lia. lia. }
      assert (W' : Datatypes.S i <= length q /\ 0 <= length (nth (Datatypes.S i) q []) /\
                   0 <= length (nth 0 (nth (Datatypes.S i) q []) [])) by (repeat split; lia).
      specialize (IH W' Hm').
      destruct (tb_skip fuel (mkTb q (Datatypes.S i) 0 0)) as [st1|].
      * destruct IH as (R & Q & W & K). repeat split; try tauto. rewrite R. symmetry. exact Hrem.
      * rewrite Hrem. exact IH.
    + assert (Hj : j < length (nth i q [])) by lia.
      destruct (Nat.eqb_spec (length (nth j (nth i q []) [])) k) as [Ek|Ek].
      * (* frame exhausted: j++ *)
        subst k. specialize (IH (mkTb q i (Datatypes.S j) 0)).
        unfold tb_wf, tb_rem, tb_m, tb_buf, tb_part in IH. cbn [tb_q tb_i tb_j tb_k] in IH.
        assert (Hrem : skipn (length (nth j (nth i q []) [])) (nth j (nth i q []) []) ++
                       concat (skipn (Datatypes.S j) (nth i q [])) ++
                       concat (map (@concat row) (skipn (Datatypes.S i) q)) =
                       skipn 0 (nth (Datatypes.S j) (nth i q []) []) ++
                       concat (skipn (Datatypes.S (Datatypes.S j)) (nth i q [])) ++
                       concat (map (@concat row) (skipn (Datatypes.S i) q))).
        { rewrite skipn_all. rewrite skipn_O. cbn [app].
          destruct (Nat.lt_ge_cases (Datatypes.S j) (length (nth i q []))) as [Hlt|Hge].
          - rewrite (skipn_nth_cons (nth i q []) (Datatypes.S j) []) by lia. cbn [concat].
            rewrite <- app_assoc. reflexivity.
          - rewrite !(skipn_all2 (nth i q [])) by lia. rewrite (nth_overflow (nth i q [])) by lia.
            reflexivity. }
        assert (Hcl : length (nth i q []) <= length (concat (skipn i q))).
        { rewrite (concat_skipn_part q i) by lia. lia. }
        assert (Hm' : length q - i + (length (concat (skipn i q)) - Datatypes.S j) < fuel) by lia.
        assert (W' : i <= length q /\ Datatypes.S j <= length (nth i q []) /\
                     0 <= length (nth (Datatypes.S j) (nth i q []) [])) by (repeat split; lia).
        specialize (IH W' Hm').
        destruct (tb_skip fuel (mkTb q i (Datatypes.S j) 0)) as [st1|].
        -- destruct IH as (R & Q & W & K). repeat split; try tauto. rewrite R. symmetry. exact Hrem.
        -- rewrite Hrem. exact IH.
      * cbn [tb_q tb_i tb_j tb_k]. repeat split; auto; lia.
Qed.

Lemma tb_fuel_ok st : tb_m st < tb_fuel (tb_q st).
Proof.
  unfold tb_m, tb_fuel. pose proof (concat_skipn_le (tb_q st) (tb_i st)). lia.
Qed.

Lemma tb_step :
  step_ok tb_st tb_read tb_wf tb_rem (fun _ => false) (fun _ => false) (fun st => length (tb_rem st)).
Proof.
  intros st d o s st' W Hd H. unfold tb_read in H.
  pose proof (tb_skip_spec (tb_fuel (tb_q st)) st W (tb_fuel_ok st)) as Hs.
  destruct (tb_skip (tb_fuel (tb_q st)) st) as [st1|].
  - destruct Hs as (R & Q & (Wi & Wj & Wk) & K).
    inversion H; subst; clear H.
    unfold tb_buf, tb_part in *.
    set (buf := nth (tb_j st1) (nth (tb_i st1) (tb_q st1) []) []) in *.
    set (n := Nat.min d (length buf - tb_k st1)).
    assert (Hn : 1 <= n) by (unfold n; lia).
    split; [rewrite firstn_length; unfold n; lia|].
    assert (Hlen : length (firstn n (skipn (tb_k st1) buf)) = n).
    { rewrite firstn_length, skipn_length. unfold n. lia. }
    assert (Heq : tb_rem st = firstn n (skipn (tb_k st1) buf) ++
                  tb_rem (mkTb (tb_q st1) (tb_i st1) (tb_j st1) (tb_k st1 + n))).
    { rewrite <- R. unfold tb_rem, tb_buf, tb_part. cbn [tb_q tb_i tb_j tb_k]. fold buf.
      rewrite <- (skipn_skipn buf n (tb_k st1)).
      rewrite (app_assoc (firstn n (skipn (tb_k st1) buf))).
      rewrite firstn_skipn. reflexivity. }
    split; [exact Heq|]. split.
    { unfold tb_wf, tb_buf, tb_part. cbn [tb_q tb_i tb_j tb_k]. fold buf. repeat split; auto.
      unfold n. lia. }
    split; [reflexivity|]. split; [reflexivity|].
    rewrite Heq, app_length, Hlen. lia.
  - inversion H; subst; clear H. simpl. split; [lia|]. auto.
Qed.

Lemma tb_init_wf b p : tb_wf (tb_init b p).
Proof. unfold tb_wf, tb_init; simpl. repeat split; lia. Qed.
Lemma tb_init_rem b p : tb_rem (tb_init b p) = sem_tb b p.
Proof.
  unfold tb_rem, tb_buf, tb_part, tb_init, sem_tb. cbn [tb_q tb_i tb_j tb_k].
  destruct (Nat.lt_ge_cases p (length b)) as [Hlt|Hge].
  - rewrite (skipn_nth_cons b p []) by lia. simpl. rewrite app_nil_r.
    symmetry. apply concat_hd_tl.
  - rewrite (skipn_all2 b) by lia. rewrite (nth_overflow b) by lia. reflexivity.
Qed.

Theorem taskbuf_delivers b p ds :
  demands_ok ds -> delivers (run tb_read (tb_init b p) ds) ds (sem_tb b p) false.
Proof.
  intro H. rewrite <- tb_init_rem.
  exact (generic_delivers _ _ _ _ _ _ _ tb_step ds (tb_init b p) (tb_init_wf b p) H).
Qed.
Theorem taskbuf_progress b p ds :
  demands_ok ds -> length (sem_tb b p) < length ds ->
  final_of (run tb_read (tb_init b p) ds) <> SOk.
Proof.
  intros H L. rewrite <- tb_init_rem in L.
  exact (generic_progress _ _ _ _ _ _ _ tb_step ds (tb_init b p) (tb_init_wf b p) H L).
Qed.
(* every demand sequence long enough reads exactly the partition's rows *)
Theorem taskbuf_total b p ds :
  demands_ok ds -> length (sem_tb b p) < length ds ->
  outs_of (run tb_read (tb_init b p) ds) = sem_tb b p.
Proof.
  intros H L. rewrite <- tb_init_rem in *.
  exact (proj1 (generic_total _ _ _ _ _ _ _ tb_step ds (tb_init b p) (tb_init_wf b p) H L eq_refl)).
Qed.
(* reading never alters the stored frames (they are shared, not copied) *)
Theorem taskbuf_frames_unchanged st d : tb_wf st -> tb_q (snd (tb_read st d)) = tb_q st.
Proof.
  intro W. unfold tb_read.
  pose proof (tb_skip_spec (tb_fuel (tb_q st)) st W (tb_fuel_ok st)) as Hs.
  destruct (tb_skip (tb_fuel (tb_q st)) st) as [st1|]; simpl; [tauto|reflexivity].
Qed.

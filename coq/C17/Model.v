(* C17 — Readers and scanners deliver the same rows however they are read.
   Executable model of the anchored Go readers (slice.go, cogroup.go,
   sliceio/reader.go, sliceio/scanner.go, sliceio/codec.go (buf/scratch only),
   sortio/sort.go (mergeReader, FrameBuffer.Fill), sortio/reader.go,
   exec/buffer.go, exec/local.go).  No proofs in this file.

   A row is a list of Z (one per column).  An upstream reader is a *script*.
   Every reader is a state machine  read : st -> nat -> list row * status * st
   where the nat is the length of the destination frame (the demand). *)
From Coq Require Import List ZArith Bool Arith Lia.
Import ListNotations.
Local Open Scope Z_scope.

Notation row := (list Z).

(* error classes: 1 = plain error, 2 = temporary, 3 = fatal (errors.E(errors.Fatal, _)) *)
Inductive status := SOk | SEof | SErr (e : Z) | SFuel.

Definition status_eqb (a b : status) : bool :=
  match a, b with
  | SOk, SOk => true | SEof, SEof => true | SFuel, SFuel => true
  | SErr x, SErr y => Z.eqb x y
  | _, _ => false
  end.

Definition is_nil {A} (l : list A) : bool := match l with [] => true | _ => false end.

(* ------------------------------------------------------------------ *)
(* Scripted upstream.  [Rows []] is a read that returns no rows without
   ending; a response longer than the demand is handed out in pieces (an
   upstream never returns more than asked); [Fail] is sticky. *)
Inductive resp := Rows (l : list row) | EofWith (l : list row) | Fail (e : Z).
Notation script := (list resp).

Definition up_read (s : script) (d : nat) : list row * status * script :=
  match s with
  | [] => ([], SEof, [])
  | Rows l :: r =>
      if (length l <=? d)%nat then (l, SOk, r) else (firstn d l, SOk, Rows (skipn d l) :: r)
  | EofWith l :: r =>
      if (length l <=? d)%nat then (l, SEof, []) else (firstn d l, SOk, EofWith (skipn d l) :: r)
  | Fail e :: r => ([], SErr e, s)
  end.

(* the rows a script holds, and whether it ends in a failure *)
Fixpoint rows_of (s : script) : list row :=
  match s with
  | [] => []
  | Rows l :: r => l ++ rows_of r
  | EofWith l :: _ => l
  | Fail _ :: _ => []
  end.

Fixpoint fails (s : script) : bool :=
  match s with
  | [] => false
  | Rows _ :: r => fails r
  | EofWith _ :: _ => false
  | Fail _ :: _ => true
  end.

(* size of a script: every read with demand >= 1 that returns SOk lowers it *)
Fixpoint smeas (s : script) : nat :=
  match s with
  | [] => 0
  | Rows l :: r => S (length l + smeas r)
  | EofWith l :: _ => S (length l)
  | Fail _ :: _ => 0
  end.

(* ------------------------------------------------------------------ *)
(* Driving a reader: calls stop at the first status other than SOk. *)
Fixpoint run {S : Type} (read : S -> nat -> list row * status * S) (st : S) (ds : list nat)
  : list (list row * status) :=
  match ds with
  | [] => []
  | d :: ds' =>
      let '(o, s, st') := read st d in
      (o, s) :: match s with SOk => run read st' ds' | _ => [] end
  end.

Definition outs_of (r : list (list row * status)) : list row := concat (map fst r).
Definition final_of (r : list (list row * status)) : status := last (map snd r) SOk.

(* ------------------------------------------------------------------ *)
(* The menu of user functions (interpreted identically by the Go driver). *)
Definition hd0 (r : row) : Z := hd 0 r.

Inductive mapfn := MAddK (k : Z) | MFirst | MDupCol.
Definition apply_map (f : mapfn) (r : row) : row :=
  match f with
  | MAddK k => map (Z.add k) r
  | MFirst => firstn 1 r
  | MDupCol => r ++ firstn 1 r
  end.

Inductive pred := PEven | PAll | PNone | PLt (k : Z) | PMod3.
Definition apply_pred (p : pred) (r : row) : bool :=
  match p with
  | PEven => Z.even (hd0 r)
  | PAll => true
  | PNone => false
  | PLt k => hd0 r <? k
  | PMod3 => negb (hd0 r mod 3 =? 0)
  end.

Inductive flatfn := FDup (n : nat) | FByVal (m : Z) | FSeq (m : Z).
Definition apply_flat (f : flatfn) (r : row) : list row :=
  match f with
  | FDup n => repeat r n
  | FByVal m => repeat r (Z.to_nat (hd0 r mod m))
  | FSeq m => map (fun i => map (Z.add (Z.of_nat i)) r) (seq 0 (Z.to_nat (hd0 r mod m)))
  end.

Inductive foldfn := AccSum | AccCount | AccPoly.
Definition apply_fold (f : foldfn) (acc v : Z) : Z :=
  match f with
  | AccSum => acc + v
  | AccCount => acc + 1
  | AccPoly => (acc * 3 + v) mod 1000003
  end.

(* write function of WriterFunc: never fails, or fails on its k-th call with class e *)
Inductive wfn := WNever | WFailOn (k : nat) (e : Z).

(* application errors are wrapped as fatal unless temporary (slice.go:389-396, 530-536) *)
Definition wrap_user (e : Z) : Z := if e =? 2 then 2 else 3.

(* ------------------------------------------------------------------ *)
(* mapReader (slice.go:600-634) *)
Record map_st := mkMap { m_up : script; m_err : status }.
Definition map_read (f : mapfn) (st : map_st) (d : nat) : list row * status * map_st :=
  match m_err st with
  | SOk =>
      let '(rows, s, up') := up_read (m_up st) d in
      (map (apply_map f) rows, s, mkMap up' s)
  | e => ([], e, st)
  end.
Definition sem_map (f : mapfn) (l : list row) : list row := map (apply_map f) l.

(* filterReader (slice.go:688-722): for m < max && f.err == nil { read max-m; keep accepted } *)
Fixpoint filter_loop (fuel : nat) (p : pred) (up : script) (acc : list row) (need : nat)
  : list row * status * script :=
  match need with
  | O => (acc, SOk, up)
  | _ =>
      match fuel with
      | O => (acc, SFuel, up)
      | S fuel' =>
          let '(rows, s, up') := up_read up need in
          let kept := filter (apply_pred p) rows in
          match s with
          | SOk => filter_loop fuel' p up' (acc ++ kept) (need - length kept)
          | _ => (acc ++ kept, s, up')
          end
      end
  end.
Record filter_st := mkFilter { f_up : script; f_err : status }.
Definition filter_read (p : pred) (st : filter_st) (d : nat) : list row * status * filter_st :=
  match f_err st with
  | SOk =>
      let '(rows, s, up') := filter_loop (S (smeas (f_up st))) p (f_up st) [] d in
      (rows, s, mkFilter up' s)
  | e => ([], e, st)
  end.
Definition sem_filter (p : pred) (l : list row) : list row := filter (apply_pred p) l.

(* flatmapReader (slice.go:783-837) *)
Record fm_st := mkFm { fm_up : script; fm_in : list row; fm_stash : list row; fm_eof : bool }.

(* the inner for-loop: one input row at a time while there is space; the
   overflow of the last result is stashed *)
Fixpoint fm_inner (f : flatfn) (inb out stash : list row) (d : nat)
  : list row * list row * list row :=
  match inb with
  | [] => ([], out, stash)
  | r :: inb' =>
      if (length out <? d)%nat then
        let res := apply_flat f r in
        let space := (d - length out)%nat in
        let out' := out ++ firstn space res in
        if (space <? length res)%nat then (inb', out', skipn space res)
        else fm_inner f inb' out' stash d
      else (inb, out, stash)
  end.

Fixpoint fm_loop (fuel : nat) (f : flatfn) (st : fm_st) (out : list row) (d : nat)
  : list row * status * fm_st :=
  if (length out <? d)%nat && (negb (fm_eof st) || negb (is_nil (fm_in st))) then
    match fuel with
    | O => (out, SFuel, st)
    | S fuel' =>
        match fm_in st with
        | [] =>
            let '(rows, s, up') := up_read (fm_up st) d in
            match s with
            | SErr e => ([], SErr e, mkFm up' [] (fm_stash st) (fm_eof st))
            | SFuel => ([], SFuel, st)
            | _ =>
                let '(inb', out', stash') := fm_inner f rows out (fm_stash st) d in
                fm_loop fuel' f (mkFm up' inb' stash' (status_eqb s SEof)) out' d
            end
        | inb =>
            let '(inb', out', stash') := fm_inner f inb out (fm_stash st) d in
            fm_loop fuel' f (mkFm (fm_up st) inb' stash' (fm_eof st)) out' d
        end
    end
  else
    (out, if fm_eof st && is_nil (fm_stash st) && is_nil (fm_in st) then SEof else SOk, st).

Definition fm_read (f : flatfn) (st : fm_st) (d : nat) : list row * status * fm_st :=
  fm_loop (S (S (smeas (fm_up st) + length (fm_in st)))) f
          (mkFm (fm_up st) (fm_in st) (skipn d (fm_stash st)) (fm_eof st))
          (firstn d (fm_stash st)) d.
Definition fm_init (s : script) : fm_st := mkFm s [] [] false.
Definition sem_flatmap (f : flatfn) (l : list row) : list row := flat_map (apply_flat f) l.

(* headReader (slice.go:984-996): the upstream read is made directly into the
   destination, cut to the h.n rows still wanted.  [head_written] is what lands
   in the destination. *)
Record head_st := mkHead { h_up : script; h_n : Z }.
Definition head_demand (st : head_st) (d : nat) : nat :=
  if h_n st <? Z.of_nat d then Z.to_nat (h_n st) else d.
Definition head_read (st : head_st) (d : nat) : list row * status * head_st :=
  if h_n st <=? 0 then ([], SEof, st)
  else
    let '(rows, s, up') := up_read (h_up st) (head_demand st d) in
    (rows, s, mkHead up' (h_n st - Z.of_nat (length rows))).
Definition head_written (st : head_st) (d : nat) : list row :=
  if h_n st <=? 0 then [] else fst (fst (up_read (h_up st) (head_demand st d))).
(* the reader before commit b23d5f2: reads len(out) rows into the destination
   and lowers the count afterwards (kept for the witness of the old defect) *)
Definition head_read_overwriting (st : head_st) (d : nat) : list row * status * head_st :=
  if h_n st <=? 0 then ([], SEof, st)
  else
    let '(rows, s, up') := up_read (h_up st) d in
    let n' := h_n st - Z.of_nat (length rows) in
    let cnt := if n' <? 0 then Z.of_nat (length rows) - (- n') else Z.of_nat (length rows) in
    (firstn (Z.to_nat cnt) rows, s, mkHead up' n').
Definition head_written_overwriting (st : head_st) (d : nat) : list row :=
  if h_n st <=? 0 then [] else fst (fst (up_read (h_up st) d)).
(* headReader over any upstream reader (e.g. Head over a decoded stream) *)
Definition head_over {S : Type} (read : S -> nat -> list row * status * S)
           (st : S * Z) (d : nat) : list row * status * (S * Z) :=
  let '(u, n) := st in
  if n <=? 0 then ([], SEof, st)
  else
    let '(rows, s, u') := read u (if n <? Z.of_nat d then Z.to_nat n else d) in
    (rows, s, (u', n - Z.of_nat (length rows))).
Definition sem_head (n : Z) (l : list row) : list row := firstn (Z.to_nat n) l.

(* constShard (slice.go:263-277), Go's truncated division on non-negative operands *)
Definition const_shard (n nshard shard : Z) : Z * Z :=
  let quot := n / nshard in
  let rem := n mod nshard in
  if shard <? rem then (quot * shard + shard, quot + 1) else (quot * shard + rem, quot).

(* constReader (slice.go:246-257); count = 0 gives sliceio.EmptyReader, which
   behaves like the reader of an empty frame *)
Definition const_read (rem : list row) (d : nat) : list row * status * list row :=
  (firstn d rem, if is_nil rem then SEof else SOk, skipn d rem).
Definition const_init (data : list row) (nshard shard : Z) : list row :=
  let '(off, cnt) := const_shard (Z.of_nat (length data)) nshard shard in
  firstn (Z.to_nat cnt) (skipn (Z.to_nat off) data).

(* sliceio.frameReader (sliceio/reader.go:134-146) *)
Definition frame_read (rem : list row) (d : nat) : list row * status * list row :=
  let rem' := skipn d rem in
  (firstn d rem, if is_nil rem' then SEof else SOk, rem').

(* sliceio.multiReader (sliceio/reader.go:85-110) and exec.multiReader
   (exec/local.go:254-275): the same statements (Close aside).  A reader that
   returns its last rows together with EOF is popped and the rows are
   delivered with a nil error. *)
Fixpoint multi_loop (fuel : nat) (q : list script) (d : nat) : list row * status * list script :=
  match q with
  | [] => ([], SEof, [])
  | s :: q' =>
      match fuel with
      | O => ([], SFuel, q)
      | S fuel' =>
          let '(rows, st, s') := up_read s d in
          match st with
          | SEof => if is_nil rows then multi_loop fuel' q' d else (rows, SOk, q')
          | SOk => if is_nil rows then multi_loop fuel' (s' :: q') d else (rows, SOk, s' :: q')
          | e => (rows, e, s' :: q')
          end
      end
  end.
(* the readers before commit d00fa90: the rows returned together with EOF were
   dropped (kept for the witness of the old defect) *)
Fixpoint multi_loop_dropping (fuel : nat) (q : list script) (d : nat) : list row * status * list script :=
  match q with
  | [] => ([], SEof, [])
  | s :: q' =>
      match fuel with
      | O => ([], SFuel, q)
      | S fuel' =>
          let '(rows, st, s') := up_read s d in
          match st with
          | SEof => multi_loop_dropping fuel' q' d
          | SOk => if is_nil rows then multi_loop_dropping fuel' (s' :: q') d else (rows, SOk, s' :: q')
          | e => (rows, e, s' :: q')
          end
      end
  end.
Definition qmeas (q : list script) : nat := fold_right (fun s a => S (smeas s + a)%nat) O q.
Record multi_st := mkMulti { mu_q : list script; mu_err : status }.
Definition multi_read (st : multi_st) (d : nat) : list row * status * multi_st :=
  match mu_err st with
  | SOk =>
      let '(rows, s, q') := multi_loop (S (qmeas (mu_q st))) (mu_q st) d in
      (rows, s, mkMulti q' (match s with SErr _ => s | _ => SOk end))
  | e => ([], e, st)
  end.
Definition multi_read_dropping (st : multi_st) (d : nat) : list row * status * multi_st :=
  match mu_err st with
  | SOk =>
      let '(rows, s, q') := multi_loop_dropping (S (qmeas (mu_q st))) (mu_q st) d in
      (rows, s, mkMulti q' (match s with SErr _ => s | _ => SOk end))
  | e => ([], e, st)
  end.
Definition sem_multi (q : list script) : list row := concat (map rows_of q).

(* reading an upstream to its end with a fixed demand (foldReader.compute,
   bufferOutput, sortio.SortReader's ReadFull loop) *)
Fixpoint drain (fuel : nat) (up : script) (d : nat) (acc : list row) : list row * status * script :=
  match fuel with
  | O => (acc, SFuel, up)
  | S fuel' =>
      let '(rows, s, up') := up_read up d in
      match s with
      | SOk => drain fuel' up' d (acc ++ rows)
      | SEof => (acc ++ rows, SEof, up')
      | e => (acc, e, up')
      end
  end.

Definition chunk : nat := 128.   (* defaultsize.Chunk (flag default) *)

(* foldReader (slice.go:920-951) with the map-backed accumulators of accum.go:
   an association list in first-seen order stands for the Go map *)
Fixpoint acc_put (fn : foldfn) (k v : Z) (m : list (Z * Z)) : list (Z * Z) :=
  match m with
  | [] => [(k, apply_fold fn 0 v)]
  | (k', a) :: m' => if k' =? k then (k', apply_fold fn a v) :: m' else (k', a) :: acc_put fn k v m'
  end.
Definition accumulate (fn : foldfn) (rows : list row) (m : list (Z * Z)) : list (Z * Z) :=
  fold_left (fun m r => acc_put fn (nth 0 r 0) (nth 1 r 0) m) rows m.
Definition kv_row (p : Z * Z) : row := [fst p; snd p].
Record fold_st := mkFold { fo_up : script; fo_acc : option (list (Z * Z)); fo_err : status }.
Definition fold_read (fn : foldfn) (st : fold_st) (d : nat) : list row * status * fold_st :=
  match fo_err st with
  | SOk =>
      let computed :=
        match fo_acc st with
        | Some a => (Some a, SOk, fo_up st)
        | None =>
            let '(rows, s, up') := drain (S (smeas (fo_up st))) (fo_up st) chunk [] in
            match s with
            | SEof => (Some (accumulate fn rows []), SOk, up')
            | e => (None, e, up')
            end
        end in
      match computed with
      | (Some a, _, up') =>
          let rest := skipn d a in
          let s := if is_nil rest then SEof else SOk in
          (map kv_row (firstn d a), s, mkFold up' (Some rest) s)
      | (None, e, up') => ([], e, mkFold up' None e)
      end
  | e => ([], e, st)
  end.
Definition sem_fold (fn : foldfn) (l : list row) : list row := map kv_row (accumulate fn l []).

(* readerFuncSliceReader (slice.go:361-398): the user function is a script *)
Definition readerfunc_read (st : map_st) (d : nat) : list row * status * map_st :=
  match m_err st with
  | SOk =>
      let '(rows, s, up') := up_read (m_up st) d in
      let s' := match s with SErr e => SErr (wrap_user e) | x => x end in
      (rows, s', mkMap up' s')
  | e => ([], e, st)
  end.

(* writerFuncReader (slice.go:516-539); the rows handed to the write function
   are the side observation *)
Record wf_st := mkWf { wf_up : script; wf_err : status; wf_calls : nat }.
Definition wf_fails (w : wfn) (calls : nat) : option Z :=
  match w with WNever => None | WFailOn k e => if Nat.eqb k calls then Some e else None end.
Definition wf_read (w : wfn) (st : wf_st) (d : nat) : list row * status * wf_st :=
  match wf_err st with
  | SOk =>
      let '(rows, s, up') := up_read (wf_up st) d in
      let s' := match wf_fails w (wf_calls st), s with
                | Some e, SOk | Some e, SEof => SErr (wrap_user e)
                | _, _ => s
                end in
      (rows, s', mkWf up' s' (S (wf_calls st)))
  | e => ([], e, st)
  end.

(* sliceio.Scanner (sliceio/scanner.go:51-94, 131-136) *)
Record sc_st := mkSc { sc_up : script; sc_in : list row; sc_ateof : bool; sc_err : status }.
Fixpoint sc_scan_loop (fuel : nat) (st : sc_st) : option row * sc_st :=
  match sc_in st with
  | r :: rest => (Some r, mkSc (sc_up st) rest (sc_ateof st) (sc_err st))
  | [] =>
      if sc_ateof st then (None, mkSc (sc_up st) [] true SEof)
      else
        match fuel with
        | O => (None, mkSc (sc_up st) [] (sc_ateof st) SFuel)
        | S fuel' =>
            let '(rows, s, up') := up_read (sc_up st) chunk in
            match s with
            | SOk => sc_scan_loop fuel' (mkSc up' rows false SOk)
            | SEof => sc_scan_loop fuel' (mkSc up' rows true SOk)
            | e => (None, mkSc up' [] false e)
            end
        end
  end.
Definition sc_scan (st : sc_st) : option row * sc_st :=
  match sc_err st with
  | SOk => sc_scan_loop (S (S (smeas (sc_up st)))) st
  | _ => (None, st)
  end.
(* a Scan call with the wrong arity or a wrongly typed destination: 4 = type error *)
Definition sc_scan_bad (st : sc_st) : option row * sc_st :=
  match sc_err st with
  | SOk => (None, mkSc (sc_up st) (sc_in st) (sc_ateof st) (SErr 4))
  | _ => (None, st)
  end.
Definition sc_init (s : script) : sc_st := mkSc s [] false SOk.
(* Scanner.Err: EOF reads as nil; we keep SEof for "ended with a nil error" *)
Definition sc_status (ok : bool) (st : sc_st) : status := if ok then SOk else sc_err st.

(* Scanv over d destinations = d Scans *)
Fixpoint scanv (st : sc_st) (d : nat) (acc : list row) : list row * status * sc_st :=
  match d with
  | O => (acc, SOk, st)
  | S d' =>
      match sc_scan st with
      | (Some r, st') => scanv st' d' (acc ++ [r])
      | (None, st') => (acc, sc_err st', st')
      end
  end.
Definition scanv_read (st : sc_st) (d : nat) := scanv st d [].

(* scanning to the end (the callback of bigslice.Scan in the driver) *)
Fixpoint scan_all (fuel : nat) (st : sc_st) (acc : list row) : list row * sc_st :=
  match fuel with
  | O => (acc, st)
  | S fuel' =>
      match sc_scan st with
      | (Some r, st') => scan_all fuel' st' (acc ++ [r])
      | (None, st') => (acc, st')
      end
  end.
(* scanReader.Read (slice.go:1022-1028): the callback returns scanner.Err();
   nil becomes EOF.  Second component: the rows the callback saw. *)
Definition scanreader_read (up : script) : status * list row :=
  let '(seen, st) := scan_all (S (length (rows_of up) + smeas up)) (sc_init up) [] in
  (match sc_err st with SOk => SFuel | s => s end, seen).

(* exec.taskBufferReader (exec/buffer.go:53-83) *)
Notation tbuf := (list (list (list row))).
Record tb_st := mkTb { tb_q : tbuf; tb_i : nat; tb_j : nat; tb_k : nat }.
Fixpoint tb_skip (fuel : nat) (st : tb_st) : option tb_st :=
  if Nat.eqb (length (tb_q st)) (tb_i st) then None
  else if Nat.eqb (length (nth (tb_i st) (tb_q st) [])) (tb_j st) then
    match fuel with O => None | S f => tb_skip f (mkTb (tb_q st) (S (tb_i st)) 0 0) end
  else if Nat.eqb (length (nth (tb_j st) (nth (tb_i st) (tb_q st) []) [])) (tb_k st) then
    match fuel with O => None | S f => tb_skip f (mkTb (tb_q st) (tb_i st) (S (tb_j st)) 0) end
  else Some st.
Definition tb_fuel (q : tbuf) : nat := S (length q + length (concat q)).
Definition tb_read (st : tb_st) (d : nat) : list row * status * tb_st :=
  match tb_skip (tb_fuel (tb_q st)) st with
  | None => ([], SEof, st)
  | Some st1 =>
      let buf := nth (tb_j st1) (nth (tb_i st1) (tb_q st1) []) [] in
      let n := Nat.min d (length buf - tb_k st1) in
      (firstn n (skipn (tb_k st1) buf), SOk, mkTb (tb_q st1) (tb_i st1) (tb_j st1) (tb_k st1 + n))
  end.
(* taskBuffer.Reader(partition): q = b[partition:partition+1] *)
Definition tb_init (b : tbuf) (partition : nat) : tb_st :=
  mkTb (firstn 1 (skipn partition b)) 0 0 0.
Definition frames_of (s : script) : list (list row) :=
  flat_map (fun r => match r with Rows l => [l] | EofWith l => [l] | Fail _ => [] end) s.
Definition sem_tb (b : tbuf) (partition : nat) : list row := concat (nth partition b []).

(* decodingReader, buf/scratch logic only (sliceio/codec.go:144-181): the
   stream is a list of batches ([Rows]); [] is a clean end of stream and
   [Fail e] a stream that turns unreadable *)
Record dec_st := mkDec { dc_s : script; dc_buf : list row; dc_err : status }.
Definition dec_read (st : dec_st) (d : nat) : list row * status * dec_st :=
  match dc_err st with
  | SOk =>
      match dc_buf st with
      | [] =>
          match dc_s st with
          | [] => ([], SEof, mkDec [] [] SEof)
          | Fail e :: _ => ([], SErr e, mkDec (dc_s st) [] (SErr e))
          | Rows b :: r | EofWith b :: r =>
              if (length b <=? d)%nat then (b, SOk, mkDec r [] SOk)
              else (firstn d b, SOk, mkDec r (skipn d b) SOk)
          end
      | buf => (firstn d buf, SOk, mkDec (dc_s st) (skipn d buf) SOk)
      end
  | e => ([], e, st)
  end.
Fixpoint batches_of (s : script) : list row :=
  match s with
  | [] => []
  | Rows l :: r | EofWith l :: r => l ++ batches_of r
  | Fail _ :: _ => []
  end.
Fixpoint dec_fails (s : script) : bool :=
  match s with [] => false | Fail _ :: _ => true | _ :: r => dec_fails r end.

(* ClosingReader (sliceio/reader.go:239-246): pass-through; closes once on the first error *)
Record cl_st := mkCl { cl_up : script; cl_closes : nat }.
Definition closing_read (st : cl_st) (d : nat) : list row * status * cl_st :=
  let '(rows, s, up') := up_read (cl_up st) d in
  (rows, s, mkCl up' (match s with SOk => cl_closes st | _ => if Nat.eqb (cl_closes st) 0 then 1%nat else cl_closes st end)).

(* ------------------------------------------------------------------ *)
(* Sorting helpers for the merge-based readers (key = column 0; rows with
   equal keys are ordered by their remaining columns so that the result is
   canonical — the order among equal keys is not fixed by the code). *)
Fixpoint row_leb (a b : row) : bool :=
  match a, b with
  | [], _ => true
  | _ :: _, [] => false
  | x :: a', y :: b' => if x <? y then true else if y <? x then false else row_leb a' b'
  end.
Fixpoint insert_row (r : row) (l : list row) : list row :=
  match l with
  | [] => [r]
  | x :: l' => if row_leb r x then r :: l else x :: insert_row r l'
  end.
Definition sort_rows (l : list row) : list row := fold_right insert_row [] l.

(* sortio.FrameBuffer over a script (sortio/sort.go:99-119): NOTE that a read
   of zero rows without an error is turned into EOF by Fill *)
Record fbuf := mkFb { fb_rows : list row; fb_up : script }.
Definition fb_fill (up : script) : option fbuf * status :=
  let '(rows, s, up') := up_read up chunk in
  match s with
  | SErr e => (None, SErr e)
  | SFuel => (None, SFuel)
  | _ => if is_nil rows then (None, SEof) else (Some (mkFb rows (match s with SEof => [] | _ => up' end)), SOk)
  end.

(* index of the buffer with the smallest head key (heap order abstracted) *)
Fixpoint min_idx (bs : list fbuf) (i : nat) (best : option (nat * Z)) : option (nat * Z) :=
  match bs with
  | [] => best
  | b :: bs' =>
      let k := hd0 (hd [] (fb_rows b)) in
      let best' := match best with
                   | None => Some (i, k)
                   | Some (_, kb) => if k <? kb then Some (i, k) else best
                   end in
      min_idx bs' (S i) best'
  end.

Fixpoint replace_nth {A} (n : nat) (x : A) (l : list A) : list A :=
  match l, n with
  | [], _ => []
  | _ :: l', O => x :: l'
  | y :: l', S n' => y :: replace_nth n' x l'
  end.
Fixpoint remove_nth {A} (n : nat) (l : list A) : list A :=
  match l, n with
  | [], _ => []
  | _ :: l', O => l'
  | y :: l', S n' => y :: remove_nth n' l'
  end.

(* pop the smallest row; refill / drop its buffer as mergeReader.Read does *)
Definition merge_pop (bs : list fbuf) : option (row * list fbuf * status) :=
  match min_idx bs 0 None with
  | None => None
  | Some (i, _) =>
      let b := nth i bs (mkFb [] []) in
      match fb_rows b with
      | [] => None
      | r :: rest =>
          match rest with
          | _ :: _ => Some (r, replace_nth i (mkFb rest (fb_up b)) bs, SOk)
          | [] =>
              match fb_fill (fb_up b) with
              | (Some b', _) => Some (r, replace_nth i b' bs, SOk)
              | (None, SEof) => Some (r, remove_nth i bs, SOk)
              | (None, e) => Some (r, bs, e)
              end
          end
      end
  end.

(* sortio.NewMergeReader + mergeReader.Read (sortio/sort.go:161-222) *)
Record mg_st := mkMg { mg_bufs : list fbuf; mg_err : status }.
Fixpoint mg_init_bufs (ups : list script) : list fbuf * status :=
  match ups with
  | [] => ([], SOk)
  | u :: ups' =>
      match fb_fill u with
      | (Some b, _) => let '(bs, s) := mg_init_bufs ups' in (b :: bs, s)
      | (None, SEof) => mg_init_bufs ups'
      | (None, e) => ([], e)
      end
  end.
Definition mg_init (ups : list script) : mg_st :=
  let '(bs, s) := mg_init_bufs ups in mkMg bs s.
Fixpoint mg_loop (n : nat) (bs : list fbuf) (acc : list row) : list row * status * list fbuf :=
  match n with
  | O => (acc, SOk, bs)
  | S n' =>
      match merge_pop bs with
      | None => (acc, SOk, bs)
      | Some (r, bs', SOk) => mg_loop n' bs' (acc ++ [r])
      | Some (r, bs', e) => ([], e, bs')
      end
  end.
Definition mg_read (st : mg_st) (d : nat) : list row * status * mg_st :=
  match mg_err st with
  | SOk =>
      let '(rows, s, bs') := mg_loop d (mg_bufs st) [] in
      match s with
      | SOk => if is_nil rows then ([], SEof, mkMg bs' SEof) else (rows, SOk, mkMg bs' SOk)
      | e => ([], e, mkMg bs' e)
      end
  | e => ([], e, st)
  end.

(* sortio.Reduce reader (sortio/reader.go:48-133) for one key column and one
   value column: equal keys across the buffers are combined (AccSum) *)
Fixpoint rd_gather (fuel : nat) (bs : list fbuf) (key : Z) (acc : Z)
  : Z * list fbuf * status :=
  match fuel with
  | O => (acc, bs, SFuel)
  | S fuel' =>
      match min_idx bs 0 None with
      | Some (i, k) =>
          if k =? key then
            match merge_pop bs with
            | Some (r, bs', SOk) => rd_gather fuel' bs' key (acc + nth 1 r 0)
            | Some (r, bs', e) => (acc, bs', e)
            | None => (acc, bs, SOk)
            end
          else (acc, bs, SOk)
      | None => (acc, bs, SOk)
      end
  end.
Fixpoint rd_loop (n : nat) (bs : list fbuf) (acc : list row) : list row * status * list fbuf :=
  match n with
  | O => (acc, SOk, bs)
  | S n' =>
      match merge_pop bs with
      | None => (acc, SOk, bs)
      | Some (r, bs', SOk) =>
          let '(v, bs'', s) := rd_gather (S (length bs)) bs' (hd0 r) (nth 1 r 0) in
          match s with
          | SOk => rd_loop n' bs'' (acc ++ [[hd0 r; v]])
          | e => (acc, e, bs'')
          end
      | Some (r, bs', e) => (acc, e, bs')
      end
  end.
Record rd_st := mkRd { rd_ups : list script; rd_bufs : option (list fbuf); rd_err : status }.
Definition rd_read (st : rd_st) (d : nat) : list row * status * rd_st :=
  match rd_err st with
  | SOk =>
      let '(bs, s0) := match rd_bufs st with
                       | Some bs => (bs, SOk)
                       | None => mg_init_bufs (rd_ups st)
                       end in
      match s0 with
      | SOk =>
          let '(rows, s, bs') := rd_loop d bs [] in
          match s with
          | SOk => (rows, if is_nil bs' then SEof else SOk, mkRd (rd_ups st) (Some bs') SOk)
          | e => (rows, e, mkRd (rd_ups st) (Some bs') e)
          end
      | e => ([], e, mkRd (rd_ups st) None e)
      end
  | e => ([], e, st)
  end.

(* ------------------------------------------------------------------ *)
(* cogroupReader (cogroup.go:122-270), one key column and one value column
   per dependency.  The first Read sorts every dependency completely
   (sortio.SortReader reads it to its end); then groups are assembled from the
   sorted streams.  An output row is flattened as
     key :: values of dep 0 ++ [-1] ++ values of dep 1 ++ [-1] ...           *)
Fixpoint drain_all (ups : list script) : list (list row) * status :=
  match ups with
  | [] => ([], SOk)
  | u :: ups' =>
      let '(rows, s, _) := drain (S (smeas u)) u (2 * chunk) [] in
      match s with
      | SEof => let '(rest, s') := drain_all ups' in (sort_rows rows :: rest, s')
      | e => ([], e)
      end
  end.
Definition min_key (deps : list (list row)) : option Z :=
  fold_left (fun best l => match l with
                           | [] => best
                           | r :: _ => match best with
                                       | None => Some (hd0 r)
                                       | Some k => if hd0 r <? k then Some (hd0 r) else best
                                       end
                           end) deps None.
Fixpoint take_key (k : Z) (l : list row) : list row * list row :=
  match l with
  | [] => ([], [])
  | r :: l' => if hd0 r =? k then let '(t, rest) := take_key k l' in (r :: t, rest) else ([], l)
  end.
Fixpoint cg_loop (n : nat) (deps : list (list row)) (acc : list row) : list row * list (list row) :=
  match n with
  | O => (acc, deps)
  | S n' =>
      match min_key deps with
      | None => (acc, deps)
      | Some k =>
          let parts := map (take_key k) deps in
          let out := k :: flat_map (fun p => map (fun r => nth 1 r 0) (fst p) ++ [-1]) parts in
          cg_loop n' (map snd parts) (acc ++ [out])
      end
  end.
Record cg_st := mkCg { cg_ups : list script; cg_deps : option (list (list row)); cg_err : status }.
Definition cg_read (st : cg_st) (d : nat) : list row * status * cg_st :=
  match cg_err st with
  | SOk =>
      let '(deps, s0) := match cg_deps st with
                         | Some deps => (deps, SOk)
                         | None => drain_all (cg_ups st)
                         end in
      match s0 with
      | SOk =>
          let '(rows, deps') := cg_loop d deps [] in
          let s := if is_nil rows then SEof else SOk in
          (rows, s, mkCg (cg_ups st) (Some deps') s)
      | e => ([], e, mkCg (cg_ups st) None e)
      end
  | e => ([], e, st)
  end.
Definition sem_cogroup (ins : list script) : list row :=
  let deps := map (fun u => sort_rows (rows_of u)) ins in
  fst (cg_loop (length (concat deps)) deps []).

(* bufferOutput (exec/local.go:186-241) for an unpartitioned task: the reader
   is read with chunk-sized frames to its end; every non-empty frame is kept
   as it was delivered *)
Fixpoint bufout {S : Type} (fuel : nat) (read : S -> nat -> list row * status * S) (st : S)
         (frames : list (list row)) : option (list (list row)) * status :=
  match fuel with
  | O => (None, SFuel)
  | S fuel' =>
      let '(o, s, st') := read st chunk in
      let frames' := if is_nil o then frames else frames ++ [o] in
      match s with
      | SOk => bufout fuel' read st' frames'
      | SEof => (Some frames', SOk)
      | e => (None, e)
      end
  end.
(* ... and its task buffer read back through taskBufferReader *)
Definition bo_read (st : tb_st + status) (d : nat) : list row * status * (tb_st + status) :=
  match st with
  | inl t => let '(o, s, t') := tb_read t d in (o, s, inl t')
  | inr e => ([], e, inr e)
  end.

(* run, also returning the last state *)
Fixpoint run_st {S : Type} (read : S -> nat -> list row * status * S) (st : S) (ds : list nat)
  : list (list row * status) * S :=
  match ds with
  | [] => ([], st)
  | d :: ds' =>
      let '(o, s, st') := read st d in
      match s with
      | SOk => let '(r, fin) := run_st read st' ds' in ((o, s) :: r, fin)
      | _ => ([(o, s)], st')
      end
  end.

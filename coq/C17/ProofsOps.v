(* C17 — proofs for the readers without internal buffering:
   mapReader, readerFuncSliceReader, writerFuncReader, ClosingReader,
   headReader, constReader, frameReader, filterReader. *)
From Coq Require Import List ZArith Bool Arith Lia.
Import ListNotations.
Require Import BS.C17.Model BS.C17.Lemmas.

(* ------------------------------------------------------------------ *)
(* mapReader *)
Definition map_inv (st : map_st) : Prop := m_err st = SOk.

Lemma map_step f :
  step_ok map_st (map_read f) map_inv (fun st => sem_map f (rows_of (m_up st)))
          (fun st => fails (m_up st)) (fun st => fails (m_up st)) (fun st => smeas (m_up st)).
Proof.
  intros st d o s st' HI Hd H. unfold map_read in H. rewrite HI in H.
  destruct (up_read (m_up st) d) as [[rows s0] up'] eqn:E. inversion H; subst; clear H.
  destruct (up_read_spec _ _ _ _ _ Hd E) as [Hl Hs].
  split; [rewrite map_length; exact Hl|].
  destruct s; simpl.
  - destruct Hs as (HR & HF & HM). unfold sem_map. rewrite HR, map_app. repeat split; auto.
  - destruct Hs as (HR & HF & _). unfold sem_map. rewrite HR. auto.
  - destruct Hs as (-> & HF & _). split; [apply prefix_nil|auto].
  - auto.
Qed.

Theorem map_delivers f s ds :
  demands_ok ds ->
  delivers (run (map_read f) (mkMap s SOk) ds) ds (sem_map f (rows_of s)) (fails s).
Proof. intro H. exact (generic_delivers _ _ _ _ _ _ _ (map_step f) ds (mkMap s SOk) eq_refl H). Qed.

Theorem map_progress f s ds :
  demands_ok ds -> smeas s < length ds -> final_of (run (map_read f) (mkMap s SOk) ds) <> SOk.
Proof. intros H L. exact (generic_progress _ _ _ _ _ _ _ (map_step f) ds (mkMap s SOk) eq_refl H L). Qed.

Theorem map_total f s ds :
  demands_ok ds -> smeas s < length ds -> fails s = false ->
  outs_of (run (map_read f) (mkMap s SOk) ds) = sem_map f (rows_of s) /\
  final_of (run (map_read f) (mkMap s SOk) ds) = SEof.
Proof. intros H L F. exact (generic_total _ _ _ _ _ _ _ (map_step f) ds (mkMap s SOk) eq_refl H L F). Qed.

Theorem map_chunking_irrelevant f s1 s2 ds1 ds2 :
  rows_of s1 = rows_of s2 -> demands_ok ds1 -> demands_ok ds2 ->
  final_of (run (map_read f) (mkMap s1 SOk) ds1) = SEof ->
  final_of (run (map_read f) (mkMap s2 SOk) ds2) = SEof ->
  outs_of (run (map_read f) (mkMap s1 SOk) ds1) = outs_of (run (map_read f) (mkMap s2 SOk) ds2).
Proof.
  intros HR H1 H2. eapply delivers_chunking.
  - apply map_delivers; exact H1.
  - rewrite HR. apply map_delivers; exact H2.
Qed.

(* ------------------------------------------------------------------ *)
(* readerFuncSliceReader: the user function plays the script *)
Lemma readerfunc_step :
  step_ok map_st readerfunc_read map_inv (fun st => rows_of (m_up st))
          (fun st => fails (m_up st)) (fun st => fails (m_up st)) (fun st => smeas (m_up st)).
Proof.
  intros st d o s st' HI Hd H. unfold readerfunc_read in H. rewrite HI in H.
  destruct (up_read (m_up st) d) as [[rows s0] up'] eqn:E.
  destruct (up_read_spec _ _ _ _ _ Hd E) as [Hl Hs].
  destruct s0; inversion H; subst; clear H; (split; [exact Hl|]); simpl.
  - destruct Hs as (HR & HF & HM). repeat split; auto.
  - destruct Hs as (HR & HF & _). auto.
  - destruct Hs as (-> & HF & _). split; [apply prefix_nil|auto].
  - auto.
Qed.

Theorem readerfunc_delivers s ds :
  demands_ok ds -> delivers (run readerfunc_read (mkMap s SOk) ds) ds (rows_of s) (fails s).
Proof. intro H. exact (generic_delivers _ _ _ _ _ _ _ readerfunc_step ds (mkMap s SOk) eq_refl H). Qed.
Theorem readerfunc_progress s ds :
  demands_ok ds -> smeas s < length ds -> final_of (run readerfunc_read (mkMap s SOk) ds) <> SOk.
Proof. intros H L. exact (generic_progress _ _ _ _ _ _ _ readerfunc_step ds (mkMap s SOk) eq_refl H L). Qed.
Theorem readerfunc_chunking_irrelevant s1 s2 ds1 ds2 :
  rows_of s1 = rows_of s2 -> demands_ok ds1 -> demands_ok ds2 ->
  final_of (run readerfunc_read (mkMap s1 SOk) ds1) = SEof ->
  final_of (run readerfunc_read (mkMap s2 SOk) ds2) = SEof ->
  outs_of (run readerfunc_read (mkMap s1 SOk) ds1) = outs_of (run readerfunc_read (mkMap s2 SOk) ds2).
Proof.
  intros HR H1 H2. eapply delivers_chunking.
  - apply readerfunc_delivers; exact H1.
  - rewrite HR. apply readerfunc_delivers; exact H2.
Qed.
(* application errors surface as fatal unless marked temporary *)
Theorem readerfunc_error_class s ds e :
  demands_ok ds -> final_of (run readerfunc_read (mkMap s SOk) ds) = SErr e -> e = 2%Z \/ e = 3%Z.
Proof.
  revert s. induction ds as [|d ds IH]; intros s Hds Hf; [discriminate|].
  inversion Hds; subst. simpl in Hf. unfold readerfunc_read at 1 in Hf. simpl in Hf.
  destruct (up_read s d) as [[rows s0] up'] eqn:E.
  destruct (up_read_spec _ _ _ _ _ H1 E) as [_ Hs].
  destruct s0; simpl in Hf.
  - destruct (run readerfunc_read (mkMap up' SOk) ds) eqn:Er.
    + discriminate.
    + rewrite final_cons in Hf by discriminate. rewrite <- Er in Hf. eapply IH; eauto.
  - discriminate.
  - unfold final_of in Hf; simpl in Hf. inversion Hf. unfold wrap_user.
    destruct (e0 =? 2)%Z; auto.
  - destruct Hs.
Qed.

(* ------------------------------------------------------------------ *)
(* writerFuncReader *)
Definition wf_inv (st : wf_st) : Prop := wf_err st = SOk.
Definition wf_may (w : wfn) : bool := match w with WNever => false | _ => true end.

Lemma wf_step w :
  step_ok wf_st (wf_read w) wf_inv (fun st => rows_of (wf_up st))
          (fun st => fails (wf_up st)) (fun st => fails (wf_up st) || wf_may w)
          (fun st => smeas (wf_up st)).
Proof.
  intros st d o s st' HI Hd H. unfold wf_read in H. rewrite HI in H.
  destruct (up_read (wf_up st) d) as [[rows s0] up'] eqn:E.
  destruct (up_read_spec _ _ _ _ _ Hd E) as [Hl Hs].
  assert (Hw : wf_fails w (wf_calls st) <> None -> wf_may w = true).
  { destruct w; simpl; congruence. }
  destruct (wf_fails w (wf_calls st)) as [e|] eqn:Ew; destruct s0; inversion H; subst; clear H;
    (split; [exact Hl|]); simpl.
  - destruct Hs as (HR & HF & HM). split; [rewrite HR; apply prefix_app_r|].
    rewrite Hw by discriminate. apply orb_true_r.
  - destruct Hs as (HR & HF & _). split; [rewrite HR; apply prefix_refl|].
    rewrite Hw by discriminate. apply orb_true_r.
  - destruct Hs as (-> & HF & _). split; [apply prefix_nil|]. rewrite HF. reflexivity.
  - auto.
  - destruct Hs as (HR & HF & HM). repeat split; auto. rewrite HF. reflexivity.
  - destruct Hs as (HR & HF & _). auto.
  - destruct Hs as (-> & HF & _). split; [apply prefix_nil|]. rewrite HF. reflexivity.
  - auto.
Qed.

(* with a write function that may fail: same rows, in order; EOF only after all of them *)
Theorem wf_delivers w s ds :
  demands_ok ds ->
  delivers_gen (run (wf_read w) (mkWf s SOk 0) ds) ds (rows_of s) (fails s) (fails s || wf_may w).
Proof. intro H. exact (generic_delivers _ _ _ _ _ _ _ (wf_step w) ds (mkWf s SOk 0) eq_refl H). Qed.
(* WriterFunc with a write function that never fails is functionally equivalent to its input *)
Theorem wf_never_delivers s ds :
  demands_ok ds -> delivers (run (wf_read WNever) (mkWf s SOk 0) ds) ds (rows_of s) (fails s).
Proof. intro H. pose proof (wf_delivers WNever s ds H) as D. simpl in D. rewrite orb_false_r in D. exact D. Qed.
Theorem wf_progress w s ds :
  demands_ok ds -> smeas s < length ds -> final_of (run (wf_read w) (mkWf s SOk 0) ds) <> SOk.
Proof. intros H L. exact (generic_progress _ _ _ _ _ _ _ (wf_step w) ds (mkWf s SOk 0) eq_refl H L). Qed.
Theorem wf_chunking_irrelevant w1 w2 s1 s2 ds1 ds2 :
  rows_of s1 = rows_of s2 -> demands_ok ds1 -> demands_ok ds2 ->
  final_of (run (wf_read w1) (mkWf s1 SOk 0) ds1) = SEof ->
  final_of (run (wf_read w2) (mkWf s2 SOk 0) ds2) = SEof ->
  outs_of (run (wf_read w1) (mkWf s1 SOk 0) ds1) = outs_of (run (wf_read w2) (mkWf s2 SOk 0) ds2).
Proof.
  intros HR H1 H2 F1 F2.
  destruct (wf_delivers w1 s1 ds1 H1) as (_ & _ & E1 & _).
  destruct (wf_delivers w2 s2 ds2 H2) as (_ & _ & E2 & _).
  rewrite E1, E2; auto.
Qed.

(* ------------------------------------------------------------------ *)
(* ClosingReader: transparent; the wrapped reader is closed exactly once, on
   the first status that is not nil *)
Lemma closing_step :
  step_ok cl_st closing_read (fun _ => True) (fun st => rows_of (cl_up st))
          (fun st => fails (cl_up st)) (fun st => fails (cl_up st)) (fun st => smeas (cl_up st)).
Proof.
  intros st d o s st' _ Hd H. unfold closing_read in H.
  destruct (up_read (cl_up st) d) as [[rows s0] up'] eqn:E. inversion H; subst; clear H.
  destruct (up_read_spec _ _ _ _ _ Hd E) as [Hl Hs].
  split; [exact Hl|]. destruct s; simpl.
  - destruct Hs as (HR & HF & HM). repeat split; auto.
  - destruct Hs as (HR & HF & _). auto.
  - destruct Hs as (-> & HF & _). split; [apply prefix_nil|auto].
  - auto.
Qed.
Theorem closing_delivers s ds :
  demands_ok ds -> delivers (run closing_read (mkCl s 0) ds) ds (rows_of s) (fails s).
Proof. intro H. exact (generic_delivers _ _ _ _ _ _ _ closing_step ds (mkCl s 0) I H). Qed.
Theorem closing_progress s ds :
  demands_ok ds -> smeas s < length ds -> final_of (run closing_read (mkCl s 0) ds) <> SOk.
Proof. intros H L. exact (generic_progress _ _ _ _ _ _ _ closing_step ds (mkCl s 0) I H L). Qed.
Theorem closing_closes_once s ds :
  let '(r, fin) := run_st closing_read (mkCl s 0) ds in
  cl_closes fin = match final_of r with SOk => 0 | _ => 1 end.
Proof.
  assert (G : forall ds s, let '(r, fin) := run_st closing_read (mkCl s 0) ds in
              cl_closes fin = match final_of r with SOk => 0 | _ => 1 end).
  { clear. induction ds as [|d ds IH]; intro s; simpl; [reflexivity|].
    unfold closing_read at 1. simpl.
    destruct (up_read s d) as [[rows s0] up'] eqn:E.
    destruct s0; simpl; try reflexivity.
    specialize (IH up'). destruct (run_st closing_read (mkCl up' 0) ds) as [r fin] eqn:Er.
    destruct r as [|p r']; [exact IH|]. rewrite final_cons by discriminate. exact IH. }
  apply G.
Qed.

(* ------------------------------------------------------------------ *)
(* headReader *)
Local Open Scope Z_scope.
Definition head_failing (st : head_st) : bool :=
  fails (h_up st) && (Z.of_nat (length (rows_of (h_up st))) <? h_n st).

Lemma firstn_app_le {A} (n : nat) (a b : list A) :
  (n <= length a)%nat -> firstn n (a ++ b) = firstn n a.
Proof. intro H. rewrite firstn_app. replace (n - length a)%nat with 0%nat by lia. simpl. apply app_nil_r. Qed.

Lemma head_demand_spec st d :
  0 < h_n st -> (1 <= d)%nat ->
  (1 <= head_demand st d)%nat /\ (head_demand st d <= d)%nat /\ Z.of_nat (head_demand st d) <= h_n st.
Proof.
  intros Hn Hd. unfold head_demand. destruct (Z.ltb_spec (h_n st) (Z.of_nat d)); lia.
Qed.

Lemma head_step :
  step_ok head_st head_read (fun _ => True) (fun st => sem_head (h_n st) (rows_of (h_up st)))
          head_failing head_failing (fun st => smeas (h_up st)).
Proof.
  intros st d o s st' _ Hd H. unfold head_read in H.
  destruct (Z.leb_spec (h_n st) 0) as [Hn|Hn].
  - injection H as Ho Hs Hst; subst o s st'. simpl. split; [lia|].
    unfold sem_head, head_failing. replace (Z.to_nat (h_n st)) with 0%nat by lia. simpl. split; auto.
    apply andb_false_iff. right. apply Z.ltb_ge. lia.
  - destruct (head_demand_spec st d Hn Hd) as (Hd1 & Hd2 & Hd3).
    destruct (up_read (h_up st) (head_demand st d)) as [[rows s0] up'] eqn:E. inversion H; subst; clear H.
    destruct (up_read_spec _ _ _ _ _ Hd1 E) as [Hl Hs].
    set (n := h_n st) in *. set (k := Z.of_nat (length o)).
    assert (Hk : k <= n) by (unfold k; lia).
    split; [lia|].
    unfold sem_head, head_failing. destruct s; simpl.
    + destruct Hs as (HR & HF & HM). rewrite HR, HF, app_length.
      repeat split; auto.
      * rewrite firstn_app. rewrite firstn_all2 by (unfold k in *; lia). f_equal. f_equal. unfold k. lia.
      * f_equal. unfold n, k.
        destruct (Z.ltb_spec (Z.of_nat (length (rows_of up'))) (h_n st - Z.of_nat (length o)));
          destruct (Z.ltb_spec (Z.of_nat (length o + length (rows_of up'))) (h_n st)); auto; lia.
      * f_equal. unfold n, k.
        destruct (Z.ltb_spec (Z.of_nat (length (rows_of up'))) (h_n st - Z.of_nat (length o)));
          destruct (Z.ltb_spec (Z.of_nat (length o + length (rows_of up'))) (h_n st)); auto; lia.
    + destruct Hs as (HR & HF & _). rewrite HR, HF. split; auto.
      apply firstn_all2. unfold k in *. lia.
    + destruct Hs as (-> & HF & _). simpl. split; [apply prefix_nil|].
      (* an upstream failure met while rows are still wanted *)
      rewrite HF. simpl.
      destruct (h_up st) as [|[l|l|e0] r]; simpl in E.
      * discriminate.
      * destruct (length l <=? head_demand st d)%nat; discriminate.
      * destruct (length l <=? head_demand st d)%nat; discriminate.
      * simpl. apply Z.ltb_lt. lia.
    + auto.
Qed.
Local Close Scope Z_scope.

Theorem head_delivers n s ds :
  demands_ok ds ->
  delivers (run head_read (mkHead s n) ds) ds (sem_head n (rows_of s))
           (fails s && (Z.of_nat (length (rows_of s)) <? n)%Z).
Proof. intro H. exact (generic_delivers _ _ _ _ _ _ _ head_step ds (mkHead s n) I H). Qed.
Theorem head_progress n s ds :
  demands_ok ds -> smeas s < length ds -> final_of (run head_read (mkHead s n) ds) <> SOk.
Proof. intros H L. exact (generic_progress _ _ _ _ _ _ _ head_step ds (mkHead s n) I H L). Qed.
Theorem head_chunking_irrelevant n s1 s2 ds1 ds2 :
  rows_of s1 = rows_of s2 -> demands_ok ds1 -> demands_ok ds2 ->
  final_of (run head_read (mkHead s1 n) ds1) = SEof ->
  final_of (run head_read (mkHead s2 n) ds2) = SEof ->
  outs_of (run head_read (mkHead s1 n) ds1) = outs_of (run head_read (mkHead s2 n) ds2).
Proof.
  intros HR H1 H2. eapply delivers_chunking.
  - apply head_delivers; exact H1.
  - rewrite HR. apply head_delivers; exact H2.
Qed.
(* "writes only those rows": the rows that land in the destination are exactly
   the rows reported (the upstream read is cut to the rows still wanted) *)
Theorem head_writes_only_prefix st d :
  head_written st d = fst (fst (head_read st d)).
Proof.
  unfold head_written, head_read. destruct (h_n st <=? 0)%Z; [reflexivity|].
  destruct (up_read (h_up st) (head_demand st d)) as [[rows s] up']. reflexivity.
Qed.
(* the upstream is never asked for more than the rows still wanted *)
Theorem head_demand_bounded st d :
  (0 < h_n st)%Z -> (1 <= d)%nat -> (Z.of_nat (head_demand st d) <= h_n st)%Z /\ (head_demand st d <= d)%nat.
Proof. intros Hn Hd. destruct (head_demand_spec st d Hn Hd) as (_ & A & B). split; assumption. Qed.
(* witness of the defect repaired by commit b23d5f2: the old reader wrote
   destination rows past the count it reported *)
Theorem head_read_overwriting_wrote_past_count :
  exists st d, length (fst (fst (head_read_overwriting st d))) < length (head_written_overwriting st d).
Proof. exists (mkHead [Rows [[1%Z]; [2%Z]; [3%Z]]] 1%Z), 3. vm_compute. lia. Qed.

(* ------------------------------------------------------------------ *)
(* constReader and frameReader *)
Lemma const_step :
  step_ok (list row) const_read (fun _ => True) (fun st => st) (fun _ => false) (fun _ => false)
          (fun st => length st).
Proof.
  intros st d o s st' _ Hd H. unfold const_read in H. inversion H; subst; clear H.
  split; [rewrite firstn_length; lia|].
  destruct st as [|x st]; simpl.
  - rewrite firstn_nil. auto.
  - rewrite firstn_skipn. repeat split; auto. rewrite skipn_length. cbn [length]. lia.
Qed.
Theorem const_delivers data nshard shard ds :
  demands_ok ds ->
  delivers (run const_read (const_init data nshard shard) ds) ds (const_init data nshard shard) false.
Proof. intro H. exact (generic_delivers _ _ _ _ _ _ _ const_step ds _ I H). Qed.
Theorem const_progress data nshard shard ds :
  demands_ok ds -> length (const_init data nshard shard) < length ds ->
  final_of (run const_read (const_init data nshard shard) ds) <> SOk.
Proof. intros H L. exact (generic_progress _ _ _ _ _ _ _ const_step ds _ I H L). Qed.
Theorem const_total data nshard shard ds :
  demands_ok ds -> length (const_init data nshard shard) < length ds ->
  outs_of (run const_read (const_init data nshard shard) ds) = const_init data nshard shard.
Proof. intros H L. exact (proj1 (generic_total _ _ _ _ _ _ _ const_step ds _ I H L eq_refl)). Qed.

Lemma frame_step :
  step_ok (list row) frame_read (fun _ => True) (fun st => st) (fun _ => false) (fun _ => false)
          (fun st => length st).
Proof.
  intros st d o s st' _ Hd H. unfold frame_read in H. inversion H; subst; clear H.
  split; [rewrite firstn_length; lia|].
  destruct (skipn d st) as [|x r] eqn:Es; simpl.
  - split; auto. rewrite <- (firstn_skipn d st) at 1. rewrite Es. apply app_nil_r.
  - rewrite <- Es, firstn_skipn. repeat split; auto.
    assert (Hlen : length (skipn d st) = Datatypes.S (length r)) by (rewrite Es; reflexivity).
    rewrite skipn_length in Hlen. lia.
Qed.
Theorem frame_delivers rows ds :
  demands_ok ds -> delivers (run frame_read rows ds) ds rows false.
Proof. intro H. exact (generic_delivers _ _ _ _ _ _ _ frame_step ds _ I H). Qed.
Theorem frame_progress rows ds :
  demands_ok ds -> length rows < length ds -> final_of (run frame_read rows ds) <> SOk.
Proof. intros H L. exact (generic_progress _ _ _ _ _ _ _ frame_step ds _ I H L). Qed.
Theorem frame_total rows ds :
  demands_ok ds -> length rows < length ds -> outs_of (run frame_read rows ds) = rows.
Proof. intros H L. exact (proj1 (generic_total _ _ _ _ _ _ _ frame_step ds _ I H L eq_refl)). Qed.

(* ------------------------------------------------------------------ *)
(* filterReader *)
Lemma filter_length_le {A} (f : A -> bool) (l : list A) : length (filter f l) <= length l.
Proof. induction l as [|x l IH]; simpl; [lia|]. destruct (f x); simpl; lia. Qed.

Lemma filter_loop_S fuel p up acc need :
  need <> 0 ->
  filter_loop (Datatypes.S fuel) p up acc need =
  let '(rows, s, up') := up_read up need in
  let kept := filter (apply_pred p) rows in
  match s with
  | SOk => filter_loop fuel p up' (acc ++ kept) (need - length kept)
  | _ => (acc ++ kept, s, up')
  end.
Proof. destruct need; [congruence|reflexivity]. Qed.

Lemma filter_loop_spec p : forall fuel up acc need o s up',
  smeas up < fuel ->
  filter_loop fuel p up acc need = (o, s, up') ->
  exists k, o = acc ++ k /\ length k <= need /\
    match s with
    | SOk => sem_filter p (rows_of up) = k ++ sem_filter p (rows_of up') /\ fails up' = fails up /\
             length k = need /\ smeas up' <= smeas up /\ (1 <= need -> smeas up' < smeas up)
    | SEof => sem_filter p (rows_of up) = k /\ fails up = false
    | SErr _ => prefix k (sem_filter p (rows_of up)) /\ fails up = true
    | SFuel => False
    end.
Proof.
  induction fuel as [|fuel IH]; intros up acc need o s up' Hf H; [lia|].
  destruct need as [|need'].
  - simpl in H. inversion H; subst. exists []. rewrite app_nil_r. simpl. repeat split; auto; lia.
  - remember (Datatypes.S need') as need. rewrite filter_loop_S in H by lia.
    destruct (up_read up need) as [[rows s0] up1] eqn:E.
    assert (Hd : 1 <= need) by lia.
    destruct (up_read_spec _ _ _ _ _ Hd E) as [Hl Hs].
    set (kept := filter (apply_pred p) rows) in *.
    assert (Hk : length kept <= need).
    { unfold kept. pose proof (filter_length_le (apply_pred p) rows). lia. }
    destruct s0.
    + destruct Hs as (HR & HF & HM).
      apply IH in H; [|lia]. destruct H as (k & -> & Hkl & Hs).
      exists (kept ++ k). rewrite app_assoc. split; [reflexivity|].
      split; [rewrite app_length; lia|].
      unfold sem_filter in *. destruct s.
      * destruct Hs as (HS & HF' & HL & HM1 & HM2). rewrite HR, filter_app. fold kept.
        rewrite HS, app_assoc. repeat split; auto; try congruence; try lia.
        rewrite app_length. lia.
      * destruct Hs as (HS & HF'). rewrite HR, filter_app. fold kept. rewrite HS. split; congruence.
      * destruct Hs as (HP & HF'). rewrite HR, filter_app. fold kept. split; [apply prefix_app; exact HP|congruence].
      * exact Hs.
    + inversion H; subst. destruct Hs as (HR & HF & _).
      exists kept. repeat split; auto. unfold sem_filter. rewrite HR. reflexivity.
    + inversion H; subst. destruct Hs as (-> & HF & _).
      exists []. simpl. repeat split; auto; try lia. apply prefix_nil.
    + destruct Hs.
Qed.

Definition filter_inv (st : filter_st) : Prop := f_err st = SOk.
Lemma filter_step p :
  step_ok filter_st (filter_read p) filter_inv (fun st => sem_filter p (rows_of (f_up st)))
          (fun st => fails (f_up st)) (fun st => fails (f_up st)) (fun st => smeas (f_up st)).
Proof.
  intros st d o s st' HI Hd H. unfold filter_read in H. rewrite HI in H.
  destruct (filter_loop (Datatypes.S (smeas (f_up st))) p (f_up st) [] d) as [[rows s0] up'] eqn:E.
  inversion H; subst; clear H.
  apply filter_loop_spec in E; [|lia]. destruct E as (k & -> & Hk & Hs). simpl.
  split; [exact Hk|]. destruct s; simpl.
  - destruct Hs as (HS & HF & HL & HM1 & HM2). repeat split; auto.
  - exact Hs.
  - exact Hs.
  - exact Hs.
Qed.

Theorem filter_delivers p s ds :
  demands_ok ds ->
  delivers (run (filter_read p) (mkFilter s SOk) ds) ds (sem_filter p (rows_of s)) (fails s).
Proof. intro H. exact (generic_delivers _ _ _ _ _ _ _ (filter_step p) ds (mkFilter s SOk) eq_refl H). Qed.
(* no livelock on empty upstream reads *)
Theorem filter_progress p s ds :
  demands_ok ds -> smeas s < length ds -> final_of (run (filter_read p) (mkFilter s SOk) ds) <> SOk.
Proof. intros H L. exact (generic_progress _ _ _ _ _ _ _ (filter_step p) ds (mkFilter s SOk) eq_refl H L). Qed.
Theorem filter_total p s ds :
  demands_ok ds -> smeas s < length ds -> fails s = false ->
  outs_of (run (filter_read p) (mkFilter s SOk) ds) = sem_filter p (rows_of s) /\
  final_of (run (filter_read p) (mkFilter s SOk) ds) = SEof.
Proof. intros H L F. exact (generic_total _ _ _ _ _ _ _ (filter_step p) ds (mkFilter s SOk) eq_refl H L F). Qed.
Theorem filter_chunking_irrelevant p s1 s2 ds1 ds2 :
  rows_of s1 = rows_of s2 -> demands_ok ds1 -> demands_ok ds2 ->
  final_of (run (filter_read p) (mkFilter s1 SOk) ds1) = SEof ->
  final_of (run (filter_read p) (mkFilter s2 SOk) ds2) = SEof ->
  outs_of (run (filter_read p) (mkFilter s1 SOk) ds1) = outs_of (run (filter_read p) (mkFilter s2 SOk) ds2).
Proof.
  intros HR H1 H2. eapply delivers_chunking.
  - apply filter_delivers; exact H1.
  - rewrite HR. apply filter_delivers; exact H2.
Qed.

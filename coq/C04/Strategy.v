(* C04 — an operational, strategy-parameterised execution model of slice
   programs, over the SAME program AST, row representation and values as the
   reference semantics BS.C01.Sem.  Executable; NO proofs in this file (the
   proofs that every well-formed strategy refines [Sem.eval_node]/[Sem.ref] are
   in C04/StrategyProofs.v).

   What a strategy fixes (everything the executor configuration can change in
   the data flow of exec/compile.go, exec/local.go, exec/bigmachine.go,
   exec/combiner.go, sortio/reader.go, slice.go, cogroup.go, reduce.go):

   chunk       defaultChunksize: every reader hands over frames of at most
               [chunk] rows; the row-wise operators (mapReader, filterReader,
               flatmapReader, headReader, foldReader.compute) and the
               partitioning loops of bufferOutput / worker.Run work frame by frame.
   order       the order in which the consumer shard p of a shuffle reads its
               producers (local: 0..m-1; bigmachine: rand.Shuffle when
               DoShuffleReaders).  [corder] is the same for the d-th dependency
               of a Cogroup.
   precombine, producer-side combining of every partition of a Reduce dependency
   pflush      (bigmachine worker.runCombine): the rows of a partition first meet
               the task's small combining buffer (partitionCombiner), which is
               flushed - as combined rows - into a combiner every [pflush] rows;
               without machine combiners that combiner belongs to the task and
               its output is the stream the consumer reads.
   gcombine,   machine combiners (Session option MachineCombiners): the
   groups,     producers are grouped by the machine they ran on; on every
   gorder      machine the rows of partition p of all its producers go into one
               shared combiner; the consumer reads one stream per machine, in
               the (Go map iteration) order [gorder].
               The local executor is the instance gcombine = precombine = false:
               localExecutor.depReaders combines, in-line, the concatenation of
               partition p of all producers and hands one stream to the Reduce.
   cspill      a combiner (exec/combiner.go) spills its hash table as a sorted
               run whenever it has grown to its target size and finally merges
               the spilled runs with the sorted in-memory rest (sortio.Reduce):
               the model cuts the input of a combiner into consecutive segments
               of [cspill] rows, combines and sorts every segment and merges the
               runs.

   Abstractions (what the model does NOT distinguish):
   - one combined, sorted run of a combiner (hash table, Compact, sort.Sort) is
     Sem.reduce_shard of its rows; the real table spills when it holds
     100*chunk distinct keys (checked once per frame), the model every
     [cspill] rows; the per-task partitionCombiner of worker.runCombine is
     flushed when it is more than half full (its capacity grows), the model
     flushes it every [pflush] rows, as sorted rather than hash-ordered rows;
   - tasks of one machine write concurrently into the shared machine combiner:
     the model concatenates their partitions in the order of the group list;
   - the merging reader combines rows of equal key in heap pop order: the model
     in stream order;
   - Cogroup: the consumer-side sort and merge of the sorted dependencies is
     Sem.cogroup_shard applied to the sorted dependencies (only the order in
     which every dependency reads its producers, and the chunk size, vary);
   - scheduling (parallelism, max load, Procs/Exclusive pragmas), task loss and
     re-execution, Result reuse across invocations, Materialize (it only moves
     frame boundaries), the cache, and failures are not part of the model. *)
From Coq Require Import List ZArith NArith Bool Lia.
Import ListNotations.
Require Import BS.Common.Util BS.C01.Sem.

Record strategy := mkStrategy {
  chunk : nat;
  order : nat -> nat -> list nat;            (* node k, consumer shard p *)
  corder : nat -> nat -> nat -> list nat;    (* cogroup node k, dependency d, consumer shard p *)
  precombine : nat -> bool;                  (* node k *)
  gcombine : nat -> bool;                    (* node k: machine combiners in use *)
  groups : nat -> list (list nat);           (* node k: producers per machine *)
  gorder : nat -> nat -> list nat;           (* node k, consumer shard p: order of the machines *)
  cspill : nat;                              (* rows per combiner run *)
  pflush : nat                               (* rows between two flushes of a task's combining buffer *)
}.

(* ---------------- frames: a shard is processed in chunks of n rows ---------------- *)

Fixpoint chunks_fuel {A} (fuel n : nat) (l : list A) : list (list A) :=
  match fuel with
  | O => []
  | S f => match l with
           | [] => []
           | _ :: _ => firstn n l :: chunks_fuel f n (skipn n l)
           end
  end.
Definition chunks {A} (n : nat) (l : list A) : list (list A) := chunks_fuel (length l) n l.

(* a row-wise reader: every frame is transformed on its own, the outputs follow
   each other *)
Definition chunked {A B} (n : nat) (f : list A -> list B) (l : list A) : list B :=
  concat (map f (chunks n l)).

(* slice.go headReader.Read: asks its input for min(n, frame) rows until n rows
   were delivered *)
Fixpoint head_frames {A} (n : nat) (frames : list (list A)) : list A :=
  match frames with
  | [] => []
  | fr :: rest =>
      match n with
      | O => []
      | S _ => firstn n fr ++ head_frames (n - length (firstn n fr)) rest
      end
  end.
Definition head_exec {A} (ch : nat) (n : Z) (l : list A) : list A :=
  if Z.leb n 0 then [] else head_frames (Z.to_nat n) (chunks ch l).

(* ---------------- shuffles ---------------- *)

(* producer side (local.go bufferOutput, bigmachine.go worker.Run): every frame
   is partitioned; partition p keeps the rows in arrival order *)
Definition partition_out (ch : nat) (f : list (list Z) -> nat) (n : nat) (sh : list (list (list Z)))
  : list (list (list (list Z))) :=
  map (fun p => chunked ch (filter (fun r => Nat.eqb (f r) p)) sh) (seq 0 n).

(* partition p written by producer j *)
Definition part_of (parts : list (list (list (list (list Z))))) (j p : nat) : list (list (list Z)) :=
  nth p (nth j parts []) [].

(* consumer side without combiner (multiReader): partition p of the producers,
   one after the other in the order [ord p] *)
Definition exec_shuffle (ch : nat) (ord : nat -> list nat) (f : list (list Z) -> nat) (n : nat)
    (shards : list (list (list (list Z)))) : list (list (list (list Z))) :=
  let parts := map (partition_out ch f n) shards in
  map (fun p => flat_map (fun j => part_of parts j p) (ord p)) (seq 0 n).

(* ---------------- Reduce: combiners and the merging reader ---------------- *)

(* combining two rows with the same key: the first row's key, combined value
   (the same expression as in Sem.reduce_sorted) *)
Definition mrow (c : comb) (pre : nat) (a b : list (list Z)) : list (list Z) :=
  key_of pre a ++ [[comb_apply c (scalar (nth pre a [])) (scalar (nth pre b []))]].

Definition key_ltb (pre : nat) (a b : list (list Z)) : bool :=
  match row_cmp (key_of pre a) (key_of pre b) with Lt => true | _ => false end.
Definition key_eqb (pre : nat) (a b : list (list Z)) : bool :=
  row_eqb (key_of pre a) (key_of pre b).

(* sortio/reader.go, method Read of reader: a heap of the current rows of the streams.
   [min_head]: the current row with the least key (heap top). *)
Fixpoint min_head (pre : nat) (ss : list (list (list (list Z)))) : option (list (list Z)) :=
  match ss with
  | [] => None
  | s :: rest =>
      match s, min_head pre rest with
      | [], m => m
      | r :: _, None => Some r
      | r :: _, Some m => if key_ltb pre m r then Some m else Some r
      end
  end.
(* "Gather all the buffers that have the same key": every stream whose current
   row has the least key gives that ONE row (as in the Go code, a stream is
   popped once per output row: "each parent reader has at most one entry for a
   given key, since they have already been combined") ... *)
Definition pop_heads (pre : nat) (m : list (list Z)) (ss : list (list (list (list Z)))) : list (list (list Z)) :=
  flat_map (fun s => match s with
                     | r :: _ => if key_eqb pre r m then [r] else []
                     | [] => []
                     end) ss.
(* ... and advances *)
Definition drop_heads (pre : nat) (m : list (list Z)) (ss : list (list (list (list Z)))) : list (list (list (list Z))) :=
  map (fun s => match s with
                | r :: t => if key_eqb pre r m then t else s
                | [] => []
                end) ss.
(* the output row: the first gathered row, its value combined with the others
   from left to right *)
Definition combine_heads (c : comb) (pre : nat) (hs : list (list (list Z))) : list (list (list Z)) :=
  match hs with
  | [] => []
  | h :: t => [fold_left (mrow c pre) t h]
  end.
Fixpoint kmerge (c : comb) (pre : nat) (fuel : nat) (ss : list (list (list (list Z)))) : list (list (list Z)) :=
  match fuel with
  | O => []
  | S f =>
      match min_head pre ss with
      | None => []
      | Some m => combine_heads c pre (pop_heads pre m ss) ++ kmerge c pre f (drop_heads pre m ss)
      end
  end.
(* sortio.Reduce over the streams [ss] *)
Definition merge_reduce (c : comb) (pre : nat) (ss : list (list (list (list Z)))) : list (list (list Z)) :=
  kmerge c pre (S (length (concat ss))) ss.

(* reduce.go reduceSlice.Reader: a single dependency stream is passed through *)
Definition reduce_reader (c : comb) (pre : nat) (ss : list (list (list (list Z)))) : list (list (list Z)) :=
  match ss with
  | [s] => s
  | _ => merge_reduce c pre ss
  end.

(* exec/combiner.go: rows are hash-combined; a full table is sorted and spilled
   as one run; Reader() = sortio.Reduce over the spilled runs and the sorted
   rest.  One run = the combined, sorted rows of a segment = Sem.reduce_shard. *)
Definition combiner_out (spill : nat) (c : comb) (pre : nat) (rows : list (list (list Z))) : list (list (list Z)) :=
  merge_reduce c pre (map (reduce_shard c pre) (chunks spill rows)).

(* worker.runCombine: what a task's combining buffer hands to the combiner *)
Definition task_flushes (fl : nat) (c : comb) (pre : nat) (rows : list (list (list Z))) : list (list (list Z)) :=
  concat (map (reduce_shard c pre) (chunks fl rows)).

Definition exec_reduce (st : strategy) (k : nat) (c : comb) (pre : nat) (f : list (list Z) -> nat) (n : nat)
    (shards : list (list (list (list Z)))) : list (list (list (list Z))) :=
  let parts := map (partition_out (chunk st) f n) shards in
  let flushed := if precombine st k then map (map (task_flushes (pflush st) c pre)) parts else parts in
  map (fun p =>
         if gcombine st k then
           (* one shared combiner per machine and partition, fed by all the tasks of the machine *)
           let gs := map (fun g => combiner_out (cspill st) c pre (flat_map (fun j => part_of flushed j p) g))
                         (groups st k) in
           reduce_reader c pre (map (fun gi => nth gi gs []) (gorder st k p))
         else if precombine st k then
           (* one combiner per task and partition; the consumer merges the streams *)
           reduce_reader c pre (map (fun j => combiner_out (cspill st) c pre (part_of flushed j p)) (order st k p))
         else
           (* local executor: depReaders combines the concatenation in-line *)
           reduce_reader c pre
             [combiner_out (cspill st) c pre (concat (map (fun j => part_of flushed j p) (order st k p)))])
      (seq 0 n).

(* ---------------- Fold: accumulate per key, frame by frame ---------------- *)

Definition cell_eqb (a b : list Z) : bool :=
  match cell_cmp a b with Eq => true | _ => false end.

(* the accumulator table, in order of first appearance of the keys *)
Fixpoint upsert (key : list Z) (f : Z -> Z) (acc : list (list Z * Z)) : list (list Z * Z) :=
  match acc with
  | [] => [(key, f 0%Z)]
  | (k', a) :: rest => if cell_eqb k' key then (k', f a) :: rest else (k', a) :: upsert key f rest
  end.
Definition fold_step (acc : list (list Z * Z)) (r : list (list Z)) : list (list Z * Z) :=
  upsert (nth 0 r []) (fun a => fold_left (fun s c => (s + scalar c)%Z) (tl r) a) acc.
Definition fold_exec (ch : nat) (sh : list (list (list Z))) : list (list (list Z)) :=
  map (fun ka => [fst ka; [snd ka]])
      (fold_left (fun acc fr => fold_left fold_step fr acc) (chunks ch sh) []).

(* ---------------- Cogroup ---------------- *)

(* cogroup.go cogroupReader: every dependency d is shuffled on its own (read in
   the order [corder k d p]) and sorted by key by the consumer
   (sortio.SortReader); then the sorted inputs are merged key by key.  The
   merge of sorted inputs is a function of the sorted inputs only; it is
   Sem.cogroup_shard applied to them (group values are compared as sorted
   lists, as in the reference). *)
Definition exec_cogroup (st : strategy) (k : nat) (pre n : nat) (ins : list value)
  : list (list (list (list Z))) :=
  let shuffled := map (fun dv => (length (vtypes (snd dv)),
                                  map sort_rows
                                      (exec_shuffle (chunk st) (corder st k (fst dv))
                                         (part (vtypes (snd dv)) pre n) n (vshards (snd dv)))))
                      (combine (seq 0 (length ins)) ins) in
  map (fun p => cogroup_shard pre (map (fun s => (fst s, nth p (snd s) [])) shuffled)) (seq 0 n).

(* ---------------- one node ---------------- *)

Definition exec_node (st : strategy) (vs : list value) (k : nat) (nd : node) : value * list side :=
  match nd with
  | NMap i es =>
      let v := get vs i in
      (mkV (map_shards (chunked (chunk st) (map (fun r => map (eval r) es))) v)
           (map (expr_ty (vtypes v)) es) (vpre v) (vordered v), [])
  | NFilter i e =>
      let v := get vs i in
      (mkV (map_shards (chunked (chunk st) (filter (fun r => holds r e))) v) (vtypes v) (vpre v) (vordered v), [])
  | NFlatmap i e =>
      let v := get vs i in
      (mkV (map_shards (chunked (chunk st) (flat_map (fun r =>
              map (fun j => r ++ [[Z.of_nat j]]) (seq 0 (Z.to_nat (scalar (eval r e) mod 4)))))) v)
           (vtypes v ++ [TI]) (vpre v) (vordered v), [])
  | NHead i n =>
      let v := get vs i in
      (mkV (map_shards (head_exec (chunk st) n) v) (vtypes v) (vpre v) (vordered v), [])
  | NFold i =>
      let v := get vs i in
      let n := nshards v in
      (mkV (map (fold_exec (chunk st))
                (exec_shuffle (chunk st) (order st k) (part (vtypes v) 1 n) n (vshards v)))
           [nth 0 (vtypes v) TI; TI] 1 false, [])
  | NReduce i c =>
      let v := get vs i in
      let n := nshards v in
      (mkV (exec_reduce st k c (vpre v) (part (vtypes v) (vpre v) n) n (vshards v))
           (vtypes v) (vpre v) true, [])
  | NCogroup is =>
      let ins := map (get vs) is in
      let n := fold_left Nat.max (map nshards ins) 0%nat in
      let f := get vs (hd 0%nat is) in
      let pre := vpre f in
      (mkV (exec_cogroup st k pre n ins)
           (firstn pre (vtypes f) ++ flat_map (fun v => map group_ty (skipn pre (vtypes v))) ins)
           pre true, [])
  | NReshuffle i =>
      let v := get vs i in
      let n := nshards v in
      (mkV (exec_shuffle (chunk st) (order st k) (part (vtypes v) (vpre v) n) n (vshards v))
           (vtypes v) (vpre v) false, [])
  | NReshard i n =>
      let v := get vs i in
      if Nat.eqb n (nshards v) then (v, [])
      else (mkV (exec_shuffle (chunk st) (order st k) (part (vtypes v) (vpre v) n) n (vshards v))
                (vtypes v) (vpre v) false, [])
  | NRepartition i e =>
      let v := get vs i in
      let n := nshards v in
      (mkV (exec_shuffle (chunk st) (order st k)
              (fun r => Z.to_nat (scalar (eval r e) mod Z.of_nat n)) n (vshards v))
           (vtypes v) (vpre v) false, [])
  (* sources, Prefixed, Cache: no strategy-dependent step; Scan / WriterFunc
     see the rows of their input as the run produced them *)
  | NArg _ _ _ | NConst _ _ _ | NReaderFunc _ _ _ _ | NScanReader _ _
  | NPrefixed _ _ | NScan _ | NWriterFunc _ | NCache _ => eval_node vs k nd
  end.

Fixpoint exec_nodes (st : strategy) (p : list node) (k : nat) (vs : list value) (sides : list (nat * list side))
  : list value * list (nat * list side) :=
  match p with
  | [] => (vs, sides)
  | nd :: rest =>
      let '(v, sd) := exec_node st vs k nd in
      exec_nodes st rest (S k) (vs ++ [v]) (sides ++ [(k, sd)])
  end.

Definition values_of_run (st : strategy) (p : list node) : list value := fst (exec_nodes st p 0 [] []).
Definition values_of_ref (p : list node) : list value := fst (eval_nodes p 0 [] []).

Definition run (st : strategy) (p : list node) : result :=
  let '(vs, sides) := exec_nodes st p 0 [] [] in
  let nd := needed p in
  mkR (last vs vempty)
      (flat_map (fun ks => if existsb (Nat.eqb (fst ks)) nd then snd ks else []) sides)
      (map (fun k => (k, side_input_ordered vs (nth k p (NCache 0)))) (seq 0 (length p))).

(* ---------------- well-formedness (decidable) ---------------- *)

(* [l] is a permutation of 0..m-1 *)
Definition is_perm (l : list nat) (m : nat) : bool :=
  Nat.eqb (length l) m && forallb (fun j => existsb (Nat.eqb j) l) (seq 0 m).

Definition perms (ord : nat -> list nat) (m n : nat) : bool :=
  forallb (fun p => is_perm (ord p) m) (seq 0 n).

(* Static conditions on one node, given the values of the nodes before it.
   They only look at the shard counts, column types, prefixes and orderedness
   of those values, which do not depend on the strategy (nor on the rows). *)
Definition wf_node (vs : list value) (k : nat) (nd : node) : bool :=
  forallb (fun i => Nat.ltb i k) (inputs nd) &&
  match nd with
  | NConst _ ts cols => Nat.eqb (length ts) (length cols)
  | NHead i _ => vordered (get vs i)              (* Head of an unordered shard is not a function of the program *)
  | NReduce i _ => Nat.eqb (length (vtypes (get vs i))) (S (vpre (get vs i)))   (* exactly one value column *)
  | NCogroup is =>
      let pre := vpre (get vs (hd 0%nat is)) in
      forallb (fun i => Nat.leb pre (length (vtypes (get vs i)))) is
  | _ => true
  end.

Definition wfs_node (st : strategy) (vs : list value) (k : nat) (nd : node) : bool :=
  match nd with
  | NFold i | NReshuffle i | NRepartition i _ =>
      let m := nshards (get vs i) in perms (order st k) m m
  | NReshard i n =>
      let m := nshards (get vs i) in Nat.eqb n m || perms (order st k) m n
  | NReduce i _ =>
      let m := nshards (get vs i) in
      if gcombine st k
      then is_perm (concat (groups st k)) m && perms (gorder st k) (length (groups st k)) m
      else perms (order st k) m m
  | NCogroup is =>
      let ins := map (get vs) is in
      let n := fold_left Nat.max (map nshards ins) 0%nat in
      forallb (fun dv => perms (corder st k (fst dv)) (nshards (snd dv)) n) (combine (seq 0 (length ins)) ins)
  | _ => true
  end.

Fixpoint wf_nodes (p : list node) (k : nat) (vs : list value) : bool :=
  match p with
  | [] => true
  | nd :: rest => wf_node vs k nd && wf_nodes rest (S k) (vs ++ [fst (eval_node vs k nd)])
  end.
Definition wf_prog (p : list node) : bool := wf_nodes p 0 [].

Fixpoint wfs_nodes (st : strategy) (p : list node) (k : nat) (vs : list value) : bool :=
  match p with
  | [] => true
  | nd :: rest => wfs_node st vs k nd && wfs_nodes st rest (S k) (vs ++ [fst (eval_node vs k nd)])
  end.
Definition wf_strategy (st : strategy) (p : list node) : bool :=
  Nat.leb 1 (chunk st) && Nat.leb 1 (cspill st) && Nat.leb 1 (pflush st) && wfs_nodes st p 0 [].

(* C04 — every well-formed execution strategy refines the reference semantics.
   Proofs about the operational model of C04/Strategy.v. *)
From Coq Require Import List ZArith NArith Bool Lia Permutation Sorting.Sorted Sorting.Mergesort.
From Coq Require Import ZifyBool ZifyNat.
Import ListNotations.
Require Import BS.Common.Util BS.C01.Sem BS.C01.Corr BS.C01.Checker BS.C01.Proofs BS.C04.Strategy.

(* ====================================================================== *)
(* 1. The orders on cells and rows are total orders                        *)
(* ====================================================================== *)

Lemma cell_cmp_refl : forall a, cell_cmp a a = Eq.
Proof. induction a as [|x a IH]; simpl; [reflexivity|]. rewrite Z.compare_refl. exact IH. Qed.

Lemma row_cmp_refl : forall a, row_cmp a a = Eq.
Proof. induction a as [|x a IH]; simpl; [reflexivity|]. rewrite cell_cmp_refl. exact IH. Qed.

Lemma cell_cmp_lt_trans : forall a b c, cell_cmp a b = Lt -> cell_cmp b c = Lt -> cell_cmp a c = Lt.
Proof.
  induction a as [|x a IH]; intros [|y b] [|z c]; simpl; try discriminate; auto.
  intros H1 H2.
  destruct (Z.compare_spec x y) as [Exy|Lxy|Gxy]; try discriminate;
    destruct (Z.compare_spec y z) as [Eyz|Lyz|Gyz]; try discriminate;
    destruct (Z.compare_spec x z) as [Exz|Lxz|Gxz]; try lia; try reflexivity.
  eapply IH; eassumption.
Qed.

Lemma row_cmp_lt_trans : forall a b c, row_cmp a b = Lt -> row_cmp b c = Lt -> row_cmp a c = Lt.
Proof.
  induction a as [|x a IH]; intros [|y b] [|z c]; simpl; try discriminate; auto.
  intros H1 H2.
  destruct (cell_cmp x y) eqn:E1; try discriminate; destruct (cell_cmp y z) eqn:E2; try discriminate.
  - apply cell_cmp_eq in E1. apply cell_cmp_eq in E2. subst. rewrite cell_cmp_refl. eapply IH; eassumption.
  - apply cell_cmp_eq in E1. subst. rewrite E2. reflexivity.
  - apply cell_cmp_eq in E2. subst. rewrite E1. reflexivity.
  - rewrite (cell_cmp_lt_trans _ _ _ E1 E2). reflexivity.
Qed.

Lemma row_cmp_gt_lt a b : row_cmp a b = Gt <-> row_cmp b a = Lt.
Proof.
  rewrite (RowOrder.row_cmp_antisym b a). destruct (row_cmp b a); simpl; split; congruence.
Qed.

Lemma row_cmp_eq_iff a b : row_cmp a b = Eq <-> a = b.
Proof. split; [apply row_cmp_eq|intros ->; apply row_cmp_refl]. Qed.

Lemma row_eqb_iff a b : row_eqb a b = true <-> a = b.
Proof.
  split; [apply row_eqb_eq|]. intros ->. unfold row_eqb. rewrite row_cmp_refl. reflexivity.
Qed.

Lemma row_leb_trans a b c : row_leb a b = true -> row_leb b c = true -> row_leb a c = true.
Proof.
  unfold row_leb. intros H1 H2.
  destruct (row_cmp a b) eqn:E1; try discriminate; destruct (row_cmp b c) eqn:E2; try discriminate.
  - apply row_cmp_eq in E1. apply row_cmp_eq in E2. subst. rewrite row_cmp_refl. reflexivity.
  - apply row_cmp_eq in E1. subst. rewrite E2. reflexivity.
  - apply row_cmp_eq in E2. subst. rewrite E1. reflexivity.
  - rewrite (row_cmp_lt_trans _ _ _ E1 E2). reflexivity.
Qed.

Lemma row_leb_antisym a b : row_leb a b = true -> row_leb b a = true -> a = b.
Proof.
  unfold row_leb. rewrite (RowOrder.row_cmp_antisym a b).
  destruct (row_cmp a b) eqn:E; simpl; try discriminate.
  intros _ _. apply row_cmp_eq. exact E.
Qed.

(* taking a prefix of the columns is monotone for the lexicographic order *)
Lemma row_cmp_firstn : forall n a b, row_cmp a b <> Gt -> row_cmp (firstn n a) (firstn n b) <> Gt.
Proof.
  induction n as [|n IH]; intros a b H; [simpl; discriminate|].
  destruct a as [|x a], b as [|y b]; simpl in *; try discriminate; try congruence.
  destruct (cell_cmp x y); try discriminate; try congruence. apply IH. exact H.
Qed.

(* two sorted lists with the same elements are equal *)
Lemma sorted_perm_eq {A} (le : A -> A -> Prop) :
  (forall a b, le a b -> le b a -> a = b) ->
  forall l1 l2, StronglySorted le l1 -> StronglySorted le l2 -> Permutation l1 l2 -> l1 = l2.
Proof.
  intros Hanti. induction l1 as [|a l1 IH]; intros l2 S1 S2 HP.
  - apply Permutation_nil in HP. subst. reflexivity.
  - destruct l2 as [|b l2]; [apply Permutation_sym, Permutation_nil in HP; discriminate|].
    inversion S1 as [|? ? S1' F1]; subst. inversion S2 as [|? ? S2' F2]; subst.
    assert (Eab : a = b).
    { assert (Ha : In a (b :: l2)) by (eapply Permutation_in; [exact HP|left; reflexivity]).
      assert (Hb : In b (a :: l1)) by (eapply Permutation_in; [apply Permutation_sym; exact HP|left; reflexivity]).
      destruct Ha as [Ha|Ha]; [congruence|]. destruct Hb as [Hb|Hb]; [congruence|].
      rewrite Forall_forall in F1, F2. apply Hanti; [apply F1; exact Hb|apply F2; exact Ha]. }
    subst b. f_equal. apply IH; try assumption. eapply Permutation_cons_inv; exact HP.
Qed.

Lemma row_sort_strongly_sorted l : StronglySorted (fun a b => row_leb a b = true) (sort_rows l).
Proof.
  unfold sort_rows. apply Sorted_StronglySorted.
  - intros a b c. apply row_leb_trans.
  - pose proof (RowSort.Sorted_sort l) as H.
    eapply Sorted_ind with (P := fun l => Sorted (fun a b => row_leb a b = true) l); [constructor| |exact H].
    intros a l' _ IH Hd. constructor; [exact IH|].
    destruct Hd; constructor. assumption.
Qed.

Lemma sort_rows_perm l : Permutation (sort_rows l) l.
Proof. apply Permutation_sym. apply RowSort.Permuted_sort. Qed.

Theorem sort_rows_permutation l l' : Permutation l l' -> sort_rows l = sort_rows l'.
Proof.
  intro HP. apply (sorted_perm_eq (fun a b => row_leb a b = true) row_leb_antisym).
  - apply row_sort_strongly_sorted.
  - apply row_sort_strongly_sorted.
  - eapply Permutation_trans; [apply sort_rows_perm|].
    eapply Permutation_trans; [exact HP|]. apply Permutation_sym. apply sort_rows_perm.
Qed.

(* sorting a permutation gives the same list (row_cmp = Eq implies equality),
   hence the same reduction *)
Theorem reduce_shard_perm c pre l l' : Permutation l l' -> reduce_shard c pre l = reduce_shard c pre l'.
Proof. intro HP. unfold reduce_shard. rewrite (sort_rows_permutation l l' HP). reflexivity. Qed.

Lemma zsort_permutation l l' : Permutation l l' -> ZSort.sort l = ZSort.sort l'.
Proof.
  intro HP.
  assert (SS : forall l, StronglySorted (fun a b => Z.leb a b = true) (ZSort.sort l)).
  { intro l0. apply Sorted_StronglySorted.
    - intros a b c Hab Hbc. apply Z.leb_le in Hab, Hbc. apply Z.leb_le. lia.
    - pose proof (ZSort.Sorted_sort l0) as H.
      eapply Sorted_ind with (P := fun l => Sorted (fun a b => Z.leb a b = true) l); [constructor| |exact H].
      intros a l1 _ IH Hd. constructor; [exact IH|]. destruct Hd; constructor. assumption. }
  apply (sorted_perm_eq (fun a b => Z.leb a b = true)).
  - intros a b Hab Hba. apply Z.leb_le in Hab, Hba. lia.
  - apply SS.
  - apply SS.
  - eapply Permutation_trans; [apply Permutation_sym, ZSort.Permuted_sort|].
    eapply Permutation_trans; [exact HP|]. apply ZSort.Permuted_sort.
Qed.

(* ====================================================================== *)
(* 2. Combining is associative and commutative                             *)
(* ====================================================================== *)

Lemma comb_apply_assoc c x y z : comb_apply c x (comb_apply c y z) = comb_apply c (comb_apply c x y) z.
Proof. destruct c; unfold comb_apply; lia. Qed.

Lemma comb_apply_comm c x y : comb_apply c x y = comb_apply c y x.
Proof. destruct c; unfold comb_apply; lia. Qed.

(* ====================================================================== *)
(* 3. The algebra of Reduce: inserting rows one by one into a combined,    *)
(*    key-sorted list                                                      *)
(* ====================================================================== *)

Section Combine.
Variable c : comb.
Variable pre : nat.

(* a row has its key columns *)
Definition wfr (r : list (list Z)) : Prop := pre <= length r.

Definition kcmp (a b : list (list Z)) : comparison := row_cmp (key_of pre a) (key_of pre b).
Definition val (r : list (list Z)) : Z := scalar (nth pre r []).

Lemma kcmp_antisym a b : kcmp b a = CompOpp (kcmp a b).
Proof. unfold kcmp. apply RowOrder.row_cmp_antisym. Qed.
Lemma kcmp_eq a b : kcmp a b = Eq -> key_of pre a = key_of pre b.
Proof. unfold kcmp. apply row_cmp_eq. Qed.
Lemma kcmp_refl_key a b : key_of pre a = key_of pre b -> kcmp a b = Eq.
Proof. unfold kcmp. intros ->. apply row_cmp_refl. Qed.
Lemma kcmp_lt_trans a b d : kcmp a b = Lt -> kcmp b d = Lt -> kcmp a d = Lt.
Proof. unfold kcmp. apply row_cmp_lt_trans. Qed.
Lemma kcmp_key_l a a' x : key_of pre a = key_of pre a' -> kcmp a x = kcmp a' x.
Proof. unfold kcmp. intros ->. reflexivity. Qed.
Lemma kcmp_key_r a x x' : key_of pre x = key_of pre x' -> kcmp a x = kcmp a x'.
Proof. unfold kcmp. intros ->. reflexivity. Qed.
Lemma kcmp_gt_lt a b : kcmp a b = Gt <-> kcmp b a = Lt.
Proof. unfold kcmp. apply row_cmp_gt_lt. Qed.

Lemma key_length a : wfr a -> length (key_of pre a) = pre.
Proof. unfold wfr, key_of. intro H. rewrite firstn_length. lia. Qed.

Lemma firstn_app_exact {A} (l1 l2 : list A) n : length l1 = n -> firstn n (l1 ++ l2) = l1.
Proof. intros <-. rewrite firstn_app, Nat.sub_diag, firstn_all. simpl. apply app_nil_r. Qed.

Lemma key_mrow a b : wfr a -> key_of pre (mrow c pre a b) = key_of pre a.
Proof. intro H. unfold mrow. unfold key_of at 1. apply firstn_app_exact. apply key_length. exact H. Qed.

Lemma val_mrow a b : wfr a -> val (mrow c pre a b) = comb_apply c (val a) (val b).
Proof.
  intro H. unfold val at 1. unfold mrow.
  rewrite app_nth2 by (rewrite key_length by exact H; lia).
  rewrite key_length by exact H. rewrite Nat.sub_diag. reflexivity.
Qed.

Lemma wfr_mrow a b : wfr a -> wfr (mrow c pre a b).
Proof. intro H. unfold wfr, mrow. rewrite app_length, key_length by exact H. simpl. lia. Qed.

Lemma mrow_spec a b : mrow c pre a b = key_of pre a ++ [[comb_apply c (val a) (val b)]].
Proof. reflexivity. Qed.

Lemma mrow_assoc a b x : wfr a -> wfr b -> mrow c pre a (mrow c pre b x) = mrow c pre (mrow c pre a b) x.
Proof.
  intros Ha Hb. rewrite (mrow_spec a), (mrow_spec (mrow c pre a b)).
  rewrite key_mrow by exact Ha. rewrite !val_mrow by assumption. rewrite comb_apply_assoc. reflexivity.
Qed.

Lemma mrow_comm a b : key_of pre a = key_of pre b -> mrow c pre a b = mrow c pre b a.
Proof. intro E. rewrite (mrow_spec a), (mrow_spec b), E, comb_apply_comm. reflexivity. Qed.

Lemma mrow_lcomm a b x : wfr a -> wfr b -> key_of pre a = key_of pre b ->
  mrow c pre a (mrow c pre b x) = mrow c pre b (mrow c pre a x).
Proof.
  intros Ha Hb E. rewrite (mrow_spec a), (mrow_spec b (mrow c pre a x)).
  rewrite !val_mrow by assumption. rewrite E. f_equal. f_equal. f_equal.
  rewrite !comb_apply_assoc. rewrite (comb_apply_comm c (val a) (val b)). reflexivity.
Qed.

Lemma kcmp_mrow_l a b x : wfr a -> kcmp (mrow c pre a b) x = kcmp a x.
Proof. intro H. apply kcmp_key_l. apply key_mrow. exact H. Qed.
Lemma kcmp_mrow_r a b x : wfr b -> kcmp a (mrow c pre b x) = kcmp a b.
Proof. intro H. apply kcmp_key_r. apply key_mrow. exact H. Qed.

(* insert a row into a list: combine it with the first row of the same key, or
   put it before the first row with a greater key *)
Fixpoint rinsert (r : list (list Z)) (L : list (list (list Z))) : list (list (list Z)) :=
  match L with
  | [] => [r]
  | x :: L' => match kcmp r x with
               | Lt => r :: L
               | Eq => mrow c pre r x :: L'
               | Gt => x :: rinsert r L'
               end
  end.
Definition rlist (l : list (list (list Z))) : list (list (list Z)) := fold_right rinsert [] l.

Lemma rinsert_wf a L : wfr a -> Forall wfr L -> Forall wfr (rinsert a L).
Proof.
  intros Ha HL. induction HL as [|x L Hx HL IH]; cbn [rinsert]; [constructor; [exact Ha|constructor]|].
  destruct (kcmp a x).
  - constructor; [apply wfr_mrow; exact Ha|exact HL].
  - constructor; [exact Ha|constructor; assumption].
  - constructor; assumption.
Qed.

Lemma fold_rinsert_wf M K : Forall wfr M -> Forall wfr K -> Forall wfr (fold_right rinsert M K).
Proof.
  intros HM HK. induction HK as [|a K Ha HK IH]; simpl; [exact HM|]. apply rinsert_wf; assumption.
Qed.

Lemma rlist_wf l : Forall wfr l -> Forall wfr (rlist l).
Proof. intro H. apply fold_rinsert_wf; [constructor|exact H]. Qed.

(* two rows with the same key may be combined before they are inserted *)
Lemma rinsert_merge a b L : wfr a -> wfr b -> key_of pre a = key_of pre b ->
  rinsert a (rinsert b L) = rinsert (mrow c pre a b) L.
Proof.
  intros Ha Hb E. induction L as [|x L IH]; cbn [rinsert].
  - rewrite (kcmp_refl_key a b E). reflexivity.
  - rewrite (kcmp_mrow_l a b x Ha). rewrite (kcmp_key_l a b x E).
    destruct (kcmp b x) eqn:Ebx; cbn [rinsert].
    + rewrite (kcmp_mrow_r a b x Hb), (kcmp_refl_key a b E). rewrite mrow_assoc by assumption. reflexivity.
    + rewrite (kcmp_refl_key a b E). reflexivity.
    + rewrite (kcmp_key_l a b x E), Ebx. rewrite IH. reflexivity.
Qed.

(* the order of insertion does not matter *)
Lemma rinsert_comm a b L : wfr a -> wfr b ->
  rinsert a (rinsert b L) = rinsert b (rinsert a L).
Proof.
  intros Ha Hb. induction L as [|x L IH]; cbn [rinsert].
  - rewrite (kcmp_antisym a b). destruct (kcmp a b) eqn:Eab; cbn [CompOpp rinsert]; try reflexivity.
    rewrite (mrow_comm a b (kcmp_eq _ _ Eab)). reflexivity.
  - destruct (kcmp a x) eqn:Eax; destruct (kcmp b x) eqn:Ebx; cbn [rinsert].
    + (* a = x, b = x *)
      pose proof (kcmp_eq _ _ Eax) as Kax. pose proof (kcmp_eq _ _ Ebx) as Kbx.
      rewrite (kcmp_mrow_r a b x Hb), (kcmp_mrow_r b a x Ha).
      rewrite (kcmp_refl_key a b) by congruence. rewrite (kcmp_refl_key b a) by congruence.
      rewrite (mrow_lcomm a b x) by (try assumption; congruence). reflexivity.
    + (* a = x, b < x *)
      pose proof (kcmp_eq _ _ Eax) as Kax.
      rewrite (kcmp_mrow_r b a x Ha). rewrite (kcmp_key_r b a x Kax), Ebx.
      rewrite (kcmp_antisym b a), (kcmp_key_r b a x Kax), Ebx. cbn [CompOpp rinsert]. rewrite Eax. reflexivity.
    + (* a = x, b > x *)
      pose proof (kcmp_eq _ _ Eax) as Kax.
      rewrite Eax. rewrite (kcmp_mrow_r b a x Ha). rewrite (kcmp_key_r b a x Kax), Ebx. reflexivity.
    + (* a < x, b = x *)
      pose proof (kcmp_eq _ _ Ebx) as Kbx.
      rewrite (kcmp_mrow_r a b x Hb). rewrite (kcmp_key_r a b x Kbx), Eax.
      rewrite (kcmp_antisym a b), (kcmp_key_r a b x Kbx), Eax. cbn [CompOpp rinsert]. rewrite Ebx. reflexivity.
    + (* a < x, b < x *)
      rewrite (kcmp_antisym a b). destruct (kcmp a b) eqn:Eab; cbn [CompOpp rinsert].
      * rewrite (mrow_comm a b (kcmp_eq _ _ Eab)). reflexivity.
      * rewrite Ebx. reflexivity.
      * rewrite Eax. reflexivity.
    + (* a < x < b *)
      rewrite Eax.
      assert (Eab : kcmp a b = Lt) by (eapply kcmp_lt_trans; [exact Eax|apply kcmp_gt_lt; exact Ebx]).
      rewrite (kcmp_antisym a b), Eab. cbn [CompOpp rinsert]. rewrite Ebx. reflexivity.
    + (* a > x, b = x *)
      pose proof (kcmp_eq _ _ Ebx) as Kbx.
      rewrite Ebx. rewrite (kcmp_mrow_r a b x Hb). rewrite (kcmp_key_r a b x Kbx), Eax. reflexivity.
    + (* b < x < a *)
      rewrite Ebx.
      assert (Eba : kcmp b a = Lt) by (eapply kcmp_lt_trans; [exact Ebx|apply kcmp_gt_lt; exact Eax]).
      rewrite (kcmp_antisym b a), Eba. cbn [CompOpp rinsert]. rewrite Eax. reflexivity.
    + (* a > x, b > x *)
      rewrite Eax, Ebx. rewrite IH. reflexivity.
Qed.

Lemma fold_rinsert_perm M l l' : Permutation l l' -> Forall wfr l ->
  fold_right rinsert M l = fold_right rinsert M l'.
Proof.
  intro HP. induction HP as [|a l l' HP IH|a b l|l l' l'' HP1 IH1 HP2 IH2]; intro Hwf.
  - reflexivity.
  - simpl. inversion Hwf; subst. rewrite IH by assumption. reflexivity.
  - simpl. inversion Hwf as [|? ? Hb Hwf']; subst. inversion Hwf' as [|? ? Ha Hwf'']; subst.
    apply rinsert_comm; assumption.
  - rewrite IH1 by exact Hwf. apply IH2. eapply Permutation_Forall; [exact HP1|exact Hwf].
Qed.

Lemma rlist_perm l l' : Permutation l l' -> Forall wfr l -> rlist l = rlist l'.
Proof. apply fold_rinsert_perm. Qed.

Lemma rlist_app l1 l2 : rlist (l1 ++ l2) = fold_right rinsert (rlist l2) l1.
Proof. unfold rlist. apply fold_right_app. Qed.

Lemma fold_rinsert_rinsert a K M : wfr a -> Forall wfr K ->
  fold_right rinsert M (rinsert a K) = rinsert a (fold_right rinsert M K).
Proof.
  intros Ha HK. induction HK as [|b K Hb HK IH]; cbn [rinsert fold_right]; [reflexivity|].
  destruct (kcmp a b) eqn:Eab; cbn [fold_right].
  - rewrite (rinsert_merge a b) by (try assumption; apply kcmp_eq; exact Eab). reflexivity.
  - reflexivity.
  - rewrite IH. apply rinsert_comm; assumption.
Qed.

Lemma fold_rinsert_rlist l M : Forall wfr l ->
  fold_right rinsert M (rlist l) = fold_right rinsert M l.
Proof.
  intro Hl. induction Hl as [|a l Ha Hl IH]; [reflexivity|].
  change (rlist (a :: l)) with (rinsert a (rlist l)).
  rewrite fold_rinsert_rinsert by (try assumption; apply rlist_wf; exact Hl).
  rewrite IH. reflexivity.
Qed.

(* combining any part of the rows beforehand is harmless *)
Lemma rlist_absorb l1 l2 : Forall wfr l1 -> rlist (rlist l1 ++ l2) = rlist (l1 ++ l2).
Proof. intro H. rewrite !rlist_app. apply fold_rinsert_rlist. exact H. Qed.

Lemma rlist_idem l : Forall wfr l -> rlist (rlist l) = rlist l.
Proof. intro H. pose proof (rlist_absorb l [] H) as E. rewrite !app_nil_r in E. exact E. Qed.

Lemma rlist_concat_map ls : Forall (Forall wfr) ls -> rlist (concat (map rlist ls)) = rlist (concat ls).
Proof.
  intro H. induction H as [|l ls Hl Hls IH]; [reflexivity|].
  cbn [map concat]. rewrite rlist_absorb by exact Hl. rewrite !rlist_app, IH. reflexivity.
Qed.

(* --- sortedness of combined lists --- *)

Lemma rinsert_lt_head a L : Forall (fun x => kcmp a x = Lt) L -> rinsert a L = a :: L.
Proof. intro H. destruct H as [|x L Hx HL]; cbn [rinsert]; [reflexivity|]. rewrite Hx. reflexivity. Qed.

Lemma rinsert_Forall (P : list (list Z) -> Prop) a L :
  (forall x y, key_of pre x = key_of pre y -> P x -> P y) ->
  wfr a -> P a -> Forall P L -> Forall P (rinsert a L).
Proof.
  intros HP Ha Pa HL. induction HL as [|x L Hx HL IH]; cbn [rinsert]; [constructor; [exact Pa|constructor]|].
  destruct (kcmp a x).
  - constructor; [|exact HL]. apply (HP a); [symmetry; apply key_mrow; exact Ha|exact Pa].
  - constructor; [exact Pa|constructor; assumption].
  - constructor; assumption.
Qed.

Lemma rlist_Forall (P : list (list Z) -> Prop) l :
  (forall x y, key_of pre x = key_of pre y -> P x -> P y) ->
  Forall wfr l -> Forall P l -> Forall P (rlist l).
Proof.
  intros HP Hwf Hl. induction Hwf as [|a l Ha Hwf IH]; [constructor|].
  inversion Hl; subst. change (rlist (a :: l)) with (rinsert a (rlist l)).
  apply rinsert_Forall; auto.
Qed.

Definition klt (a b : list (list Z)) : Prop := kcmp a b = Lt.
Definition kle (a b : list (list Z)) : Prop := kcmp a b <> Gt.

Lemma klt_key_r m x y : key_of pre x = key_of pre y -> klt m x -> klt m y.
Proof. unfold klt. intros E H. rewrite <- (kcmp_key_r m x y E). exact H. Qed.

Lemma rinsert_sorted a L : wfr a -> StronglySorted klt L -> StronglySorted klt (rinsert a L).
Proof.
  intros Ha HS. induction HS as [|x L HS IH HF]; cbn [rinsert]; [repeat constructor|].
  destruct (kcmp a x) eqn:Eax.
  - constructor; [exact HS|]. eapply Forall_impl; [|exact HF]. intros y Hy. unfold klt in *.
    rewrite (kcmp_mrow_l a x y Ha). rewrite (kcmp_key_l a x y (kcmp_eq _ _ Eax)). exact Hy.
  - constructor; [constructor; assumption|]. constructor; [exact Eax|].
    eapply Forall_impl; [|exact HF]. intros y Hy. unfold klt in *. eapply kcmp_lt_trans; eassumption.
  - constructor; [exact IH|]. apply rinsert_Forall; try assumption.
    + intros u v E. apply klt_key_r. exact E.
    + apply kcmp_gt_lt. exact Eax.
Qed.

Lemma rlist_sorted l : Forall wfr l -> StronglySorted klt (rlist l).
Proof.
  intro H. induction H as [|a l Ha Hl IH]; [constructor|].
  change (rlist (a :: l)) with (rinsert a (rlist l)). apply rinsert_sorted; assumption.
Qed.

Lemma rlist_of_sorted s : StronglySorted klt s -> rlist s = s.
Proof.
  intro H. induction H as [|a s HS IH HF]; [reflexivity|].
  change (rlist (a :: s)) with (rinsert a (rlist s)). rewrite IH. apply rinsert_lt_head. exact HF.
Qed.

(* --- Sem.reduce_sorted on a key-sorted list is the insertion of its rows --- *)

Lemma reduce_sorted_rlist : forall l a, wfr a -> Forall wfr l -> StronglySorted kle (a :: l) ->
  reduce_sorted c pre l (Some a) = rinsert a (rlist l).
Proof.
  induction l as [|r l IH]; intros a Ha Hl HS; [reflexivity|].
  inversion Hl as [|? ? Hr Hl']; subst.
  inversion HS as [|? ? HS' HF]; subst. inversion HF as [|? ? Har HFl]; subst.
  inversion HS' as [|? ? HS'' HFr]; subst.
  cbn [reduce_sorted]. change (rlist (r :: l)) with (rinsert r (rlist l)).
  unfold row_eqb. fold (kcmp a r). destruct (kcmp a r) eqn:Ear.
  - (* same key: the accumulator absorbs r *)
    fold (mrow c pre a r).
    rewrite IH; [| apply wfr_mrow; exact Ha | exact Hl' |].
    + rewrite rinsert_merge by (try assumption; apply kcmp_eq; exact Ear). reflexivity.
    + constructor; [exact HS''|]. eapply Forall_impl; [|exact HFl]. intros y Hy. unfold kle in *.
      rewrite (kcmp_mrow_l a r y Ha). exact Hy.
  - (* a is smaller than everything that follows *)
    rewrite IH by assumption.
    rewrite (rinsert_lt_head a); [reflexivity|].
    change (rinsert r (rlist l)) with (rlist (r :: l)).
    apply rlist_Forall; [intros u v E; apply klt_key_r; exact E|constructor; assumption|].
    constructor; [exact Ear|].
    rewrite Forall_forall in HFr |- *. intros y Hy. specialize (HFr y Hy). unfold kle, klt in *.
    destruct (kcmp r y) eqn:Ery; try congruence.
    + rewrite <- (kcmp_key_r a r y (kcmp_eq _ _ Ery)). exact Ear.
    + eapply kcmp_lt_trans; eassumption.
  - exfalso. apply Har. exact Ear.
Qed.

Lemma sort_rows_key_sorted l : StronglySorted kle (sort_rows l).
Proof.
  pose proof (row_sort_strongly_sorted l) as H. induction H as [|a s HS IH HF]; constructor; [exact IH|].
  eapply Forall_impl; [|exact HF]. intros y Hy. unfold kle, kcmp, key_of. apply row_cmp_firstn.
  unfold row_leb in Hy. destruct (row_cmp a y); congruence.
Qed.

Theorem reduce_shard_rlist l : Forall wfr l -> reduce_shard c pre l = rlist l.
Proof.
  intro Hwf. unfold reduce_shard.
  rewrite (rlist_perm l (sort_rows l)) by (try assumption; apply Permutation_sym; apply sort_rows_perm).
  assert (Hwf' : Forall wfr (sort_rows l))
    by (eapply Permutation_Forall; [apply Permutation_sym; apply sort_rows_perm|exact Hwf]).
  pose proof (sort_rows_key_sorted l) as HS.
  destruct (sort_rows l) as [|a s]; [reflexivity|].
  inversion Hwf'; subst. cbn [reduce_sorted]. apply reduce_sorted_rlist; assumption.
Qed.

End Combine.

(* pre-combining any part of a shard is harmless *)
Theorem reduce_shard_absorb c pre l1 l2 :
  Forall (wfr pre) l1 -> Forall (wfr pre) l2 ->
  reduce_shard c pre (reduce_shard c pre l1 ++ l2) = reduce_shard c pre (l1 ++ l2).
Proof.
  intros H1 H2. rewrite (reduce_shard_rlist c pre l1 H1).
  rewrite !reduce_shard_rlist.
  - apply rlist_absorb. exact H1.
  - apply Forall_app. split; assumption.
  - apply Forall_app. split; [apply rlist_wf; exact H1|exact H2].
Qed.

(* the task's formulation: rows with exactly one (scalar) value column *)
Definition wf_row (pre : nat) (r : list (list Z)) : Prop :=
  length r = S pre /\ exists z, nth pre r [] = [z].

Lemma wf_row_wfr pre r : wf_row pre r -> wfr pre r.
Proof. intros [H _]. unfold wfr. lia. Qed.

Corollary reduce_shard_absorb_rows c pre l1 l2 :
  Forall (wf_row pre) l1 -> Forall (wf_row pre) l2 ->
  reduce_shard c pre (reduce_shard c pre l1 ++ l2) = reduce_shard c pre (l1 ++ l2).
Proof.
  intros H1 H2. apply reduce_shard_absorb; (eapply Forall_impl; [apply wf_row_wfr|eassumption]).
Qed.

(* ====================================================================== *)
(* 4. The merging reader (sortio.Reduce) over combined, sorted streams     *)
(* ====================================================================== *)

Section Merge.
Variable c : comb.
Variable pre : nat.

Lemma kle_trans a b d : (kcmp pre) a b <> Gt -> (kcmp pre) b d <> Gt -> (kcmp pre) a d <> Gt.
Proof.
  intros H1 H2. destruct ((kcmp pre) a b) eqn:E1; try congruence; destruct ((kcmp pre) b d) eqn:E2; try congruence.
  - rewrite (kcmp_key_l pre a b d (kcmp_eq _ _ _ E1)), E2. discriminate.
  - rewrite (kcmp_key_l pre a b d (kcmp_eq _ _ _ E1)), E2. discriminate.
  - rewrite <- (kcmp_key_r pre a b d (kcmp_eq _ _ _ E2)), E1. discriminate.
  - rewrite (kcmp_lt_trans pre a b d E1 E2). discriminate.
Qed.

Lemma key_eqb_iff r m : key_eqb pre r m = true <-> key_of pre r = key_of pre m.
Proof. unfold key_eqb. apply row_eqb_iff. Qed.

Lemma key_ltb_iff a b : key_ltb pre a b = true <-> (kcmp pre) a b = Lt.
Proof. unfold key_ltb, Strategy.key_ltb. fold ((kcmp pre) a b). destruct ((kcmp pre) a b); split; congruence. Qed.

Definition head_ge (m : list (list Z)) (s : list (list (list Z))) : Prop :=
  forall r t, s = r :: t -> (kcmp pre) m r <> Gt.

Lemma min_head_none ss : min_head pre ss = None -> Forall (fun s => s = []) ss.
Proof.
  induction ss as [|s ss IH]; intro H; [constructor|]. cbn [min_head] in H.
  destruct s as [|r t].
  - constructor; [reflexivity|apply IH; exact H].
  - destruct (min_head pre ss) as [m'|]; [destruct (key_ltb pre m' r)|]; discriminate.
Qed.

Lemma min_head_spec ss m : min_head pre ss = Some m ->
  Forall (head_ge m) ss /\ exists t, In (m :: t) ss.
Proof.
  revert m. induction ss as [|s ss IH]; intros m H; [discriminate|]. cbn [min_head] in H.
  destruct s as [|r t].
  - destruct (IH m H) as [HF [t' Hin]]. split.
    + constructor; [intros r t E; discriminate|exact HF].
    + exists t'. right. exact Hin.
  - destruct (min_head pre ss) as [m'|] eqn:Em.
    + destruct (IH m' eq_refl) as [HF [t' Hin]].
      destruct (key_ltb pre m' r) eqn:Elt; inversion H; subst.
      * apply key_ltb_iff in Elt. split.
        -- constructor; [|exact HF]. intros r0 t0 E. inversion E; subst. rewrite Elt. discriminate.
        -- exists t'. right. exact Hin.
      * assert (Hle : (kcmp pre) m m' <> Gt).
        { intro G. apply kcmp_gt_lt in G. apply key_ltb_iff in G. congruence. }
        split.
        -- constructor.
           ++ intros r0 t0 E. inversion E; subst. rewrite (kcmp_refl_key pre r0 r0 eq_refl). discriminate.
           ++ eapply Forall_impl; [|exact HF]. intros s Hs r0 t0 E. eapply kle_trans; [exact Hle|].
              eapply Hs. exact E.
        -- exists t. left. reflexivity.
    + inversion H; subst. pose proof (min_head_none ss Em) as Hnil. split.
      * constructor.
        -- intros r0 t0 E. inversion E; subst. rewrite (kcmp_refl_key pre r0 r0 eq_refl). discriminate.
        -- eapply Forall_impl; [|exact Hnil]. intros s -> r0 t0 E. discriminate.
      * exists t. left. reflexivity.
Qed.

Definition hd_of (m : list (list Z)) (s : list (list (list Z))) : list (list (list Z)) :=
  match s with r :: _ => if key_eqb pre r m then [r] else [] | [] => [] end.
Definition tl_of (m : list (list Z)) (s : list (list (list Z))) : list (list (list Z)) :=
  match s with r :: t => if key_eqb pre r m then t else s | [] => [] end.

Lemma stream_step m s : StronglySorted (klt pre) s -> head_ge m s ->
  s = hd_of m s ++ tl_of m s /\
  Forall (fun r => key_of pre r = key_of pre m) (hd_of m s) /\
  Forall ((klt pre) m) (tl_of m s) /\ StronglySorted (klt pre) (tl_of m s).
Proof.
  intros HS Hge. destruct s as [|r t]; cbn [hd_of tl_of].
  - repeat split; constructor.
  - inversion HS as [|? ? HS' HF]; subst.
    destruct (key_eqb pre r m) eqn:E.
    + apply key_eqb_iff in E. repeat split.
      * constructor; [exact E|constructor].
      * eapply Forall_impl; [|exact HF]. intros y Hy. unfold klt in *.
        rewrite <- (kcmp_key_l pre r m y E). exact Hy.
      * exact HS'.
    + assert (Hlt : (kcmp pre) m r = Lt).
      { specialize (Hge r t eq_refl). destruct ((kcmp pre) m r) eqn:Emr; try congruence.
        apply kcmp_eq in Emr. symmetry in Emr. apply key_eqb_iff in Emr. congruence. }
      repeat split.
      * constructor.
      * constructor; [exact Hlt|]. eapply Forall_impl; [|exact HF]. intros y Hy. unfold klt in *.
        eapply kcmp_lt_trans; eassumption.
      * exact HS.
Qed.

Lemma pop_heads_eq m ss : pop_heads pre m ss = flat_map (hd_of m) ss.
Proof. reflexivity. Qed.
Lemma drop_heads_eq m ss : drop_heads pre m ss = map (tl_of m) ss.
Proof. reflexivity. Qed.

Lemma kmerge_step m ss : Forall (StronglySorted (klt pre)) ss -> Forall (head_ge m) ss ->
  Permutation (concat ss) (pop_heads pre m ss ++ concat (drop_heads pre m ss)) /\
  Forall (fun r => key_of pre r = key_of pre m) (pop_heads pre m ss) /\
  Forall ((klt pre) m) (concat (drop_heads pre m ss)) /\
  Forall (StronglySorted (klt pre)) (drop_heads pre m ss).
Proof.
  rewrite pop_heads_eq, drop_heads_eq.
  intros HS Hge. induction HS as [|s ss Hs HS IH]; [simpl; repeat split; constructor|].
  inversion Hge as [|? ? Hg Hge']; subst.
  destruct (IH Hge') as [IP [IK [IL IS]]].
  destruct (stream_step m s Hs Hg) as [Es [Hk [Hl Hs']]].
  cbn [flat_map map concat]. repeat split.
  - rewrite Es at 1. rewrite <- !app_assoc. apply Permutation_app_head.
    eapply Permutation_trans; [apply Permutation_app_head; exact IP|].
    apply Permutation_app_swap_app.
  - apply Forall_app. split; assumption.
  - apply Forall_app. split; assumption.
  - constructor; assumption.
Qed.

Lemma wfr_fold_mrow t : forall h, (wfr pre) h -> (wfr pre) (fold_left (mrow c pre) t h).
Proof. induction t as [|x t IH]; intros h Hh; [exact Hh|]. simpl. apply IH. apply wfr_mrow. exact Hh. Qed.

Lemma key_fold_mrow t : forall h, (wfr pre) h -> key_of pre (fold_left (mrow c pre) t h) = key_of pre h.
Proof.
  induction t as [|x t IH]; intros h Hh; [reflexivity|]. simpl.
  rewrite IH by (apply wfr_mrow; exact Hh). apply key_mrow. exact Hh.
Qed.

Lemma mrow_fold a t : forall b, (wfr pre) a -> (wfr pre) b ->
  mrow c pre a (fold_left (mrow c pre) t b) = fold_left (mrow c pre) t (mrow c pre a b).
Proof.
  induction t as [|x t IH]; intros b Ha Hb; [reflexivity|]. simpl.
  rewrite IH by (try assumption; apply wfr_mrow; exact Hb). rewrite mrow_assoc by assumption. reflexivity.
Qed.

(* rows of one key, inserted in front of greater keys: one combined row *)
Lemma fold_rinsert_same_key L : forall t h, (wfr pre) h -> Forall (wfr pre) t ->
  Forall (fun r => key_of pre r = key_of pre h) t -> Forall ((klt pre) h) L ->
  fold_right (rinsert c pre) L (h :: t) = fold_left (mrow c pre) t h :: L.
Proof.
  induction t as [|h2 t IH]; intros h Hh Ht Hk HL.
  - simpl. apply rinsert_lt_head. exact HL.
  - inversion Ht as [|? ? Hh2 Ht']; subst. inversion Hk as [|? ? Kh2 Hk']; subst.
    change (fold_right (rinsert c pre) L (h :: h2 :: t)) with ((rinsert c pre) h (fold_right (rinsert c pre) L (h2 :: t))).
    rewrite (IH h2); try assumption.
    + cbn [rinsert].
      rewrite (kcmp_key_r pre h _ h2 (key_fold_mrow t h2 Hh2)).
      rewrite (kcmp_refl_key pre h h2) by congruence.
      rewrite mrow_fold by assumption. reflexivity.
    + eapply Forall_impl; [|exact Hk']. intros y Hy. congruence.
    + eapply Forall_impl; [|exact HL]. intros y Hy. unfold klt in *.
      rewrite (kcmp_key_l pre h2 h y Kh2). exact Hy.
Qed.

Theorem kmerge_correct : forall fuel ss,
  length (concat ss) < fuel ->
  Forall (StronglySorted (klt pre)) ss -> Forall (Forall (wfr pre)) ss ->
  kmerge c pre fuel ss = (rlist c pre) (concat ss).
Proof.
  induction fuel as [|fuel IH]; intros ss Hlen HS Hwf; [lia|].
  cbn [kmerge]. destruct (min_head pre ss) as [m|] eqn:Em.
  - destruct (min_head_spec ss m Em) as [Hge [tm Hin]].
    destruct (kmerge_step m ss HS Hge) as [HP [HK [HL HS']]].
    assert (Hwfc : Forall (wfr pre) (concat ss)) by (apply Forall_concat; exact Hwf).
    assert (Hwf2 : Forall (wfr pre) (pop_heads pre m ss ++ concat (drop_heads pre m ss)))
      by (eapply Permutation_Forall; [exact HP|exact Hwfc]).
    apply Forall_app in Hwf2 as [Hwfp Hwfd].
    assert (Hm : In m (pop_heads pre m ss)).
    { rewrite pop_heads_eq. apply in_flat_map. exists (m :: tm). split; [exact Hin|].
      cbn [hd_of]. rewrite (proj2 (key_eqb_iff m m) eq_refl). left. reflexivity. }
    destruct (pop_heads pre m ss) as [|h t] eqn:Ep; [contradiction|].
    assert (Hlen' : length (concat (drop_heads pre m ss)) < fuel).
    { apply Permutation_length in HP. rewrite app_length in HP. simpl in HP. lia. }
    rewrite (IH _ Hlen' HS') by (apply Forall_concat; exact Hwfd).
    rewrite (rlist_perm c pre _ _ HP Hwfc). rewrite rlist_app.
    inversion Hwfp as [|? ? Hh Ht]; subst. inversion HK as [|? ? Kh Kt]; subst.
    cbn [combine_heads app].
    rewrite fold_rinsert_same_key; try assumption; [reflexivity| |].
    + eapply Forall_impl; [|exact Kt]. intros y Hy. congruence.
    + apply rlist_Forall; [intros u v E; apply klt_key_r; exact E|exact Hwfd|].
      eapply Forall_impl; [|exact HL]. intros y Hy. unfold klt in *.
      rewrite (kcmp_key_l pre h m y Kh). exact Hy.
  - pose proof (min_head_none ss Em) as Hnil.
    assert (E : concat ss = []).
    { clear - Hnil. induction Hnil as [|s ss -> _ IH]; [reflexivity|exact IH]. }
    rewrite E. reflexivity.
Qed.

Lemma merge_reduce_correct ss :
  Forall (StronglySorted (klt pre)) ss -> Forall (Forall (wfr pre)) ss ->
  merge_reduce c pre ss = (rlist c pre) (concat ss).
Proof. intros HS Hwf. unfold merge_reduce. apply kmerge_correct; [lia|assumption|assumption]. Qed.

Lemma reduce_reader_correct ss :
  Forall (StronglySorted (klt pre)) ss -> Forall (Forall (wfr pre)) ss ->
  reduce_reader c pre ss = (rlist c pre) (concat ss).
Proof.
  intros HS Hwf. destruct ss as [|s [|s2 ss]]; try (apply merge_reduce_correct; assumption).
  cbn [reduce_reader concat]. rewrite app_nil_r. symmetry. apply rlist_of_sorted.
  inversion HS; assumption.
Qed.

End Merge.

(* ====================================================================== *)
(* 5. Frames: the row-wise operators do not depend on the chunk size       *)
(* ====================================================================== *)

Lemma chunks_fuel_concat {A} n : 1 <= n -> forall fuel (l : list A),
  length l <= fuel -> concat (chunks_fuel fuel n l) = l.
Proof.
  intro Hn. induction fuel as [|fuel IH]; intros l Hl.
  - destruct l; [reflexivity|simpl in Hl; lia].
  - destruct l as [|x l]; [reflexivity|]. cbn [chunks_fuel concat].
    rewrite IH; [apply firstn_skipn|]. rewrite skipn_length. cbn [length] in Hl |- *. lia.
Qed.

Lemma concat_chunks {A} n (l : list A) : 1 <= n -> concat (chunks n l) = l.
Proof. intro Hn. unfold chunks. apply chunks_fuel_concat; [exact Hn|lia]. Qed.

Lemma chunked_hom {A B} n (F : list A -> list B) l :
  1 <= n -> (forall ls, concat (map F ls) = F (concat ls)) -> chunked n F l = F l.
Proof. intros Hn HF. unfold chunked. rewrite HF, concat_chunks by exact Hn. reflexivity. Qed.

Lemma chunked_map {A B} n (f : A -> B) l : 1 <= n -> chunked n (map f) l = map f l.
Proof. intro Hn. apply chunked_hom; [exact Hn|]. intro ls. apply map_commutes. Qed.

Lemma chunked_filter {A} n (f : A -> bool) l : 1 <= n -> chunked n (filter f) l = filter f l.
Proof. intro Hn. apply chunked_hom; [exact Hn|]. intro ls. apply filter_commutes. Qed.

Lemma chunked_flat_map {A B} n (f : A -> list B) l : 1 <= n -> chunked n (flat_map f) l = flat_map f l.
Proof. intro Hn. apply chunked_hom; [exact Hn|]. intro ls. apply flatmap_commutes. Qed.

Lemma head_frames_firstn {A} : forall (frames : list (list A)) n,
  head_frames n frames = firstn n (concat frames).
Proof.
  induction frames as [|fr rest IH]; intro n; cbn [head_frames concat]; [rewrite firstn_nil; reflexivity|].
  destruct n as [|n']; [reflexivity|].
  rewrite IH, firstn_app. f_equal. rewrite firstn_length.
  destruct (Nat.le_ge_cases (S n') (length fr)) as [Hle|Hge].
  - rewrite Nat.min_l by exact Hle. replace (S n' - S n') with 0 by lia.
    replace (S n' - length fr) with 0 by lia. reflexivity.
  - rewrite Nat.min_r by exact Hge. reflexivity.
Qed.

Lemma head_exec_firstn_z {A} ch n (l : list A) : 1 <= ch -> head_exec ch n l = firstn_z n l.
Proof.
  intro Hc. unfold head_exec, firstn_z. destruct (n <=? 0)%Z; [reflexivity|].
  rewrite head_frames_firstn, concat_chunks by exact Hc. reflexivity.
Qed.

(* chunked map / filter / flatmap / head = unchunked, for every chunk >= 1 *)
Theorem exec_rowwise_chunking_irrelevant ch : 1 <= ch ->
  (forall A B (f : A -> B) l, chunked ch (map f) l = map f l) /\
  (forall A (f : A -> bool) l, chunked ch (filter f) l = filter f l) /\
  (forall A B (f : A -> list B) l, chunked ch (flat_map f) l = flat_map f l) /\
  (forall A n (l : list A), head_exec ch n l = firstn_z n l).
Proof.
  intro Hc. repeat split; intros.
  - apply chunked_map; exact Hc.
  - apply chunked_filter; exact Hc.
  - apply chunked_flat_map; exact Hc.
  - apply head_exec_firstn_z; exact Hc.
Qed.

(* ====================================================================== *)
(* 6. Shuffles                                                             *)
(* ====================================================================== *)

Lemma is_perm_spec l m : is_perm l m = true -> Permutation l (seq 0 m).
Proof.
  unfold is_perm. intro H. apply andb_true_iff in H as [Hlen Hall].
  apply Nat.eqb_eq in Hlen. rewrite forallb_forall in Hall.
  apply Permutation_sym. apply NoDup_Permutation_bis.
  - apply seq_NoDup.
  - rewrite seq_length. lia.
  - intros j Hj. specialize (Hall j Hj). apply existsb_exists in Hall as [j' [Hin E]].
    apply Nat.eqb_eq in E. subst. exact Hin.
Qed.

Lemma perms_spec ord m n : perms ord m n = true -> forall p, p < n -> Permutation (ord p) (seq 0 m).
Proof.
  unfold perms. intros H p Hp. rewrite forallb_forall in H. apply is_perm_spec. apply H. apply in_seq. lia.
Qed.

Lemma map_nth_seq {A} (l : list A) d : map (fun j => nth j l d) (seq 0 (length l)) = l.
Proof.
  induction l as [|x l IH]; [reflexivity|]. cbn [length seq map nth].
  f_equal. rewrite <- seq_shift, map_map. exact IH.
Qed.

Lemma flat_map_nth_seq {A B} (g : A -> list B) (l : list A) d :
  flat_map (fun j => g (nth j l d)) (seq 0 (length l)) = flat_map g l.
Proof.
  rewrite !flat_map_concat_map. rewrite <- (map_map (fun j => nth j l d) g), map_nth_seq. reflexivity.
Qed.

Lemma Permutation_filter {A} (f : A -> bool) l l' : Permutation l l' -> Permutation (filter f l) (filter f l').
Proof.
  intro HP. induction HP as [|x l l' HP IH|x y l|l l' l'' HP1 IH1 HP2 IH2]; cbn [filter].
  - constructor.
  - destruct (f x); [constructor|]; exact IH.
  - destruct (f x), (f y); try apply Permutation_refl. constructor.
  - eapply Permutation_trans; eassumption.
Qed.

Lemma Forall2_perm_flat_map {A B} (g : list A -> list B) l l' :
  (forall a b, Permutation a b -> Permutation (g a) (g b)) ->
  Forall2 (@Permutation A) l l' -> Permutation (flat_map g l) (flat_map g l').
Proof.
  intros Hg H. induction H as [|a b l l' Hab H IH]; cbn [flat_map]; [constructor|].
  apply Permutation_app; [apply Hg; exact Hab|exact IH].
Qed.

Lemma Forall2_map_same {A B C} (R : B -> C -> Prop) (g : A -> B) (h : A -> C) l :
  (forall x, In x l -> R (g x) (h x)) -> Forall2 R (map g l) (map h l).
Proof.
  induction l as [|x l IH]; intro H; cbn [map]; constructor.
  - apply H. left. reflexivity.
  - apply IH. intros y Hy. apply H. right. exact Hy.
Qed.

Lemma partition_out_nth ch f n sh p : 1 <= ch -> p < n ->
  nth p (partition_out ch f n sh) [] = filter (fun r => Nat.eqb (f r) p) sh.
Proof.
  intros Hc Hp. unfold partition_out.
  rewrite (nth_map_lt _ _ _ 0) by (rewrite seq_length; exact Hp).
  rewrite seq_nth by exact Hp. cbn [Nat.add]. apply chunked_filter. exact Hc.
Qed.

Lemma part_of_parts ch f n shards j p : 1 <= ch -> p < n ->
  part_of (map (partition_out ch f n) shards) j p = filter (fun r => Nat.eqb (f r) p) (nth j shards []).
Proof.
  intros Hc Hp. unfold part_of.
  destruct (Nat.lt_ge_cases j (length shards)) as [Hj|Hj].
  - rewrite (nth_map_lt _ _ _ []) by exact Hj. apply partition_out_nth; assumption.
  - rewrite (nth_overflow (map _ _)) by (rewrite map_length; exact Hj).
    rewrite (nth_overflow shards) by exact Hj. destruct p; reflexivity.
Qed.

Lemma exec_shuffle_eq ch ord f n shards : 1 <= ch ->
  exec_shuffle ch ord f n shards
  = map (fun p => flat_map (fun j => filter (fun r => Nat.eqb (f r) p) (nth j shards [])) (ord p)) (seq 0 n).
Proof.
  intro Hc. unfold exec_shuffle. apply map_ext_in. intros p Hp. apply in_seq in Hp.
  apply flat_map_ext. intro j. apply part_of_parts; [exact Hc|lia].
Qed.

(* consumer shard p holds, whatever the order in which the producers are read,
   a permutation of the reference's shard p *)
Theorem exec_shuffle_permutation ch ord f n shards shards' :
  1 <= ch -> perms ord (length shards) n = true ->
  Forall2 (@Permutation _) shards shards' ->
  Forall2 (@Permutation _) (exec_shuffle ch ord f n shards) (shuffle f n shards').
Proof.
  intros Hc Hord HP. rewrite exec_shuffle_eq by exact Hc. unfold shuffle.
  apply Forall2_map_same. intros p Hp. apply in_seq in Hp.
  eapply Permutation_trans.
  - apply (Permutation_flat_map (fun j => filter (fun r => Nat.eqb (f r) p) (nth j shards []))).
    apply (perms_spec _ _ _ Hord p). lia.
  - rewrite (flat_map_nth_seq (fun sh => filter (fun r => Nat.eqb (f r) p) sh) shards []).
    apply Forall2_perm_flat_map; [|exact HP]. intros a b. apply Permutation_filter.
Qed.

(* ... and exactly the reference's shard when the producers are read in index order *)
Theorem exec_shuffle_identity ch ord f n shards :
  1 <= ch -> (forall p, p < n -> ord p = seq 0 (length shards)) ->
  exec_shuffle ch ord f n shards = shuffle f n shards.
Proof.
  intros Hc Hord. rewrite exec_shuffle_eq by exact Hc. unfold shuffle.
  apply map_ext_in. intros p Hp. apply in_seq in Hp. rewrite Hord by lia.
  apply (flat_map_nth_seq (fun sh => filter (fun r => Nat.eqb (f r) p) sh) shards []).
Qed.

(* ====================================================================== *)
(* 7. Reduce: where and how often rows are combined does not matter        *)
(* ====================================================================== *)

Lemma Forall_filter {A} (P : A -> Prop) f l : Forall P l -> Forall P (filter f l).
Proof.
  intro H. induction H as [|x l Hx H IH]; cbn [filter]; [constructor|].
  destruct (f x); [constructor|]; assumption.
Qed.

Lemma Forall_nth_default {A} (Q : A -> Prop) l d j : Forall Q l -> Q d -> Q (nth j l d).
Proof.
  intros H Hd. revert j. induction H as [|x l Hx H IH]; intros [|j]; cbn [nth]; auto.
Qed.

Lemma Forall2_perm_Forall {A} (P : A -> Prop) l l' :
  Forall2 (@Permutation A) l l' -> Forall (Forall P) l' -> Forall (Forall P) l.
Proof.
  intro H. induction H as [|a b l l' Hab H IH]; intro HF; [constructor|].
  inversion HF; subst. constructor; [|apply IH; assumption].
  eapply Permutation_Forall; [apply Permutation_sym; exact Hab|assumption].
Qed.

Lemma Permutation_concat_perm {A} (ls ls' : list (list A)) :
  Permutation ls ls' -> Permutation (concat ls) (concat ls').
Proof.
  intro H. induction H as [|x l l' H IH|x y l|l l' l'' H1 IH1 H2 IH2]; cbn [concat].
  - constructor.
  - apply Permutation_app_head. exact IH.
  - apply Permutation_app_swap_app.
  - eapply Permutation_trans; eassumption.
Qed.

Lemma part_of_map (G : list (list (list Z)) -> list (list (list Z))) parts j p :
  G [] = [] -> part_of (map (map G) parts) j p = G (part_of parts j p).
Proof.
  intro HG. unfold part_of.
  assert (E1 : nth j (map (map G) parts) [] = map G (nth j parts []))
    by exact (map_nth (map G) parts [] j).
  rewrite E1.
  transitivity (nth p (map G (nth j parts [])) (G [])); [rewrite HG; reflexivity|apply map_nth].
Qed.

Lemma combiner_out_nil spill c pre : combiner_out spill c pre [] = [].
Proof. reflexivity. Qed.

(* a combiner that spills sorted runs and merges them = one combination *)
Theorem combiner_out_correct spill c pre rows :
  1 <= spill -> Forall (wfr pre) rows -> combiner_out spill c pre rows = rlist c pre rows.
Proof.
  intros Hs Hwf. unfold combiner_out.
  assert (Hch : Forall (Forall (wfr pre)) (chunks spill rows)).
  { apply Forall_concat. rewrite concat_chunks by exact Hs. exact Hwf. }
  rewrite (map_ext_in _ (rlist c pre)).
  - rewrite merge_reduce_correct.
    + rewrite rlist_concat_map by exact Hch. rewrite concat_chunks by exact Hs. reflexivity.
    + apply Forall_map. eapply Forall_impl; [|exact Hch]. intros l Hl. apply rlist_sorted. exact Hl.
    + apply Forall_map. eapply Forall_impl; [|exact Hch]. intros l Hl. apply rlist_wf. exact Hl.
  - intros l Hl. apply reduce_shard_rlist. rewrite Forall_forall in Hch. apply Hch. exact Hl.
Qed.

(* rows that combine to the same list may replace each other inside a larger list *)
Lemma rlist_app_congr c pre A A' B B' :
  Forall (wfr pre) A -> Forall (wfr pre) A' -> Forall (wfr pre) B -> Forall (wfr pre) B' ->
  rlist c pre A = rlist c pre A' -> rlist c pre B = rlist c pre B' ->
  rlist c pre (A ++ B) = rlist c pre (A' ++ B').
Proof.
  intros HA HA' HB HB' EA EB.
  assert (R : forall X Y, Forall (wfr pre) X -> Forall (wfr pre) Y ->
              rlist c pre (X ++ Y) = rlist c pre (rlist c pre X ++ rlist c pre Y)).
  { intros X Y HX HY. rewrite (rlist_absorb c pre X (rlist c pre Y) HX).
    assert (W1 : Forall (wfr pre) (X ++ rlist c pre Y))
      by (apply Forall_app; split; [exact HX|apply rlist_wf; exact HY]).
    rewrite (rlist_perm c pre (X ++ rlist c pre Y) (rlist c pre Y ++ X) (Permutation_app_comm _ _) W1).
    rewrite (rlist_absorb c pre Y X HY).
    apply rlist_perm; [apply Permutation_app_comm|apply Forall_app; split; assumption]. }
  rewrite (R A B HA HB), (R A' B' HA' HB'), EA, EB. reflexivity.
Qed.

Lemma rlist_flat_map_congr c pre (F G : nat -> list (list (list Z))) js :
  (forall j, Forall (wfr pre) (F j)) -> (forall j, Forall (wfr pre) (G j)) ->
  (forall j, rlist c pre (F j) = rlist c pre (G j)) ->
  rlist c pre (flat_map F js) = rlist c pre (flat_map G js).
Proof.
  intros HF HG E. induction js as [|j js IH]; [reflexivity|]. cbn [flat_map].
  apply rlist_app_congr; auto; apply Forall_flat_map; apply Forall_forall; intros; auto.
Qed.

(* the flushes of a task's combining buffer combine to what the rows combine to *)
Lemma task_flushes_spec fl c pre rows : 1 <= fl -> Forall (wfr pre) rows ->
  Forall (wfr pre) (task_flushes fl c pre rows) /\
  rlist c pre (task_flushes fl c pre rows) = rlist c pre rows.
Proof.
  intros Hf Hwf. unfold task_flushes.
  assert (Hch : Forall (Forall (wfr pre)) (chunks fl rows)).
  { apply Forall_concat. rewrite concat_chunks by exact Hf. exact Hwf. }
  rewrite (map_ext_in _ (rlist c pre))
    by (intros l Hl; apply reduce_shard_rlist; rewrite Forall_forall in Hch; apply Hch; exact Hl).
  split.
  - apply Forall_concat. apply Forall_map. eapply Forall_impl; [|exact Hch]. intros l Hl. apply rlist_wf. exact Hl.
  - rewrite rlist_concat_map by exact Hch. rewrite concat_chunks by exact Hf. reflexivity.
Qed.

Section ReduceExec.
Variable st : strategy.
Variable k : nat.
Variable c : comb.
Variable pre : nat.
Variable f : list (list Z) -> nat.
Variable n : nat.
Variables shards shards' : list (list (list (list Z))).
Hypothesis Hchunk : 1 <= chunk st.
Hypothesis Hspill : 1 <= cspill st.
Hypothesis Hflush : 1 <= pflush st.
Hypothesis Hperm : Forall2 (@Permutation _) shards shards'.
Hypothesis Hwf' : Forall (Forall (wfr pre)) shards'.
Variable p : nat.
Hypothesis Hp : p < n.

Definition re_filt := fun sh : list (list (list Z)) => filter (fun r => Nat.eqb (f r) p) sh.
Definition re_P := fun j => re_filt (nth j shards []).
(* what producer j hands to the combiner of partition p *)
Definition re_Fl := fun j => if precombine st k then task_flushes (pflush st) c pre (re_P j) else re_P j.
Definition re_flushed :=
  if precombine st k
  then map (map (task_flushes (pflush st) c pre)) (map (partition_out (chunk st) f n) shards)
  else map (partition_out (chunk st) f n) shards.

Lemma re_wf_shards : Forall (Forall (wfr pre)) shards.
Proof. eapply Forall2_perm_Forall; eassumption. Qed.

Lemma re_wf_P j : Forall (wfr pre) (re_P j).
Proof.
  unfold re_P, re_filt. apply Forall_filter. apply Forall_nth_default; [apply re_wf_shards|constructor].
Qed.

Lemma re_wf_Fl j : Forall (wfr pre) (re_Fl j).
Proof.
  unfold re_Fl. destruct (precombine st k); [|apply re_wf_P].
  apply task_flushes_spec; [exact Hflush|apply re_wf_P].
Qed.

Lemma re_rlist_Fl j : rlist c pre (re_Fl j) = rlist c pre (re_P j).
Proof.
  unfold re_Fl. destruct (precombine st k); [|reflexivity].
  apply task_flushes_spec; [exact Hflush|apply re_wf_P].
Qed.

Lemma re_wf_flat_P js : Forall (wfr pre) (flat_map re_P js).
Proof. apply Forall_flat_map. apply Forall_forall. intros j _. apply re_wf_P. Qed.

Lemma re_wf_flat_Fl js : Forall (wfr pre) (flat_map re_Fl js).
Proof. apply Forall_flat_map. apply Forall_forall. intros j _. apply re_wf_Fl. Qed.

Lemma re_part_of j : part_of re_flushed j p = re_Fl j.
Proof.
  unfold re_flushed, re_Fl. destruct (precombine st k).
  - rewrite part_of_map by reflexivity. rewrite part_of_parts by assumption. reflexivity.
  - rewrite part_of_parts by assumption. reflexivity.
Qed.

Lemma re_Fl_P js : rlist c pre (flat_map re_Fl js) = rlist c pre (flat_map re_P js).
Proof. apply rlist_flat_map_congr; [apply re_wf_Fl|apply re_wf_P|apply re_rlist_Fl]. Qed.

Lemma re_final js : Permutation js (seq 0 (length shards)) ->
  rlist c pre (flat_map re_P js) = reduce_shard c pre (flat_map re_filt shards').
Proof.
  intro Hjs.
  assert (HP : Permutation (flat_map re_P js) (flat_map re_filt shards')).
  { eapply Permutation_trans; [apply (Permutation_flat_map re_P); exact Hjs|].
    unfold re_P. rewrite (flat_map_nth_seq re_filt shards []).
    apply Forall2_perm_flat_map; [|exact Hperm]. intros a b. apply Permutation_filter. }
  rewrite (rlist_perm c pre _ _ HP) by apply re_wf_flat_P.
  symmetry. apply reduce_shard_rlist.
  eapply Permutation_Forall; [exact HP|apply re_wf_flat_P].
Qed.

Lemma re_consumer :
  (if gcombine st k
   then is_perm (concat (groups st k)) (length shards) && perms (gorder st k) (length (groups st k)) n
   else perms (order st k) (length shards) n) = true ->
  (if gcombine st k then
     let gs := map (fun g => combiner_out (cspill st) c pre (flat_map (fun j => part_of re_flushed j p) g))
                   (groups st k) in
     reduce_reader c pre (map (fun gi => nth gi gs []) (gorder st k p))
   else if precombine st k then
     reduce_reader c pre (map (fun j => combiner_out (cspill st) c pre (part_of re_flushed j p)) (order st k p))
   else
     reduce_reader c pre
       [combiner_out (cspill st) c pre (concat (map (fun j => part_of re_flushed j p) (order st k p)))])
  = reduce_shard c pre (flat_map re_filt shards').
Proof.
  intro Hst. destruct (gcombine st k).
  - (* machine combiners *)
    apply andb_true_iff in Hst as [Hgroups Hgord]. apply is_perm_spec in Hgroups.
    pose proof (perms_spec _ _ _ Hgord p Hp) as Hgo. cbv zeta.
    set (S := fun g => rlist c pre (flat_map re_Fl g)).
    rewrite (map_ext _ (fun gi => S (nth gi (groups st k) []))).
    2:{ intro gi.
        transitivity ((fun g => combiner_out (cspill st) c pre (flat_map (fun j => part_of re_flushed j p) g))
                        (nth gi (groups st k) []));
          [exact (map_nth (fun g => combiner_out (cspill st) c pre (flat_map (fun j => part_of re_flushed j p) g))
                          (groups st k) [] gi)|].
        unfold S. cbv beta.
        rewrite (flat_map_ext _ re_Fl) by (intro j; apply re_part_of).
        apply combiner_out_correct; [exact Hspill|apply re_wf_flat_Fl]. }
    rewrite <- (map_map (fun gi => nth gi (groups st k) []) S).
    set (Gs := map (fun gi => nth gi (groups st k) []) (gorder st k p)).
    assert (HGs : Permutation Gs (groups st k)).
    { unfold Gs. eapply Permutation_trans; [apply Permutation_map; exact Hgo|].
      rewrite map_nth_seq. apply Permutation_refl. }
    rewrite reduce_reader_correct.
    + unfold S. rewrite <- (map_map (flat_map re_Fl) (rlist c pre)).
      rewrite rlist_concat_map by (apply Forall_map; apply Forall_forall; intros g _; apply re_wf_flat_Fl).
      rewrite flatmap_commutes. rewrite re_Fl_P. apply re_final.
      eapply Permutation_trans; [apply Permutation_concat_perm; exact HGs|exact Hgroups].
    + apply Forall_map. apply Forall_forall. intros g _. apply rlist_sorted. apply re_wf_flat_Fl.
    + apply Forall_map. apply Forall_forall. intros g _. apply rlist_wf. apply re_wf_flat_Fl.
  - pose proof (perms_spec _ _ _ Hst p Hp) as Hord.
    destruct (precombine st k) eqn:Epc.
    + (* one combiner per task *)
      rewrite (map_ext _ (fun j => rlist c pre (re_Fl j))).
      2:{ intro j. rewrite re_part_of. apply combiner_out_correct; [exact Hspill|apply re_wf_Fl]. }
      rewrite reduce_reader_correct.
      * rewrite <- (map_map re_Fl (rlist c pre)).
        rewrite rlist_concat_map by (apply Forall_map; apply Forall_forall; intros j _; apply re_wf_Fl).
        rewrite <- flat_map_concat_map. rewrite re_Fl_P. apply re_final. exact Hord.
      * apply Forall_map. apply Forall_forall. intros j _. apply rlist_sorted. apply re_wf_Fl.
      * apply Forall_map. apply Forall_forall. intros j _. apply rlist_wf. apply re_wf_Fl.
    + (* combining at the consumer only *)
      cbn [reduce_reader].
      rewrite (map_ext _ re_Fl) by (intro j; apply re_part_of).
      rewrite <- flat_map_concat_map.
      rewrite combiner_out_correct by (try exact Hspill; apply re_wf_flat_Fl).
      rewrite re_Fl_P. apply re_final. exact Hord.
Qed.

End ReduceExec.

(* For every well-formed strategy the operational Reduce of a node equals,
   shard by shard, the reference's, given inputs whose shards are
   permutations of the reference's *)
Theorem exec_reduce_strategy_irrelevant st k c pre f n shards shards' :
  1 <= chunk st -> 1 <= cspill st -> 1 <= pflush st ->
  (if gcombine st k
   then is_perm (concat (groups st k)) (length shards) && perms (gorder st k) (length (groups st k)) n
   else perms (order st k) (length shards) n) = true ->
  Forall2 (@Permutation _) shards shards' ->
  Forall (Forall (wfr pre)) shards' ->
  exec_reduce st k c pre f n shards = map (reduce_shard c pre) (shuffle f n shards').
Proof.
  intros Hc Hs Hf Hst HP Hwf. unfold shuffle. rewrite map_map. unfold exec_reduce.
  apply map_ext_in. intros p Hp. apply in_seq in Hp.
  apply (re_consumer st k c pre f n shards shards' Hc Hs Hf HP Hwf p); [lia|exact Hst].
Qed.

(* the merging reader of sortio (k-way merge, equal keys combined) over
   combined, key-sorted streams = one reduction of all their rows *)
Theorem merge_reduce_reduce_shard c pre ss :
  Forall (fun s => Forall (fun r : list (list Z) => pre <= length r) s) ss ->
  merge_reduce c pre (map (reduce_shard c pre) ss) = reduce_shard c pre (concat ss).
Proof.
  intro Hwf. change (Forall (Forall (wfr pre)) ss) in Hwf.
  rewrite (map_ext_in _ (rlist c pre))
    by (intros l Hl; apply reduce_shard_rlist; rewrite Forall_forall in Hwf; apply Hwf; exact Hl).
  rewrite merge_reduce_correct.
  - rewrite rlist_concat_map by exact Hwf. symmetry. apply reduce_shard_rlist. apply Forall_concat. exact Hwf.
  - apply Forall_map. eapply Forall_impl; [|exact Hwf]. intros l Hl. apply rlist_sorted. exact Hl.
  - apply Forall_map. eapply Forall_impl; [|exact Hwf]. intros l Hl. apply rlist_wf. exact Hl.
Qed.

(* a combiner, whatever its spill size, computes the reduction of its input *)
Theorem combiner_out_reduce_shard spill c pre rows :
  1 <= spill -> Forall (fun r : list (list Z) => pre <= length r) rows ->
  combiner_out spill c pre rows = reduce_shard c pre rows.
Proof.
  intros Hs Hwf. rewrite combiner_out_correct by assumption. symmetry. apply reduce_shard_rlist. exact Hwf.
Qed.

(* ====================================================================== *)
(* 8. Fold: accumulating per key in arrival order, frame by frame          *)
(* ====================================================================== *)

Definition torow (ka : list Z * Z) : list (list Z) := [fst ka; [snd ka]].

Lemma fold_shard_reduce sh : fold_shard sh = reduce_shard CSum 1 (map fold_row sh).
Proof. reflexivity. Qed.

Lemma wfr_fold_row r : wfr 1 (fold_row r).
Proof. unfold wfr, fold_row. simpl. lia. Qed.
Lemma wfr_torow ka : wfr 1 (torow ka).
Proof. unfold wfr, torow. simpl. lia. Qed.

Lemma wf_map_fold_row l : Forall (wfr 1) (map fold_row l).
Proof. apply Forall_map. apply Forall_forall. intros r _. apply wfr_fold_row. Qed.
Lemma wf_map_torow l : Forall (wfr 1) (map torow l).
Proof. apply Forall_map. apply Forall_forall. intros r _. apply wfr_torow. Qed.

Lemma fold_left_shift l : forall a,
  fold_left (fun s c => (s + scalar c)%Z) l a = (a + fold_left (fun s c => (s + scalar c)%Z) l 0%Z)%Z.
Proof.
  induction l as [|x l IH]; intro a; cbn [fold_left]; [lia|].
  rewrite (IH (a + scalar x)%Z), (IH (0 + scalar x)%Z). lia.
Qed.

Lemma cell_eqb_true a b : cell_eqb a b = true -> a = b.
Proof. unfold cell_eqb. destruct (cell_cmp a b) eqn:E; try discriminate. intros _. apply cell_cmp_eq. exact E. Qed.
Lemma cell_eqb_false a b : cell_eqb a b = false -> a <> b.
Proof. unfold cell_eqb. intros H ->. rewrite cell_cmp_refl in H. discriminate. Qed.

Lemma upsert_rlist key (f : Z -> Z) : (forall a, f a = (a + f 0%Z)%Z) -> forall acc,
  rlist CSum 1 (map torow (upsert key f acc))
  = rinsert CSum 1 [key; [f 0%Z]] (rlist CSum 1 (map torow acc)).
Proof.
  intros Hf. induction acc as [|[k' a] rest IH]; [reflexivity|].
  cbn [upsert]. destruct (cell_eqb k' key) eqn:E.
  - apply cell_eqb_true in E. subst k'. cbn [map].
    change (rlist CSum 1 (torow (key, f a) :: map torow rest))
      with (rinsert CSum 1 (torow (key, f a)) (rlist CSum 1 (map torow rest))).
    change (rlist CSum 1 (torow (key, a) :: map torow rest))
      with (rinsert CSum 1 (torow (key, a)) (rlist CSum 1 (map torow rest))).
    rewrite rinsert_merge; [|unfold wfr; simpl; lia|apply wfr_torow|reflexivity].
    f_equal. unfold mrow, torow. cbn. rewrite (Hf a). f_equal. f_equal. f_equal. lia.
  - cbn [map].
    change (rlist CSum 1 (torow (k', a) :: map torow (upsert key f rest)))
      with (rinsert CSum 1 (torow (k', a)) (rlist CSum 1 (map torow (upsert key f rest)))).
    change (rlist CSum 1 (torow (k', a) :: map torow rest))
      with (rinsert CSum 1 (torow (k', a)) (rlist CSum 1 (map torow rest))).
    rewrite IH. apply rinsert_comm; [apply wfr_torow|unfold wfr; simpl; lia].
Qed.

Lemma fold_step_rlist acc r :
  rlist CSum 1 (map torow (fold_step acc r)) = rinsert CSum 1 (fold_row r) (rlist CSum 1 (map torow acc)).
Proof.
  unfold fold_step. rewrite upsert_rlist; [reflexivity|]. intro a. apply fold_left_shift.
Qed.

Lemma fold_rinsert_base a M K : wfr 1 a -> Forall (wfr 1) K ->
  fold_right (rinsert CSum 1) (rinsert CSum 1 a M) K = rinsert CSum 1 a (fold_right (rinsert CSum 1) M K).
Proof.
  intros Ha HK. induction HK as [|b K Hb HK IH]; [reflexivity|].
  cbn [fold_right]. rewrite IH. apply rinsert_comm; assumption.
Qed.

Lemma fold_rows_rlist : forall rows acc,
  rlist CSum 1 (map torow (fold_left fold_step rows acc))
  = rlist CSum 1 (map fold_row rows ++ map torow acc).
Proof.
  induction rows as [|r rows IH]; intro acc; [reflexivity|].
  cbn [fold_left map app]. rewrite IH. rewrite rlist_app, fold_step_rlist.
  rewrite fold_rinsert_base by (try apply wfr_fold_row; apply wf_map_fold_row).
  rewrite <- rlist_app. reflexivity.
Qed.

Lemma fold_frames frames : forall acc,
  fold_left (fun acc fr => fold_left fold_step fr acc) frames acc = fold_left fold_step (concat frames) acc.
Proof.
  induction frames as [|fr frames IH]; intro acc; [reflexivity|].
  cbn [fold_left concat]. rewrite fold_left_app. apply IH.
Qed.

Lemma upsert_keys key f acc x :
  In x (map fst (upsert key f acc)) -> x = key \/ In x (map fst acc).
Proof.
  induction acc as [|[k' a] rest IH]; cbn [upsert map fst In].
  - intros [H|[]]; left; congruence.
  - destruct (cell_eqb k' key); cbn [map fst In]; intros [H|H]; auto.
    destruct (IH H); auto.
Qed.

Lemma upsert_nodup key f acc : NoDup (map fst acc) -> NoDup (map fst (upsert key f acc)).
Proof.
  induction acc as [|[k' a] rest IH]; cbn [upsert map fst]; intro H.
  - constructor; [intros []|constructor].
  - inversion H as [|? ? Hnot Hnd]; subst. destruct (cell_eqb k' key) eqn:E; cbn [map fst].
    + constructor; assumption.
    + constructor; [|apply IH; exact Hnd]. intro Hin. apply upsert_keys in Hin as [Hin|Hin].
      * apply cell_eqb_false in E. congruence.
      * contradiction.
Qed.

Lemma fold_rows_nodup rows : forall acc, NoDup (map fst acc) -> NoDup (map fst (fold_left fold_step rows acc)).
Proof.
  induction rows as [|r rows IH]; intros acc H; [exact H|].
  cbn [fold_left]. apply IH. unfold fold_step. apply upsert_nodup. exact H.
Qed.

Lemma rinsert_perm_fresh c pre a M :
  (forall x, In x M -> kcmp pre a x <> Eq) -> Permutation (rinsert c pre a M) (a :: M).
Proof.
  induction M as [|x M IH]; intro H; cbn [rinsert]; [apply Permutation_refl|].
  destruct (kcmp pre a x) eqn:E.
  - exfalso. apply (H x); [left; reflexivity|exact E].
  - apply Permutation_refl.
  - eapply Permutation_trans; [apply perm_skip; apply IH|apply perm_swap].
    intros y Hy. apply H. right. exact Hy.
Qed.

Lemma rlist_nodup_perm acc : NoDup (map fst acc) ->
  Permutation (rlist CSum 1 (map torow acc)) (map torow acc).
Proof.
  induction acc as [|[k a] rest IH]; cbn [map fst]; intro H; [apply Permutation_refl|].
  inversion H as [|? ? Hnot Hnd]; subst.
  change (rlist CSum 1 (torow (k, a) :: map torow rest))
    with (rinsert CSum 1 (torow (k, a)) (rlist CSum 1 (map torow rest))).
  eapply Permutation_trans; [apply rinsert_perm_fresh|apply perm_skip; apply IH; exact Hnd].
  intros x Hx E.
  assert (Hin : In x (map torow rest)) by (eapply Permutation_in; [apply IH; exact Hnd|exact Hx]).
  apply in_map_iff in Hin as [[k2 a2] [<- Hin2]].
  apply kcmp_eq in E. unfold key_of, torow in E. cbn in E. inversion E; subst.
  apply Hnot. apply in_map_iff. exists (k2, a2). split; [reflexivity|exact Hin2].
Qed.

Theorem fold_exec_permutation ch sh sh' : 1 <= ch -> Permutation sh sh' ->
  Permutation (fold_exec ch sh) (fold_shard sh').
Proof.
  intros Hc HP. unfold fold_exec. rewrite fold_frames, concat_chunks by exact Hc.
  change (map (fun ka : list Z * Z => [fst ka; [snd ka]])) with (map torow).
  eapply Permutation_trans.
  - apply Permutation_sym. apply rlist_nodup_perm. apply fold_rows_nodup. constructor.
  - rewrite fold_rows_rlist. cbn [map]. rewrite app_nil_r.
    rewrite fold_shard_reduce, reduce_shard_rlist by apply wf_map_fold_row.
    rewrite (rlist_perm CSum 1 (map fold_row sh) (map fold_row sh')); [apply Permutation_refl| |apply wf_map_fold_row].
    apply Permutation_map. exact HP.
Qed.

Lemma Forall2_map2 {A B C D} (R : A -> B -> Prop) (R' : C -> D -> Prop) (g : A -> C) (h : B -> D) l l' :
  (forall a b, R a b -> R' (g a) (h b)) -> Forall2 R l l' -> Forall2 R' (map g l) (map h l').
Proof.
  intros Hgh H. induction H as [|a b l l' Hab H IH]; cbn [map]; constructor; auto.
Qed.

(* operational Fold (producers read in any order, accumulation frame by frame)
   gives, shard by shard, the rows of the reference's Fold *)
Theorem exec_fold_strategy_irrelevant ch ord f n shards shards' :
  1 <= ch -> perms ord (length shards) n = true ->
  Forall2 (@Permutation _) shards shards' ->
  Forall2 (@Permutation _) (map (fold_exec ch) (exec_shuffle ch ord f n shards))
                           (map fold_shard (shuffle f n shards')).
Proof.
  intros Hc Hord HP.
  eapply Forall2_map2; [|apply exec_shuffle_permutation; eassumption].
  intros a b Hab. apply fold_exec_permutation; assumption.
Qed.

(* ====================================================================== *)
(* 9. Values that agree; Cogroup                                           *)
(* ====================================================================== *)

(* the run's value of a node against the reference's: same column types, prefix
   and orderedness; the same rows shard by shard - the same list where the
   program fixes the order, the same multiset elsewhere *)
Definition agree_value (v v' : value) : Prop :=
  vtypes v = vtypes v' /\ vpre v = vpre v' /\ vordered v = vordered v' /\
  Forall2 (agree (vordered v')) (vshards v) (vshards v').

Lemma agree_refl o a : agree o a a.
Proof. destruct o; simpl; [reflexivity|apply Permutation_refl]. Qed.

Lemma agree_perm o a b : agree o a b -> Permutation a b.
Proof. destruct o; simpl; [intros ->; apply Permutation_refl|auto]. Qed.

Lemma Forall2_impl {A B} (R R' : A -> B -> Prop) l l' :
  (forall a b, R a b -> R' a b) -> Forall2 R l l' -> Forall2 R' l l'.
Proof. intros HR H. induction H; constructor; auto. Qed.

Lemma Forall2_length {A B} (R : A -> B -> Prop) l l' : Forall2 R l l' -> length l = length l'.
Proof. intro H. induction H; simpl; congruence. Qed.

Lemma Forall2_refl {A} (R : A -> A -> Prop) l : (forall x, R x x) -> Forall2 R l l.
Proof. intro H. induction l; constructor; auto. Qed.

Lemma Forall2_eq {A} (l l' : list A) : Forall2 eq l l' -> l = l'.
Proof. intro H. induction H; congruence. Qed.

Lemma agree_value_refl v : agree_value v v.
Proof. repeat split. apply Forall2_refl. intro. apply agree_refl. Qed.

Lemma agree_value_perm v v' : agree_value v v' -> Forall2 (@Permutation _) (vshards v) (vshards v').
Proof. intros (_ & _ & _ & H). eapply Forall2_impl; [|exact H]. intros a b. apply agree_perm. Qed.

Lemma agree_value_nshards v v' : agree_value v v' -> nshards v = nshards v'.
Proof. intros (_ & _ & _ & H). unfold nshards. eapply Forall2_length. exact H. Qed.

Lemma agree_value_ordered_eq v v' : agree_value v v' -> vordered v' = true -> vshards v = vshards v'.
Proof.
  intros (_ & _ & _ & H) Ho. rewrite Ho in H. apply Forall2_eq.
  eapply Forall2_impl; [|exact H]. intros a b Hab. exact Hab.
Qed.

Lemma get_agree vs vs' i : Forall2 agree_value vs vs' -> agree_value (get vs i) (get vs' i).
Proof.
  unfold get. intro H. revert i. induction H as [|v v' vs vs' Hv H IH]; intros [|i]; cbn [nth];
    try apply agree_value_refl; auto.
Qed.

Lemma Forall2_nth_perm {A} (l l' : list (list A)) p :
  Forall2 (@Permutation A) l l' -> Permutation (nth p l []) (nth p l' []).
Proof.
  intro H. revert p. induction H as [|a b l l' Hab H IH]; intros [|p]; cbn [nth]; auto.
Qed.

Lemma cogroup_shard_perm pre ins ins' :
  Forall2 (fun a b : nat * list (list (list Z)) => fst a = fst b /\ Permutation (snd a) (snd b)) ins ins' ->
  cogroup_shard pre ins = cogroup_shard pre ins'.
Proof.
  intro H. unfold cogroup_shard.
  assert (HK : Permutation (flat_map (fun i : nat * list (list (list Z)) => map (key_of pre) (snd i)) ins)
                           (flat_map (fun i : nat * list (list (list Z)) => map (key_of pre) (snd i)) ins')).
  { induction H as [|a b l l' [_ Hab] H IH]; cbn [flat_map]; [constructor|].
    apply Permutation_app; [apply Permutation_map; exact Hab|exact IH]. }
  rewrite (sort_rows_permutation _ _ HK). clear HK.
  apply map_ext. intro k. f_equal.
  induction H as [|a b l l' [Hfst Hab] H IH]; cbn [flat_map]; [reflexivity|].
  rewrite IH, Hfst. f_equal. apply map_ext. intro cidx. unfold group_col.
  apply zsort_permutation.
  apply (Permutation_flat_map (fun r => if row_eqb (key_of pre r) k then [scalar (nth cidx r [])] else [])).
  exact Hab.
Qed.

(* the reference's Cogroup shards, as in Sem.eval_node *)
Definition ref_cogroup (pre n : nat) (ins : list value) : list (list (list (list Z))) :=
  let shuffled := map (fun v => (length (vtypes v), shuffle (part (vtypes v) pre n) n (vshards v))) ins in
  map (fun p => cogroup_shard pre (map (fun s => (fst s, nth p (snd s) [])) shuffled)) (seq 0 n).

Lemma exec_cogroup_inputs st k pre n p : 1 <= chunk st -> forall ins ins' start,
  Forall2 agree_value ins ins' ->
  forallb (fun dv : nat * value => perms (corder st k (fst dv)) (nshards (snd dv)) n)
          (combine (seq start (length ins')) ins') = true ->
  Forall2 (fun a b : nat * list (list (list Z)) => fst a = fst b /\ Permutation (snd a) (snd b))
    (map (fun s : nat * list (list (list (list Z))) => (fst s, nth p (snd s) []))
       (map (fun dv : nat * value =>
               (length (vtypes (snd dv)),
                map sort_rows (exec_shuffle (chunk st) (corder st k (fst dv))
                                 (part (vtypes (snd dv)) pre n) n (vshards (snd dv)))))
            (combine (seq start (length ins)) ins)))
    (map (fun s : nat * list (list (list (list Z))) => (fst s, nth p (snd s) []))
       (map (fun v => (length (vtypes v), shuffle (part (vtypes v) pre n) n (vshards v))) ins')).
Proof.
  intros Hc ins ins' start H. revert start.
  induction H as [|v v' ins ins' Hv H IH]; intros start Hst; [constructor|].
  cbn [length seq combine forallb] in Hst. apply andb_true_iff in Hst as [Hst1 Hst2].
  cbn [length seq combine map fst snd]. constructor; [|apply IH; exact Hst2].
  cbn [fst snd] in Hst1 |- *.
  destruct Hv as (Ety & Epre & Eord & Hsh). split; [rewrite Ety; reflexivity|].
  assert (E1 : nth p (map sort_rows (exec_shuffle (chunk st) (corder st k start)
                                       (part (vtypes v) pre n) n (vshards v))) []
               = sort_rows (nth p (exec_shuffle (chunk st) (corder st k start)
                                       (part (vtypes v) pre n) n (vshards v)) []))
    by exact (map_nth sort_rows _ [] p).
  rewrite E1. eapply Permutation_trans; [apply sort_rows_perm|].
  apply Forall2_nth_perm. rewrite Ety. apply exec_shuffle_permutation; [exact Hc| |].
  - replace (length (vshards v)) with (nshards v'); [exact Hst1|].
    unfold nshards. symmetry. eapply Forall2_length. exact Hsh.
  - eapply Forall2_impl; [|exact Hsh]. intros a b. apply agree_perm.
Qed.

(* operational Cogroup (every dependency read in any producer order, any chunk
   size) = the reference's, shard by shard *)
Theorem exec_cogroup_strategy_irrelevant st k pre n ins ins' :
  1 <= chunk st -> Forall2 agree_value ins ins' ->
  forallb (fun dv : nat * value => perms (corder st k (fst dv)) (nshards (snd dv)) n)
          (combine (seq 0 (length ins')) ins') = true ->
  exec_cogroup st k pre n ins = ref_cogroup pre n ins'.
Proof.
  intros Hc H Hst. unfold exec_cogroup, ref_cogroup. apply map_ext. intro p.
  apply cogroup_shard_perm. apply exec_cogroup_inputs; assumption.
Qed.

(* ====================================================================== *)
(* 10. Every row of the reference has as many columns as its value's type  *)
(* ====================================================================== *)

Definition rows_typed (v : value) : Prop :=
  Forall (Forall (fun r : list (list Z) => length r = length (vtypes v))) (vshards v).

Lemma rows_typed_vempty : rows_typed vempty.
Proof. constructor. Qed.

Lemma get_typed vs i : Forall rows_typed vs -> rows_typed (get vs i).
Proof. intro H. unfold get. apply Forall_nth_default; [exact H|apply rows_typed_vempty]. Qed.

Lemma Forall_repeat {A} (P : A -> Prop) x n : P x -> Forall P (repeat x n).
Proof. intro H. induction n; simpl; constructor; auto. Qed.

Lemma Forall_firstn {A} (P : A -> Prop) n l : Forall P l -> Forall P (firstn n l).
Proof.
  intro H. rewrite <- (firstn_skipn n l) in H. apply Forall_app in H. apply H.
Qed.
Lemma Forall_skipn {A} (P : A -> Prop) n l : Forall P l -> Forall P (skipn n l).
Proof.
  intro H. rewrite <- (firstn_skipn n l) in H. apply Forall_app in H. apply H.
Qed.

Lemma transpose_rows_len cols : forall n i,
  Forall (fun r : list (list Z) => length r = length cols) (transpose_rows n cols i).
Proof.
  induction n as [|n IH]; intro i; cbn [transpose_rows]; constructor; [apply map_length|apply IH].
Qed.

Lemma every_nth_len n : forall l k, Forall (fun r : list (list Z) => length r = 1) (every_nth n l k).
Proof.
  induction l as [|x l IH]; intro k; cbn [every_nth]; [constructor|].
  destruct k; [constructor; [reflexivity|apply IH]|apply IH].
Qed.

Lemma shuffle_Forall (P : list (list Z) -> Prop) f n shards :
  Forall (Forall P) shards -> Forall (Forall P) (shuffle f n shards).
Proof.
  intro H. unfold shuffle. apply Forall_map. apply Forall_forall. intros p _.
  apply Forall_flat_map. eapply Forall_impl; [|exact H]. intros sh Hsh. apply Forall_filter. exact Hsh.
Qed.

Lemma rinsert_len c pre a L :
  length a = S pre -> Forall (fun r : list (list Z) => length r = S pre) L ->
  Forall (fun r : list (list Z) => length r = S pre) (rinsert c pre a L).
Proof.
  intros Ha HL. induction HL as [|x L Hx HL IH]; cbn [rinsert]; [constructor; [exact Ha|constructor]|].
  destruct (kcmp pre a x).
  - constructor; [|exact HL]. unfold mrow. rewrite app_length, key_length by (unfold wfr; lia). simpl. lia.
  - constructor; [exact Ha|constructor; assumption].
  - constructor; assumption.
Qed.

Lemma reduce_shard_len c pre l :
  Forall (fun r : list (list Z) => length r = S pre) l ->
  Forall (fun r : list (list Z) => length r = S pre) (reduce_shard c pre l).
Proof.
  intro H. rewrite reduce_shard_rlist by (eapply Forall_impl; [|exact H]; intros r Hr; unfold wfr; cbv beta in Hr; lia).
  induction H as [|a l Ha H IH]; [constructor|].
  change (rlist c pre (a :: l)) with (rinsert c pre a (rlist c pre l)). apply rinsert_len; assumption.
Qed.

Lemma dedup_sorted_In : forall l (x : list (list Z)), In x (dedup_sorted l) -> In x l.
Proof.
  induction l as [|a l IH]; intros x H; [contradiction|].
  cbn [dedup_sorted] in H. destruct l as [|b l'].
  - exact H.
  - destruct (row_eqb a b).
    + right. apply IH. exact H.
    + destruct H as [H|H]; [left; exact H|right; apply IH; exact H].
Qed.

Lemma cogroup_shard_len pre (ins : list (nat * list (list (list Z)))) :
  (forall i, In i ins -> Forall (fun r : list (list Z) => pre <= length r) (snd i)) ->
  Forall (fun r : list (list Z) => length r = pre + list_sum (map (fun i => fst i - pre) ins))
         (cogroup_shard pre ins).
Proof.
  intro Hin. unfold cogroup_shard. apply Forall_map. apply Forall_forall. intros k Hk.
  rewrite app_length. f_equal.
  - apply dedup_sorted_In in Hk.
    apply (Permutation_in _ (sort_rows_perm _)) in Hk.
    apply in_flat_map in Hk as [i [Hi Hk]]. apply in_map_iff in Hk as [r [<- Hr]].
    specialize (Hin i Hi). rewrite Forall_forall in Hin. specialize (Hin r Hr).
    unfold key_of. rewrite firstn_length. lia.
  - clear. induction ins as [|i ins IH]; [reflexivity|].
    cbn [flat_map map list_sum]. rewrite app_length, map_length, seq_length, IH. reflexivity.
Qed.

Lemma cogroup_types_len pre (ins : list value) :
  length (flat_map (fun v => map group_ty (skipn pre (vtypes v))) ins)
  = list_sum (map (fun v => length (vtypes v) - pre) ins).
Proof.
  induction ins as [|v ins IH]; [reflexivity|].
  cbn [flat_map map list_sum]. rewrite app_length, map_length, skipn_length, IH. reflexivity.
Qed.

Lemma firstn_z_Forall {A} (P : A -> Prop) n l : Forall P l -> Forall P (firstn_z n l).
Proof. intro H. unfold firstn_z. destruct (n <=? 0)%Z; [constructor|apply Forall_firstn; exact H]. Qed.

Lemma map_shards_typed (F : list (list (list Z)) -> list (list (list Z))) (P Q : list (list Z) -> Prop) shards :
  (forall sh, Forall P sh -> Forall Q (F sh)) -> Forall (Forall P) shards -> Forall (Forall Q) (map F shards).
Proof. intros HF H. apply Forall_map. eapply Forall_impl; [|exact H]. exact HF. Qed.

Theorem eval_node_typed vs k nd :
  Forall rows_typed vs -> wf_node vs k nd = true -> rows_typed (fst (eval_node vs k nd)).
Proof.
  intros Hvs Hwf. unfold wf_node in Hwf. apply andb_true_iff in Hwf as [_ Hwf].
  destruct nd as [n ts pre|n ts cols|n t a b|n lines|i es|i e|i e|i|i hn|i c|is|i|i n|i e|i pr|i|i|i];
    cbn [eval_node fst]; unfold rows_typed; cbn [vshards vtypes].
  - (* Arg *) apply Forall_repeat. constructor.
  - (* Const *)
    apply Nat.eqb_eq in Hwf. unfold const_value. cbn [vshards vtypes].
    apply Forall_map. apply Forall_forall. intros s _.
    destruct (const_shard _ _ _) as [off cnt]. unfold sub_list.
    apply Forall_firstn. apply Forall_skipn. rewrite Hwf. unfold const_rows. apply transpose_rows_len.
  - (* ReaderFunc *)
    apply Forall_map. apply Forall_forall. intros s _. unfold reader_rows.
    apply Forall_map. apply Forall_forall. intros j _. reflexivity.
  - (* ScanReader *)
    apply Forall_map. apply Forall_forall. intros s _. apply every_nth_len.
  - (* Map *)
    unfold map_shards. apply Forall_map. apply Forall_forall. intros sh _.
    apply Forall_map. apply Forall_forall. intros r _. rewrite !map_length. reflexivity.
  - (* Filter *)
    unfold map_shards. eapply map_shards_typed; [|apply (get_typed vs i Hvs)].
    intros sh Hsh. apply Forall_filter. exact Hsh.
  - (* Flatmap *)
    unfold map_shards. eapply map_shards_typed; [|apply (get_typed vs i Hvs)].
    intros sh Hsh. apply Forall_flat_map. eapply Forall_impl; [|exact Hsh]. intros r Hr.
    apply Forall_map. apply Forall_forall. intros j _. rewrite !app_length, Hr. reflexivity.
  - (* Fold *)
    apply Forall_map. apply Forall_forall. intros sh _. rewrite fold_shard_reduce.
    apply (reduce_shard_len CSum 1). apply Forall_map. apply Forall_forall. intros r _. reflexivity.
  - (* Head *)
    unfold map_shards. eapply map_shards_typed; [|apply (get_typed vs i Hvs)].
    intros sh Hsh. apply firstn_z_Forall. exact Hsh.
  - (* Reduce *)
    apply Nat.eqb_eq in Hwf. rewrite Hwf.
    eapply map_shards_typed; [intros sh Hsh; apply reduce_shard_len; exact Hsh|].
    apply shuffle_Forall. rewrite <- Hwf. apply (get_typed vs i Hvs).
  - (* Cogroup *)
    destruct is as [|i0 is']; [constructor|].
    set (is := i0 :: is') in *. cbn [hd] in *.
    set (pre := vpre (get vs i0)) in *.
    rewrite forallb_forall in Hwf.
    assert (Hpre : forall v, In v (map (get vs) is) -> pre <= length (vtypes v)).
    { intros v Hv. apply in_map_iff in Hv as [i [<- Hi]]. specialize (Hwf i Hi). cbv beta in Hwf. apply Nat.leb_le in Hwf. exact Hwf. }
    apply Forall_map. apply Forall_forall. intros p _.
    eapply Forall_impl; [|apply cogroup_shard_len].
    + intros r Hr. cbv beta in Hr. rewrite Hr. rewrite app_length, firstn_length, cogroup_types_len.
      rewrite Nat.min_l by (apply Hpre; left; reflexivity).
      f_equal. rewrite !map_map. cbn [fst]. reflexivity.
    + intros s Hs. apply in_map_iff in Hs as [s' [<- Hs']]. apply in_map_iff in Hs' as [v [<- Hv]].
      cbn [fst snd]. apply Forall_nth_default; [|constructor].
      pose proof (Hpre v Hv) as Hv'.
      apply in_map_iff in Hv as [i [<- Hi]].
      apply shuffle_Forall. eapply Forall_impl; [|apply (get_typed vs i Hvs)].
      intros sh Hsh. cbv beta. eapply Forall_impl; [|exact Hsh]. intros r Hr. cbv beta in Hr.
      rewrite Hr. exact Hv'.
  - (* Reshuffle *) apply shuffle_Forall. apply (get_typed vs i Hvs).
  - (* Reshard *)
    destruct (Nat.eqb n (nshards (get vs i))); cbn [fst vshards vtypes];
      [apply (get_typed vs i Hvs)|apply shuffle_Forall; apply (get_typed vs i Hvs)].
  - (* Repartition *) apply shuffle_Forall. apply (get_typed vs i Hvs).
  - (* Prefixed *) apply (get_typed vs i Hvs).
  - (* Scan *) apply Forall_map. apply Forall_forall. intros sh _. constructor.
  - (* WriterFunc *) apply (get_typed vs i Hvs).
  - (* Cache *) apply (get_typed vs i Hvs).
Qed.

(* ====================================================================== *)
(* 11. One node: the run agrees with the reference                         *)
(* ====================================================================== *)

Lemma agree_value_mk sh sh' T T' pr pr' o o' :
  T = T' -> pr = pr' -> o = o' -> Forall2 (agree o') sh sh' ->
  agree_value (mkV sh T pr o) (mkV sh' T' pr' o').
Proof. intros. repeat split; assumption. Qed.

Lemma rowwise_agree (F G : list (list (list Z)) -> list (list (list Z))) v v' :
  (forall a, F a = G a) -> (forall a b, Permutation a b -> Permutation (G a) (G b)) ->
  agree_value v v' -> Forall2 (agree (vordered v')) (map F (vshards v)) (map G (vshards v')).
Proof.
  intros HF HG (_ & _ & _ & Hsh). eapply Forall2_map2; [|exact Hsh].
  intros a b Hab. rewrite HF. destruct (vordered v'); simpl in *; [congruence|apply HG; exact Hab].
Qed.

Lemma map_get_agree vs vs' is : Forall2 agree_value vs vs' ->
  Forall2 agree_value (map (get vs) is) (map (get vs') is).
Proof. intro H. induction is as [|i is IH]; cbn [map]; constructor; [apply get_agree; exact H|exact IH]. Qed.

Lemma agree_values_nshards ins ins' : Forall2 agree_value ins ins' -> map nshards ins = map nshards ins'.
Proof.
  intro H. induction H as [|v v' l l' Hv H IH]; [reflexivity|].
  cbn [map]. rewrite IH, (agree_value_nshards v v' Hv). reflexivity.
Qed.

Lemma agree_values_group_types pre ins ins' : Forall2 agree_value ins ins' ->
  flat_map (fun v => map group_ty (skipn pre (vtypes v))) ins
  = flat_map (fun v => map group_ty (skipn pre (vtypes v))) ins'.
Proof.
  intro H. induction H as [|v v' l l' Hv H IH]; [reflexivity|].
  cbn [flat_map]. rewrite IH. destruct Hv as (-> & _). reflexivity.
Qed.

Theorem exec_node_agrees st vs vs' k nd :
  1 <= chunk st -> 1 <= cspill st -> 1 <= pflush st ->
  Forall2 agree_value vs vs' -> Forall rows_typed vs' ->
  wf_node vs' k nd = true -> wfs_node st vs' k nd = true ->
  agree_value (fst (exec_node st vs k nd)) (fst (eval_node vs' k nd)).
Proof.
  intros Hc Hs Hf Hvs Hty Hwf Hst.
  unfold wf_node in Hwf. apply andb_true_iff in Hwf as [_ Hwf].
  destruct nd as [n ts pre|n ts cols|n t a b|n lines|i es|i e|i e|i|i hn|i c|is|i|i n|i e|i pr|i|i|i];
    cbn [exec_node eval_node wfs_node] in *;
    try (pose proof (get_agree vs vs' i Hvs) as Hv;
         pose proof (get_typed vs' i Hty) as Htv;
         set (v := get vs i) in *; set (v' := get vs' i) in *;
         pose proof Hv as (Ety & Epre & Eord & Hsh)).
  - apply agree_value_refl.
  - apply agree_value_refl.
  - apply agree_value_refl.
  - apply agree_value_refl.
  - (* Map *)
    cbn [fst]. apply agree_value_mk; [rewrite Ety; reflexivity|exact Epre|exact Eord|].
    unfold map_shards. apply rowwise_agree; [|intros a b; apply Permutation_map|exact Hv].
    intro a. apply chunked_map. exact Hc.
  - (* Filter *)
    cbn [fst]. apply agree_value_mk; [exact Ety|exact Epre|exact Eord|].
    unfold map_shards. apply rowwise_agree; [|intros a b; apply Permutation_filter|exact Hv].
    intro a. apply chunked_filter. exact Hc.
  - (* Flatmap *)
    cbn [fst]. apply agree_value_mk; [rewrite Ety; reflexivity|exact Epre|exact Eord|].
    unfold map_shards. apply rowwise_agree; [| |exact Hv].
    + intro a. apply chunked_flat_map. exact Hc.
    + intros a b Hab.
      apply (Permutation_flat_map (fun r : list (list Z) =>
               map (fun j => r ++ [[Z.of_nat j]]) (seq 0 (Z.to_nat (scalar (eval r e) mod 4))))).
      exact Hab.
  - (* Fold *)
    cbn [fst]. apply agree_value_mk; [rewrite Ety; reflexivity|reflexivity|reflexivity|].
    rewrite Ety, (agree_value_nshards v v' Hv).
    change (agree false) with (@Permutation (list (list Z))).
    apply exec_fold_strategy_irrelevant; [exact Hc| |apply agree_value_perm; exact Hv].
    replace (length (vshards v)) with (nshards v') by (symmetry; apply (agree_value_nshards v v' Hv)).
    exact Hst.
  - (* Head *)
    cbn [fst]. apply agree_value_mk; [exact Ety|exact Epre|exact Eord|].
    unfold map_shards. rewrite (agree_value_ordered_eq v v' Hv Hwf).
    rewrite (map_ext (head_exec (chunk st) hn) (firstn_z hn)) by (intro a; apply head_exec_firstn_z; exact Hc).
    apply Forall2_refl. intro a. apply agree_refl.
  - (* Reduce *)
    cbn [fst]. apply agree_value_mk; [exact Ety|exact Epre|reflexivity|].
    rewrite Ety, Epre, (agree_value_nshards v v' Hv).
    rewrite (exec_reduce_strategy_irrelevant st k c (vpre v') _ (nshards v') (vshards v) (vshards v') Hc Hs Hf).
    + apply Forall2_refl. intro a. apply agree_refl.
    + replace (length (vshards v)) with (nshards v') by (symmetry; apply (agree_value_nshards v v' Hv)).
      exact Hst.
    + apply agree_value_perm. exact Hv.
    + apply Nat.eqb_eq in Hwf. unfold rows_typed in Htv.
      eapply Forall_impl; [|exact Htv]. intros sh Hsh'. eapply Forall_impl; [|exact Hsh'].
      intros r Hr. cbv beta in Hr. unfold wfr. lia.
  - (* Cogroup *)
    cbn [fst].
    pose proof (map_get_agree vs vs' is Hvs) as Hins.
    pose proof (get_agree vs vs' (hd 0 is) Hvs) as (Efty & Efpre & _ & _).
    rewrite (agree_values_nshards _ _ Hins), Efpre, Efty.
    apply agree_value_mk; [|reflexivity|reflexivity|].
    + f_equal. apply agree_values_group_types. exact Hins.
    + rewrite (exec_cogroup_strategy_irrelevant st k _ _ _ _ Hc Hins Hst). unfold ref_cogroup.
      apply Forall2_refl. intro a. apply agree_refl.
  - (* Reshuffle *)
    cbn [fst]. apply agree_value_mk; [exact Ety|exact Epre|reflexivity|].
    rewrite Ety, Epre, (agree_value_nshards v v' Hv).
    change (agree false) with (@Permutation (list (list Z))).
    apply exec_shuffle_permutation; [exact Hc| |apply agree_value_perm; exact Hv].
    replace (length (vshards v)) with (nshards v') by (symmetry; apply (agree_value_nshards v v' Hv)).
    exact Hst.
  - (* Reshard *)
    rewrite (agree_value_nshards v v' Hv).
    destruct (Nat.eqb n (nshards v')) eqn:En; cbn [fst]; [exact Hv|].
    cbn [orb] in Hst.
    apply agree_value_mk; [exact Ety|exact Epre|reflexivity|].
    rewrite Ety, Epre.
    change (agree false) with (@Permutation (list (list Z))).
    apply exec_shuffle_permutation; [exact Hc| |apply agree_value_perm; exact Hv].
    replace (length (vshards v)) with (nshards v') by (symmetry; apply (agree_value_nshards v v' Hv)).
    exact Hst.
  - (* Repartition *)
    cbn [fst]. apply agree_value_mk; [exact Ety|exact Epre|reflexivity|].
    rewrite (agree_value_nshards v v' Hv).
    change (agree false) with (@Permutation (list (list Z))).
    apply exec_shuffle_permutation; [exact Hc| |apply agree_value_perm; exact Hv].
    replace (length (vshards v)) with (nshards v') by (symmetry; apply (agree_value_nshards v v' Hv)).
    exact Hst.
  - (* Prefixed *)
    cbn [fst]. apply agree_value_mk; [exact Ety|reflexivity|exact Eord|exact Hsh].
  - (* Scan *)
    cbn [fst]. apply agree_value_mk; [reflexivity|exact Epre|reflexivity|].
    eapply Forall2_map2; [|exact Hsh]. intros a b _. reflexivity.
  - (* WriterFunc *) cbn [fst]. exact Hv.
  - (* Cache *) cbn [fst]. exact Hv.
Qed.

(* ====================================================================== *)
(* 12. Whole programs                                                      *)
(* ====================================================================== *)

Lemma nodes_agree st : 1 <= chunk st -> 1 <= cspill st -> 1 <= pflush st ->
  forall p k vs vs' sd sd',
  Forall2 agree_value vs vs' -> Forall rows_typed vs' ->
  wf_nodes p k vs' = true -> wfs_nodes st p k vs' = true ->
  Forall2 agree_value (fst (exec_nodes st p k vs sd)) (fst (eval_nodes p k vs' sd')).
Proof.
  intros Hc Hs Hf. induction p as [|nd p IH]; intros k vs vs' sd sd' Hvs Hty Hwf Hst.
  - exact Hvs.
  - cbn [wf_nodes wfs_nodes] in Hwf, Hst.
    apply andb_true_iff in Hwf as [Hwf1 Hwf2]. apply andb_true_iff in Hst as [Hst1 Hst2].
    pose proof (exec_node_agrees st vs vs' k nd Hc Hs Hf Hvs Hty Hwf1 Hst1) as Hv.
    pose proof (eval_node_typed vs' k nd Hty Hwf1) as Htv.
    cbn [exec_nodes eval_nodes].
    destruct (exec_node st vs k nd) as [v s1]. destruct (eval_node vs' k nd) as [v' s1'].
    cbn [fst] in *. apply IH; try assumption.
    + apply Forall2_app; [exact Hvs|constructor; [exact Hv|constructor]].
    + apply Forall_app. split; [exact Hty|constructor; [exact Htv|constructor]].
Qed.

Lemma wf_strategy_parts st p : wf_strategy st p = true ->
  1 <= chunk st /\ 1 <= cspill st /\ 1 <= pflush st /\ wfs_nodes st p 0 [] = true.
Proof.
  unfold wf_strategy. intro H. apply andb_true_iff in H as [H H4]. apply andb_true_iff in H as [H H3].
  apply andb_true_iff in H as [H1 H2]. apply Nat.leb_le in H1, H2, H3. auto.
Qed.

Theorem run_values_agree st p : wf_prog p = true -> wf_strategy st p = true ->
  Forall2 agree_value (values_of_run st p) (values_of_ref p).
Proof.
  intros Hwf Hst. apply wf_strategy_parts in Hst as (Hc & Hs & Hf & Hst).
  unfold values_of_run, values_of_ref. apply nodes_agree; try assumption; constructor.
Qed.

Lemma Forall2_nth_agree l l' k : Forall2 agree_value l l' -> agree_value (nth k l vempty) (nth k l' vempty).
Proof. intro H. apply (get_agree l l' k H). Qed.

(* MAIN THEOREM: under every well-formed strategy, the value computed for every
   node of a well-formed program agrees with the reference semantics *)
Theorem run_refines_ref st p : wf_prog p = true -> wf_strategy st p = true ->
  forall k, k < length p ->
  agree_value (nth k (values_of_run st p) vempty) (nth k (values_of_ref p) vempty).
Proof. intros Hwf Hst k _. apply Forall2_nth_agree. apply run_values_agree; assumption. Qed.

Lemma Forall2_last_agree l l' : Forall2 agree_value l l' -> agree_value (last l vempty) (last l' vempty).
Proof.
  intro H. induction H as [|v v' l l' Hv H IH]; [apply agree_value_refl|].
  destruct H as [|w w' l l' Hw H]; [exact Hv|exact IH].
Qed.

Lemma rvalue_run st p : rvalue (run st p) = last (values_of_run st p) vempty.
Proof. unfold run, values_of_run. destruct (exec_nodes st p 0 [] []) as [vs sides]. reflexivity. Qed.

Lemma rvalue_ref p : rvalue (ref p) = last (values_of_ref p) vempty.
Proof. unfold ref, values_of_ref. destruct (eval_nodes p 0 [] []) as [vs sides]. reflexivity. Qed.

(* the root: what a run returns is what the reference semantics prescribes *)
Theorem run_root_agrees st p : wf_prog p = true -> wf_strategy st p = true ->
  agree_value (rvalue (run st p)) (rvalue (ref p)).
Proof.
  intros Hwf Hst. rewrite rvalue_run, rvalue_ref. apply Forall2_last_agree. apply run_values_agree; assumption.
Qed.

Lemma Forall2_agree_sym o l l' : Forall2 (agree o) l l' -> Forall2 (agree o) l' l.
Proof. intro H. induction H; constructor; [apply agree_sym; assumption|assumption]. Qed.

Lemma agree_value_via v1 v2 r : agree_value v1 r -> agree_value v2 r -> agree_value v1 v2.
Proof.
  intros (T1 & P1 & O1 & S1) (T2 & P2 & O2 & S2). repeat split; try congruence.
  rewrite O2. eapply Forall2_agree_trans; [apply Forall2_agree_sym; exact S1|apply Forall2_agree_sym; exact S2].
Qed.

(* C04 itself: the result does not depend on how the computation is executed *)
Theorem strategies_agree st1 st2 p :
  wf_prog p = true -> wf_strategy st1 p = true -> wf_strategy st2 p = true ->
  agree_value (rvalue (run st1 p)) (rvalue (run st2 p)).
Proof.
  intros Hwf H1 H2. eapply agree_value_via; apply run_root_agrees; assumption.
Qed.

(* ... and so does the value of every node *)
Theorem strategies_agree_everywhere st1 st2 p :
  wf_prog p = true -> wf_strategy st1 p = true -> wf_strategy st2 p = true ->
  forall k, agree_value (nth k (values_of_run st1 p) vempty) (nth k (values_of_run st2 p) vempty).
Proof.
  intros Hwf H1 H2 k. eapply agree_value_via; apply Forall2_nth_agree; apply run_values_agree; assumption.
Qed.

(* ---------- the side-effect streams (Scan, WriterFunc) ---------- *)

Definition agree_side (o : bool) (a b : side) : Prop :=
  snode a = snode b /\ sshard a = sshard b /\ agree o (srows a) (srows b) /\
  seofs a = seofs b /\ serrnil a = serrnil b /\ sruns a = sruns b.

Lemma Forall2_nth_agree_shards o (l l' : list (list (list (list Z)))) s :
  Forall2 (agree o) l l' -> agree o (nth s l []) (nth s l' []).
Proof.
  intro H. revert s. induction H as [|a b l l' Hab H IH]; intros [|s]; cbn [nth]; auto; apply agree_refl.
Qed.

Lemma side_input_ordered_agree vs vs' nd :
  Forall2 agree_value vs vs' -> side_input_ordered vs nd = side_input_ordered vs' nd.
Proof.
  intro H. destruct nd; cbn [side_input_ordered]; try reflexivity;
    match goal with |- vordered (get vs ?i) = _ => destruct (get_agree vs vs' i H) as (_ & _ & E & _); exact E end.
Qed.

Lemma exec_node_sides st vs vs' k nd : Forall2 agree_value vs vs' ->
  Forall2 (agree_side (side_input_ordered vs' nd)) (snd (exec_node st vs k nd)) (snd (eval_node vs' k nd)).
Proof.
  intro Hvs.
  destruct nd as [n ts pre|n ts cols|n t a b|n lines|i es|i e|i e|i|i hn|i c|is|i|i n|i e|i pr|i|i|i];
    cbn [exec_node eval_node snd side_input_ordered]; try constructor.
  - (* Reshard *)
    destruct (Nat.eqb n (nshards (get vs i))), (Nat.eqb n (nshards (get vs' i))); constructor.
  - (* Scan *)
    pose proof (get_agree vs vs' i Hvs) as Hv. rewrite (agree_value_nshards _ _ Hv).
    apply Forall2_map_same. intros s _. destruct Hv as (_ & _ & _ & Hsh).
    repeat split. cbn [srows]. apply Forall2_nth_agree_shards. exact Hsh.
  - (* WriterFunc *)
    pose proof (get_agree vs vs' i Hvs) as Hv. rewrite (agree_value_nshards _ _ Hv).
    apply Forall2_map_same. intros s _. destruct Hv as (_ & _ & _ & Hsh).
    repeat split. cbn [srows]. apply Forall2_nth_agree_shards. exact Hsh.
Qed.

Lemma eval_node_sides_snode vs k nd b : In b (snd (eval_node vs k nd)) -> snode b = k.
Proof.
  destruct nd; cbn [eval_node snd]; try contradiction.
  - destruct (Nat.eqb _ _); cbn [snd]; contradiction.
  - intro H. apply in_map_iff in H as [s [<- _]]. reflexivity.
  - intro H. apply in_map_iff in H as [s [<- _]]. reflexivity.
Qed.

Lemma eval_nodes_prefix : forall p k vs sd, exists ext, fst (eval_nodes p k vs sd) = vs ++ ext.
Proof.
  induction p as [|nd p IH]; intros k vs sd; cbn [eval_nodes].
  - exists []. rewrite app_nil_r. reflexivity.
  - destruct (eval_node vs k nd) as [v s1].
    destruct (IH (S k) (vs ++ [v]) (sd ++ [(k, s1)])) as [ext E].
    exists (v :: ext). rewrite E, <- app_assoc. reflexivity.
Qed.

Lemma side_input_ordered_prefix vs ext nd :
  forallb (fun i => Nat.ltb i (length vs)) (inputs nd) = true ->
  side_input_ordered (vs ++ ext) nd = side_input_ordered vs nd.
Proof.
  intro H. destruct nd; cbn [side_input_ordered]; try reflexivity;
    cbn [inputs forallb] in H; apply andb_true_iff in H as [H _]; apply Nat.ltb_lt in H;
    unfold get; rewrite app_nth1 by exact H; reflexivity.
Qed.

Lemma find_seq_map (h : nat -> bool) k : forall n a, a <= k < a + n ->
  find (fun q : nat * bool => Nat.eqb (fst q) k) (map (fun j => (j, h j)) (seq a n)) = Some (k, h k).
Proof.
  induction n as [|n IH]; intros a Hk; [lia|].
  cbn [seq map find fst]. destruct (Nat.eqb_spec a k) as [->|Hne]; [reflexivity|].
  apply IH. lia.
Qed.

Lemma find_seq_none (h : nat -> bool) k : forall n a, k < a \/ a + n <= k ->
  find (fun q : nat * bool => Nat.eqb (fst q) k) (map (fun j => (j, h j)) (seq a n)) = None.
Proof.
  induction n as [|n IH]; intros a Hk; [reflexivity|].
  cbn [seq map find fst]. destruct (Nat.eqb_spec a k) as [->|Hne]; [lia|].
  apply IH. lia.
Qed.

Lemma lookup_ordered_seq (h : nat -> bool) n k : k < n ->
  lookup_ordered (map (fun j => (j, h j)) (seq 0 n)) k = h k.
Proof. intro Hk. unfold lookup_ordered. rewrite find_seq_map by lia. reflexivity. Qed.

Lemma Forall2_impl_in {A B} (R R' : A -> B -> Prop) l l' :
  (forall a b, In b l' -> R a b -> R' a b) -> Forall2 R l l' -> Forall2 R' l l'.
Proof.
  intros HR H. induction H as [|a b l l' Hab H IH]; constructor.
  - apply HR; [left; reflexivity|exact Hab].
  - apply IH. intros x y Hy. apply HR. right. exact Hy.
Qed.

Definition sides_rel (flag : nat -> bool) (x y : nat * list side) : Prop :=
  fst x = fst y /\ Forall2 (fun a b => agree_side (flag (snode b)) a b) (snd x) (snd y).

Lemma nodes_sides_agree st (P : list node) (F' : list value) :
  1 <= chunk st -> 1 <= cspill st -> 1 <= pflush st ->
  forall p done k vs vs' sd sd',
  P = done ++ p -> length done = k -> length vs' = k ->
  fst (eval_nodes p k vs' sd') = F' ->
  Forall2 agree_value vs vs' -> Forall rows_typed vs' ->
  wf_nodes p k vs' = true -> wfs_nodes st p k vs' = true ->
  Forall2 (sides_rel (fun j => side_input_ordered F' (nth j P (NCache 0)))) sd sd' ->
  Forall2 (sides_rel (fun j => side_input_ordered F' (nth j P (NCache 0))))
          (snd (exec_nodes st p k vs sd)) (snd (eval_nodes p k vs' sd')).
Proof.
  intros Hc Hs Hf. induction p as [|nd p IH]; intros done k vs vs' sd sd' EP Hdone Hlen HF Hvs Hty Hwf Hst Hsd.
  - exact Hsd.
  - cbn [wf_nodes wfs_nodes] in Hwf, Hst.
    apply andb_true_iff in Hwf as [Hwf1 Hwf2]. apply andb_true_iff in Hst as [Hst1 Hst2].
    pose proof (exec_node_agrees st vs vs' k nd Hc Hs Hf Hvs Hty Hwf1 Hst1) as Hv.
    pose proof (eval_node_typed vs' k nd Hty Hwf1) as Htv.
    pose proof (exec_node_sides st vs vs' k nd Hvs) as Hsides.
    pose proof (eval_node_sides_snode vs' k nd) as Hsn.
    cbn [exec_nodes eval_nodes] in HF |- *.
    destruct (exec_node st vs k nd) as [v s1]. destruct (eval_node vs' k nd) as [v' s1'].
    cbn [fst snd] in *.
    apply (IH (done ++ [nd]) (S k)); try assumption.
    + rewrite <- app_assoc. exact EP.
    + rewrite app_length. simpl. lia.
    + rewrite app_length. simpl. lia.
    + apply Forall2_app; [exact Hvs|constructor; [exact Hv|constructor]].
    + apply Forall_app. split; [exact Hty|constructor; [exact Htv|constructor]].
    + apply Forall2_app; [exact Hsd|]. constructor; [|constructor]. split; [reflexivity|].
      cbn [snd]. eapply Forall2_impl_in; [|exact Hsides]. intros a b Hb Hab. cbv beta.
      rewrite (Hsn b Hb).
      assert (Enth : nth k P (NCache 0) = nd).
      { rewrite EP, <- Hdone. rewrite app_nth2 by lia. rewrite Nat.sub_diag. reflexivity. }
      rewrite Enth.
      destruct (eval_nodes_prefix p (S k) (vs' ++ [v']) (sd' ++ [(k, s1')])) as [ext Eext].
      rewrite <- HF, Eext, <- app_assoc.
      rewrite side_input_ordered_prefix; [exact Hab|].
      unfold wf_node in Hwf1. apply andb_true_iff in Hwf1 as [Hin _]. rewrite Hlen. exact Hin.
Qed.

Lemma Forall2_flat_map_sides (g : nat -> bool) (Q : side -> side -> Prop) sd sd' :
  Forall2 (fun x y : nat * list side => fst x = fst y /\ Forall2 Q (snd x) (snd y)) sd sd' ->
  Forall2 Q (flat_map (fun ks : nat * list side => if g (fst ks) then snd ks else []) sd)
            (flat_map (fun ks : nat * list side => if g (fst ks) then snd ks else []) sd').
Proof.
  intro H. induction H as [|x y l l' [E Hxy] H IH]; cbn [flat_map]; [constructor|].
  apply Forall2_app; [|exact IH]. rewrite E. destruct (g (fst y)); [exact Hxy|constructor].
Qed.

(* the streams seen by the needed Scan / WriterFunc nodes agree as well: equal
   where the order of their input is fixed by the program, permutations
   elsewhere (this is how the checker C01.Corr.side_ok compares them) *)
Theorem run_sides_agree st p : wf_prog p = true -> wf_strategy st p = true ->
  rordered (run st p) = rordered (ref p) /\
  Forall2 (fun a b => agree_side (lookup_ordered (rordered (ref p)) (snode b)) a b)
          (rsides (run st p)) (rsides (ref p)).
Proof.
  intros Hwf Hst.
  pose proof (run_values_agree st p Hwf Hst) as Hvals.
  apply wf_strategy_parts in Hst as (Hc & Hs & Hf & Hst).
  pose proof (nodes_sides_agree st p (values_of_ref p) Hc Hs Hf p [] 0 [] [] [] []
                eq_refl eq_refl eq_refl eq_refl (Forall2_nil _) (Forall_nil _) Hwf Hst (Forall2_nil _)) as Hsides.
  unfold values_of_run, values_of_ref in *. unfold run, ref.
  destruct (exec_nodes st p 0 [] []) as [vs sides]. destruct (eval_nodes p 0 [] []) as [vs' sides'].
  cbn [fst snd rordered rsides] in *. split.
  - apply map_ext. intro k. f_equal. apply side_input_ordered_agree. exact Hvals.
  - apply (Forall2_flat_map_sides (fun k => existsb (Nat.eqb k) (needed p))).
    eapply Forall2_impl; [|exact Hsides].
    intros x y [E Hxy]. split; [exact E|].
    eapply Forall2_impl; [|exact Hxy]. intros a b Hab. cbv beta in Hab |- *.
    destruct (Nat.lt_ge_cases (snode b) (length p)) as [Hlt|Hge].
    + rewrite (lookup_ordered_seq (fun k => side_input_ordered vs' (nth k p (NCache 0)))) by exact Hlt.
      exact Hab.
    + (* no such node: both flags are [true] *)
      rewrite (nth_overflow p) in Hab by exact Hge. cbn [side_input_ordered] in Hab.
      unfold lookup_ordered. rewrite find_seq_none by lia. exact Hab.
Qed.

(* ====================================================================== *)
(* 13. Non-vacuity                                                         *)
(* ====================================================================== *)

(* const (3 shards) -> map -> reshuffle -> reduce *)
Definition ex_prog : list node :=
  [ NConst 3 [TI; TI] [[1; 2; 3; 1; 2; 3; 4; 5; 1; 7; 2]%Z; [10; 20; 30; 40; 50; 60; 70; 80; 90; 100; 110]%Z];
    NMap 0 [EAddMod (ECol 0) 0 4; ECol 1];
    NReshuffle 1;
    NReduce 2 CSum ].

(* bigmachine-like: frames of 2 rows, producers read in a shuffled order,
   per-task combining, machine combiners with the producers {2,0} on one machine
   and {1} on another, machines read in a shard-dependent order, combiners
   spilling every 3 rows, task buffers flushed every 2 rows *)
Definition ex_st_machines : strategy :=
  mkStrategy 2
    (fun _ p => match p with 0 => [2; 0; 1] | 1 => [1; 2; 0] | _ => [0; 2; 1] end)
    (fun _ _ _ => [])
    (fun _ => true)
    (fun k => Nat.eqb k 3)
    (fun _ => [[2; 0]; [1]])
    (fun _ p => match p with 0 => [1; 0] | _ => [0; 1] end)
    3 2.

(* local-like: large frames, producers read in index order, combining only at
   the consumer *)
Definition ex_st_local : strategy :=
  mkStrategy 128 (fun _ _ => [0; 1; 2]) (fun _ _ _ => []) (fun _ => false) (fun _ => false)
             (fun _ => []) (fun _ _ => []) 1000 1000.

(* bigmachine without machine combiners: per-producer combining, merge at the consumer *)
Definition ex_st_precombine : strategy :=
  mkStrategy 1 (fun _ p => match p with 0 => [1; 0; 2] | _ => [2; 1; 0] end) (fun _ _ _ => [])
             (fun _ => true) (fun _ => false) (fun _ => []) (fun _ _ => []) 1 1.

Example ex_wf :
  wf_prog ex_prog = true /\ wf_strategy ex_st_machines ex_prog = true /\
  wf_strategy ex_st_local ex_prog = true /\ wf_strategy ex_st_precombine ex_prog = true.
Proof. vm_compute. repeat split. Qed.

(* the shuffled intermediate value (node 2) really is in another order ... *)
Example ex_intermediate_differs :
  vshards (nth 2 (values_of_run ex_st_machines ex_prog) vempty)
  <> vshards (nth 2 (values_of_ref ex_prog) vempty).
Proof. vm_compute. intro H. discriminate H. Qed.

Example ex_intermediate_run :
  nth 2 (vshards (nth 2 (values_of_run ex_st_machines ex_prog) vempty)) []
  = [ [[1]; [10]]; [[2]; [20]]; [[3]; [30]]; [[1]; [40]]; [[1]; [90]]; [[3]; [100]]; [[2]; [110]];
      [[2]; [50]]; [[3]; [60]]; [[1]; [80]] ]%Z.
Proof. vm_compute. reflexivity. Qed.

Example ex_intermediate_ref :
  nth 2 (vshards (nth 2 (values_of_ref ex_prog) vempty)) []
  = [ [[1]; [10]]; [[2]; [20]]; [[3]; [30]]; [[1]; [40]]; [[2]; [50]]; [[3]; [60]]; [[1]; [80]];
      [[1]; [90]]; [[3]; [100]]; [[2]; [110]] ]%Z.
Proof. vm_compute. reflexivity. Qed.

(* ... and the roots are the same, computed *)
Example ex_roots_computed :
  vshards (rvalue (run ex_st_machines ex_prog)) = [ []; [ [[0]; [70]] ]; [ [[1]; [220]]; [[2]; [180]]; [[3]; [190]] ] ]%Z /\
  vshards (rvalue (run ex_st_local ex_prog)) = vshards (rvalue (run ex_st_machines ex_prog)) /\
  vshards (rvalue (run ex_st_precombine ex_prog)) = vshards (rvalue (run ex_st_machines ex_prog)) /\
  vshards (rvalue (ref ex_prog)) = vshards (rvalue (run ex_st_machines ex_prog)).
Proof. vm_compute. repeat split. Qed.

(* ... and by the theorem *)
Example ex_roots_by_theorem :
  agree_value (rvalue (run ex_st_machines ex_prog)) (rvalue (run ex_st_local ex_prog)).
Proof.
  apply strategies_agree; vm_compute; reflexivity.
Qed.

(* a program with Fold, Cogroup, Head, Filter and Flatmap; every shuffle reads
   its producers in reverse order, frames of one row *)
Definition ex_prog2 : list node :=
  [ NConst 2 [TI; TI] [[5; 1; 5; 2; 1; 9; 2]%Z; [1; 2; 3; 4; 5; 6; 7]%Z];
    NReaderFunc 3 TI 5 4;
    NFold 1;
    NFilter 0 (ELt (ECol 1) 7);
    NCogroup [3; 2; 3];
    NFlatmap 4 (ELenG 1);
    NHead 5 4 ].

Definition ex_st_rev : strategy :=
  mkStrategy 1 (fun _ _ => [2; 1; 0]) (fun _ d _ => match d with 1 => [2; 1; 0] | _ => [1; 0] end)
             (fun _ => true) (fun _ => false) (fun _ => []) (fun _ _ => []) 2 3.
Definition ex_st_id : strategy :=
  mkStrategy 128 (fun _ _ => [0; 1; 2]) (fun _ d _ => match d with 1 => [0; 1; 2] | _ => [0; 1] end)
             (fun _ => false) (fun _ => false) (fun _ => []) (fun _ _ => []) 100 100.

Example ex2_wf :
  wf_prog ex_prog2 = true /\ wf_strategy ex_st_rev ex_prog2 = true /\ wf_strategy ex_st_id ex_prog2 = true.
Proof. vm_compute. repeat split. Qed.

Example ex2_fold_differs :
  vshards (nth 2 (values_of_run ex_st_rev ex_prog2) vempty) <> vshards (nth 2 (values_of_ref ex_prog2) vempty).
Proof. vm_compute. intro H. discriminate H. Qed.

Example ex2_roots :
  rvalue (run ex_st_rev ex_prog2) = rvalue (ref ex_prog2) /\
  rvalue (run ex_st_id ex_prog2) = rvalue (ref ex_prog2) /\
  vshards (rvalue (ref ex_prog2)) <> [[]; []; []].
Proof. vm_compute. repeat split. intro H. discriminate H. Qed.

(* the chunk size is needed: with frames of 0 rows nothing flows *)
Example chunk_zero_refuted :
  exists l : list nat, chunked 0 (map (fun x => x)) l <> map (fun x => x) l.
Proof. exists [1]. vm_compute. intro H. discriminate H. Qed.

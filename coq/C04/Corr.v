(* C04 — the same program under several execution strategies: every run must
   produce the reference rows (hence the same rows as every other run) and the
   same user-metric total. *)
From Coq Require Import List ZArith Bool.
Import ListNotations.
Require Export BS.C01.Corr.
Local Open Scope Z_scope.

Record case := mkCase { cprog : list node; cruns : list (obs * Z) }.


Definition counters_agree (l : list Z) : bool :=
  match l with [] => true | c :: r => forallb (Z.eqb c) r end.

Definition ok (c : case) : bool :=
  let r := ref (cprog c) in   (* evaluated once per program *)
  forallb (fun run => ok_with r (cprog c) (fst run)) (cruns c) && counters_agree (map snd (cruns c)).

Definition violations (cs : list case) : list nat := bad_indices ok cs.
Definition mismatches (cs : list case) : list nat := violations cs.

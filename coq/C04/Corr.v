(* C04 — the same program under several execution strategies: every run must
   produce the reference rows (hence the same rows as every other run) and the
   same user-metric total. *)
From Coq Require Import List ZArith Bool.
Import ListNotations.
Require Export BS.C01.Corr.
Require Import BS.C04.Strategy.
Local Open Scope Z_scope.

Record case := mkCase { cprog : list node; cruns : list (obs * Z) }.


Definition counters_agree (l : list Z) : bool :=
  match l with [] => true | c :: r => forallb (Z.eqb c) r end.

Definition ok (c : case) : bool :=
  let r := ref (cprog c) in   (* evaluated once per program *)
  forallb (fun run => ok_with r (cprog c) (fst run)) (cruns c) && counters_agree (map snd (cruns c)).

Definition violations (cs : list case) : list nat := bad_indices ok cs.
(* model vs implementation: besides the verdict, every program the implementation ran must satisfy
   the hypothesis [wf_prog] of the refinement theorems (C04_run_refines_ref, C04_strategies_agree),
   so that those theorems are about the programs that are actually exercised *)
Definition mismatches (cs : list case) : list nat :=
  bad_indices (fun c => ok c && wf_prog (cprog c)) cs.

(* C04 — the cross-strategy comparison is sound. *)
From Coq Require Import List ZArith Bool Permutation.
Import ListNotations.
Require Import BS.Common.Util BS.C01.Sem BS.C01.Checker BS.C04.Corr.
Local Open Scope Z_scope.

Lemma counters_agree_sound l : counters_agree l = true -> forall a b, In a l -> In b l -> a = b.
Proof.
  destruct l as [|c r]; simpl; intros H a b Ha Hb; [contradiction|].
  rewrite forallb_forall in H.
  assert (E : forall x, In x (c :: r) -> x = c).
  { intros x [<-|Hx]; [reflexivity|]. specialize (H x Hx). apply Z.eqb_eq in H. congruence. }
  rewrite (E a Ha), (E b Hb). reflexivity.
Qed.

(* If the checker accepts a case, then any two of its runs (whatever strategies
   they used) returned success, delivered the same rows shard by shard (equal
   lists where the program fixes the order, permutations elsewhere) and reported
   the same user-metric total. *)
Theorem case_ok_sound c :
  ok c = true ->
  forall o1 n1 o2 n2, In (o1, n1) (cruns c) -> In (o2, n2) (cruns c) ->
    BS.C01.Corr.oerr o1 = EOk /\ BS.C01.Corr.oerr o2 = EOk /\
    Forall2 (agree (vordered (rvalue (ref (cprog c))))) (BS.C01.Corr.oshards o1) (BS.C01.Corr.oshards o2) /\
    n1 = n2.
Proof.
  unfold ok. intros H o1 n1 o2 n2 H1 H2. apply andb_true_iff in H as [Hruns Hcnt].
  rewrite forallb_forall in Hruns.
  pose proof (Hruns _ H1) as A1. pose proof (Hruns _ H2) as A2. simpl in A1, A2.
  destruct (ok_with_sound _ _ _ A1) as [E1 _]. destruct (ok_with_sound _ _ _ A2) as [E2 _].
  repeat split; try assumption.
  - apply (accepted_runs_agree _ _ _ _ A1 A2).
  - apply (counters_agree_sound _ Hcnt); apply in_map_iff; [exists (o1, n1)|exists (o2, n2)]; auto.
Qed.

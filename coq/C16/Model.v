(* C16 (a) — executable model of bigslice.FuncLocationsDiff (func.go:276-343),
   statement by statement.  No proofs in this file.

   Locations are Go strings; they are Coq strings here.  Go's [int] costs are Z.
   The table is the list of its rows, built in the order the Go loops fill it. *)
From Coq Require Import List ZArith Bool String.
Import ListNotations.
Local Open Scope Z_scope.

Notation loc := string (only parsing).

(* const ( editNone = iota; editAdd; editDel ): editNone is the zero value of
   cell.edit, which the "equal" branch of the fill loop relies on (it only
   assigns the cost). *)
Inductive edit := EditNone | EditAdd | EditDel.
Definition edit_code (e : edit) : Z :=
  match e with EditNone => 0 | EditAdd => 1 | EditDel => 2 end.

Record cell := mkCell { cedit : edit; ccost : Z }.
Definition zero_cell : cell := mkCell EditNone 0.

Notation row := (list cell) (only parsing).
Notation table_t := (list (list cell)) (only parsing).

(* for j := 1; j < len(rhs)+1; j++ { cells[0][j] = {editAdd, j} } *)
Fixpoint row0_tail (j : Z) (rhs : list loc) : row :=
  match rhs with
  | [] => []
  | _ :: rhs' => mkCell EditAdd j :: row0_tail (j + 1) rhs'
  end.
Definition row0 (rhs : list loc) : row := zero_cell :: row0_tail 1 rhs.

(* the switch in the double loop, for x = lhs[i-1], y = rhs[j-1],
   diag = cells[i-1][j-1], up = cells[i-1][j], left = cells[i][j-1] *)
Definition fill_cell (x y : loc) (diag up left : cell) : cell :=
  if String.eqb x y then mkCell EditNone (ccost diag)
  else if ccost up <? ccost left then mkCell EditDel (ccost up + 1)
  else mkCell EditAdd (ccost left + 1).

(* inner loop over j for one i: [prev] = cells[i-1][j-1 ..], [left] = cells[i][j-1],
   [rhs] = rhs[j-1 ..] *)
Fixpoint fill_row (x : loc) (prev : row) (left : cell) (rhs : list loc) : row :=
  match rhs, prev with
  | y :: rhs', diag :: prev' =>
      match prev' with
      | up :: _ => let c := fill_cell x y diag up left in c :: fill_row x prev' c rhs'
      | [] => []
      end
  | _, _ => []
  end.

(* cells[i][0] = {editDel, i}, then the inner loop *)
Definition next_row (i : Z) (x : loc) (prev : row) (rhs : list loc) : row :=
  let first := mkCell EditDel i in first :: fill_row x prev first rhs.

(* outer loop over i: [prev] = cells[i-1], [lhs] = lhs[i-1 ..] *)
Fixpoint rows_from (i : Z) (prev : row) (lhs rhs : list loc) : table_t :=
  match lhs with
  | [] => []
  | x :: lhs' => let r := next_row i x prev rhs in r :: rows_from (i + 1) r lhs' rhs
  end.

Definition table (lhs rhs : list loc) : table_t := row0 rhs :: rows_from 1 (row0 rhs) lhs rhs.

Definition cell_at (t : table_t) (i j : nat) : cell := nth j (nth i t []) zero_cell.

(* ---- back-trace ---- *)
Inductive tedit := Keep (s : loc) | Add (s : loc) | Del (s : loc).

(* TPanic = an index expression lhs[i-1] / rhs[j-1] out of range (Go would panic);
   TFuel = the loop did not finish within len(lhs)+len(rhs) iterations. *)
Inductive trace_res := TOk (d : list tedit) (differ : bool) | TPanic | TFuel.

(* for i, j := len(lhs), len(rhs); i > 0 || j > 0; { switch cells[i][j].edit ... } *)
Fixpoint backtrace (fuel : nat) (t : table_t) (lhs rhs : list loc) (i j : nat)
         (d : list tedit) (differ : bool) : trace_res :=
  if Nat.eqb i 0 && Nat.eqb j 0 then TOk d differ else
  match fuel with
  | O => TFuel
  | S fuel' =>
      match cedit (cell_at t i j) with
      | EditNone =>
          match i, j with
          | S i', S j' =>
              match nth_error lhs i' with
              | Some s => backtrace fuel' t lhs rhs i' j' (d ++ [Keep s]) differ
              | None => TPanic
              end
          | _, _ => TPanic
          end
      | EditAdd =>
          match j with
          | S j' =>
              match nth_error rhs j' with
              | Some s => backtrace fuel' t lhs rhs i j' (d ++ [Add s]) true
              | None => TPanic
              end
          | O => TPanic
          end
      | EditDel =>
          match i with
          | S i' =>
              match nth_error lhs i' with
              | Some s => backtrace fuel' t lhs rhs i' j (d ++ [Del s]) true
              | None => TPanic
              end
          | O => TPanic
          end
      end
  end.

Definition diff_edits (lhs rhs : list loc) : trace_res :=
  backtrace (List.length lhs + List.length rhs) (table lhs rhs) lhs rhs (List.length lhs) (List.length rhs) [] false.

(* ---- rendering: d = append(d, lhs[i-1]) / "+ "+rhs[j-1] / "- "+lhs[i-1] ---- *)
Definition add_prefix : string := "+ ".
Definition del_prefix : string := "- ".

Definition render (e : tedit) : string :=
  match e with
  | Keep s => s
  | Add s => (add_prefix ++ s)%string
  | Del s => (del_prefix ++ s)%string
  end.

(* the edits in output order: nil when !differ, else d reversed in place
   (the swap loop over len(d)/2 positions is list reversal) *)
Definition diff_tagged (lhs rhs : list loc) : list tedit :=
  match diff_edits lhs rhs with
  | TOk d true => rev d
  | _ => []
  end.

Inductive diff_res := DLines (l : list string) | DPanic | DFuel.

(* [DLines []] is Go's nil result *)
Definition func_locations_diff (lhs rhs : list loc) : diff_res :=
  match diff_edits lhs rhs with
  | TOk d differ => if differ then DLines (rev (map render d)) else DLines []
  | TPanic => DPanic
  | TFuel => DFuel
  end.

(* ---- reading a diff: what the lines say about lhs and rhs ---- *)
Definition lhs_of (d : list tedit) : list loc :=
  flat_map (fun e => match e with Keep s => [s] | Del s => [s] | Add _ => [] end) d.
Definition rhs_of (d : list tedit) : list loc :=
  flat_map (fun e => match e with Keep s => [s] | Add s => [s] | Del _ => [] end) d.
Definition is_change (e : tedit) : bool := match e with Keep _ => false | _ => true end.
Definition changes (d : list tedit) : Z := Z.of_nat (List.length (filter is_change d)).

(* parsing a rendered line back (used on the implementation's output) *)
Definition parse_line (s : string) : tedit :=
  if prefix add_prefix s then Add (substring 2 (String.length s - 2) s)
  else if prefix del_prefix s then Del (substring 2 (String.length s - 2) s)
  else Keep s.
Definition plain (s : loc) : bool := negb (prefix add_prefix s) && negb (prefix del_prefix s).

(* ---- the registry side (func.go:154-207).  bigslice.Func appends a FuncValue
        whose file:line is runtime.Caller(1), the place Func was called from;
        FuncLocations lists them in registration order.  A registry is modelled by
        the list of the creation sites of its Funcs. ---- *)
Definition func_register (registry : list loc) (site : loc) : list loc := registry ++ [site].
Definition func_locations (registry : list loc) : list loc := registry.

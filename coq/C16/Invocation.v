(* C16 (b) — executable model of the type-directed invocation transport:
     FuncValue.typecheck                         func.go:120-145
     bigmachineExecutor.addInvocation         exec/bigmachine.go:206-236  (Result -> invocationRef)
     execInvocation.GobEncode / GobDecode        exec/invocation.go:42-121
     bigmachineExecutor.Run, first part       exec/bigmachine.go:293-311  (eager serialisation check)
     worker.Compile                           exec/bigmachine.go:612-642  (invocationRef -> Result, Invoke)
   over a small universe of Go types.  gob's byte format is abstracted: a value of
   concrete type c with content v is sent as [genc c v] and read back by [gdec c].
   No proofs in this file. *)
From Coq Require Import List ZArith Bool.
Import ListNotations.
Local Open Scope Z_scope.

(* concrete (non-interface) types of the universe; the Go types the driver uses
   are given on the right *)
Inductive ctype :=
| CInt      (* int *)
| CString   (* string *)
| CBool     (* bool *)
| CInts     (* []int              nil-able; gob does not distinguish nil from empty *)
| CMap      (* map[string]int     idem *)
| CStruct   (* pair{A int; S string} *)
| CSq       (* sq{N int}          implements shape, gob.Register'ed *)
| CUnreg    (* unreg{N int}       implements shape, NOT registered *)
| CPtr      (* *pair              not registered *)
| CPsq      (* *psq               implements shape, registered *)
| CChan     (* chan int *)
| CFunc     (* func() *)
| CResult   (* *exec.Result       registered in exec/session.go *)
| CRef.     (* exec.invocationRef registered in exec/bigmachine.go; never a user argument *)

(* parameter types of a Func *)
Inductive ptype :=
| PC (c : ctype)
| PAny      (* interface{} *)
| PShape    (* interface{ Area() int } *)
| PSliceI.  (* bigslice.Slice *)

Definition ctype_code (c : ctype) : Z :=
  match c with
  | CInt => 0 | CString => 1 | CBool => 2 | CInts => 3 | CMap => 4 | CStruct => 5 | CSq => 6
  | CUnreg => 7 | CPtr => 8 | CPsq => 9 | CChan => 10 | CFunc => 11 | CResult => 12 | CRef => 13
  end.
Definition ctype_eqb (a b : ctype) : bool := Z.eqb (ctype_code a) (ctype_code b).

(* isNilAssignable (func.go:104-118) on the concrete types; interfaces are nil-assignable *)
Definition nilable (c : ctype) : bool :=
  match c with CInts | CMap | CPtr | CPsq | CChan | CFunc | CResult => true | _ => false end.
Definition is_pointer (c : ctype) : bool :=
  match c with CPtr | CPsq | CResult => true | _ => false end.
(* gob can build a type description (chan and func are the types it cannot) *)
Definition gob_handles (c : ctype) : bool :=
  match c with CChan | CFunc => false | _ => true end.
(* gob.Register is keyed by the BASE type (pointers removed), and a value sent
   inside an interface comes back as the type that was registered under the name:
   the driver registers pair{} but not *pair, so a *pair inside an interface is
   sent as "main.pair" and arrives as a pair.  [regname c] is the type a value of
   type c inside an interface comes back as; None = "type not registered". *)
Definition regname (c : ctype) : option ctype :=
  match c with
  | CUnreg | CChan | CFunc => None
  | CPtr => Some CStruct
  | _ => Some c
  end.
Definition iface_sendable (c : ctype) : bool :=
  match regname c with Some _ => true | None => false end.
(* registered as itself: travels inside an interface and keeps its type *)
Definition registered (c : ctype) : bool :=
  match regname c with Some c' => ctype_eqb c c' | None => false end.

(* types that never are the dynamic type of a value argument: Results are [AResult],
   invocationRef is unexported *)
Definition internal (c : ctype) : bool := match c with CResult | CRef => true | _ => false end.

Definition is_iface (p : ptype) : bool := match p with PC _ => false | _ => true end.
Definition nilable_p (p : ptype) : bool := match p with PC c => nilable c | _ => true end.
(* reflect.Type.Implements *)
Definition implements (c : ctype) (p : ptype) : bool :=
  match p with
  | PAny => true
  | PShape => match c with CSq | CUnreg | CPsq => true | _ => false end
  | PSliceI => match c with CResult => true | _ => false end
  | PC _ => false
  end.

Fixpoint memZ (i : Z) (l : list Z) : bool :=
  match l with [] => false | x :: r => Z.eqb i x || memZ i r end.

(* ---- the executor's invocation graph: for each invocation it has added, the
        set addInvocation recorded in invocationDeps (the invocations its *Result
        arguments come from) ---- *)
Notation graph := (list (Z * list Z)) (only parsing).
Definition deps_of (g : graph) (i : Z) : list Z :=
  match find (fun e => Z.eqb (fst e) i) g with Some e => snd e | None => [] end.

(* bigmachineExecutor.compile, first loop: todo := [invIndex]; pop i, record it,
   push invocationDeps[i].  (No visited set: an invocation reachable twice is
   listed twice.)  None = out of fuel. *)
Fixpoint walk (fuel : nat) (g : graph) (todo : list Z) : option (list Z) :=
  match todo with
  | [] => Some []
  | i :: rest =>
      match fuel with
      | O => None
      | S f => option_map (cons i) (walk f g (rest ++ deps_of g i))
      end
  end.

(* second loop, for i := len(invocations)-1 .. 0: Worker.Compile of each, at most
   once per machine (m.Compiles); the worker fails with "invalid invocation
   reference" when a reference is to an invocation it has not compiled.
   [order] is already reversed; the result is the set the worker has compiled. *)
Fixpoint compile_all (g : graph) (order : list Z) (compiled : list Z) : option (list Z) :=
  match order with
  | [] => Some compiled
  | i :: r =>
      if memZ i compiled then compile_all g r compiled
      else if forallb (fun d => memZ d compiled) (deps_of g i) then compile_all g r (i :: compiled)
      else None
  end.

Definition graph_fuel (g : graph) : nat :=
  S (List.length g) * S (List.length g) * S (fold_right (fun e n => List.length (snd e) + n)%nat 0%nat g).

Section Transport.
(* contents of values as gob sees them, and their encoded form *)
Variables V B : Type.
Variable genc : ctype -> V -> B.
Variable gdec : ctype -> B -> option V.
(* two facts of the Go text that the model keeps behind switches; goparams reads
   them from /repo (Gen/C16_params.v):
   [rej_nilptr]: GobEncode tests `v.Kind() == reflect.Ptr && v.IsNil()` and returns
     an error before calling enc.Encode(arg) (false: gob panics on the nil pointer);
   [rej_nilres]: Session.run returns an error for a nil *Result argument before the
     invocation is made (false: addInvocation dereferences it and panics). *)
Variables rej_nilptr rej_nilres : bool.

(* an argument as held in Invocation.Args ([]interface{}) *)
Inductive arg :=
| ANil                       (* untyped nil: reflect.TypeOf(arg) == nil *)
| AVal (c : ctype) (v : V)   (* non-nil value of dynamic type c (for CInts/CMap: nil or not) *)
| ATNil (c : ctype)          (* typed nil of a pointer, chan or func type c *)
| AResult (i : Z)            (* *exec.Result of invocation i *)
| ARef (i : Z).              (* invocationRef{i}: only in transit *)

Definition dyn_type (a : arg) : option ctype :=
  match a with
  | ANil => None
  | AVal c _ => Some c
  | ATNil c => Some c
  | AResult _ => Some CResult
  | ARef _ => Some CRef
  end.

(* ---- FuncValue.typecheck ---- *)
Definition typecheck1 (p : ptype) (a : arg) : bool :=
  match dyn_type a with
  | None => nilable_p p
  | Some c => match p with PC c' => ctype_eqb c' c | _ => implements c p end
  end.
Fixpoint typecheck (ps : list ptype) (args : list arg) : bool :=
  match ps, args with
  | [], [] => true
  | p :: ps', a :: args' => typecheck1 p a && typecheck ps' args'
  | _, _ => false
  end.

(* ---- addInvocation: every *Result argument becomes an invocationRef; a Result of
        an invocation the executor has not seen, or a nil *Result, panics ---- *)
Inductive sres := SOk (args : list arg) | SPanic.
Definition subst_arg (known : list Z) (a : arg) : option arg :=
  match a with
  | AResult i => if memZ i known then Some (ARef i) else None
  | ATNil CResult => None
  | _ => Some a
  end.
Fixpoint subst_args (known : list Z) (args : list arg) : sres :=
  match args with
  | [] => SOk []
  | a :: rest =>
      match subst_arg known a with
      | None => SPanic
      | Some a' => match subst_args known rest with SOk r => SOk (a' :: r) | SPanic => SPanic end
      end
  end.

(* ... and records each of them in invocationDeps[inv.Index] *)
Fixpoint record_deps (args : list arg) : list Z :=
  match args with
  | [] => []
  | AResult i :: rest => i :: record_deps rest
  | _ :: rest => record_deps rest
  end.

(* ---- GobEncode ---- *)
Inductive idyn := DNil | DVal (c : ctype) (b : B) | DRef (i : Z).
(* one gob message: a value sent under its own type, an invocationRef, or an
   interface value (nil, or registered type name + value) *)
Inductive wire := WVal (c : ctype) (b : B) | WRefV (i : Z) | WIface (d : idyn).
Inductive eres1 := E1Ok (w : wire) | E1Err | E1Panic.

Definition encode_arg (p : ptype) (a : arg) : eres1 :=
  if is_iface p then
    (* enc.Encode(&arg): sent as an interface value *)
    match a with
    | ANil => E1Ok (WIface DNil)
    | AVal c v => match regname c with
                  | Some c' => E1Ok (WIface (DVal c' (genc c v)))
                  | None => E1Err   (* "type not registered for interface" *)
                  end
    | ATNil _ => E1Err        (* "cannot encode nil pointer inside interface" / not registered *)
    | AResult _ => E1Err      (* not reached: addInvocation has substituted it *)
    | ARef i => E1Ok (WIface (DRef i))
    end
  else
    (* enc.Encode(arg): sent under the dynamic type of arg *)
    match a with
    | ANil => E1Err           (* "gob: cannot encode nil value" *)
    | AVal c v => if gob_handles c then E1Ok (WVal c (genc c v)) else E1Err
    | ATNil c => if is_pointer c
                 then (if rej_nilptr then E1Err   (* "encoding arg %d of type %v: nil pointer" *)
                       else E1Panic)              (* gob panics: "cannot encode nil pointer of type" *)
                 else E1Err
    | AResult _ => E1Err      (* not reached *)
    | ARef i => E1Ok (WRefV i)
    end.

Inductive eres := EOk (ws : list wire) | EErr | EPanic.
(* for i, arg := range inv.Args { typ := fv.In(i) ... }: stops at the first failure *)
Fixpoint encode_args (ps : list ptype) (args : list arg) : eres :=
  match args with
  | [] => EOk []
  | a :: args' =>
      match ps with
      | [] => EPanic          (* fv.In(i) out of range *)
      | p :: ps' =>
          match encode_arg p a with
          | E1Ok w => match encode_args ps' args' with EOk ws => EOk (w :: ws) | e => e end
          | E1Err => EErr
          | E1Panic => EPanic
          end
      end
  end.

(* ---- GobDecode: the decode target is chosen from the parameter type ---- *)
Inductive target := TRef | TAny | TType (c : ctype).
Definition decode_target (p : ptype) : target :=
  match p with
  | PC CResult => TRef       (* typ == typResultPtr: reflect.New(typInvocationRef) *)
  | PC c => TType c          (* reflect.New(typ) *)
  | _ => TAny                (* typ.Kind() == reflect.Interface: reflect.New(typEmptyInterface) *)
  end.
Definition decode_arg (p : ptype) (w : wire) : option arg :=
  match decode_target p, w with
  | TRef, WRefV i => Some (ARef i)
  | TAny, WIface DNil => Some ANil
  | TAny, WIface (DVal c b) => option_map (AVal c) (gdec c b)
  | TAny, WIface (DRef i) => Some (ARef i)
  | TType c, WVal c' b => if ctype_eqb c c' then option_map (AVal c) (gdec c b) else None
  | _, _ => None
  end.
(* inv.Args = make([]interface{}, fv.NumIn()); one message per parameter *)
Fixpoint decode_args (ps : list ptype) (ws : list wire) : option (list arg) :=
  match ps with
  | [] => Some []
  | p :: ps' =>
      match ws with
      | [] => None
      | w :: ws' =>
          match decode_arg p w with
          | Some a => option_map (cons a) (decode_args ps' ws')
          | None => None
          end
      end
  end.

(* ---- worker.Compile: every invocationRef becomes the worker's Result ---- *)
Fixpoint subst_back (compiled : list Z) (args : list arg) : option (list arg) :=
  match args with
  | [] => Some []
  | a :: rest =>
      match a with
      | ARef i => if memZ i compiled then option_map (cons (AResult i)) (subst_back compiled rest) else None
      | _ => option_map (cons a) (subst_back compiled rest)
      end
  end.

(* ---- the codec alone: GobEncode then GobDecode ---- *)
Inductive codec_res := COk (args : list arg) | CEncErr | CDecErr | CPanic.
Definition codec (ps : list ptype) (args : list arg) : codec_res :=
  match encode_args ps args with
  | EOk ws => match decode_args ps ws with Some a => COk a | None => CDecErr end
  | EErr => CEncErr
  | EPanic => CPanic
  end.

(* ---- the first part of bigmachineExecutor.Run: addInvocation, then the
        eager serialisation check; only then is a machine asked for ---- *)
Inductive run_out :=
| RunErr      (* task.Errorf: the task is in TaskErr, Run returned, no machine requested *)
| RunPanic    (* a panic escapes Run (which Eval started with `go`) *)
| RunOffer (ws : list wire).   (* serialised; Run goes on to ask the manager for a machine *)
Definition run_prefix (known : list Z) (ps : list ptype) (args : list arg) : run_out :=
  match subst_args known args with
  | SPanic => RunPanic
  | SOk a1 =>
      match encode_args ps a1 with
      | EOk ws => RunOffer ws
      | EErr => RunErr
      | EPanic => RunPanic
      end
  end.

(* ---- the whole way: Invocation() typechecks, Run serialises, the worker decodes,
        substitutes and invokes (Apply typechecks again) ---- *)
Inductive outcome :=
| OSessErr                    (* Session.run returns "argument %d is a nil *Result": nothing is made *)
| OTypeErr                    (* FuncValue.Invocation panics with a typecheck error *)
| ORunErr
| ORunPanic
| OWorkerErr                  (* worker.Compile returns an error *)
| OArrived (args : list arg). (* the Func is applied to these arguments on the worker *)

Fixpoint has_nil_result (args : list arg) : bool :=
  match args with
  | [] => false
  | ATNil CResult :: _ => true
  | _ :: rest => has_nil_result rest
  end.

Definition transport (known compiled : list Z) (ps : list ptype) (args : list arg) : outcome :=
  (* Session.run looks for a nil *Result before it calls funcv.Invocation *)
  if rej_nilres && has_nil_result args then OSessErr else
  if negb (typecheck ps args) then OTypeErr else
  match run_prefix known ps args with
  | RunErr => ORunErr
  | RunPanic => ORunPanic
  | RunOffer ws =>
      match decode_args ps ws with
      | None => OWorkerErr
      | Some a2 =>
          match subst_back compiled a2 with
          | None => OWorkerErr
          | Some a3 => if typecheck ps a3 then OArrived a3 else OWorkerErr
          end
      end
  end.

(* ---- the same towards a FRESH worker (one that has compiled nothing): compile
        first sends the invocations behind the Result arguments, transitively,
        dependencies first; [g] is the executor's graph of earlier invocations ---- *)
Definition fresh_compiled (g : list (Z * list Z)) (args : list arg) : list Z :=
  match walk (graph_fuel g) g (record_deps args) with
  | None => []
  | Some order =>
      match compile_all g (rev order) [] with
      | Some compiled => compiled
      | None => []
      end
  end.
Definition fresh_transport (g : list (Z * list Z)) (ps : list ptype) (args : list arg) : outcome :=
  transport (map fst g) (fresh_compiled g args) ps args.

(* ---- what the property asks of one well-typed argument ---- *)
(* must arrive intact: values of gob-encodable types, registered concrete types
   inside interfaces, untyped nil (typecheck and Apply accept it for every nil-able
   parameter and turn it into the zero value), Results *)
Definition must_arrive (p : ptype) (a : arg) : bool :=
  match a with
  | ANil => match p with PC c => gob_handles c | _ => true end
  | AVal c _ => negb (internal c) && if is_iface p then registered c else gob_handles c
  | ATNil _ => false
  | AResult _ => true
  | ARef _ => false
  end.
(* among those, the ones the code does ship (everything but the untyped nil for a
   non-interface parameter) *)
Definition ships (p : ptype) (a : arg) : bool :=
  match a with
  | ANil => is_iface p
  | AVal c _ => negb (internal c) && if is_iface p then registered c else gob_handles c
  | ATNil _ => false
  | AResult _ => true
  | ARef _ => false
  end.
(* cannot be encoded: chan and func values (nil or not), unregistered types in
   interfaces, typed nil pointers (gob has no representation for them), and a nil
   *Result (it stands for no invocation) *)
Definition unencodable (p : ptype) (a : arg) : bool :=
  match a with
  | ANil => match p with PC c => negb (gob_handles c) | _ => false end
  | AVal c _ => negb (internal c) && negb (if is_iface p then iface_sendable c else gob_handles c)
  | ATNil _ => true
  | _ => false
  end.

Fixpoint forallb2 {X Y} (f : X -> Y -> bool) (xs : list X) (ys : list Y) : bool :=
  match xs, ys with
  | [], [] => true
  | x :: xs', y :: ys' => f x y && forallb2 f xs' ys'
  | _, _ => false
  end.
Fixpoint existsb2 {X Y} (f : X -> Y -> bool) (xs : list X) (ys : list Y) : bool :=
  match xs, ys with
  | x :: xs', y :: ys' => f x y || existsb2 f xs' ys'
  | _, _ => false
  end.

Fixpoint results_in (s : list Z) (args : list arg) : bool :=
  match args with
  | [] => true
  | AResult i :: r => memZ i s && results_in s r
  | _ :: r => results_in s r
  end.

End Transport.

Arguments ANil {V}.
Arguments AVal {V} c v.
Arguments ATNil {V} c.
Arguments AResult {V} i.
Arguments ARef {V} i.
Arguments COk {V} args.
Arguments CEncErr {V}.
Arguments CDecErr {V}.
Arguments CPanic {V}.
Arguments OSessErr {V}.
Arguments OTypeErr {V}.
Arguments ORunErr {V}.
Arguments ORunPanic {V}.
Arguments OWorkerErr {V}.
Arguments OArrived {V} args.
Arguments SOk {V} args.
Arguments SPanic {V}.
Arguments DNil {B}.
Arguments DVal {B} c b.
Arguments DRef {B} i.
Arguments WVal {B} c b.
Arguments WRefV {B} i.
Arguments WIface {B} d.
Arguments E1Ok {B} w.
Arguments E1Err {B}.
Arguments E1Panic {B}.
Arguments EOk {B} ws.
Arguments EErr {B}.
Arguments EPanic {B}.
Arguments RunErr {B}.
Arguments RunPanic {B}.
Arguments RunOffer {B} ws.

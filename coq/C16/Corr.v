(* C16 — correspondence drivers: evaluated by vm_compute on harness case files. *)
From Coq Require Import List ZArith Bool String.
Import ListNotations.
Require Export BS.Common.Util BS.C16.Model BS.C16.Invocation.
Require Import BS.Gen.C16_params.
Local Open Scope Z_scope.

(* ---- (a) what bigslice.FuncLocationsDiff returned ---- *)
Inductive dobs :=
| DObs (isnil : bool) (lines : list string)
| DObsPanic.

(* ---- (b) what happened to an invocation; values are compared through ids
        (index into the driver's table of Go values of that type), so the value
        codec of the model is instantiated by the identity on ids ---- *)
Notation zarg := (arg Z) (only parsing).
Definition zenc (c : ctype) (v : Z) : Z := v.
Definition zdec (c : ctype) (b : Z) : option Z := Some b.

Record iobs := mkIObs {
  ocodec : option (codec_res Z); (* GobEncode;GobDecode alone; None = not run (type error, Result arguments) *)
  ohdr : bool;                   (* Index, Func, Exclusive, Location came back unchanged *)
  oworld : outcome Z;            (* Invocation(); Run's first part; worker.Compile; the arguments the Func saw there *)
  onames : bool                  (* task names compiled on the worker = task names compiled on the driver *)
}.

Inductive case :=
| CDiff (l r : list string) (o : dobs)
| CInv (ps : list ptype) (args : list zarg) (known compiled : list Z) (o : iobs)
(* the registry: [sites] are the places (file:line) where the driver created its
   Funcs, in the order it did, as the driver itself saw them (runtime.Caller at
   the call); [obs] is what bigslice.FuncLocations() says about these Funcs *)
| CReg (sites obs : list string)
(* two registries made of real registrations: Funcs [lf] and [rf] (indices into
   [sites]); [ll], [rl] are their locations taken from bigslice.FuncLocations(), [o]
   is the real FuncLocationsDiff of [ll] and [rl] *)
| CRegPair (sites : list string) (lf rf : list Z) (ll rl : list string) (o : dobs)
(* the same invocation sent by the executor's compile to a FRESH worker: [g] is the
   executor's graph of the earlier invocations (id, ids of the Results among its own
   arguments), [odeps] the dependency set addInvocation recorded for this one *)
| CDeps (g : list (Z * list Z)) (ps : list ptype) (args : list zarg) (odeps : list Z) (o : outcome Z).

Definition strs_eqb := list_eqb String.eqb.

Definition arg_eqb (a b : zarg) : bool :=
  match a, b with
  | ANil, ANil => true
  | AVal c v, AVal c' v' => ctype_eqb c c' && Z.eqb v v'
  | ATNil c, ATNil c' => ctype_eqb c c'
  | AResult i, AResult j => Z.eqb i j
  | ARef i, ARef j => Z.eqb i j
  | _, _ => false
  end.
Definition args_eqb := list_eqb arg_eqb.

Definition codec_res_eqb (a b : codec_res Z) : bool :=
  match a, b with
  | COk x, COk y => args_eqb x y
  | CEncErr, CEncErr => true
  | CDecErr, CDecErr => true
  | CPanic, CPanic => true
  | _, _ => false
  end.

Definition outcome_eqb (a b : outcome Z) : bool :=
  match a, b with
  | OSessErr, OSessErr => true
  | OTypeErr, OTypeErr => true
  | ORunErr, ORunErr => true
  | ORunPanic, ORunPanic => true
  | OWorkerErr, OWorkerErr => true
  | OArrived x, OArrived y => args_eqb x y
  | _, _ => false
  end.

(* the model with the two switches as the source has them now (Gen/C16_params.v) *)
Definition ztransport := transport Z Z zenc zdec encode_rejects_nil_pointer run_rejects_nil_result.
Definition zfresh_transport := fresh_transport Z Z zenc zdec encode_rejects_nil_pointer run_rejects_nil_result.
Definition zcodec := codec Z Z zenc zdec encode_rejects_nil_pointer.
Definition sess_rejects (args : list zarg) : bool := run_rejects_nil_result && has_nil_result Z args.

Definition no_results (args : list zarg) : bool :=
  forallb (fun a => match a with AResult _ => false | _ => true end) args.

(* ---- exact agreement of model and implementation ---- *)
Definition exact (c : case) : bool :=
  match c with
  | CDiff l r o =>
      match func_locations_diff l r, o with
      | DLines m, DObs isnil lines =>
          strs_eqb m lines && Bool.eqb isnil (match m with [] => true | _ => false end)
      | DPanic, DObsPanic => true
      | _, _ => false
      end
  | CInv ps args known compiled o =>
      outcome_eqb (ztransport known compiled ps args) (oworld o)
      && option_eqb codec_res_eqb
           (if negb (sess_rejects args) && typecheck Z ps args && no_results args
            then Some (zcodec ps args) else None)
           (ocodec o)
      && ohdr o
      (* same arguments => same slice => same task names; when the model says the
         arguments change in transit the names are free *)
      && (onames o || negb (outcome_eqb (ztransport known compiled ps args) (OArrived args)))
  | CReg sites obs => strs_eqb (func_locations (fold_left func_register sites [])) obs
  | CRegPair sites lf rf ll rl o =>
      let site := fun k => nth (Z.to_nat k) sites EmptyString in
      strs_eqb (map site lf) ll && strs_eqb (map site rf) rl
      && match func_locations_diff ll rl, o with
         | DLines m, DObs isnil lines =>
             strs_eqb m lines && Bool.eqb isnil (match m with [] => true | _ => false end)
         | _, _ => false
         end
  | CDeps g ps args odeps o =>
      outcome_eqb (zfresh_transport g ps args) o
      && (negb (typecheck Z ps args)
          || (forallb (fun i => memZ i odeps) (record_deps Z args)
              && forallb (fun i => memZ i (record_deps Z args)) odeps))
  end.

(* ---- the property, judged on the implementation's output alone ---- *)
Definition diff_ok (l r : list string) (o : dobs) : bool :=
  match o with
  | DObsPanic => false
  | DObs _ lines =>
      if strs_eqb l r then
        (* empty exactly when the registries agree *)
        match lines with [] => true | _ => false end
      else
        (* otherwise it transforms one into the other *)
        match lines with
        | [] => false
        | _ => let d := map parse_line lines in strs_eqb (lhs_of d) l && strs_eqb (rhs_of d) r
        end
  end.

(* what FuncValue.Apply hands to the Go function: an untyped nil for a
   non-interface parameter becomes that type's zero value (id 0 is the driver's
   "no elements" value of slices and maps) *)
Definition applied1 (p : ptype) (a : zarg) : zarg :=
  match a, p with
  | ANil, PC c => if is_pointer c || negb (gob_handles c) then ATNil c else AVal c 0
  | _, _ => a
  end.
Fixpoint applied (ps : list ptype) (args : list zarg) : list zarg :=
  match ps, args with
  | p :: ps', a :: args' => applied1 p a :: applied ps' args'
  | _, _ => args
  end.
(* the Func sees on the worker what it saw on the driver *)
Definition same_applied (ps : list ptype) (a b : list zarg) : bool :=
  args_eqb (applied ps a) (applied ps b).

Definition inv_ok (ps : list ptype) (args : list zarg) (known compiled : list Z) (o : iobs) : bool :=
  if negb (typecheck Z ps args) then
    (* argument problems fail fast: rejected by Invocation(), or, for a nil *Result,
       already by Session.run *)
    match oworld o with
    | OTypeErr => true
    | OSessErr => has_nil_result Z args
    | _ => false
    end
  else if negb (results_in Z known args && results_in Z compiled args) then true
  else if forallb2 (must_arrive Z) ps args then
    (* arrives intact, and compiling there gives the driver's task names *)
    match oworld o with OArrived a => same_applied ps a args | _ => false end
    && onames o && ohdr o
    && match ocodec o with
       | Some (COk a) => same_applied ps a args
       | Some _ => false
       | None => true
       end
  else if existsb2 (unencodable Z) ps args then
    (* a prompt fatal error: no panic, no machine requested, nothing sent
       (an implementation that does get the arguments across intact is not at fault) *)
    match oworld o with
    | ORunErr => true
    | OSessErr => has_nil_result Z args
    | OArrived a => same_applied ps a args && onames o
    | _ => false
    end
  else true.

Definition ok (c : case) : bool :=
  match c with
  | CDiff l r o => diff_ok l r o
  | CInv ps args known compiled o => inv_ok ps args known compiled o
  | CReg sites obs =>
      (* one entry per Func, in registration order, each the place of its creation *)
      strs_eqb sites obs
  | CRegPair sites lf rf ll rl o =>
      (* the comparison tells registries apart whenever they hold different Funcs
         (Funcs created at different places), and its output transforms one
         location list into the other *)
      diff_ok ll rl o
      && (list_eqb Z.eqb lf rf
          || match o with DObs _ (_ :: _) => true | _ => false end)
  | CDeps g ps args odeps o =>
      (* whatever the worker lacks must be sent: the outcome is judged as if every
         earlier invocation were compiled there, and every Result argument must be
         a recorded dependency *)
      inv_ok ps args (map fst g) (map fst g) (mkIObs None true o true)
      && (negb (typecheck Z ps args) || forallb (fun i => memZ i odeps) (record_deps Z args))
  end.

Definition mismatches (cs : list case) : list nat := bad_indices exact cs.
Definition violations (cs : list case) : list nat := bad_indices ok cs.

(* C16 (b) — proofs about the invocation transport model, for all parameter and
   argument lists over the universe, under the hypothesis that the value codec
   (gob) gives back what was sent. *)
From Coq Require Import List ZArith Bool Lia.
Import ListNotations.
Require Import BS.C16.Invocation.
Local Open Scope Z_scope.

Lemma ctype_eqb_spec a b : ctype_eqb a b = true <-> a = b.
Proof.
  unfold ctype_eqb. rewrite Z.eqb_eq. split; [|now intros ->].
  destruct a, b; simpl; intro H; try reflexivity; discriminate H.
Qed.
Lemma ctype_eqb_refl a : ctype_eqb a a = true.
Proof. now apply ctype_eqb_spec. Qed.

Lemma registered_regname c : registered c = true -> regname c = Some c.
Proof. destruct c; simpl; intro H; try reflexivity; discriminate H. Qed.

Section TransportProofs.
Variables V B : Type.
Variable genc : ctype -> V -> B.
Variable gdec : ctype -> B -> option V.
(* gob is abstracted: whatever it writes for a value it reads back as that value *)
Hypothesis gob_roundtrip : forall c v, gdec c (genc c v) = Some v.
(* the two switches of the model: all statements below hold for both values
   unless they say [rp = true] / [rr = true] *)
Variables rp rr : bool.

Notation arg := (arg V).
Notation typecheck := (@typecheck V).
Notation typecheck1 := (@typecheck1 V).
Notation subst_arg := (@subst_arg V).
Notation subst_args := (@subst_args V).
Notation encode_arg := (encode_arg V B genc rp).
Notation encode_args := (encode_args V B genc rp).
Notation decode_arg := (decode_arg V B gdec).
Notation decode_args := (decode_args V B gdec).
Notation subst_back := (@subst_back V).
Notation codec := (codec V B genc gdec rp).
Notation run_prefix := (run_prefix V B genc rp).
Notation transport := (transport V B genc gdec rp rr).
Notation has_nil_result := (@has_nil_result V).
Notation ships := (@ships V).
Notation must_arrive := (@must_arrive V).
Notation unencodable := (@unencodable V).
Notation results_in := (@results_in V).

Lemma iface_target p : is_iface p = true -> decode_target p = TAny.
Proof. destruct p; simpl; [discriminate | reflexivity..]. Qed.

(* the decode target chosen from the parameter type accepts what the encoder
   chose to send for a (substituted) argument of that parameter *)
Lemma target_accepts known p a a' :
  typecheck1 p a = true -> ships p a = true -> subst_arg known a = Some a' ->
  exists w, encode_arg p a' = E1Ok w /\ decode_arg p w = Some a'.
Proof.
  intros Ht Hs Hsub. destruct a as [|c v|c|i|i]; simpl in Hs; try discriminate.
  - (* untyped nil, interface parameter *)
    inversion Hsub; subst a'. unfold Invocation.encode_arg, Invocation.decode_arg.
    rewrite Hs, (iface_target p Hs). eauto.
  - (* value *)
    inversion Hsub; subst a'. apply andb_true_iff in Hs as [Hi Hs].
    unfold Invocation.encode_arg, Invocation.decode_arg.
    destruct (is_iface p) eqn:Ep.
    + rewrite (registered_regname c Hs), (iface_target p Ep). eexists; split; [reflexivity|].
      simpl. now rewrite gob_roundtrip.
    + destruct p as [c'| | |]; try discriminate Ep.
      unfold Invocation.typecheck1 in Ht. simpl in Ht. apply ctype_eqb_spec in Ht. subst c'.
      rewrite Hs. eexists; split; [reflexivity|].
      destruct c; simpl in Hi; try discriminate Hi; simpl; now rewrite gob_roundtrip.
  - (* Result *)
    simpl in Hsub. destruct (memZ i known); [|discriminate]. inversion Hsub; subst a'.
    unfold Invocation.encode_arg, Invocation.decode_arg.
    destruct p as [c'| | |]; simpl.
    + unfold Invocation.typecheck1 in Ht. simpl in Ht. apply ctype_eqb_spec in Ht. subst c'. simpl. eauto.
    + eauto.
    + discriminate Ht.
    + eauto.
Qed.

Lemma subst_arg_back known compiled a a' :
  ships (PC CInt) a || ships PAny a = true ->
  subst_arg known a = Some a' -> results_in compiled [a] = true ->
  forall rest r, subst_back compiled rest = Some r ->
  subst_back compiled (a' :: rest) = Some (a :: r).
Proof.
  intros Hs Hsub Hc rest r Hr.
  destruct a as [|c v|c|i|i]; simpl in Hs; try discriminate.
  - inversion Hsub; subst. simpl. now rewrite Hr.
  - inversion Hsub; subst. simpl. now rewrite Hr.
  - simpl in Hsub. destruct (memZ i known); [|discriminate]. inversion Hsub; subst.
    simpl in Hc. rewrite andb_true_r in Hc. simpl. now rewrite Hc, Hr.
Qed.

Lemma ships_any p a : ships p a = true -> ships (PC CInt) a || ships PAny a = true.
Proof.
  destruct a; simpl; intro H; try discriminate; try reflexivity.
  apply andb_true_iff in H as [H1 H2]. rewrite H1. simpl.
  destruct (is_iface p); rewrite H2; [apply orb_true_r | reflexivity].
Qed.

Lemma results_in_cons s a r : results_in s (a :: r) = results_in s [a] && results_in s r.
Proof. destruct a; simpl; try reflexivity. now rewrite andb_true_r. Qed.

(* every stage succeeds and the last one gives back the original arguments *)
Lemma pipeline known compiled : forall ps args,
  typecheck ps args = true -> forallb2 ships ps args = true ->
  results_in known args = true -> results_in compiled args = true ->
  exists a1 ws, subst_args known args = SOk a1 /\ encode_args ps a1 = EOk ws /\
                decode_args ps ws = Some a1 /\ subst_back compiled a1 = Some args.
Proof.
  induction ps as [|p ps IH]; intros [|a args] Ht Hs Hk Hc; simpl in Ht, Hs; try discriminate.
  - exists [], []. repeat split; reflexivity.
  - apply andb_true_iff in Ht as [Ht1 Ht]. apply andb_true_iff in Hs as [Hs1 Hs].
    rewrite results_in_cons in Hk, Hc.
    apply andb_true_iff in Hk as [Hk1 Hk]. apply andb_true_iff in Hc as [Hc1 Hc].
    destruct (IH args Ht Hs Hk Hc) as [a1 [ws [E1 [E2 [E3 E4]]]]].
    assert (Hsub : exists a', subst_arg known a = Some a').
    { destruct a as [|c v|c|i|i]; simpl in Hs1; try discriminate; simpl; eauto.
      simpl in Hk1. rewrite andb_true_r in Hk1. rewrite Hk1. eauto. }
    destruct Hsub as [a' Hsub].
    destruct (target_accepts known p a a' Ht1 Hs1 Hsub) as [w [Ew Dw]].
    exists (a' :: a1), (w :: ws). simpl. rewrite Hsub, E1. simpl. rewrite Ew, E2, Dw, E3.
    repeat split; try reflexivity.
    apply (subst_arg_back known compiled a a' (ships_any p a Hs1) Hsub Hc1 a1 args E4).
Qed.

Lemma ships_no_nil_result : forall ps args,
  forallb2 ships ps args = true -> has_nil_result args = false.
Proof.
  induction ps as [|p ps IH]; intros [|a args] Hs; simpl in Hs; try discriminate; [reflexivity|].
  apply andb_true_iff in Hs as [Hs1 Hs]. specialize (IH args Hs).
  destruct a as [|c v|c|i|i]; simpl in Hs1; try discriminate; simpl; exact IH.
Qed.

(* Invocations reach workers intact: well-typed arguments that the code ships
   (everything the property lists except an untyped nil for a non-interface
   parameter, see the refutation below) are what the worker's Func is applied to. *)
Theorem transport_shape known compiled ps args :
  typecheck ps args = true -> forallb2 ships ps args = true ->
  results_in known args = true -> results_in compiled args = true ->
  transport known compiled ps args = OArrived args.
Proof.
  intros Ht Hs Hk Hc.
  destruct (pipeline known compiled ps args Ht Hs Hk Hc) as [a1 [ws [E1 [E2 [E3 E4]]]]].
  unfold Invocation.transport, Invocation.run_prefix.
  rewrite (ships_no_nil_result ps args Hs), andb_false_r. now rewrite Ht, E1, E2, E3, E4, Ht.
Qed.

Definition no_results (args : list arg) : bool :=
  forallb (fun a => match a with AResult _ => false | _ => true end) args.

Lemma no_results_subst known : forall ps args,
  forallb2 ships ps args = true -> no_results args = true -> subst_args known args = SOk args.
Proof.
  induction ps as [|p ps IH]; intros [|a args] Hs Hn; simpl in Hs; try discriminate; [reflexivity|].
  simpl in Hn. apply andb_true_iff in Hs as [Hs1 Hs]. apply andb_true_iff in Hn as [Hn1 Hn].
  simpl. rewrite (IH args Hs Hn).
  destruct a; simpl in Hs1, Hn1; try discriminate; reflexivity.
Qed.

(* GobDecode (GobEncode inv) = inv on the arguments, without the substitutions *)
Theorem codec_roundtrip ps args :
  typecheck ps args = true -> forallb2 ships ps args = true -> no_results args = true ->
  codec ps args = COk args.
Proof.
  intros Ht Hs Hn.
  assert (Hr : forall s, results_in s args = true).
  { intro s. clear Ht Hs. induction args as [|a r IH]; [reflexivity|].
    simpl in Hn. apply andb_true_iff in Hn as [H1 H2]. destruct a; simpl; auto; discriminate. }
  destruct (pipeline [] [] ps args Ht Hs (Hr _) (Hr _)) as [a1 [ws [E1 [E2 [E3 _]]]]].
  rewrite (no_results_subst [] ps args Hs Hn) in E1. inversion E1; subst a1.
  unfold Invocation.codec. now rewrite E2, E3.
Qed.

(* ---- arguments that cannot be encoded ---- *)

(* an unencodable argument is never turned into a message *)
Lemma unencodable_not_ok known p a a' :
  unencodable p a = true -> subst_arg known a = Some a' -> forall w, encode_arg p a' <> E1Ok w.
Proof.
  destruct a as [|c v|c|i|i]; simpl; try discriminate.
  - intros H Hs w. inversion Hs; subst. destruct p as [c| | |]; try discriminate H.
    simpl. discriminate.
  - intros H Hs w. inversion Hs; subst. apply andb_true_iff in H as [_ H].
    unfold Invocation.encode_arg. destruct (is_iface p); apply negb_true_iff in H.
    + unfold iface_sendable in H. destruct (regname c); [discriminate H | discriminate].
    + rewrite H. discriminate.
  - intros _ Hs w. unfold Invocation.encode_arg.
    destruct c; simpl in Hs; try discriminate Hs; inversion Hs; subst;
      destruct (is_iface p), rp; simpl; discriminate.
Qed.

(* with the nil-pointer test in GobEncode it is reported as an error *)
Lemma unencodable_encode_err known p a a' : rp = true ->
  unencodable p a = true -> subst_arg known a = Some a' -> encode_arg p a' = E1Err.
Proof.
  intro Hrp. destruct a as [|c v|c|i|i]; simpl; try discriminate.
  - intros H Hs. inversion Hs; subst. destruct p as [c| | |]; try discriminate H. reflexivity.
  - intros H Hs. inversion Hs; subst. apply andb_true_iff in H as [_ H].
    unfold Invocation.encode_arg. destruct (is_iface p); apply negb_true_iff in H.
    + unfold iface_sendable in H. destruct (regname c); [discriminate | reflexivity].
    + now rewrite H.
  - intros _ Hs. unfold Invocation.encode_arg. rewrite Hrp.
    destruct c; simpl in Hs; try discriminate Hs; inversion Hs; subst;
      destruct (is_iface p); reflexivity.
Qed.

Lemma subst_arg_total known a :
  results_in known [a] = true -> has_nil_result [a] = false -> exists a', subst_arg known a = Some a'.
Proof.
  destruct a as [|c v|c|i|i]; simpl; intros Hk Hn; eauto.
  - destruct c; try discriminate Hn; eauto.
  - rewrite andb_true_r in Hk. rewrite Hk. eauto.
Qed.

Lemma has_nil_result_cons a r : has_nil_result (a :: r) = has_nil_result [a] || has_nil_result r.
Proof. destruct a as [|c v|c|i|i]; try reflexivity. destruct c; reflexivity. Qed.

Lemma subst_args_total known : forall args,
  results_in known args = true -> has_nil_result args = false ->
  exists a1, subst_args known args = SOk a1 /\ List.length a1 = List.length args.
Proof.
  induction args as [|a args IH]; intros Hk Hn; [exists []; split; reflexivity|].
  rewrite results_in_cons in Hk. apply andb_true_iff in Hk as [Hk1 Hk].
  rewrite has_nil_result_cons in Hn. apply orb_false_iff in Hn as [Hn1 Hn].
  destruct (IH Hk Hn) as [r [Er El]]. destruct (subst_arg_total known a Hk1 Hn1) as [a' Ea].
  exists (a' :: r). simpl. rewrite Ea, Er. split; [reflexivity | simpl; now rewrite El].
Qed.

(* An unencodable argument never gets past Run's eager check: Run never goes on
   to ask for a machine (whatever the switches). *)
Theorem unencodable_never_offered known : forall ps args,
  existsb2 unencodable ps args = true ->
  forall ws, run_prefix known ps args <> RunOffer ws.
Proof.
  intros ps args H ws. unfold Invocation.run_prefix.
  destruct (subst_args known args) as [a1|] eqn:Es; [|discriminate].
  assert (Hne : forall ws', encode_args ps a1 <> EOk ws').
  { clear ws. revert args a1 H Es. induction ps as [|p ps IH]; intros [|a args] a1 H Es; simpl in H; try discriminate.
    simpl in Es. destruct (subst_arg known a) as [a'|] eqn:Ea; [|discriminate].
    destruct (subst_args known args) as [r|] eqn:Er; [|discriminate]. inversion Es; subst a1.
    intros ws'. simpl. destruct (encode_arg p a') as [w| |] eqn:Ee; try discriminate.
    apply orb_true_iff in H as [H|H].
    - exfalso. exact (unencodable_not_ok known p a a' H Ea w Ee).
    - destruct (encode_args ps r) as [ws1| |] eqn:Ee2; try discriminate.
      exfalso. apply (IH args r H Er ws1 Ee2). }
  destruct (encode_args ps a1) as [ws1| |] eqn:Ee; try discriminate. exfalso. now apply (Hne ws1).
Qed.

(* Current code (GobEncode tests for nil pointers): if every argument is either
   shipped or unencodable, at least one is unencodable and none is a nil *Result,
   the task ends in TaskErr and Run returns: a prompt error, no panic, no machine. *)
Theorem unencodable_is_fatal known compiled : rp = true -> forall ps args,
  typecheck ps args = true ->
  forallb2 (fun p a => ships p a || unencodable p a) ps args = true ->
  existsb2 unencodable ps args = true ->
  has_nil_result args = false ->
  results_in known args = true ->
  transport known compiled ps args = ORunErr.
Proof.
  intros Hrp ps args Ht Hall Hex Hn Hk.
  unfold Invocation.transport. rewrite Hn, andb_false_r, Ht. simpl.
  assert (H : run_prefix known ps args = RunErr); [|now rewrite H].
  unfold Invocation.run_prefix.
  revert args Ht Hall Hex Hn Hk. induction ps as [|p ps IH]; intros [|a args] Ht Hall Hex Hn Hk;
    simpl in Ht, Hall, Hex; try discriminate.
  apply andb_true_iff in Ht as [Ht1 Ht]. apply andb_true_iff in Hall as [Ha1 Hall].
  rewrite results_in_cons in Hk. apply andb_true_iff in Hk as [Hk1 Hk].
  rewrite has_nil_result_cons in Hn. apply orb_false_iff in Hn as [Hn1 Hn].
  destruct (subst_arg_total known a Hk1 Hn1) as [a' Hsub].
  destruct (subst_args_total known args Hk Hn) as [r [Er _]].
  simpl. rewrite Hsub, Er. simpl.
  destruct (unencodable p a) eqn:Eu.
  - now rewrite (unencodable_encode_err known p a a' Hrp Eu Hsub).
  - rewrite orb_false_r in Ha1. simpl in Hex.
    specialize (IH args Ht Hall Hex Hn Hk). rewrite Er in IH.
    destruct (target_accepts known p a a' Ht1 Ha1 Hsub) as [w [Ew _]].
    rewrite Ew. destruct (encode_args ps r); try discriminate IH. reflexivity.
Qed.

Definition typed_nil_pointer (p : ptype) (a : arg) : bool :=
  match a with ATNil c => is_pointer c | _ => false end.

Lemma existsb2_mono {X Y} (f g : X -> Y -> bool) : (forall x y, f x y = true -> g x y = true) ->
  forall xs ys, existsb2 f xs ys = true -> existsb2 g xs ys = true.
Proof.
  intros H xs. induction xs as [|x xs IH]; intros [|y ys] E; simpl in *; try discriminate.
  apply orb_true_iff in E as [E|E]; apply orb_true_iff; [left; now apply H | right; now apply IH].
Qed.

(* Current code: a typed nil pointer argument (not a *Result) is never offered to
   a machine and puts the task in TaskErr. *)
Theorem nil_pointer_is_fatal known compiled : rp = true -> forall ps args,
  typecheck ps args = true ->
  forallb2 (fun p a => ships p a || unencodable p a) ps args = true ->
  existsb2 typed_nil_pointer ps args = true ->
  has_nil_result args = false ->
  results_in known args = true ->
  transport known compiled ps args = ORunErr /\
  forall ws, run_prefix known ps args <> RunOffer ws.
Proof.
  intros Hrp ps args Ht Hall Hex Hn Hk.
  assert (Hu : existsb2 unencodable ps args = true).
  { apply (existsb2_mono typed_nil_pointer unencodable); [|exact Hex].
    intros p a H. destruct a; simpl in H; try discriminate. reflexivity. }
  split; [now apply unencodable_is_fatal | now apply unencodable_never_offered].
Qed.

(* Current code: a nil *Result argument makes Session.run return an error before
   the invocation is made: nothing is typechecked, compiled, serialised or sent. *)
Theorem nil_result_rejected known compiled ps args : rr = true ->
  has_nil_result args = true -> transport known compiled ps args = OSessErr.
Proof. intros Hrr H. unfold Invocation.transport. now rewrite Hrr, H. Qed.

Lemma encode_args_no_panic : rp = true -> forall ps a1,
  List.length ps = List.length a1 -> encode_args ps a1 <> EPanic.
Proof.
  intros Hrp ps. induction ps as [|p ps IH]; intros [|a a1] Hl; simpl in Hl; try discriminate.
  simpl. injection Hl as Hl. specialize (IH a1 Hl).
  assert (Ha : encode_arg p a <> E1Panic).
  { unfold Invocation.encode_arg. rewrite Hrp.
    destruct (is_iface p), a as [|c v|c|i|i]; try discriminate.
    - destruct (regname c); discriminate.
    - destruct (gob_handles c); discriminate.
    - destruct (is_pointer c); discriminate. }
  destruct (encode_arg p a); try contradiction; try discriminate.
  destruct (encode_args ps a1); try contradiction; discriminate.
Qed.

Lemma typecheck_length : forall ps (args : list arg), typecheck ps args = true -> List.length ps = List.length args.
Proof.
  induction ps as [|p ps IH]; intros [|a args] H; simpl in H; try discriminate; [reflexivity|].
  apply andb_true_iff in H as [_ H]. simpl. now rewrite (IH args H).
Qed.

(* Current code (both tests present): whatever the arguments, as long as their
   Results are known to the executor, no panic escapes Run. *)
Theorem current_code_never_panics known compiled ps args : rp = true -> rr = true ->
  results_in known args = true -> transport known compiled ps args <> ORunPanic.
Proof.
  intros Hrp Hrr Hk. unfold Invocation.transport. rewrite Hrr. simpl.
  destruct (has_nil_result args) eqn:Hn; [discriminate|].
  destruct (typecheck ps args) eqn:Ht; simpl; [|discriminate].
  unfold Invocation.run_prefix.
  destruct (subst_args_total known args Hk Hn) as [a1 [Es El]]. rewrite Es.
  pose proof (encode_args_no_panic Hrp ps a1) as Hp.
  rewrite (typecheck_length ps args Ht), El in Hp. specialize (Hp eq_refl).
  destruct (encode_args ps a1) as [ws| |]; try contradiction; try discriminate.
  destruct (decode_args ps ws); [|discriminate].
  destruct (subst_back compiled l); [|discriminate].
  destruct (typecheck ps l0); discriminate.
Qed.

(* ---- dependencies ---- *)

Notation record_deps := (@record_deps V).

(* Every invocationRef that addInvocation puts into the shipped arguments has its
   invocation in the dependency set recorded for the invocation (so compile will
   send it to a worker that lacks it).  User arguments never contain references. *)
Theorem refs_in_deps known : forall args a1 i,
  subst_args known args = SOk a1 -> In (ARef i) a1 ->
  In (ARef i) args \/ In i (record_deps args).
Proof.
  induction args as [|a args IH]; intros a1 i Hs Hin; simpl in Hs.
  - inversion Hs; subst. destruct Hin.
  - destruct (subst_arg known a) as [a'|] eqn:Ea; [|discriminate].
    destruct (subst_args known args) as [r|] eqn:Er; [|discriminate].
    inversion Hs; subst a1. destruct Hin as [Hin|Hin].
    + subst a'. destruct a as [|c v|c|j|j]; simpl in Ea.
      * discriminate.
      * discriminate.
      * destruct c; discriminate.
      * destruct (memZ j known); [|discriminate]. inversion Ea; subst. right. simpl. auto.
      * inversion Ea; subst. left. simpl. auto.
    + destruct (IH r i eq_refl Hin) as [H|H]; [left; simpl; auto|].
      right. destruct a; simpl; auto.
Qed.

(* and conversely the dependency set holds exactly the Results among the arguments *)
Theorem deps_are_results : forall args i, In i (record_deps args) <-> In (AResult i) args.
Proof.
  induction args as [|a args IH]; intro i; simpl; [tauto|].
  destruct a as [|c v|c|j|j]; simpl; rewrite IH; split; intro H;
    try (right; exact H); try (destruct H as [H|H]; [discriminate H | exact H]).
  - destruct H as [H|H]; [left; now subst | right; exact H].
  - destruct H as [H|H]; [left; now inversion H | right; exact H].
Qed.

(* ill-typed arguments are rejected before anything is sent: by Invocation(), or
   already by Session.run's nil *Result test *)
Theorem illtyped_rejected known compiled ps args :
  typecheck ps args = false ->
  transport known compiled ps args = (if rr && has_nil_result args then OSessErr else OTypeErr).
Proof. intro H. unfold Invocation.transport. rewrite H. reflexivity. Qed.

(* ---- where the faithful model falls short of the property ---- *)

(* the only arguments that must arrive but are not shipped: an untyped nil for a
   nil-able non-interface parameter *)
Theorem gap_is_nil p a :
  typecheck1 p a = true -> must_arrive p a = true -> ships p a = false ->
  a = ANil /\ is_iface p = false /\ nilable_p p = true.
Proof.
  intros Ht Hm Hs. destruct a as [|c v|c|i|i]; simpl in Hm, Hs; try congruence.
  repeat split; auto.
Qed.

(* untyped nil for a nil-able non-interface parameter: accepted by typecheck (and
   by the local executor), but GobEncode fails ("cannot encode nil value"); holds
   for every value of the switches (not repaired) *)
Theorem nil_untyped_refuted :
  exists ps args, typecheck ps args = true /\ forallb2 must_arrive ps args = true /\
                  transport [] [] ps args = ORunErr.
Proof. exists [PC CInts], [ANil]. destruct rr; repeat split. Qed.

End TransportProofs.

(* ---- witnesses for the code before the two fixes (switches off) ---- *)

(* without the nil-pointer test in GobEncode a typed nil pointer makes gob panic
   and the panic escapes Run *)
Theorem nil_pointer_refuted (V B : Type) genc gdec (rr : bool) :
  exists ps (args : list (arg V)), typecheck V ps args = true /\
    transport V B genc gdec false rr [] [] ps args = ORunPanic.
Proof. exists [PC CPtr], [ATNil CPtr]. destruct rr; repeat split. Qed.

(* without the nil *Result test in Session.run addInvocation dereferences it *)
Theorem nil_result_refuted (V B : Type) genc gdec (rp : bool) :
  exists ps (args : list (arg V)), typecheck V ps args = true /\
    transport V B genc gdec rp false [] [] ps args = ORunPanic.
Proof. exists [PC CResult], [ATNil CResult]. destruct rp; repeat split. Qed.

(* ---- shipping to a fresh worker: finite sweep over every dependency DAG on up
        to 4 earlier invocations (node k may depend on any subset of 0..k-1) and
        every set of Result arguments: the executor's walk plus the reversed
        compile loop leave the worker with every argument's invocation compiled,
        and never hit "invalid invocation reference" ---- *)
Fixpoint subsets (l : list Z) : list (list Z) :=
  match l with
  | [] => [[]]
  | x :: r => let s := subsets r in s ++ map (cons x) s
  end.
Fixpoint dags (n : nat) : list (list (Z * list Z)) :=
  match n with
  | O => [[]]
  | S k =>
      flat_map (fun g => map (fun ds => (Z.of_nat k, ds) :: g) (subsets (map fst g))) (dags k)
  end.
Definition fresh_ok (g : list (Z * list Z)) (roots : list Z) : bool :=
  match walk (graph_fuel g) g roots with
  | None => false
  | Some order =>
      match compile_all g (rev order) [] with
      | None => false
      | Some compiled => forallb (fun i => memZ i compiled) roots
      end
  end.
Definition fresh_sweep (n : nat) : bool :=
  forallb (fun g => forallb (fresh_ok g) (subsets (map fst g))) (dags n).

Theorem fresh_ship_ok_upto4 :
  fresh_sweep 0 = true /\ fresh_sweep 1 = true /\ fresh_sweep 2 = true /\
  fresh_sweep 3 = true /\ fresh_sweep 4 = true.
Proof. vm_compute. repeat split. Qed.

Theorem fresh_ship_ok_upto4_each : forall n g roots, (n <= 4)%nat ->
  In g (dags n) -> In roots (subsets (map fst g)) -> fresh_ok g roots = true.
Proof.
  intros n g roots Hn Hg Hr.
  assert (H : fresh_sweep n = true).
  { destruct fresh_ship_ok_upto4 as [H0 [H1 [H2 [H3 H4]]]].
    destruct n as [|[|[|[|[|n]]]]]; try assumption. lia. }
  unfold fresh_sweep in H. rewrite forallb_forall in H. specialize (H g Hg).
  rewrite forallb_forall in H. exact (H roots Hr).
Qed.

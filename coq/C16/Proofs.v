(* C16 (a) — proofs about the model of FuncLocationsDiff, for all pairs of lists.

   Route: the row-by-row table and the index-driven back-trace of Model.v are
   shown equal to two functions defined by recursion on the REVERSED prefixes
   of lhs and rhs ([spec_cell], [spec_trace]); the properties are then proved
   on those by induction. *)
From Coq Require Import List ZArith Bool Ascii String Lia.
Import ListNotations.
Require Import BS.Common.Util BS.C16.Model.
Local Open Scope Z_scope.

Notation llen := (@List.length string) (only parsing).

(* ------------------------------------------------------------------ *)
(* recursive characterisation of cells[i][j] on reversed prefixes      *)

Fixpoint spec_cell (rl : list string) : list string -> cell :=
  match rl with
  | [] => fun rr =>
      match rr with [] => zero_cell | _ :: _ => mkCell EditAdd (Z.of_nat (List.length rr)) end
  | x :: rl' =>
      fix go (rr : list string) : cell :=
        match rr with
        | [] => mkCell EditDel (Z.of_nat (S (List.length rl')))
        | y :: rr' => fill_cell x y (spec_cell rl' rr') (spec_cell rl' (y :: rr')) (go rr')
        end
  end.

Lemma spec_cell_nil_nil : spec_cell [] [] = zero_cell.
Proof. reflexivity. Qed.
Lemma spec_cell_nil_cons y rr : spec_cell [] (y :: rr) = mkCell EditAdd (Z.of_nat (S (List.length rr))).
Proof. reflexivity. Qed.
Lemma spec_cell_cons_nil x rl : spec_cell (x :: rl) [] = mkCell EditDel (Z.of_nat (S (List.length rl))).
Proof. reflexivity. Qed.
Lemma spec_cell_cons_cons x rl y rr :
  spec_cell (x :: rl) (y :: rr) =
  fill_cell x y (spec_cell rl rr) (spec_cell rl (y :: rr)) (spec_cell (x :: rl) rr).
Proof. reflexivity. Qed.
Global Opaque spec_cell.

(* the reversed prefixes of [rest], each put in front of [rr] *)
Fixpoint rprefixes_tl (rr rest : list string) : list (list string) :=
  match rest with
  | [] => []
  | y :: rest' => (y :: rr) :: rprefixes_tl (y :: rr) rest'
  end.
Definition rprefixes (rr rest : list string) : list (list string) := rr :: rprefixes_tl rr rest.

Lemma rprefixes_tl_length rr rest : List.length (rprefixes_tl rr rest) = List.length rest.
Proof. revert rr; induction rest as [|y rest IH]; intro rr; simpl; [reflexivity | now rewrite IH]. Qed.

Lemma nth_rprefixes rest : forall rr i, (i <= List.length rest)%nat ->
  nth i (rprefixes rr rest) [] = (rev (firstn i rest) ++ rr)%list.
Proof.
  induction rest as [|y rest IH]; intros rr i Hi.
  - simpl in Hi. assert (i = 0)%nat by lia. subst. reflexivity.
  - destruct i as [|i]; [reflexivity|].
    simpl in Hi. change (nth (S i) (rprefixes rr (y :: rest)) []) with (nth i (rprefixes (y :: rr) rest) []).
    rewrite IH by lia. simpl. now rewrite <- app_assoc.
Qed.

Lemma row0_tail_spec rest : forall rr,
  row0_tail (Z.of_nat (S (List.length rr))) rest = map (spec_cell []) (rprefixes_tl rr rest).
Proof.
  induction rest as [|y rest IH]; intro rr; cbn [row0_tail rprefixes_tl map]; [reflexivity|].
  rewrite spec_cell_nil_cons. f_equal.
  replace (Z.of_nat (S (List.length rr)) + 1) with (Z.of_nat (S (List.length (y :: rr))))
    by (cbn [List.length]; lia).
  apply IH.
Qed.

Lemma row0_spec r : row0 r = map (spec_cell []) (rprefixes [] r).
Proof.
  unfold row0, rprefixes. simpl. rewrite spec_cell_nil_nil. f_equal.
  apply (row0_tail_spec r []).
Qed.

Lemma fill_row_spec x P rest : forall rr,
  fill_row x (map (spec_cell P) (rprefixes rr rest)) (spec_cell (x :: P) rr) rest
  = map (spec_cell (x :: P)) (rprefixes_tl rr rest).
Proof.
  induction rest as [|y rest IH]; intro rr; [reflexivity|].
  unfold rprefixes. simpl.
  rewrite <- spec_cell_cons_cons. f_equal.
  apply (IH (y :: rr)).
Qed.

Lemma next_row_spec x P r :
  next_row (Z.of_nat (S (List.length P))) x (map (spec_cell P) (rprefixes [] r)) r
  = map (spec_cell (x :: P)) (rprefixes [] r).
Proof.
  unfold next_row. rewrite <- (spec_cell_cons_nil x P).
  rewrite fill_row_spec. reflexivity.
Qed.

Lemma rows_from_spec r rest : forall P,
  rows_from (Z.of_nat (S (List.length P))) (map (spec_cell P) (rprefixes [] r)) rest r
  = map (fun P' => map (spec_cell P') (rprefixes [] r)) (rprefixes_tl P rest).
Proof.
  induction rest as [|x rest IH]; intro P; [reflexivity|].
  cbn [rows_from rprefixes_tl map]. rewrite next_row_spec. f_equal.
  replace (Z.of_nat (S (List.length P)) + 1) with (Z.of_nat (S (List.length (x :: P))))
    by (cbn [List.length]; lia).
  apply IH.
Qed.

Lemma table_spec l r :
  table l r = map (fun P => map (spec_cell P) (rprefixes [] r)) (rprefixes [] l).
Proof.
  unfold table. rewrite row0_spec. unfold rprefixes at 3. simpl. f_equal.
  apply (rows_from_spec r l []).
Qed.

Lemma cell_at_spec l r i j : (i <= List.length l)%nat -> (j <= List.length r)%nat ->
  cell_at (table l r) i j = spec_cell (rev (firstn i l)) (rev (firstn j r)).
Proof.
  intros Hi Hj. unfold cell_at. rewrite table_spec.
  set (f := fun P => map (spec_cell P) (rprefixes [] r)).
  assert (Hl : forall rr rest, List.length (rprefixes rr rest) = S (List.length rest))
    by (intros; unfold rprefixes; simpl; now rewrite rprefixes_tl_length).
  rewrite (nth_indep (map f (rprefixes [] l)) [] (f [])) by (rewrite map_length, Hl; lia).
  rewrite map_nth. unfold f.
  rewrite (nth_indep _ zero_cell (spec_cell (nth i (rprefixes [] l) []) [])) by (rewrite map_length, Hl; lia).
  rewrite map_nth. rewrite !nth_rprefixes by assumption. now rewrite !app_nil_r.
Qed.

(* ------------------------------------------------------------------ *)
(* recursive characterisation of the back-trace                         *)

Fixpoint spec_trace (rl : list string) : list string -> list tedit :=
  match rl with
  | [] => fix go0 (rr : list string) : list tedit :=
      match rr with [] => [] | y :: rr' => Add y :: go0 rr' end
  | x :: rl' =>
      fix go (rr : list string) : list tedit :=
        match rr with
        | [] => Del x :: spec_trace rl' []
        | y :: rr' =>
            match cedit (spec_cell (x :: rl') (y :: rr')) with
            | EditNone => Keep x :: spec_trace rl' rr'
            | EditAdd => Add y :: go rr'
            | EditDel => Del x :: spec_trace rl' (y :: rr')
            end
        end
  end.

Lemma spec_trace_nil_nil : spec_trace [] [] = [].
Proof. reflexivity. Qed.
Lemma spec_trace_nil_cons y rr : spec_trace [] (y :: rr) = Add y :: spec_trace [] rr.
Proof. reflexivity. Qed.
Lemma spec_trace_cons_nil x rl : spec_trace (x :: rl) [] = Del x :: spec_trace rl [].
Proof. reflexivity. Qed.
Lemma spec_trace_cons_cons x rl y rr :
  spec_trace (x :: rl) (y :: rr) =
  match cedit (spec_cell (x :: rl) (y :: rr)) with
  | EditNone => Keep x :: spec_trace rl rr
  | EditAdd => Add y :: spec_trace (x :: rl) rr
  | EditDel => Del x :: spec_trace rl (y :: rr)
  end.
Proof. reflexivity. Qed.
Global Opaque spec_trace.

Lemma firstn_S_rev {A} (l : list A) : forall i, (i < List.length l)%nat ->
  exists x, nth_error l i = Some x /\ rev (firstn (S i) l) = x :: rev (firstn i l).
Proof.
  induction l as [|a l IH]; intros i Hi; [simpl in Hi; lia|].
  destruct i as [|i].
  - exists a. split; reflexivity.
  - simpl in Hi. destruct (IH i) as [x [E1 E2]]; [lia|].
    exists x. split; [exact E1|].
    change (firstn (S (S i)) (a :: l)) with (a :: firstn (S i) l).
    change (firstn (S i) (a :: l)) with (a :: firstn i l).
    cbn [rev]. rewrite E2. reflexivity.
Qed.

Definition has_change (d : list tedit) : bool := existsb is_change d.

Lemma backtrace_spec l r : forall fuel i j d b,
  (i <= List.length l)%nat -> (j <= List.length r)%nat -> (i + j <= fuel)%nat ->
  backtrace fuel (table l r) l r i j d b =
  TOk (d ++ spec_trace (rev (firstn i l)) (rev (firstn j r)))
      (b || has_change (spec_trace (rev (firstn i l)) (rev (firstn j r)))).
Proof.
  induction fuel as [|fuel IH]; intros i j d b Hi Hj Hf.
  - assert (i = 0 /\ j = 0)%nat as [-> ->] by lia. simpl.
    rewrite spec_trace_nil_nil, app_nil_r, orb_false_r. reflexivity.
  - destruct i as [|i'], j as [|j'].
    + simpl. rewrite spec_trace_nil_nil, app_nil_r, orb_false_r. reflexivity.
    + (* first row: editAdd *)
      cbn [backtrace Nat.eqb andb]. rewrite cell_at_spec by assumption.
      destruct (firstn_S_rev r j') as [y [Ey Er]]; [lia|].
      rewrite Er. cbn [firstn rev]. rewrite spec_cell_nil_cons. cbn [cedit].
      rewrite Ey, IH by lia. cbn [firstn rev].
      rewrite spec_trace_nil_cons, <- app_assoc. cbn [app has_change existsb is_change].
      now rewrite orb_true_r.
    + (* first column: editDel *)
      cbn [backtrace Nat.eqb andb]. rewrite cell_at_spec by assumption.
      destruct (firstn_S_rev l i') as [x [Ex El]]; [lia|].
      rewrite El. cbn [firstn rev]. rewrite spec_cell_cons_nil. cbn [cedit].
      rewrite Ex, IH by lia. cbn [firstn rev].
      rewrite spec_trace_cons_nil, <- app_assoc. cbn [app has_change existsb is_change].
      now rewrite orb_true_r.
    + cbn [backtrace Nat.eqb andb]. rewrite cell_at_spec by assumption.
      destruct (firstn_S_rev l i') as [x [Ex El]]; [lia|].
      destruct (firstn_S_rev r j') as [y [Ey Er]]; [lia|].
      rewrite El, Er, spec_trace_cons_cons.
      destruct (cedit (spec_cell (x :: rev (firstn i' l)) (y :: rev (firstn j' r)))) eqn:Ec.
      * rewrite Ex, IH by lia. rewrite <- app_assoc. cbn [app has_change existsb is_change orb].
        reflexivity.
      * rewrite Ey, IH by lia. rewrite El, <- app_assoc.
        cbn [app has_change existsb is_change]. now rewrite orb_true_r.
      * rewrite Ex, IH by lia. rewrite Er, <- app_assoc.
        cbn [app has_change existsb is_change]. now rewrite orb_true_r.
Qed.

Lemma diff_edits_spec l r :
  diff_edits l r = TOk (spec_trace (rev l) (rev r)) (has_change (spec_trace (rev l) (rev r))).
Proof.
  unfold diff_edits. rewrite backtrace_spec by lia. now rewrite !firstn_all.
Qed.

(* ------------------------------------------------------------------ *)
(* properties of the recursive trace                                    *)

Lemma fill_cell_none x y d u c : cedit (fill_cell x y d u c) = EditNone -> x = y.
Proof.
  unfold fill_cell. destruct (String.eqb x y) eqn:E.
  - intros _. now apply String.eqb_eq.
  - destruct (ccost u <? ccost c); discriminate.
Qed.

Lemma spec_lhs rl : forall rr, lhs_of (spec_trace rl rr) = rl.
Proof.
  induction rl as [|x rl IHl]; intro rr.
  - induction rr as [|y rr IHr]; [reflexivity|]. rewrite spec_trace_nil_cons. exact IHr.
  - induction rr as [|y rr IHr].
    + rewrite spec_trace_cons_nil. simpl. now rewrite IHl.
    + rewrite spec_trace_cons_cons. destruct (cedit _); simpl.
      * now rewrite IHl.
      * exact IHr.
      * now rewrite IHl.
Qed.

Lemma spec_rhs rl : forall rr, rhs_of (spec_trace rl rr) = rr.
Proof.
  induction rl as [|x rl IHl]; intro rr.
  - induction rr as [|y rr IHr]; [reflexivity|]. rewrite spec_trace_nil_cons. simpl. now rewrite IHr.
  - induction rr as [|y rr IHr].
    + rewrite spec_trace_cons_nil. simpl. now rewrite IHl.
    + rewrite spec_trace_cons_cons. destruct (cedit _) eqn:Ec; simpl.
      * rewrite spec_cell_cons_cons in Ec. apply fill_cell_none in Ec. subst. now rewrite IHl.
      * now rewrite IHr.
      * now rewrite IHl.
Qed.

Lemma spec_trace_refl rl : spec_trace rl rl = map Keep rl.
Proof.
  induction rl as [|x rl IH]; [reflexivity|].
  rewrite spec_trace_cons_cons, spec_cell_cons_cons. unfold fill_cell.
  rewrite String.eqb_refl. simpl. now rewrite IH.
Qed.

Lemma has_change_keeps l : has_change (map Keep l) = false.
Proof. induction l; simpl; auto. Qed.

Lemma no_change_sides d : has_change d = false -> lhs_of d = rhs_of d.
Proof.
  induction d as [|e d IH]; [reflexivity|]. simpl.
  destruct e; simpl; try discriminate. intro H. now rewrite IH.
Qed.

Lemma lhs_of_app a b : lhs_of (a ++ b) = (lhs_of a ++ lhs_of b)%list.
Proof. apply flat_map_app. Qed.
Lemma rhs_of_app a b : rhs_of (a ++ b) = (rhs_of a ++ rhs_of b)%list.
Proof. apply flat_map_app. Qed.

Lemma lhs_of_rev d : lhs_of (rev d) = rev (lhs_of d).
Proof.
  induction d as [|e d IH]; [reflexivity|].
  simpl rev. rewrite lhs_of_app, IH. destruct e; simpl; rewrite ?app_nil_r; reflexivity.
Qed.
Lemma rhs_of_rev d : rhs_of (rev d) = rev (rhs_of d).
Proof.
  induction d as [|e d IH]; [reflexivity|].
  simpl rev. rewrite rhs_of_app, IH. destruct e; simpl; rewrite ?app_nil_r; reflexivity.
Qed.

Lemma has_change_nil_false d : has_change d = true -> d <> [].
Proof. destruct d; [discriminate | discriminate]. Qed.

(* ------------------------------------------------------------------ *)
(* theorems about the model of FuncLocationsDiff                        *)

(* the back-trace never indexes out of range and always finishes *)
Theorem diff_total l r : exists d b, diff_edits l r = TOk d b.
Proof. rewrite diff_edits_spec. eauto. Qed.

Theorem diff_never_panics l r : exists lines, func_locations_diff l r = DLines lines.
Proof. unfold func_locations_diff. rewrite diff_edits_spec. destruct (has_change _); eauto. Qed.

(* the returned lines are the rendering of the tagged edits *)
Theorem diff_lines_tagged l r : func_locations_diff l r = DLines (map render (diff_tagged l r)).
Proof.
  unfold func_locations_diff, diff_tagged. rewrite diff_edits_spec.
  destruct (has_change _); [now rewrite map_rev | reflexivity].
Qed.

Theorem diff_tagged_nil_iff l r : diff_tagged l r = [] <-> l = r.
Proof.
  unfold diff_tagged. rewrite diff_edits_spec.
  destruct (has_change (spec_trace (rev l) (rev r))) eqn:E; split; intro H.
  - exfalso. apply has_change_nil_false in E. apply E.
    rewrite <- (rev_involutive (spec_trace _ _)), H. reflexivity.
  - subst r. rewrite spec_trace_refl, has_change_keeps in E. discriminate.
  - apply no_change_sides in E. rewrite spec_lhs, spec_rhs in E.
    rewrite <- (rev_involutive l), <- (rev_involutive r). now f_equal.
  - reflexivity.
Qed.

(* the diff is nil exactly when the registries agree *)
Theorem diff_nil_iff l r : func_locations_diff l r = DLines [] <-> l = r.
Proof.
  rewrite diff_lines_tagged, <- diff_tagged_nil_iff. split; intro H.
  - inversion H as [H1]. destruct (diff_tagged l r); [reflexivity | discriminate].
  - now rewrite H.
Qed.

(* otherwise it transforms one into the other: kept+deleted lines are lhs,
   kept+added lines are rhs, in order *)
Theorem diff_transforms l r : l <> r ->
  lhs_of (diff_tagged l r) = l /\ rhs_of (diff_tagged l r) = r.
Proof.
  intro Hne. unfold diff_tagged. rewrite diff_edits_spec.
  destruct (has_change (spec_trace (rev l) (rev r))) eqn:E.
  - rewrite lhs_of_rev, rhs_of_rev, spec_lhs, spec_rhs, !rev_involutive. auto.
  - exfalso. apply Hne. apply no_change_sides in E. rewrite spec_lhs, spec_rhs in E.
    rewrite <- (rev_involutive l), <- (rev_involutive r). now f_equal.
Qed.

Corollary diff_transforms_nonnil l r : diff_tagged l r <> [] ->
  lhs_of (diff_tagged l r) = l /\ rhs_of (diff_tagged l r) = r.
Proof.
  intro H. apply diff_transforms. intro E. apply H. now apply diff_tagged_nil_iff.
Qed.

(* ---- reading the lines back ---- *)
Lemma substring_0_length s : substring 0 (String.length s) s = s.
Proof. induction s as [|c s IH]; simpl; [reflexivity | now rewrite IH]. Qed.

Lemma prefix_app p s : prefix p (p ++ s)%string = true.
Proof.
  induction p as [|c p IH]; simpl; [now destruct s|].
  destruct (ascii_dec c c) as [_|n]; [exact IH | now elim n].
Qed.

Lemma substring_app p s :
  substring (String.length p) (String.length (p ++ s)%string - String.length p) (p ++ s)%string = s.
Proof.
  induction p as [|c p IH]; simpl.
  - rewrite Nat.sub_0_r. apply substring_0_length.
  - exact IH.
Qed.

Lemma parse_render e :
  match e with Keep s => plain s = true | _ => True end -> parse_line (render e) = e.
Proof.
  destruct e as [s|s|s]; intro H.
  - unfold plain in H. apply andb_true_iff in H as [H1 H2].
    apply negb_true_iff in H1, H2. unfold parse_line, render. now rewrite H1, H2.
  - unfold parse_line, render. rewrite prefix_app.
    f_equal. apply (substring_app add_prefix s).
  - unfold parse_line, render.
    assert (E : prefix add_prefix (del_prefix ++ s)%string = false) by reflexivity.
    rewrite E, prefix_app. f_equal. apply (substring_app del_prefix s).
Qed.

Lemma keeps_plain_lhs d :
  forallb plain (lhs_of d) = true ->
  Forall (fun e => match e with Keep s => plain s = true | _ => True end) d.
Proof.
  induction d as [|e d IH]; intro H; constructor.
  - destruct e; simpl in H; try exact I. now apply andb_true_iff in H as [H _].
  - apply IH. destruct e; simpl in H; try assumption; now apply andb_true_iff in H as [_ H].
Qed.

(* when no location of lhs starts with "+ " or "- " (true of file:line
   locations), the printed lines determine the tagged edits *)
Theorem diff_lines_parse l r lines : forallb plain l = true ->
  func_locations_diff l r = DLines lines -> map parse_line lines = diff_tagged l r.
Proof.
  intros Hp H. rewrite diff_lines_tagged in H. inversion H as [H1]. clear H H1.
  destruct (list_eq_dec string_dec l r) as [->|Hne].
  - now rewrite (proj2 (diff_tagged_nil_iff r r) eq_refl).
  - destruct (diff_transforms l r Hne) as [Hl _].
    assert (Hp' : forallb plain (lhs_of (diff_tagged l r)) = true) by (rewrite Hl; exact Hp).
    apply keeps_plain_lhs in Hp'. clear Hl.
    induction Hp' as [|e d He Hd IH]; [reflexivity|].
    cbn [map]. rewrite parse_render by exact He. now rewrite IH.
Qed.

(* ------------------------------------------------------------------ *)
(* cost: the number of +/- lines is the table's cost, and it is minimal *)

Lemma changes_cons e d : changes (e :: d) = (if is_change e then 1 else 0) + changes d.
Proof. unfold changes. simpl. destruct (is_change e); simpl List.length; lia. Qed.

Lemma changes_rev d : changes (rev d) = changes d.
Proof.
  unfold changes. f_equal.
  induction d as [|e d IH]; [reflexivity|].
  simpl rev. rewrite filter_app, app_length, IH. simpl. destruct (is_change e); simpl; lia.
Qed.

Lemma cost_nil_l rr : ccost (spec_cell [] rr) = Z.of_nat (List.length rr).
Proof. destruct rr; [reflexivity | now rewrite spec_cell_nil_cons]. Qed.
Lemma cost_nil_r rl : ccost (spec_cell rl []) = Z.of_nat (List.length rl).
Proof. destruct rl; [reflexivity | now rewrite spec_cell_cons_nil]. Qed.

Lemma cost_cons_cons x a y b :
  ccost (spec_cell (x :: a) (y :: b)) =
  if String.eqb x y then ccost (spec_cell a b)
  else if ccost (spec_cell a (y :: b)) <? ccost (spec_cell (x :: a) b)
       then ccost (spec_cell a (y :: b)) + 1 else ccost (spec_cell (x :: a) b) + 1.
Proof.
  rewrite spec_cell_cons_cons. unfold fill_cell.
  destruct (String.eqb x y); [reflexivity|]. destruct (_ <? _); reflexivity.
Qed.

Lemma spec_cost rl : forall rr, changes (spec_trace rl rr) = ccost (spec_cell rl rr).
Proof.
  induction rl as [|x rl IHl]; intro rr.
  - induction rr as [|y rr IHr]; [reflexivity|].
    rewrite spec_trace_nil_cons, changes_cons, IHr, !cost_nil_l. cbn [is_change]. simpl List.length. lia.
  - induction rr as [|y rr IHr].
    + rewrite spec_trace_cons_nil, changes_cons, IHl, !cost_nil_r. cbn [is_change]. simpl List.length. lia.
    + rewrite spec_trace_cons_cons, spec_cell_cons_cons. unfold fill_cell.
      destruct (String.eqb x y).
      * cbn [cedit ccost]. rewrite changes_cons, IHl. reflexivity.
      * destruct (_ <? _); cbn [cedit ccost]; rewrite changes_cons.
        -- rewrite IHl. cbn [is_change]. lia.
        -- rewrite IHr. cbn [is_change]. lia.
Qed.

Theorem diff_cost l r :
  changes (diff_tagged l r) = ccost (cell_at (table l r) (List.length l) (List.length r)).
Proof.
  rewrite cell_at_spec, !firstn_all by lia.
  unfold diff_tagged. rewrite diff_edits_spec.
  destruct (has_change (spec_trace (rev l) (rev r))) eqn:E.
  - now rewrite changes_rev, spec_cost.
  - rewrite <- spec_cost. unfold changes.
    assert (H : filter is_change (spec_trace (rev l) (rev r)) = []).
    { revert E. generalize (spec_trace (rev l) (rev r)). intro d.
      induction d as [|e d IH]; [reflexivity|]. simpl.
      destruct (is_change e); [discriminate | exact IH]. }
    now rewrite H.
Qed.

(* adding one element to either side changes the cost by at most one *)
Lemma cost_lipschitz : forall n a b, (List.length a + List.length b <= n)%nat ->
  (forall x, ccost (spec_cell (x :: a) b) <= ccost (spec_cell a b) + 1 /\
             ccost (spec_cell a b) <= ccost (spec_cell (x :: a) b) + 1) /\
  (forall y, ccost (spec_cell a (y :: b)) <= ccost (spec_cell a b) + 1 /\
             ccost (spec_cell a b) <= ccost (spec_cell a (y :: b)) + 1).
Proof.
  induction n as [|n IH]; intros a b Hn.
  - destruct a, b; simpl in Hn; try lia.
    split; intro z; [rewrite spec_cell_cons_nil | rewrite spec_cell_nil_cons];
      rewrite spec_cell_nil_nil; simpl; lia.
  - split.
    + intro x. destruct b as [|y b].
      * rewrite !cost_nil_r. simpl List.length. lia.
      * simpl in Hn. destruct (IH a b ltac:(lia)) as [Ha Hb].
        specialize (Ha x). specialize (Hb y).
        rewrite cost_cons_cons. destruct (String.eqb x y).
        -- lia.
        -- destruct (Z.ltb_spec (ccost (spec_cell a (y :: b))) (ccost (spec_cell (x :: a) b))); lia.
    + intro y. destruct a as [|x a].
      * rewrite !cost_nil_l. simpl List.length. lia.
      * simpl in Hn. destruct (IH a b ltac:(lia)) as [Ha Hb].
        specialize (Ha x). specialize (Hb y).
        rewrite cost_cons_cons. destruct (String.eqb x y).
        -- lia.
        -- destruct (Z.ltb_spec (ccost (spec_cell a (y :: b))) (ccost (spec_cell (x :: a) b))); lia.
Qed.

Lemma cost_lower_bound es : ccost (spec_cell (lhs_of es) (rhs_of es)) <= changes es.
Proof.
  induction es as [|e es IH]; [reflexivity|].
  rewrite changes_cons.
  destruct (cost_lipschitz _ (lhs_of es) (rhs_of es) (le_n _)) as [Ha Hb].
  destruct e as [s|s|s]; simpl lhs_of; simpl rhs_of; cbn [is_change].
  - rewrite cost_cons_cons, String.eqb_refl. lia.
  - specialize (Hb s). lia.
  - specialize (Ha s). lia.
Qed.

(* no edit script turning l into r has fewer +/- lines *)
Theorem diff_minimal l r es : lhs_of es = l -> rhs_of es = r ->
  changes (diff_tagged l r) <= changes es.
Proof.
  intros Hl Hr. rewrite diff_cost, cell_at_spec, !firstn_all by lia.
  rewrite <- (changes_rev es).
  rewrite <- Hl, <- Hr, <- lhs_of_rev, <- rhs_of_rev. apply cost_lower_bound.
Qed.

(* ------------------------------------------------------------------ *)
(* the registry comparison made when a machine starts                   *)

Lemma map_injective {A B} (f : A -> B) : (forall x y, f x = f y -> x = y) ->
  forall l1 l2, map f l1 = map f l2 -> l1 = l2.
Proof.
  intros Hf l1. induction l1 as [|x l1 IH]; intros [|y l2] H; simpl in H; try discriminate; [reflexivity|].
  injection H as H1 H2. f_equal; [now apply Hf | now apply IH].
Qed.

(* If Funcs are told apart by their creation sites (created on different lines),
   the diff of two registries is nil exactly when they hold the same Funcs in the
   same order. *)
Theorem registry_diff_nil_iff {F : Type} (site : F -> string) :
  (forall f g, site f = site g -> f = g) ->
  forall driver worker : list F,
  func_locations_diff (func_locations (map site driver)) (func_locations (map site worker)) = DLines []
  <-> driver = worker.
Proof.
  intros Hinj driver worker. unfold func_locations. rewrite diff_nil_iff. split.
  - apply map_injective, Hinj.
  - now intros ->.
Qed.

(* Conversely, were every Func to record the same location (what runtime.Caller(0)
   inside Func would give), any two registries of equal length would compare as
   identical: the check would be blind to reordered or different Funcs. *)
Theorem constant_site_blind {F : Type} (s : string) : forall driver worker : list F,
  List.length driver = List.length worker ->
  func_locations_diff (map (fun _ => s) driver) (map (fun _ => s) worker) = DLines [].
Proof.
  intros driver worker Hl. apply diff_nil_iff.
  revert worker Hl. induction driver as [|x d IH]; intros [|y w] Hl; simpl in Hl; try discriminate; [reflexivity|].
  simpl. f_equal. apply IH. now injection Hl.
Qed.

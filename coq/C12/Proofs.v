(* C12 — passing a Result to a later Func is the same as inlining the program
   that produced it: the reference semantics is compositional, so every use of a
   Result denotes the rows of its first evaluation. *)
From Coq Require Import List ZArith Bool Lia.
Import ListNotations.
Require Import BS.C01.Sem.

Lemma eval_nodes_app p1 : forall p2 k vs sides,
  eval_nodes (p1 ++ p2) k vs sides =
  let '(vs1, sides1) := eval_nodes p1 k vs sides in
  eval_nodes p2 (k + length p1) vs1 sides1.
Proof.
  induction p1 as [|nd p1 IH]; intros p2 k vs sides; simpl.
  - rewrite Nat.add_0_r. reflexivity.
  - destruct (eval_node vs k nd) as [v sd]. rewrite IH.
    destruct (eval_nodes p1 (S k) (vs ++ [v]) (sides ++ [(k, sd)])) as [vs1 sides1].
    replace (S k + length p1) with (k + S (length p1)) by lia. reflexivity.
Qed.

Lemma eval_nodes_extends p : forall k vs sides,
  exists more, fst (eval_nodes p k vs sides) = vs ++ more /\ length more = length p.
Proof.
  induction p as [|nd p IH]; intros k vs sides; simpl.
  - exists []. rewrite app_nil_r. auto.
  - destruct (eval_node vs k nd) as [v sd].
    destruct (IH (S k) (vs ++ [v]) (sides ++ [(k, sd)])) as (more & E & L).
    exists (v :: more). rewrite E, <- app_assoc. simpl. auto.
Qed.

(* the values of the nodes of a program do not depend on what is appended to it *)
Theorem prefix_values_stable base consumer :
  firstn (length base) (fst (eval_nodes (base ++ consumer) 0 [] [])) = fst (eval_nodes base 0 [] []).
Proof.
  rewrite eval_nodes_app. destruct (eval_nodes base 0 [] []) as [vs1 sides1] eqn:E1. simpl.
  destruct (eval_nodes_extends base 0 [] []) as (more1 & Em1 & Lm1). rewrite E1 in Em1. simpl in Em1.
  destruct (eval_nodes_extends consumer (length base) vs1 sides1) as (more2 & Em2 & Lm2).
  rewrite Em2. subst vs1. rewrite firstn_app, <- Lm1, firstn_all, Nat.sub_diag. simpl. apply app_nil_r.
Qed.

(* hence: the Result of [base], seen from inside any later program that takes
   it as its argument, has exactly the rows of its own evaluation *)
Corollary result_argument_denotes_first_evaluation base consumer :
  base <> [] ->
  nth (length base - 1) (fst (eval_nodes (base ++ consumer) 0 [] [])) vempty = rvalue (ref base).
Proof.
  intro Hne.
  destruct (eval_nodes_extends base 0 [] []) as (more & Em & Lm). simpl in Em.
  assert (Hr : rvalue (ref base) = last more vempty).
  { unfold ref. destruct (eval_nodes base 0 [] []) as [vs sides]. simpl in *. subst vs. reflexivity. }
  pose proof (prefix_values_stable base consumer) as H.
  rewrite Hr. rewrite Em in H.
  set (all := fst (eval_nodes (base ++ consumer) 0 [] [])) in *.
  rewrite <- (firstn_skipn (length base) all), H.
  assert (Hpos : length base - 1 < length more) by (destruct base; [congruence|simpl in *; lia]).
  rewrite app_nth1 by exact Hpos. rewrite <- Lm.
  clear - Hpos. destruct more as [|m more'] using rev_ind; [simpl in Hpos; lia|].
  rewrite app_length. simpl. rewrite Nat.add_sub, app_nth2 by lia. rewrite Nat.sub_diag. simpl.
  rewrite last_last. reflexivity.
Qed.

(* C12 — theorems about the session model (C12/Session.v): every successful use
   of a Result observes the rows of its first evaluation, whatever was
   discarded or lost in between; a later evaluation recomputes what is missing. *)
From Coq Require Import List Arith Bool Lia.
Import ListNotations.
Require Import BS.C12.Session.

Section Proofs.
Variable V : Type.
Variable compute : nat -> list V -> V.
Variable deps_of : nat -> list nat.
(* the failure-free value of a task: the compiled graph is acyclic (dependencies
   have smaller numbers) and tasks are deterministic *)
Variable value : nat -> V.
Hypothesis value_spec : forall t, value t = compute t (map value (deps_of t)).
Hypothesis acyclic : forall t d, In d (deps_of t) -> d < t.

Notation store := (store V).
Notation ensure := (ensure V compute deps_of).
Notation step := (step V compute deps_of).
Notation run := (run V compute deps_of).
Notation eval_roots := (eval_roots V compute deps_of).

(* every output in the session is the task's failure-free value *)
Definition Inv (s : store) : Prop := forall t v, In (t, v) s -> v = value t.

Lemma lookup_in (s : store) t v : lookup V s t = Some v -> In (t, v) s.
Proof.
  unfold lookup. destruct (find _ s) as [e|] eqn:E; [|discriminate].
  intro H. inversion H; subst. apply find_some in E as [Hin Hb].
  apply Nat.eqb_eq in Hb. destruct e as [t' v']. simpl in *. subst. exact Hin.
Qed.

Lemma lookup_cons_eq (s : store) t v : lookup V ((t, v) :: s) t = Some v.
Proof. unfold lookup. simpl. rewrite Nat.eqb_refl. reflexivity. Qed.

Lemma lookup_cons_neq (s : store) t u v : u <> t -> lookup V ((t, v) :: s) u = lookup V s u.
Proof.
  intro H. unfold lookup. simpl. destruct (Nat.eqb t u) eqn:E; [apply Nat.eqb_eq in E; congruence|reflexivity].
Qed.

Lemma gather_values (s : store) : Inv s -> forall ds ins, gather V s ds = Some ins -> ins = map value ds.
Proof.
  intro HI. induction ds as [|d ds IH]; intros ins H; simpl in H.
  - inversion H. reflexivity.
  - destruct (lookup V s d) as [v|] eqn:El; [|discriminate].
    destruct (gather V s ds) as [l|] eqn:Eg; [|discriminate].
    inversion H; subst. simpl. f_equal; [apply (HI d), lookup_in, El|apply IH; reflexivity].
Qed.

Lemma gather_present (s : store) ds :
  (forall d, In d ds -> present V s d = true) -> exists ins, gather V s ds = Some ins.
Proof.
  induction ds as [|d ds IH]; intro H; [exists []; reflexivity|].
  destruct IH as [l Hl]; [intros d' Hd'; apply H; right; exact Hd'|].
  pose proof (H d (or_introl eq_refl)) as Hp. unfold present in Hp.
  destruct (lookup V s d) as [v|] eqn:El; [|discriminate].
  exists (v :: l). simpl. rewrite El, Hl. reflexivity.
Qed.

(* ---- ensure: preserves the invariant, only adds outputs, makes the task present ---- *)

Lemma fold_ensure_inv f :
  (forall s t, Inv s -> Inv (ensure f s t)) ->
  forall ds s, Inv s -> Inv (fold_left (ensure f) ds s).
Proof. intros H. induction ds as [|d ds IH]; intros s HI; simpl; [exact HI|]. exact (IH _ (H _ _ HI)). Qed.

Lemma ensure_inv : forall f s t, Inv s -> Inv (ensure f s t).
Proof.
  induction f as [|f IH]; intros s t HI; simpl; [exact HI|].
  destruct (present V s t); [exact HI|].
  pose proof (fold_ensure_inv f IH (deps_of t) s HI) as HI'.
  destruct (gather V _ (deps_of t)) as [ins|] eqn:Eg; [|exact HI'].
  intros t' v [H|H]; [|apply (HI' t' v H)].
  inversion H; subst. rewrite (gather_values _ HI' _ _ Eg). symmetry. apply value_spec.
Qed.

Lemma fold_ensure_mono f u :
  (forall s t, present V s u = true -> present V (ensure f s t) u = true) ->
  forall ds s, present V s u = true -> present V (fold_left (ensure f) ds s) u = true.
Proof. intros H. induction ds as [|d ds IH]; intros s Hp; simpl; [exact Hp|]. apply IH, H, Hp. Qed.

Lemma present_cons (s : store) t v u : present V s u = true -> present V ((t, v) :: s) u = true.
Proof.
  unfold present. destruct (Nat.eq_dec u t) as [->|Hn].
  - rewrite lookup_cons_eq. reflexivity.
  - rewrite lookup_cons_neq by exact Hn. auto.
Qed.

Lemma ensure_mono : forall f s t u, present V s u = true -> present V (ensure f s t) u = true.
Proof.
  induction f as [|f IH]; intros s t u Hp; simpl; [exact Hp|].
  destruct (present V s t); [exact Hp|].
  pose proof (fold_ensure_mono f u (fun s t => IH s t u) (deps_of t) s Hp) as Hp'.
  destruct (gather V _ (deps_of t)); [apply present_cons, Hp'|exact Hp'].
Qed.

Lemma fold_ensure_present f :
  (forall s t, t < f -> present V (ensure f s t) t = true) ->
  forall ds s, (forall d, In d ds -> d < f) ->
  forall d, In d ds -> present V (fold_left (ensure f) ds s) d = true.
Proof.
  intros H. induction ds as [|d0 ds IH]; intros s Hlt d Hd; [contradiction|].
  simpl. destruct Hd as [<-|Hd].
  - apply fold_ensure_mono; [intros; apply ensure_mono; assumption|].
    apply H, Hlt. left. reflexivity.
  - apply IH; [intros d' Hd'; apply Hlt; right; exact Hd'|exact Hd].
Qed.

Lemma ensure_present : forall f s t, t < f -> present V (ensure f s t) t = true.
Proof.
  induction f as [|f IH]; intros s t Hlt; [lia|]. simpl.
  destruct (present V s t) eqn:Ep; [exact Ep|].
  assert (Hall : forall d, In d (deps_of t) -> present V (fold_left (ensure f) (deps_of t) s) d = true).
  { apply fold_ensure_present; [exact IH|].
    intros d Hd. pose proof (acyclic t d Hd). lia. }
  destruct (gather_present _ _ Hall) as [ins Hg]. rewrite Hg.
  unfold present. rewrite lookup_cons_eq. reflexivity.
Qed.

(* ---- evaluation of a list of roots ---- *)

Lemma eval_roots_inv : forall roots s, Inv s -> Inv (eval_roots s roots).
Proof.
  unfold Session.eval_roots. induction roots as [|r roots IH]; intros s HI; cbn [fold_left]; [exact HI|].
  exact (IH _ (ensure_inv _ _ _ HI)).
Qed.

Lemma eval_roots_mono : forall roots s u, present V s u = true -> present V (eval_roots s roots) u = true.
Proof.
  unfold Session.eval_roots. induction roots as [|r roots IH]; intros s u Hp; cbn [fold_left]; [exact Hp|].
  apply IH, ensure_mono, Hp.
Qed.

Lemma eval_roots_present : forall roots s r, In r roots -> present V (eval_roots s roots) r = true.
Proof.
  unfold Session.eval_roots. induction roots as [|r0 roots IH]; intros s r Hr; [contradiction|].
  cbn [fold_left]. destruct Hr as [<-|Hr].
  - apply (eval_roots_mono roots). apply ensure_present. lia.
  - apply IH, Hr.
Qed.

Lemma drop_inv s ts : Inv s -> Inv (drop V s ts).
Proof. intros HI t v H. unfold drop in H. apply filter_In in H as [H _]. apply (HI t v H). Qed.

Lemma step_inv s o : Inv s -> Inv (fst (step s o)).
Proof.
  intro HI. destruct o as [roots|roots|ts|ts]; simpl;
    [apply eval_roots_inv, HI|exact HI|apply drop_inv, HI|apply drop_inv, HI].
Qed.

(* A RUN ALWAYS RECOMPUTES WHAT IS MISSING: whatever is present, discarded or
   lost, evaluating the roots succeeds with their failure-free rows and leaves
   every root present again. *)
Theorem eval_returns_value s roots :
  Inv s -> snd (step s (OEval roots)) = Rows (map value roots).
Proof.
  intro HI. simpl.
  destruct (gather_present (eval_roots s roots) roots) as [ins Hg];
    [intros d Hd; apply eval_roots_present, Hd|].
  rewrite Hg. f_equal. eapply gather_values; [apply eval_roots_inv, HI|exact Hg].
Qed.

Theorem eval_restores s roots r :
  In r roots -> present V (fst (step s (OEval roots))) r = true.
Proof. intro H. simpl. apply eval_roots_present, H. Qed.

(* A DIRECT SCAN never shows other rows: it returns the failure-free rows or an error. *)
Theorem scan_value_or_error s roots :
  Inv s -> snd (step s (OScan roots)) = Rows (map value roots) \/ snd (step s (OScan roots)) = Failed.
Proof.
  intro HI. simpl. destruct (gather V s roots) as [ins|] eqn:Eg; [left|right; reflexivity].
  f_equal. eapply gather_values; eassumption.
Qed.

(* ... and right after an evaluation of the same roots it succeeds *)
Theorem scan_after_eval s roots :
  Inv s -> snd (step (fst (step s (OEval roots))) (OScan roots)) = Rows (map value roots).
Proof.
  intro HI. simpl.
  destruct (gather_present (eval_roots s roots) roots) as [ins Hg];
    [intros d Hd; apply eval_roots_present, Hd|].
  rewrite Hg. f_equal. eapply gather_values; [apply eval_roots_inv, HI|exact Hg].
Qed.

(* ---- whole histories ---- *)

(* what each operation may show, given only the program (through [value]) *)
Definition allowed (o : op) (b : obs V) : Prop :=
  match o with
  | OEval roots => b = Rows (map value roots)
  | OScan roots => b = Rows (map value roots) \/ b = Failed
  | ODiscard _ | OLose _ => b = Done
  end.

Lemma run_allowed : forall ops s, Inv s -> Forall2 allowed ops (snd (run s ops)) /\ Inv (fst (run s ops)).
Proof.
  induction ops as [|o ops IH]; intros s HI; simpl; [split; [constructor|exact HI]|].
  destruct (step s o) as [s' b] eqn:Es.
  assert (HI' : Inv s') by (pose proof (step_inv s o HI) as H; rewrite Es in H; exact H).
  destruct (run s' ops) as [s'' bs] eqn:Er.
  destruct (IH s' HI') as [H1 H2]. rewrite Er in H1, H2. simpl in *. split; [|exact H2].
  constructor; [|exact H1].
  destruct o as [roots|roots|ts|ts].
  - pose proof (eval_returns_value s roots HI) as H. rewrite Es in H. exact H.
  - pose proof (scan_value_or_error s roots HI) as H. rewrite Es in H. exact H.
  - simpl in Es. inversion Es. reflexivity.
  - simpl in Es. inversion Es. reflexivity.
Qed.

Lemma inv_empty : Inv [].
Proof. intros t v []. Qed.

(* EVERY USE OBSERVES THE FIRST EVALUATION: in any history of runs, scans,
   discards and losses, starting from an empty session, every run returns the
   failure-free rows of its roots and every scan returns them or an error. *)
Theorem history_observes_first_evaluation ops :
  Forall2 allowed ops (snd (run [] ops)).
Proof. apply run_allowed, inv_empty. Qed.

Lemma run_app : forall ops1 ops2 s,
  run s (ops1 ++ ops2) =
  let '(s1, b1) := run s ops1 in let '(s2, b2) := run s1 ops2 in (s2, b1 ++ b2).
Proof.
  induction ops1 as [|o ops1 IH]; intros ops2 s; simpl; [destruct (run s ops2); reflexivity|].
  destruct (step s o) as [s' b]. rewrite IH.
  destruct (run s' ops1) as [s1 b1]. destruct (run s1 ops2) as [s2 b2]. reflexivity.
Qed.

(* DISCARD (OR LOSS) NEVER CHANGES A LATER EVALUATION: after any history, with or
   without a Discard of any tasks in the middle, a run returns the same rows. *)
Theorem discard_never_changes_later_eval ops1 ops2 ts roots :
  last (snd (run [] (ops1 ++ ODiscard ts :: ops2 ++ [OEval roots]))) Failed =
  last (snd (run [] (ops1 ++ ops2 ++ [OEval roots]))) Failed.
Proof.
  assert (E : forall ops, last (snd (run [] (ops ++ [OEval roots]))) Failed = Rows (map value roots)).
  { intro ops. rewrite run_app.
    destruct (run [] ops) as [s1 b1] eqn:E1.
    assert (HI : Inv s1) by (pose proof (proj2 (run_allowed ops [] inv_empty)) as H; rewrite E1 in H; exact H).
    simpl. destruct (gather V (eval_roots s1 roots) roots) as [ins|] eqn:Eg.
    - simpl. rewrite last_last. f_equal. eapply gather_values; [apply eval_roots_inv, HI|exact Eg].
    - exfalso. destruct (gather_present (eval_roots s1 roots) roots) as [ins Hg];
        [intros d Hd; apply eval_roots_present, Hd|]. congruence. }
  replace (ops1 ++ ODiscard ts :: ops2 ++ [OEval roots]) with ((ops1 ++ ODiscard ts :: ops2) ++ [OEval roots])
    by (rewrite <- app_assoc; reflexivity).
  replace (ops1 ++ ops2 ++ [OEval roots]) with ((ops1 ++ ops2) ++ [OEval roots])
    by (rewrite <- app_assoc; reflexivity).
  rewrite !E. reflexivity.
Qed.
End Proofs.

(* ---- a concrete session: a Result (tasks 0,1,2) reused by a later Func (task 3) ---- *)
Section Example.
Let deps (t : nat) : list nat := match t with 2 => [0; 1] | 3 => [2] | _ => [] end.
Let comp (t : nat) (ins : list nat) : nat := t + 10 * fold_left Nat.add ins 0.

Example history_example :
  snd (run nat comp deps []
         [OEval [2]; OScan [2]; ODiscard [0; 1; 2]; OScan [2]; OEval [3]; OScan [2]; OLose [2]; OEval [3]; OScan [3]])
  = [Rows [12]; Rows [12]; Done; Failed; Rows [123]; Rows [12]; Done; Rows [123]; Rows [123]].
Proof. reflexivity. Qed.
End Example.

(* C12 — judging histories of uses of a Result. *)
From Coq Require Import List ZArith Bool.
Import ListNotations.
Require Export BS.C01.Corr.
Require Import BS.C12.Instance.
Local Open Scope Z_scope.

Inductive skind :=
| KRun               (* the run that produced the Result *)
| KScan              (* a scan of the Result (possibly concurrent with another) *)
| KScanAfterDiscard  (* a scan after Discard: correct rows or an error *)
| KUse               (* a later Func over the Result; the program is base ++ consumer *)
| KScanAcrossDiscard. (* a scanner opened before a Discard that keeps scanning after it:
                         all the rows of the first evaluation, or an error *)

Record step := mkStep { skindof : skind; sprog : list node; sobs : obs }.
Definition case := list step.

Definition is_error (e : errc) : bool := match e with EUser | EOther => true | _ => false end.

Definition step_ok (s : step) : bool :=
  match skindof s with
  | KScanAfterDiscard =>
      (* either the rows of the first evaluation (recomputed or still there) or an error; never other rows *)
      is_error (oerr (sobs s)) || ok_rows_with (ref (sprog s)) (sobs s)
  | KScanAcrossDiscard =>
      let v := rvalue (ref (sprog s)) in
      is_error (oscanerr (sobs s)) || (errc_eqb (oscanerr (sobs s)) EOk && scanned_ok (vordered v) (vshards v) (oscanned (sobs s)))
  | _ => ok_rows_with (ref (sprog s)) (sobs s)
  end.

Definition ok (c : case) : bool := forallb step_ok c.

Definition violations (cs : list case) : list nat := bad_indices ok cs.
(* besides the verdict: every program of every step satisfies the hypothesis [wf] of the session
   theorems instantiated with the reference semantics (C12_program_history_observes_reference) *)
Definition mismatches (cs : list case) : list nat :=
  bad_indices (fun c => ok c && forallb (fun s => wf (sprog s)) c) cs.

(* C12 — the session model (C12/Session.v) instantiated with the reference
   semantics of slice programs (C01/Sem.v): tasks are the nodes of a program
   (the Result's program followed by the later Funcs that use it), a task's
   dependencies are the node's inputs and its output is the node's value. *)
From Coq Require Import List ZArith Arith Bool Lia.
Import ListNotations.
Require Import BS.Common.Util BS.C01.Sem BS.C12.Proofs BS.C12.Session BS.C12.SessionProofs.

Definition nd0 : node := NCache 0.
Definition values (p : list node) : list value := fst (eval_nodes p 0 [] []).
Definition value_of (p : list node) (k : nat) : value := nth k (values p) vempty.
Definition deps (p : list node) (k : nat) : list nat :=
  if k <? length p then inputs (nth k p nd0) else [].

(* a list of k values holding ins at the positions ds and vempty elsewhere *)
Fixpoint index_of (i : nat) (ds : list nat) : option nat :=
  match ds with
  | [] => None
  | d :: r => if Nat.eqb d i then Some 0 else option_map S (index_of i r)
  end.
Definition scatter (k : nat) (ds : list nat) (ins : list value) : list value :=
  map (fun i => match index_of i ds with Some j => nth j ins vempty | None => vempty end) (seq 0 k).

Definition comp (p : list node) (k : nat) (ins : list value) : value :=
  if k <? length p then fst (eval_node (scatter k (deps p k) ins) k (nth k p nd0)) else vempty.

(* every input of node k is an earlier node, and a Cogroup has at least one input *)
Definition wf_node (k : nat) (nd : node) : bool :=
  forallb (fun i => i <? k) (inputs nd) &&
  match nd with NCogroup [] => false | _ => true end.
Fixpoint wf_from (k : nat) (p : list node) : bool :=
  match p with [] => true | nd :: r => wf_node k nd && wf_from (S k) r end.
Definition wf (p : list node) : bool := wf_from 0 p.

(* ---- eval_node only looks at its inputs ---- *)
Lemma eval_node_ext vs vs' k nd :
  (forall i, In i (inputs nd) -> get vs i = get vs' i) ->
  match nd with NCogroup [] => False | _ => True end ->
  eval_node vs k nd = eval_node vs' k nd.
Proof.
  intros H Hne. destruct nd; simpl in *; try reflexivity;
    try (rewrite (H _ (or_introl eq_refl)); reflexivity).
  (* NCogroup *)
  destruct is as [|i0 is']; [contradiction|].
  assert (E : map (get vs) (i0 :: is') = map (get vs') (i0 :: is')) by (apply map_ext_in; exact H).
  simpl hd. rewrite (H i0 (or_introl eq_refl)). rewrite E. reflexivity.
Qed.

(* ---- the value of node k is eval_node applied to the values before it ---- *)
Lemma values_split p1 nd p2 :
  exists more,
    values (p1 ++ nd :: p2) =
      (values p1 ++ [fst (eval_node (values p1) (length p1) nd)]) ++ more /\
    length (values p1) = length p1.
Proof.
  unfold values. rewrite eval_nodes_app.
  destruct (eval_nodes_extends p1 0 [] []) as (m1 & E1 & L1).
  destruct (eval_nodes p1 0 [] []) as [vs1 s1] eqn:Ep. simpl in E1. subst vs1. simpl.
  destruct (eval_node m1 (length p1) nd) as [v sd] eqn:En.
  destruct (eval_nodes_extends p2 (S (length p1)) (m1 ++ [v]) (s1 ++ [(length p1, sd)])) as (m2 & E2 & L2).
  exists m2. simpl. split; [exact E2|exact L1].
Qed.

Lemma value_of_node p k :
  k < length p ->
  value_of p k = fst (eval_node (firstn k (values p)) k (nth k p nd0)) /\ length (values p) = length p.
Proof.
  intro Hk.
  assert (Hsplit : p = firstn k p ++ nth k p nd0 :: skipn (S k) p).
  { rewrite <- (firstn_skipn k p) at 1. f_equal.
    clear - Hk. revert k Hk. induction p as [|x p IH]; intros k Hk; [simpl in Hk; lia|].
    destruct k; simpl; [reflexivity|]. apply IH. simpl in Hk. lia. }
  assert (Lf : length (firstn k p) = k) by (rewrite firstn_length; lia).
  destruct (values_split (firstn k p) (nth k p nd0) (skipn (S k) p)) as (more & E & L).
  rewrite <- Hsplit in E. rewrite Lf in E, L.
  split.
  - unfold value_of. rewrite E. rewrite <- app_assoc. rewrite app_nth2 by (apply Nat.eq_le_incl, L). rewrite L, Nat.sub_diag. simpl.
    rewrite firstn_app, L, Nat.sub_diag, firstn_O, app_nil_r. rewrite (firstn_all2 (values (firstn k p))) by (apply Nat.eq_le_incl, L). reflexivity.
  - destruct (eval_nodes_extends p 0 [] []) as (m & Em & Lm). unfold values. rewrite Em. simpl. exact Lm.
Qed.

Lemma index_of_nth i ds : In i ds -> exists j, index_of i ds = Some j /\ nth j ds 0 = i /\ j < length ds.
Proof.
  induction ds as [|d ds IH]; intro H; [contradiction|]. simpl.
  destruct (Nat.eqb d i) eqn:E.
  - apply Nat.eqb_eq in E. exists 0. simpl. repeat split; [exact E|lia].
  - destruct H as [H|H]; [apply Nat.eqb_neq in E; congruence|].
    destruct (IH H) as (j & Ej & Hn & Hl). exists (S j). rewrite Ej. simpl. repeat split; [exact Hn|lia].
Qed.

Lemma get_scatter k ds (f : nat -> value) i :
  In i ds -> i < k -> get (scatter k ds (map f ds)) i = f i.
Proof.
  intros Hi Hk. unfold get, scatter.
  rewrite (nth_map_lt _ (seq 0 k) i 0 vempty) by (rewrite seq_length; exact Hk).
  rewrite seq_nth by exact Hk. simpl.
  destruct (index_of_nth i ds Hi) as (j & Ej & Hn & Hl). rewrite Ej.
  rewrite (nth_map_lt f ds j 0 vempty) by exact Hl. rewrite Hn. reflexivity.
Qed.

Lemma wf_from_nth : forall p k0 k, wf_from k0 p = true -> k < length p -> wf_node (k0 + k) (nth k p nd0) = true.
Proof.
  induction p as [|nd p IH]; intros k0 k Hw Hk; [simpl in Hk; lia|].
  simpl in Hw. apply andb_true_iff in Hw as [H1 H2].
  destruct k; simpl; [rewrite Nat.add_0_r; exact H1|].
  replace (k0 + S k) with (S k0 + k) by lia. apply IH; [exact H2|simpl in Hk; lia].
Qed.

(* the value of a node is the deterministic function [comp] of its inputs' values *)
Theorem value_spec_program p :
  wf p = true -> forall k, value_of p k = comp p k (map (value_of p) (deps p k)).
Proof.
  intros Hw k. unfold comp. destruct (k <? length p) eqn:Ek.
  - apply Nat.ltb_lt in Ek. destruct (value_of_node p k Ek) as [E L]. rewrite E.
    pose proof (wf_from_nth p 0 k Hw Ek) as Hn. simpl in Hn. unfold wf_node in Hn.
    apply andb_true_iff in Hn as [Hin Hco]. rewrite forallb_forall in Hin.
    f_equal. apply eval_node_ext.
    + intros i Hi. pose proof (Hin i Hi) as Hlt. apply Nat.ltb_lt in Hlt.
      unfold deps. rewrite (proj2 (Nat.ltb_lt _ _) Ek).
      rewrite (get_scatter k (inputs (nth k p nd0)) (value_of p) i Hi Hlt).
      unfold get, value_of. rewrite <- (firstn_skipn k (values p)) at 2.
      rewrite app_nth1; [reflexivity|rewrite firstn_length; lia].
    + destruct (nth k p nd0) as [| | | | | | | | | |is| | | | | | |]; try exact I.
      destruct is; [discriminate|exact I].
  - apply Nat.ltb_ge in Ek. unfold value_of. apply nth_overflow.
    destruct (eval_nodes_extends p 0 [] []) as (m & Em & Lm). unfold values. rewrite Em. simpl. lia.
Qed.

Lemma deps_smaller p : wf p = true -> forall k d, In d (deps p k) -> d < k.
Proof.
  intros Hw k d Hd. unfold deps in Hd. destruct (k <? length p) eqn:Ek; [|contradiction].
  apply Nat.ltb_lt in Ek.
  pose proof (wf_from_nth p 0 k Hw Ek) as Hn. simpl in Hn. unfold wf_node in Hn.
  apply andb_true_iff in Hn as [Hin _]. rewrite forallb_forall in Hin. apply Nat.ltb_lt, Hin, Hd.
Qed.

(* ---- the session theorems, for programs ---- *)

(* In any history of runs (of any nodes of the program: the Result's root, later
   Funcs built on it), direct scans, discards and losses, starting from an empty
   session: every run returns the reference value of its nodes, and every scan
   returns it or an error. *)
Theorem program_history_observes_reference p ops :
  wf p = true ->
  Forall2 (allowed value (value_of p)) ops (snd (run value (comp p) (deps p) [] ops)).
Proof.
  intro Hw. apply history_observes_first_evaluation; [apply value_spec_program, Hw|apply deps_smaller, Hw].
Qed.

(* the Result of [base] used by any later program: a run of the Result's root, at
   any point of any history, returns exactly the rows of ref base *)
Theorem result_root_is_ref base consumer ops1 ops2 :
  base <> [] -> wf (base ++ consumer) = true ->
  last (snd (run value (comp (base ++ consumer)) (deps (base ++ consumer)) []
               (ops1 ++ ODiscard ops2 :: [OEval [length base - 1]]))) Failed
  = Rows [rvalue (ref base)].
Proof.
  intros Hne Hw.
  pose proof (program_history_observes_reference (base ++ consumer)
                (ops1 ++ ODiscard ops2 :: [OEval [length base - 1]]) Hw) as H.
  set (obs := snd _) in *.
  assert (L : exists pre, obs = pre ++ [Rows [value_of (base ++ consumer) (length base - 1)]]).
  { clearbody obs. apply Forall2_app_inv_l in H as (o1 & o2 & _ & H2 & ->).
    inversion H2 as [|a1 b1 l1 l1' _ H3]; subst. inversion H3 as [|a2 b2 l2 l2' H4 H5]; subst.
    inversion H5; subst. simpl in H4. subst b2. exists (o1 ++ [b1]). rewrite <- app_assoc. reflexivity. }
  destruct L as [pre E]. rewrite E, last_last. f_equal. f_equal.
  unfold value_of, values. apply result_argument_denotes_first_evaluation. exact Hne.
Qed.

(* ---- non-vacuity: a concrete Result and a later Func redistributing it ---- *)
Local Open Scope Z_scope.
Definition ex_base : list node :=
  [NConst 2 [TI; TI] [[1; 2; 1; 3]; [10; 20; 30; 40]]; NMap 0 [ECol 0; EAddMod (ECol 1) 1 100]].
Definition ex_consumer : list node := [NReduce 1 CSum].
Example ex_wf : wf (ex_base ++ ex_consumer) = true.
Proof. reflexivity. Qed.
Example ex_history :
  snd (run value (comp (ex_base ++ ex_consumer)) (deps (ex_base ++ ex_consumer)) []
         [OEval [1%nat]; ODiscard [0%nat; 1%nat]; OScan [1%nat]; OEval [2%nat]; OScan [1%nat]])
  = [Rows [rvalue (ref ex_base)]; Done; Failed;
     Rows [rvalue (ref (ex_base ++ ex_consumer))]; Rows [rvalue (ref ex_base)]].
Proof. vm_compute. reflexivity. Qed.

(* C12 — a session as a store of task outputs that can be evaluated, scanned,
   discarded and lost.  Executable model, no proofs in this file.

   A task is a natural number; its dependencies have smaller numbers (the
   compiled graph is acyclic and tasks of a later Func come after the tasks of
   the Result they consume).  The output of a task is a deterministic function
   [compute t] of its dependencies' outputs (exec/task.go: Task.Do over the
   readers of Task.Deps).  The session keeps the outputs that are present
   (exec/local.go: taskBuffer per task; exec/bigmachine.go: per-machine stores
   plus the driver's location table, abstracted here to presence). *)
From Coq Require Import List Arith Bool.
Import ListNotations.

Section Session.
Variable V : Type.                               (* the rows of a task output *)
Variable compute : nat -> list V -> V.
Variable deps_of : nat -> list nat.

Definition store := list (nat * V).              (* present outputs; first binding wins *)

Definition lookup (s : store) (t : nat) : option V :=
  match find (fun e => Nat.eqb (fst e) t) s with Some e => Some (snd e) | None => None end.

Definition present (s : store) (t : nat) : bool :=
  match lookup s t with Some _ => true | None => false end.

Fixpoint gather (s : store) (ds : list nat) : option (list V) :=
  match ds with
  | [] => Some []
  | d :: r => match lookup s d, gather s r with
              | Some v, Some l => Some (v :: l)
              | _, _ => None
              end
  end.

(* Evaluation of the cone of a task (exec/eval.go): a task whose output is
   present is not run again; otherwise its dependencies are made present first
   (LOST/INIT dependencies are re-enqueued before their dependents), then the
   task runs and its output is stored.  [fuel] bounds the recursion depth; the
   theorems use fuel = t + 1, which suffices because dependencies are smaller. *)
Fixpoint ensure (fuel : nat) (s : store) (t : nat) : store :=
  match fuel with
  | O => s
  | S f =>
      if present s t then s
      else
        let s' := fold_left (ensure f) (deps_of t) s in
        match gather s' (deps_of t) with
        | Some ins => (t, compute t ins) :: s'
        | None => s'        (* cannot happen with enough fuel: see the proofs *)
        end
  end.

Definition drop (s : store) (ts : list nat) : store :=
  filter (fun e => negb (existsb (Nat.eqb (fst e)) ts)) s.

Inductive op :=
| OEval (roots : list nat)     (* Session.Run of a Func whose result tasks are [roots] (a later Func over a
                                  Result has the Result's tasks in its cone) *)
| OScan (roots : list nat)     (* Result.Scanner: reads the outputs of the Result's tasks, no evaluation *)
| ODiscard (ts : list nat)     (* Result.Discard: the outputs of the Result's tasks are dropped *)
| OLose (ts : list nat).       (* machine loss: arbitrary outputs disappear *)

(* what the user observes *)
Inductive obs :=
| Rows (r : list V)            (* success, with these outputs of the root tasks *)
| Failed                       (* an error *)
| Done.                        (* Discard / loss: nothing to observe *)

Definition eval_roots (s : store) (roots : list nat) : store :=
  fold_left (fun s t => ensure (S t) s t) roots s.

Definition step (s : store) (o : op) : store * obs :=
  match o with
  | OEval roots =>
      let s' := eval_roots s roots in
      (s', match gather s' roots with Some r => Rows r | None => Failed end)
  | OScan roots => (s, match gather s roots with Some r => Rows r | None => Failed end)
  | ODiscard ts => (drop s ts, Done)
  | OLose ts => (drop s ts, Done)
  end.

Fixpoint run (s : store) (ops : list op) : store * list obs :=
  match ops with
  | [] => (s, [])
  | o :: r => let '(s', b) := step s o in
              let '(s'', bs) := run s' r in (s'', b :: bs)
  end.
End Session.

Arguments Rows {V}.
Arguments Failed {V}.
Arguments Done {V}.

(* C08 — theorems about compile_gen, for every DAG, every initial store, every
   compile environment, and both values of the switch [fixed]. *)
From Coq Require Import List String NArith Arith Bool Lia.
Import ListNotations.
Require Import BS.C08.Model BS.C08.Ind BS.C08.Names BS.C08.Shape BS.C08.NamesInv.
Local Open Scope nat_scope.

(* the Results' tasks, and their group peers, are in the initial store *)
Definition wf_init (g : list node) (init : list task) : Prop :=
  (forall i l, nresult (get_node g i) = Some l -> Forall (fun r => r < List.length init) l)
  /\ (forall r m, r < List.length init -> In m (tgroup (get_task init r)) -> m < List.length init).

Definition root (g : list node) : nat := pred (List.length g).

Section Top.
  Variables (g : list node) (inv : N) (mc : bool) (fixed : config) (init : list task) (env : cenv).
  Variables (st : cstate) (roots : list nat).
  Notation n0 := (List.length init).
  Hypothesis Hwf : wf_dag g.
  Hypothesis Hinit : wf_init g init.
  Hypothesis Hc : compile_gen fixed g inv mc init env = COk st roots.

  Lemma init_shape : inv_shape g inv fixed init (init_state init env).
  Proof.
    split; [|split]; simpl.
    - exists []. now rewrite app_nil_r.
    - intros id t Hid Hn. exfalso. assert (id < n0) by (apply nth_error_Some; congruence). lia.
    - intros i np ids H; discriminate.
  Qed.

  Lemma top_shape : post_shape g inv fixed init (root g) part0 (init_state init env) st roots.
  Proof.
    destruct Hinit as [H1 H2].
    eapply (compile_shape g inv mc fixed init Hwf H1 H2); [| apply init_shape | | exact Hc].
    - unfold root. lia.
    - intro; reflexivity.
  Qed.

  Lemma top_store : exists a, sstore st = init ++ a.
  Proof. destruct top_shape as (_ & E & _). exact E. Qed.

  (* ---- roots_per_shard ---- *)
  Theorem roots_per_shard : List.length roots = nshard (get_node g (root g)).
  Proof. destruct top_shape as (_ & _ & R). destruct R as (L & _). exact L. Qed.

  (* the k-th root is the task of shard k of the root slice, and writes one partition *)
  Theorem roots_are_shards : nresult (get_node g (root g)) = None ->
    forall k id, nth_error roots k = Some id ->
      exists t, nth_error (sstore st) id = Some t /\ n0 <= id /\ tinv t = inv /\ tshard t = k
                /\ tnshard t = nshard (get_node g (root g)) /\ tnumpart t = 1 /\ tgroup t = []
                /\ hd_error (tslices t) = Some (root g).
  Proof.
    intros Hr k id Hk. destruct top_shape as (_ & _ & R). destruct R as (_ & _ & M).
    rewrite Hr in M. destruct (M k id Hk) as (Hn & t & Ht & A & B & C & (D & _) & E & F).
    exists t. repeat split; auto.
  Qed.

  (* a Result returned as it is: its own tasks are the roots *)
  Theorem roots_of_result : forall rts, nresult (get_node g (root g)) = Some rts -> roots = rts.
  Proof.
    intros rts Hr. destruct top_shape as (_ & _ & R). destruct R as (_ & _ & M).
    rewrite Hr in M. exact M.
  Qed.

  Lemma new_task_ok : forall id t, n0 <= id -> nth_error (sstore st) id = Some t ->
    task_ok g inv fixed init (sstore st) id t.
  Proof. destruct top_shape as ((_ & T & _) & _). exact T. Qed.

  (* ---- acyclic: identities are a rank ---- *)
  Theorem acyclic : forall id t, n0 <= id -> nth_error (sstore st) id = Some t ->
    forall td, In td (tdeps t) -> forall m, In m (members (sstore st) td) -> m < id.
  Proof.
    intros id t Hid Ht td Htd m Hm.
    destruct (new_task_ok id t Hid Ht) as (_ & Hr & _). destruct (Hr td Htd) as [_ H]. auto.
  Qed.

  Theorem old_tasks_untouched : firstn n0 (sstore st) = init.
  Proof. destruct top_store as [a ->]. rewrite firstn_app, firstn_all, Nat.sub_diag. simpl. apply app_nil_r. Qed.

  (* ---- one task per shard of each stage ---- *)
  Theorem one_task_per_stage_shard : forall id t, n0 <= id -> nth_error (sstore st) id = Some t ->
    tinv t = inv /\ tshard t < tnshard t /\
    exists base, id = base + tshard t /\ n0 <= base /\
      forall k, k < tnshard t ->
        exists u, nth_error (sstore st) (base + k) = Some u /\ top u = top t /\ tshard u = k
                  /\ tnshard u = tnshard t /\ tinv u = tinv t.
  Proof.
    intros id t Hid Ht. destruct (new_task_ok id t Hid Ht) as (A & _ & B & C & _). auto.
  Qed.

  (* ---- no pipelining across a shuffle, a Materialize pragma or a Result ---- *)
  Theorem no_pipeline_across : forall id t, n0 <= id -> nth_error (sstore st) id = Some t ->
    (exists i, nresult (get_node g i) = None
               /\ pipeline (S (List.length g)) g i = Some (tslices t)
               /\ chain g (tslices t)
               /\ tnshard t = nshard (get_node g i))
    \/ (exists rid, rid < n0 /\ tdeps t = [mkTDep rid 0 false ""%string]
                    /\ tslices t = tslices (get_task init rid)).
  Proof.
    intros id t Hid Ht. destruct (new_task_ok id t Hid Ht) as (_ & _ & _ & _ & K).
    destruct K as [(i & slices & A & B & C & D & _)|(rid & A & B & C)]; [left|right].
    - exists i. rewrite C. repeat split; auto.
      pose proof (pipeline_spec g Hwf _ _ _ B) as PS. rewrite A in PS.
      destruct PS as (r & _ & Hch & _). exact Hch.
    - exists rid. repeat split; auto. rewrite C.
      destruct top_store as [a ->]. now rewrite get_task_app_l.
  Qed.

  (* ---- shuffle wiring ---- *)
  (* For the tasks that compute a pipeline of this invocation.  Such a task is
     recognised by its Slices: [task_ok] says whether a new task is a pipeline
     task or a re-shuffle task. *)
  Definition pipeline_task (t : task) (i : nat) : Prop :=
    nresult (get_node g i) = None /\ pipeline (S (List.length g)) g i = Some (tslices t)
    /\ tnshard t = nshard (get_node g i)
    /\ (tdeps t = [] \/
        Forall2 (wired_dep g inv fixed init (sstore st) t (ncomb (get_node g (last (tslices t) i))))
                (ndeps (get_node g (last (tslices t) i))) (tdeps t)).

  Definition reshuffle_task (t : task) : Prop :=
    exists rid, rid < n0 /\ tdeps t = [mkTDep rid 0 false ""%string].

  Theorem new_task_kinds : forall id t, n0 <= id -> nth_error (sstore st) id = Some t ->
    (exists i, pipeline_task t i) \/ reshuffle_task t.
  Proof.
    intros id t Hid Ht. destruct (new_task_ok id t Hid Ht) as (_ & _ & _ & _ & K).
    destruct K as [(i & slices & A & B & C & D & F)|(rid & A & B & C)]; [left|right].
    - exists i. unfold pipeline_task. rewrite C. auto.
    - exists rid. auto.
  Qed.

  (* shard p of a shuffle consumer reads partition p of every shard of the
     producer; the producer writes as many partitions as the consumer has
     shards, with the partitioner of the dependency, and combines into the
     consumer's combine key *)
  Theorem shuffle_wiring : forall t i, pipeline_task t i -> tshard t < tnshard t ->
    forall j d td, nth_error (ndeps (get_node g (last (tslices t) i))) j = Some d ->
                   nth_error (tdeps t) j = Some td -> dshuffle d = true ->
    (cfg_partitioned fixed = true \/ nresult (get_node g (dtarget d)) = None) ->
    dpart td = tshard t /\ dexp td = dexpand d
    /\ List.length (members (sstore st) td) = nshard (get_node g (dtarget d))
    /\ forall k m, nth_error (members (sstore st) td) k = Some m ->
         exists u, nth_error (sstore st) m = Some u /\ n0 <= m /\ tinv u = inv /\ tshard u = k
                   /\ tnumpart u = tnshard t
                   /\ tpart u = (if dcustom d then 2 else 1)
                   /\ thascomb u = ncomb (get_node g (last (tslices t) i))
                   /\ tckey u = dckey td
                   /\ tgroup u = members (sstore st) td.
  Proof.
    intros t i (Hr & Hp & Hn & W) Hsh j d td Hd Htd S Hfix.
    destruct W as [W|W]; [rewrite W in Htd; destruct j; discriminate|].
    assert (Wd : wired_dep g inv fixed init (sstore st) t (ncomb (get_node g (last (tslices t) i))) d td).
    { clear - W Hd Htd. revert j Hd Htd. induction W; intros [|j] Hd Htd; simpl in *; try discriminate.
      - inversion Hd; inversion Htd; subst; auto.
      - eauto. }
    destruct Wd as (He & Wd). rewrite S in Wd. destruct Wd as (Hpart & R).
    split; [auto|]. split; [auto|].
    destruct R as (Hl & _ & M). split; [auto|].
    assert (Hn0 : tnshard t <> 0) by lia.
    assert (Spart : is_shuffle (mkPart (tnshard t) (dcustom d) (ncomb (get_node g (last (tslices t) i))) (dckey td)) = true)
      by (apply is_shuffle_mk; auto).
    assert (Hpn : part_num (mkPart (tnshard t) (dcustom d) (ncomb (get_node g (last (tslices t) i))) (dckey td)) = tnshard t).
    { unfold part_num; simpl. destruct (tnshard t =? 0) eqn:E; auto. apply Nat.eqb_eq in E. lia. }
    intros k m Hk.
    destruct (nresult (get_node g (dtarget d))) as [rts|] eqn:Rd.
    - destruct Hfix as [Hf|Hf]; [|discriminate].
      rewrite Spart in M. destruct (M k m Hk) as (Hm & u & Hu & A & B & C & D & E & F).
      destruct (F Hf) as (F1 & F2 & F3 & F4). rewrite Hpn in F1.
      exists u. repeat split; auto.
    - destruct (M k m Hk) as (Hm & u & Hu & A & B & C & (F1 & F2 & F3 & F4) & D & E).
      rewrite Hpn in F1. rewrite Spart in D.
      exists u. repeat split; auto.
  Qed.

  (* a dependency that is not a shuffle is wired shard to shard *)
  Theorem narrow_wiring : forall t i, pipeline_task t i -> tshard t < tnshard t ->
    forall j d td, nth_error (ndeps (get_node g (last (tslices t) i))) j = Some d ->
                   nth_error (tdeps t) j = Some td -> dshuffle d = false ->
    dpart td = 0 /\ dexp td = dexpand d /\ dckey td = ""%string
    /\ match nresult (get_node g (dtarget d)) with
       | Some rts => nth_error rts (tshard t) = Some (dhead td)
       | None => exists u, nth_error (sstore st) (dhead td) = Some u /\ n0 <= dhead td
                           /\ tshard u = tshard t /\ tnumpart u = 1 /\ tgroup u = []
                           /\ hd_error (tslices u) = Some (dtarget d)
       end.
  Proof.
    intros t i (Hr & Hp & Hn & W) Hsh j d td Hd Htd S.
    destruct W as [W|W]; [rewrite W in Htd; destruct j; discriminate|].
    assert (Wd : wired_dep g inv fixed init (sstore st) t (ncomb (get_node g (last (tslices t) i))) d td).
    { clear - W Hd Htd. revert j Hd Htd. induction W; intros [|j] Hd Htd; simpl in *; try discriminate.
      - inversion Hd; inversion Htd; subst; auto.
      - eauto. }
    destruct Wd as (He & Wd). rewrite S in Wd. destruct Wd as (Hpart & Hck & ids & R & Hk).
    split; [auto|]. split; [auto|]. split; [auto|].
    destruct R as (_ & _ & M). destruct (nresult (get_node g (dtarget d))) as [rts|].
    - simpl in M. subst ids. exact Hk.
    - destruct (M _ _ Hk) as (Hm & u & Hu & A & B & C & (F1 & _) & D & E).
      exists u. repeat split; auto.
  Qed.

  (* ---- names_unique ---- *)
  Hypothesis Hclean : forall i, clean (nop (get_node g i)).

  Lemma top_names : inv_names init st.
  Proof.
    assert (I0 : inv_names init (init_state init env)).
    { exists []. simpl. split; [now rewrite app_nil_r|]. split; constructor. }
    assert (Hlt : root g < S (List.length g)) by (unfold root; lia).
    destruct (compile_names g inv mc fixed init Hwf Hclean _ _ _ _ _ _ Hlt I0 Hc) as (I & _).
    exact I.
  Qed.

  (* within the invocation: operation name and shard identify a task *)
  Theorem names_unique_new : NoDup (map (fun t => (top t, tshard t)) (skipn n0 (sstore st))).
  Proof. exact (inv_names_nodup init st top_names). Qed.

  (* across the whole store, as TaskName values *)
  Theorem names_unique :
    NoDup (map name_of init) -> (forall t, In t init -> tinv t <> inv) ->
    NoDup (map name_of (sstore st)).
  Proof.
    intros Nd Hinv. pose proof names_unique_new as Nn.
    destruct top_store as [a Ea]. rewrite Ea in Nn |- *.
    rewrite skipn_app, skipn_all, Nat.sub_diag in Nn. simpl in Nn.
    rewrite map_app. apply NoDup_app_intro; auto.
    - clear - Nn. induction a as [|t a IH]; simpl in *; [constructor|].
      inversion Nn; subst. constructor; auto.
      intro Hin. apply H1. apply in_map_iff in Hin as (u & Hu & Hin). apply in_map_iff.
      exists u. split; auto. unfold name_of in Hu. inversion Hu. reflexivity.
    - intros x Hx Hy. apply in_map_iff in Hx as (u & <- & Hu). apply in_map_iff in Hy as (v & Hv & Hvin).
      destruct (In_nth_error _ _ Hvin) as [k Hk].
      assert (Hv' : nth_error (sstore st) (n0 + k) = Some v).
      { rewrite Ea. rewrite nth_error_app2 by lia. now replace (n0 + k - n0) with k by lia. }
      destruct (new_task_ok (n0 + k) v ltac:(lia) Hv') as (Hi & _).
      unfold name_of in Hv. inversion Hv as [[E1 E2 E3 E4]].
      apply (Hinv u Hu). congruence.
  Qed.
End Top.

(* ================= decidable forms of the hypotheses ================= *)
Definition node_ok_b (g : list node) (i : nat) : bool :=
  forallb (fun d => (dtarget d <? i)
                    && (dshuffle d || Nat.eqb (nshard (get_node g (dtarget d))) (nshard (get_node g i))))
          (ndeps (get_node g i))
  && match nresult (get_node g i) with
     | Some l => Nat.eqb (List.length l) (nshard (get_node g i))
     | None => true
     end.
Definition wf_dag_b (g : list node) : bool := forallb (node_ok_b g) (seq 0 (List.length g)).

Lemma get_node_out g i : List.length g <= i -> get_node g i = dummy_node.
Proof. intro H. unfold get_node. now apply nth_overflow. Qed.

Lemma wf_dag_b_sound g : wf_dag_b g = true -> wf_dag g.
Proof.
  intros H i. destruct (Nat.lt_ge_cases i (List.length g)) as [Hi|Hi].
  - unfold wf_dag_b in H. rewrite forallb_forall in H.
    specialize (H i ltac:(apply in_seq; lia)). unfold node_ok_b in H.
    apply andb_true_iff in H as [Hd Hr]. rewrite forallb_forall in Hd. split.
    + intros d Hin. specialize (Hd d Hin). apply andb_true_iff in Hd as [A B].
      apply Nat.ltb_lt in A. split; auto. intro S. rewrite S in B. simpl in B. now apply Nat.eqb_eq.
    + intros l Hl. rewrite Hl in Hr. now apply Nat.eqb_eq.
  - rewrite (get_node_out g i Hi). simpl. split; [intros d []|intros l Hl; discriminate].
Qed.

Definition wf_init_b (g : list node) (init : list task) : bool :=
  forallb (fun n => match nresult n with
                    | Some l => forallb (fun r => r <? List.length init) l
                    | None => true end) g
  && forallb (fun t => forallb (fun m => m <? List.length init) (tgroup t)) init.

Lemma wf_init_b_sound g init : wf_init_b g init = true -> wf_init g init.
Proof.
  unfold wf_init_b. intro H. apply andb_true_iff in H as [A B].
  rewrite forallb_forall in A, B. split.
  - intros i l Hl. destruct (Nat.lt_ge_cases i (List.length g)) as [Hi|Hi].
    + assert (Hin : In (get_node g i) g) by (apply nth_In; auto).
      specialize (A _ Hin). rewrite Hl in A. rewrite forallb_forall in A.
      apply Forall_forall. intros r Hr. apply Nat.ltb_lt. auto.
    + rewrite (get_node_out g i Hi) in Hl. discriminate.
  - intros r m Hr Hm.
    assert (Hin : In (get_task init r) init) by (apply nth_In; auto).
    specialize (B _ Hin). rewrite forallb_forall in B. apply Nat.ltb_lt. auto.
Qed.

Fixpoint clean_b (s : string) : bool :=
  match s with
  | EmptyString => true
  | String a r => match r with EmptyString => negb (is_digit a) | _ => clean_b r end
  end.
Lemma clean_b_sound s : clean_b s = true -> clean s.
Proof.
  unfold clean. induction s as [|a s IH]; simpl; auto.
  destruct s; [intro H; now apply negb_true_iff in H|auto].
Qed.
Definition clean_ops_b (g : list node) : bool := forallb (fun n => clean_b (nop n)) g.
Lemma clean_ops_b_sound g : clean_ops_b g = true -> forall i, clean (nop (get_node g i)).
Proof.
  unfold clean_ops_b. intros H i. rewrite forallb_forall in H.
  destruct (Nat.lt_ge_cases i (List.length g)) as [Hi|Hi].
  - apply clean_b_sound, H, nth_In; auto.
  - rewrite (get_node_out g i Hi). exact I.
Qed.

(* ================= shuffle wiring, in one statement ================= *)
Definition wired_shuffle (g : list node) (inv : N) (init : list task) (s : list task)
           (t : task) (lastn : node) (d : dep) (td : tdep) : Prop :=
  dpart td = tshard t /\ dexp td = dexpand d
  /\ List.length (members s td) = nshard (get_node g (dtarget d))
  /\ forall k m, nth_error (members s td) k = Some m ->
       exists u, nth_error s m = Some u /\ List.length init <= m /\ tinv u = inv /\ tshard u = k
                 /\ tnumpart u = tnshard t
                 /\ tpart u = (if dcustom d then 2 else 1)
                 /\ thascomb u = ncomb lastn
                 /\ tckey u = dckey td
                 /\ tgroup u = members s td.

Theorem shuffle_wiring_top : forall g inv mc fixed init env st roots,
  wf_dag g -> wf_init g init -> compile_gen fixed g inv mc init env = COk st roots ->
  forall id t, List.length init <= id -> nth_error (sstore st) id = Some t ->
    reshuffle_task init t
    \/ exists i, nresult (get_node g i) = None /\ pipeline (S (List.length g)) g i = Some (tslices t)
         /\ (tdeps t = []
             \/ (List.length (tdeps t) = List.length (ndeps (get_node g (last (tslices t) i)))
                 /\ forall j d td,
                      nth_error (ndeps (get_node g (last (tslices t) i))) j = Some d ->
                      nth_error (tdeps t) j = Some td -> dshuffle d = true ->
                      (cfg_partitioned fixed = true \/ nresult (get_node g (dtarget d)) = None) ->
                      wired_shuffle g inv init (sstore st) t (get_node g (last (tslices t) i)) d td)).
Proof.
  intros g inv mc fixed init env st roots Hwf Hinit Hc id t Hid Ht.
  destruct (new_task_kinds g inv mc fixed init env st roots Hwf Hinit Hc id t Hid Ht) as [[i P]|R]; [right|now left].
  exists i. pose proof P as (A & B & C & W). split; [auto|]. split; [auto|].
  destruct W as [W|W]; [now left|right]. split.
  - symmetry. eapply Forall2_length; eauto.
  - intros j d td Hd Htd S Hf.
    destruct (one_task_per_stage_shard g inv mc fixed init env st roots Hwf Hinit Hc id t Hid Ht) as (_ & Hsh & _).
    exact (shuffle_wiring g inv fixed init st t i P Hsh j d td Hd Htd S Hf).
Qed.

(* ================= the code's configuration: no guard ================= *)
(* With the re-shuffle tasks over a Result repaired, every shuffle dependency of
   every new pipeline task is wired as the property demands, Result producers
   included. *)
Theorem shuffle_wiring_code : forall g inv mc init env st roots,
  wf_dag g -> wf_init g init -> compile_top g inv mc init env = COk st roots ->
  forall id t, List.length init <= id -> nth_error (sstore st) id = Some t ->
    reshuffle_task init t
    \/ exists i, nresult (get_node g i) = None /\ pipeline (S (List.length g)) g i = Some (tslices t)
         /\ (tdeps t = []
             \/ (List.length (tdeps t) = List.length (ndeps (get_node g (last (tslices t) i)))
                 /\ forall j d td,
                      nth_error (ndeps (get_node g (last (tslices t) i))) j = Some d ->
                      nth_error (tdeps t) j = Some td -> dshuffle d = true ->
                      wired_shuffle g inv init (sstore st) t (get_node g (last (tslices t) i)) d td)).
Proof.
  intros g inv mc init env st roots Hwf Hinit Hc id t Hid Ht.
  destruct (shuffle_wiring_top g inv mc code_config init env st roots Hwf Hinit Hc id t Hid Ht)
    as [R|(i & A & B & W)]; [now left|right].
  exists i. split; [auto|]. split; [auto|]. destruct W as [W|[L W]]; [now left|right].
  split; [auto|]. intros j d td Hd Htd S. apply (W j d td Hd Htd S). left. exact code_config_partitioned.
Qed.


(* ================= names across invocations ================= *)
(* every task created by invocation [inv] performs an operation whose name starts
   with "inv<inv>_" -- pipelines and, since 3babbc3, re-shuffle tasks alike *)
Theorem ops_carry_invocation : forall fixed g inv mc init env st roots,
  cfg_named_by_inv fixed = true -> wf_dag g ->
  compile_gen fixed g inv mc init env = COk st roots ->
  forall t, In t (skipn (List.length init) (sstore st)) -> prefixed inv (top t).
Proof.
  intros fixed g inv mc init env st roots Hn Hwf Hc t Ht.
  assert (Hlt : pred (List.length g) < S (List.length g)) by lia.
  destruct (compile_prefixed g inv mc fixed Hwf Hn _ _ _ _ _ _ Hlt Hc) as (a & E & F).
  simpl in E. rewrite E, skipn_app, skipn_all, Nat.sub_diag in Ht. simpl in Ht.
  rewrite Forall_forall in F. auto.
Qed.

(* hence two invocations with distinct indices never mint the same operation
   name, whatever they compile and whatever Results they share: a task store
   keyed by operation name and shard cannot confuse their outputs *)
Theorem ops_disjoint_across_invocations :
  forall fixed g g' i j mc mc' init init' env env' st st' roots roots',
  cfg_named_by_inv fixed = true -> wf_dag g -> wf_dag g' ->
  compile_gen fixed g i mc init env = COk st roots ->
  compile_gen fixed g' j mc' init' env' = COk st' roots' ->
  i <> j ->
  forall t t', In t (skipn (List.length init) (sstore st)) ->
               In t' (skipn (List.length init') (sstore st')) -> top t <> top t'.
Proof.
  intros fixed g g' i j mc mc' init init' env env' st st' roots roots' Hn Hwf Hwf' Hc Hc' Hij t t' Ht Ht' E.
  apply Hij. apply (prefixed_disjoint i j (top t)).
  - exact (ops_carry_invocation fixed g i mc init env st roots Hn Hwf Hc t Ht).
  - rewrite E. exact (ops_carry_invocation fixed g' j mc' init' env' st' roots' Hn Hwf' Hc' t' Ht').
Qed.

(* C08 — (1) the fuel of compile_gen always suffices; (2) with a frozen compile
   environment the result does not depend on the compiling process's own view of
   the slice caches. *)
From Coq Require Import List String NArith Arith Bool Lia.
Import ListNotations.
Require Import BS.C08.Model BS.C08.Ind.
Local Open Scope nat_scope.

(* ================= fuel ================= *)
Section Fuel.
  Variables (g : list node) (inv : N) (mc : bool) (fixed : config).
  Hypothesis Hwf : wf_dag g.

  Lemma compile_deps_fuel : forall rec n comb ck l st,
    (forall d q s, In d l -> rec (dtarget d) q s <> CFail EOutOfFuel) ->
    compile_deps rec n comb ck l st <> DFail EOutOfFuel.
  Proof.
    intros rec n comb ck. induction l as [|d l IH]; intros st Hrec; simpl; [discriminate|].
    assert (Hl : forall d' q s, In d' l -> rec (dtarget d') q s <> CFail EOutOfFuel)
      by (intros; apply Hrec; simpl; auto).
    destruct (dshuffle d).
    - destruct (rec (dtarget d) _ st) as [st1 ids|e] eqn:R.
      + destruct ids; [destruct n|].
        * specialize (IH st1 Hl). destruct (compile_deps rec 0 comb ck l st1); congruence.
        * discriminate.
        * specialize (IH st1 Hl). destruct (compile_deps rec n comb ck l st1); congruence.
      + intro E. inversion E; subst. eapply Hrec; eauto. simpl; auto.
    - destruct (rec (dtarget d) part0 st) as [st1 ids|e] eqn:R.
      + destruct (negb (List.length ids =? n)); [discriminate|].
        specialize (IH st1 Hl). destruct (compile_deps rec n comb ck l st1); congruence.
      + intro E. inversion E; subst. eapply Hrec; eauto. simpl; auto.
  Qed.

  Lemma compile_fuel : forall fuel i p st,
    i < fuel -> i <= List.length g -> compile g inv mc fixed fuel i p st <> CFail EOutOfFuel.
  Proof.
    induction fuel as [|f IH]; intros i p st Hi Hg; [lia|]. simpl.
    assert (Body : match nresult (get_node g i) with
                   | Some rts => compile_result inv fixed rts p st
                   | None => compile_slices g inv mc (compile g inv mc fixed f) i p st
                   end <> CFail EOutOfFuel).
    { destruct (nresult (get_node g i)) as [rts|] eqn:R.
      - unfold compile_result. destruct (existsb _ rts); [discriminate|].
        destruct (negb (is_shuffle p)); [discriminate|].
        destruct rts; [discriminate|]. destruct (namer_new _ _). discriminate.
      - unfold compile_slices.
        destruct (pipeline_total g Hwf (S (List.length g)) i ltac:(lia)) as [slices P]. rewrite P.
        pose proof (pipeline_spec g Hwf _ _ _ P) as PS. rewrite R in PS.
        destruct PS as (r & Hsl & _ & Hle & _).
        destruct (namer_new _ _) as [opn nm].
        match goal with |- context [compile_deps ?rec ?n ?c ?k ?l ?s] =>
          pose proof (compile_deps_fuel rec n c k l s) as Hd;
          destruct (compile_deps rec n c k l s) as [st2 ds|e] eqn:D end.
        + destruct (cache_loop _ _ _). discriminate.
        + intro E. assert (e = EOutOfFuel) by congruence. subst e. apply Hd; auto.
          intros d q s Hin. destruct (Hwf (last slices i)) as [Hw _]. destruct (Hw d Hin) as [Hlt _].
          assert (last slices i <= i). { apply Hle. rewrite Hsl. apply last_in. }
          apply IH; lia. }
    destruct (negb (pcomb p) && negb (pcustom p)).
    - destruct (memo_get _ _); [discriminate|].
      match goal with |- context [match ?x with COk _ _ => _ | CFail _ => _ end] => destruct x eqn:E end;
        [discriminate|congruence].
    - match goal with |- context [match ?x with COk _ _ => _ | CFail _ => _ end] => destruct x eqn:E end;
        [discriminate|congruence].
  Qed.

  Theorem compile_gen_fuel : forall init env, compile_gen fixed g inv mc init env <> CFail EOutOfFuel.
  Proof. intros. unfold compile_gen. apply compile_fuel; lia. Qed.
End Fuel.

(* ================= frozen environments ================= *)
(* two processes see the same slices, except for what their caches contain *)
Definition same_but_cache (g g' : list node) : Prop :=
  List.length g = List.length g' /\
  forall i, nop (get_node g i) = nop (get_node g' i)
            /\ nshard (get_node g i) = nshard (get_node g' i)
            /\ ndeps (get_node g i) = ndeps (get_node g' i)
            /\ ncomb (get_node g i) = ncomb (get_node g' i)
            /\ nmat (get_node g i) = nmat (get_node g' i)
            /\ nresult (get_node g i) = nresult (get_node g' i).

Lemma map_fst_combine {A B} (a : list A) (b : list B) :
  List.length a = List.length b -> map fst (combine a b) = a.
Proof.
  revert b; induction a as [|x a IH]; intros [|y b] H; simpl in *; try discriminate; auto.
  f_equal. apply IH. lia.
Qed.

Lemma cache_loop_frozen : forall ops ops' env ts,
  ewritable env = false -> map fst ops = map fst ops' ->
  cache_loop ops env ts = cache_loop ops' env ts /\ fst (cache_loop ops env ts) = env.
Proof.
  induction ops as [|[o v] r IH]; intros [|[o' v'] r'] env ts W E; simpl in E; try discriminate.
  - simpl; auto.
  - inversion E; subst. simpl. rewrite W. apply IH; auto.
Qed.

Section Frozen.
  Variables (g g' : list node) (inv : N) (mc : bool) (fixed : config).
  Hypothesis Hsame : same_but_cache g g'.

  Lemma pipeline_same : forall fuel i, pipeline fuel g i = pipeline fuel g' i.
  Proof.
    destruct Hsame as [_ H].
    induction fuel as [|f IH]; intro i; simpl; auto.
    destruct (H i) as (_ & _ & Hd & _ & _ & Hr). rewrite <- Hr, <- Hd.
    destruct (nresult (get_node g i)); auto.
    destruct (ndeps (get_node g i)) as [|d [|d' r]]; auto.
    destruct (H (dtarget d)) as (_ & _ & _ & _ & Hm & _). rewrite <- Hm, IH. reflexivity.
  Qed.

  Lemma compile_deps_same : forall (rec rec' : nat -> part -> cstate -> cres) n comb ck l st,
    ewritable (senv st) = false ->
    (forall j q s, ewritable (senv s) = false ->
       rec j q s = rec' j q s /\ forall s' ids, rec j q s = COk s' ids -> ewritable (senv s') = false) ->
    compile_deps rec n comb ck l st = compile_deps rec' n comb ck l st
    /\ forall s' ds, compile_deps rec n comb ck l st = DOk s' ds -> ewritable (senv s') = false.
  Proof.
    intros rec rec' n comb ck. induction l as [|d l IH]; intros st W Hrec; simpl.
    - split; auto. intros s' ds H; inversion H; subst; auto.
    - destruct (dshuffle d).
      + destruct (Hrec (dtarget d) (mkPart n (dcustom d) comb ck) st W) as [E P]. rewrite <- E.
        destruct (rec (dtarget d) _ st) as [st1 ids|e] eqn:R; [|split; [auto|discriminate]].
        specialize (P _ _ eq_refl). destruct (IH st1 P Hrec) as [E2 P2]. rewrite <- E2.
        destruct ids; [destruct n|].
        * destruct (compile_deps rec 0 comb ck l st1) eqn:D; split; auto; try discriminate.
          intros s' ds' H; inversion H; subst. eapply P2; eauto.
        * split; auto; discriminate.
        * destruct (compile_deps rec n comb ck l st1) eqn:D; split; auto; try discriminate.
          intros s' ds' H; inversion H; subst. eapply P2; eauto.
      + destruct (Hrec (dtarget d) part0 st W) as [E P]. rewrite <- E.
        destruct (rec (dtarget d) part0 st) as [st1 ids|e] eqn:R; [|split; [auto|discriminate]].
        destruct (negb (List.length ids =? n)); [split; [auto|discriminate]|].
        specialize (P _ _ eq_refl). destruct (IH st1 P Hrec) as [E2 P2]. rewrite <- E2.
        destruct (compile_deps rec n comb ck l st1) eqn:D; split; auto; try discriminate.
        intros s' ds' H; inversion H; subst. eapply P2; eauto.
  Qed.

  Lemma compile_same : forall fuel i p st,
    ewritable (senv st) = false ->
    compile g inv mc fixed fuel i p st = compile g' inv mc fixed fuel i p st
    /\ forall s' ids, compile g inv mc fixed fuel i p st = COk s' ids -> ewritable (senv s') = false.
  Proof.
    destruct Hsame as [Hlen Hn].
    induction fuel as [|f IH]; intros i p st W; simpl; [split; [auto|discriminate]|].
    assert (Body :
      let b := match nresult (get_node g i) with
               | Some rts => compile_result inv fixed rts p st
               | None => compile_slices g inv mc (compile g inv mc fixed f) i p st end in
      let b' := match nresult (get_node g' i) with
                | Some rts => compile_result inv fixed rts p st
                | None => compile_slices g' inv mc (compile g' inv mc fixed f) i p st end in
      b = b' /\ forall s' ids, b = COk s' ids -> ewritable (senv s') = false).
    { destruct (Hn i) as (Hop & Hsh & Hd & Hc & Hm & Hr). rewrite <- Hr.
      destruct (nresult (get_node g i)) as [rts|] eqn:R; cbv zeta.
      - split; auto. unfold compile_result.
        destruct (existsb _ rts); [discriminate|]. destruct (negb (is_shuffle p)).
        + intros s' ids H; inversion H; subst; auto.
        + destruct rts; [discriminate|]. destruct (namer_new _ _).
          intros s' ids H; inversion H; subst; auto.
      - unfold compile_slices. rewrite <- Hlen, <- pipeline_same.
        destruct (pipeline (S (List.length g)) g i) as [slices|]; [|split; [auto|discriminate]].
        assert (Eb : op_base g inv slices = op_base g' inv slices).
        { unfold op_base. f_equal. f_equal. apply map_ext. intro j. apply (Hn j). }
        rewrite <- Eb. destruct (namer_new (snamer st) (op_base g inv slices)) as [opn nm].
        destruct (Hn (last slices i)) as (_ & _ & Hd' & Hc' & _). rewrite <- Hd', <- Hc', <- Hsh.
        match goal with |- context [compile_deps (compile g inv mc fixed f) ?n ?c ?k ?l ?s] =>
          destruct (compile_deps_same (compile g inv mc fixed f) (compile g' inv mc fixed f) n c k l s W IH) as [E P] end.
        rewrite <- E.
        match goal with |- context [compile_deps ?rec ?n ?c ?k ?l ?s] =>
          destruct (compile_deps rec n c k l s) as [st2 ds|e] eqn:D end; [|split; [auto|discriminate]].
        specialize (P _ _ eq_refl).
        match goal with |- context [cache_loop ?o1 (senv st2) ?ts] =>
          match goal with |- context [cache_loop ?o2 (senv st2) ts] =>
            lazymatch o1 with o2 => fail | _ =>
              destruct (cache_loop_frozen o1 o2 (senv st2) ts P) as [E3 P3] end end end.
        { rewrite !map_rev. f_equal. rewrite !map_fst_combine by (rewrite seq_length, map_length; reflexivity). reflexivity. }
        rewrite <- E3.
        destruct (cache_loop _ (senv st2) _) as [env' ts'] eqn:CL. simpl in P3. subst env'.
        split; auto. intros s' ids H; inversion H; subst; auto. }
    cbv zeta in Body. destruct Body as [Eb Pb]. rewrite <- Eb.
    destruct (negb (pcomb p) && negb (pcustom p)).
    - destruct (memo_get (smemo st) (i, pnum p)).
      + split; auto. intros s' ids H; inversion H; subst; auto.
      + match goal with |- context [match ?x with COk _ _ => _ | CFail _ => _ end] => destruct x eqn:E end.
        * split; auto. intros s' ids' H; inversion H; subst. simpl. eapply Pb; eauto.
        * split; auto; discriminate.
    - match goal with |- context [match ?x with COk _ _ => _ | CFail _ => _ end] => destruct x eqn:E end.
      + split; auto; intros s' ids' H; inversion H; subst; eapply Pb; eauto.
      + split; auto; discriminate.
  Qed.

  (* compile_env_frozen *)
  Theorem compile_env_frozen : forall init env,
    ewritable env = false ->
    compile_gen fixed g inv mc init env = compile_gen fixed g' inv mc init env.
  Proof.
    intros init env W. unfold compile_gen. destruct Hsame as [Hlen _]. rewrite <- Hlen.
    apply compile_same. exact W.
  Qed.
End Frozen.

(* C08 — well-formed inputs, facts about pipeline(), and an induction principle
   for the fuelled compiler that hides the fuel and the memo plumbing. *)
From Coq Require Import List String NArith Arith Bool Lia.
Import ListNotations.
Require Import BS.C08.Model.
Local Open Scope nat_scope.

(* ---- the code's configuration (Model.v): both repairs are in ---- *)
Lemma code_result_shuffle_fixed : result_shuffle_fixed = true.
Proof. reflexivity. Qed.
Lemma code_transport_freezes : transport_freezes_env = true.
Proof. reflexivity. Qed.
Lemma code_reshuffle_named_by_inv : reshuffle_named_by_inv = true.
Proof. reflexivity. Qed.
Lemma code_config_partitioned : cfg_partitioned code_config = true.
Proof. exact code_result_shuffle_fixed. Qed.
Lemma code_config_named_by_inv : cfg_named_by_inv code_config = true.
Proof. exact code_reshuffle_named_by_inv. Qed.

(* ---- small list facts ---- *)
Lemma nth_error_app_l {A} (l l' : list A) i x : nth_error l i = Some x -> nth_error (l ++ l') i = Some x.
Proof. intro H. rewrite nth_error_app1; auto. apply nth_error_Some. congruence. Qed.

Lemma nth_error_nth' {A} (l : list A) i d x : nth_error l i = Some x -> nth i l d = x.
Proof. revert i; induction l; intros [|i]; simpl; intro H; try discriminate; [congruence | auto]. Qed.

Lemma nth_nth_error {A} (l : list A) i d : i < List.length l -> nth_error l i = Some (nth i l d).
Proof. revert i; induction l; intros [|i]; simpl; intro H; try lia; auto. apply IHl; lia. Qed.

Lemma get_task_app_l (s a : list task) id : id < List.length s -> get_task (s ++ a) id = get_task s id.
Proof. intro H. unfold get_task. now rewrite app_nth1. Qed.

Lemma nth_error_get_task (s : list task) id t : nth_error s id = Some t -> get_task s id = t.
Proof. apply nth_error_nth'. Qed.

Lemma nth_error_seq a n k : k < n -> nth_error (seq a n) k = Some (a + k).
Proof.
  revert a k; induction n; intros a k H; [lia|].
  destruct k; simpl; [f_equal; lia|]. rewrite IHn by lia. f_equal; lia.
Qed.

Lemma nth_error_seq_inv a n k x : nth_error (seq a n) k = Some x -> k < n /\ x = a + k.
Proof.
  intro H. assert (k < n). { rewrite <- (seq_length n a). apply nth_error_Some. congruence. }
  rewrite nth_error_seq in H by auto. split; congruence.
Qed.

Lemma last_cons_default {A} (l : list A) a d1 d2 : last (a :: l) d1 = last (a :: l) d2.
Proof.
  revert a; induction l as [|b l IH]; intro a; [reflexivity|].
  change (last (b :: l) d1 = last (b :: l) d2). apply IH.
Qed.

Lemma last_in {A} (l : list A) a d : In (last (a :: l) d) (a :: l).
Proof.
  revert a; induction l as [|b l IH]; intro a; [simpl; auto|].
  change (In (last (b :: l) d) (a :: b :: l)). right. apply IH.
Qed.

Section WF.
  Variable g : list node.

  (* dependencies point to smaller indices; a dependency that is not a shuffle
     keeps the shard count; a Result has one task per shard *)
  Definition wf_dag : Prop :=
    forall i,
      (forall d, In d (ndeps (get_node g i)) ->
                 dtarget d < i /\
                 (dshuffle d = false -> nshard (get_node g (dtarget d)) = nshard (get_node g i)))
      /\ (forall l, nresult (get_node g i) = Some l -> List.length l = nshard (get_node g i)).

  Hypothesis Hwf : wf_dag.

  (* consecutive slices of a pipeline are joined by a single non-shuffle
     dependency on a slice that is neither materialized nor a Result *)
  Fixpoint chain (l : list nat) : Prop :=
    match l with
    | [] => True
    | a :: r =>
        nresult (get_node g a) = None
        /\ match r with
           | [] => True
           | b :: _ => exists d, ndeps (get_node g a) = [d] /\ dtarget d = b
                                 /\ dshuffle d = false /\ nmat (get_node g b) = false
           end
        /\ chain r
    end.

  Lemma pipeline_total : forall fuel i, i < fuel -> exists l, pipeline fuel g i = Some l.
  Proof.
    induction fuel as [|f IH]; intros i Hi; [lia|]. simpl.
    destruct (nresult (get_node g i)); eauto.
    destruct (ndeps (get_node g i)) as [|d [|d' r]] eqn:E; eauto.
    destruct (dshuffle d); eauto. destruct (nmat _); eauto.
    destruct (Hwf i) as [Hd _]. destruct (Hd d) as [Hlt _]; [rewrite E; simpl; auto|].
    destruct (IH (dtarget d)) as [l ->]; [lia|]. eauto.
  Qed.

  Lemma pipeline_spec : forall fuel i l, pipeline fuel g i = Some l ->
    match nresult (get_node g i) with
    | Some _ => l = []
    | None => exists r, l = i :: r /\ chain l /\ (forall j, In j l -> j <= i)
              /\ nshard (get_node g (last l i)) = nshard (get_node g i)
              /\ (forall j, In j l -> nshard (get_node g j) = nshard (get_node g i))
    end.
  Proof.
    induction fuel as [|f IH]; intros i l H; [discriminate|]. simpl in H.
    destruct (nresult (get_node g i)) eqn:R; [congruence|].
    assert (Base : l = [i] -> exists r, l = i :: r /\ chain l /\ (forall j, In j l -> j <= i)
              /\ nshard (get_node g (last l i)) = nshard (get_node g i)
              /\ (forall j, In j l -> nshard (get_node g j) = nshard (get_node g i))).
    { intros ->. exists []. simpl. repeat split; auto; intros j [<-|[]]; auto. }
    destruct (ndeps (get_node g i)) as [|d [|d' r]] eqn:E; try (apply Base; congruence).
    destruct (dshuffle d) eqn:S; [apply Base; congruence|].
    destruct (nmat (get_node g (dtarget d))) eqn:M; [apply Base; congruence|].
    destruct (pipeline f g (dtarget d)) as [r|] eqn:P; [|discriminate].
    inversion H; subst l; clear H.
    destruct (Hwf i) as [Hd _]. destruct (Hd d) as [Hlt Hsh]; [rewrite E; simpl; auto|].
    specialize (Hsh S).
    apply IH in P. destruct (nresult (get_node g (dtarget d))) eqn:R'.
    - subst r. exists []. simpl. repeat split; auto; intros j [<-|[]]; auto.
    - destruct P as (r' & -> & Hc & Hle & Hl & Hall).
      exists (dtarget d :: r').
      split; [reflexivity|]. split; [|split; [|split]].
      + simpl. split; [auto|]. split; [exists d; auto|]. simpl in Hc. tauto.
      + intros j [<-|Hj]; auto. specialize (Hle j Hj). lia.
      + change (last (i :: dtarget d :: r') i) with (last (dtarget d :: r') i).
        rewrite (last_cons_default r' (dtarget d) i (dtarget d)). congruence.
      + intros j [<-|Hj]; auto. rewrite (Hall j Hj). auto.
  Qed.
End WF.

(* ================= induction principle for compile ================= *)
Section Ind.
  Variables (g : list node) (inv : N) (mc : bool) (fixed : config).
  Variable Pre : nat -> part -> cstate -> Prop.
  Variable Post : nat -> part -> cstate -> cstate -> list nat -> Prop.

  Definition memoable (p : part) : bool := negb (pcomb p) && negb (pcustom p).

  Hypothesis H_memo : forall i p st ids,
    Pre i p st -> memoable p = true -> memo_get (smemo st) (i, pnum p) = Some ids -> Post i p st st ids.
  Hypothesis H_result : forall i p st rts st' ids,
    Pre i p st -> nresult (get_node g i) = Some rts ->
    compile_result inv fixed rts p st = COk st' ids -> Post i p st st' ids.
  Hypothesis H_slices : forall rec i p st st' ids,
    (forall j q s1 s2 l, j < i -> Pre j q s1 -> rec j q s1 = COk s2 l -> Post j q s1 s2 l) ->
    Pre i p st -> nresult (get_node g i) = None ->
    compile_slices g inv mc rec i p st = COk st' ids -> Post i p st st' ids.
  Hypothesis H_memo_add : forall i p st st' ids,
    Pre i p st -> Post i p st st' ids -> memoable p = true ->
    Post i p st (mkSt (sstore st') (snamer st') (((i, pnum p), ids) :: smemo st') (senv st')) ids.

  Lemma compile_ind : forall fuel i p st st' ids,
    i < fuel -> Pre i p st -> compile g inv mc fixed fuel i p st = COk st' ids -> Post i p st st' ids.
  Proof.
    induction fuel as [|f IH]; intros i p st st' ids Hi HP H; [lia|].
    simpl in H. fold (memoable p) in H.
    destruct (memoable p) eqn:M.
    - destruct (memo_get (smemo st) (i, pnum p)) as [m|] eqn:G.
      + inversion H; subst. eapply H_memo; eauto.
      + destruct (nresult (get_node g i)) as [rts|] eqn:R.
        * destruct (compile_result inv fixed rts p st) as [s2 l|] eqn:C; [|discriminate].
          inversion H; subst. eapply H_memo_add; eauto.
        * destruct (compile_slices g inv mc (compile g inv mc fixed f) i p st) as [s2 l|] eqn:C; [|discriminate].
          inversion H; subst. eapply H_memo_add; eauto.
          eapply H_slices; eauto. intros. eapply IH; eauto. lia.
    - destruct (nresult (get_node g i)) as [rts|] eqn:R.
      + destruct (compile_result inv fixed rts p st) as [s2 l|] eqn:C; [|discriminate].
        inversion H; subst. eapply H_result; eauto.
      + destruct (compile_slices g inv mc (compile g inv mc fixed f) i p st) as [s2 l|] eqn:C; [|discriminate].
        inversion H; subst. eapply H_slices; eauto. intros. eapply IH; eauto. lia.
  Qed.
End Ind.

(* C08 — the driver and a process holding the driver's frozen environment
   compile the same graph: recompiling with the final CompileEnv, frozen, gives
   exactly the tasks of the first compilation, whatever the caches say now.

   Idea: every cache decision of the first compilation concerns a key
   (name of a task of the stage being built, operation index); keys are only
   ever added for the stage being built, names are unique, so the final
   environment answers every such question the way the environment of the
   moment did. *)
From Coq Require Import List String NArith Arith Bool Lia.
Import ListNotations.
Require Import BS.C08.Model BS.C08.Ind BS.C08.Names BS.C08.Shape BS.C08.NamesInv BS.C08.Frozen.
Local Open Scope nat_scope.

(* ---- keys ---- *)
Lemma tname_eqb_eq (a b : N * string * nat * nat) : tname_eqb a b = true <-> a = b.
Proof.
  destruct a as [[[i1 o1] s1] n1], b as [[[i2 o2] s2] n2]. unfold tname_eqb.
  rewrite !andb_true_iff, N.eqb_eq, String.eqb_eq, !Nat.eqb_eq.
  split; [intros [[[-> ->] ->] ->]; reflexivity | intro H; inversion H; auto].
Qed.

Definition cached_in (l : list ((N * string * nat * nat) * nat)) (n : N * string * nat * nat) (op : nat) : bool :=
  existsb (fun k => tname_eqb (fst k) n && Nat.eqb (snd k) op) l.

Lemma is_cached_in e n op : is_cached e n op = cached_in (ecached e) n op.
Proof. reflexivity. Qed.

Lemma cached_in_app a b n op : cached_in (a ++ b) n op = cached_in a n op || cached_in b n op.
Proof. unfold cached_in. apply existsb_app. Qed.

Lemma cached_in_false l n op : (forall k, In k l -> k <> (n, op)) -> cached_in l n op = false.
Proof.
  intro H. unfold cached_in. apply not_true_is_false. intro E.
  apply existsb_exists in E as ([n' op'] & Hin & Hk). simpl in Hk.
  apply andb_true_iff in Hk as [A B]. apply tname_eqb_eq in A. apply Nat.eqb_eq in B. subst.
  eapply H; eauto.
Qed.

Lemma name_of_set_deps t ds : name_of (set_deps t ds) = name_of t.
Proof. reflexivity. Qed.

Definition with_env (st : cstate) (F : list ((N * string * nat * nat) * nat)) : cstate :=
  mkSt (sstore st) (snamer st) (smemo st) (mkEnv false F).

(* [F] answers for the tasks [a] as [E] does *)
Definition agree (F : list ((N * string * nat * nat) * nat)) (E : cenv) (a : list task) : Prop :=
  forall t, In t a -> forall op, cached_in F (name_of t) op = is_cached E (name_of t) op.

(* ---- the cache loop ---- *)
Definition drop_if (c : task -> bool) (t : task) : task := if c t then set_deps t [] else t.

Lemma drop_if_compose c1 c2 t :
  (forall u ds, c2 (set_deps u ds) = c2 u) ->
  drop_if c2 (drop_if c1 t) = drop_if (fun u => c1 u || c2 u) t.
Proof.
  intro H. unfold drop_if. destruct (c1 t) eqn:E1; simpl.
  - rewrite H. destruct (c2 t); reflexivity.
  - reflexivity.
Qed.

Lemma fold_marks v opIdx : forall ts E,
  exists marks,
    fold_left (fun e t => if view_cached v (tshard t) then mark_cached e (name_of t) opIdx else e) ts E
    = mkEnv (ewritable E) (marks ++ ecached E)
    /\ forall k, In k marks -> snd k = opIdx /\ exists t, In t ts /\ fst k = name_of t.
Proof.
  induction ts as [|t ts IH]; intro E; simpl.
  - exists []. split; [destruct E; reflexivity | intros k []].
  - destruct (view_cached v (tshard t)).
    + destruct (IH (mark_cached E (name_of t) opIdx)) as (m & Hm & Hk).
      exists (m ++ [(name_of t, opIdx)]). split.
      * rewrite Hm. simpl. now rewrite <- app_assoc.
      * intros k Hin. apply in_app_iff in Hin as [Hin|[<-|[]]].
        -- destruct (Hk k Hin) as (A & u & B & C). split; auto. exists u; auto.
        -- simpl. split; auto. exists t; auto.
    + destruct (IH E) as (m & Hm & Hk). exists m. split; auto.
      intros k Hin. destruct (Hk k Hin) as (A & u & B & C). split; auto. exists u; auto.
Qed.

(* the first compilation: every decision can be read off the final environment *)
Lemma cache_loop_writable : forall ops E ts E' ts',
  NoDup (map fst ops) -> cache_loop ops E ts = (E', ts') ->
  exists marks,
    ecached E' = marks ++ ecached E /\ ewritable E' = ewritable E
    /\ (forall k, In k marks -> In (snd k) (map fst ops) /\ exists t, In t ts /\ fst k = name_of t)
    /\ ts' = map (drop_if (fun t => existsb (fun o => cached_in (ecached E') (name_of t) (fst o)) ops)) ts.
Proof.
  induction ops as [|[opIdx v] r IH]; intros E ts E' ts' Nd H; simpl in H.
  - inversion H; subst. exists []. split; [reflexivity|]. split; [reflexivity|]. split; [intros k []|].
    rewrite <- (map_id ts') at 1. apply map_ext. intro; reflexivity.
  - inversion Nd as [|? ? Hnotin Nd']; subst.
    set (env1 := if ewritable E
                 then fold_left (fun e t => if view_cached v (tshard t) then mark_cached e (name_of t) opIdx else e) ts E
                 else E) in *.
    assert (H1 : exists m1, env1 = mkEnv (ewritable E) (m1 ++ ecached E)
                 /\ forall k, In k m1 -> snd k = opIdx /\ exists t, In t ts /\ fst k = name_of t).
    { unfold env1. destruct (ewritable E) eqn:W.
      - destruct (fold_marks v opIdx ts E) as (m & Hm & Hk). exists m. rewrite Hm, W. auto.
      - exists []. split; [destruct E; simpl in *; now subst | intros k []]. }
    destruct H1 as (m1 & He1 & Hk1).
    set (ts1 := map (fun t => if is_cached env1 (name_of t) opIdx then set_deps t [] else t) ts) in *.
    destruct (IH env1 ts1 E' ts' Nd' H) as (mr & HE' & HW' & Hkr & Hts').
    exists (mr ++ m1). split; [|split; [|split]].
    + rewrite HE', He1. simpl. now rewrite app_assoc.
    + rewrite HW', He1. reflexivity.
    + intros k Hin. apply in_app_iff in Hin as [Hin|Hin].
      * destruct (Hkr k Hin) as (A & t & B & C). split; [simpl; auto|].
        unfold ts1 in B. apply in_map_iff in B as (u & <- & Hu). exists u. split; auto.
        rewrite C. destruct (is_cached env1 (name_of u) opIdx); reflexivity.
      * destruct (Hk1 k Hin) as (A & t & B & C). split; [simpl; auto|]. exists t; auto.
    + rewrite Hts'. unfold ts1. rewrite map_map. apply map_ext_in. intros t Ht.
      change (if is_cached env1 (name_of t) opIdx then set_deps t [] else t)
        with (drop_if (fun u => is_cached env1 (name_of u) opIdx) t).
      rewrite drop_if_compose by (intros; reflexivity).
      unfold drop_if. simpl.
      (* the later marks concern other operations *)
      assert (Heq : is_cached env1 (name_of t) opIdx = cached_in (ecached E') (name_of t) opIdx).
      { rewrite HE', cached_in_app, is_cached_in.
        rewrite (cached_in_false mr); [reflexivity|].
        intros k Hin Ek. destruct (Hkr k Hin) as (A & _). subst k. simpl in A. contradiction. }
      rewrite Heq. reflexivity.
Qed.

(* a frozen environment: the same decisions, read off the frozen map *)
Lemma cache_loop_frozen_run : forall ops F ts,
  cache_loop ops (mkEnv false F) ts
  = (mkEnv false F, map (drop_if (fun t => existsb (fun o => cached_in F (name_of t) (fst o)) ops)) ts).
Proof.
  induction ops as [|[opIdx v] r IH]; intros F ts; simpl.
  - f_equal. rewrite <- (map_id ts) at 1. apply map_ext. intro; reflexivity.
  - rewrite IH. f_equal. rewrite map_map. apply map_ext. intro t.
    change (if is_cached (mkEnv false F) (name_of t) opIdx then set_deps t [] else t)
      with (drop_if (fun u => cached_in F (name_of u) opIdx) t).
    rewrite drop_if_compose by (intros; reflexivity). reflexivity.
Qed.

Lemma NoDup_app_tail {A} (l1 l2 : list A) : NoDup (l1 ++ l2) -> NoDup l2.
Proof. induction l1; simpl; auto. intro H; inversion H; auto. Qed.

Lemma NoDup_map_app_disjoint {A B} (f : A -> B) (x y : list A) :
  NoDup (map f (x ++ y)) -> forall u v, In u x -> In v y -> f u <> f v.
Proof.
  rewrite map_app. induction x as [|a x IH]; intros Nd u v Hu Hv; [contradiction|].
  simpl in Nd. inversion Nd as [|? ? Hn Nd']; subst. destruct Hu as [->|Hu].
  - intro E. apply Hn. apply in_app_iff. right. rewrite E. now apply in_map.
  - apply IH; auto.
Qed.

Lemma existsb_ext' {A} (f h : A -> bool) l : (forall x, In x l -> f x = h x) -> existsb f l = existsb h l.
Proof.
  induction l as [|a l IH]; intro H; simpl; auto.
  rewrite (H a) by (simpl; auto). rewrite IH; auto. intros; apply H; simpl; auto.
Qed.

Section Agree.
  Variables (g : list node) (inv : N) (mc : bool) (fixed : config).
  Variable init : list task.
  Notation n0 := (List.length init).
  Hypothesis Hwf : wf_dag g.
  Hypothesis Hclean : forall i, clean (nop (get_node g i)).

  (* what one call adds, and that it can be replayed under a frozen map that
     agrees with its final environment on the tasks it added *)
  Definition lock (run : cstate -> cres) (st st' : cstate) (ids : list nat) : Prop :=
    exists a marks,
      sstore st' = sstore st ++ a
      /\ ecached (senv st') = marks ++ ecached (senv st)
      /\ ewritable (senv st') = ewritable (senv st)
      /\ (forall k, In k marks -> exists t, In t a /\ fst k = name_of t)
      /\ forall F, agree F (senv st') a -> run (with_env st F) = COk (with_env st' F) ids.

  (* the tasks added by one call are all new names: marks made for other tasks
     do not answer for them *)
  Lemma agree_shrink F st1 st2 (a1 a2 : list task) marks2 A0 :
    sstore st2 = init ++ A0 ++ a1 ++ a2 ->
    NoDup (map opshard (A0 ++ a1 ++ a2)) ->
    ecached (senv st2) = marks2 ++ ecached (senv st1) ->
    (forall k, In k marks2 -> exists t, In t a2 /\ fst k = name_of t) ->
    agree F (senv st2) (a1 ++ a2) -> agree F (senv st1) a1.
  Proof.
    intros Es Nd He Hm Ag t Ht op.
    rewrite (Ag t (in_or_app _ _ _ (or_introl Ht)) op).
    rewrite !is_cached_in, He, cached_in_app.
    rewrite (cached_in_false marks2); [reflexivity|].
    intros k Hk Ek. destruct (Hm k Hk) as (u & Hu & Hname). subst k. simpl in Hname.
    assert (Nd' : NoDup (map opshard (a1 ++ a2))).
    { rewrite map_app in Nd. apply NoDup_app_tail in Nd. exact Nd. }
    apply (NoDup_map_app_disjoint opshard a1 a2 Nd' t u Ht Hu).
    unfold opshard. unfold name_of in Hname. inversion Hname. reflexivity.
  Qed.

  Notation cmp := (compile g inv mc fixed).

  Lemma inv_names_split st st' a A0 :
    sstore st = init ++ A0 -> sstore st' = sstore st ++ a -> inv_names init st' ->
    NoDup (map opshard (A0 ++ a)).
  Proof.
    intros E0 E1 (A' & EA & Nd & _). rewrite E1, E0, <- app_assoc in EA.
    apply app_inv_head in EA. now subst A'.
  Qed.

  Definition rec_lock (f i : nat) : Prop :=
    forall j q s s' l, j < i -> inv_names init s -> cmp f j q s = COk s' l -> lock (cmp f j q) s s' l.

  Lemma rec_names_cmp f i : i <= f -> rec_names init (cmp f) i.
  Proof.
    intros Hi j q s1 s2 l Hj I R. unfold post_n.
    eapply (compile_names g inv mc fixed init Hwf Hclean f j q); eauto. lia.
  Qed.

  Definition dlock (run : cstate -> dres) (st st2 : cstate) (ds : list dspec) : Prop :=
    exists a marks,
      sstore st2 = sstore st ++ a
      /\ ecached (senv st2) = marks ++ ecached (senv st)
      /\ ewritable (senv st2) = ewritable (senv st)
      /\ (forall k, In k marks -> exists t, In t a /\ fst k = name_of t)
      /\ forall F, agree F (senv st2) a -> run (with_env st F) = DOk (with_env st2 F) ds.

  Lemma compile_deps_lock f i n comb ck : i <= f -> rec_lock f i ->
    forall l st st2 ds,
      (forall d, In d l -> dtarget d < i) -> inv_names init st ->
      compile_deps (cmp f) n comb ck l st = DOk st2 ds ->
      dlock (compile_deps (cmp f) n comb ck l) st st2 ds.
  Proof.
    intros Hif Hrec. induction l as [|d l IH]; intros st st2 ds Hlt I H.
    - simpl in H. inversion H; subst. exists [], []. rewrite app_nil_r. repeat split; auto.
      intros k [].
    - assert (Hd : dtarget d < i) by (apply Hlt; simpl; auto).
      assert (Hl : forall d', In d' l -> dtarget d' < i) by (intros; apply Hlt; simpl; auto).
      pose proof (rec_names_cmp f i Hif) as Hrn.
      destruct I as (A0 & E0 & Nd0 & Fm0). pose proof (ex_intro _ A0 (conj E0 (conj Nd0 Fm0)) : inv_names init st) as I.
      (* the first dependency, then the rest; [q] is the partitioner of the first *)
      assert (Step : forall q st1 ids1 (K : list dspec -> list dspec),
                cmp f (dtarget d) q st = COk st1 ids1 ->
                forall l0, compile_deps (cmp f) n comb ck l st1 = DOk st2 l0 -> ds = K l0 ->
                (forall F, cmp f (dtarget d) q (with_env st F) = COk (with_env st1 F) ids1 ->
                           compile_deps (cmp f) n comb ck l (with_env st1 F) = DOk (with_env st2 F) l0 ->
                           compile_deps (cmp f) n comb ck (d :: l) (with_env st F) = DOk (with_env st2 F) (K l0)) ->
                dlock (compile_deps (cmp f) n comb ck (d :: l)) st st2 ds).
      { intros q st1 ids1 K R l0 D -> Glue.
        destruct (Hrec _ _ _ _ _ Hd I R) as (a1 & m1 & S1 & C1 & W1 & K1 & L1).
        pose proof (Hrn _ _ _ _ _ Hd I R) as (I1 & _).
        destruct (IH _ _ _ Hl I1 D) as (a2 & m2 & S2 & C2 & W2 & K2 & L2).
        pose proof (compile_deps_names init (cmp f) i n comb ck Hrn _ _ _ _ Hl I1 D) as (I2 & _).
        exists (a1 ++ a2), (m2 ++ m1). split; [|split; [|split; [|split]]].
        - rewrite S2, S1. now rewrite app_assoc.
        - rewrite C2, C1. now rewrite app_assoc.
        - congruence.
        - intros k Hk. apply in_app_iff in Hk as [Hk|Hk].
          + destruct (K2 k Hk) as (t & Ht & E). exists t. split; auto. apply in_or_app; auto.
          + destruct (K1 k Hk) as (t & Ht & E). exists t. split; auto. apply in_or_app; auto.
        - intros F Ag. apply Glue.
          + apply L1. eapply (agree_shrink F st1 st2 a1 a2 m2 A0); eauto.
            * rewrite S2, S1, E0. now rewrite <- !app_assoc.
            * eapply (inv_names_split st st2 (a1 ++ a2) A0); eauto. rewrite S2, S1. now rewrite app_assoc.
          + apply L2. intros t Ht. apply Ag. apply in_or_app; auto. }
      simpl in H. destruct (dshuffle d) eqn:S.
      + destruct (cmp f (dtarget d) (mkPart n (dcustom d) comb ck) st) as [st1 ids1|] eqn:R; [|discriminate].
        assert (H' : match compile_deps (cmp f) n comb ck l st1 with
                     | DOk st2 l0 => DOk st2 (DShuf (hd 0 ids1) (dexpand d) ck :: l0)
                     | DFail e => DFail e end = DOk st2 ds
                     /\ (ids1 = [] -> n = 0)).
        { destruct ids1; [destruct n; [split; auto|discriminate]|split; [exact H|discriminate]]. }
        destruct H' as [H' Hz]. clear H.
        destruct (compile_deps (cmp f) n comb ck l st1) as [st2' l0|] eqn:D; [|discriminate].
        inversion H'; subst st2' ds. clear H'.
        eapply (Step _ st1 ids1 (fun l0 => DShuf (hd 0 ids1) (dexpand d) ck :: l0) R l0 D); auto.
        intros F L1 L2. simpl. rewrite S, L1.
        destruct ids1; [rewrite (Hz eq_refl) in *|]; rewrite L2; reflexivity.
      + destruct (cmp f (dtarget d) part0 st) as [st1 ids1|] eqn:R; [|discriminate].
        destruct (negb (List.length ids1 =? n)) eqn:Len; [discriminate|].
        destruct (compile_deps (cmp f) n comb ck l st1) as [st2' l0|] eqn:D; [|discriminate].
        inversion H; subst st2' ds. clear H.
        eapply (Step _ st1 ids1 (fun l0 => DPer ids1 (dexpand d) :: l0) R l0 D); auto.
        intros F L1 L2. simpl. rewrite S, L1, Len, L2. reflexivity.
  Qed.

  Lemma compile_result_env rts p st e :
    compile_result inv fixed rts p (mkSt (sstore st) (snamer st) (smemo st) e)
    = match compile_result inv fixed rts p st with
      | COk s' ids => COk (mkSt (sstore s') (snamer s') (smemo s') e) ids
      | CFail x => CFail x
      end.
  Proof.
    unfold compile_result. cbn [sstore snamer smemo senv].
    destruct (existsb _ rts); [reflexivity|].
    destruct (negb (is_shuffle p)); [reflexivity|].
    destruct rts; [reflexivity|]. destruct (namer_new _ _). reflexivity.
  Qed.

  Lemma compile_result_store rts p st st' ids :
    compile_result inv fixed rts p st = COk st' ids ->
    senv st' = senv st /\ exists a, sstore st' = sstore st ++ a.
  Proof.
    unfold compile_result.
    destruct (existsb _ rts); [discriminate|].
    destruct (negb (is_shuffle p)).
    - intro H; inversion H; subst. split; auto. exists []. now rewrite app_nil_r.
    - destruct rts; [discriminate|]. destruct (namer_new _ _).
      intro H; inversion H; subst. simpl. split; auto. eexists; reflexivity.
  Qed.

  Lemma result_lock rts p st st' ids :
    compile_result inv fixed rts p st = COk st' ids ->
    lock (compile_result inv fixed rts p) st st' ids.
  Proof.
    intro H. destruct (compile_result_store _ _ _ _ _ H) as (He & a & Hs).
    exists a, []. rewrite He. repeat split; auto.
    - intros k [].
    - intros F _. unfold with_env. rewrite compile_result_env, H. reflexivity.
  Qed.

  Lemma slices_lock f i p st st' ids : i <= f -> rec_lock f i ->
    inv_names init st -> nresult (get_node g i) = None ->
    compile_slices g inv mc (cmp f) i p st = COk st' ids ->
    lock (compile_slices g inv mc (cmp f) i p) st st' ids.
  Proof.
    intros Hif Hrec I R H.
    pose proof (rec_names_cmp f i Hif) as Hrn.
    pose proof (names_slices g inv mc init Hwf Hclean (cmp f) i p st st' ids Hrn I R H) as (I' & _).
    unfold compile_slices in H.
    destruct (pipeline (Datatypes.S (List.length g)) g i) as [slices|] eqn:P; [|discriminate].
    pose proof (pipeline_spec g Hwf _ _ _ P) as PS. rewrite R in PS.
    destruct PS as (r & Hsl & Hch & Hle & Hlast & Hall).
    destruct (namer_new (snamer st) (op_base g inv slices)) as [opn nm] eqn:Nm.
    set (lastn := get_node g (last slices i)) in *.
    set (n := nshard (get_node g i)) in *.
    set (ck := if ncomb lastn && mc then opn else ""%string) in *.
    set (st1 := mkSt (sstore st) nm (smemo st) (senv st)) in *.
    destruct (compile_deps (cmp f) n (ncomb lastn) ck (ndeps lastn) st1) as [st2 ds|] eqn:D; [|discriminate].
    set (ops := rev (combine (seq 0 (List.length slices)) (map (fun j => ncache (get_node g j)) slices))) in *.
    set (ts := stage_tasks inv opn n p ds (if is_shuffle p then seq (List.length (sstore st2)) n else []) slices) in *.
    destruct (cache_loop ops (senv st2) ts) as [env' ts'] eqn:CL.
    inversion H; subst st' ids; clear H.
    (* names: the state after minting is fine *)
    assert (I1 : inv_names init st1).
    { rewrite namer_new_spec in Nm. inversion Nm; subst opn nm.
      destruct I as (a & Ea & Nd & Fm). exists a. simpl. repeat split; auto.
      eapply Forall_impl; [|exact Fm]. intro t. apply minted_mono. intro x. apply namer_get_cons_mono. }
    assert (Hdl : forall d, In d (ndeps lastn) -> dtarget d < i).
    { intros d Hd. destruct (Hwf (last slices i)) as [Hw _]. destruct (Hw d Hd) as [Hlt _].
      assert (last slices i <= i). { apply Hle. rewrite Hsl. apply last_in. }
      lia. }
    destruct (compile_deps_lock f i n (ncomb lastn) ck Hif Hrec _ _ _ _ Hdl I1 D) as (ad & md & Sd & Cd & Wd & Kd & Ld).
    simpl in Sd, Cd, Wd.
    assert (NdOps : NoDup (map fst ops)).
    { unfold ops. rewrite map_rev. apply NoDup_rev.
      rewrite map_fst_combine by (rewrite seq_length, map_length; reflexivity). apply seq_NoDup. }
    destruct (cache_loop_writable ops (senv st2) ts env' ts' NdOps CL) as (ml & Cl & Wl & Kl & Tl).
    assert (Hnames : forall k, In k ml -> exists t, In t ts' /\ fst k = name_of t).
    { intros k Hk. destruct (Kl k Hk) as (_ & t & Ht & E).
      exists (drop_if (fun t => existsb (fun o => cached_in (ecached env') (name_of t) (fst o)) ops) t).
      split; [rewrite Tl; now apply in_map|].
      rewrite E. unfold drop_if. destruct (existsb _ ops); reflexivity. }
    exists (ad ++ ts'), (ml ++ md). simpl. split; [|split; [|split; [|split]]].
    - rewrite Sd. now rewrite app_assoc.
    - rewrite Cl, Cd. now rewrite app_assoc.
    - congruence.
    - intros k Hk. apply in_app_iff in Hk as [Hk|Hk].
      + destruct (Hnames k Hk) as (t & Ht & E). exists t. split; auto. apply in_or_app; auto.
      + destruct (Kd k Hk) as (t & Ht & E). exists t. split; auto. apply in_or_app; auto.
    - intros F Ag.
      destruct I as (A0 & E0 & Nd0 & Fm0).
      assert (NdAll : NoDup (map opshard (A0 ++ ad ++ ts'))).
      { eapply (inv_names_split st _ (ad ++ ts') A0); [exact E0| |exact I'].
        simpl. rewrite Sd. now rewrite app_assoc. }
      assert (Agd : agree F (senv st2) ad).
      { eapply (agree_shrink F st2 (mkSt (sstore st2 ++ ts') (snamer st2) (smemo st2) env') ad ts' ml A0); eauto.
        simpl. rewrite Sd, E0. now rewrite <- !app_assoc. }
      unfold compile_slices. simpl snamer. rewrite P, Nm.
      fold lastn. fold n. fold ck.
      change (mkSt (sstore (with_env st F)) nm (smemo (with_env st F)) (senv (with_env st F)))
        with (with_env st1 F).
      rewrite (Ld F Agd). simpl sstore. fold ops. fold ts. simpl senv.
      rewrite cache_loop_frozen_run.
      (* the decisions agree *)
      assert (Ets : map (drop_if (fun t => existsb (fun o => cached_in F (name_of t) (fst o)) ops)) ts = ts').
      { rewrite Tl. apply map_ext_in. intros t Ht. unfold drop_if.
        assert (Heq : existsb (fun o => cached_in F (name_of t) (fst o)) ops
                      = existsb (fun o => cached_in (ecached env') (name_of t) (fst o)) ops).
        { apply existsb_ext'. intros o _.
          assert (Hin : In (drop_if (fun t => existsb (fun o => cached_in (ecached env') (name_of t) (fst o)) ops) t) ts').
          { rewrite Tl. now apply in_map. }
          specialize (Ag _ (in_or_app _ _ _ (or_intror Hin)) (fst o)).
          simpl in Ag. rewrite is_cached_in in Ag.
          assert (Hn : name_of (drop_if (fun t => existsb (fun o => cached_in (ecached env') (name_of t) (fst o)) ops) t) = name_of t).
          { unfold drop_if. destruct (existsb _ ops); reflexivity. }
          rewrite Hn in Ag. exact Ag. }
        rewrite Heq. reflexivity. }
      rewrite Ets. reflexivity.
  Qed.

  Theorem lock_main : forall fuel i p st st' ids,
    i < fuel -> inv_names init st -> cmp fuel i p st = COk st' ids -> lock (cmp fuel i p) st st' ids.
  Proof.
    induction fuel as [|f IH]; intros i p st st' ids Hi I H; [lia|].
    assert (Hrec : rec_lock f i).
    { intros j q s s' l Hj Is R. apply IH; auto. lia. }
    simpl in H.
    destruct (negb (pcomb p) && negb (pcustom p)) eqn:M.
    - destruct (memo_get (smemo st) (i, pnum p)) as [m|] eqn:G.
      + inversion H; subst. exists [], []. rewrite app_nil_r. repeat split; auto.
        * intros k [].
        * intros F _. simpl. rewrite M. simpl. rewrite G. reflexivity.
      + destruct (nresult (get_node g i)) as [rts|] eqn:R.
        * destruct (compile_result inv fixed rts p st) as [s2 l|] eqn:C; [|discriminate].
          inversion H; subst st' ids; clear H.
          destruct (result_lock _ _ _ _ _ C) as (a & ms & S1 & C1 & W1 & K1 & L1).
          exists a, ms. simpl. repeat split; auto.
          intros F Ag. simpl. rewrite M. simpl. rewrite G, R. rewrite (L1 F Ag). reflexivity.
        * destruct (compile_slices g inv mc (cmp f) i p st) as [s2 l|] eqn:C; [|discriminate].
          inversion H; subst st' ids; clear H.
          destruct (slices_lock f i p st s2 l ltac:(lia) Hrec I R C) as (a & ms & S1 & C1 & W1 & K1 & L1).
          exists a, ms. simpl. repeat split; auto.
          intros F Ag. simpl. rewrite M. simpl. rewrite G, R. rewrite (L1 F Ag). reflexivity.
    - destruct (nresult (get_node g i)) as [rts|] eqn:R.
      + destruct (compile_result inv fixed rts p st) as [s2 l|] eqn:C; [|discriminate].
        inversion H; subst st' ids; clear H.
        destruct (result_lock _ _ _ _ _ C) as (a & ms & S1 & C1 & W1 & K1 & L1).
        exists a, ms. repeat split; auto.
        intros F Ag. simpl. rewrite M, R. rewrite (L1 F Ag). reflexivity.
      + destruct (compile_slices g inv mc (cmp f) i p st) as [s2 l|] eqn:C; [|discriminate].
        inversion H; subst st' ids; clear H.
        destruct (slices_lock f i p st s2 l ltac:(lia) Hrec I R C) as (a & ms & S1 & C1 & W1 & K1 & L1).
        exists a, ms. repeat split; auto.
        intros F Ag. simpl. rewrite M, R. rewrite (L1 F Ag). reflexivity.
  Qed.
End Agree.

(* ================= the driver and the holder of its frozen environment ================= *)
Theorem driver_frozen_agree : forall g g' inv mc fixed init env st roots,
  wf_dag g -> (forall i, clean (nop (get_node g i))) -> same_but_cache g g' ->
  compile_gen fixed g inv mc init env = COk st roots ->
  compile_gen fixed g' inv mc init (freeze (senv st))
  = COk (mkSt (sstore st) (snamer st) (smemo st) (freeze (senv st))) roots.
Proof.
  intros g g' inv mc fixed init env st roots Hwf Hclean Hsame Hc.
  rewrite <- (compile_env_frozen g g' inv mc fixed Hsame init (freeze (senv st)) eq_refl).
  unfold compile_gen in *.
  assert (I0 : inv_names init (init_state init env)).
  { exists []. simpl. split; [now rewrite app_nil_r|]. split; constructor. }
  assert (Hlt : pred (List.length g) < S (List.length g)) by lia.
  destruct (lock_main g inv mc fixed init Hwf Hclean _ _ _ _ _ _ Hlt I0 Hc) as (a & marks & _ & _ & _ & _ & L).
  apply (L (ecached (senv st))).
  intros t _ op. reflexivity.
Qed.

(* ---- the code's configuration ---- *)
(* a frozen transport: every worker compiles the driver's graph, whatever its
   caches say *)
Theorem worker_agrees_gen : forall g g' inv mc fixed init st roots,
  wf_dag g -> (forall i, clean (nop (get_node g i))) -> same_but_cache g g' ->
  compile_gen fixed g inv mc init empty_env = COk st roots ->
  compile_gen fixed g' inv mc init (transported_env_gen true empty_env (senv st))
  = COk (mkSt (sstore st) (snamer st) (smemo st) (freeze (senv st))) roots.
Proof.
  intros g g' inv mc fixed init st roots Hwf Hclean Hsame Hc.
  exact (driver_frozen_agree g g' inv mc fixed init empty_env st roots Hwf Hclean Hsame Hc).
Qed.

(* the code as it is: the graph a worker compiles from the transported
   invocation is the driver's graph *)
Theorem worker_graph_is_driver_graph : forall g g' inv mc init st roots,
  wf_dag g -> (forall i, clean (nop (get_node g i))) -> same_but_cache g g' ->
  compile_top g inv mc init empty_env = COk st roots ->
  compile_top g' inv mc init (transported_env empty_env (senv st))
  = COk (mkSt (sstore st) (snamer st) (smemo st) (freeze (senv st))) roots.
Proof.
  intros g g' inv mc init st roots Hwf Hclean Hsame Hc.
  unfold transported_env. rewrite code_transport_freezes.
  exact (worker_agrees_gen g g' inv mc code_config init st roots Hwf Hclean Hsame Hc).
Qed.

(* C08 — facts about the strings minted by the task namer: "%s%d" is injective
   on (base, counter) as long as the base does not end in a digit. *)
From Coq Require Import List String Ascii NArith Arith Bool Lia DecimalString DecimalNat DecimalN.
Import ListNotations.
Require Import BS.C08.Model.
Local Open Scope string_scope.
Local Open Scope nat_scope.

Definition is_digit (a : ascii) : bool := (48 <=? nat_of_ascii a) && (nat_of_ascii a <=? 57).

Fixpoint all_digits (s : string) : bool :=
  match s with
  | EmptyString => true
  | String a r => is_digit a && all_digits r
  end.

Fixpoint last_char (s : string) : option ascii :=
  match s with
  | EmptyString => None
  | String a r => match r with EmptyString => Some a | _ => last_char r end
  end.

(* a name that does not end in a digit (the empty name included) *)
Definition clean (s : string) : Prop :=
  match last_char s with Some a => is_digit a = false | None => True end.

Lemma append_nil_r : forall s, s ++ "" = s.
Proof. induction s; simpl; congruence. Qed.

Lemma append_assoc : forall a b c : string, (a ++ b) ++ c = a ++ (b ++ c).
Proof. induction a; simpl; intros; congruence. Qed.

Lemma last_char_app : forall s t, t <> "" -> last_char (s ++ t) = last_char t.
Proof.
  induction s as [|a s IH]; intros t Ht; simpl; auto.
  rewrite IH by auto.
  destruct (s ++ t) eqn:E; auto.
  destruct s; simpl in E; [congruence | discriminate].
Qed.

Lemma last_char_app_nil : forall s, last_char (s ++ "") = last_char s.
Proof. intro s; now rewrite append_nil_r. Qed.

Lemma clean_tail : forall a s, clean (String a s) -> clean s.
Proof.
  unfold clean; intros a s H. simpl in H. destruct s; simpl; auto.
Qed.

Lemma all_digits_last : forall s t c,
  all_digits (s ++ t) = true -> last_char s = Some c -> is_digit c = true.
Proof.
  induction s as [|a s IH]; intros t c H L; simpl in *; try discriminate.
  apply andb_true_iff in H as [Ha Hs].
  destruct s.
  - inversion L; subst; auto.
  - eapply IH; eauto.
Qed.

(* the decomposition base ++ digits is unique when the base is clean *)
Lemma clean_split_unique : forall b1 b2 d1 d2,
  clean b1 -> clean b2 -> all_digits d1 = true -> all_digits d2 = true ->
  b1 ++ d1 = b2 ++ d2 -> b1 = b2 /\ d1 = d2.
Proof.
  induction b1 as [|a b1 IH]; intros b2 d1 d2 C1 C2 D1 D2 E.
  - destruct b2 as [|a2 b2]; simpl in *; auto.
    exfalso. subst d1.
    assert (exists c, last_char (String a2 b2) = Some c) as [c Hc].
    { clear. revert a2; induction b2; intro a2; simpl; eauto. }
    unfold clean in C2. rewrite Hc in C2.
    assert (is_digit c = true) by (eapply (all_digits_last (String a2 b2) d2); eauto).
    congruence.
  - destruct b2 as [|a2 b2]; simpl in *.
    + exfalso. subst d2.
      assert (exists c, last_char (String a b1) = Some c) as [c Hc].
      { clear. revert a; induction b1; intro a0; simpl; eauto. }
      unfold clean in C1. rewrite Hc in C1.
      assert (is_digit c = true) by (eapply (all_digits_last (String a b1) d1); eauto).
      congruence.
    + inversion E; subst.
      destruct (IH b2 d1 d2) as [-> ->]; auto; eapply clean_tail; eauto.
Qed.

(* ---- decimal numerals ---- *)
Lemma string_of_uint_digits : forall d, all_digits (NilEmpty.string_of_uint d) = true.
Proof. induction d; simpl; auto. Qed.

Lemma dec_digits : forall n, all_digits (dec n) = true.
Proof. intro; apply string_of_uint_digits. Qed.

Lemma dec_inj : forall n m, dec n = dec m -> n = m.
Proof.
  unfold dec; intros n m E.
  assert (Some (Nat.to_uint n) = Some (Nat.to_uint m)) as E'.
  { rewrite <- !NilEmpty.usu. now rewrite E. }
  inversion E' as [E2].
  rewrite <- (DecimalNat.Unsigned.of_to n), <- (DecimalNat.Unsigned.of_to m). now rewrite E2.
Qed.

Lemma dec_nonempty : forall n, dec n <> "".
Proof.
  unfold dec; intros n E.
  assert (Some (Nat.to_uint n) = Some Decimal.Nil) as E'.
  { rewrite <- NilEmpty.usu. rewrite E. reflexivity. }
  inversion E' as [E2].
  pose proof (DecimalNat.Unsigned.of_to n) as H. rewrite E2 in H. simpl in H. subst n. discriminate.
Qed.

(* ---- render ---- *)
Definition suffix (c : nat) : string := if c =? 0 then "" else dec c.

Lemma render_suffix : forall s c, render s c = s ++ suffix c.
Proof. unfold render, suffix; intros; destruct (c =? 0); auto using append_nil_r. Qed.

Lemma suffix_digits : forall c, all_digits (suffix c) = true.
Proof. unfold suffix; intro c; destruct (c =? 0); auto using dec_digits. Qed.

Lemma suffix_inj : forall c1 c2, suffix c1 = suffix c2 -> c1 = c2.
Proof.
  unfold suffix; intros c1 c2.
  destruct (c1 =? 0) eqn:E1, (c2 =? 0) eqn:E2; intro H.
  - apply Nat.eqb_eq in E1, E2; congruence.
  - symmetry in H; now apply dec_nonempty in H.
  - now apply dec_nonempty in H.
  - now apply dec_inj.
Qed.

Theorem render_inj : forall b1 b2 c1 c2,
  clean b1 -> clean b2 -> render b1 c1 = render b2 c2 -> b1 = b2 /\ c1 = c2.
Proof.
  intros b1 b2 c1 c2 C1 C2 E. rewrite !render_suffix in E.
  destruct (clean_split_unique b1 b2 (suffix c1) (suffix c2)) as [-> S]; auto using suffix_digits.
  split; auto using suffix_inj.
Qed.

(* ---- the bases handed to the namer are clean ---- *)
Lemma clean_app_r : forall s t, t <> "" -> clean t -> clean (s ++ t).
Proof. unfold clean; intros; now rewrite last_char_app. Qed.

Lemma clean_shuffle : forall s, clean (s ++ "_shuffle").
Proof. intro s; apply clean_app_r; [discriminate | unfold clean; simpl; reflexivity]. Qed.

Lemma clean_underscore : forall s, clean (s ++ "_").
Proof. intro s; apply clean_app_r; [discriminate | unfold clean; simpl; reflexivity]. Qed.

(* strings.Join(xs ++ [z], "_") ends like z, or in "_" *)
Lemma clean_concat_last : forall (l : list string) (z : string),
  clean z -> l <> [] -> clean (String.concat "_" (l ++ [z])).
Proof.
  assert (G : forall p z, clean z -> clean (p ++ "_" ++ z)).
  { intros p z Cz. destruct z as [|a z].
    - apply clean_underscore.
    - rewrite <- append_assoc. apply clean_app_r; [discriminate | auto]. }
  induction l as [|x l IH]; intros z Cz Hne; [congruence|].
  destruct l as [|y l].
  - apply (G x z Cz).
  - change (String.concat "_" ((x :: y :: l) ++ [z]))
      with (x ++ "_" ++ String.concat "_" ((y :: l) ++ [z])).
    apply G. apply IH; [auto | discriminate].
Qed.

(* ---- the base of re-shuffle task names, in both namings ---- *)
Lemma append_nonempty_r : forall s t, t <> "" -> s ++ t <> "".
Proof. intros [|a s] t H; simpl; [auto|discriminate]. Qed.

Lemma clean_shuffle_base : forall inv fixed op, clean (shuffle_base inv fixed op).
Proof.
  intros inv fixed op. unfold shuffle_base, shuffle_base_inv, shuffle_base_old.
  destruct (cfg_named_by_inv fixed); [|apply clean_shuffle].
  assert (N1 : op ++ "_shuffle" <> "") by (apply append_nonempty_r; discriminate).
  assert (N2 : "_" ++ op ++ "_shuffle" <> "") by discriminate.
  assert (N3 : decN inv ++ "_" ++ op ++ "_shuffle" <> "") by (apply append_nonempty_r; exact N2).
  apply clean_app_r; [exact N3|]. apply clean_app_r; [exact N2|].
  apply clean_app_r; [exact N1|]. apply clean_shuffle.
Qed.

(* ---- operation names carry the invocation index ---- *)
Definition inv_prefix (inv : N) : string := "inv" ++ decN inv ++ "_".
Definition prefixed (inv : N) (s : string) : Prop := exists rest, s = inv_prefix inv ++ rest.

Lemma prefixed_render inv b c : prefixed inv b -> prefixed inv (render b c).
Proof. intros [rest ->]. rewrite render_suffix, append_assoc. now exists (rest ++ suffix c). Qed.

Lemma prefixed_shuffle_base_inv inv op : prefixed inv (shuffle_base_inv inv op).
Proof.
  unfold shuffle_base_inv, prefixed, inv_prefix. exists (op ++ "_shuffle").
  now rewrite !append_assoc.
Qed.

Lemma decN_digits n : all_digits (decN n) = true.
Proof. apply string_of_uint_digits. Qed.

Lemma decN_inj n m : decN n = decN m -> n = m.
Proof.
  unfold decN; intro E.
  assert (Some (N.to_uint n) = Some (N.to_uint m)) as E'.
  { rewrite <- !NilEmpty.usu. now rewrite E. }
  inversion E' as [E2].
  rewrite <- (DecimalN.Unsigned.of_to n), <- (DecimalN.Unsigned.of_to m). now rewrite E2.
Qed.

Lemma digits_underscore_split : forall d1 d2 x y,
  all_digits d1 = true -> all_digits d2 = true -> d1 ++ "_" ++ x = d2 ++ "_" ++ y -> d1 = d2.
Proof.
  induction d1 as [|a d1 IH]; intros [|b d2] x y D1 D2 E; simpl in *; auto.
  - inversion E; subst. apply andb_true_iff in D2 as [D _]. discriminate.
  - inversion E; subst. apply andb_true_iff in D1 as [D _]. discriminate.
  - inversion E; subst. apply andb_true_iff in D1 as [_ D1]. apply andb_true_iff in D2 as [_ D2].
    f_equal. eapply IH; eauto.
Qed.

(* names of different invocations never coincide *)
Theorem prefixed_disjoint : forall i j s, prefixed i s -> prefixed j s -> i = j.
Proof.
  intros i j s [x ->] [y E]. unfold inv_prefix in E. rewrite !append_assoc in E.
  simpl in E. inversion E as [E'].
  apply decN_inj. apply (digits_underscore_split (decN i) (decN j) x y); auto using decN_digits.
Qed.

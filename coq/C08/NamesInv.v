(* C08 — the names minted during one compilation are pairwise distinct. *)
From Coq Require Import List String NArith Arith Bool Lia.
Import ListNotations.
Require Import BS.C08.Model BS.C08.Ind BS.C08.Names BS.C08.Shape.
Local Open Scope nat_scope.

(* ---- the namer ---- *)
Lemma namer_new_spec nm b :
  namer_new nm b = (render b (namer_get nm b), (b, S (namer_get nm b)) :: nm).
Proof. reflexivity. Qed.

Lemma namer_get_cons_eq nm b c : namer_get ((b, c) :: nm) b = c.
Proof. simpl. now rewrite String.eqb_refl. Qed.

Lemma namer_get_cons_mono nm b b' : namer_get nm b' <= namer_get ((b, S (namer_get nm b)) :: nm) b'.
Proof.
  simpl. destruct (String.eqb b b') eqn:E; [|lia].
  apply String.eqb_eq in E. subst. lia.
Qed.

Definition opshard (t : task) : string * nat := (top t, tshard t).

Definition minted (nm : list (string * nat)) (t : task) : Prop :=
  exists b c, clean b /\ top t = render b c /\ c < namer_get nm b.

Definition fresh_in (nm nm' : list (string * nat)) (t : task) : Prop :=
  exists b c, clean b /\ top t = render b c /\ namer_get nm b <= c < namer_get nm' b.

Definition nm_le (nm nm' : list (string * nat)) : Prop := forall b, namer_get nm b <= namer_get nm' b.

Lemma nm_le_refl nm : nm_le nm nm.
Proof. intro; lia. Qed.
Lemma nm_le_trans a b c : nm_le a b -> nm_le b c -> nm_le a c.
Proof. intros H1 H2 x. specialize (H1 x). specialize (H2 x). lia. Qed.

Lemma minted_mono nm nm' t : nm_le nm nm' -> minted nm t -> minted nm' t.
Proof. intros L (b & c & A & B & C). exists b, c. specialize (L b). repeat split; auto. lia. Qed.

Lemma fresh_in_widen a b c d t : nm_le a b -> nm_le c d -> fresh_in b c t -> fresh_in a d t.
Proof.
  intros L1 L2 (x & k & A & B & C). exists x, k. specialize (L1 x). specialize (L2 x).
  repeat split; auto; lia.
Qed.

Lemma fresh_minted nm nm' t : fresh_in nm nm' t -> minted nm' t.
Proof. intros (b & c & A & B & C). exists b, c. repeat split; auto; lia. Qed.

(* a name minted now is used by no task named earlier, nor by one named later *)
Lemma minted_other nm b t : clean b -> minted nm t -> top t <> render b (namer_get nm b).
Proof.
  intros Cb (b' & c & A & B & C) E. rewrite B in E.
  destruct (render_inj _ _ _ _ A Cb E) as [-> ->]. lia.
Qed.

Lemma fresh_other nm nm' b k t : clean b -> k < namer_get nm b -> fresh_in nm nm' t -> top t <> render b k.
Proof.
  intros Cb Hk (b' & c & A & B & C) E. rewrite B in E.
  destruct (render_inj _ _ _ _ A Cb E) as [-> ->]. lia.
Qed.

Lemma NoDup_app_intro {A} (l1 l2 : list A) :
  NoDup l1 -> NoDup l2 -> (forall x, In x l1 -> In x l2 -> False) -> NoDup (l1 ++ l2).
Proof.
  induction l1 as [|a l1 IH]; intros H1 H2 D; simpl; auto.
  inversion H1; subst. constructor.
  - rewrite in_app_iff. intros [H|H]; [auto|]. eapply D; simpl; eauto.
  - apply IH; auto. intros x Hx Hy. eapply D; simpl; eauto.
Qed.

Section NamesInv.
  Variables (g : list node) (inv : N) (mc : bool) (fixed : config).
  Variable init : list task.
  Notation n0 := (List.length init).

  Hypothesis Hwf : wf_dag g.
  (* no operation name ends in a digit *)
  Hypothesis Hclean : forall i, clean (nop (get_node g i)).

  Definition inv_names (st : cstate) : Prop :=
    exists a, sstore st = init ++ a /\ NoDup (map opshard a) /\ Forall (minted (snamer st)) a.

  Definition post_names (st st' : cstate) : Prop :=
    inv_names st' /\ nm_le (snamer st) (snamer st')
    /\ exists a', sstore st' = sstore st ++ a' /\ Forall (fresh_in (snamer st) (snamer st')) a'.

  Lemma post_names_refl st : inv_names st -> post_names st st.
  Proof.
    intro I. split; [auto|]. split; [apply nm_le_refl|]. exists []. now rewrite app_nil_r.
  Qed.

  Lemma post_names_trans a b c : post_names a b -> post_names b c -> post_names a c.
  Proof.
    intros (_ & L1 & x & Ex & Fx) (I & L2 & y & Ey & Fy).
    split; [auto|]. split; [eapply nm_le_trans; eauto|].
    exists (x ++ y). split; [rewrite Ey, Ex; now rewrite app_assoc|].
    apply Forall_app. split.
    - eapply Forall_impl; [|exact Fx]. intros t. apply fresh_in_widen; [apply nm_le_refl|auto].
    - eapply Forall_impl; [|exact Fy]. intros t. apply fresh_in_widen; [auto|apply nm_le_refl].
  Qed.

  (* pushing one stage: all tasks carry the freshly minted name, shards differ *)
  Lemma push_stage st b (ts : list task) nm2 env memo' a2 :
    clean b ->
    (* the state when the name was minted *)
    inv_names st ->
    (* what happened between minting and pushing *)
    nm_le ((b, S (namer_get (snamer st) b)) :: snamer st) nm2 ->
    Forall (fresh_in ((b, S (namer_get (snamer st) b)) :: snamer st) nm2) a2 ->
    NoDup (map opshard (skipn n0 (sstore st ++ a2))) ->
    Forall (fun t => top t = render b (namer_get (snamer st) b)) ts ->
    NoDup (map tshard ts) ->
    post_names st (mkSt ((sstore st ++ a2) ++ ts) nm2 memo' env).
  Proof.
    intros Cb (a & Ea & Nd & Fm) L F2 Nd2 Ftop Nsh.
    set (k := namer_get (snamer st) b) in *.
    set (nm1 := (b, S k) :: snamer st) in *.
    assert (L01 : nm_le (snamer st) nm1) by (intro x; apply namer_get_cons_mono).
    assert (Hk1 : namer_get nm1 b = S k) by apply namer_get_cons_eq.
    assert (Sk : skipn n0 (sstore st ++ a2) = a ++ a2).
    { rewrite Ea, <- app_assoc. rewrite skipn_app, skipn_all, Nat.sub_diag. reflexivity. }
    rewrite Sk in Nd2.
    split; [|split].
    - exists ((a ++ a2) ++ ts). simpl. split; [rewrite Ea; now rewrite !app_assoc|]. split.
      + rewrite map_app. apply NoDup_app_intro; auto.
        * (* shards differ within the stage *)
          clear - Ftop Nsh. induction ts as [|t ts IH]; simpl; [constructor|].
          inversion Ftop; subst. inversion Nsh; subst. constructor; auto.
          intro Hin. apply in_map_iff in Hin as (u & Hu & Hin).
          unfold opshard in Hu. inversion Hu. apply H3. apply in_map_iff. exists u. auto.
        * (* the name is used by nobody else *)
          intros x Hx Hy.
          apply in_map_iff in Hx as (u & <- & Hu). apply in_map_iff in Hy as (v & Hv & Hvin).
          rewrite Forall_forall in Ftop. specialize (Ftop v Hvin).
          unfold opshard in Hv. inversion Hv as [[Htop Hsh]].
          apply in_app_iff in Hu as [Hu|Hu].
          -- rewrite Forall_forall in Fm. apply (minted_other _ b u Cb (Fm u Hu)). fold k. congruence.
          -- rewrite Forall_forall in F2.
             apply (fresh_other nm1 nm2 b k u Cb); [lia|auto|congruence].
      + simpl. apply Forall_app. split; [apply Forall_app; split|].
        * eapply Forall_impl; [|exact Fm]. intro t. apply minted_mono. eapply nm_le_trans; eauto.
        * eapply Forall_impl; [|exact F2]. intro t. apply fresh_minted.
        * eapply Forall_impl; [|exact Ftop]. intros t Ht. exists b, k. repeat split; auto.
          specialize (L b). lia.
    - simpl. eapply nm_le_trans; eauto.
    - exists (a2 ++ ts). simpl. split; [now rewrite app_assoc|].
      apply Forall_app. split.
      + eapply Forall_impl; [|exact F2]. intro t. apply fresh_in_widen; [auto|apply nm_le_refl].
      + eapply Forall_impl; [|exact Ftop]. intros t Ht. exists b, k. repeat split; auto.
        specialize (L b). lia.
  Qed.

  Lemma inv_names_irrel a b : sstore a = sstore b -> snamer a = snamer b -> inv_names a -> inv_names b.
  Proof. unfold inv_names. intros -> ->. auto. Qed.

  Lemma post_names_irrel st a b : sstore a = sstore b -> snamer a = snamer b -> post_names st a -> post_names st b.
  Proof. unfold post_names, inv_names. intros -> ->. auto. Qed.

  Lemma inv_names_nodup st : inv_names st -> NoDup (map opshard (skipn n0 (sstore st))).
  Proof.
    intros (a & -> & Nd & _). now rewrite skipn_app, skipn_all, Nat.sub_diag.
  Qed.

  (* ================= obligations of compile_ind ================= *)
  Definition pre_n (i : nat) (p : part) (st : cstate) : Prop := inv_names st.
  Definition post_n (i : nat) (p : part) (st st' : cstate) (ids : list nat) : Prop := post_names st st'.

  Lemma names_result : forall i p st rts st' ids,
    pre_n i p st -> nresult (get_node g i) = Some rts ->
    compile_result inv fixed rts p st = COk st' ids -> post_n i p st st' ids.
  Proof.
    intros i p st rts st' ids I R H. unfold compile_result in H.
    destruct (existsb _ rts); [discriminate|].
    destruct (negb (is_shuffle p)).
    { inversion H; subst. apply post_names_refl; auto. }
    destruct rts as [|r0 rts']; [discriminate|].
    remember (r0 :: rts') as rts eqn:Erts.
    set (b := shuffle_base inv fixed (top (get_task (sstore st) r0))) in *.
    rewrite namer_new_spec in H. inversion H; subst st' ids; clear H.
    pose proof (push_stage st b
      (reshuffle_tasks inv fixed (sstore st) (render b (namer_get (snamer st) b)) p rts
                       (seq (List.length (sstore st)) (List.length rts)))
      ((b, S (namer_get (snamer st) b)) :: snamer st) (senv st) (smemo st) []) as PS.
    rewrite app_nil_r in PS. apply PS; auto.
    - apply clean_shuffle_base.
    - apply nm_le_refl.
    - apply inv_names_nodup; auto.
    - unfold reshuffle_tasks. apply Forall_forall. intros t Ht.
      apply in_map_iff in Ht as (x & <- & _). reflexivity.
    - unfold reshuffle_tasks. rewrite map_map. simpl.
      assert (G : forall (l : list nat) a, NoDup (map (fun x : nat * nat => fst x) (combine (seq a (List.length l)) l))).
      { induction l as [|y l IHl]; intro a; simpl; constructor; auto.
        intro Hin. apply in_map_iff in Hin as ([u v] & Hu & Hin). simpl in Hu. subst u.
        apply in_combine_l in Hin. apply in_seq in Hin. lia. }
      apply G.
  Qed.

  Definition rec_names (rec : nat -> part -> cstate -> cres) (i : nat) : Prop :=
    forall j q s1 s2 l, j < i -> pre_n j q s1 -> rec j q s1 = COk s2 l -> post_n j q s1 s2 l.

  Lemma compile_deps_names : forall rec i n comb ck,
    rec_names rec i ->
    forall l st st2 ds,
      (forall d, In d l -> dtarget d < i) -> inv_names st ->
      compile_deps rec n comb ck l st = DOk st2 ds -> post_names st st2.
  Proof.
    intros rec i n comb ck Hrec. induction l as [|d l IH]; intros st st2 ds Hlt I H; simpl in H.
    - inversion H; subst. apply post_names_refl; auto.
    - assert (Hd : dtarget d < i) by (apply Hlt; simpl; auto).
      assert (Hl : forall d', In d' l -> dtarget d' < i) by (intros; apply Hlt; simpl; auto).
      destruct (dshuffle d).
      + destruct (rec (dtarget d) (mkPart n (dcustom d) comb ck) st) as [st1 ids|] eqn:R; [|discriminate].
        pose proof (Hrec _ _ _ _ _ Hd I R) as P1.
        assert (H' : match compile_deps rec n comb ck l st1 with
                     | DOk st2 l0 => DOk st2 (DShuf (hd 0 ids) (dexpand d) ck :: l0)
                     | DFail e => DFail e end = DOk st2 ds).
        { destruct ids; [destruct n; [exact H|discriminate]|exact H]. }
        clear H. destruct (compile_deps rec n comb ck l st1) as [st2' l0|] eqn:D; [|discriminate].
        inversion H'; subst st2' ds; clear H'.
        eapply post_names_trans; [exact P1|]. eapply IH; eauto. destruct P1; auto.
      + destruct (rec (dtarget d) part0 st) as [st1 ids|] eqn:R; [|discriminate].
        pose proof (Hrec _ _ _ _ _ Hd I R) as P1.
        destruct (negb (List.length ids =? n)); [discriminate|].
        destruct (compile_deps rec n comb ck l st1) as [st2' l0|] eqn:D; [|discriminate].
        inversion H; subst st2' ds; clear H.
        eapply post_names_trans; [exact P1|]. eapply IH; eauto. destruct P1; auto.
  Qed.

  Lemma clean_op_base slices i r : slices = i :: r -> clean (op_base g inv slices).
  Proof.
    intros ->. unfold op_base. simpl rev. rewrite map_app. simpl map.
    change (("inv" ++ decN inv)%string :: map (fun j => nop (get_node g j)) (rev r) ++ [nop (get_node g i)])
      with ((("inv" ++ decN inv)%string :: map (fun j => nop (get_node g j)) (rev r)) ++ [nop (get_node g i)]).
    apply clean_concat_last; [apply Hclean|discriminate].
  Qed.

  Lemma names_slices : forall rec i p st st' ids,
    rec_names rec i -> pre_n i p st -> nresult (get_node g i) = None ->
    compile_slices g inv mc rec i p st = COk st' ids -> post_n i p st st' ids.
  Proof.
    intros rec i p st st' ids Hrec I R H. unfold compile_slices in H.
    destruct (pipeline (Datatypes.S (List.length g)) g i) as [slices|] eqn:P; [|discriminate].
    pose proof (pipeline_spec g Hwf _ _ _ P) as PS. rewrite R in PS.
    destruct PS as (r & Hsl & Hch & Hle & Hlast & Hall).
    set (b := op_base g inv slices) in *.
    assert (Cb : clean b) by (eapply clean_op_base; eauto).
    rewrite namer_new_spec in H.
    set (k := namer_get (snamer st) b) in *.
    set (opn := render b k) in *.
    set (nm1 := (b, S k) :: snamer st) in *.
    set (lastn := get_node g (last slices i)) in *.
    set (n := nshard (get_node g i)) in *.
    set (ck := if ncomb lastn && mc then opn else ""%string) in *.
    set (st1 := mkSt (sstore st) nm1 (smemo st) (senv st)) in *.
    destruct (compile_deps rec n (ncomb lastn) ck (ndeps lastn) st1) as [st2 ds|] eqn:D; [|discriminate].
    destruct (cache_loop _ (senv st2) _) as [env' ts'] eqn:CL.
    inversion H; subst st' ids; clear H.
    pose proof (cache_loop_spec _ _ _ _ _ CL) as Hdrop.
    assert (I1 : inv_names st1).
    { destruct I as (a & Ea & Nd & Fm). exists a. simpl. repeat split; auto.
      eapply Forall_impl; [|exact Fm]. intro t. apply minted_mono. intro x. apply namer_get_cons_mono. }
    assert (Hdl : forall d, In d (ndeps lastn) -> dtarget d < i).
    { intros d Hd. destruct (Hwf (last slices i)) as [Hw _]. destruct (Hw d Hd) as [Hlt _].
      assert (last slices i <= i). { apply Hle. subst slices. apply last_in. }
      lia. }
    destruct (compile_deps_names rec i n (ncomb lastn) ck Hrec _ _ _ _ Hdl I1 D) as (I2 & L12 & a2 & E2 & F2).
    simpl in E2, L12, F2.
    unfold post_n. rewrite E2.
    apply (push_stage st b ts' (snamer st2) env' (smemo st2) a2); auto.
    - rewrite <- E2. apply inv_names_nodup; auto.
    - (* every task of the stage carries the minted name *)
      apply Forall_forall. intros t' Ht'. destruct (In_nth_error _ _ Ht') as [j Hj].
      destruct (Forall2_nth_error _ _ _ Hdrop j t' Hj) as (t & Ht & Hd).
      apply stage_tasks_nth in Ht as [_ ->]. apply dropped_fields in Hd. simpl in Hd.
      destruct Hd as (_ & A & _). exact A.
    - (* and its own shard number *)
      assert (G : map tshard ts' = seq 0 n).
      { clear - Hdrop. unfold stage_tasks in Hdrop.
        remember (seq 0 n) as l eqn:El. clear El.
        revert ts' Hdrop. induction l as [|x l IHl]; intros ts' Hd; simpl in Hd; inversion Hd; subst; simpl; auto.
        f_equal; [|apply IHl; auto].
        match goal with Hx : dropped _ _ |- _ => apply dropped_fields in Hx; simpl in Hx; tauto end. }
      rewrite G. apply seq_NoDup.
  Qed.

  Theorem compile_names : forall fuel i p st st' ids,
    i < fuel -> inv_names st ->
    compile g inv mc fixed fuel i p st = COk st' ids -> post_names st st'.
  Proof.
    intros fuel i p st st' ids Hi I H.
    refine (compile_ind g inv mc fixed pre_n post_n _ _ _ _ fuel i p st st' ids Hi I H).
    - intros. apply post_names_refl; auto.
    - apply names_result.
    - intros. eapply names_slices; eauto.
    - intros j q s1 s2 l _ Hp _. eapply post_names_irrel; [| |exact Hp]; reflexivity.
  Qed.

  (* ================= operation names carry the invocation index ================= *)
  Definition post_pref (i : nat) (p : part) (st st' : cstate) (ids : list nat) : Prop :=
    exists a, sstore st' = sstore st ++ a /\ Forall (fun t => prefixed inv (top t)) a.

  Hypothesis Hnamed : cfg_named_by_inv fixed = true.

  Lemma prefixed_op_base slices i r : slices = i :: r -> prefixed inv (op_base g inv slices).
  Proof.
    intros ->. unfold op_base, prefixed, inv_prefix. simpl rev. rewrite map_app. simpl map.
    destruct (map (fun j => nop (get_node g j)) (rev r) ++ [nop (get_node g i)]) as [|x l] eqn:E.
    - destruct (map _ (rev r)); discriminate.
    - exists (String.concat "_" (x :: l)). simpl. now rewrite !append_assoc.
  Qed.

  Lemma pref_deps : forall (rec : nat -> part -> cstate -> cres) i n comb ck,
    (forall j q s1 s2 l, j < i -> True -> rec j q s1 = COk s2 l -> post_pref j q s1 s2 l) ->
    forall l st st2 ds, (forall d, In d l -> dtarget d < i) ->
      compile_deps rec n comb ck l st = DOk st2 ds ->
      exists a, sstore st2 = sstore st ++ a /\ Forall (fun t => prefixed inv (top t)) a.
  Proof.
    intros rec i n comb ck Hrec. induction l as [|d l IH]; intros st st2 ds Hlt H; simpl in H.
    - inversion H; subst. exists []. now rewrite app_nil_r.
    - assert (Hd : dtarget d < i) by (apply Hlt; simpl; auto).
      assert (Hl : forall d', In d' l -> dtarget d' < i) by (intros; apply Hlt; simpl; auto).
      assert (Join : forall q st1 ids l0, rec (dtarget d) q st = COk st1 ids ->
                compile_deps rec n comb ck l st1 = DOk st2 l0 ->
                exists a, sstore st2 = sstore st ++ a /\ Forall (fun t => prefixed inv (top t)) a).
      { intros q st1 ids l0 R D. destruct (Hrec _ _ _ _ _ Hd I R) as (a1 & E1 & F1).
        destruct (IH _ _ _ Hl D) as (a2 & E2 & F2). exists (a1 ++ a2).
        split; [rewrite E2, E1; now rewrite app_assoc | apply Forall_app; auto]. }
      destruct (dshuffle d).
      + destruct (rec (dtarget d) (mkPart n (dcustom d) comb ck) st) as [st1 ids|] eqn:R; [|discriminate].
        assert (H' : match compile_deps rec n comb ck l st1 with
                     | DOk st2 l0 => DOk st2 (DShuf (hd 0 ids) (dexpand d) ck :: l0)
                     | DFail e => DFail e end = DOk st2 ds).
        { destruct ids; [destruct n; [exact H|discriminate]|exact H]. }
        destruct (compile_deps rec n comb ck l st1) as [st2' l0|] eqn:D; [|discriminate].
        inversion H'; subst st2'. eapply Join; eauto.
      + destruct (rec (dtarget d) part0 st) as [st1 ids|] eqn:R; [|discriminate].
        destruct (negb (List.length ids =? n)); [discriminate|].
        destruct (compile_deps rec n comb ck l st1) as [st2' l0|] eqn:D; [|discriminate].
        inversion H; subst st2'. eapply Join; eauto.
  Qed.

  Theorem compile_prefixed : forall fuel i p st st' ids,
    i < fuel -> compile g inv mc fixed fuel i p st = COk st' ids ->
    exists a, sstore st' = sstore st ++ a /\ Forall (fun t => prefixed inv (top t)) a.
  Proof.
    intros fuel i p st st' ids Hi H.
    refine (compile_ind g inv mc fixed (fun _ _ _ => True) post_pref _ _ _ _ fuel i p st st' ids Hi I H).
    - intros. exists []. now rewrite app_nil_r.
    - (* a Result *)
      intros j q s rts s' l _ R C. unfold compile_result in C.
      destruct (existsb _ rts); [discriminate|].
      destruct (negb (is_shuffle q)).
      { inversion C; subst. exists []. now rewrite app_nil_r. }
      destruct rts as [|r0 rts']; [discriminate|].
      rewrite namer_new_spec in C. inversion C; subst s' l; clear C. simpl.
      eexists. split; [reflexivity|].
      unfold reshuffle_tasks. apply Forall_forall. intros t Ht.
      apply in_map_iff in Ht as (x & <- & _). simpl.
      apply prefixed_render. unfold shuffle_base. rewrite Hnamed. apply prefixed_shuffle_base_inv.
    - (* a pipeline *)
      intros rec j q s s' l Hrec _ R C. unfold compile_slices in C.
      destruct (pipeline (Datatypes.S (List.length g)) g j) as [slices|] eqn:P; [|discriminate].
      pose proof (pipeline_spec g Hwf _ _ _ P) as PS. rewrite R in PS.
      destruct PS as (r & Hsl & _ & Hle & _).
      rewrite namer_new_spec in C.
      match type of C with context [compile_deps rec ?n ?c ?k ?dl ?s1] =>
        destruct (compile_deps rec n c k dl s1) as [st2 ds|] eqn:D; [|discriminate];
        assert (Hdl : forall d, In d dl -> dtarget d < j) end.
      { intros d Hd. destruct (Hwf (last slices j)) as [Hw _]. destruct (Hw d Hd) as [Hlt _].
        assert (last slices j <= j). { apply Hle. rewrite Hsl. apply last_in. }
        lia. }
      destruct (pref_deps rec j _ _ _ Hrec _ _ _ _ Hdl D) as (a2 & E2 & F2). simpl in E2.
      destruct (cache_loop _ (senv st2) _) as [env' ts'] eqn:CL.
      inversion C; subst s' l; clear C. simpl.
      pose proof (cache_loop_spec _ _ _ _ _ CL) as Hdrop.
      exists (a2 ++ ts'). split; [rewrite E2; now rewrite app_assoc|].
      apply Forall_app. split; auto.
      apply Forall_forall. intros t' Ht'. destruct (In_nth_error _ _ Ht') as [k Hk].
      destruct (Forall2_nth_error _ _ _ Hdrop k t' Hk) as (t & Ht & Hd).
      apply stage_tasks_nth in Ht as [_ ->]. apply dropped_fields in Hd. simpl in Hd.
      destruct Hd as (_ & A & _). rewrite A.
      apply prefixed_render. eapply prefixed_op_base; eauto.
    - intros j q s s' l _ Hp _. exact Hp.
  Qed.
End NamesInv.

(* C08 — executable model of slice compilation (exec/compile.go).
   No proofs here: the model must still evaluate when a proof is broken.

   Input.  The slice DAG as compile() sees it through the bigslice.Slice
   interface: one node per distinct interface value (node identity = what
   memoKey compares), numbered so that dependencies point to smaller indices,
   the root last.  A prefixSlice is simply another node with the same Name,
   deps, shard count and pragma as the slice it wraps (all promoted methods).
   Per node: Name().Op, NumShard(), the Dep(i) records, Combiner()!=Nil,
   "implements Pragma and Materialize()", "Unwrap(s) is a *Result" with the
   result's tasks (indices into the initial task store), and "Unwrap(s) is
   Cacheable" with IsCached(shard) as seen by the compiling process.

   Output.  The task store: the initial store (tasks of earlier invocations that
   the Results refer to) followed by the tasks created by this compilation, each
   complete when appended (Deps, Group, Slices are set by deferred functions in
   Go before compile returns; nothing observes the intermediate states).  Task
   identity = index in the store.  Go allocates the tasks of a stage before
   compiling its dependencies; the model appends them afterwards, so identities
   are numbered differently (dependencies first).  Identities are not observable;
   the correspondence compares graphs up to renumbering (Corr.v).  The namer IS
   called before the dependencies are compiled, as in Go: names are observable.

   Go panics (log.Panicf on a shard-count mismatch, index out of range on an
   empty dependency) and the "cannot reuse task" error are explicit results. *)
From Coq Require Import List String Ascii NArith Arith Bool DecimalString.
Import ListNotations.
Local Open Scope string_scope.
Local Open Scope nat_scope.

(* ---- configuration: the two defects found by this check, both repaired in
        /repo; [true] = the repaired code, which is the code as it is now.  The
        compiler below is parametric in the first switch ([compile_gen fixed]) and
        the transport in the second ([transported_env_gen]), so that theorems hold
        for both values and the former behaviour stays available to the witnesses
        in Witness.v. ---- *)

(* compile.go, Result reuse: the re-shuffle tasks created over a *Result take
   NumPartition / Partitioner / Combiner / CombineKey from [part] (they did not
   before fix f1643ee). *)
Definition result_shuffle_fixed : bool := true.

(* compile.go, Result reuse: the re-shuffle tasks are named
   "inv<this invocation>_<op of the Result's task>_shuffle" (before fix 3babbc3:
   "<op of the Result's task>_shuffle", which carries only the EARLIER
   invocation's index, so that two invocations re-shuffling one Result minted the
   same operation name; task stores are keyed by operation name and shard). *)
Definition reshuffle_named_by_inv : bool := true.

(* the configuration of the compiler proper *)
Record config := mkConfig {
  cfg_partitioned : bool;     (* result_shuffle_fixed *)
  cfg_named_by_inv : bool     (* reshuffle_named_by_inv *)
}.
Definition code_config : config := mkConfig result_shuffle_fixed reshuffle_named_by_inv.

(* session.go + bigmachine.go addInvocation: compile() copies the invocation (and
   its Env.Writable flag) into every Task before (Session).run freezes its own
   copy, and the executor ships task.Invocation; addInvocation now freezes the
   environment it stores for transport (it did not before fix 1222816, so workers
   received Writable = true and re-marked cached shards from their own view). *)
Definition transport_freezes_env : bool := true.

(* ---- decimal printing (fmt %d) ---- *)
Definition dec (n : nat) : string := NilEmpty.string_of_uint (Nat.to_uint n).
Definition decN (n : N) : string := NilEmpty.string_of_uint (N.to_uint n).

(* ---- the slice DAG ---- *)
Record dep := mkDep {
  dtarget : nat;       (* Dep(i).Slice *)
  dshuffle : bool;     (* Dep(i).Shuffle *)
  dcustom : bool;      (* Dep(i).Partitioner != nil *)
  dexpand : bool       (* Dep(i).Expand *)
}.

Record node := mkNode {
  nop : string;                  (* Name().Op *)
  nshard : nat;                  (* NumShard() *)
  ndeps : list dep;              (* Dep(0..NumDep()-1) *)
  ncomb : bool;                  (* !Combiner().IsNil() *)
  nmat : bool;                   (* slice.(Pragma) ok && Materialize() *)
  nresult : option (list nat);   (* Unwrap(slice).( *Result): result.tasks *)
  ncache : option (list bool)    (* Unwrap(slice).(Cacheable): IsCached(shard) *)
}.

Notation dag := (list node) (only parsing).
Definition dummy_node : node := mkNode "" 0 [] false false None None.
Definition get_node (g : dag) (i : nat) : node := nth i g dummy_node.

(* ---- tasks ---- *)
Record tdep := mkTDep {
  dhead : nat;         (* TaskDep.Head (store index) *)
  dpart : nat;         (* TaskDep.Partition *)
  dexp : bool;         (* TaskDep.Expand *)
  dckey : string       (* TaskDep.CombineKey *)
}.

Record task := mkTask {
  tinv : N;            (* Name.InvIndex *)
  top : string;        (* Name.Op *)
  tshard : nat;        (* Name.Shard *)
  tnshard : nat;       (* Name.NumShard *)
  tnumpart : nat;      (* NumPartition *)
  tpart : nat;         (* Partitioner: 0 nil, 1 defaultPartitioner, 2 another function *)
  thascomb : bool;     (* !Combiner.IsNil() *)
  tckey : string;      (* CombineKey *)
  tdeps : list tdep;   (* Deps *)
  tgroup : list nat;   (* Group (store indices) *)
  tslices : list nat   (* Slices (node indices; slices of other invocations are opaque) *)
}.

Definition dummy_task : task := mkTask 0%N "" 0 0 0 0 false "" [] [] [].
Definition get_task (s : list task) (i : nat) : task := nth i s dummy_task.

Definition set_deps (t : task) (ds : list tdep) : task :=
  mkTask (tinv t) (top t) (tshard t) (tnshard t) (tnumpart t) (tpart t) (thascomb t) (tckey t)
         ds (tgroup t) (tslices t).

(* TaskName {InvIndex; Op; Shard; NumShard} *)
Notation tname := (N * string * nat * nat)%type (only parsing).
Definition name_of (t : task) : tname := (tinv t, top t, tshard t, tnshard t).
Definition tname_eqb (a b : tname) : bool :=
  let '(i1, o1, s1, n1) := a in
  let '(i2, o2, s2, n2) := b in
  N.eqb i1 i2 && String.eqb o1 o2 && Nat.eqb s1 s2 && Nat.eqb n1 n2.

(* the tasks comprised by a dependency: TaskDep.NumTask / TaskDep.Task(i) *)
Definition members (s : list task) (d : tdep) : list nat :=
  dhead d :: tl (tgroup (get_task s (dhead d))).

(* ---- CompileEnv ---- *)
Record cenv := mkEnv {
  ewritable : bool;
  ecached : list ((N * string * nat * nat) * nat)    (* keys of Cached: (TaskName, OpIdx) *)
}.

Definition empty_env : cenv := mkEnv true [].
Definition freeze (e : cenv) : cenv := mkEnv false (ecached e).

Definition is_cached (e : cenv) (n : tname) (opIdx : nat) : bool :=
  existsb (fun k => tname_eqb (fst k) n && Nat.eqb (snd k) opIdx) (ecached e).
Definition mark_cached (e : cenv) (n : tname) (opIdx : nat) : cenv :=
  mkEnv (ewritable e) ((n, opIdx) :: ecached e).

(* The environment a worker compiles with: task.Invocation.Env, i.e. the
   Writable flag as it was when compile() was entered, and the Cached map (a
   reference, shared with the session's copy) as it is after compilation --
   frozen by addInvocation when [freezes]. *)
Definition transported_env_gen (freezes : bool) (entry exit_ : cenv) : cenv :=
  mkEnv (if freezes then false else ewritable entry) (ecached exit_).
Definition transported_env := transported_env_gen transport_freezes_env.

(* ---- pipeline(), compile.go:29-48 ---- *)
Fixpoint pipeline (fuel : nat) (g : dag) (i : nat) : option (list nat) :=
  match fuel with
  | 0 => None
  | S f =>
      let n := get_node g i in
      match nresult n with
      | Some _ => Some []                                   (* stop at Results *)
      | None =>
          match ndeps n with
          | [d] =>
              if dshuffle d then Some [i]
              else if nmat (get_node g (dtarget d)) then Some [i]
              else match pipeline f g (dtarget d) with
                   | Some r => Some (i :: r)
                   | None => None
                   end
          | _ => Some [i]                                   (* NumDep() != 1 *)
          end
      end
  end.

(* ---- partitioner, compile.go:61-91 ---- *)
Record part := mkPart {
  pnum : nat;          (* numPartition *)
  pcustom : bool;      (* partitioner != nil *)
  pcomb : bool;        (* !Combiner.IsNil() *)
  pckey : string       (* CombineKey *)
}.
Definition part0 : part := mkPart 0 false false "".
Definition is_shuffle (p : part) : bool := negb (pnum p =? 0).
Definition part_num (p : part) : nat := if pnum p =? 0 then 1 else pnum p.
Definition part_kind (p : part) : nat := if pcustom p then 2 else 1.

(* ---- taskNamer, compile.go:389-398 ---- *)
Notation namer := (list (string * nat)) (only parsing).
Fixpoint namer_get (m : namer) (s : string) : nat :=
  match m with
  | [] => 0
  | (k, v) :: r => if String.eqb k s then v else namer_get r s
  end.
Definition render (s : string) (c : nat) : string := if c =? 0 then s else s ++ dec c.
Definition namer_new (m : namer) (s : string) : string * namer :=
  let c := namer_get m s in (render s c, (s, S c) :: m).

(* ---- compiler state ---- *)
Notation memo := (list ((nat * nat) * list nat)) (only parsing).
Fixpoint memo_get (m : memo) (k : nat * nat) : option (list nat) :=
  match m with
  | [] => None
  | (k', v) :: r => if Nat.eqb (fst k') (fst k) && Nat.eqb (snd k') (snd k) then Some v else memo_get r k
  end.

Record cstate := mkSt {
  sstore : list task;
  snamer : list (string * nat);
  smemo : list ((nat * nat) * list nat);
  senv : cenv                       (* c.inv.Env: the Cached map is shared by reference *)
}.

Inductive cerr := EOutOfFuel | EPanic | EReuseCombiner.
Inductive cres := COk (st : cstate) (ids : list nat) | CFail (e : cerr).

(* one dependency of a stage, before it is instantiated per shard *)
Inductive dspec :=
| DPer (ids : list nat) (ex : bool)                 (* TaskDep{depTasks[shard], 0, Expand, ""} *)
| DShuf (head : nat) (ex : bool) (ck : string).     (* TaskDep{depTasks[0], partition, Expand, combineKey} *)
Definition inst_dep (shard : nat) (d : dspec) : tdep :=
  match d with
  | DPer ids ex => mkTDep (nth shard ids 0) 0 ex ""
  | DShuf h ex ck => mkTDep h shard ex ck
  end.
Inductive dres := DOk (st : cstate) (ds : list dspec) | DFail (e : cerr).

Definition view_cached (v : option (list bool)) (shard : nat) : bool :=
  match v with Some l => nth shard l false | None => false end.

(* compile.go:338-385, the part that decides Deps: operations are visited from
   the innermost (last slice) outwards. *)
Fixpoint cache_loop (ops : list (nat * option (list bool))) (env : cenv) (ts : list task)
  : cenv * list task :=
  match ops with
  | [] => (env, ts)
  | (opIdx, v) :: r =>
      let env1 :=
        if ewritable env
        then fold_left (fun e t => if view_cached v (tshard t) then mark_cached e (name_of t) opIdx else e) ts env
        else env in
      let ts1 := map (fun t => if is_cached env1 (name_of t) opIdx then set_deps t [] else t) ts in
      cache_loop r env1 ts1
  end.

Section Compile.
  Variable g : dag.
  Variable inv : N.                  (* c.inv.Index *)
  Variable mc : bool.                (* c.machineCombiners *)
  Variable fixed : config.           (* code_config, or a former configuration *)

  (* compile.go:298-334 *)
  Fixpoint compile_deps (rec : nat -> part -> cstate -> cres)
           (n : nat) (comb : bool) (ck : string) (ds : list dep) (st : cstate) : dres :=
    match ds with
    | [] => DOk st []
    | d :: r =>
        if dshuffle d then
          match rec (dtarget d) (mkPart n (dcustom d) comb ck) st with
          | CFail e => DFail e
          | COk st1 ids =>
              match ids, n with
              | [], S _ => DFail EPanic                      (* depTasks[0] *)
              | _, _ =>
                  match compile_deps rec n comb ck r st1 with
                  | DFail e => DFail e
                  | DOk st2 l => DOk st2 (DShuf (hd 0 ids) (dexpand d) ck :: l)
                  end
              end
          end
        else
          match rec (dtarget d) part0 st with
          | CFail e => DFail e
          | COk st1 ids =>
              if negb (List.length ids =? n) then DFail EPanic    (* log.Panicf("tasks:%d deptasks:%d") *)
              else
                match compile_deps rec n comb ck r st1 with
                | DFail e => DFail e
                | DOk st2 l => DOk st2 (DPer ids (dexpand d) :: l)
                end
          end
    end.

  Definition stage_tasks (opn : string) (n : nat) (p : part) (ds : list dspec)
             (group : list nat) (slices : list nat) : list task :=
    map (fun shard =>
           mkTask inv opn shard n (part_num p) (part_kind p) (pcomb p) (pckey p)
                  (map (inst_dep shard) ds) group slices)
        (seq 0 n).

  Definition op_base (slices : list nat) : string :=
    String.concat "_" (("inv" ++ decN inv) :: map (fun j => nop (get_node g j)) (rev slices)).

  (* compile.go:262-386 *)
  Definition compile_slices (rec : nat -> part -> cstate -> cres) (i : nat) (p : part) (st : cstate) : cres :=
    match pipeline (S (List.length g)) g i with
    | None => CFail EOutOfFuel
    | Some slices =>
        let lastn := get_node g (last slices i) in
        let '(opn, nm) := namer_new (snamer st) (op_base slices) in
        let n := nshard (get_node g i) in
        let ck := if ncomb lastn && mc then opn else "" in
        let st1 := mkSt (sstore st) nm (smemo st) (senv st) in
        match compile_deps rec n (ncomb lastn) ck (ndeps lastn) st1 with
        | DFail e => CFail e
        | DOk st2 ds =>
            let ids := seq (List.length (sstore st2)) n in
            let group := if is_shuffle p then ids else [] in
            let ts := stage_tasks opn n p ds group slices in
            let ops := rev (combine (seq 0 (List.length slices)) (map (fun j => ncache (get_node g j)) slices)) in
            let '(env', ts') := cache_loop ops (senv st2) ts in
            COk (mkSt (sstore st2 ++ ts') (snamer st2) (smemo st2) env') ids
        end
    end.

  (* compile.go:226-261 *)
  Definition reshuffle_tasks (s : list task) (opn : string) (p : part) (rts : list nat) (group : list nat)
    : list task :=
    map (fun sr =>
           let rt := get_task s (snd sr) in
           mkTask inv opn (fst sr) (List.length rts)
                  (if cfg_partitioned fixed then part_num p else 0)
                  (if cfg_partitioned fixed then part_kind p else 0)
                  (if cfg_partitioned fixed then pcomb p else false)
                  (if cfg_partitioned fixed then pckey p else "")
                  [mkTDep (snd sr) 0 false ""] group (tslices rt))
        (combine (seq 0 (List.length rts)) rts).

  (* the name handed to the namer for the re-shuffle tasks over a Result whose
     first task performs operation [op] *)
  Definition shuffle_base_old (op : string) : string := op ++ "_shuffle".
  Definition shuffle_base_inv (op : string) : string := "inv" ++ decN inv ++ "_" ++ op ++ "_shuffle".
  Definition shuffle_base (op : string) : string :=
    if cfg_named_by_inv fixed then shuffle_base_inv op else shuffle_base_old op.

  Definition compile_result (rts : list nat) (p : part) (st : cstate) : cres :=
    if existsb (fun id => thascomb (get_task (sstore st) id)) rts then CFail EReuseCombiner
    else if negb (is_shuffle p) then COk st rts
    else
      match rts with
      | [] => CFail EPanic                                   (* result.tasks[0] *)
      | r0 :: _ =>
          let '(opn, nm) := namer_new (snamer st) (shuffle_base (top (get_task (sstore st) r0))) in
          let ids := seq (List.length (sstore st)) (List.length rts) in
          let ts := reshuffle_tasks (sstore st) opn p rts ids in
          COk (mkSt (sstore st ++ ts) nm (smemo st) (senv st)) ids
      end.

  (* ( *compiler).compile, compile.go:195-387 *)
  Fixpoint compile (fuel : nat) (i : nat) (p : part) (st : cstate) : cres :=
    match fuel with
    | 0 => CFail EOutOfFuel
    | S f =>
        let memoable := negb (pcomb p) && negb (pcustom p) in
        match (if memoable then memo_get (smemo st) (i, pnum p) else None) with
        | Some ids => COk st ids
        | None =>
            let r :=
              match nresult (get_node g i) with
              | Some rts => compile_result rts p st
              | None => compile_slices (compile f) i p st
              end in
            match r with
            | COk st' ids =>
                COk (if memoable
                     then mkSt (sstore st') (snamer st') (((i, pnum p), ids) :: smemo st') (senv st')
                     else st') ids
            | CFail e => CFail e
            end
        end
    end.
End Compile.

(* compile(inv, slice, machineCombiners), compile.go:111-123: the root is the last node *)
Definition init_state (init : list task) (env : cenv) : cstate := mkSt init [] [] env.
Definition compile_gen (fixed : config) (g : dag) (inv : N) (mc : bool) (init : list task) (env : cenv) : cres :=
  compile g inv mc fixed (S (List.length g)) (pred (List.length g)) part0 (init_state init env).
Definition compile_top := compile_gen code_config.

(* C08 — correspondence drivers: evaluated by vm_compute on harness case files.

   One case = one invocation, compiled several times by the implementation:
     kind 0  the driver ((Session).run: fresh writable env, then Freeze)
     kind 1  again in the same process with the session's (frozen) invocation
     kind 2  by (worker).Compile in the same process from the gob-transported
             task.Invocation (what (bigmachineExecutor).Run ships)
     kind 3  the same in a separately started OS process
   Every observation carries what that process saw (its slice DAG with its own
   cache views, its initial task store = the tasks of the Results) and what it
   produced (the reachable task graph; identities are store indices).

   mismatches: the model's graph differs from the observed one (up to renumbering
               of identities), or an input leaves the model's domain.
   violations: judged on the OBSERVED graphs only: duplicate names, a cycle, root
               count, stage shape, pipelining across a shuffle / Materialize /
               Result, shuffle wiring and partition counts, operation names without the
               invocation's index, and the observations
               of one invocation differing from each other. *)
From Coq Require Import List String NArith Arith Bool.
Import ListNotations.
Require Export BS.Common.Util BS.C08.Model.
Local Open Scope nat_scope.

Inductive ograph :=
| OErr (e : nat)                                   (* 1: error returned; 2: panic *)
| OGraph (store : list task) (roots : list nat).

Record obsv := mkObs { okind : nat; odag : list node; oinit : list task; oout : ograph }.
Record case := mkCase { cinv : N; cmc : bool; cobs : list obsv }.

(* ---- decidable equalities ---- *)
Definition tdep_eqb (a b : tdep) : bool :=
  Nat.eqb (dhead a) (dhead b) && Nat.eqb (dpart a) (dpart b) && Bool.eqb (dexp a) (dexp b)
  && String.eqb (dckey a) (dckey b).
Definition task_eqb (a b : task) : bool :=
  N.eqb (tinv a) (tinv b) && String.eqb (top a) (top b) && Nat.eqb (tshard a) (tshard b)
  && Nat.eqb (tnshard a) (tnshard b) && Nat.eqb (tnumpart a) (tnumpart b) && Nat.eqb (tpart a) (tpart b)
  && Bool.eqb (thascomb a) (thascomb b) && String.eqb (tckey a) (tckey b)
  && list_eqb tdep_eqb (tdeps a) (tdeps b) && list_eqb Nat.eqb (tgroup a) (tgroup b)
  && list_eqb Nat.eqb (tslices a) (tslices b).
Definition dep_eqb (a b : dep) : bool :=
  Nat.eqb (dtarget a) (dtarget b) && Bool.eqb (dshuffle a) (dshuffle b) && Bool.eqb (dcustom a) (dcustom b)
  && Bool.eqb (dexpand a) (dexpand b).
(* equality of nodes up to the cache view, which is per process *)
Definition node_eqb_nocache (a b : node) : bool :=
  String.eqb (nop a) (nop b) && Nat.eqb (nshard a) (nshard b) && list_eqb dep_eqb (ndeps a) (ndeps b)
  && Bool.eqb (ncomb a) (ncomb b) && Bool.eqb (nmat a) (nmat b)
  && option_eqb (list_eqb Nat.eqb) (nresult a) (nresult b)
  && Bool.eqb (match ncache a with Some _ => true | None => false end)
              (match ncache b with Some _ => true | None => false end).

(* ---- graphs up to renumbering: depth-first order from the roots ---- *)
Definition succs (s : list task) (id : nat) : list nat :=
  let t := get_task s id in flat_map (members s) (tdeps t) ++ tgroup t.

Definition mem (x : nat) (l : list nat) : bool := existsb (Nat.eqb x) l.

Fixpoint dfs (fuel : nat) (s : list task) (stack seen : list nat) : list nat :=
  match fuel with
  | 0 => seen
  | S f =>
      match stack with
      | [] => seen
      | x :: rest =>
          if mem x seen then dfs f s rest seen
          else dfs f s (succs s x ++ rest) (x :: seen)
      end
  end.

Definition dfs_fuel (s : list task) (roots : list nat) : nat :=
  S (List.length roots + List.length s
     + fold_left (fun a id => a + List.length (succs s id)) (seq 0 (List.length s)) 0).

Fixpoint pos (l : list nat) (x : nat) : nat :=
  match l with
  | [] => 0
  | y :: r => if Nat.eqb x y then 0 else S (pos r x)
  end.

Definition renum (ord : list nat) (t : task) : task :=
  mkTask (tinv t) (top t) (tshard t) (tnshard t) (tnumpart t) (tpart t) (thascomb t) (tckey t)
         (map (fun d => mkTDep (pos ord (dhead d)) (dpart d) (dexp d) (dckey d)) (tdeps t))
         (map (pos ord) (tgroup t)) (tslices t).

Definition canon (s : list task) (roots : list nat) : list task * list nat :=
  let ord := rev (dfs (dfs_fuel s roots) s roots []) in
  (map (fun id => renum ord (get_task s id)) ord, map (pos ord) roots).

Definition graph_eqb (a b : list task * list nat) : bool :=
  list_eqb task_eqb (fst a) (fst b) && list_eqb Nat.eqb (snd a) (snd b).

Definition out_eqb (a b : ograph) : bool :=
  match a, b with
  | OErr x, OErr y => Nat.eqb x y
  | OGraph s1 r1, OGraph s2 r2 => graph_eqb (canon s1 r1) (canon s2 r2)
  | _, _ => false
  end.

(* ---- the model's answer for one observation ---- *)
Definition model_out (r : cres) : ograph :=
  match r with
  | COk st ids => OGraph (sstore st) ids
  | CFail EReuseCombiner => OErr 1
  | CFail EPanic => OErr 2
  | CFail EOutOfFuel => OErr 99
  end.
Definition exit_env (r : cres) : cenv :=
  match r with COk st _ => senv st | CFail _ => empty_env end.

Definition env_for (kind : nat) (driver : cres) : cenv :=
  match kind with
  | 0 => empty_env
  | 1 => freeze (exit_env driver)                         (* the session's copy, after Freeze *)
  | _ => transported_env empty_env (exit_env driver)      (* task.Invocation.Env *)
  end.

(* ---- the model's domain ---- *)
Fixpoint wf_dag_from (i : nat) (g : list node) (all : list node) : bool :=
  match g with
  | [] => true
  | n :: r =>
      forallb (fun d => (dtarget d <? i)
                        && (dshuffle d || Nat.eqb (nshard (get_node all (dtarget d))) (nshard n))) (ndeps n)
      && match nresult n with Some l => Nat.eqb (List.length l) (nshard n) | None => true end
      && match ncache n with Some l => Nat.eqb (List.length l) (nshard n) | None => true end
      && wf_dag_from (S i) r all
  end.
Definition wf_dagb (g : list node) : bool := negb (Nat.eqb (List.length g) 0) && wf_dag_from 0 g g.

Definition ranked_from (s : list task) (lo : nat) : bool :=
  forallb (fun id => forallb (fun d => forallb (fun m => m <? id) (members s d)) (tdeps (get_task s id)))
          (seq lo (List.length s - lo)).

Definition pre_ok (c : case) (o : obsv) : bool :=
  wf_dagb (odag o)
  && ranked_from (oinit o) 0
  && forallb (fun t => negb (N.eqb (tinv t) (cinv c))) (oinit o)
  && forallb (fun n => match nresult n with
                       | Some l => forallb (fun id => id <? List.length (oinit o)) l
                       | None => true end) (odag o)
  && match oout o with
     | OGraph s _ => list_eqb task_eqb (firstn (List.length (oinit o)) s) (oinit o)
     | OErr _ => true
     end.

Definition obs_exact (c : case) (driver : cres) (o : obsv) : bool :=
  pre_ok c o
  && out_eqb (model_out (compile_top (odag o) (cinv c) (cmc c) (oinit o) (env_for (okind o) driver))) (oout o).

Definition case_exact (c : case) : bool :=
  match cobs c with
  | [] => false
  | o0 :: _ =>
      Nat.eqb (okind o0) 0
      && let driver := compile_top (odag o0) (cinv c) (cmc c) (oinit o0) empty_env in
         forallb (obs_exact c driver) (cobs c)
         && forallb (fun o => list_eqb node_eqb_nocache (odag o) (odag o0)) (cobs c)
  end.

(* ================= the property, judged on an observed graph ================= *)
Section Judge.
  Variable g : list node.
  Variable n0 : nat.                (* tasks below n0 belong to earlier invocations *)
  Variable s : list task.

  Definition foreign (t : task) : bool := forallb (fun j => List.length g <=? j) (tslices t).
  Definition local (t : task) : bool := forallb (fun j => j <? List.length g) (tslices t).

  (* names_unique *)
  Fixpoint nodup_names (l : list task) : bool :=
    match l with
    | [] => true
    | t :: r => negb (existsb (fun u => tname_eqb (name_of t) (name_of u)) r) && nodup_names r
    end.

  (* acyclic: the identities are a rank *)
  Definition acyclic_ok : bool := ranked_from s 0.

  (* one task per shard of a stage: a phase (Group) lists its shards in order *)
  Definition stage_ok (id : nat) : bool :=
    let t := get_task s id in
    (tshard t <? tnshard t)
    && match tgroup t with
       | [] => true
       | grp =>
           Nat.eqb (List.length grp) (tnshard t) && Nat.eqb (nth (tshard t) grp (List.length s)) id
           && forallb (fun km => let u := get_task s (snd km) in
                                 Nat.eqb (tshard u) (fst km) && String.eqb (top u) (top t)
                                 && N.eqb (tinv u) (tinv t) && Nat.eqb (tnshard u) (tnshard t))
                      (combine (seq 0 (List.length grp)) grp)
       end
    && match tslices t with
       | j :: _ => if j <? List.length g then Nat.eqb (tnshard t) (nshard (get_node g j)) else true
       | [] => false
       end.

  (* the shape of a task that only re-shuffles the output of a Result task *)
  Definition reshuffle_shaped (t : task) : bool :=
    match tdeps t with
    | [d] => (dhead d <? n0) && Nat.eqb (dpart d) 0 && negb (dexp d)
             && Nat.eqb (List.length (members s d)) 1
    | _ => false
    end.

  (* no_pipeline_across: consecutive slices of one task are joined by a single,
     non-shuffle dependency on a slice that is neither materialized nor a Result *)
  Fixpoint chain_ok (l : list nat) : bool :=
    match l with
    | [] => true
    | a :: r =>
        match nresult (get_node g a) with Some _ => false | None => true end
        && match r with
           | [] => true
           | b :: _ =>
               match ndeps (get_node g a) with
               | [d] => Nat.eqb (dtarget d) b && negb (dshuffle d) && negb (nmat (get_node g b))
                        && match nresult (get_node g b) with Some _ => false | None => true end
               | _ => false
               end
           end
        && chain_ok r
    end.

  Definition pipeline_ok (id : nat) : bool :=
    let t := get_task s id in
    if foreign t then reshuffle_shaped t else local t && chain_ok (tslices t).

  (* does task [m] produce shard [k] of node [j]? *)
  Definition produces (m k j : nat) : bool :=
    let u := get_task s m in
    Nat.eqb (tshard u) k
    && match nresult (get_node g j) with
       | None => (n0 <=? m) && match tslices u with a :: _ => Nat.eqb a j | [] => false end
       | Some rts =>
           (* either the Result's own task, or a task re-shuffling it *)
           Nat.eqb m (nth k rts (List.length s))
           || ((n0 <=? m) && match tdeps u with
                             | [d] => Nat.eqb (dhead d) (nth k rts (List.length s))
                             | _ => false end)
       end.

  Definition wired_dep (t : task) (d : dep) (td : tdep) : bool :=
    Bool.eqb (dexp td) (dexpand d)
    && if dshuffle d then
         (* shard p reads partition p of every shard of the producer, which writes
            as many partitions as the consumer has shards *)
         Nat.eqb (dpart td) (tshard t)
         && let ms := members s td in
            Nat.eqb (List.length ms) (nshard (get_node g (dtarget d)))
            && forallb (fun km => let u := get_task s (snd km) in
                                  produces (snd km) (fst km) (dtarget d)
                                  && Nat.eqb (tnumpart u) (tnshard t)
                                  && negb (Nat.eqb (tpart u) 0)
                                  && match nresult (get_node g (dtarget d)) with
                                     | Some rts => negb (Nat.eqb (snd km) (nth (fst km) rts (List.length s)))
                                     | None => true end)
                       (combine (seq 0 (List.length ms)) ms)
       else
         Nat.eqb (dpart td) 0 && produces (dhead td) (tshard t) (dtarget d)
         && Nat.eqb (List.length (members s td)) 1.

  Fixpoint wired_all (t : task) (ds : list dep) (tds : list tdep) : bool :=
    match ds, tds with
    | [], [] => true
    | d :: r, td :: r' => wired_dep t d td && wired_all t r r'
    | _, _ => false
    end.

  Definition wiring_ok (id : nat) : bool :=
    let t := get_task s id in
    if foreign t then true
    else
      let lastd := ndeps (get_node g (last (tslices t) 0)) in
      match tdeps t with
      | [] => match lastd with [] => true | _ => false end
              (* dependencies forgotten because an operation of the pipeline is cached *)
              || existsb (fun j => match ncache (get_node g j) with Some _ => true | None => false end) (tslices t)
      | tds => wired_all t lastd tds
      end.

  Definition roots_ok (roots : list nat) : bool :=
    let rn := get_node g (pred (List.length g)) in
    Nat.eqb (List.length roots) (nshard rn)
    && forallb (fun km => produces (snd km) (fst km) (pred (List.length g))
                          && Nat.eqb (tnshard (get_task s (snd km))) (nshard rn))
               (combine (seq 0 (List.length roots)) roots).

  (* operation names carry the index of the invocation that minted them, so that
     invocations never mint the same name (stores are keyed by name and shard) *)
  Definition op_prefix_ok (id : nat) : bool :=
    let t := get_task s id in
    String.prefix ("inv" ++ decN (tinv t) ++ "_")%string (top t).

  Definition graph_ok (roots : list nat) : bool :=
    let news := seq n0 (List.length s - n0) in
    nodup_names s && acyclic_ok && roots_ok roots
    && forallb stage_ok news && forallb pipeline_ok news && forallb wiring_ok news
    && forallb op_prefix_ok news
    && forallb (fun id => N.eqb (tinv (get_task s id)) (tinv (get_task s (hd 0 news)))) news.
End Judge.

Definition obs_ok (o : obsv) : bool :=
  match oout o with
  | OErr e => Nat.eqb e 1          (* a returned error is an answer; a panic is not *)
  | OGraph s roots => graph_ok (odag o) (List.length (oinit o)) s roots
  end.

Definition case_ok (c : case) : bool :=
  match cobs c with
  | [] => true
  | o0 :: rest =>
      forallb obs_ok (cobs c)
      (* the same graph everywhere *)
      && forallb (fun o => out_eqb (oout o0) (oout o)) rest
  end.

Definition mismatches (cs : list case) : list nat := bad_indices case_exact cs.
Definition violations (cs : list case) : list nat := bad_indices case_ok cs.

(* C08 — concrete witnesses, evaluated by vm_compute: non-vacuity examples for
   the theorems; witnesses that the two FORMER configurations of the code (before
   the repairs f1643ee, 1222816 and 3babbc3, named explicitly: [compile_gen (mkConfig false true)], [compile_gen (mkConfig true false)],
   [transported_env_gen false]) violated the property; and the refutation showing
   the one hypothesis names_unique cannot do without. *)
From Coq Require Import List String NArith Arith Bool Lia.
Import ListNotations.
Require Import BS.C08.Model BS.C08.Ind BS.C08.Names BS.C08.Proofs BS.C08.Frozen.
Local Open Scope nat_scope.
Local Open Scope string_scope.

(* ---------- Reduce(Map(Const(3))) : the shape the dormant test "shuffle" checks ---------- *)
Definition g_reduce : list node :=
  [ mkNode "const" 3 [] false false None None;
    mkNode "map" 3 [mkDep 0 false false false] false false None None;
    mkNode "reduce" 3 [mkDep 1 true false true] true false None None ].

Lemma g_reduce_wf : wf_dag g_reduce.
Proof. apply wf_dag_b_sound. reflexivity. Qed.

Lemma wf_init_nil g : (forall i, nresult (get_node g i) = None) -> wf_init g [].
Proof.
  intro H. split.
  - intros i l Hl. rewrite H in Hl. discriminate.
  - intros r m Hr. simpl in Hr. lia.
Qed.

Example ex_reduce :
  exists st roots, compile_top g_reduce 1%N true [] empty_env = COk st roots
                   /\ roots = [3; 4; 5]
                   /\ map top (sstore st) = ["inv1_const_map"; "inv1_const_map"; "inv1_const_map";
                                             "inv1_reduce"; "inv1_reduce"; "inv1_reduce"]
                   /\ map tnumpart (sstore st) = [3; 3; 3; 1; 1; 1]
                   /\ map (fun t => map (fun d => (dhead d, dpart d)) (tdeps t)) (sstore st)
                      = [[]; []; []; [(0, 0)]; [(0, 1)]; [(0, 2)]].
Proof. eexists; eexists. vm_compute. repeat split. Qed.

(* ---------- one slice consumed with two partition counts is compiled twice ---------- *)
Definition g_branch : list node :=
  [ mkNode "const" 3 [] false false None None;
    mkNode "reshard" 1 [mkDep 0 true false false] false false None None;
    mkNode "reshard" 2 [mkDep 0 true false false] false false None None;
    mkNode "cogroup" 2 [mkDep 1 true false false; mkDep 2 true false false] false false None None ].

Example ex_branch :
  exists st roots, compile_top g_branch 1%N false [] empty_env = COk st roots
    /\ map (fun t => (top t, tnumpart t)) (sstore st)
       = [("inv1_const", 1); ("inv1_const", 1); ("inv1_const", 1); ("inv1_reshard", 2);
          ("inv1_const1", 2); ("inv1_const1", 2); ("inv1_const1", 2); ("inv1_reshard1", 2); ("inv1_reshard1", 2);
          ("inv1_cogroup", 1); ("inv1_cogroup", 1)].
Proof. eexists; eexists. vm_compute. repeat split. Qed.

(* ---------- former defect 1 (repaired by f1643ee): Reshuffle(result) ---------- *)
(* an earlier invocation (index 1) left two tasks; the Func of invocation 2
   returns Reshuffle(result) *)
Definition init_result : list task :=
  [ mkTask 1%N "inv1_const" 0 2 1 1 false "" [] [] [999];
    mkTask 1%N "inv1_const" 1 2 1 1 false "" [] [] [999] ].
Definition g_reshuffle_result : list node :=
  [ mkNode "const" 2 [] false false (Some [0; 1]) None;
    mkNode "reshuffle" 2 [mkDep 0 true false false] false false None None ].

Lemma g_reshuffle_result_wf : wf_dag g_reshuffle_result.
Proof. apply wf_dag_b_sound. reflexivity. Qed.

Lemma init_result_wf : wf_init g_reshuffle_result init_result.
Proof. apply wf_init_b_sound. reflexivity. Qed.

(* FORMER configuration (fixed = false).  The consumer (the reshuffle stage, 2
   shards) reads partitions 0 and 1 of the producers, but the producers -- the
   re-shuffle tasks inserted over the Result -- declared NumPartition = 0 and had
   no partitioner: shuffle_wiring was false for this DAG. *)
Theorem result_shuffle_unfixed_witness :
  exists st roots,
    compile_gen (mkConfig false true) g_reshuffle_result 2%N false init_result empty_env = COk st roots
    /\ exists t td m u,
         nth_error (sstore st) (nth 1 roots 0) = Some t /\ In td (tdeps t)
         /\ dpart td = 1
         /\ In m (members (sstore st) td) /\ nth_error (sstore st) m = Some u
         /\ top u = "inv2_inv1_const_shuffle"
         /\ tnumpart u = 0 /\ tnumpart u <> tnshard t /\ tpart u = 0.
Proof.
  eexists; eexists. split; [vm_compute; reflexivity|].
  eexists; eexists; exists 2; eexists. vm_compute.
  repeat split; auto; discriminate.
Qed.

(* the code as it is: the same DAG is wired as the property demands *)
Example result_shuffle_code :
  exists st roots,
    compile_top g_reshuffle_result 2%N false init_result empty_env = COk st roots
    /\ map (fun t => (top t, tnumpart t, tpart t)) (skipn 2 (sstore st))
       = [("inv2_inv1_const_shuffle", 2, 1); ("inv2_inv1_const_shuffle", 2, 1); ("inv2_reshuffle", 1, 1); ("inv2_reshuffle", 1, 1)].
Proof. eexists; eexists. vm_compute. repeat split. Qed.

(* ---------- former defect 3 (repaired by 3babbc3): the name of the re-shuffle tasks ---------- *)
(* FORMER naming (cfg_named_by_inv = false: "<op of the Result's task>_shuffle"):
   invocations 2 and 3 both re-shuffle the Result of invocation 1 and mint the
   same operation name for their re-shuffle tasks, shard for shard; a store keyed
   by operation name and shard confuses their outputs. *)
Theorem reshuffle_old_naming_witness :
  exists st2 r2 st3 r3,
    compile_gen (mkConfig true false) g_reshuffle_result 2%N false init_result empty_env = COk st2 r2
    /\ compile_gen (mkConfig true false) g_reshuffle_result 3%N false init_result empty_env = COk st3 r3
    /\ exists t2 t3, nth_error (sstore st2) 2 = Some t2 /\ nth_error (sstore st3) 2 = Some t3
                     /\ top t2 = "inv1_const_shuffle" /\ top t2 = top t3 /\ tshard t2 = tshard t3
                     /\ tinv t2 <> tinv t3.
Proof.
  eexists; eexists; eexists; eexists. split; [vm_compute; reflexivity|]. split; [vm_compute; reflexivity|].
  eexists; eexists. vm_compute. repeat split; discriminate.
Qed.

(* the code as it is: the two invocations mint different names *)
Example reshuffle_naming_code :
  exists st2 r2 st3 r3,
    compile_top g_reshuffle_result 2%N false init_result empty_env = COk st2 r2
    /\ compile_top g_reshuffle_result 3%N false init_result empty_env = COk st3 r3
    /\ map top (skipn 2 (sstore st2)) = ["inv2_inv1_const_shuffle"; "inv2_inv1_const_shuffle"; "inv2_reshuffle"; "inv2_reshuffle"]
    /\ map top (skipn 2 (sstore st3)) = ["inv3_inv1_const_shuffle"; "inv3_inv1_const_shuffle"; "inv3_reshuffle"; "inv3_reshuffle"].
Proof. eexists; eexists; eexists; eexists. vm_compute. repeat split. Qed.

(* ---------- former defect 2 (repaired by 1222816): the worker's environment was writable ---------- *)
(* Map(CachePartial(Reshuffle(Const(2)))): when the driver compiles nothing is
   cached; when the worker compiles, shard 1 of the cache exists. *)
Definition g_cache (view : list bool) : list node :=
  [ mkNode "const" 2 [] false false None None;
    mkNode "reshuffle" 2 [mkDep 0 true false false] false false None None;
    mkNode "cachepartial" 2 [mkDep 1 false false false] false false None (Some view) ].

Lemma g_cache_same v v' : same_but_cache (g_cache v) (g_cache v').
Proof.
  split; [reflexivity|]. intro i. destruct i as [|[|[|i]]]; simpl; repeat split; reflexivity.
Qed.

(* FORMER configuration (the shipped environment not frozen): the worker, seeing
   shard 1 cached, forgot dependencies the driver kept. *)
Theorem worker_env_unfrozen_witness :
  exists driver roots worker roots',
    compile_top (g_cache [false; false]) 1%N false [] empty_env = COk driver roots
    /\ compile_top (g_cache [false; true]) 1%N false []
                   (transported_env_gen false empty_env (senv driver)) = COk worker roots'
    /\ map tdeps (sstore driver) <> map tdeps (sstore worker).
Proof.
  eexists; eexists; eexists; eexists. split; [vm_compute; reflexivity|].
  split; [vm_compute; reflexivity|]. vm_compute. discriminate.
Qed.

(* the code as it is: the worker agrees with the driver *)
Example worker_env_code :
  exists driver roots,
    compile_top (g_cache [false; false]) 1%N false [] empty_env = COk driver roots
    /\ exists worker roots',
         compile_top (g_cache [false; true]) 1%N false [] (transported_env empty_env (senv driver))
         = COk worker roots'
         /\ sstore worker = sstore driver /\ roots' = roots.
Proof.
  eexists; eexists. split; [vm_compute; reflexivity|].
  eexists; eexists. split; [vm_compute; reflexivity|]. split; reflexivity.
Qed.

(* ---------- names_unique needs operation names that do not end in a digit ---------- *)
(* two stages named "x" and one named "x1" (possible only with user-defined
   Slice types: no bigslice operation name ends in a digit) *)
Definition g_digit : list node :=
  [ mkNode "x" 1 [] false false None None;
    mkNode "x" 1 [] false false None None;
    mkNode "x1" 1 [] false false None None;
    mkNode "cogroup" 1 [mkDep 0 true false false; mkDep 1 true false false; mkDep 2 true false false]
           false false None None ].

Theorem names_unique_digit_refuted :
  exists st roots,
    compile_top g_digit 1%N false [] empty_env = COk st roots
    /\ ~ NoDup (map name_of (sstore st)).
Proof.
  eexists; eexists. split; [vm_compute; reflexivity|].
  vm_compute. intro H.
  inversion H as [|? ? _ H1]; subst. inversion H1 as [|? ? N2 _]; subst.
  apply N2. simpl. auto.
Qed.

(* C08 — the shape invariant of compilation: what every task created by a
   compilation looks like and how it is wired to its dependencies. *)
From Coq Require Import List String NArith Arith Bool Lia.
Import ListNotations.
Require Import BS.C08.Model BS.C08.Ind.
Local Open Scope nat_scope.

(* ---- cache_loop only ever forgets dependencies ---- *)
Definition dropped (t t' : task) : Prop := t' = t \/ t' = set_deps t [].

Lemma dropped_refl t : dropped t t.
Proof. now left. Qed.

Lemma dropped_trans a b c : dropped a b -> dropped b c -> dropped a c.
Proof.
  unfold dropped; intros [-> | ->] [-> | ->]; auto.
Qed.

Lemma Forall2_refl {A} (R : A -> A -> Prop) : (forall x, R x x) -> forall l, Forall2 R l l.
Proof. intros H l; induction l; constructor; auto. Qed.

Lemma Forall2_trans {A} (R : A -> A -> Prop) :
  (forall a b c, R a b -> R b c -> R a c) -> forall l1 l2 l3, Forall2 R l1 l2 -> Forall2 R l2 l3 -> Forall2 R l1 l3.
Proof.
  intros H l1 l2 l3 H12; revert l3; induction H12; intros l3 H23; inversion H23; subst; constructor; eauto.
Qed.

Lemma Forall2_map_r {A B} (R : A -> B -> Prop) (f : A -> B) l : (forall x, R x (f x)) -> Forall2 R l (map f l).
Proof. intro H; induction l; simpl; constructor; auto. Qed.

Lemma Forall2_nth_error {A B} (R : A -> B -> Prop) l l' :
  Forall2 R l l' -> forall k y, nth_error l' k = Some y -> exists x, nth_error l k = Some x /\ R x y.
Proof.
  induction 1; intros [|k] z Hk; simpl in *; try discriminate.
  - inversion Hk; subst; eauto.
  - eauto.
Qed.

Lemma Forall2_length {A B} (R : A -> B -> Prop) l l' : Forall2 R l l' -> List.length l = List.length l'.
Proof. induction 1; simpl; auto. Qed.

Lemma cache_loop_spec : forall ops env ts env' ts',
  cache_loop ops env ts = (env', ts') -> Forall2 dropped ts ts'.
Proof.
  induction ops as [|[opIdx v] r IH]; intros env ts env' ts' H; simpl in H.
  - inversion H; subst. apply Forall2_refl, dropped_refl.
  - eapply Forall2_trans; [apply dropped_trans| |eapply IH; eauto].
    apply Forall2_map_r. intro t. unfold dropped.
    match goal with |- context [if ?c then _ else _] => destruct c end; auto.
Qed.

Lemma dropped_fields t t' : dropped t t' ->
  tinv t' = tinv t /\ top t' = top t /\ tshard t' = tshard t /\ tnshard t' = tnshard t
  /\ tnumpart t' = tnumpart t /\ tpart t' = tpart t /\ thascomb t' = thascomb t /\ tckey t' = tckey t
  /\ tgroup t' = tgroup t /\ tslices t' = tslices t /\ (tdeps t' = tdeps t \/ tdeps t' = []).
Proof. intros [-> | ->]; simpl; tauto. Qed.

Lemma nth_error_combine_seq {A} (l : list A) a k x :
  nth_error (combine (seq a (List.length l)) l) k = Some x ->
  fst x = a + k /\ nth_error l k = Some (snd x).
Proof.
  revert a k; induction l as [|y l IH]; intros a [|k] H; simpl in *; try discriminate.
  - inversion H; subst; simpl. split; [lia|auto].
  - apply IH in H. destruct H. split; [lia|auto].
Qed.

Lemma combine_seq_length {A} (l : list A) a : List.length (combine (seq a (List.length l)) l) = List.length l.
Proof. rewrite combine_length, seq_length. lia. Qed.

Section Shape.
  Variables (g : list node) (inv : N) (mc : bool) (fixed : config).
  Variable init : list task.
  Notation n0 := (List.length init).

  Hypothesis Hwf : wf_dag g.
  (* the tasks of the Results, and their group peers, are in the initial store *)
  Hypothesis Hres : forall i l, nresult (get_node g i) = Some l -> Forall (fun r => r < n0) l.
  Hypothesis Hgrp : forall r m, r < n0 -> In m (tgroup (get_task init r)) -> m < n0.

  Definition ext (s s' : list task) : Prop := exists a, s' = s ++ a.

  Lemma ext_refl s : ext s s.
  Proof. exists []. now rewrite app_nil_r. Qed.
  Lemma ext_trans a b c : ext a b -> ext b c -> ext a c.
  Proof. intros [x ->] [y ->]. exists (x ++ y). now rewrite app_assoc. Qed.
  Lemma ext_length s s' : ext s s' -> List.length s <= List.length s'.
  Proof. intros [a ->]. rewrite app_length. lia. Qed.
  Lemma ext_nth_error s s' id t : ext s s' -> nth_error s id = Some t -> nth_error s' id = Some t.
  Proof. intros [a ->]. apply nth_error_app_l. Qed.
  Lemma ext_get_task s s' id : ext s s' -> id < List.length s -> get_task s' id = get_task s id.
  Proof. intros [a ->]. apply get_task_app_l. Qed.

  Definition part_fields (p : part) (t : task) : Prop :=
    tnumpart t = part_num p /\ tpart t = part_kind p /\ thascomb t = pcomb p /\ tckey t = pckey p.

  (* what the caller of compile learns about the returned tasks *)
  Definition ret_ok (s : list task) (i : nat) (p : part) (ids : list nat) : Prop :=
    List.length ids = nshard (get_node g i)
    /\ Forall (fun id => id < List.length s) ids
    /\ match nresult (get_node g i) with
       | None =>
           forall k id, nth_error ids k = Some id ->
             n0 <= id /\ exists t, nth_error s id = Some t /\ tinv t = inv /\ tshard t = k
               /\ tnshard t = nshard (get_node g i) /\ part_fields p t
               /\ tgroup t = (if is_shuffle p then ids else []) /\ hd_error (tslices t) = Some i
       | Some rts =>
           if is_shuffle p then
             forall k id, nth_error ids k = Some id ->
               n0 <= id /\ exists t, nth_error s id = Some t /\ tinv t = inv /\ tshard t = k
                 /\ tnshard t = List.length rts /\ tgroup t = ids
                 /\ tdeps t = [mkTDep (nth k rts 0) 0 false ""%string]
                 /\ (cfg_partitioned fixed = true -> part_fields p t)
           else ids = rts
       end.

  Lemma ret_ok_ext s s' i p ids : ext s s' -> ret_ok s i p ids -> ret_ok s' i p ids.
  Proof.
    intros E (Hl & Hlt & Hm). split; [auto|]. split.
    - eapply Forall_impl; [|exact Hlt]. intros a Ha. pose proof (ext_length _ _ E). simpl in *. lia.
    - destruct (nresult (get_node g i)).
      + destruct (is_shuffle p); auto.
        intros k id Hk. destruct (Hm k id Hk) as (Hn & t & Ht & R). split; auto.
        exists t. split; auto. eapply ext_nth_error; eauto.
      + intros k id Hk. destruct (Hm k id Hk) as (Hn & t & Ht & R). split; auto.
        exists t. split; auto. eapply ext_nth_error; eauto.
  Qed.

  (* how a dependency of a stage is wired, for the task [t] of one shard *)
  Definition wired_dep (s : list task) (t : task) (comb : bool) (d : dep) (td : tdep) : Prop :=
    dexp td = dexpand d /\
    if dshuffle d then
      dpart td = tshard t
      /\ ret_ok s (dtarget d) (mkPart (tnshard t) (dcustom d) comb (dckey td)) (members s td)
    else
      dpart td = 0 /\ dckey td = ""%string
      /\ exists ids, ret_ok s (dtarget d) part0 ids /\ nth_error ids (tshard t) = Some (dhead td).

  Definition stage_block (s : list task) (id : nat) (t : task) : Prop :=
    exists base, id = base + tshard t /\ n0 <= base
      /\ forall k, k < tnshard t ->
           exists u, nth_error s (base + k) = Some u /\ top u = top t /\ tshard u = k
                     /\ tnshard u = tnshard t /\ tinv u = tinv t.

  Definition task_ok (s : list task) (id : nat) (t : task) : Prop :=
    tinv t = inv
    /\ (forall td, In td (tdeps t) -> dhead td < List.length s /\ forall m, In m (members s td) -> m < id)
    /\ stage_block s id t
    /\ tshard t < tnshard t
    /\ ((exists i slices,
            nresult (get_node g i) = None /\ pipeline (S (List.length g)) g i = Some slices
            /\ tslices t = slices /\ tnshard t = nshard (get_node g i)
            /\ (tdeps t = []
                \/ Forall2 (wired_dep s t (ncomb (get_node g (last slices i))))
                           (ndeps (get_node g (last slices i))) (tdeps t)))
        \/ (exists rid, rid < n0 /\ tdeps t = [mkTDep rid 0 false ""%string]
                        /\ tslices t = tslices (get_task s rid))).

  Lemma members_ext s s' td : ext s s' -> dhead td < List.length s -> members s' td = members s td.
  Proof. intros E H. unfold members. now rewrite (ext_get_task _ _ _ E H). Qed.

  Lemma wired_dep_ext s s' t comb d td :
    ext s s' -> dhead td < List.length s -> wired_dep s t comb d td -> wired_dep s' t comb d td.
  Proof.
    intros E Hh (He & W). split; auto. destruct (dshuffle d).
    - destruct W as (Hp & R). split; auto. rewrite (members_ext _ _ _ E Hh). eapply ret_ok_ext; eauto.
    - destruct W as (Hp & Hk & ids & R & Hn). repeat split; auto. exists ids. split; auto. eapply ret_ok_ext; eauto.
  Qed.

  Lemma task_ok_ext s s' id t : ext s s' -> id < List.length s -> task_ok s id t -> task_ok s' id t.
  Proof.
    intros E Hid (Hi & Hr & Hb & Hs & Hk).
    pose proof (ext_length _ _ E) as HL.
    split; [auto|]. split; [|split; [|split; [auto|]]].
    - intros td Htd. destruct (Hr td Htd) as [Hh Hm]. split; [lia|].
      rewrite (members_ext _ _ _ E Hh). auto.
    - destruct Hb as (base & -> & Hb0 & Hb). exists base. repeat split; auto.
      intros k Hk'. destruct (Hb k Hk') as (u & Hu & R). exists u. split; auto. eapply ext_nth_error; eauto.
    - destruct Hk as [(i & slices & A & B & C & D & F)|(rid & A & B & C)]; [left|right].
      + exists i, slices. repeat split; auto. destruct F as [F|F]; [now left|right].
        clear - F E Hr. revert Hr. induction F; intro Hr; constructor.
        * eapply wired_dep_ext; eauto. apply Hr. simpl; auto.
        * apply IHF. intros td Htd. apply Hr. simpl; auto.
      + exists rid. repeat split; auto. rewrite (ext_get_task _ _ _ E); auto.
        destruct (Hr (mkTDep rid 0 false ""%string)) as [Hh _]; [rewrite B; simpl; auto|exact Hh].
  Qed.

  (* ---- the invariant ---- *)
  Definition inv_shape (st : cstate) : Prop :=
    (exists a, sstore st = init ++ a)
    /\ (forall id t, n0 <= id -> nth_error (sstore st) id = Some t -> task_ok (sstore st) id t)
    /\ (forall i np ids, memo_get (smemo st) (i, np) = Some ids ->
                         ret_ok (sstore st) i (mkPart np false false ""%string) ids).

  Definition part_wf (p : part) : Prop := pcomb p = false -> pckey p = ""%string.
  Definition pre_shape (i : nat) (p : part) (st : cstate) : Prop := inv_shape st /\ part_wf p.
  Definition post_shape (i : nat) (p : part) (st st' : cstate) (ids : list nat) : Prop :=
    inv_shape st' /\ ext (sstore st) (sstore st') /\ ret_ok (sstore st') i p ids.

  Lemma memoable_part p : memoable p = true -> part_wf p -> p = mkPart (pnum p) false false ""%string.
  Proof.
    unfold memoable, part_wf. intros M W. apply andb_true_iff in M as [A B].
    apply negb_true_iff in A, B. destruct p; simpl in *. rewrite A, B, (W A). reflexivity.
  Qed.

  Lemma store_ge_n0 st : inv_shape st -> n0 <= List.length (sstore st).
  Proof. intros ((a & ->) & _). rewrite app_length. lia. Qed.

  Lemma get_task_init st r : inv_shape st -> r < n0 -> get_task (sstore st) r = get_task init r.
  Proof. intros ((a & ->) & _) H. now apply get_task_app_l. Qed.

  (* appending tasks that are themselves fine keeps the invariant *)
  Lemma inv_shape_push st ts env nm :
    inv_shape st ->
    (forall k t, nth_error ts k = Some t ->
                 task_ok (sstore st ++ ts) (List.length (sstore st) + k) t) ->
    inv_shape (mkSt (sstore st ++ ts) nm (smemo st) env).
  Proof.
    intros I Hnew. pose proof (store_ge_n0 _ I) as Hge.
    destruct I as ((a & Ha) & Ht & Hm).
    assert (E : ext (sstore st) (sstore st ++ ts)) by (now exists ts).
    split; [|split]; simpl.
    - exists (a ++ ts). rewrite Ha. now rewrite app_assoc.
    - intros id t Hid Hn.
      destruct (Nat.lt_ge_cases id (List.length (sstore st))) as [Hlt|Hge'].
      + rewrite nth_error_app1 in Hn by auto. eapply task_ok_ext; eauto.
      + rewrite nth_error_app2 in Hn by auto.
        replace id with (List.length (sstore st) + (id - List.length (sstore st))) by lia.
        apply Hnew; auto.
    - intros i np ids Hg. eapply ret_ok_ext; eauto.
  Qed.

  (* ================= obligations of compile_ind ================= *)
  Lemma shape_memo : forall i p st ids,
    pre_shape i p st -> memoable p = true -> memo_get (smemo st) (i, pnum p) = Some ids ->
    post_shape i p st st ids.
  Proof.
    intros i p st ids [I W] M G. split; [auto|]. split; [apply ext_refl|].
    rewrite (memoable_part p M W). simpl. destruct I as (_ & _ & Hm). auto.
  Qed.

  Lemma shape_memo_add : forall i p st st' ids,
    pre_shape i p st -> post_shape i p st st' ids -> memoable p = true ->
    post_shape i p st (mkSt (sstore st') (snamer st') (((i, pnum p), ids) :: smemo st') (senv st')) ids.
  Proof.
    intros i p st st' ids [_ W] (I & E & R) M. split; [|split; auto].
    destruct I as (Ha & Ht & Hm). split; [|split]; simpl; auto.
    intros j np l. simpl.
    destruct (Nat.eqb i j && Nat.eqb (pnum p) np) eqn:K.
    - apply andb_true_iff in K as [K1 K2]. apply Nat.eqb_eq in K1, K2. subst j np.
      intro H; inversion H; subst l. rewrite (memoable_part p M W) in R. exact R.
    - apply Hm.
  Qed.

  Lemma shape_result : forall i p st rts st' ids,
    pre_shape i p st -> nresult (get_node g i) = Some rts ->
    compile_result inv fixed rts p st = COk st' ids -> post_shape i p st st' ids.
  Proof.
    intros i p st rts st' ids [I W] R H. unfold compile_result in H.
    destruct (existsb _ rts); [discriminate|].
    pose proof (store_ge_n0 _ I) as Hge.
    pose proof (Hres i rts R) as Hlt.
    destruct (Hwf i) as [_ Hlen]. specialize (Hlen rts R).
    destruct (is_shuffle p) eqn:S; cbn [negb] in H.
    2:{ inversion H; subst. split; [auto|]. split; [apply ext_refl|].
        split; [auto|]. split.
        - eapply Forall_impl; [|exact Hlt]. simpl; intros; lia.
        - rewrite R, S. reflexivity. }
    destruct rts as [|r0 rts']; [discriminate|].
    remember (r0 :: rts') as rts eqn:Erts.
    destruct (namer_new (snamer st) _) as [opn nm]. inversion H; subst st' ids; clear H.
    set (s := sstore st) in *.
    set (ids := seq (List.length s) (List.length rts)).
    set (ts := reshuffle_tasks inv fixed s opn p rts ids).
    assert (Hts : forall k t, nth_error ts k = Some t ->
              exists rid, nth_error rts k = Some rid /\
              t = mkTask inv opn k (List.length rts) (if cfg_partitioned fixed then part_num p else 0)
                         (if cfg_partitioned fixed then part_kind p else 0) (if cfg_partitioned fixed then pcomb p else false)
                         (if cfg_partitioned fixed then pckey p else ""%string) [mkTDep rid 0 false ""%string] ids
                         (tslices (get_task s rid))).
    { intros k t Hk. unfold ts, reshuffle_tasks in Hk.
      rewrite nth_error_map in Hk. destruct (nth_error (combine _ _) k) as [[a b]|] eqn:C; [|discriminate].
      apply nth_error_combine_seq in C. simpl in C. destruct C as [-> C].
      exists b. split; auto. inversion Hk. reflexivity. }
    assert (Hlen_ts : List.length ts = List.length rts).
    { unfold ts, reshuffle_tasks. rewrite map_length. apply combine_seq_length. }
    assert (E : ext s (s ++ ts)) by (now exists ts).
    assert (I' : inv_shape (mkSt (s ++ ts) nm (smemo st) (senv st))).
    { apply inv_shape_push; auto. fold s. intros k t Hk.
      destruct (Hts k t Hk) as (rid & Hrid & ->).
      assert (Hrlt : rid < n0). { rewrite Forall_forall in Hlt. apply Hlt. eapply nth_error_In; eauto. }
      assert (Hk' : k < List.length rts). { apply nth_error_Some. congruence. }
      split; [reflexivity|]. split; [|split; [|split]]; simpl.
      - intros td [<-|[]]. simpl. split; [rewrite app_length; lia|].
        intros m [<-|Hm]; [lia|].
        unfold members in Hm. simpl in Hm.
        assert (get_task (s ++ ts) rid = get_task init rid) as Eq.
        { rewrite get_task_app_l by lia. apply (get_task_init st); auto. }
        simpl in Hm. rewrite Eq in Hm.
        assert (m < n0). { apply (Hgrp rid); auto. destruct (tgroup (get_task init rid)); simpl in *; auto. }
        lia.
      - exists (List.length s). split; [reflexivity|]. split; [auto|].
        intros j Hj. simpl in Hj. destruct (nth_error ts j) as [u|] eqn:Hu.
        2:{ apply nth_error_None in Hu. lia. }
        exists u. split; [rewrite nth_error_app2 by lia; now replace (List.length s + j - List.length s) with j by lia|].
        destruct (Hts j u Hu) as (rid' & _ & ->). simpl. auto.
      - auto.
      - right. exists rid. repeat split; auto. rewrite get_task_app_l by lia. reflexivity. }
    split; [exact I'|]. split; [exact E|]. cbn [sstore].
    split; [|split].
    - unfold ids. rewrite seq_length. auto.
    - apply Forall_forall. intros id Hid. apply in_seq in Hid. rewrite app_length, Hlen_ts. lia.
    - rewrite R, S. intros k id Hk. apply nth_error_seq_inv in Hk as [Hk ->].
      split; [lia|].
      destruct (nth_error ts k) as [t|] eqn:Ht.
      2:{ apply nth_error_None in Ht. lia. }
      exists t. split; [rewrite nth_error_app2 by lia; now replace (List.length s + k - List.length s) with k by lia|].
      destruct (Hts k t Ht) as (rid & Hrid & ->). simpl.
      repeat split; auto.
      all: try (match goal with Hf : cfg_partitioned fixed = true |- _ => rewrite Hf; reflexivity end).
      f_equal. f_equal. symmetry. eapply nth_error_nth'; eauto.
  Qed.

  (* ---- dependencies of a stage ---- *)
  Definition dspec_ok (s : list task) (n : nat) (comb : bool) (ck : string) (d : dep) (sp : dspec) : Prop :=
    if dshuffle d then
      exists ids, sp = DShuf (hd 0 ids) (dexpand d) ck /\ (n <> 0 -> ids <> [])
                  /\ ret_ok s (dtarget d) (mkPart n (dcustom d) comb ck) ids
    else
      exists ids, sp = DPer ids (dexpand d) /\ List.length ids = n /\ ret_ok s (dtarget d) part0 ids.

  Lemma dspec_ok_ext s s' n comb ck d sp : ext s s' -> dspec_ok s n comb ck d sp -> dspec_ok s' n comb ck d sp.
  Proof.
    unfold dspec_ok; intros E H. destruct (dshuffle d).
    - destruct H as (ids & A & B & C). exists ids. split; [auto|]. split; [auto|]. eapply ret_ok_ext; eauto.
    - destruct H as (ids & A & B & C). exists ids. split; [auto|]. split; [auto|]. eapply ret_ok_ext; eauto.
  Qed.

  Lemma inv_shape_irrel a b : sstore a = sstore b -> smemo a = smemo b -> inv_shape a -> inv_shape b.
  Proof. unfold inv_shape. intros -> ->. auto. Qed.

  Definition rec_shape (rec : nat -> part -> cstate -> cres) (i : nat) : Prop :=
    forall j q s1 s2 l, j < i -> pre_shape j q s1 -> rec j q s1 = COk s2 l -> post_shape j q s1 s2 l.

  Lemma compile_deps_shape : forall rec i n comb ck,
    rec_shape rec i -> (comb = false -> ck = ""%string) ->
    forall l st st2 ds,
      (forall d, In d l -> dtarget d < i) -> inv_shape st ->
      compile_deps rec n comb ck l st = DOk st2 ds ->
      inv_shape st2 /\ ext (sstore st) (sstore st2) /\ Forall2 (dspec_ok (sstore st2) n comb ck) l ds.
  Proof.
    intros rec i n comb ck Hrec Hck. induction l as [|d l IH]; intros st st2 ds Hlt I H; simpl in H.
    - inversion H; subst. split; [auto|]. split; [apply ext_refl|constructor].
    - assert (Hd : dtarget d < i) by (apply Hlt; simpl; auto).
      assert (Hl : forall d', In d' l -> dtarget d' < i) by (intros; apply Hlt; simpl; auto).
      destruct (dshuffle d) eqn:S.
      + destruct (rec (dtarget d) (mkPart n (dcustom d) comb ck) st) as [st1 ids|] eqn:R; [|discriminate].
        destruct (Hrec _ _ _ _ _ Hd (conj I (Hck : part_wf (mkPart n (dcustom d) comb ck))) R) as (I1 & E1 & R1).
        assert (Hne : n <> 0 -> ids <> []).
        { intros Hn ->. destruct n; [congruence|discriminate]. }
        assert (H' : match compile_deps rec n comb ck l st1 with
                     | DOk st2 l0 => DOk st2 (DShuf (hd 0 ids) (dexpand d) ck :: l0)
                     | DFail e => DFail e end = DOk st2 ds).
        { destruct ids; [destruct n; [exact H|discriminate]|exact H]. }
        clear H. destruct (compile_deps rec n comb ck l st1) as [st2' l0|] eqn:D; [|discriminate].
        inversion H'; subst st2' ds; clear H'.
        destruct (IH _ _ _ Hl I1 D) as (I2 & E2 & F2).
        split; [auto|]. split; [eapply ext_trans; eauto|].
        constructor; auto. unfold dspec_ok. rewrite S. exists ids. split; [auto|]. split; [auto|].
        eapply ret_ok_ext; eauto.
      + destruct (rec (dtarget d) part0 st) as [st1 ids|] eqn:R; [|discriminate].
        assert (W0 : part_wf part0) by (intro; reflexivity).
        destruct (Hrec _ _ _ _ _ Hd (conj I W0) R) as (I1 & E1 & R1).
        destruct (List.length ids =? n) eqn:Len; simpl in H; [|discriminate].
        apply Nat.eqb_eq in Len.
        destruct (compile_deps rec n comb ck l st1) as [st2' l0|] eqn:D; [|discriminate].
        inversion H; subst st2' ds; clear H.
        destruct (IH _ _ _ Hl I1 D) as (I2 & E2 & F2).
        split; [auto|]. split; [eapply ext_trans; eauto|].
        constructor; auto. unfold dspec_ok. rewrite S. exists ids. split; [auto|]. split; [auto|].
        eapply ret_ok_ext; eauto.
  Qed.

  Lemma is_shuffle_mk n c b k : n <> 0 -> is_shuffle (mkPart n c b k) = true.
  Proof. unfold is_shuffle; simpl. intro H. apply negb_true_iff, Nat.eqb_neq. auto. Qed.

  (* a shuffle dependency comprises exactly the tasks of the producing stage *)
  Lemma members_of_stage s j q ids pt ex ck :
    ret_ok s j q ids -> is_shuffle q = true -> ids <> [] -> members s (mkTDep (hd 0 ids) pt ex ck) = ids.
  Proof.
    intros (_ & _ & Hm) S Hne. destruct ids as [|h tl]; [congruence|]. unfold members; simpl.
    assert (tgroup (get_task s h) = h :: tl) as ->; [|reflexivity].
    destruct (nresult (get_node g j)).
    - rewrite S in Hm. destruct (Hm 0 h eq_refl) as (_ & t & Ht & _ & _ & _ & Hg & _).
      now rewrite (nth_error_get_task _ _ _ Ht).
    - destruct (Hm 0 h eq_refl) as (_ & t & Ht & _ & _ & _ & _ & Hg & _).
      rewrite S in Hg. now rewrite (nth_error_get_task _ _ _ Ht).
  Qed.

  Lemma stage_tasks_nth opn n p ds group slices k t :
    nth_error (stage_tasks inv opn n p ds group slices) k = Some t ->
    k < n /\ t = mkTask inv opn k n (part_num p) (part_kind p) (pcomb p) (pckey p)
                        (map (inst_dep k) ds) group slices.
  Proof.
    unfold stage_tasks. rewrite nth_error_map.
    destruct (nth_error (seq 0 n) k) eqn:E; [|discriminate].
    apply nth_error_seq_inv in E as [Hk ->]. intro H; inversion H. auto.
  Qed.

  Lemma shape_slices : forall rec i p st st' ids,
    rec_shape rec i -> pre_shape i p st -> nresult (get_node g i) = None ->
    compile_slices g inv mc rec i p st = COk st' ids -> post_shape i p st st' ids.
  Proof.
    intros rec i p st st' ids Hrec [I W] R H. unfold compile_slices in H.
    destruct (pipeline (Datatypes.S (List.length g)) g i) as [slices|] eqn:P; [|discriminate].
    pose proof (pipeline_spec g Hwf _ _ _ P) as PS. rewrite R in PS.
    destruct PS as (r & Hsl & Hch & Hle & Hlast & Hall).
    destruct (namer_new (snamer st) (op_base g inv slices)) as [opn nm].
    set (lastn := get_node g (last slices i)) in *.
    set (n := nshard (get_node g i)) in *.
    set (ck := if ncomb lastn && mc then opn else ""%string) in *.
    set (st1 := mkSt (sstore st) nm (smemo st) (senv st)) in *.
    destruct (compile_deps rec n (ncomb lastn) ck (ndeps lastn) st1) as [st2 ds|] eqn:D; [|discriminate].
    set (base := List.length (sstore st2)) in *.
    set (idl := seq base n) in *.
    set (group := if is_shuffle p then idl else []) in *.
    set (ts := stage_tasks inv opn n p ds group slices) in *.
    destruct (cache_loop _ (senv st2) ts) as [env' ts'] eqn:CL.
    inversion H; subst st' ids; clear H.
    assert (I1 : inv_shape st1) by (eapply inv_shape_irrel; [| |exact I]; reflexivity).
    assert (Hck : ncomb lastn = false -> ck = ""%string) by (unfold ck; intros ->; reflexivity).
    assert (Hdl : forall d, In d (ndeps lastn) -> dtarget d < i).
    { intros d Hd. destruct (Hwf (last slices i)) as [Hw _]. destruct (Hw d Hd) as [Hlt _].
      assert (last slices i <= i). { apply Hle. subst slices. apply last_in. }
      lia. }
    destruct (compile_deps_shape rec i n (ncomb lastn) ck Hrec Hck _ _ _ _ Hdl I1 D) as (I2 & E2 & F2).
    simpl in E2.
    pose proof (cache_loop_spec _ _ _ _ _ CL) as Hdrop.
    pose proof (store_ge_n0 _ I2) as Hge2. fold base in Hge2.
    set (s' := sstore st2 ++ ts').
    assert (Es' : ext (sstore st2) s') by (now exists ts').
    assert (Hlen' : List.length ts' = n).
    { rewrite <- (Forall2_length _ _ _ Hdrop). unfold ts, stage_tasks. now rewrite map_length, seq_length. }
    (* every new task, with the task it was before the cache loop *)
    assert (Hnew : forall k t', nth_error ts' k = Some t' ->
              k < n /\ dropped (mkTask inv opn k n (part_num p) (part_kind p) (pcomb p) (pckey p)
                                       (map (inst_dep k) ds) group slices) t').
    { intros k t' Hk. destruct (Forall2_nth_error _ _ _ Hdrop k t' Hk) as (t & Ht & Hd).
      apply stage_tasks_nth in Ht as [Hkn ->]. auto. }
    assert (I' : inv_shape (mkSt s' (snamer st2) (smemo st2) env')).
    { apply inv_shape_push; auto. fold base. fold s'. intros k t' Hk.
      destruct (Hnew k t' Hk) as [Hkn Hd]. apply dropped_fields in Hd. simpl in Hd.
      destruct Hd as (Hinv & Htop & Hsh & Hnsh & _ & _ & _ & _ & _ & Hsl' & Hdeps).
      assert (Hn0 : n <> 0) by lia.
      (* the dependencies before the cache loop *)
      assert (Hdep_all : forall td, In td (map (inst_dep k) ds) ->
                dhead td < List.length s' /\ forall m, In m (members s' td) -> m < base + k).
      { intros td Htd. apply in_map_iff in Htd as (sp & <- & Hsp).
        destruct (In_nth_error _ _ Hsp) as [j Hj].
        destruct (Forall2_nth_error _ _ _ F2 j sp Hj) as (d & Hdj & Hok).
        unfold dspec_ok in Hok. destruct (dshuffle d) eqn:S.
        - destruct Hok as (dids & -> & Hne & Rk). cbn [inst_dep dhead].
          specialize (Hne Hn0).
          assert (Hlt : Forall (fun id => id < base) dids) by (destruct Rk as (_ & A & _); exact A).
          assert (Hh : hd 0 dids < base).
          { destruct dids; [congruence|]. inversion Hlt; auto. }
          split; [unfold s'; rewrite app_length; lia|].
          rewrite (members_ext _ _ _ Es') by exact Hh.
          rewrite (members_of_stage _ _ _ _ _ _ _ Rk (is_shuffle_mk _ _ _ _ Hn0) Hne).
          intros m Hm. rewrite Forall_forall in Hlt. specialize (Hlt m Hm). lia.
        - destruct Hok as (dids & -> & Hl & Rk). cbn [inst_dep dhead].
          assert (Hlt : Forall (fun id => id < base) dids) by (destruct Rk as (_ & A & _); exact A).
          assert (Hh : nth k dids 0 < base).
          { rewrite Forall_forall in Hlt. apply Hlt. apply nth_In. lia. }
          split; [unfold s'; rewrite app_length; lia|].
          rewrite (members_ext _ _ _ Es') by exact Hh.
          unfold members; cbn [dhead].
          intros m [<-|Hm]; [lia|].
          destruct Rk as (_ & _ & Hm3).
          destruct (nresult (get_node g (dtarget d))) as [rts|] eqn:Rd.
          + (* a Result's own task: its peers are in the initial store *)
            simpl in Hm3. subst dids.
            assert (Hr : nth k rts 0 < n0).
            { pose proof (Hres _ _ Rd) as F. rewrite Forall_forall in F. apply F. apply nth_In. lia. }
            rewrite (get_task_init st2 _ I2 Hr) in Hm.
            assert (m < n0). { apply (Hgrp (nth k rts 0)); auto. destruct (tgroup (get_task init (nth k rts 0))); simpl in *; auto. }
            lia.
          + destruct (Hm3 k (nth k dids 0)) as (_ & t & Ht & _ & _ & _ & _ & Hg & _).
            { apply nth_nth_error. lia. }
            rewrite (nth_error_get_task _ _ _ Ht) in Hm. simpl in Hg. rewrite Hg in Hm. contradiction. }
      split; [exact Hinv|]. split; [|split; [|split]].
      - intros td Htd. destruct Hdeps as [Hd|Hd]; rewrite Hd in Htd; [auto|contradiction].
      - exists base. rewrite Hsh. split; [reflexivity|]. split; [exact Hge2|].
        rewrite Hnsh. intros j Hj.
        destruct (nth_error ts' j) as [u|] eqn:Hu.
        2:{ apply nth_error_None in Hu. lia. }
        exists u. split.
        { unfold s'. rewrite nth_error_app2 by (fold base; lia). fold base.
          now replace (base + j - base) with j by lia. }
        destruct (Hnew j u Hu) as [_ Hd']. apply dropped_fields in Hd'. simpl in Hd'.
        destruct Hd' as (A & B & C & D' & _). rewrite A, B, C, D', Htop, Hinv. auto.
      - rewrite Hsh, Hnsh. exact Hkn.
      - left. exists i, slices. rewrite Hsl', Hnsh. repeat split; auto.
        destruct Hdeps as [Hd|Hd]; [right|now left]. rewrite Hd.
        fold lastn.
        (* wire every dependency *)
        clear - F2 Hsh Hnsh Hn0 Es' Hkn I2 Hge2.
        assert (G : forall l ds0, Forall2 (dspec_ok (sstore st2) n (ncomb lastn) ck) l ds0 ->
                    Forall2 (wired_dep s' t' (ncomb lastn)) l (map (inst_dep k) ds0)).
        { induction 1 as [|d sp l ds0 Hok _ IHF]; simpl; constructor; auto.
          unfold dspec_ok in Hok. unfold wired_dep. destruct (dshuffle d) eqn:S.
          - destruct Hok as (dids & -> & Hne & Rk). simpl. specialize (Hne Hn0).
            split; [reflexivity|]. split; [auto|].
            assert (Hlt : Forall (fun id => id < base) dids) by (destruct Rk as (_ & A & _); exact A).
            assert (Hh : hd 0 dids < base).
            { destruct dids; [congruence|]. inversion Hlt; auto. }
            rewrite (members_ext _ _ _ Es') by exact Hh.
            rewrite (members_of_stage _ _ _ _ _ _ _ Rk (is_shuffle_mk _ _ _ _ Hn0) Hne).
            rewrite Hnsh. eapply ret_ok_ext; eauto.
          - destruct Hok as (dids & -> & Hl & Rk). simpl.
            split; [reflexivity|]. split; [reflexivity|]. split; [reflexivity|].
            exists dids. split; [eapply ret_ok_ext; eauto|].
            rewrite Hsh. apply nth_nth_error. lia. }
        apply G. exact F2. }
    split; [exact I'|]. split; [eapply ext_trans; eauto|]. cbn [sstore]. fold s'.
    (* what the caller learns *)
    split; [unfold idl; now rewrite seq_length|]. split.
    - apply Forall_forall. intros id Hid. unfold idl in Hid. apply in_seq in Hid.
      unfold s'. rewrite app_length, Hlen'. fold base. lia.
    - rewrite R. intros k id Hk. unfold idl in Hk. apply nth_error_seq_inv in Hk as [Hk ->].
      split; [lia|].
      destruct (nth_error ts' k) as [t'|] eqn:Ht.
      2:{ apply nth_error_None in Ht. lia. }
      exists t'. split.
      { unfold s'. rewrite nth_error_app2 by (fold base; lia). fold base.
        now replace (base + k - base) with k by lia. }
      destruct (Hnew k t' Ht) as [_ Hd]. apply dropped_fields in Hd. simpl in Hd.
      destruct Hd as (A & B & C & D' & E' & F' & G' & H' & J' & K' & _).
      unfold part_fields. rewrite A, C, D', E', F', G', H', J', K'. subst slices. simpl.
      repeat split; auto.
  Qed.

  (* ================= the invariant holds of every compilation ================= *)
  Theorem compile_shape : forall fuel i p st st' ids,
    i < fuel -> inv_shape st -> part_wf p ->
    compile g inv mc fixed fuel i p st = COk st' ids -> post_shape i p st st' ids.
  Proof.
    intros fuel i p st st' ids Hi I W H.
    eapply (compile_ind g inv mc fixed pre_shape post_shape); eauto.
    - apply shape_memo.
    - apply shape_result.
    - intros. eapply shape_slices; eauto.
    - apply shape_memo_add.
    - split; auto.
  Qed.
End Shape.

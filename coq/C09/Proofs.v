(* C09 — the combiner with spills, the specification checkers, and the top-level theorems. *)
From Coq Require Import List ZArith NArith Lia Bool Permutation Sorted.
Import ListNotations.
Require Import BS.Common.Util BS.C09.Model BS.C09.Spec BS.C09.Arith BS.C09.Lists
               BS.C09.Table BS.C09.Frame BS.C09.Merge.
Local Open Scope Z_scope.

(* ================= the specification: gather = fold of the values of a key ================= *)
Section SpecFacts.
Variable comb : Z -> Z -> Z.

Lemma gather_from_vals : forall rows acc k,
  gather_from comb acc rows k =
  match acc with
  | None => fold1 comb (vals_of k rows)
  | Some a => Some (fold_left comb (vals_of k rows) a)
  end.
Proof.
  unfold gather_from, vals_of.
  induction rows as [|r rows IH]; intros acc k; simpl.
  - destruct acc; reflexivity.
  - rewrite IH. unfold sel. destruct (keq (fst r) k); simpl.
    + destruct acc; reflexivity.
    + rewrite omerge_None_r. reflexivity.
Qed.

(* value = comb (.. (comb v1 v2) ..) vn over the values fed for the key, in order *)
Lemma gather_vals rows k : gather comb rows k = fold1 comb (vals_of k rows).
Proof. unfold gather. now rewrite gather_from_vals. Qed.

Lemma gather_None rows k : ~ In k (map fst rows) -> gather comb rows k = None.
Proof.
  intro H. rewrite gather_vals. unfold vals_of.
  replace (filter (fun r => keq (fst r) k) rows) with (@nil (list Z * Z)); auto.
  symmetry. induction rows as [|r rows IH]; simpl in *; auto.
  destruct (keq (fst r) k) eqn:E; [apply keq_eq in E; tauto | apply IH; tauto].
Qed.

Lemma gather_Some rows k : In k (map fst rows) -> gather comb rows k <> None.
Proof.
  intro H. rewrite gather_vals. unfold vals_of.
  induction rows as [|r rows IH]; simpl in *; [tauto|].
  destruct (keq (fst r) k) eqn:E; simpl; [discriminate|].
  apply keq_neq in E. apply IH. tauto.
Qed.

(* the checker demands exactly: ascending, and per key the prescribed value *)
Lemma spec_ok_iff input out :
  spec_ok comb input out = true <-> asc out /\ forall k, lookup k out = gather comb input k.
Proof.
  unfold spec_ok. rewrite andb_true_iff, asc_b_asc, forallb_forall. split.
  - intros [A H]. split; auto. intro k.
    destruct (in_dec key_eq_dec k (map fst input ++ map fst out)) as [Hin|Hn].
    + specialize (H k Hin). destruct (lookup k out), (gather comb input k); simpl in H; try discriminate; auto.
      apply Z.eqb_eq in H. congruence.
    + rewrite in_app_iff in Hn. rewrite gather_None by tauto. apply lookup_None. tauto.
  - intros [A H]. split; auto. intros k _. rewrite H.
    destruct (gather comb input k); simpl; auto. apply Z.eqb_refl.
Qed.

(* one row per distinct input key *)
Lemma spec_ok_keys input out : spec_ok comb input out = true ->
  NoDup (map fst out) /\ forall k, In k (map fst out) <-> In k (map fst input).
Proof.
  intro H. apply spec_ok_iff in H as [A L]. split; [now apply asc_nodup|].
  intro k. rewrite <- lookup_in_keys, L. split.
  - intro G. destruct (in_dec key_eq_dec k (map fst input)); auto. now rewrite gather_None in G.
  - apply gather_Some.
Qed.

End SpecFacts.

(* ================= finite-map view of Combine: fold of insert-or-combine ================= *)
Section Upsert.
Variable comb : Z -> Z -> Z.

Fixpoint upsert (m : list (list Z * Z)) (r : list Z * Z) : list (list Z * Z) :=
  match m with
  | [] => [r]
  | x :: m' => if keq (fst x) (fst r) then (fst x, comb (snd x) (snd r)) :: m' else x :: upsert m' r
  end.

Lemma lookup_upsert : forall m r k, lookup k (upsert m r) = omerge comb (lookup k m) (sel k r).
Proof.
  induction m as [|x m IH]; intros r k; simpl.
  - rewrite lookup_cons, lookup_nil. unfold sel. destruct (keq (fst r) k); reflexivity.
  - destruct (keq (fst x) (fst r)) eqn:E.
    + apply keq_eq in E. rewrite !lookup_cons. unfold sel. simpl. rewrite <- E.
      destruct (keq (fst x) k); simpl; auto. now rewrite omerge_None_r.
    + apply keq_neq in E. rewrite !lookup_cons, IH. unfold sel.
      destruct (keq (fst x) k) eqn:E1; auto. apply keq_eq in E1. subst k.
      replace (keq (fst r) (fst x)) with false; auto. symmetry. apply keq_neq. congruence.
Qed.

Lemma upsert_keys_incl : forall m r k, In k (map fst (upsert m r)) -> k = fst r \/ In k (map fst m).
Proof.
  induction m as [|x m IH]; intros r k; simpl; [intros [H|[]]; auto|].
  destruct (keq (fst x) (fst r)); simpl; [tauto|]. intros [H|H]; auto. apply IH in H. tauto.
Qed.

Lemma upsert_nodup : forall m r, NoDup (map fst m) -> NoDup (map fst (upsert m r)).
Proof.
  induction m as [|x m IH]; intros r N; simpl; [repeat constructor; auto|].
  inversion N; subst. destruct (keq (fst x) (fst r)) eqn:E; simpl; [constructor; auto|].
  constructor; auto. intro H. apply upsert_keys_incl in H as [H|H]; auto.
  apply keq_neq in E. congruence.
Qed.

Lemma fold_upsert_lookup : forall rows m k,
  lookup k (fold_left upsert rows m) = gather_from comb (lookup k m) rows k.
Proof.
  induction rows as [|r rows IH]; intros m k; simpl; auto.
  rewrite IH, lookup_upsert. reflexivity.
Qed.

Lemma fold_upsert_nodup : forall rows m, NoDup (map fst m) -> NoDup (map fst (fold_left upsert rows m)).
Proof. induction rows as [|r rows IH]; intros m N; simpl; auto. apply IH, upsert_nodup, N. Qed.

Lemma lookup_ext_perm l1 l2 : NoDup (map fst l1) -> NoDup (map fst l2) ->
  (forall k, lookup k l1 = lookup k l2) -> Permutation l1 l2.
Proof.
  intros N1 N2 H. apply NoDup_Permutation; try (eapply NoDup_map_inv; eassumption).
  intros [k v]. rewrite <- !lookup_iff by auto. now rewrite H.
Qed.

End Upsert.

(* ================= frame-level theorems in their final form ================= *)
Section Top.
Variable h : list Z -> N.
Variable comb : Z -> Z -> Z.

Notation wf := (wf h).

(* table_abstraction: the occupied slots are a finite map with distinct keys *)
Theorem table_abstraction t : wf t ->
  NoDup (map fst (abs t)) /\ clen t = Z.of_nat (length (abs t)) /\
  (forall r, In r (abs t) <->
     exists i n, nth_error (cslots t) i = Some r /\ nth_error (chits t) i = Some n /\ n <> 0) /\
  (forall k v, lookup k (abs t) = Some v <-> In (k, v) (abs t)).
Proof.
  intro W. split; [now apply (wf_keys_nodup h)|]. split; [now apply (wf_len_abs h)|].
  split; [intro r; apply In_abs|]. intros k v. apply lookup_iff. now apply (wf_keys_nodup h).
Qed.

Theorem insert_preserves_wf t r t' : wf t -> insert_row h comb t r = Ok t' -> wf t'.
Proof. intros W E. now destruct (insert_row_lookup h comb t r t' W E). Qed.

(* combine_spec: Combine is the fold of insert-or-combine, as finite maps *)
Theorem combine_spec t rows t' : wf t -> (0 < cscratch t)%nat -> Combine h comb t rows = Ok t' ->
  wf t' /\ cscratch t' = cscratch t /\ cnk t' = cnk t /\
  (forall k, lookup k (abs t') = gather_from comb (lookup k (abs t)) rows k) /\
  Permutation (abs t') (fold_left (upsert comb) rows (abs t)).
Proof.
  intros W Hs E. rewrite Combine_eq in E by auto.
  pose proof (combine_rows_spec h comb rows t W) as S. rewrite E in S.
  destruct S as [W' [S' [K' L']]]. split; [exact W'|]. split; [exact S'|]. split; [exact K'|]. split; [exact L'|].
  apply lookup_ext_perm.
  - now apply (wf_keys_nodup h).
  - apply fold_upsert_nodup. now apply (wf_keys_nodup h).
  - intro k. now rewrite L', fold_upsert_lookup.
Qed.

Theorem Combine_never_out_of_fuel t rows : wf t -> (0 < cscratch t)%nat ->
  Combine h comb t rows <> OutOfFuel.
Proof.
  intros W Hs E. rewrite Combine_eq in E by auto.
  pose proof (combine_rows_spec h comb rows t W) as S. now rewrite E in S.
Qed.

(* growth_preserves: doubling and rehashing keeps exactly the rows *)
Theorem growth_preserves t1 k t' :
  wf_tab h t1 k -> clen t1 + 1 = Z.of_nat (count (chits t1)) -> clen t1 < Z.of_nat (ccap t1) ->
  added h t1 = Ok t' -> wf t' /\ Permutation (abs t') (abs t1).
Proof.
  intros W L R E. pose proof (added_spec h t1 k W L R) as S. rewrite E in S.
  destruct S as [W' [A _]]. split; auto.
  apply NoDup_Permutation; auto.
  - destruct W' as [[k' Wk'] _ _]. eapply abs_nodup; eauto.
  - eapply abs_nodup; eauto.
Qed.

(* ================= the combiner ================= *)
Hypothesis comb_assoc : forall a b c, comb a (comb b c) = comb (comb a b) c.

Lemma omerge_assoc a b c : omerge comb a (omerge comb b c) = omerge comb (omerge comb a b) c.
Proof. destruct a, b, c; simpl; auto. now rewrite comb_assoc. Qed.

Lemma fold_omerge_acc : forall os acc,
  fold_left (omerge comb) os acc = omerge comb acc (fold_left (omerge comb) os None).
Proof.
  induction os as [|o os IH]; intro acc; simpl.
  - now rewrite omerge_None_r.
  - rewrite IH, (IH o). now rewrite omerge_assoc.
Qed.

Lemma gather_from_acc acc rows k : gather_from comb acc rows k = omerge comb acc (gather comb rows k).
Proof. unfold gather, gather_from. apply fold_omerge_acc. Qed.

Lemma gather_app a b k : gather comb (a ++ b) k = omerge comb (gather comb a k) (gather comb b k).
Proof.
  unfold gather, gather_from. rewrite map_app, fold_left_app. apply fold_omerge_acc.
Qed.

(* what the combiner holds for a key: runs (in spill order), then the table *)
Definition cden (c : combiner) (k : list Z) : option Z :=
  olist comb (map (lookup k) (cruns c ++ [abs (ccomb c)])).

Record cwf (c : combiner) : Prop := {
  cwf_t : wf (ccomb c);
  cwf_runs : Forall asc (cruns c);
  cwf_scr : (0 < cscratch (ccomb c))%nat
}.

Lemma cden_split c k :
  cden c k = omerge comb (olist comb (map (lookup k) (cruns c))) (lookup k (abs (ccomb c))).
Proof.
  unfold cden, olist. rewrite map_app, fold_left_app. reflexivity.
Qed.

(* a table with no hits is an empty, well-formed table *)
Lemma empty_wf t k : ccap t = (2 ^ k)%nat -> length (cslots t) = ccap t -> chits t = repeat 0 (ccap t) ->
  cmask t = (N.of_nat (ccap t) - 1)%N -> cthreshold t = threshold_of (ccap t) -> clen t = 0 ->
  wf t /\ abs t = [].
Proof.
  intros C S H M T L. split.
  - constructor.
    + exists k. constructor; auto.
      * rewrite H. apply repeat_length.
      * rewrite H. apply Forall_forall. intros x Hx. apply repeat_spec in Hx. lia.
      * intros i r n _ Hn N. rewrite H in Hn. apply nth_error_repeat in Hn. contradiction.
    + rewrite H, count_repeat. exact L.
    + rewrite L, C. pose proof (pow2_pos k). lia.
  - unfold abs. rewrite H. apply occ_rows_repeat0.
Qed.

Lemma sort_prefix_wf t j : wf t -> chits t = repeat 0 (ccap t) -> clen t = 0 ->
  wf (sort_prefix t j) /\ abs (sort_prefix t j) = [] /\ cscratch (sort_prefix t j) = cscratch t
  /\ ccap (sort_prefix t j) = ccap t /\ clen (sort_prefix t j) = 0.
Proof.
  intros [[k W] _ _] H L.
  destruct (empty_wf (sort_prefix t j) k) as [W' A']; unfold sort_prefix;
    cbn [ccap cslots chits cmask cthreshold clen cscratch with_tab]; auto; try apply W.
  rewrite app_length, sort_length, <- app_length, firstn_skipn. apply W.
Qed.

Lemma c_combine_spec c batch : cwf c ->
  match c_combine h comb c batch with
  | Ok c' => cwf c' /\ ctarget c' = ctarget c /\
             forall k, cden c' k = omerge comb (cden c k) (gather comb batch k)
  | Panic => True
  | OutOfFuel => False
  end.
Proof.
  intros [W A Hs]. unfold c_combine.
  pose proof (Combine_never_out_of_fuel (ccomb c) batch W Hs) as NF.
  destruct (Combine h comb (ccomb c) batch) as [t'| |] eqn:E; simpl; auto.
  destruct (combine_spec (ccomb c) batch t' W Hs E) as [W' [S' [K' [L' _]]]].
  assert (D : forall k, omerge comb (olist comb (map (lookup k) (cruns c))) (lookup k (abs t'))
                        = omerge comb (cden c k) (gather comb batch k)).
  { intro k. rewrite L', gather_from_acc, omerge_assoc, <- cden_split. reflexivity. }
  destruct (ctarget c <=? clen (ccomb c)) eqn:Sp; rewrite Z.geb_leb, Sp.
  - pose proof (compact_spec h t' W') as CS.
    destruct (compact t') as [[rows j] t''].
    destruct CS as [Er [ND [Ej [W'' [A'' [L'' [C'' [S'' [K'' [H'' _]]]]]]]]]].
    rewrite <- C'' in H''.
    destruct (sort_prefix_wf t'' j W'' H'' L'') as [Ws [As [Ss _]]].
    split; [|split; [reflexivity|]].
    + constructor; cbn [ccomb cruns]; auto; [|congruence].
      apply Forall_app. split; auto. constructor; auto. now apply sort_asc.
    + intro k. rewrite cden_split. cbn [ccomb cruns]. rewrite As, lookup_nil, omerge_None_r.
      unfold olist. rewrite map_app, fold_left_app. simpl. rewrite sort_lookup by auto.
      rewrite Er. apply D.
  - split; [|split; [reflexivity|]].
    + constructor; cbn [ccomb cruns]; auto. congruence.
    + intro k. rewrite cden_split. cbn [ccomb cruns]. apply D.
Qed.

Lemma c_feed_spec : forall batches c, cwf c ->
  match c_feed h comb c batches with
  | Ok c' => cwf c' /\ forall k, cden c' k = omerge comb (cden c k) (gather comb (concat batches) k)
  | Panic => True
  | OutOfFuel => False
  end.
Proof.
  induction batches as [|b bs IH]; intros c W; simpl.
  - split; auto. intro k. unfold gather, gather_from. simpl. now rewrite omerge_None_r.
  - pose proof (c_combine_spec c b W) as S.
    destruct (c_combine h comb c b) as [c1| |]; simpl; auto.
    destruct S as [W1 [_ D1]]. specialize (IH c1 W1).
    destruct (c_feed h comb c1 bs) as [c'| |]; auto.
    destruct IH as [W' D']. split; auto.
    intro k. rewrite D', D1, gather_app, omerge_assoc. reflexivity.
Qed.

Lemma new_combiner_wf nk k ns target : (0 < ns)%nat ->
  exists c, new_combiner nk (2 ^ k) ns target = Ok c /\ cwf c /\ (forall key, cden c key = None)
            /\ ccap (ccomb c) = (2 ^ k)%nat /\ clen (ccomb c) = 0 /\ ctarget c = target.
Proof.
  intro Hs. unfold new_combiner.
  destruct (make_wf h nk k ns) as [t [-> [W [A [S [K C]]]]]]. simpl.
  eexists. split; [reflexivity|]. split; [|split; [|split; [exact C | split; [|reflexivity]]]].
  - constructor; cbn [ccomb cruns]; auto. lia.
  - intro key. unfold cden. cbn [ccomb cruns]. rewrite A. reflexivity.
  - cbn [ccomb]. rewrite (wf_len_abs h t W), A. reflexivity.
Qed.

(* ---- Reader ---- *)
Hypothesis comb_comm : forall a b, comb a b = comb b a.

Lemma omerge_comm a b : omerge comb a b = omerge comb b a.
Proof. destruct a, b; simpl; auto. now rewrite comb_comm. Qed.

Lemma fold_omerge_perm : forall l1 l2, Permutation l1 l2 ->
  forall acc, fold_left (omerge comb) l1 acc = fold_left (omerge comb) l2 acc.
Proof.
  induction 1 as [|x l1 l2 P IH|x y l|l1 l2 l3 P1 IH1 P2 IH2]; intro acc; simpl; auto.
  - rewrite <- !omerge_assoc, (omerge_comm y x). reflexivity.
  - now rewrite IH1.
Qed.

(* reading: whatever the order in which the spiller lists its files *)
Lemma c_reader_spec c runs' : cwf c -> Permutation runs' (cruns c) ->
  exists out c', c_reader_with comb c runs' = Ok (out, c') /\ asc out /\
    (forall k, lookup k out = cden c k) /\ cruns c' = [].
Proof.
  intros [W A Hs] P. unfold c_reader_with.
  pose proof (compact_spec h (ccomb c) W) as CS.
  destruct (compact (ccomb c)) as [[rows j] t'].
  destruct CS as [Er [ND _]].
  assert (A' : Forall asc (runs' ++ [sort_rows rows])).
  { apply Forall_app. split.
    - rewrite Forall_forall in *. intros x Hx. apply A. eapply Permutation_in; eauto.
    - constructor; auto. now apply sort_asc. }
  destruct (reduce_merge_spec comb _ A') as [out [E [Ao L]]]. rewrite E. simpl.
  eexists. eexists. split; [reflexivity|]. split; auto. split; [|reflexivity].
  intro k. rewrite L. unfold cden, olist. rewrite !map_app. simpl.
  rewrite sort_lookup, Er by auto.
  apply fold_omerge_perm. apply Permutation_app_tail, Permutation_map, P.
Qed.

(* combiner_spec: for every hash function, capacity 2^k, scratch size, spill
   threshold (any integer) and sequence of batches: reading back yields an
   ascending list with one row per distinct key whose value is the fold of the
   values fed for that key — whatever the number of spills and the order in
   which the spill files are listed; afterwards no spill file is left. *)
Theorem combiner_spec nk k ns target batches : (0 < ns)%nat ->
  match bind (new_combiner nk (2 ^ k) ns target) (fun c => c_feed h comb c batches) with
  | Ok c =>
      forall runs', Permutation runs' (cruns c) ->
      exists out c', c_reader_with comb c runs' = Ok (out, c') /\
        asc out /\
        (forall key, lookup key out = fold1 comb (vals_of key (concat batches))) /\
        spec_ok comb (concat batches) out = true /\
        cruns c' = []
  | Panic => True            (* "hash table too large": see combiner_total *)
  | OutOfFuel => False
  end.
Proof.
  intro Hs. destruct (new_combiner_wf nk k ns target Hs) as [c0 [-> [W0 [D0 _]]]]. simpl.
  pose proof (c_feed_spec batches c0 W0) as S.
  destruct (c_feed h comb c0 batches) as [c| |]; auto.
  destruct S as [W D]. intros runs' P.
  destruct (c_reader_spec c runs' W P) as [out [c' [E [Ao [L R]]]]].
  exists out, c'. split; auto. split; auto.
  assert (G : forall key, lookup key out = gather comb (concat batches) key).
  { intro key. rewrite L, D, D0. reflexivity. }
  split; [intro key; rewrite G; apply gather_vals|]. split; auto.
  apply spec_ok_iff. auto.
Qed.

(* ---- totality: no panic while at most max_keys rows have been fed ---- *)
Lemma c_combine_total c batch : cwf c ->
  Z.of_nat (ccap (ccomb c)) <= hash_max_capacity ->
  clen (ccomb c) + Z.of_nat (length batch) <= max_keys ->
  exists c', c_combine h comb c batch = Ok c' /\ Z.of_nat (ccap (ccomb c')) <= hash_max_capacity /\
             clen (ccomb c') <= clen (ccomb c) + Z.of_nat (length batch).
Proof.
  intros [W A Hs] Cm Lm. unfold c_combine. rewrite Combine_eq by auto.
  destruct (combine_rows_total h comb batch (ccomb c) W Cm Lm) as [t' [E [C' L']]]. rewrite E. simpl.
  pose proof (combine_rows_spec h comb batch (ccomb c) W) as S. rewrite E in S. destruct S as [W' _].
  destruct (clen (ccomb c) >=? ctarget c).
  - pose proof (compact_spec h t' W') as CS.
    destruct (compact t') as [[rows j] t''].
    destruct CS as [_ [_ [_ [W'' [_ [L'' [C'' [_ [_ [H'' _]]]]]]]]]]. rewrite <- C'' in H''.
    destruct (sort_prefix_wf t'' j W'' H'' L'') as [_ [_ [_ [Cs Ls]]]].
    eexists. split; [reflexivity|]. cbn [ccomb]. rewrite Cs, Ls, C''. split; auto.
    pose proof (wf_len_abs h _ W). lia.
  - eexists. split; [reflexivity|]. cbn [ccomb]. auto.
Qed.

Theorem combiner_total nk k ns target batches : (0 < ns)%nat ->
  Z.of_nat (2 ^ k) <= hash_max_capacity ->
  Z.of_nat (length (concat batches)) <= max_keys ->
  exists c, bind (new_combiner nk (2 ^ k) ns target) (fun c => c_feed h comb c batches) = Ok c.
Proof.
  intros Hs Ck Ln. destruct (new_combiner_wf nk k ns target Hs) as [c0 [-> [W0 [_ [C0 [L0 _]]]]]]. simpl.
  assert (G : forall bs c, cwf c -> Z.of_nat (ccap (ccomb c)) <= hash_max_capacity ->
            clen (ccomb c) + Z.of_nat (length (concat bs)) <= max_keys ->
            exists c', c_feed h comb c bs = Ok c').
  { induction bs as [|b bs IH]; intros c W Cm Lm; simpl; [eauto|].
    simpl in Lm. rewrite app_length, Nat2Z.inj_add in Lm.
    destruct (c_combine_total c b W Cm ltac:(lia)) as [c1 [E [C1 L1]]]. rewrite E. simpl.
    pose proof (c_combine_spec c b W) as S. rewrite E in S. destruct S as [W1 _].
    apply IH; auto. lia. }
  apply G; auto; [rewrite C0 | rewrite L0]; lia.
Qed.

End Top.

(* C09 — the property as decidable checkers on observables (definitions only).

   [gather comb rows k] is what the property prescribes for key k after feeding
   [rows]: None if no row has key k, else Some (comb (.. (comb v1 v2) ..) vn) for
   the values v1..vn fed for k, in feeding order.
   [spec_ok comb input out]: out is strictly ascending by key (hence one row per
   key) and holds, for every key, exactly the prescribed value.
   [set_ok]: the same for an output whose order is not prescribed (Compact). *)
From Coq Require Import List ZArith Bool.
Import ListNotations.
Require Import BS.Common.Util BS.C09.Model.
Local Open Scope Z_scope.

Definition lookup (k : key) (l : list row) : option Z :=
  match find (fun r => keq (fst r) k) l with Some r => Some (snd r) | None => None end.

Definition omerge (comb : Z -> Z -> Z) (a b : option Z) : option Z :=
  match a, b with
  | Some x, Some y => Some (comb x y)
  | Some x, None => Some x
  | None, y => y
  end.

Definition sel (k : key) (r : row) : option Z := if keq (fst r) k then Some (snd r) else None.

Definition gather_from (comb : Z -> Z -> Z) (acc : option Z) (rows : list row) (k : key) : option Z :=
  fold_left (omerge comb) (map (sel k) rows) acc.
Definition gather (comb : Z -> Z -> Z) (rows : list row) (k : key) : option Z :=
  gather_from comb None rows k.

(* the values fed for key k, in order, and their left fold *)
Definition vals_of (k : key) (rows : list row) : list Z :=
  map snd (filter (fun r => keq (fst r) k) rows).
Definition fold1 (comb : Z -> Z -> Z) (vs : list Z) : option Z :=
  match vs with [] => None | v :: r => Some (fold_left comb r v) end.

Fixpoint asc_b (l : list row) : bool :=
  match l with
  | a :: r => match r with b :: _ => key_ltb (fst a) (fst b) && asc_b r | [] => true end
  | [] => true
  end.

Definition spec_ok (comb : Z -> Z -> Z) (input out : list row) : bool :=
  asc_b out &&
  forallb (fun k => option_eqb Z.eqb (lookup k out) (gather comb input k))
          (map fst input ++ map fst out).

Definition set_ok (comb : Z -> Z -> Z) (input out : list row) : bool :=
  spec_ok comb input (sort_rows out).

(* C09 — frame level: Combine folds insert-or-combine over the rows, growth keeps
   the contents, Compact returns every key exactly once. *)
From Coq Require Import List ZArith NArith Lia Bool Permutation.
Import ListNotations.
Require Import BS.Common.Util BS.C09.Model BS.C09.Spec BS.C09.Arith BS.C09.Lists BS.C09.Table.
Local Open Scope Z_scope.

Section Frame.
Variable h : list Z -> N.
Variable comb : Z -> Z -> Z.

Notation wf := (wf h).
Notation wf_tab := (wf_tab h).

Lemma wf_keys_nodup t : wf t -> NoDup (map fst (abs t)).
Proof. intros [[k W] _ _]. eapply abs_keys_nodup; eauto. Qed.

Lemma wf_len_abs t : wf t -> clen t = Z.of_nat (length (abs t)).
Proof. intros [[k W] L _]. rewrite (abs_length h t k W). exact L. Qed.

(* ---- one row, as a finite map ---- *)
Lemma omerge_sel acc k r :
  omerge comb acc (sel k r) =
  if keq (fst r) k then Some (match acc with Some o => comb o (snd r) | None => snd r end) else acc.
Proof. unfold sel. destruct (keq (fst r) k), acc; reflexivity. Qed.

Lemma insert_row_lookup t r t' : wf t -> insert_row h comb t r = Ok t' ->
  wf t' /\ cscratch t' = cscratch t /\ cnk t' = cnk t /\
  forall k, lookup k (abs t') = omerge comb (lookup k (abs t)) (sel k r).
Proof.
  intros W E. pose proof (insert_row_spec h comb t r W) as S. rewrite E in S.
  destruct S as [W' [Sc [Nk [A _]]]]. split; [auto|]. split; [auto|]. split; [auto|].
  intro k. rewrite omerge_sel.
  pose proof (wf_keys_nodup t W) as ND. pose proof (wf_keys_nodup t' W') as ND'.
  destruct (keq (fst r) k) eqn:Ek.
  - apply keq_eq in Ek. subst k. apply lookup_In; auto. apply A. left. reflexivity.
  - apply keq_neq in Ek. destruct (lookup k (abs t)) as [v|] eqn:L.
    + apply lookup_In; auto. apply A. right. split; [now apply lookup_Some_In | simpl; congruence].
    + destruct (lookup k (abs t')) as [v'|] eqn:L'; auto.
      apply lookup_Some_In, A in L' as [Eq|[Hin _]].
      * inversion Eq. congruence.
      * apply (lookup_In _ _ _ ND) in Hin. congruence.
Qed.

(* ---- insert_total: the probe loop never uses up its cap iterations ---- *)
Theorem insert_total t r : wf t -> insert_row h comb t r <> OutOfFuel.
Proof.
  intros W E. pose proof (insert_row_spec h comb t r W) as S. now rewrite E in S.
Qed.

(* ---- combine(n) ---- *)
Lemma gather_from_cons acc r rows k :
  gather_from comb acc (r :: rows) k = gather_from comb (omerge comb acc (sel k r)) rows k.
Proof. reflexivity. Qed.

Theorem combine_rows_spec : forall rows t, wf t ->
  match combine_rows h comb t rows with
  | Ok t' => wf t' /\ cscratch t' = cscratch t /\ cnk t' = cnk t /\
             forall k, lookup k (abs t') = gather_from comb (lookup k (abs t)) rows k
  | Panic => True
  | OutOfFuel => False
  end.
Proof.
  induction rows as [|r rows IH]; intros t W; simpl.
  - split; [auto|]. split; [auto|]. split; [auto|]. reflexivity.
  - pose proof (insert_total t r W) as NF.
    destruct (insert_row h comb t r) as [t1| |] eqn:E; simpl; auto.
    destruct (insert_row_lookup t r t1 W E) as [W1 [S1 [K1 L1]]].
    specialize (IH t1 W1). destruct (combine_rows h comb t1 rows) as [t'| |]; auto.
    destruct IH as [W' [S' [K' L']]]. split; [auto|]. split; [congruence|]. split; [congruence|].
    intro k. rewrite L', L1. reflexivity.
Qed.

Lemma combine_rows_app : forall a b t,
  combine_rows h comb t (a ++ b) = bind (combine_rows h comb t a) (fun t' => combine_rows h comb t' b).
Proof.
  induction a as [|r a IH]; intros b t; simpl; auto.
  destruct (insert_row h comb t r); simpl; auto.
Qed.

(* ---- Combine(f): the chunking by the scratch size is transparent ---- *)
Lemma combine_rows_scratch rows t t' : wf t -> combine_rows h comb t rows = Ok t' -> cscratch t' = cscratch t.
Proof.
  intros W E. pose proof (combine_rows_spec rows t W) as S. rewrite E in S. tauto.
Qed.

Lemma combine_chunks_eq rows s : forall m i t,
  combine_chunks h comb t rows s (seq i m) =
  combine_rows h comb t (firstn (s * m) (skipn (s * i) rows)).
Proof.
  induction m as [|m IH]; intros i t.
  - rewrite Nat.mul_0_r. reflexivity.
  - simpl seq. simpl combine_chunks.
    replace (s * S m)%nat with (s + s * m)%nat by lia.
    rewrite firstn_add, combine_rows_app.
    destruct (combine_rows h comb t (firstn s (skipn (s * i) rows))); simpl; auto.
    rewrite IH, skipn_skipn. do 3 f_equal. lia.
Qed.

Theorem Combine_eq t rows : (0 < cscratch t)%nat ->
  Combine h comb t rows = combine_rows h comb t rows.
Proof.
  intro Hs. unfold Combine. destruct (Nat.eqb_spec (cscratch t) 0) as [Z0|_]; [lia|].
  rewrite combine_chunks_eq. rewrite Nat.mul_0_r. simpl skipn.
  rewrite firstn_all2; auto.
  set (s := cscratch t) in *. set (n := length rows).
  pose proof (Nat.div_mod (n + s - 1) s ltac:(lia)) as D.
  pose proof (Nat.mod_upper_bound (n + s - 1) s ltac:(lia)) as U. nia.
Qed.

(* ---- Compact ---- *)
Lemma swap_firstn_S {A} (l : list A) i j x : (j <= i)%nat -> nth_error l i = Some x ->
  firstn (S j) (swap l i j) = firstn j l ++ [x].
Proof.
  intros Hji Hi. unfold swap. rewrite Hi.
  assert (Hj : (j < length l)%nat) by (assert (i < length l)%nat by (apply nth_error_Some; congruence); lia).
  destruct (nth_error l j) as [y|] eqn:Ej; [|apply nth_error_None in Ej; lia].
  rewrite firstn_S_upd by (rewrite upd_length; lia).
  rewrite firstn_upd_ge by lia. reflexivity.
Qed.

Lemma swap_skipn {A} (l : list A) i j : (j <= i)%nat -> skipn (S i) (swap l i j) = skipn (S i) l.
Proof.
  intro H. unfold swap. destruct (nth_error l i), (nth_error l j); auto.
  rewrite !skipn_upd_lt by lia. reflexivity.
Qed.

Lemma swap_length {A} (l : list A) i j : length (swap l i j) = length l.
Proof. unfold swap. destruct (nth_error l i), (nth_error l j); auto. now rewrite !upd_length. Qed.

Lemma compact_loop_spec : forall m i (slots : list (list Z * Z)) hits j slots' hits' j',
  (j <= i)%nat -> (i + m = length hits)%nat -> length slots = length hits ->
  compact_loop (seq i m) slots hits j = (slots', hits', j') ->
  firstn j' slots' = firstn j slots ++ occ_rows (combine (skipn i slots) (skipn i hits)) /\
  hits' = firstn i hits ++ repeat 0 m /\ length slots' = length slots /\ (j' <= i + m)%nat.
Proof.
  induction m as [|m IH]; intros i slots hits j slots' hits' j' Hji Hm Hl E.
  - simpl in E. injection E as <- <- <-. rewrite Nat.add_0_r in Hm.
    rewrite !skipn_all2 by lia. unfold occ_rows. simpl. rewrite !app_nil_r.
    split; [reflexivity|]. split; [rewrite firstn_all2 by lia; reflexivity|]. split; [reflexivity | lia].
  - simpl seq in E. simpl compact_loop in E.
    destruct (nth_error hits i) as [n|] eqn:En; [|apply nth_error_None in En; lia].
    destruct (nth_error slots i) as [r|] eqn:Er; [|apply nth_error_None in Er; lia].
    rewrite (nth_nth_error _ _ 0 _ En) in E.
    rewrite (skipn_nth_error _ _ _ En), (skipn_nth_error _ _ _ Er).
    set (ts := skipn (S i) slots). set (th := skipn (S i) hits).
    unfold occ_rows. simpl combine. simpl filter. unfold ts, th. clear ts th.
    destruct (Z.eqb_spec n 0) as [Zn|Nn].
    + rewrite Zn in *. replace (nzb 0) with false by reflexivity.
      destruct (IH (S i) slots hits j slots' hits' j') as [F [Hh [Ls Lj]]]; auto; try lia.
      split; [exact F|]. split; [|split; [auto | lia]].
      rewrite Hh. replace (S i) with (i + 1)%nat by lia. rewrite firstn_add.
      rewrite (skipn_nth_error _ _ _ En). simpl. rewrite <- app_assoc. reflexivity.
    + replace (nzb n) with true by (symmetry; now apply nzb_true).
      destruct (IH (S i) (swap slots i j) (upd hits i 0) (S j) slots' hits' j') as [F [Hh [Ls Lj]]]; auto; try lia.
      * rewrite upd_length. lia.
      * rewrite swap_length, upd_length. lia.
      * rewrite swap_length in Ls. split; [|split; [|split; [auto | lia]]].
        -- rewrite F, (swap_firstn_S _ _ _ r) by auto.
           rewrite swap_skipn, skipn_upd_lt by lia. simpl. rewrite <- app_assoc. reflexivity.
        -- rewrite Hh. replace (S i) with (i + 1)%nat by lia. rewrite firstn_add.
           rewrite firstn_upd_ge by lia.
           replace (skipn i (upd hits i 0)) with (0 :: skipn (S i) hits).
           ++ simpl. rewrite <- app_assoc. reflexivity.
           ++ symmetry. rewrite (skipn_nth_error _ i 0).
              ** now rewrite skipn_upd_lt by lia.
              ** apply nth_error_upd_eq. apply nth_error_Some. congruence.
Qed.

(* compact_spec: Compact returns exactly the rows held (in slot order: each key of
   the table once, with its value), and leaves an empty table of the same capacity *)
Theorem compact_spec t : wf t ->
  let '(rows, j, t') := compact t in
  rows = abs t /\ NoDup (map fst rows) /\ j = length rows /\
  wf t' /\ abs t' = [] /\ clen t' = 0 /\ ccap t' = ccap t /\ cscratch t' = cscratch t /\ cnk t' = cnk t /\
  chits t' = repeat 0 (ccap t) /\ length (cslots t') = ccap t /\ cthreshold t' = cthreshold t /\ cmask t' = cmask t.
Proof.
  intros W. pose proof W as [[k Wk] L Rm]. unfold compact.
  destruct (compact_loop (seq 0 (length (chits t))) (cslots t) (chits t) 0) as [[slots' hits'] j'] eqn:E.
  pose proof (wt_slots _ _ _ Wk) as Hs. pose proof (wt_hits _ _ _ Wk) as Hh.
  destruct (compact_loop_spec (length (chits t)) 0 (cslots t) (chits t) 0 slots' hits' j'
              (Nat.le_refl 0) eq_refl (eq_trans Hs (eq_sym Hh)) E) as [F [H' [Ls Lj]]].
  simpl in F, H'. fold (abs t) in F.
  assert (Hj : j' = length (abs t)).
  { apply (f_equal (@length _)) in F. rewrite firstn_length in F.
    simpl in Lj. lia. }
  split; [exact F|]. split; [rewrite F; now apply wf_keys_nodup|]. split; [rewrite F; exact Hj|].
  assert (Hz : hits' = repeat 0 (ccap t)) by (rewrite H', Hh; reflexivity).
  cbn [clen ccap cscratch cnk chits cslots cthreshold cmask with_tab with_len].
  assert (A0 : abs (with_len (with_tab t slots' hits') 0) = []).
  { unfold abs. cbn [cslots chits with_tab with_len]. rewrite Hz. apply occ_rows_repeat0. }
  repeat split; auto; try lia.
  - exists k. destruct Wk as [C S0 H0 M T Pz Fd].
    constructor; cbn [ccap cslots chits cmask cthreshold with_tab with_len]; auto; try lia.
    + rewrite Hz. apply repeat_length.
    + rewrite Hz. apply Forall_forall. intros x Hx. apply repeat_spec in Hx. lia.
    + intros i r n _ Hn N. rewrite Hz in Hn. apply nth_error_repeat in Hn. contradiction.
  - cbn [clen chits with_tab with_len]. rewrite Hz, count_repeat. reflexivity.
  - cbn [clen ccap with_tab with_len]. rewrite (wt_cap _ _ _ Wk). pose proof (pow2_pos k). lia.
Qed.

(* ---- makeCombiningFrame ---- *)
Lemma make_wf nk k ns : exists t,
  make_combining_frame nk (2 ^ k) ns = Ok t /\ wf t /\ abs t = [] /\ cscratch t = ns /\ cnk t = nk
  /\ ccap t = (2 ^ k)%nat.
Proof.
  unfold make_combining_frame. destruct (fresh_wf_tab h nk k ns 0) as [-> W].
  eexists. split; [reflexivity|]. split; [|split; [|auto]].
  - constructor; [exists k; exact W | |]; cbn [clen chits ccap].
    + now rewrite count_repeat.
    + pose proof (pow2_pos k). lia.
  - unfold abs. cbn [cslots chits]. apply occ_rows_repeat0.
Qed.

(* ---- no "hash table too large" below the maximal number of keys ---- *)
Definition max_keys : Z := (lf_mant * hash_max_capacity) / 2 ^ lf_shift.

Lemma cap_double_le k : Z.of_nat (2 ^ k) <= hash_max_capacity -> Z.of_nat (2 ^ k) <> hash_max_capacity ->
  Z.of_nat (2 ^ k * 2) <= hash_max_capacity.
Proof.
  unfold hash_max_capacity. change 536870912 with (2 ^ 29).
  rewrite pow2_double, !Nat2Z.inj_pow. change (Z.of_nat 2) with 2. intros Le Ne.
  assert (Z.of_nat k < 29).
  { destruct (Z.lt_ge_cases (Z.of_nat k) 29) as [|G]; auto.
    apply Z.le_lteq in G as [G|G]; [|rewrite <- G in Ne; congruence].
    apply (Z.pow_lt_mono_r 2) in G; lia. }
  apply Z.pow_le_mono_r; lia.
Qed.

Lemma insert_row_ok t r : wf t ->
  Z.of_nat (ccap t) <= hash_max_capacity -> clen t + 1 <= max_keys ->
  exists t', insert_row h comb t r = Ok t' /\ Z.of_nat (ccap t') <= hash_max_capacity /\ clen t' <= clen t + 1.
Proof.
  intros W Cm Lm. pose proof (insert_row_spec h comb t r W) as S.
  destruct (insert_row h comb t r) as [t'| |]; [| |contradiction].
  - destruct S as [_ [_ [_ [_ [Ln Cp]]]]]. exists t'. split; auto. split; auto.
    destruct Cp as [->|[-> Ne]]; auto.
    destruct W as [[k Wk] _ _]. rewrite (wt_cap _ _ _ Wk) in *. now apply cap_double_le.
  - destruct S as [Mx [_ Th]]. exfalso. destruct W as [[k Wk] _ _].
    rewrite (wt_thr _ _ _ Wk) in Th. unfold threshold_of in Th. rewrite Mx in Th.
    fold max_keys in Th. lia.
Qed.

(* combine_total: as long as the table would hold at most max_keys keys, Combine succeeds *)
Theorem combine_rows_total : forall rows t, wf t ->
  Z.of_nat (ccap t) <= hash_max_capacity -> clen t + Z.of_nat (length rows) <= max_keys ->
  exists t', combine_rows h comb t rows = Ok t' /\ Z.of_nat (ccap t') <= hash_max_capacity
             /\ clen t' <= clen t + Z.of_nat (length rows).
Proof.
  induction rows as [|r rows IH]; intros t W Cm Lm; simpl.
  - exists t. split; auto. split; auto. lia.
  - simpl length in Lm. rewrite Nat2Z.inj_succ in Lm.
    destruct (insert_row_ok t r W Cm ltac:(lia)) as [t1 [E [C1 L1]]]. rewrite E. simpl.
    pose proof (insert_row_lookup t r t1 W E) as [W1 _].
    destruct (IH t1 W1 C1 ltac:(lia)) as [t' [E' [C' L']]]. exists t'. split; auto. split; auto. lia.
Qed.

End Frame.

(* C09 — non-vacuity: concrete runs of the model (vm_compute) showing that the
   hypotheses of the theorems are satisfiable and that their conclusions are not
   trivially true. *)
From Coq Require Import List ZArith NArith Lia Bool Permutation.
Import ListNotations.
Require Import BS.Common.Util BS.C09.Model BS.C09.Spec BS.C09.Arith BS.C09.Lists
               BS.C09.Table BS.C09.Frame BS.C09.Merge BS.C09.Proofs.
Local Open Scope Z_scope.

(* a hash under which 0, 8, 16, ... all have home slot 0 in tables of 8 and 16 slots *)
Definition hx (k : list Z) : N := match k with x :: _ => Z.to_N (16 * x) | [] => 0%N end.
Definition k1 (x v : Z) : list Z * Z := ([x], v).

(* well-formed tables exist for every capacity 2^k *)
Example ex_wf : exists t, make_combining_frame 1 8 4 = Ok t /\ wf hx t /\ (0 < cscratch t)%nat.
Proof.
  destruct (make_wf hx 1 3 4) as [t [E [W [_ [S _]]]]]. exists t. split; [exact E|]. split; auto.
  rewrite S. lia.
Qed.

(* seven colliding keys in a table of 8: probes wrap around, the sixth insertion
   crosses the threshold 5, the table doubles and every key is kept *)
Definition ex_rows : list (list Z * Z) := [k1 1 10; k1 2 20; k1 3 30; k1 1 1; k1 4 40; k1 5 50; k1 6 60; k1 7 70; k1 2 2].

Example ex_growth :
  match bind (make_combining_frame 1 8 4) (fun t => Combine hx Z.add t ex_rows) with
  | Ok t' => ccap t' = 16%nat /\ clen t' = 7 /\ cthreshold t' = 11 /\
             sort_rows (abs t') = [k1 1 11; k1 2 22; k1 3 30; k1 4 40; k1 5 50; k1 6 60; k1 7 70]
  | _ => False
  end.
Proof. vm_compute. repeat split; reflexivity. Qed.

Example ex_threshold_8 : threshold_of 8 = 5 /\ threshold_of 16 = 11 /\ threshold_of 1 = 0.
Proof. vm_compute. auto. Qed.

(* Compact returns the rows held, once each, and empties the table *)
Example ex_compact :
  match bind (make_combining_frame 1 8 4) (fun t => Combine hx Z.add t ex_rows) with
  | Ok t' => let '(rows, j, t'') := compact t' in
             Permutation rows [k1 1 11; k1 2 22; k1 3 30; k1 4 40; k1 5 50; k1 6 60; k1 7 70]
             /\ j = 7%nat /\ abs t'' = [] /\ clen t'' = 0
  | _ => False
  end.
Proof.
  vm_compute. split; [|auto].
  apply NoDup_Permutation; [repeat constructor; simpl; intuition discriminate
                           |repeat constructor; simpl; intuition discriminate|].
  intro x. simpl. intuition.
Qed.

(* the fuel is a real bound: in a table that has no free slot (what a load factor
   of 1 would produce: the invariant len < cap is broken) the probe loop of the
   code never ends, and the model reports OutOfFuel *)
Definition full_table : cframe :=
  mkCF [k1 0 1; k1 1 1; k1 2 1; k1 3 1; k1 4 1; k1 5 1; k1 6 1; k1 7 1] [1; 1; 1; 1; 1; 1; 1; 1]
       8 8 7%N 8 4 1.
Example ex_full_table_loops : insert_row hx Z.add full_table (k1 100 1) = OutOfFuel.
Proof. vm_compute. reflexivity. Qed.

(* a combiner that spills after every batch whenever it held a key before the batch: two runs on
   disk, keys split across runs and the table, merged back in order *)
Definition ex_batches : list (list (list Z * Z)) :=
  [[k1 5 1; k1 3 1; k1 5 1]; [k1 3 10; k1 9 1]; [k1 1 7; k1 5 100]; [k1 9 2; k1 0 4]; [k1 3 5]].

Example ex_spills :
  match bind (new_combiner 1 8 2 1) (fun c => c_feed hx Z.add c ex_batches) with
  | Ok c => length (cruns c) = 2%nat /\
            match c_reader Z.add c with
            | Ok (out, c') => out = [k1 0 4; k1 1 7; k1 3 16; k1 5 102; k1 9 3] /\ cruns c' = []
            | _ => False
            end
  | _ => False
  end.
Proof. vm_compute. repeat split; reflexivity. Qed.

(* the spill test looks at the number of keys held BEFORE the batch *)
Example ex_spill_check_before :
  match bind (new_combiner 1 8 2 1) (fun c => c_combine hx Z.add c [k1 5 1; k1 3 1]) with
  | Ok c => cruns c = [] /\ clen (ccomb c) = 2
  | _ => False
  end.
Proof. vm_compute. auto. Qed.

(* the hypotheses on the combine function are satisfiable *)
Example ex_add_assoc_comm :
  (forall a b c, Z.add a (Z.add b c) = Z.add (Z.add a b) c) /\ (forall a b, Z.add a b = Z.add b a).
Proof. split; intros; lia. Qed.

(* the checker rejects wrong outputs: a missing key, a wrong sum, a wrong order, a duplicate *)
Example ex_checker_rejects :
  spec_ok Z.add [k1 2 1; k1 1 1; k1 2 5] [k1 1 1; k1 2 6] = true /\
  spec_ok Z.add [k1 2 1; k1 1 1; k1 2 5] [k1 2 6] = false /\
  spec_ok Z.add [k1 2 1; k1 1 1; k1 2 5] [k1 1 1; k1 2 5] = false /\
  spec_ok Z.add [k1 2 1; k1 1 1; k1 2 5] [k1 2 6; k1 1 1] = false /\
  spec_ok Z.add [k1 2 1; k1 1 1; k1 2 5] [k1 1 1; k1 2 1; k1 2 5] = false /\
  spec_ok Z.add [k1 2 1; k1 1 1; k1 2 5] [k1 1 1; k1 2 6; k1 3 0] = false.
Proof. vm_compute. repeat split; reflexivity. Qed.

(* the merge combines a key present in several runs, and only then *)
Example ex_merge :
  reduce_merge Z.add [[k1 1 1; k1 4 1]; []; [k1 1 10; k1 2 10; k1 4 10]; [k1 4 100]]
  = Ok [k1 1 11; k1 2 10; k1 4 111].
Proof. vm_compute. reflexivity. Qed.

(* C09 — list facts: key order, in-place updates, assoc-list lookups, sorting. *)
From Coq Require Import List ZArith NArith Lia Bool Permutation Sorted.
Import ListNotations.
Require Import BS.Common.Util BS.C09.Model BS.C09.Spec.
Local Open Scope Z_scope.

(* ================= the key order (Frame.Less) is a strict total order ================= *)

Ltac zb := repeat match goal with
  | |- context [?x <? ?y] => destruct (Z.ltb_spec x y)
  | H : context [?x <? ?y] |- _ => destruct (Z.ltb_spec x y)
  end.

Lemma key_ltb_irrefl a : key_ltb a a = false.
Proof. induction a as [|x a IH]; simpl; auto. zb; try lia; auto. Qed.

Lemma key_ltb_trans : forall a b c, key_ltb a b = true -> key_ltb b c = true -> key_ltb a c = true.
Proof.
  induction a as [|x a IH]; intros [|y b] [|z c]; simpl; try discriminate; auto.
  intros H1 H2. zb; try lia; try discriminate; auto.
  eapply IH; eauto.
Qed.

Lemma key_ltb_asym : forall a b, key_ltb a b = true -> key_ltb b a = false.
Proof.
  induction a as [|x a IH]; intros [|y b]; simpl; try discriminate; auto.
  intro H. zb; try lia; try discriminate; auto.
Qed.

Lemma key_tricho : forall a b, key_ltb a b = false -> key_ltb b a = false -> a = b.
Proof.
  induction a as [|x a IH]; intros [|y b]; simpl; try discriminate; auto.
  intros H1 H2. zb; try lia; try discriminate. f_equal; [lia | auto].
Qed.

Lemma keq_eq a b : keq a b = true <-> a = b.
Proof.
  unfold keq. split.
  - intro H. apply andb_true_iff in H as [H1 H2]. apply negb_true_iff in H1, H2. now apply key_tricho.
  - intros ->. now rewrite key_ltb_irrefl.
Qed.

Lemma keq_refl a : keq a a = true.
Proof. now apply keq_eq. Qed.

Lemma keq_neq a b : keq a b = false <-> a <> b.
Proof.
  split.
  - intros H E. apply keq_eq in E. congruence.
  - intro N. destruct (keq a b) eqn:E; auto. apply keq_eq in E. contradiction.
Qed.

Lemma key_eq_dec (a b : list Z) : {a = b} + {a <> b}.
Proof. apply list_eq_dec, Z.eq_dec. Qed.

(* ================= upd / swap ================= *)

Lemma upd_length {A} (l : list A) : forall i x, length (upd l i x) = length l.
Proof. induction l as [|y l IH]; intros [|i] x; simpl; auto. Qed.

Lemma nth_error_upd_eq {A} (l : list A) : forall i x, (i < length l)%nat ->
  nth_error (upd l i x) i = Some x.
Proof. induction l as [|y l IH]; intros [|i] x H; simpl in *; try lia; auto. apply IH; lia. Qed.

Lemma nth_error_upd_neq {A} (l : list A) : forall i j x, i <> j ->
  nth_error (upd l i x) j = nth_error l j.
Proof. induction l as [|y l IH]; intros [|i] [|j] x H; simpl; auto; try lia. Qed.

Lemma nth_error_upd {A} (l : list A) i j x :
  nth_error (upd l i x) j = if Nat.eqb i j then (if (i <? length l)%nat then Some x else None) else nth_error l j.
Proof.
  destruct (Nat.eqb_spec i j) as [->|N].
  - destruct (Nat.ltb_spec j (length l)).
    + now apply nth_error_upd_eq.
    + apply nth_error_None. rewrite upd_length. lia.
  - now apply nth_error_upd_neq.
Qed.

Lemma nth_nth_error {A} (l : list A) i d x : nth_error l i = Some x -> nth i l d = x.
Proof. intro H. now apply nth_error_nth. Qed.

Lemma firstn_upd_ge {A} (l : list A) : forall i n x, (n <= i)%nat -> firstn n (upd l i x) = firstn n l.
Proof.
  induction l as [|y l IH]; intros [|i] [|n] x H; simpl; auto; try lia. f_equal. apply IH. lia.
Qed.

Lemma skipn_upd_lt {A} (l : list A) : forall i n x, (i < n)%nat -> skipn n (upd l i x) = skipn n l.
Proof.
  induction l as [|y l IH]; intros [|i] [|n] x H; simpl; auto; try lia. apply IH. lia.
Qed.

Lemma firstn_S_upd {A} (l : list A) : forall j x, (j < length l)%nat ->
  firstn (S j) (upd l j x) = firstn j l ++ [x].
Proof.
  induction l as [|y l IH]; intros [|j] x H; simpl in *; try lia; auto.
  f_equal. apply IH. lia.
Qed.

Lemma skipn_nth_error {A} (l : list A) : forall i x, nth_error l i = Some x ->
  skipn i l = x :: skipn (S i) l.
Proof.
  induction l as [|y l IH]; intros [|i] x H; simpl in *; try discriminate.
  - now inversion H.
  - now apply IH.
Qed.

Lemma firstn_add {A} (l : list A) : forall a b, firstn (a + b) l = firstn a l ++ firstn b (skipn a l).
Proof.
  induction l as [|y l IH]; intros [|a] b; simpl; auto.
  - now rewrite firstn_nil.
  - now rewrite IH.
Qed.

(* ================= lookups in assoc lists ================= *)

Lemma lookup_cons k r l :
  lookup k (r :: l) = if keq (fst r) k then Some (snd r) else lookup k l.
Proof. unfold lookup. simpl. destruct (keq (fst r) k); reflexivity. Qed.

Lemma lookup_nil k : lookup k [] = None.
Proof. reflexivity. Qed.

Lemma lookup_Some_In k v l : lookup k l = Some v -> In (k, v) l.
Proof.
  induction l as [|r l IH]; [discriminate|]. rewrite lookup_cons.
  destruct (keq (fst r) k) eqn:E.
  - intro H. inversion H. apply keq_eq in E. left. destruct r; simpl in *; congruence.
  - intro H. right. auto.
Qed.

Lemma lookup_None k l : lookup k l = None <-> ~ In k (map fst l).
Proof.
  induction l as [|r l IH]; simpl.
  - split; auto.
  - rewrite lookup_cons. destruct (keq (fst r) k) eqn:E.
    + apply keq_eq in E. split; [discriminate | intro H; exfalso; apply H; auto].
    + apply keq_neq in E. rewrite IH. tauto.
Qed.

Lemma lookup_In k v l : NoDup (map fst l) -> In (k, v) l -> lookup k l = Some v.
Proof.
  induction l as [|r l IH]; simpl; [tauto|]. intros ND [->|H]; rewrite lookup_cons; simpl.
  - now rewrite keq_refl.
  - inversion ND as [|? ? N ND']; subst. destruct (keq (fst r) k) eqn:E.
    + apply keq_eq in E. exfalso. apply N. rewrite E. apply in_map_iff. exists (k, v). auto.
    + auto.
Qed.

Lemma lookup_iff k v l : NoDup (map fst l) -> (lookup k l = Some v <-> In (k, v) l).
Proof. intro ND. split; [apply lookup_Some_In | now apply lookup_In]. Qed.

Lemma lookup_ext_In l1 l2 : NoDup (map fst l1) -> NoDup (map fst l2) ->
  (forall r, In r l1 <-> In r l2) -> forall k, lookup k l1 = lookup k l2.
Proof.
  intros N1 N2 H k. destruct (lookup k l1) as [v|] eqn:E1.
  - symmetry. apply lookup_In; auto. apply H. now apply lookup_Some_In.
  - destruct (lookup k l2) as [v|] eqn:E2; auto.
    apply lookup_Some_In, H, (lookup_In _ _ _ N1) in E2. congruence.
Qed.

Lemma lookup_perm l1 l2 : NoDup (map fst l1) -> Permutation l1 l2 ->
  forall k, lookup k l1 = lookup k l2.
Proof.
  intros N P. apply lookup_ext_In; auto.
  - eapply Permutation_NoDup; [apply Permutation_map; eassumption | auto].
  - intro r. split; apply Permutation_in; auto. now apply Permutation_sym.
Qed.

Lemma lookup_in_keys k l : lookup k l <> None <-> In k (map fst l).
Proof.
  rewrite lookup_None. split; [|tauto].
  intro H. destruct (in_dec key_eq_dec k (map fst l)); tauto.
Qed.

(* ================= ascending lists ================= *)

Definition klt (a b : list Z * Z) : Prop := key_ltb (fst a) (fst b) = true.
Definition asc (l : list (list Z * Z)) : Prop := StronglySorted klt l.

Lemma klt_trans a b c : klt a b -> klt b c -> klt a c.
Proof. unfold klt. apply key_ltb_trans. Qed.

Lemma asc_b_asc l : asc_b l = true <-> asc l.
Proof.
  split.
  - intro H. apply Sorted_StronglySorted; [intros a b c; apply klt_trans|].
    induction l as [|a l IH]; [constructor|]. simpl in H. destruct l as [|b l].
    + repeat constructor.
    + apply andb_true_iff in H as [H1 H2]. constructor; auto.
  - intro H. apply StronglySorted_Sorted in H.
    induction H as [|a l S IH Hd]; auto. simpl. destruct l as [|b l]; auto.
    inversion Hd; subst. apply andb_true_iff. split; auto.
Qed.

Lemma asc_nodup l : asc l -> NoDup (map fst l).
Proof.
  induction 1 as [|a l S IH F]; simpl; constructor; auto.
  intro Hin. apply in_map_iff in Hin as [b [E Hb]].
  rewrite Forall_forall in F. specialize (F b Hb). unfold klt in F.
  rewrite E, key_ltb_irrefl in F. discriminate.
Qed.

Lemma asc_head_notin a l : asc (a :: l) -> lookup (fst a) l = None.
Proof.
  intro H. apply asc_nodup in H. simpl in H. inversion H; subst. now apply lookup_None.
Qed.

(* a key smaller than the head is absent *)
Lemma asc_lookup_lt k l : asc l -> (forall r, In r l -> key_ltb k (fst r) = true) -> lookup k l = None.
Proof.
  intros _ H. apply lookup_None. intro Hin. apply in_map_iff in Hin as [r [E Hr]].
  specialize (H r Hr). rewrite E, key_ltb_irrefl in H. discriminate.
Qed.

(* two ascending lists with the same lookups are equal *)
Lemma asc_lookup_unique : forall l1 l2, asc l1 -> asc l2 ->
  (forall k, lookup k l1 = lookup k l2) -> l1 = l2.
Proof.
  induction l1 as [|a l1 IH]; intros l2 A1 A2 H.
  - destruct l2 as [|b l2]; auto. specialize (H (fst b)).
    rewrite lookup_cons, keq_refl in H. discriminate.
  - destruct l2 as [|b l2].
    + specialize (H (fst a)). rewrite lookup_cons, keq_refl in H. discriminate.
    + assert (Hab : fst a = fst b).
      { pose proof (H (fst a)) as Ha. pose proof (H (fst b)) as Hb.
        rewrite !lookup_cons, keq_refl in Ha, Hb.
        destruct (keq (fst b) (fst a)) eqn:E; [apply keq_eq in E; auto|].
        destruct (keq (fst a) (fst b)) eqn:E'; [apply keq_eq in E'; auto|].
        symmetry in Ha. apply lookup_Some_In in Ha, Hb.
        inversion A1 as [|? ? _ F1]; inversion A2 as [|? ? _ F2]; subst.
        rewrite Forall_forall in F1, F2. specialize (F1 _ Hb). specialize (F2 _ Ha).
        unfold klt in *; simpl in *. apply key_ltb_asym in F1. congruence. }
      assert (Hv : snd a = snd b).
      { specialize (H (fst a)). rewrite !lookup_cons, keq_refl, <- Hab, keq_refl in H. congruence. }
      assert (a = b) as -> by (destruct a, b; simpl in *; congruence).
      f_equal. apply IH.
      * now inversion A1.
      * now inversion A2.
      * intro k. specialize (H k). rewrite !lookup_cons in H.
        destruct (keq (fst b) k) eqn:E; auto. apply keq_eq in E. subst k.
        now rewrite (asc_head_notin _ _ A1), (asc_head_notin _ _ A2).
Qed.

(* ================= sort ================= *)

Lemma sort_ins_perm r l : Permutation (sort_ins r l) (r :: l).
Proof.
  induction l as [|x l IH]; simpl; auto.
  destruct (key_ltb (fst r) (fst x)); auto.
  rewrite IH. apply perm_swap.
Qed.

Lemma sort_perm l : Permutation (sort_rows l) l.
Proof. induction l as [|r l IH]; simpl; auto. rewrite sort_ins_perm. now constructor. Qed.

Lemma sort_length l : length (sort_rows l) = length l.
Proof. apply Permutation_length, sort_perm. Qed.

Lemma sort_ins_asc r l : asc l -> ~ In (fst r) (map fst l) -> asc (sort_ins r l).
Proof.
  induction 1 as [|x l S IH F]; intro N; simpl.
  - repeat constructor.
  - destruct (key_ltb (fst r) (fst x)) eqn:E.
    + constructor; [constructor; auto|]. constructor; [exact E|].
      rewrite Forall_forall in *. intros y Hy. eapply klt_trans; [exact E | auto].
    + assert (Hx : klt x r).
      { unfold klt. destruct (key_ltb (fst x) (fst r)) eqn:E'; auto.
        exfalso. apply N. left. symmetry. now apply key_tricho. }
      constructor.
      * apply IH. intro Hin. apply N. now right.
      * rewrite Forall_forall in *. intros y Hy.
        apply (Permutation_in _ (sort_ins_perm r l)) in Hy. destruct Hy as [<-|Hy]; auto.
Qed.

Lemma sort_asc l : NoDup (map fst l) -> asc (sort_rows l).
Proof.
  induction l as [|r l IH]; simpl; intro N; [constructor|].
  inversion N; subst. apply sort_ins_asc; auto.
  intro Hin. apply H1.
  eapply Permutation_in; [apply Permutation_map, sort_perm | exact Hin].
Qed.

Lemma sort_lookup l k : NoDup (map fst l) -> lookup k (sort_rows l) = lookup k l.
Proof.
  intro N. symmetry. apply lookup_perm; auto. apply Permutation_sym, sort_perm.
Qed.

(* a sorted list is a fixed point: with distinct keys the order is unique *)
Lemma sort_unique l l' : NoDup (map fst l) -> Permutation l l' -> asc l' -> sort_rows l = l'.
Proof.
  intros N P A. apply asc_lookup_unique; auto.
  - now apply sort_asc.
  - intro k. rewrite sort_lookup by auto. now apply lookup_perm.
Qed.

(* C09 — correspondence drivers: evaluated by vm_compute on harness case files.

   A case carries the table of REAL hashes frame.HashWithSeed(key, hashSeed) of
   every key it uses; the model is instantiated with that table, so slot
   positions, hits, len and cap are compared exactly after every step. *)
From Coq Require Import List ZArith NArith Bool.
Import ListNotations.
Require Export BS.Common.Util BS.C09.Model BS.C09.Spec.
Local Open Scope Z_scope.

(* ---- observations ---- *)
Record dump := mkDump { dslots : list row; dhits : list Z; dlen : Z; dcap : Z }.

Inductive fop := FCombine (rows : list row) | FCompact.
(* after a step: panic / watchdog / the whole table plus the rows Compact returned *)
Inductive fobs := FPanicked | FHung | FDump (d : dump) (out : list row).

Record fcase := mkFC {
  f_hash : list (list Z * N);
  f_nk : nat; f_init : nat; f_scratch : nat;
  f_made : bool;                       (* makeCombiningFrame returned (no panic) *)
  f_steps : list (fop * fobs)
}.

Inductive cstep := CSPanicked | CSHung
                 | CSOk (d : dump) (nfiles : Z) (total : Z).   (* spill files on disk, c.total *)
Inductive chow := HReader | HWriteTo | HDiscard.
Inductive cend := EPanicked | EHung
                | ERows (rows : list row) (cleaned : bool).   (* spill directory gone afterwards *)

Record ccase := mkCC {
  c_hash : list (list Z * N);
  c_nk : nat; c_init : nat; c_scratch : nat; c_target : Z;
  c_made : bool;
  c_steps : list (list row * cstep);
  c_how : chow;
  c_end : cend
}.

(* a sweep: many independent single-batch runs (single-column keys, all values 1)
   against fresh frames of the same shape, in a compact notation: the sequence of
   keys fed as one batch, the table afterwards (slot keys, slot values, hits, len,
   cap), and the rows Compact then returned (keys, values) *)
Inductive xentry :=
| XE (seq sk sv hits : list Z) (len cap : Z) (ok ov : list Z)
| XBad (seq : list Z).                 (* the implementation panicked or hung on this sequence *)
Record xcase := mkXC {
  x_hash : list (list Z * N); x_init : nat; x_scratch : nat; x_entries : list xentry
}.

Inductive case := CaseF (c : fcase) | CaseC (c : ccase) | CaseX (c : xcase).

(* short constructors used by the harness to keep case files small *)
Definition r1 (k v : Z) : row := ([k], v).
Definition r2 (k1 k2 v : Z) : row := ([k1; k2], v).
Definition ones (ks : list Z) : list row := map (fun k => ([k], 1)) ks.

(* ---- instantiation ---- *)
Definition key_eqb : list Z -> list Z -> bool := list_eqb Z.eqb.
Fixpoint hash_of (tbl : list (list Z * N)) (k : list Z) : N :=
  match tbl with
  | [] => 0%N
  | (k', x) :: r => if key_eqb k' k then x else hash_of r k
  end.

Definition row_eqb (a b : row) : bool := key_eqb (fst a) (fst b) && Z.eqb (snd a) (snd b).
Definition rows_eqb := list_eqb row_eqb.
Definition dump_eqb (a b : dump) : bool :=
  rows_eqb (dslots a) (dslots b) && list_eqb Z.eqb (dhits a) (dhits b)
  && Z.eqb (dlen a) (dlen b) && Z.eqb (dcap a) (dcap b).
Definition dump_of (t : cframe) : dump := mkDump (cslots t) (chits t) (clen t) (Z.of_nat (ccap t)).

Definition is_pow2 (n : nat) : bool := negb (Nat.eqb n 0) && N.eqb (N.land (N.of_nat n) (N.of_nat n - 1)) 0.

(* ================= exact agreement with the model ================= *)

Definition fstep (h : list Z -> N) (t : cframe) (o : fop) : res (cframe * list row) :=
  match o with
  | FCombine rows => bind (Combine h Z.add t rows) (fun t' => Ok (t', []))
  | FCompact => let '(rows, _, t') := compact t in Ok (t', rows)
  end.

Fixpoint frun (h : list Z -> N) (t : cframe) (steps : list (fop * fobs)) : bool :=
  match steps with
  | [] => true
  | (o, ob) :: rest =>
      match fstep h t o, ob with
      | Ok (t', out), FDump d out' => dump_eqb (dump_of t') d && rows_eqb out out' && frun h t' rest
      | Panic, FPanicked => match rest with [] => true | _ => false end
      | OutOfFuel, FHung => match rest with [] => true | _ => false end
      | _, _ => false
      end
  end.

Definition fcase_exact (c : fcase) : bool :=
  match make_combining_frame (f_nk c) (f_init c) (f_scratch c) with
  | Ok t => f_made c && frun (hash_of (f_hash c)) t (f_steps c)
  | _ => negb (f_made c) && match f_steps c with [] => true | _ => false end
  end.

Fixpoint crun (h : list Z -> N) (c : combiner) (steps : list (list row * cstep)) : option (res combiner) :=
  (* None = disagreement *)
  match steps with
  | [] => Some (Ok c)
  | (b, ob) :: rest =>
      match c_combine h Z.add c b, ob with
      | Ok c', CSOk d nfiles total =>
          if dump_eqb (dump_of (ccomb c')) d && Z.eqb (Z.of_nat (length (cruns c'))) nfiles
             && Z.eqb (ctotal c') total
          then crun h c' rest else None
      | Panic, CSPanicked => match rest with [] => Some Panic | _ => None end
      | OutOfFuel, CSHung => match rest with [] => Some OutOfFuel | _ => None end
      | _, _ => None
      end
  end.

Definition cend_exact (h : list Z -> N) (c : combiner) (how : chow) (e : cend) : bool :=
  match how, e with
  | HDiscard, ERows rows cleaned =>
      match rows with [] => true | _ => false end
      && Bool.eqb cleaned (match cruns (c_discard c) with [] => true | _ => false end)
  | _, ERows rows cleaned =>
      match c_reader Z.add c with
      | Ok (out, c') => rows_eqb out rows
                        && Bool.eqb cleaned (match cruns c' with [] => true | _ => false end)
      | _ => false
      end
  | HDiscard, _ => false
  | _, EPanicked => match c_reader Z.add c with Panic => true | _ => false end
  | _, EHung => match c_reader Z.add c with OutOfFuel => true | _ => false end
  end.

Definition ccase_exact (c : ccase) : bool :=
  match new_combiner (c_nk c) (c_init c) (c_scratch c) (c_target c) with
  | Ok m =>
      c_made c &&
      match crun (hash_of (c_hash c)) m (c_steps c) with
      | Some (Ok m') => cend_exact (hash_of (c_hash c)) m' (c_how c) (c_end c)
      | Some Panic => match c_end c with EPanicked => true | _ => false end
      | Some OutOfFuel => match c_end c with EHung => true | _ => false end
      | None => false
      end
  | _ => negb (c_made c) && match c_steps c with [] => true | _ => false end
  end.

Definition zip1 (ks vs : list Z) : list row := map (fun p => ([fst p], snd p)) (combine ks vs).

Definition xentry_exact (h : list Z -> N) (init scratch : nat) (e : xentry) : bool :=
  match e with
  | XBad _ => false
  | XE seq sk sv hits len cap ok ov =>
      match make_combining_frame 1 init scratch with
      | Ok t =>
          match Combine h Z.add t (ones seq) with
          | Ok t' =>
              Nat.eqb (length sk) (length sv) && Nat.eqb (length ok) (length ov)
              && dump_eqb (dump_of t') (mkDump (zip1 sk sv) hits len cap)
              && (let '(rows, _, _) := compact t' in rows_eqb rows (zip1 ok ov))
          | _ => false
          end
      | _ => false
      end
  end.

Definition xcase_exact (c : xcase) : bool :=
  forallb (xentry_exact (hash_of (x_hash c)) (x_init c) (x_scratch c)) (x_entries c).

Definition case_exact (c : case) : bool :=
  match c with CaseF f => fcase_exact f | CaseC m => ccase_exact m | CaseX x => xcase_exact x end.

(* ================= property-level judgement, on the OBSERVED output only ================= *)

(* frame level: every Compact must return, in any order, one row per distinct key
   fed since the previous Compact with the summed value; no step may panic or hang *)
Fixpoint fjudge (fed : list row) (steps : list (fop * fobs)) : bool :=
  match steps with
  | [] => true
  | (FCombine rows, FDump _ _) :: rest => fjudge (fed ++ rows) rest
  | (FCompact, FDump _ out) :: rest => set_ok Z.add fed out && fjudge [] rest
  | (_, _) :: _ => false
  end.

Definition fcase_ok (c : fcase) : bool :=
  if Nat.eqb (f_scratch c) 0 then true   (* no scratch space: not a configuration the property speaks about *)
  else if f_made c then fjudge [] (f_steps c)
  else negb (is_pow2 (f_init c)).        (* a refusal is legitimate only for a bad capacity *)

Fixpoint csteps_ok (steps : list (list row * cstep)) : bool :=
  match steps with
  | [] => true
  | (_, CSOk _ _ _) :: rest => csteps_ok rest
  | _ :: _ => false
  end.

Definition ccase_ok (c : ccase) : bool :=
  if c_made c then
    csteps_ok (c_steps c) &&
    match c_how c, c_end c with
    | HDiscard, ERows _ cleaned => cleaned
    | _, ERows rows cleaned => spec_ok Z.add (concat (map fst (c_steps c))) rows && cleaned
    | _, _ => false
    end
  else negb (is_pow2 (c_init c)).

Definition xentry_ok (e : xentry) : bool :=
  match e with
  | XBad _ => false
  | XE seq _ _ _ _ _ ok ov => Nat.eqb (length ok) (length ov) && set_ok Z.add (ones seq) (zip1 ok ov)
  end.

Definition case_ok (c : case) : bool :=
  match c with
  | CaseF f => fcase_ok f
  | CaseC m => ccase_ok m
  | CaseX x => forallb xentry_ok (x_entries x)
  end.

Definition mismatches (cs : list case) : list nat := bad_indices case_exact cs.
Definition violations (cs : list case) : list nat := bad_indices case_ok cs.

(* C09 — sortio.Reduce: merging ascending runs and combining equal keys yields an
   ascending list holding, per key, the left fold of the runs' values (in run order). *)
From Coq Require Import List ZArith NArith Lia Bool Permutation Sorted.
Import ListNotations.
Require Import BS.Common.Util BS.C09.Model BS.C09.Spec BS.C09.Lists.
Local Open Scope Z_scope.

Section Merge.
Variable comb : Z -> Z -> Z.

(* the per-key content of a list of runs: the merge of their lookups, left to right *)
Definition olist (os : list (option Z)) : option Z := fold_left (omerge comb) os None.

Lemma omerge_None_r a : omerge comb a None = a.
Proof. destruct a; reflexivity. Qed.

Lemma fold_omerge_none : forall os acc, Forall (fun o => o = None) os -> fold_left (omerge comb) os acc = acc.
Proof.
  induction os as [|o os IH]; intros acc H; simpl; auto. inversion H; subst.
  rewrite omerge_None_r. auto.
Qed.

Lemma fold_omerge_some_ex : forall os acc, fold_left (omerge comb) os acc <> None ->
  acc <> None \/ exists o, In o os /\ o <> None.
Proof.
  induction os as [|o os IH]; intros acc H; simpl in *; auto.
  apply IH in H as [H|[o' [Hi Ho]]]; [|right; eauto].
  destruct acc; [left; discriminate|]. destruct o; [right; exists (Some z); split; auto; discriminate | contradiction].
Qed.

Lemma fold_some : forall vs x,
  fold_left (fun a v => omerge comb a (Some v)) vs (Some x) = Some (fold_left comb vs x).
Proof. induction vs as [|v vs IH]; intro x; simpl; auto. Qed.

Lemma total_len_cons r rs : total_len (r :: rs) = (length r + total_len rs)%nat.
Proof. reflexivity. Qed.

Lemma min_key_spec : forall runs,
  match min_key runs with
  | None => forall run, In run runs -> run = []
  | Some m => (exists r tl, In (r :: tl) runs /\ fst r = m) /\
              (forall r tl, In (r :: tl) runs -> key_ltb (fst r) m = false)
  end.
Proof.
  induction runs as [|run runs IH]; simpl; [tauto|].
  destruct run as [|r tl].
  - destruct (min_key runs) as [m|].
    + destruct IH as [[r [tl [Hi E]]] Hm]. split; [exists r, tl; auto|].
      intros r' tl' [H|H]; [discriminate | eauto].
    + intros run [<-|H]; auto.
  - destruct (min_key runs) as [m|].
    + destruct IH as [[r0 [tl0 [Hi E]]] Hm]. destruct (key_ltb m (fst r)) eqn:Lt.
      * split; [exists r0, tl0; auto|]. intros r' tl' [H|H]; [|eauto].
        inversion H; subst. now apply key_ltb_asym.
      * split; [exists r, tl; auto|]. intros r' tl' [H|H].
        -- inversion H; subst. apply key_ltb_irrefl.
        -- specialize (Hm _ _ H). destruct (key_ltb (fst r') (fst r)) eqn:L'; auto.
           destruct (key_ltb (fst r) m) eqn:L''.
           ++ rewrite (key_ltb_trans _ _ _ L' L'') in Hm. discriminate.
           ++ rewrite (key_tricho _ _ L'' Lt) in L'. congruence.
    + split; [exists r, tl; auto|]. intros r' tl' [H|H].
      * inversion H; subst. apply key_ltb_irrefl.
      * apply IH in H. discriminate.
Qed.

Lemma pop_eq_spec m : forall runs vs runs',
  Forall asc runs ->
  (forall r tl, In (r :: tl) runs -> key_ltb (fst r) m = false) ->
  pop_eq m runs = (vs, runs') ->
  Forall asc runs' /\
  (total_len runs' + length vs = total_len runs)%nat /\
  (forall run r, In run runs' -> In r run -> key_ltb m (fst r) = true) /\
  (forall k, k <> m -> map (lookup k) runs' = map (lookup k) runs) /\
  (forall acc, fold_left (omerge comb) (map (lookup m) runs) acc =
               fold_left (fun a v => omerge comb a (Some v)) vs acc) /\
  ((exists r tl, In (r :: tl) runs /\ fst r = m) -> vs <> []).
Proof.
  induction runs as [|run runs IH]; intros vs runs' A Hm E; simpl in E.
  - inversion E; subst. repeat split; auto; try (intros; simpl in *; tauto).
    intros [r [tl [[] _]]].
  - inversion A as [|? ? Arun Aruns]; subst.
    destruct (pop_eq m runs) as [vs0 rs0] eqn:E0.
    destruct (IH vs0 rs0 Aruns (fun r tl H => Hm r tl (or_intror H)) eq_refl) as [A0 [T0 [G0 [K0 [F0 N0]]]]].
    destruct run as [|r tl].
    + inversion E; subst. split; [constructor; auto|]. split; [simpl; lia|].
      split; [intros run r [<-|H] Hr; [destruct Hr | eauto]|].
      split; [intros k Hk; simpl; now rewrite K0|].
      split; [intro acc; simpl; rewrite lookup_nil, omerge_None_r; apply F0|].
      intros [r [tl [[H|H] Er]]]; [discriminate | eauto].
    + pose proof (Hm r tl (or_introl eq_refl)) as Hr.
      inversion Arun as [|? ? Atl Ftl]; subst. rewrite Forall_forall in Ftl.
      destruct (key_ltb m (fst r)) eqn:Lt; simpl in E; inversion E; subst.
      * (* head greater than m: stays *)
        split; [constructor; auto|]. split; [simpl in *; lia|].
        split.
        { intros run x [<-|H] Hx; [|eauto]. destruct Hx as [<-|Hx]; auto.
          eapply key_ltb_trans; [exact Lt | apply Ftl; auto]. }
        split; [intros k Hk; simpl; now rewrite K0|].
        split.
        { intro acc. simpl.
          assert (L0 : lookup m (r :: tl) = None).
          { apply lookup_None. intro Hin. apply in_map_iff in Hin as [x [Ex [<-|Hx]]].
            - rewrite Ex, key_ltb_irrefl in Lt. discriminate.
            - specialize (Ftl x Hx). unfold klt in Ftl.
              rewrite <- Ex in Lt. rewrite (key_ltb_asym _ _ Ftl) in Lt. discriminate. }
          rewrite L0, omerge_None_r. apply F0. }
        intros [r' [tl' [[H|H] Er]]]; [|eauto].
        inversion H; subst. rewrite key_ltb_irrefl in Lt. discriminate.
      * (* head equal to m: popped *)
        assert (Em : fst r = m) by (now apply key_tricho).
        split; [constructor; auto|]. split; [simpl in *; lia|].
        split.
        { intros run x [<-|H] Hx; [|eauto]. rewrite <- Em. apply Ftl. auto. }
        split.
        { intros k Hk. simpl. rewrite K0 by auto. f_equal.
          rewrite lookup_cons. replace (keq (fst r) k) with false; auto.
          symmetry. apply keq_neq. congruence. }
        split.
        { intro acc. simpl. rewrite lookup_cons, Em, keq_refl. apply F0. }
        discriminate.
Qed.

Lemma total_len_nil runs : (forall run, In run runs -> run = []) -> total_len runs = 0%nat.
Proof.
  induction runs as [|r rs IH]; intro H; simpl; auto.
  rewrite (H r) by (left; auto). simpl. apply IH. intros; apply H; now right.
Qed.

(* reduce_merge_spec (unbounded, for every comb): ascending output; per key, the
   merge of what the runs hold for it, in run order *)
Theorem merge_loop_spec : forall fuel runs,
  Forall asc runs -> (total_len runs < fuel)%nat ->
  exists out, merge_loop comb fuel runs = Ok out /\ asc out /\
    forall k, lookup k out = olist (map (lookup k) runs).
Proof.
  induction fuel as [|f IH]; intros runs A Hf; [lia|]. simpl.
  pose proof (min_key_spec runs) as MS. destruct (min_key runs) as [m|].
  - destruct MS as [Hex Hm].
    destruct (pop_eq m runs) as [vs runs'] eqn:E.
    destruct (pop_eq_spec m runs vs runs' A Hm E) as [A' [T' [G' [K' [F' N']]]]].
    specialize (N' Hex). destruct vs as [|v0 vs]; [contradiction|]. simpl in T'.
    destruct (IH runs' A' ltac:(lia)) as [out' [E' [Ao' L']]]. rewrite E'. simpl.
    eexists. split; [reflexivity|]. split.
    + constructor; auto. apply Forall_forall. intros x Hx. unfold klt. simpl.
      assert (Hk : lookup (fst x) out' <> None) by (apply lookup_in_keys; now apply in_map).
      rewrite L' in Hk. unfold olist in Hk. apply fold_omerge_some_ex in Hk as [Hk|[o [Ho No]]]; [congruence|].
      apply in_map_iff in Ho as [run [<- Hrun]].
      apply lookup_in_keys, in_map_iff in No as [y [Ey Hy]]. rewrite <- Ey. eauto.
    + intro k. rewrite lookup_cons. simpl fst. simpl snd. destruct (keq m k) eqn:Ek.
      * apply keq_eq in Ek. subst k. unfold olist. rewrite F'. simpl. now rewrite fold_some.
      * apply keq_neq in Ek. rewrite L'. unfold olist. now rewrite K' by congruence.
  - exists []. split; auto. split; [constructor|]. intro k. unfold olist.
    rewrite fold_omerge_none; auto. apply Forall_forall. intros o Ho.
    apply in_map_iff in Ho as [run [<- Hrun]]. now rewrite (MS run Hrun).
Qed.

Theorem reduce_merge_spec runs : Forall asc runs ->
  exists out, reduce_merge comb runs = Ok out /\ asc out /\
    forall k, lookup k out = olist (map (lookup k) runs).
Proof. intro A. apply merge_loop_spec; auto. Qed.

End Merge.

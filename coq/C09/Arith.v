(* C09 — arithmetic: the probe sequence of combine()/added() is a permutation of a
   power-of-two table (triangular numbers mod 2^k), masks, thresholds. *)
From Coq Require Import List ZArith NArith Lia Bool Znumtheory Zpow_facts.
Import ListNotations.
Require Import BS.C09.Model.

(* ---- the mask ---- *)
Lemma mask_ones k : (N.of_nat (2 ^ k) - 1 = N.ones (N.of_nat k))%N.
Proof.
  rewrite N.ones_equiv, Nat2N.inj_pow. change (N.of_nat 2) with 2%N. now rewrite N.sub_1_r.
Qed.

Lemma land_mask k x : N.to_nat (N.land x (N.of_nat (2 ^ k) - 1)) = (N.to_nat x mod 2 ^ k)%nat.
Proof.
  rewrite mask_ones, N.land_ones, N2Nat.inj_mod.
  replace (N.to_nat (2 ^ N.of_nat k)) with (2 ^ k)%nat; [reflexivity|].
  rewrite <- (Nat2N.id (2 ^ k)). f_equal. rewrite Nat2N.inj_pow. reflexivity.
Qed.

Lemma pow2_pos k : (0 < 2 ^ k)%nat.
Proof. induction k; simpl; lia. Qed.

Lemma step_mod k idx try : step (N.of_nat (2 ^ k) - 1) idx try = ((idx + try) mod 2 ^ k)%nat.
Proof. unfold step. rewrite land_mask, Nat2N.id. reflexivity. Qed.

Lemma step_lt k idx try : (step (N.of_nat (2 ^ k) - 1) idx try < 2 ^ k)%nat.
Proof. rewrite step_mod. apply Nat.mod_upper_bound. pose proof (pow2_pos k). lia. Qed.

Lemma make_check_pow2 k : N.land (N.of_nat (2 ^ k)) (N.of_nat (2 ^ k) - 1) = 0%N.
Proof.
  rewrite mask_ones, N.land_ones, Nat2N.inj_pow. change (N.of_nat 2) with 2%N.
  apply N.mod_same. apply N.pow_nonzero. discriminate.
Qed.

(* ---- the probe positions: idx, then (idx + try) & mask with try = t, t+1, ... ---- *)
Fixpoint pos (mask : N) (idx try j : nat) : nat :=
  match j with O => idx | S j' => pos mask (step mask idx try) (S try) j' end.

(* try + (try+1) + ... + (try+j-1) *)
Fixpoint psum (try j : nat) : nat :=
  match j with O => 0 | S j' => try + psum (S try) j' end.

Lemma psum_closed : forall j t, (2 * psum t j + j = j * (2 * t + j))%nat.
Proof.
  induction j as [|j IH]; intro t; simpl psum; [lia|]. specialize (IH (S t)). nia.
Qed.

Lemma pos_closed k : forall j idx try, (idx < 2 ^ k)%nat ->
  pos (N.of_nat (2 ^ k) - 1) idx try j = ((idx + psum try j) mod 2 ^ k)%nat.
Proof.
  pose proof (pow2_pos k) as Hp.
  induction j as [|j IH]; intros idx try Hi; simpl.
  - rewrite Nat.add_0_r, Nat.mod_small; auto.
  - rewrite IH by apply step_lt. rewrite step_mod.
    rewrite Nat.add_mod_idemp_l by lia. f_equal. lia.
Qed.

Lemma pos_lt k j idx try : (idx < 2 ^ k)%nat -> (pos (N.of_nat (2 ^ k) - 1) idx try j < 2 ^ k)%nat.
Proof.
  intro Hi. rewrite pos_closed by auto. apply Nat.mod_upper_bound. pose proof (pow2_pos k). lia.
Qed.

Local Open Scope Z_scope.

Lemma odd_rel_prime_pow2 n a : 0 <= n -> Z.odd a = true -> rel_prime (2 ^ n) a.
Proof.
  intros Hn Ho. apply rel_prime_sym, rel_prime_Zpower_r; auto.
  apply bezout_rel_prime.
  rewrite (Zdiv.Zodd_mod a) in Ho. apply Zeq_is_eq_bool in Ho.
  apply Bezout_intro with (u := 1) (v := - (a / 2)).
  pose proof (Z.div_mod a 2 ltac:(lia)). lia.
Qed.

(* the heart of probe_complete: triangular numbers are pairwise distinct mod 2^k *)
Lemma tri_distinct (k i j : nat) :
  (i < j)%nat -> (j < 2 ^ k)%nat ->
  ~ (2 ^ Z.of_nat k | Z.of_nat (psum 1 j) - Z.of_nat (psum 1 i)).
Proof.
  intros Hij Hj [q Hq].
  pose proof (psum_closed j 1) as Cj. pose proof (psum_closed i 1) as Ci.
  apply (f_equal Z.of_nat) in Cj. apply (f_equal Z.of_nat) in Ci.
  rewrite Nat2Z.inj_add, !Nat2Z.inj_mul, Nat2Z.inj_add, Nat2Z.inj_mul in Cj, Ci.
  change (Z.of_nat 2) with 2 in *. change (Z.of_nat 1) with 1 in *.
  set (J := Z.of_nat j) in *. set (I := Z.of_nat i) in *.
  set (TJ := Z.of_nat (psum 1 j)) in *. set (TI := Z.of_nat (psum 1 i)) in *.
  assert (HIJ : 0 <= I < J) by (unfold I, J; lia).
  assert (HJ : J < 2 ^ Z.of_nat k).
  { unfold J. assert (P : Z.of_nat (2 ^ k) = 2 ^ Z.of_nat k) by (rewrite Nat2Z.inj_pow; reflexivity). lia. }
  (* (J - I) * (J + I + 1) = 2^(k+1) * q *)
  assert (E : (J - I) * (J + I + 1) = 2 ^ (Z.of_nat k + 1) * q).
  { rewrite Z.pow_add_r by lia. nia. }
  assert (Hk1 : 0 <= Z.of_nat k + 1) by lia.
  destruct (Z.odd (J - I)) eqn:Ho.
  - (* J - I odd: 2^(k+1) | J + I + 1 < 2^(k+1) *)
    assert (D : (2 ^ (Z.of_nat k + 1) | J + I + 1)).
    { apply Gauss with (b := J - I); [exists q; lia | apply odd_rel_prime_pow2; auto]. }
    apply Z.divide_pos_le in D; [|lia]. rewrite Z.pow_add_r in D by lia. lia.
  - (* J + I + 1 odd: 2^(k+1) | J - I < 2^k *)
    assert (Ho' : Z.odd (J + I + 1) = true).
    { replace (J + I + 1) with ((J - I) + (2 * I + 1)) by lia.
      rewrite Z.odd_add, Ho. replace (2 * I + 1) with (1 + 2 * I) by lia.
      rewrite Z.odd_add_mul_2. reflexivity. }
    assert (D : (2 ^ (Z.of_nat k + 1) | J - I)).
    { apply Gauss with (b := J + I + 1); [exists q; lia | apply odd_rel_prime_pow2; auto]. }
    apply Z.divide_pos_le in D; [|lia]. rewrite Z.pow_add_r in D by lia. lia.
Qed.

(* probe_complete: from any start, the first 2^k probes idx, idx+1, idx+3, idx+6, ...
   (mod 2^k) are pairwise distinct, hence visit every slot of the table *)
Theorem probe_complete (k : nat) (idx i j : nat) :
  (idx < 2 ^ k)%nat -> (i < j)%nat -> (j < 2 ^ k)%nat ->
  pos (N.of_nat (2 ^ k) - 1) idx 1 i <> pos (N.of_nat (2 ^ k) - 1) idx 1 j.
Proof.
  intros Hidx Hij Hj E. rewrite !pos_closed in E by auto.
  apply (tri_distinct k i j Hij Hj).
  apply (f_equal Z.of_nat) in E. rewrite !Nat2Z.inj_mod, !Nat2Z.inj_add, Nat2Z.inj_pow in E.
  change (Z.of_nat 2) with 2 in E.
  assert (Hp : 2 ^ Z.of_nat k <> 0) by (apply Z.pow_nonzero; lia).
  apply Z.mod_divide; auto.
  replace (Z.of_nat (psum 1 j) - Z.of_nat (psum 1 i))
    with ((Z.of_nat idx + Z.of_nat (psum 1 j)) - (Z.of_nat idx + Z.of_nat (psum 1 i))) by lia.
  rewrite Zminus_mod, E, Z.sub_diag. apply Z.mod_0_l; auto.
Qed.

(* every slot is visited within the first 2^k probes *)
Lemma probe_surjective (k idx : nat) : (idx < 2 ^ k)%nat ->
  forall s, (s < 2 ^ k)%nat -> In s (map (pos (N.of_nat (2 ^ k) - 1) idx 1) (seq 0 (2 ^ k))).
Proof.
  intros Hidx.
  set (l := map (pos (N.of_nat (2 ^ k) - 1) idx 1) (seq 0 (2 ^ k))).
  assert (ND : NoDup l).
  { unfold l. assert (G : forall n a, (a + n <= 2 ^ k)%nat ->
      NoDup (map (pos (N.of_nat (2 ^ k) - 1) idx 1) (seq a n))).
    { induction n as [|n IH]; intros a Hn; [constructor|].
      simpl. constructor; [|apply IH; lia].
      intro Hin. apply in_map_iff in Hin as [i [Ei Hi]]. apply in_seq in Hi.
      apply (probe_complete k idx a i); auto; lia. }
    apply G; lia. }
  assert (Hincl : incl l (seq 0 (2 ^ k))).
  { intros s Hs. unfold l in Hs. apply in_map_iff in Hs as [i [<- _]].
    apply in_seq. split; [lia|]. simpl. apply pos_lt; auto. }
  intros s Hs. apply (@NoDup_length_incl _ l (seq 0 (2 ^ k)) ND); auto.
  - unfold l. rewrite map_length, !seq_length. lia.
  - apply in_seq. lia.
Qed.

(* ---- thresholds ---- *)
Lemma threshold_nonneg n : 0 <= threshold_of n.
Proof. unfold threshold_of, lf_mant, lf_shift. apply Z.div_pos; lia. Qed.

(* the load factor is < 1: a table below its threshold always has a free slot *)
Lemma threshold_lt n : (0 < n)%nat -> threshold_of n < Z.of_nat n.
Proof.
  intro Hn. unfold threshold_of, lf_mant, lf_shift.
  apply Z.div_lt_upper_bound; [lia|]. change (2 ^ 53) with 9007199254740992. lia.
Qed.

(* for every capacity the code can have (2^0 .. 2^29) the float computation
   int(0.7*float64(cap)) is floor(7*cap/10) *)
Lemma threshold_is_7_10 : forall k, (k <= 29)%nat ->
  (lf_mant * 2 ^ Z.of_nat k) / 2 ^ lf_shift = 7 * 2 ^ Z.of_nat k / 10.
Proof.
  assert (H : forallb (fun k => (lf_mant * 2 ^ Z.of_nat k) / 2 ^ lf_shift =? 7 * 2 ^ Z.of_nat k / 10)
                      (seq 0 30) = true) by (vm_compute; reflexivity).
  rewrite forallb_forall in H. intros k Hk. apply Z.eqb_eq, H, in_seq. lia.
Qed.

(* C09 — executable model of exec/combiner.go (combiningFrame, combiner) and of the
   reduce-merge of sorted runs in sortio/reader.go.
   No proofs here: the model must still evaluate when a proof is broken.

   Rows are (key, value): the key is the list of the prefix columns (compared
   lexicographically as (Frame).Less does, frame/frame.go:375), the value is the
   single residual column.  Cells are Z (the harness uses Go ints).
   The hash function [h] (frame.HashWithSeed(key, hashSeed)) and the user's
   combine function [comb] are Section variables: every definition below, and
   every theorem about it, is parametric in them.  The correspondence driver
   instantiates [h] with the table of real hashes logged by the harness.

   What is NOT represented: the scratch rows data[cap..cap+nscratch) (the row
   being combined is taken from the input list; the row that Swap moves into the
   scratch area is dead: it is never read again), typecheck panics of the
   constructors, I/O errors of the spiller, and the chunking of the output of
   sortio.reader.Read by the size of the destination frame. *)
From Coq Require Import List ZArith NArith Lia Bool.
Import ListNotations.
Local Open Scope Z_scope.

Inductive res (A : Type) : Type := Ok (a : A) | Panic | OutOfFuel.
Arguments Ok {A} a.
Arguments Panic {A}.
Arguments OutOfFuel {A}.

Definition bind {A B} (x : res A) (f : A -> res B) : res B :=
  match x with Ok a => f a | Panic => Panic | OutOfFuel => OutOfFuel end.

Notation key := (list Z) (only parsing).
Notation row := (list Z * Z)%type (only parsing).

(* ---- constants of exec/combiner.go:36-48 (pinned to the source by Gen/C09_params.v) ---- *)
(* combiningFrameLoadFactor = 0.7; as a float64 it is exactly lf_mant * 2^-lf_shift. *)
Definition lf_mant : Z := 6305039478318694.
Definition lf_shift : Z := 53.
Definition hash_max_capacity : Z := 536870912.      (* 1 << 29 *)

(* c.threshold = int(combiningFrameLoadFactor * float64(ndata)), combiner.go:125.
   float64(ndata) is exact (ndata < 2^53) and, ndata being a power of two, the
   IEEE product only changes the exponent, so it is exactly lf_mant*ndata*2^-53;
   int() truncates towards zero.  Hence the integer below is the Go value. *)
Definition threshold_of (ndata : nat) : Z := (lf_mant * Z.of_nat ndata) / 2 ^ lf_shift.

(* ---- (Frame).Less on the prefix columns: lexicographic, frame.go:375-385 ---- *)
Fixpoint key_ltb (a b : key) : bool :=
  match a, b with
  | x :: a', y :: b' => if x <? y then true else if y <? x then false else key_ltb a' b'
  | [], _ :: _ => true          (* not reached: all keys of a frame have the same columns *)
  | _, [] => false
  end.

(* the equality test of combine(): !Less(idx, cap+i) && !Less(cap+i, idx) *)
Definition keq (a b : key) : bool := negb (key_ltb a b) && negb (key_ltb b a).

(* ---- list helpers ---- *)
Fixpoint upd {A} (l : list A) (i : nat) (x : A) : list A :=
  match l, i with
  | [], _ => []
  | _ :: r, O => x :: r
  | y :: r, S j => y :: upd r j x
  end.

(* (Frame).Swap(i, j) on one list of rows *)
Definition swap {A} (l : list A) (i j : nat) : list A :=
  match nth_error l i, nth_error l j with
  | Some a, Some b => upd (upd l i b) j a
  | _, _ => l
  end.

(* ---- sort.Sort(frame): ascending by key.  Insertion sort; the frames that are
        sorted here hold pairwise distinct keys, so every correct comparison sort
        (Go's pdqsort included) produces this same list. ---- *)
Fixpoint sort_ins (r : row) (l : list row) : list row :=
  match l with
  | [] => [r]
  | x :: l' => if key_ltb (fst r) (fst x) then r :: x :: l' else x :: sort_ins r l'
  end.
Fixpoint sort_rows (l : list row) : list row :=
  match l with [] => [] | r :: l' => sort_ins r (sort_rows l') end.

(* ================= combiningFrame ================= *)

Record cframe := mkCF {
  cslots : list row;     (* data[0 .. cap): the hash table rows, stale rows included *)
  chits : list Z;        (* hits *)
  clen : Z;              (* len *)
  ccap : nat;            (* cap *)
  cmask : N;             (* mask *)
  cthreshold : Z;        (* threshold *)
  cscratch : nat;        (* scratch.Len() *)
  cnk : nat              (* number of key (prefix) columns of typ *)
}.

Definition with_tab (t : cframe) (slots : list row) (hits : list Z) : cframe :=
  mkCF slots hits (clen t) (ccap t) (cmask t) (cthreshold t) (cscratch t) (cnk t).
Definition with_len (t : cframe) (n : Z) : cframe :=
  mkCF (cslots t) (chits t) n (ccap t) (cmask t) (cthreshold t) (cscratch t) (cnk t).

Definition zero_row (nk : nat) : row := (repeat 0 nk, 0).

(* combiningFrame.make(ndata, nscratch), combiner.go:114-129: fresh zeroed data
   and hits; len is not touched.  Panics unless ndata&(ndata-1) == 0. *)
Definition make_cf (nk ndata nscratch : nat) (len : Z) : res cframe :=
  let n := N.of_nat ndata in
  if negb (N.eqb (N.land n (n - 1)) 0) then Panic
  else Ok (mkCF (repeat (zero_row nk) ndata) (repeat 0 ndata) len ndata (n - 1)%N
                (threshold_of ndata) nscratch nk).

(* makeCombiningFrame(typ, combiner, n, nscratch), combiner.go:100-112 *)
Definition make_combining_frame (nk n nscratch : nat) : res cframe := make_cf nk n nscratch 0.

Section Model.
Variable h : key -> N.           (* scratch.HashWithSeed(i, hashSeed), as a function of the key *)
Variable comb : Z -> Z -> Z.     (* the Combiner *)

(* idx := int(hash) & c.mask *)
Definition home (mask : N) (k : key) : nat := N.to_nat (N.land (h k) mask).
(* idx = (idx + try) & c.mask *)
Definition step (mask : N) (idx try : nat) : nat := N.to_nat (N.land (N.of_nat (idx + try)) mask).

Inductive probe_res := PEmpty (idx : nat) | PFound (idx : nat) | PPanic | PFuel.

(* the probe loop of combine(), combiner.go:155-173: `for try := 1; ; try++`.
   The Go loop has no bound; the model gives it [fuel] iterations and reports
   PFuel if they are used up (theorem insert_total: with fuel = cap this never
   happens).  An index outside hits/data is Go's run-time panic. *)
Fixpoint probe (fuel : nat) (slots : list row) (hits : list Z) (mask : N) (k : key)
               (idx try : nat) : probe_res :=
  match fuel with
  | O => PFuel
  | S f =>
      match nth_error hits idx, nth_error slots idx with
      | Some n, Some r =>
          if n =? 0 then PEmpty idx
          else if keq (fst r) k then PFound idx
          else probe f slots hits mask k (step mask idx try) (S try)
      | _, _ => PPanic
      end
  end.

(* the probe loop of added(), combiner.go:195-203: no key comparison *)
Fixpoint probe_empty (fuel : nat) (hits : list Z) (mask : N) (idx try : nat) : probe_res :=
  match fuel with
  | O => PFuel
  | S f =>
      match nth_error hits idx with
      | Some n => if n =? 0 then PEmpty idx
                  else probe_empty f hits mask (step mask idx try) (S try)
      | None => PPanic
      end
  end.

(* rehash: `for i := range hits0`, combiner.go:190-204 *)
Fixpoint rehash_loop (old : list (row * Z)) (t : cframe) : res cframe :=
  match old with
  | [] => Ok t
  | (r, n) :: rest =>
      if n =? 0 then rehash_loop rest t
      else match probe_empty (ccap t) (chits t) (cmask t) (home (cmask t) (fst r)) 1 with
           | PEmpty idx => rehash_loop rest (with_tab t (upd (cslots t) idx r) (upd (chits t) idx n))
           | PFound _ => Panic        (* not produced by probe_empty *)
           | PPanic => Panic
           | PFuel => OutOfFuel
           end
  end.

(* added(), combiner.go:176-206 *)
Definition added (t : cframe) : res cframe :=
  let t1 := with_len t (clen t + 1) in
  if clen t1 <=? cthreshold t1 then Ok t1
  else if Z.of_nat (ccap t1) =? hash_max_capacity then Panic   (* "hash table too large" *)
  else
    bind (make_cf (cnk t1) (ccap t1 * 2) (cscratch t1) (clen t1))
         (fun t2 => rehash_loop (combine (cslots t1) (chits t1)) t2).

(* one iteration of the outer loop of combine(n): row r = scratch row i *)
Definition insert_row (t : cframe) (r : row) : res cframe :=
  match probe (ccap t) (cslots t) (chits t) (cmask t) (fst r) (home (cmask t) (fst r)) 1 with
  | PEmpty idx =>
      (* c.hits[idx]++ ; c.data.Swap(idx, c.cap+i) ; c.added() *)
      added (with_tab t (upd (cslots t) idx r) (upd (chits t) idx (nth idx (chits t) 0 + 1)))
  | PFound idx =>
      (* data[vcol][idx] = Combiner(data[vcol][idx], scratch[vcol][i]) ; c.hits[idx]++ *)
      let old := nth idx (cslots t) ([], 0) in
      Ok (with_tab t (upd (cslots t) idx (fst old, comb (snd old) (snd r)))
                     (upd (chits t) idx (nth idx (chits t) 0 + 1)))
  | PPanic => Panic
  | PFuel => OutOfFuel
  end.

(* combine(n): the n rows of the scratch space, in order *)
Fixpoint combine_rows (t : cframe) (rows : list row) : res cframe :=
  match rows with
  | [] => Ok t
  | r :: rest => bind (insert_row t r) (fun t' => combine_rows t' rest)
  end.

(* Combine(f), combiner.go:141-147: chunks of scratch.Len() rows *)
Fixpoint combine_chunks (t : cframe) (rows : list row) (s : nat) (is : list nat) : res cframe :=
  match is with
  | [] => Ok t
  | i :: r => bind (combine_rows t (firstn s (skipn (s * i) rows)))
                   (fun t' => combine_chunks t' rows s r)
  end.
Definition Combine (t : cframe) (rows : list row) : res cframe :=
  let s := cscratch t in
  if Nat.eqb s 0 then Panic            (* integer divide by zero in nchunk *)
  else
    let nchunk := ((length rows + s - 1) / s)%nat in
    combine_chunks t rows s (seq 0 nchunk).

(* Compact(), combiner.go:211-223: `for i, n := range c.hits` *)
Fixpoint compact_loop (is : list nat) (slots : list row) (hits : list Z) (j : nat)
  : list row * list Z * nat :=
  match is with
  | [] => (slots, hits, j)
  | i :: r =>
      if nth i hits 0 =? 0 then compact_loop r slots hits j
      else compact_loop r (swap slots i j) (upd hits i 0) (S j)
  end.

(* returns (data.Slice(0, j) as rows, j, the frame afterwards) *)
Definition compact (t : cframe) : list row * nat * cframe :=
  let '(slots, hits, j) := compact_loop (seq 0 (length (chits t))) (cslots t) (chits t) 0%nat in
  (firstn j slots, j, with_len (with_tab t slots hits) 0).

(* sort.Sort(data.Slice(0, j)): in place, on the (now stale) first j rows *)
Definition sort_prefix (t : cframe) (j : nat) : cframe :=
  with_tab t (sort_rows (firstn j (cslots t)) ++ skipn j (cslots t)) (chits t).

(* ================= sortio.Reduce: merge of sorted runs, combining equal keys ================= *)

(* the key at the top of the heap: the smallest head, leftmost on ties
   (container/heap's order among equal keys is not observable: they are combined) *)
Fixpoint min_key (runs : list (list row)) : option key :=
  match runs with
  | [] => None
  | [] :: rs => min_key rs
  | (r :: _) :: rs =>
      match min_key rs with
      | None => Some (fst r)
      | Some m => if key_ltb m (fst r) then Some m else Some (fst r)
      end
  end.

(* reader.go:87-93: pop every buffer whose head is not greater than combine[0];
   returns the popped values (in list order) and the runs advanced by one row *)
Fixpoint pop_eq (m : key) (runs : list (list row)) : list Z * list (list row) :=
  match runs with
  | [] => ([], [])
  | [] :: rs => let '(vs, rs') := pop_eq m rs in (vs, [] :: rs')
  | (r :: tl) :: rs =>
      let '(vs, rs') := pop_eq m rs in
      if negb (key_ltb m (fst r)) then (snd r :: vs, tl :: rs') else (vs, (r :: tl) :: rs')
  end.

Fixpoint merge_loop (fuel : nat) (runs : list (list row)) : res (list row) :=
  match fuel with
  | O => OutOfFuel
  | S f =>
      match min_key runs with
      | None => Ok []                                   (* heap empty: EOF *)
      | Some m =>
          match pop_eq m runs with
          | (v0 :: vs, runs') =>
              (* combined = combiner(combiner(v0, v1), ...), reader.go:97-105 *)
              bind (merge_loop f runs') (fun out => Ok ((m, fold_left comb vs v0) :: out))
          | ([], _) => Panic                            (* not reached *)
          end
      end
  end.

Definition total_len (runs : list (list row)) : nat := fold_right (fun r n => (length r + n)%nat) 0%nat runs.
Definition reduce_merge (runs : list (list row)) : res (list row) := merge_loop (S (total_len runs)) runs.

(* ================= combiner ================= *)

Record combiner := mkC {
  ctarget : Z;                   (* targetSize *)
  ccomb : cframe;                (* comb *)
  cruns : list (list row);       (* the spill files of c.spiller, in spill order *)
  ctotal : Z                     (* total *)
}.

(* newCombiner(typ, name, comb, targetSize), combiner.go:242-260, with
   *combiningFrameInitSize = init and *combiningFrameScratchSize = nscratch *)
Definition new_combiner (nk init nscratch : nat) (target : Z) : res combiner :=
  bind (make_combining_frame nk init nscratch) (fun t => Ok (mkC target t [] 0)).

(* combiner.Combine(ctx, f), combiner.go:286-305: the spill test uses the number
   of keys held BEFORE f was combined; the spill takes everything, f included *)
Definition c_combine (c : combiner) (batch : list row) : res combiner :=
  let n := Z.of_nat (length batch) in
  let total := ctotal c + n in
  let nkeys := clen (ccomb c) in
  bind (Combine (ccomb c) batch) (fun t' =>
    if nkeys >=? ctarget c then
      let '(rows, j, t'') := compact t' in
      (* spill: sort.Sort(f); spiller.Spill(f); c.total = 0 *)
      Ok (mkC (ctarget c) (sort_prefix t'' j) (cruns c ++ [sort_rows rows]) 0)
    else Ok (mkC (ctarget c) t' (cruns c) total)).

Fixpoint c_feed (c : combiner) (batches : list (list row)) : res combiner :=
  match batches with
  | [] => Ok c
  | b :: rest => bind (c_combine c b) (fun c' => c_feed c' rest)
  end.

(* combiner.Reader(), combiner.go:315-333, read to EOF; [runs] is the order in
   which the spiller lists its files (a permutation of cruns c).  Afterwards the
   spill directory is removed (Cleanup): no runs. *)
Definition c_reader_with (c : combiner) (runs : list (list row)) : res (list row * combiner) :=
  let '(rows, j, t') := compact (ccomb c) in
  bind (reduce_merge (runs ++ [sort_rows rows]))
       (fun out => Ok (out, mkC (ctarget c) (sort_prefix t' j) [] (ctotal c))).
Definition c_reader (c : combiner) : res (list row * combiner) := c_reader_with c (cruns c).

(* combiner.Discard() *)
Definition c_discard (c : combiner) : combiner := mkC (ctarget c) (ccomb c) [] (ctotal c).

End Model.

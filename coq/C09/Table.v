(* C09 — the hash table: invariant, probing, insert-or-combine, growth, Compact. *)
From Coq Require Import List ZArith NArith Lia Bool Permutation.
Import ListNotations.
Require Import BS.Common.Util BS.C09.Model BS.C09.Spec BS.C09.Arith BS.C09.Lists.
Local Open Scope Z_scope.

(* ================= occupied slots ================= *)

Definition nzb (n : Z) : bool := negb (n =? 0).
Definition count (hits : list Z) : nat := length (filter nzb hits).

(* the rows held by the table, in slot order *)
Definition occ_rows (es : list ((list Z * Z) * Z)) : list (list Z * Z) :=
  map fst (filter (fun e => nzb (snd e)) es).
Definition abs (t : cframe) : list (list Z * Z) := occ_rows (combine (cslots t) (chits t)).

Lemma nzb_true n : nzb n = true <-> n <> 0.
Proof. unfold nzb. rewrite negb_true_iff, Z.eqb_neq. tauto. Qed.
Lemma nzb_false n : nzb n = false <-> n = 0.
Proof. unfold nzb. rewrite negb_false_iff, Z.eqb_eq. tauto. Qed.

Lemma In_combine_nth {A B} (l1 : list A) : forall (l2 : list B) a b,
  In (a, b) (combine l1 l2) <-> exists i, nth_error l1 i = Some a /\ nth_error l2 i = Some b.
Proof.
  induction l1 as [|x l1 IH]; intros [|y l2] a b; simpl.
  - split; [tauto | intros [[|i] [H _]]; discriminate].
  - split; [tauto | intros [[|i] [H _]]; discriminate].
  - split; [tauto | intros [[|i] [_ H]]; discriminate].
  - rewrite IH. split.
    + intros [E | [i Hi]]; [inversion E; subst; exists 0%nat; auto | exists (S i); auto].
    + intros [[|i] [H1 H2]]; simpl in *; [left; congruence | right; eauto].
Qed.

Lemma In_occ_rows r es : In r (occ_rows es) <-> exists n, In (r, n) es /\ n <> 0.
Proof.
  unfold occ_rows. rewrite in_map_iff. split.
  - intros [[r' n] [E H]]. simpl in E. subst. apply filter_In in H as [H1 H2].
    exists n. split; auto. now apply nzb_true.
  - intros [n [H N]]. exists (r, n). split; auto. apply filter_In. split; auto. now apply nzb_true.
Qed.

Lemma In_abs t r : In r (abs t) <->
  exists i n, nth_error (cslots t) i = Some r /\ nth_error (chits t) i = Some n /\ n <> 0.
Proof.
  unfold abs. rewrite In_occ_rows. split.
  - intros [n [H N]]. apply In_combine_nth in H as [i [H1 H2]]. eauto.
  - intros [i [n [H1 [H2 N]]]]. exists n. split; auto. apply In_combine_nth. eauto.
Qed.

Lemma count_upd : forall hs i a b, nth_error hs i = Some a ->
  (count (upd hs i b) + (if nzb a then 1 else 0) = count hs + (if nzb b then 1 else 0))%nat.
Proof.
  unfold count. induction hs as [|x hs IH]; intros [|i] a b H; simpl in *; try discriminate.
  - inversion H; subst. destruct (nzb a), (nzb b); simpl; lia.
  - specialize (IH i a b H). destruct (nzb x); simpl; lia.
Qed.

Lemma count_repeat n : count (repeat 0 n) = 0%nat.
Proof. unfold count. induction n; simpl; auto. Qed.

Lemma count_all : forall hs, (forall i, (i < length hs)%nat -> exists n, nth_error hs i = Some n /\ n <> 0) ->
  count hs = length hs.
Proof.
  unfold count. induction hs as [|x hs IH]; intro H; simpl; auto.
  destruct (H 0%nat) as [n [E N]]; [simpl; lia|]. simpl in E. inversion E; subst.
  apply nzb_true in N. rewrite N. simpl. f_equal. apply IH.
  intros i Hi. apply (H (S i)). simpl. lia.
Qed.

Lemma occ_rows_length : forall (s : list (list Z * Z)) hs, length s = length hs ->
  length (occ_rows (combine s hs)) = count hs.
Proof.
  unfold occ_rows, count. induction s as [|r s IH]; intros [|n hs] H; simpl in *; try discriminate; auto.
  destruct (nzb n); simpl; rewrite map_length in *; [f_equal|]; rewrite <- IH by lia; now rewrite map_length.
Qed.

Lemma nth_error_repeat {A} (x : A) n i y : nth_error (repeat x n) i = Some y -> y = x.
Proof.
  revert i. induction n as [|n IH]; intros [|i] H; simpl in *; try discriminate; [congruence | eauto].
Qed.

Lemma occ_rows_repeat0 (s : list (list Z * Z)) n : occ_rows (combine s (repeat 0 n)) = [].
Proof.
  unfold occ_rows. revert n. induction s as [|r s IH]; intros [|n]; simpl; auto.
Qed.

Lemma combine_upd {A B} (l1 : list A) : forall (l2 : list B) i a b,
  combine (upd l1 i a) (upd l2 i b) = upd (combine l1 l2) i (a, b).
Proof.
  induction l1 as [|x l1 IH]; intros [|y l2] [|i] a b; simpl; auto. now rewrite IH.
Qed.

(* distinct keys from index-injectivity *)
Lemma occ_rows_nodup : forall es : list ((list Z * Z) * Z),
  (forall i j r1 n1 r2 n2, nth_error es i = Some (r1, n1) -> nth_error es j = Some (r2, n2) ->
     n1 <> 0 -> n2 <> 0 -> fst r1 = fst r2 -> i = j) ->
  NoDup (map fst (occ_rows es)).
Proof.
  induction es as [|[r n] es IH]; intro H; [constructor|].
  assert (IH' : NoDup (map fst (occ_rows es))).
  { apply IH. intros i j r1 n1 r2 n2 H1 H2 N1 N2 E.
    assert (S i = S j) by (eapply H; eauto). lia. }
  unfold occ_rows in *. simpl. destruct (nzb n) eqn:En; auto.
  simpl. constructor; auto. intro Hin.
  apply in_map_iff in Hin as [r2 [E Hr2]]. apply in_map_iff in Hr2 as [[r2' n2] [E2 Hf]].
  simpl in E2. subst r2'. apply filter_In in Hf as [Hf1 Hf2]. simpl in Hf2.
  apply In_nth_error in Hf1 as [j Hj].
  assert (0%nat = S j); [|lia].
  eapply (H 0%nat (S j) r n r2 n2); simpl; eauto; now apply nzb_true.
Qed.

(* ================= probing ================= *)
Section ProbeGen.
Variable m : N.        (* facts that hold for any mask *)

Lemma probe_found_inv : forall fuel s hs key idx try i,
  probe fuel s hs m key idx try = PFound i ->
  exists r n, nth_error s i = Some r /\ nth_error hs i = Some n /\ n <> 0 /\ fst r = key.
Proof.
  induction fuel as [|f IH]; intros s hs key idx try i H; simpl in H; [discriminate|].
  destruct (nth_error hs idx) as [n|] eqn:E1; [|discriminate].
  destruct (nth_error s idx) as [r|] eqn:E2; [|discriminate].
  destruct (Z.eqb_spec n 0); [discriminate|].
  destruct (keq (fst r) key) eqn:E3.
  - inversion H; subst. apply keq_eq in E3. eauto 6.
  - eauto.
Qed.

Lemma probe_empty_inv : forall fuel s hs key idx try e,
  probe fuel s hs m key idx try = PEmpty e ->
  nth_error hs e = Some 0 /\ (e < length s)%nat.
Proof.
  induction fuel as [|f IH]; intros s hs key idx try e H; simpl in H; [discriminate|].
  destruct (nth_error hs idx) as [n|] eqn:E1; [|discriminate].
  destruct (nth_error s idx) as [r|] eqn:E2; [|discriminate].
  destruct (Z.eqb_spec n 0).
  - inversion H; subst. split; auto. apply nth_error_Some. congruence.
  - destruct (keq (fst r) key); [discriminate | eauto].
Qed.

Lemma probe_ext : forall fuel s hs s' hs' key idx try,
  (forall i, option_map nzb (nth_error hs i) = option_map nzb (nth_error hs' i)) ->
  (forall i, option_map fst (nth_error s i) = option_map fst (nth_error s' i)) ->
  probe fuel s hs m key idx try = probe fuel s' hs' m key idx try.
Proof.
  induction fuel as [|f IH]; intros s hs s' hs' key idx try H1 H2; simpl; auto.
  specialize (H1 idx) as H1i. specialize (H2 idx) as H2i.
  destruct (nth_error hs idx) as [n|], (nth_error hs' idx) as [n'|]; simpl in H1i; try discriminate; auto.
  destruct (nth_error s idx) as [r|], (nth_error s' idx) as [r'|]; simpl in H2i; try discriminate; auto.
  inversion H1i as [Hn]. inversion H2i as [Hr]. unfold nzb in Hn.
  destruct (n =? 0), (n' =? 0); simpl in Hn; try discriminate; auto.
  rewrite Hr. destruct (keq (fst r') key); auto.
Qed.

Lemma probe_fill_other : forall fuel s hs key idx try i e r' n',
  nth_error hs e = Some 0 -> n' <> 0 ->
  probe fuel s hs m key idx try = PFound i ->
  probe fuel (upd s e r') (upd hs e n') m key idx try = PFound i.
Proof.
  induction fuel as [|f IH]; intros s hs key idx try i e r' n' He Hn' H; simpl in *; [discriminate|].
  destruct (nth_error hs idx) as [n|] eqn:E1; [|discriminate].
  destruct (nth_error s idx) as [r|] eqn:E2; [|discriminate].
  destruct (Nat.eq_dec e idx) as [->|Ne].
  - rewrite He in E1. inversion E1; subst. discriminate.
  - rewrite !nth_error_upd_neq, E1, E2 by auto.
    destruct (n =? 0); [discriminate|]. destruct (keq (fst r) key); auto.
Qed.

Lemma probe_fill_self : forall fuel s hs key idx try e v n',
  n' <> 0 -> probe fuel s hs m key idx try = PEmpty e ->
  probe fuel (upd s e (key, v)) (upd hs e n') m key idx try = PFound e.
Proof.
  induction fuel as [|f IH]; intros s hs key idx try e v n' Hn' H; simpl in *; [discriminate|].
  destruct (nth_error hs idx) as [n|] eqn:E1; [|discriminate].
  destruct (nth_error s idx) as [r|] eqn:E2; [|discriminate].
  destruct (Nat.eq_dec e idx) as [->|Ne].
  - rewrite !nth_error_upd_eq by (apply nth_error_Some; congruence).
    apply Z.eqb_neq in Hn'. rewrite Hn'. simpl. now rewrite keq_refl.
  - rewrite !nth_error_upd_neq, E1, E2 by auto.
    destruct (n =? 0); [inversion H; congruence|]. destruct (keq (fst r) key); [discriminate | auto].
Qed.

Lemma probe_fuel_occ : forall fuel s hs key idx try,
  probe fuel s hs m key idx try = PFuel ->
  forall j, (j < fuel)%nat -> exists n, nth_error hs (pos m idx try j) = Some n /\ n <> 0.
Proof.
  induction fuel as [|f IH]; intros s hs key idx try H j Hj; [lia|]. simpl in H.
  destruct (nth_error hs idx) as [n|] eqn:E1; [|discriminate].
  destruct (nth_error s idx) as [r|] eqn:E2; [|discriminate].
  destruct (Z.eqb_spec n 0); [discriminate|]. destruct (keq (fst r) key); [discriminate|].
  destruct j as [|j]; simpl; [eauto|]. apply (IH _ _ _ _ _ H). lia.
Qed.

Lemma probe_empty_res : forall fuel hs idx try,
  match probe_empty fuel hs m idx try with
  | PEmpty e => nth_error hs e = Some 0
  | PFound _ => False
  | _ => True
  end.
Proof.
  induction fuel as [|f IH]; intros hs idx try; simpl; auto.
  destruct (nth_error hs idx) as [n|] eqn:E1; auto.
  destruct (Z.eqb_spec n 0); [subst; auto | apply IH].
Qed.

Lemma probe_empty_fuel_occ : forall fuel hs idx try,
  probe_empty fuel hs m idx try = PFuel ->
  forall j, (j < fuel)%nat -> exists n, nth_error hs (pos m idx try j) = Some n /\ n <> 0.
Proof.
  induction fuel as [|f IH]; intros hs idx try H j Hj; [lia|]. simpl in H.
  destruct (nth_error hs idx) as [n|] eqn:E1; [|discriminate].
  destruct (Z.eqb_spec n 0); [discriminate|].
  destruct j as [|j]; simpl; [eauto|]. apply (IH _ _ _ H). lia.
Qed.

Lemma probe_absent : forall fuel s hs key idx try,
  length s = length hs ->
  (forall i r n, nth_error s i = Some r -> nth_error hs i = Some n -> n <> 0 -> fst r <> key) ->
  probe fuel s hs m key idx try = probe_empty fuel hs m idx try.
Proof.
  induction fuel as [|f IH]; intros s hs key idx try Hl Ha; simpl; auto.
  destruct (nth_error hs idx) as [n|] eqn:E1; auto.
  destruct (nth_error s idx) as [r|] eqn:E2.
  - destruct (Z.eqb_spec n 0); auto.
    destruct (keq (fst r) key) eqn:E3; [|auto].
    apply keq_eq in E3. exfalso. eapply Ha; eauto.
  - apply nth_error_None in E2. assert (idx < length hs)%nat by (apply nth_error_Some; congruence). lia.
Qed.

End ProbeGen.

Section Probe.
Variable k : nat.                       (* cap = 2^k *)
Notation cap := (2 ^ k)%nat.
Notation mask := (N.of_nat (2 ^ k) - 1)%N.



(* the outcome only depends on which slots are occupied and on their keys *)

(* filling an empty slot does not disturb the search for a key found elsewhere *)

(* ... and makes the search for the key stored there succeed at that slot *)

Lemma probe_no_panic : forall fuel s hs key idx try,
  length s = cap -> length hs = cap -> (idx < cap)%nat ->
  probe fuel s hs mask key idx try <> PPanic.
Proof.
  induction fuel as [|f IH]; intros s hs key idx try Hs Hh Hi; simpl; [discriminate|].
  destruct (nth_error hs idx) as [n|] eqn:E1; [|apply nth_error_None in E1; lia].
  destruct (nth_error s idx) as [r|] eqn:E2; [|apply nth_error_None in E2; lia].
  destruct (n =? 0); [discriminate|]. destruct (keq (fst r) key); [discriminate|].
  apply IH; auto. apply step_lt.
Qed.


(* insert_total, probe level: a table with a free slot never exhausts cap probes *)
Lemma probe_no_fuel s hs key idx :
  length hs = cap -> (idx < cap)%nat -> (count hs < cap)%nat ->
  probe cap s hs mask key idx 1 <> PFuel.
Proof.
  intros Hh Hi Hc H. pose proof (probe_fuel_occ _ _ _ _ _ _ _ H) as O.
  assert (count hs = length hs); [|lia].
  apply count_all. intros i Hl. rewrite Hh in Hl.
  pose proof (probe_surjective k idx Hi i Hl) as Hin.
  apply in_map_iff in Hin as [j [<- Hj]]. apply in_seq in Hj. apply O. lia.
Qed.

(* ---- the loop of added() ---- *)

Lemma probe_empty_no_panic : forall fuel hs idx try,
  length hs = cap -> (idx < cap)%nat -> probe_empty fuel hs mask idx try <> PPanic.
Proof.
  induction fuel as [|f IH]; intros hs idx try Hh Hi; simpl; [discriminate|].
  destruct (nth_error hs idx) as [n|] eqn:E1; [|apply nth_error_None in E1; lia].
  destruct (n =? 0); [discriminate|]. apply IH; auto. apply step_lt.
Qed.


Lemma probe_empty_no_fuel hs idx :
  length hs = cap -> (idx < cap)%nat -> (count hs < cap)%nat ->
  probe_empty cap hs mask idx 1 <> PFuel.
Proof.
  intros Hh Hi Hc H. pose proof (probe_empty_fuel_occ _ _ _ _ _ H) as O.
  assert (count hs = length hs); [|lia].
  apply count_all. intros i Hl. rewrite Hh in Hl.
  pose proof (probe_surjective k idx Hi i Hl) as Hin.
  apply in_map_iff in Hin as [j [<- Hj]]. apply in_seq in Hj. apply O. lia.
Qed.

(* "because all of the keys are unique, we do not need to check for equality" *)

End Probe.

(* ================= the table invariant ================= *)
Section Table.
Variable h : list Z -> N.

(* shape and searchability (everything except the len field) for capacity 2^k:
   every occupied slot is where the probe sequence of its key finds it *)
Record wf_tab (t : cframe) (k : nat) : Prop := {
  wt_cap : ccap t = (2 ^ k)%nat;
  wt_slots : length (cslots t) = ccap t;
  wt_hits : length (chits t) = ccap t;
  wt_mask : cmask t = (N.of_nat (ccap t) - 1)%N;
  wt_thr : cthreshold t = threshold_of (ccap t);
  wt_pos : Forall (fun n => 0 <= n) (chits t);
  wt_find : forall i r n,
    nth_error (cslots t) i = Some r -> nth_error (chits t) i = Some n -> n <> 0 ->
    probe (ccap t) (cslots t) (chits t) (cmask t) (fst r) (home h (cmask t) (fst r)) 1 = PFound i
}.

(* the full invariant: len counts the occupied slots and leaves a free slot *)
Record wf (t : cframe) : Prop := {
  wf_shape : exists k, wf_tab t k;
  wf_len : clen t = Z.of_nat (count (chits t));
  wf_room : clen t < Z.of_nat (ccap t)
}.

Lemma home_lt t k key : wf_tab t k -> (home h (cmask t) key < 2 ^ k)%nat.
Proof.
  intros W. unfold home. rewrite (wt_mask _ _ W), (wt_cap _ _ W), land_mask.
  apply Nat.mod_upper_bound. pose proof (pow2_pos k). lia.
Qed.

Lemma nth_error_combine {A B} (l1 : list A) (l2 : list B) i a b :
  nth_error (combine l1 l2) i = Some (a, b) -> nth_error l1 i = Some a /\ nth_error l2 i = Some b.
Proof.
  revert l2 i. induction l1 as [|x l1 IH]; intros [|y l2] [|i] H; simpl in *; try discriminate.
  - inversion H; auto.
  - auto.
Qed.

Lemma abs_keys_nodup t k : wf_tab t k -> NoDup (map fst (abs t)).
Proof.
  intro W. unfold abs. apply occ_rows_nodup.
  intros i j r1 n1 r2 n2 H1 H2 N1 N2 E.
  apply nth_error_combine in H1 as [A1 B1]. apply nth_error_combine in H2 as [A2 B2].
  pose proof (wt_find _ _ W _ _ _ A1 B1 N1) as F1. pose proof (wt_find _ _ W _ _ _ A2 B2 N2) as F2.
  rewrite E in F1. congruence.
Qed.

Lemma abs_length t k : wf_tab t k -> length (abs t) = count (chits t).
Proof. intro W. unfold abs. apply occ_rows_length. rewrite (wt_slots _ _ W), (wt_hits _ _ W). reflexivity. Qed.

Lemma abs_nodup t k : wf_tab t k -> NoDup (abs t).
Proof. intro W. eapply NoDup_map_inv, abs_keys_nodup, W. Qed.

(* putting row r (hit count n > 0) into the empty slot e its probe sequence ends at *)
Lemma fill_wf_tab t k e r n :
  wf_tab t k -> 0 < n ->
  probe (ccap t) (cslots t) (chits t) (cmask t) (fst r) (home h (cmask t) (fst r)) 1 = PEmpty e ->
  let t1 := with_tab t (upd (cslots t) e r) (upd (chits t) e n) in
  wf_tab t1 k /\ count (chits t1) = S (count (chits t)) /\
  (forall x, In x (abs t1) <-> x = r \/ In x (abs t)).
Proof.
  intros W Hn P t1. pose proof P as P0.
  apply probe_empty_inv in P as [He Hel]. rewrite (wt_mask _ _ W), (wt_cap _ _ W) in P0.
  assert (Hehl : (e < length (chits t))%nat) by (apply nth_error_Some; congruence).
  split; [|split].
  - destruct W as [C S Hh M T Pz F]. constructor; unfold t1; cbn [ccap cslots chits cmask cthreshold with_tab]; auto.
    + now rewrite upd_length.
    + now rewrite upd_length.
    + apply Forall_forall. intros x Hx. apply In_nth_error in Hx as [i Hi].
      rewrite nth_error_upd in Hi. destruct (Nat.eqb e i).
      * destruct (e <? length (chits t))%nat; inversion Hi; lia.
      * rewrite Forall_forall in Pz. apply Pz. eapply nth_error_In; eauto.
    + intros i ri ni H1 H2 N. rewrite M, C in *. destruct r as [key v].
      destruct (Nat.eq_dec e i) as [->|Ne].
      * rewrite nth_error_upd_eq in H1 by lia. inversion H1; subst ri. simpl.
        apply probe_fill_self; [lia | exact P0].
      * rewrite nth_error_upd_neq in H1 by auto. rewrite nth_error_upd_neq in H2 by auto.
        apply probe_fill_other; auto; [lia|]. apply (F i ri ni); auto.
  - unfold t1; cbn [chits with_tab]. pose proof (count_upd _ _ _ n He) as Cu.
    replace (nzb 0) with false in Cu by reflexivity.
    replace (nzb n) with true in Cu by (symmetry; apply nzb_true; lia). lia.
  - intro x. rewrite !In_abs. unfold t1; cbn [cslots chits with_tab]. split.
    + intros [i [ni [H1 [H2 N]]]]. destruct (Nat.eq_dec e i) as [->|Ne].
      * rewrite nth_error_upd_eq in H1 by lia. left. congruence.
      * rewrite nth_error_upd_neq in H1 by auto. rewrite nth_error_upd_neq in H2 by auto. right. eauto.
    + intros [->|[i [ni [H1 [H2 N]]]]].
      * exists e, n. rewrite !nth_error_upd_eq by lia. repeat split; auto. lia.
      * assert (e <> i) by (intros ->; congruence).
        exists i, ni. rewrite !nth_error_upd_neq by auto. auto.
Qed.

Lemma probe_empty_total t k idx :
  wf_tab t k -> (idx < 2 ^ k)%nat -> (count (chits t) < 2 ^ k)%nat ->
  exists e, probe_empty (ccap t) (chits t) (cmask t) idx 1 = PEmpty e /\ nth_error (chits t) e = Some 0.
Proof.
  intros W Hi Hc. pose proof (wt_hits _ _ W) as Hh.
  rewrite (wt_mask _ _ W), (wt_cap _ _ W) in *.
  pose proof (probe_empty_res (N.of_nat (2 ^ k) - 1) (2 ^ k) (chits t) idx 1) as R.
  pose proof (probe_empty_no_panic k (2 ^ k) (chits t) idx 1 Hh Hi) as NP.
  pose proof (probe_empty_no_fuel k (chits t) idx Hh Hi Hc) as NF.
  destruct (probe_empty (2 ^ k) (chits t) (N.of_nat (2 ^ k) - 1) idx 1) as [e| | |]; try tauto. eauto.
Qed.

(* ---- growth ---- *)
Lemma rehash_loop_spec : forall old t k,
  wf_tab t k ->
  (count (chits t) + length (occ_rows old) < 2 ^ k)%nat ->
  NoDup (map fst (occ_rows old)) ->
  (forall x, In x (map fst (occ_rows old)) -> ~ In x (map fst (abs t))) ->
  Forall (fun e => 0 <= snd e) old ->
  exists t', rehash_loop h old t = Ok t' /\ wf_tab t' k /\
    count (chits t') = (count (chits t) + length (occ_rows old))%nat /\
    (forall x, In x (abs t') <-> In x (occ_rows old) \/ In x (abs t)) /\
    clen t' = clen t /\ cscratch t' = cscratch t /\ cnk t' = cnk t /\ ccap t' = ccap t.
Proof.
  induction old as [|[r n] old IH]; intros t k W Hc ND Dj Pz.
  - exists t. simpl. split; [reflexivity|]. split; [auto|]. split; [unfold occ_rows; simpl; lia|].
    split; [|auto]. intro x. unfold occ_rows; simpl. tauto.
  - simpl rehash_loop. inversion Pz as [|? ? Pn Pz']; subst. simpl in Pn.
    destruct (Z.eqb_spec n 0) as [->|Nn].
    + apply IH; auto.
    + assert (Eo : occ_rows ((r, n) :: old) = r :: occ_rows old).
      { unfold occ_rows. simpl. replace (nzb n) with true by (symmetry; now apply nzb_true). reflexivity. }
      rewrite Eo in *. simpl in Hc, ND. inversion ND as [|? ? Nr ND']; subst.
      pose proof (home_lt t k (fst r) W) as Hl.
      destruct (probe_empty_total t k (home h (cmask t) (fst r)) W Hl ltac:(lia)) as [e [PE He]].
      assert (PA : probe (ccap t) (cslots t) (chits t) (cmask t) (fst r) (home h (cmask t) (fst r)) 1 = PEmpty e).
      { rewrite <- PE. apply probe_absent.
        - rewrite (wt_slots _ _ W), (wt_hits _ _ W). reflexivity.
        - intros i ri ni H1 H2 N E. apply (Dj (fst r)); [simpl; auto|].
          rewrite <- E. apply in_map. apply In_abs. eauto. }
      rewrite PE.
      destruct (fill_wf_tab t k e r n W ltac:(lia) PA) as [W1 [C1 A1]].
      destruct (IH (with_tab t (upd (cslots t) e r) (upd (chits t) e n)) k W1) as [t' [E' [W' [C' [A' [L' [S' [K' Cp']]]]]]]]; auto.
      * rewrite C1. lia.
      * intros x Hx Hin. apply in_map_iff in Hin as [y [Ey Hy]]. apply A1 in Hy as [->|Hy].
        -- subst x. auto.
        -- apply (Dj x); [simpl; auto|]. rewrite <- Ey. now apply in_map.
      * exists t'. split; [exact E'|]. split; auto. split; [rewrite C', C1; simpl; lia|].
        split; [|cbn [clen cscratch cnk ccap with_tab] in *; auto].
        intro x. rewrite A', A1. simpl. intuition congruence.
Qed.

Lemma combine_snd_nonneg (s : list (list Z * Z)) : forall hs,
  Forall (fun n => 0 <= n) hs -> Forall (fun e => 0 <= snd e) (combine s hs).
Proof.
  induction s as [|r s IH]; intros [|n hs] H; simpl; auto. inversion H; subst. constructor; auto.
Qed.

Lemma pow2_double k : (2 ^ k * 2 = 2 ^ S k)%nat.
Proof. rewrite Nat.pow_succ_r'. lia. Qed.

Lemma fresh_wf_tab nk k ns len :
  make_cf nk (2 ^ k) ns len =
    Ok (mkCF (repeat (zero_row nk) (2 ^ k)) (repeat 0 (2 ^ k)) len (2 ^ k)%nat
             (N.of_nat (2 ^ k) - 1)%N (threshold_of (2 ^ k)) ns nk) /\
  wf_tab (mkCF (repeat (zero_row nk) (2 ^ k)) (repeat 0 (2 ^ k)) len (2 ^ k)%nat
               (N.of_nat (2 ^ k) - 1)%N (threshold_of (2 ^ k)) ns nk) k.
Proof.
  split.
  - unfold make_cf. rewrite make_check_pow2. reflexivity.
  - constructor; cbn [ccap cslots chits cmask cthreshold]; auto using repeat_length.
    + apply Forall_forall. intros x Hx. apply repeat_spec in Hx. lia.
    + intros i r n _ H N. apply nth_error_repeat in H. contradiction.
Qed.

(* added(): t1 already holds the new row; its len field is still the old one *)
Lemma added_spec t1 k :
  wf_tab t1 k -> clen t1 + 1 = Z.of_nat (count (chits t1)) -> clen t1 < Z.of_nat (ccap t1) ->
  match added h t1 with
  | Ok t' => wf t' /\ (forall x, In x (abs t') <-> In x (abs t1)) /\
             cscratch t' = cscratch t1 /\ cnk t' = cnk t1 /\ clen t' = clen t1 + 1 /\
             (ccap t' = ccap t1 \/
              (ccap t' = (ccap t1 * 2)%nat /\ Z.of_nat (ccap t1) <> hash_max_capacity))
  | Panic => Z.of_nat (ccap t1) = hash_max_capacity /\ cthreshold t1 < clen t1 + 1
  | OutOfFuel => False
  end.
Proof.
  intros W L Rm. unfold added. cbn [clen cthreshold ccap cnk cscratch cslots chits with_len].
  pose proof (pow2_pos k) as Pk. pose proof (wt_cap _ _ W) as C.
  destruct (Z.leb_spec (clen t1 + 1) (cthreshold t1)) as [Le|Gt].
  - split; [|split; [tauto | repeat split; auto]]. constructor; cbn [clen ccap chits with_len]; auto.
    + exists k. destruct W. constructor; auto.
    + rewrite (wt_thr _ _ W) in Le. pose proof (threshold_lt (ccap t1)). lia.
  - destruct (Z.eqb_spec (Z.of_nat (ccap t1)) hash_max_capacity) as [Mx|NMx]; [auto|].
    rewrite C, pow2_double.
    destruct (fresh_wf_tab (cnk t1) (S k) (cscratch t1) (clen t1 + 1)) as [-> W3]. cbn [bind].
    set (t3 := mkCF _ _ _ _ _ _ _ _) in *.
    destruct (rehash_loop_spec (combine (cslots t1) (chits t1)) t3 (S k) W3)
      as [t' [E' [W' [C' [A' [L' [S' [K' Cp']]]]]]]].
    + unfold t3; cbn [chits]. rewrite count_repeat. simpl plus.
      rewrite occ_rows_length by (rewrite (wt_slots _ _ W), (wt_hits _ _ W); reflexivity).
      rewrite <- pow2_double. lia.
    + apply (abs_keys_nodup t1 k W).
    + intros x _. unfold abs, t3; cbn [cslots chits]. rewrite occ_rows_repeat0. auto.
    + apply combine_snd_nonneg, (wt_pos _ _ W).
    + rewrite E'. split; [|split; [|split; [exact S' | split; [exact K' | split;
        [rewrite L'; reflexivity | right; split; [rewrite Cp'; reflexivity | rewrite <- C; exact NMx]]]]]].
      * constructor; eauto.
        -- rewrite L', C'. unfold t3; cbn [clen chits]. rewrite count_repeat. simpl plus.
           rewrite occ_rows_length by (rewrite (wt_slots _ _ W), (wt_hits _ _ W); reflexivity). exact L.
        -- rewrite L', Cp'. unfold t3; cbn [clen ccap]. rewrite <- pow2_double. lia.
      * assert (A3 : abs t3 = []) by (unfold abs, t3; cbn [cslots chits]; apply occ_rows_repeat0).
        intro x. rewrite A', A3. unfold abs. simpl. tauto.
Qed.

(* ---- one row ---- *)
Variable comb : Z -> Z -> Z.

Definition new_val (t : cframe) (r : list Z * Z) : Z :=
  match lookup (fst r) (abs t) with Some o => comb o (snd r) | None => snd r end.

Lemma insert_row_spec t r : wf t ->
  match insert_row h comb t r with
  | Ok t' => wf t' /\ cscratch t' = cscratch t /\ cnk t' = cnk t /\
             (forall x, In x (abs t') <-> x = (fst r, new_val t r) \/ (In x (abs t) /\ fst x <> fst r)) /\
             clen t' <= clen t + 1 /\
             (ccap t' = ccap t \/
              (ccap t' = (ccap t * 2)%nat /\ Z.of_nat (ccap t) <> hash_max_capacity))
  | Panic => Z.of_nat (ccap t) = hash_max_capacity /\ lookup (fst r) (abs t) = None
             /\ cthreshold t < clen t + 1
  | OutOfFuel => False
  end.
Proof.
  intros [[k W] L Rm]. unfold insert_row, new_val.
  pose proof (wt_cap _ _ W) as C. pose proof (wt_mask _ _ W) as M.
  pose proof (wt_hits _ _ W) as Hh. pose proof (wt_slots _ _ W) as Hs.
  pose proof (home_lt t k (fst r) W) as Hl.
  pose proof (abs_keys_nodup t k W) as ND.
  destruct (probe (ccap t) (cslots t) (chits t) (cmask t) (fst r) (home h (cmask t) (fst r)) 1) as [e|i| |] eqn:P.
  - (* empty slot: insert, then added() *)
    assert (Ab : lookup (fst r) (abs t) = None).
    { destruct (lookup (fst r) (abs t)) as [v|] eqn:E; auto.
      apply lookup_Some_In, In_abs in E as [i [n [H1 [H2 N]]]].
      pose proof (wt_find _ _ W _ _ _ H1 H2 N) as F. simpl in F. congruence. }
    pose proof P as P0. apply probe_empty_inv in P0 as [He Hel].
    rewrite (nth_nth_error _ _ 0 _ He). simpl Z.add.
    destruct (fill_wf_tab t k e r 1 W ltac:(lia) P) as [W1 [C1 A1]].
    set (t1 := with_tab t (upd (cslots t) e r) (upd (chits t) e 1)) in *.
    pose proof (added_spec t1 k W1) as AS.
    assert (L1 : clen t1 + 1 = Z.of_nat (count (chits t1))) by (rewrite C1; unfold t1; cbn [clen with_tab]; lia).
    specialize (AS L1 Rm).
    destruct (added h t1) as [t'| |]; auto.
    + destruct AS as [W' [A' [S' [K' [Ln Cp]]]]]. split; auto. split; auto. split; auto.
      split; [|split; [unfold t1 in Ln; cbn [clen with_tab] in Ln; lia | exact Cp]].
      intro x. rewrite A', A1, Ab. destruct r as [key v]; simpl. split.
      * intros [->|H]; auto. right. split; auto. intro E. simpl in Ab.
        apply (proj1 (lookup_None _ _) Ab). rewrite <- E. now apply in_map.
      * intros [->|[H _]]; auto.
    + destruct AS as [Mx Th]. auto.
  - (* found: combine in place *)
    pose proof P as P0. rewrite M, C in P0.
    apply probe_found_inv in P0 as [ri [n [H1 [H2 [N Ek]]]]].
    rewrite (nth_nth_error _ _ 0 _ H2), (nth_nth_error _ _ ([], 0) _ H1).
    assert (Hin : In ri (abs t)) by (apply In_abs; eauto).
    assert (Lk : lookup (fst r) (abs t) = Some (snd ri)).
    { apply lookup_In; auto. rewrite <- Ek. now destruct ri. }
    rewrite Lk.
    assert (Hn : 0 < n).
    { pose proof (wt_pos _ _ W) as Pz. rewrite Forall_forall in Pz.
      specialize (Pz n (nth_error_In _ _ H2)). lia. }
    assert (Hil : (i < 2 ^ k)%nat) by (rewrite <- C, <- Hh; apply nth_error_Some; congruence).
    set (t' := with_tab t (upd (cslots t) i (fst ri, comb (snd ri) (snd r))) (upd (chits t) i (n + 1))).
    assert (Ext : forall key, probe (ccap t') (cslots t') (chits t') (cmask t') key (home h (cmask t') key) 1
                            = probe (ccap t) (cslots t) (chits t) (cmask t) key (home h (cmask t) key) 1).
    { intro key. unfold t'; cbn [ccap cslots chits cmask with_tab]. rewrite M, C. apply probe_ext.
      - intro j. rewrite nth_error_upd. destruct (Nat.eqb_spec i j) as [<-|]; auto.
        rewrite H2. replace (i <? length (chits t))%nat with true by (symmetry; apply Nat.ltb_lt; lia).
        simpl. f_equal. transitivity true; [apply nzb_true; lia | symmetry; now apply nzb_true].
      - intro j. rewrite nth_error_upd. destruct (Nat.eqb_spec i j) as [<-|]; auto.
        rewrite H1. replace (i <? length (cslots t))%nat with true by (symmetry; apply Nat.ltb_lt; lia).
        reflexivity. }
    assert (Cn : count (chits t') = count (chits t)).
    { unfold t'; cbn [chits with_tab]. pose proof (count_upd _ _ _ (n + 1) H2) as Cu.
      replace (nzb n) with true in Cu by (symmetry; now apply nzb_true).
      replace (nzb (n + 1)) with true in Cu by (symmetry; apply nzb_true; lia). lia. }
    split; [|split; [reflexivity | split; [reflexivity|
      split; [|split; [unfold t'; cbn [clen with_tab]; lia | left; reflexivity]]]]].
    + constructor; [exists k | |].
      * destruct W as [C0 S0 Hh0 M0 T0 Pz F]. constructor; unfold t'; cbn [ccap cslots chits cmask cthreshold with_tab]; auto.
        -- now rewrite upd_length.
        -- now rewrite upd_length.
        -- apply Forall_forall. intros x Hx. apply In_nth_error in Hx as [j Hj].
           rewrite nth_error_upd in Hj. destruct (Nat.eqb i j).
           ++ destruct (i <? length (chits t))%nat; inversion Hj; lia.
           ++ rewrite Forall_forall in Pz. apply Pz. eapply nth_error_In; eauto.
        -- intros j rj nj G1 G2 Nj. fold t'. 
           change (probe (ccap t') (cslots t') (chits t') (cmask t') (fst rj) (home h (cmask t') (fst rj)) 1 = PFound j).
           rewrite Ext. destruct (Nat.eq_dec i j) as [<-|Ne].
           ++ rewrite nth_error_upd_eq in G1 by lia. inversion G1; subst rj. simpl. rewrite Ek. exact P.
           ++ rewrite nth_error_upd_neq in G1 by auto. rewrite nth_error_upd_neq in G2 by auto. apply (F j rj nj); auto.
      * rewrite Cn. exact L.
      * exact Rm.
    + intro x. rewrite In_abs. unfold t'; cbn [cslots chits with_tab]. split.
      * intros [j [nj [G1 [G2 Nj]]]]. destruct (Nat.eq_dec i j) as [<-|Ne].
        -- rewrite nth_error_upd_eq in G1 by lia. left. rewrite <- Ek. congruence.
        -- rewrite nth_error_upd_neq in G1 by auto. rewrite nth_error_upd_neq in G2 by auto. right. split; [apply In_abs; eauto|].
           intro E. pose proof (wt_find _ _ W _ _ _ G1 G2 Nj) as F. rewrite E, P in F. congruence.
      * intros [->|[Hx Nx]].
        -- exists i, (n + 1). rewrite !nth_error_upd_eq by lia. rewrite Ek. repeat split; auto. lia.
        -- apply In_abs in Hx as [j [nj [G1 [G2 Nj]]]].
           assert (i <> j). { intros <-. apply Nx. congruence. }
           exists j, nj. rewrite !nth_error_upd_neq by auto. auto.
  - exfalso. rewrite M, C in Hl. rewrite M, C in P. revert P. apply probe_no_panic; lia.
  - exfalso. rewrite M, C in Hl. rewrite M, C in P. revert P. apply probe_no_fuel; lia.
Qed.

End Table.

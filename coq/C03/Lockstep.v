(* C03 — the lock-step schedule with one evaluation: a fatal task failure is
   reported, maxConsecutiveLost consecutive losses are reported, fewer are
   resubmitted. *)
From Coq Require Import List ZArith Bool Lia Arith.
Import ListNotations.
Require Import BS.Gen.C03_params BS.C03.Model BS.C03.Proofs BS.C03.Safety.

Section Lock.
Variable clo : bool.
Variable eda : bool.
Variable g : list tnode.

(* ------------------------------------------------------------------ the main loop after an error *)

Lemma main_top_err k ev w acc :
  serr (est ev) = true ->
  exists s', main_top clo eda g (S k) ev w acc = (mkE (eroots ev) true s' [] [] (Some true), w, acc).
Proof.
  intro He. cbn [main_top].
  set (s1 := enqueue_all eda g (wst w) (est ev) (eroots ev)).
  assert (E1 : serr s1 = true) by (subst s1; rewrite (ext_err _ _ (enqueue_all_ext eda g (wst w) (eroots ev) (est ev))); exact He).
  unfold sdone. rewrite E1. simpl. exists s1. reflexivity.
Qed.

Lemma step_main_err ev w t rest :
  eres ev = None -> edonec ev = t :: rest -> wst w t = TErr ->
  exists s' w' runs,
    step_main clo eda g ev w = (mkE (eroots ev) true s' [] [] (Some true), w', runs) /\ wstep clo w w' runs.
Proof.
  intros Hr Hd Ht. unfold step_main. rewrite Hr, Hd. unfold ret. rewrite Ht. cbn [ret_class].
  unfold main_cont. cbn [est]. unfold sdone at 1. cbn [serr set_err orb negb andb].
  match goal with |- context [dispatch clo ?e w] => destruct (dispatch clo e w) as [[ev1 w1] runs1] eqn:Dp end.
  destruct (dispatch_spec _ _ _ _ _ _ Dp) as [Ws [_ [Es [Er _]]]]. cbn [est eroots] in Es, Er.
  assert (He : serr (est ev1) = true) by (rewrite Es; reflexivity).
  destruct (main_top_err 3 ev1 w1 runs1 He) as [s' Hs]. unfold main_fuel. rewrite Hs, Er.
  exists s', w1, runs1. split; [reflexivity | exact Ws].
Qed.

(* ------------------------------------------------------------------ the lock-step schedule, one evaluation *)

Definition S1 (w : world) (ev : evaluator) : sys := mkSys w [ev].

(* nothing to do: no waiter is ready and donec is empty *)
Definition quiet1 (w : world) (ev : evaluator) : Prop :=
  edonec ev = [] /\ (eres ev = None -> forall p, In p (ewait ev) -> ge_ok (wst w (fst p)) = false).

Lemma ready_waiters_nil w ev : quiet1 w ev -> ready_waiters ev w = [].
Proof.
  intros [_ Q]. unfold ready_waiters. destruct (eres ev); [reflexivity|].
  specialize (Q eq_refl). induction (ewait ev) as [|p l IH]; [reflexivity|]. simpl.
  rewrite (Q p (or_introl eq_refl)). apply IH. intros q Hq. apply Q. right. exact Hq.
Qed.

Lemma quiesce_quiet k w ev acc :
  quiet1 w ev -> quiesce_v clo eda g (S k) (S1 w ev) acc = (S1 w ev, acc, true).
Proof.
  intro Q. cbn [quiesce_v]. unfold sched_wait, sched_main, S1, get_ev. simpl.
  rewrite (ready_waiters_nil w ev Q). destruct Q as [Q _]. rewrite Q. reflexivity.
Qed.

Lemma find_waiter_filter t ws : find_waiter t (filter (fun p => negb (Nat.eqb t (fst p))) ws) = None.
Proof.
  induction ws as [|[u b] l IH]; [reflexivity|]. simpl. destruct (Nat.eqb t u) eqn:E; simpl; [exact IH|].
  rewrite E. exact IH.
Qed.

Lemma find_waiter_In t ws r : find_waiter t ws = Some r -> In (t, r) ws.
Proof.
  induction ws as [|[u b] l IH]; simpl; [discriminate|]. destruct (Nat.eqb t u) eqn:E.
  - intro H. inversion H; subst. apply Nat.eqb_eq in E. subst. left. reflexivity.
  - intro H. right. apply IH, H.
Qed.

(* a waiter that is not there (any more) does nothing *)
Lemma step_wait_none ev w t : find_waiter t (ewait ev) = None -> step_wait clo ev w t = (ev, w).
Proof. intro H. unfold step_wait. rewrite H. destruct (eres ev); reflexivity. Qed.

Lemma exec_wait_noop : forall n w ev t,
  find_waiter t (ewait ev) = None ->
  exists tr, exec_v clo eda g (S1 w ev) (map (LWait 0) (repeat t n)) = (S1 w ev, tr) /\ runs_of tr = [].
Proof.
  induction n as [|n IH]; intros w ev t H; simpl.
  - exists []. split; reflexivity.
  - unfold get_ev. simpl. rewrite (step_wait_none ev w t H). simpl.
    destruct (IH w ev t H) as [tr [E R]]. fold (S1 w ev). rewrite E.
    eexists. split; [reflexivity|]. unfold runs_of in *. simpl. exact R.
Qed.

Lemma ready_none w t : forall ws,
  find_waiter t ws = None ->
  (forall p, In p ws -> fst p <> t -> ge_ok (wst w (fst p)) = false) ->
  map fst (filter (fun p => ge_ok (wst w (fst p))) ws) = [].
Proof.
  induction ws as [|[u b] l IH]; intros F Hq; [reflexivity|]. simpl in *.
  destruct (Nat.eqb t u) eqn:E; [discriminate|]. apply Nat.eqb_neq in E.
  assert (X : ge_ok (wst w u) = false) by (apply (Hq (u, b) (or_introl eq_refl)); simpl; congruence).
  rewrite X. apply IH; [exact F|]. intros p Hp. apply Hq. right. exact Hp.
Qed.

Lemma ready_repeat w t : forall ws,
  (exists r, find_waiter t ws = Some r) -> ge_ok (wst w t) = true ->
  (forall p, In p ws -> fst p <> t -> ge_ok (wst w (fst p)) = false) ->
  exists n, map fst (filter (fun p => ge_ok (wst w (fst p))) ws) = repeat t (S n).
Proof.
  induction ws as [|[u b] l IH]; intros [r F] G Hq; simpl in F; [discriminate|]. simpl.
  assert (Hq' : forall p, In p l -> fst p <> t -> ge_ok (wst w (fst p)) = false)
    by (intros p Hp; apply Hq; right; exact Hp).
  destruct (Nat.eqb t u) eqn:E.
  - apply Nat.eqb_eq in E. subst u. rewrite G. simpl.
    destruct (find_waiter t l) as [r'|] eqn:F'.
    + destruct (IH (ex_intro _ r' eq_refl) G Hq') as [n Hn]. exists (S n). rewrite Hn. reflexivity.
    + exists 0. rewrite (ready_none w t l F' Hq'). reflexivity.
  - apply Nat.eqb_neq in E.
    assert (X : ge_ok (wst w u) = false) by (apply (Hq (u, b) (or_introl eq_refl)); simpl; congruence).
    rewrite X. apply IH; [exists r; exact F | exact G | exact Hq'].
Qed.

Lemma sched_wait_S1 w ev : sched_wait (S1 w ev) = map (LWait 0) (ready_waiters ev w).
Proof. unfold sched_wait, S1, get_ev. simpl. apply app_nil_r. Qed.

Lemma sched_main_S1 w ev : sched_main (S1 w ev) = repeat (LMain 0) (length (edonec ev)).
Proof. unfold sched_main, S1, get_ev. simpl. apply app_nil_r. Qed.

Lemma step_wait_S1 w ev t :
  step_v clo eda g (S1 w ev) (LWait 0 t) = (S1 (snd (step_wait clo ev w t)) (fst (step_wait clo ev w t)), []).
Proof. unfold S1. simpl. unfold get_ev. simpl. destruct (step_wait clo ev w t). reflexivity. Qed.

Lemma step_main_S1 w ev :
  step_v clo eda g (S1 w ev) (LMain 0) =
  (S1 (snd (fst (step_main clo eda g ev w))) (fst (fst (step_main clo eda g ev w))),
   map (pair 0) (snd (step_main clo eda g ev w))).
Proof. unfold S1. simpl. unfold get_ev. simpl. destruct (step_main clo eda g ev w) as [[a b] c]. reflexivity. Qed.

Lemma exec_waits w ev t r n :
  eres ev = None -> find_waiter t (ewait ev) = Some r -> ge_ok (wst w t) = true ->
  let ev2 := mkE (eroots ev) (estarted ev) (est ev)
                 (filter (fun p => negb (Nat.eqb t (fst p))) (ewait ev)) (edonec ev ++ [t]) None in
  let w2 := if r then bookkeep clo w t else w in
  exists tr, exec_v clo eda g (S1 w ev) (map (LWait 0) (repeat t (S n))) = (S1 w2 ev2, tr) /\ runs_of tr = [].
Proof.
  intros Hr F G ev2 w2. cbn [repeat map exec_v]. rewrite step_wait_S1.
  assert (X : step_wait clo ev w t = (ev2, w2)).
  { unfold step_wait. rewrite Hr, F, G. reflexivity. }
  rewrite X. cbn [fst snd].
  destruct (exec_wait_noop n w2 ev2 t (find_waiter_filter t (ewait ev))) as [tr [E R]]. rewrite E.
  eexists. split; [reflexivity|]. unfold runs_of in *. simpl. exact R.
Qed.

(* one round of the schedule when exactly the waiter(s) of task t are ready *)
Lemma quiesce_round k w ev t r acc :
  eres ev = None -> edonec ev = [] -> find_waiter t (ewait ev) = Some r ->
  ge_ok (wst w t) = true ->
  (forall p, In p (ewait ev) -> fst p <> t -> ge_ok (wst w (fst p)) = false) ->
  let ev2 := mkE (eroots ev) (estarted ev) (est ev)
                 (filter (fun p => negb (Nat.eqb t (fst p))) (ewait ev)) [t] None in
  let w2 := if r then bookkeep clo w t else w in
  quiesce_v clo eda g (S k) (S1 w ev) acc =
  quiesce_v clo eda g k (S1 (snd (fst (step_main clo eda g ev2 w2))) (fst (fst (step_main clo eda g ev2 w2))))
          (acc ++ map (pair 0) (snd (step_main clo eda g ev2 w2))).
Proof.
  intros Hr Hd F G Hq ev2 w2.
  assert (RW : exists n, ready_waiters ev w = repeat t (S n)).
  { unfold ready_waiters. rewrite Hr. apply ready_repeat; [eexists; exact F | exact G | exact Hq]. }
  destruct RW as [n RW].
  cbn [quiesce_v]. rewrite sched_wait_S1, RW.
  destruct (exec_waits w ev t r n Hr F G) as [tr [E R]]. rewrite Hd in E. cbn [app] in E. fold ev2 w2 in E.
  cbn [repeat map] in *. rewrite E. rewrite sched_main_S1. cbn [edonec ev2 length repeat].
  cbn [exec_v]. rewrite step_main_S1. rewrite R. unfold runs_of. cbn [flat_map snd app].
  rewrite app_nil_r. reflexivity.
Qed.

(* ------------------------------------------------------------------ fatal_reported, lost_limit *)

Lemma bookkeep_other w t : wst w t <> TOk -> wst w t <> TLost -> bookkeep clo w t = w.
Proof. intros A B. unfold bookkeep. destruct (wst w t); try reflexivity; congruence. Qed.

Definition set_state (w : world) (t : nat) (s : tstate) : world := mkW (upd (wst w) t s) (wcl w) (wlu w).

Lemma lock_step_set w ev t s :
  lock_step_v clo eda g (S1 w ev) (LSet t s) = quiesce_v clo eda g (quiesce_fuel g) (S1 (set_state w t s) ev) [].
Proof. reflexivity. Qed.

Lemma quiesce_fuel_SS : exists k, quiesce_fuel g = S (S k).
Proof. exists (2 * length g + 2). unfold quiesce_fuel. lia. Qed.

(* the waiters other than t's are as little ready after the event as before *)
Lemma others_quiet w ev t s :
  quiet1 w ev -> eres ev = None ->
  forall p, In p (ewait ev) -> fst p <> t -> ge_ok (wst (set_state w t s) (fst p)) = false.
Proof.
  intros [_ Q] Hr p Hp Hne. simpl. rewrite upd_other by exact Hne. apply (Q Hr p Hp).
Qed.

(* Eval is watching task t (it handed it out, or found it WAITING/RUNNING); the
   task fails fatally: after the lock-step Eval has returned an error. *)
Theorem fatal_reported w ev t r :
  eres ev = None -> quiet1 w ev -> find_waiter t (ewait ev) = Some r ->
  exists sy' runs,
    lock_step_v clo eda g (S1 w ev) (LSet t TErr) = (sy', runs, true) /\
    eres (get_ev sy' 0) = Some true.
Proof.
  intros Hr Q F. rewrite lock_step_set. destruct quiesce_fuel_SS as [k ->].
  assert (G : ge_ok (wst (set_state w t TErr) t) = true) by (simpl; rewrite upd_same; reflexivity).
  pose proof (quiesce_round (S k) (set_state w t TErr) ev t r [] Hr (proj1 Q) F G (others_quiet w ev t TErr Q Hr)) as QR.
  cbv zeta in QR.
  set (ev2 := mkE (eroots ev) (estarted ev) (est ev)
                  (filter (fun p => negb (Nat.eqb t (fst p))) (ewait ev)) [t] None) in *.
  set (w2 := if r then bookkeep clo (set_state w t TErr) t else set_state w t TErr) in *.
  assert (W2 : wst w2 t = TErr).
  { subst w2. destruct r; [rewrite bookkeep_other|]; simpl; rewrite upd_same; try reflexivity; discriminate. }
  destruct (step_main_err ev2 w2 t [] eq_refl eq_refl W2) as [s' [w' [runs [M _]]]].
  rewrite M in QR. cbn [fst snd] in QR. rewrite QR. rewrite quiesce_quiet.
  - eexists. eexists. split; [reflexivity|]. reflexivity.
  - split; [reflexivity | discriminate].
Qed.

(* Eval is the runner of task t, which has been lost c times in a row; one more
   loss reaches maxConsecutiveLost: the task is put in ERR and Eval returns an error. *)
Theorem lost_limit w ev t :
  eres ev = None -> quiet1 w ev -> find_waiter t (ewait ev) = Some true ->
  (clo = true -> wlu w t = true) ->
  (wcl w t + 1 >= max_consecutive_lost)%Z ->
  exists sy' runs,
    lock_step_v clo eda g (S1 w ev) (LSet t TLost) = (sy', runs, true) /\
    eres (get_ev sy' 0) = Some true /\ wst (sw sy') t = TErr.
Proof.
  intros Hr Q F Hlu Hc. rewrite lock_step_set. destruct quiesce_fuel_SS as [k ->].
  assert (G : ge_ok (wst (set_state w t TLost) t) = true) by (simpl; rewrite upd_same; reflexivity).
  pose proof (quiesce_round (S k) (set_state w t TLost) ev t true [] Hr (proj1 Q) F G (others_quiet w ev t TLost Q Hr)) as QR.
  cbv zeta in QR.
  set (ev2 := mkE (eroots ev) (estarted ev) (est ev)
                  (filter (fun p => negb (Nat.eqb t (fst p))) (ewait ev)) [t] None) in *.
  set (w2 := bookkeep clo (set_state w t TLost) t) in *.
  assert (W2 : wst w2 t = TErr).
  { subst w2. unfold bookkeep. simpl. rewrite upd_same.
    assert (X : (wcl w t + 1 >=? max_consecutive_lost)%Z = true) by (apply Z.geb_le; lia).
    destruct clo.
    - unfold count_lost. simpl. rewrite (Hlu eq_refl), X. simpl. apply upd_same.
    - rewrite X. simpl. apply upd_same. }
  destruct (step_main_err ev2 w2 t [] eq_refl eq_refl W2) as [s' [w' [runs [M Ws]]]].
  rewrite M in QR. cbn [fst snd] in QR. rewrite QR. rewrite quiesce_quiet; [|split; [reflexivity | discriminate]].
  eexists. eexists. split; [reflexivity|]. split; [reflexivity|]. simpl.
  (* the main loop never changes a task that is in ERR *)
  destruct (in_dec Nat.eq_dec t runs) as [I|I].
  - destruct (wstep_run _ _ _ _ _ Ws I) as [[X|X] _]; congruence.
  - destruct (wstep_other _ _ _ _ _ Ws I) as [X|[_ [X _]]]; [rewrite X; exact W2 | congruence].
Qed.


(* ------------------------------------------------------------------ a ready task is scheduled *)

Section Sched.
Variable w : nat -> tstate.

Lemma enq_deps_ready rec u :
  (forall s d, ext s (fst (rec s d))) -> rec_spec eda g w rec ->
  forall ds s s' ready',
    enq_deps rec u ds s true = (s', ready') -> inv eda g w s -> soof s' = false ->
    (forall d, In d ds -> all_done_l eda w (phase g d)) -> ready' = true.
Proof.
  intros Hext Hrec. induction ds as [|d r IH]; intros s s' ready' E I O Hd; simpl in E.
  - inversion E; reflexivity.
  - destruct (rec s d) as [s1 k] eqn:R.
    assert (X1 : ext s s1) by (specialize (Hext s d); rewrite R in Hext; exact Hext).
    destruct k.
    + pose proof (enq_deps_ext rec u Hext r s1 true) as X2. rewrite E in X2. simpl in X2.
      destruct (Hrec s d s1 0 R I (ext_oof_false _ _ X2 O)) as [I1 _].
      apply (IH s1 s' ready' E I1 O). intros d' Hd'. apply Hd. right. exact Hd'.
    + exfalso. pose proof (enq_deps_ext rec u Hext r (add s1 d u (S k)) false) as X2. rewrite E in X2. simpl in X2.
      assert (O1 : soof s1 = false).
      { eapply ext_oof_false; [apply add_ext|]. eapply ext_oof_false; [exact X2 | exact O]. }
      destruct (Hrec s d s1 (S k) R I O1) as [_ [K _]].
      assert (Z : S k = 0) by (apply K, Hd; left; reflexivity). discriminate.
Qed.

Lemma enq_phase_sched rec :
  (forall s d, ext s (fst (rec s d))) -> rec_spec eda g w rec ->
  forall us s n s' n',
    enq_phase eda g w rec us s n = (s', n') -> inv eda g w s -> soof s' = false ->
    forall u, In u us -> enq_class eda (w u) = CTrav -> deps_done eda g w u ->
    ~ In u (spending s) -> In u (stodo s').
Proof.
  intros Hext Hrec. induction us as [|v r IH]; intros s n s' n' E I O u Hu Hc Hd Hp; [destruct Hu|].
  simpl in E.
  assert (Step : forall s2 m, enq_phase eda g w rec r s2 m = (s', n') -> inv eda g w s2 ->
                 spending s2 = spending s -> (v = u -> In u (stodo s2)) -> In u (stodo s')).
  { intros s2 m E2 I2 P2 Hv. destruct Hu as [Hu|Hu].
    - pose proof (enq_phase_ext eda g w rec Hext r s2 m) as X. rewrite E2 in X. apply (ext_todo _ _ X), Hv, Hu.
    - apply (IH s2 m s' n' E2 I2 O u Hu Hc Hd). rewrite P2. exact Hp. }
  destruct (enq_class eda (w v)) eqn:C.
  - apply (Step s n E I eq_refl). intros ->. congruence.
  - apply (Step (schedule s v) (S n) E).
    + apply inv_schedule; [exact I | intro; congruence].
    + apply schedule_fields.
    + intros ->. congruence.
  - destruct (enq_deps rec v (tdeps (node g v)) (clear g s v) true) as [s1 ready] eqn:D.
    pose proof (enq_deps_ext rec v Hext (tdeps (node g v)) (clear g s v) true) as X1.
    rewrite D in X1. simpl in X1.
    set (s2 := if ready then schedule s1 v else s1) in *.
    assert (X2 : ext s1 s2) by (subst s2; destruct ready; [apply schedule_ext | apply ext_refl]).
    pose proof (enq_phase_ext eda g w rec Hext r s2 (S n)) as X3. rewrite E in X3. simpl in X3.
    assert (O1 : soof s1 = false).
    { eapply ext_oof_false; [exact X2|]. eapply ext_oof_false; [exact X3 | exact O]. }
    destruct (enq_deps_spec eda g w rec v Hext Hrec _ _ _ _ _ D (inv_clear eda g w _ _ I) O1) as [I1 [A1 B1]].
    assert (I2 : inv eda g w s2).
    { subst s2. destruct ready; [|exact I1]. apply inv_schedule; [exact I1|].
      intros _ d Hd'. apply (proj2 (A1 eq_refl)). exact Hd'. }
    assert (P1 : spending s1 = spending s) by (rewrite (ext_pending _ _ X1); reflexivity).
    apply (Step s2 (S n) E I2).
    + rewrite (ext_pending _ _ X2). exact P1.
    + intros ->. subst s2.
      rewrite (enq_deps_ready rec u Hext Hrec _ _ _ _ D (inv_clear eda g w _ _ I) O1 Hd).
      apply schedule_todo. right. split; [reflexivity|]. rewrite P1. exact Hp.
Qed.

Lemma enqueue_sched (Hc : closed g) s t s' n :
  enqueue eda g w (fuel_of g) s t = (s', n) -> inv eda g w s -> soof s' = false ->
  swait s (head g t) = None ->
  forall u, In u (phase g t) -> enq_class eda (w u) = CTrav -> deps_done eda g w u ->
  ~ In u (spending s) -> In u (stodo s').
Proof.
  unfold fuel_of. simpl. intros E I O W u Hu Hcl Hd Hp. rewrite W in E.
  destruct (enq_phase eda g w (enqueue eda g w (length g)) (phase g t) s 0) as [s1 m] eqn:P.
  inversion E; subst. simpl in O. simpl.
  apply (enq_phase_sched _ (enqueue_ext eda g w (length g)) (enqueue_spec eda g w Hc (length g)) _ _ _ _ _ P I O u Hu Hcl Hd Hp).
Qed.

End Sched.

(* ------------------------------------------------------------------ dispatch emits what is LOST or INIT *)

Lemma tchg_false a b : tchg clo a b false ->
  a = b \/ (clo = true /\ exists c, a = (TLost, c, true) /\ (c + 1 >= max_consecutive_lost)%Z /\
                                     b = (TErr, (c + 1)%Z, false)).
Proof.
  intro H. inversion H as [v| | | | |c Hc Hge]; [left; congruence|]. right. split; [exact Hc|]. exists c. repeat split. exact Hge.
Qed.

(* a task that dispatch would resubmit: INIT, or LOST and not at its last chance *)
Definition resub_ok (w : world) (t : nat) : Prop :=
  wst w t = TInit \/
  (wst w t = TLost /\ (clo = true -> wlu w t = true -> (wcl w t + 1 < max_consecutive_lost)%Z)).

Lemma dispatch_one_runs t w ws runs u w' ws' runs' :
  dispatch_one clo (w, ws, runs) u = (w', ws', runs') ->
  (In t runs -> In t runs') /\
  (u = t -> resub_ok w t -> In t runs') /\
  (u <> t -> resub_ok w t -> resub_ok w' t).
Proof.
  intro E. destruct (dispatch_one_single _ _ _ _ _ _ _ _ E) as [b [_ [Er Ws]]].
  split; [intro H; rewrite Er; apply in_or_app; left; exact H|]. split.
  - intros -> Hok. unfold dispatch_one in E.
    set (w0 := if clo && st_eqb (wst w t) TLost then fst (count_lost w t) else w) in *.
    assert (S0 : wst w0 t = TInit \/ wst w0 t = TLost).
    { subst w0. destruct Hok as [Hi|[Hl Hc]].
      - rewrite Hi. simpl. rewrite andb_false_r. left. exact Hi.
      - right. destruct clo; [|exact Hl]. rewrite Hl. simpl.
        destruct (count_lost_tv w t) as [_ [C2 [_ C4]]].
        destruct (wlu w t) eqn:L; [|rewrite (C2 eq_refl); exact Hl].
        specialize (C4 eq_refl (Hc eq_refl eq_refl)). unfold tv in C4. injection C4 as X _ _. rewrite X. exact Hl. }
    assert (R : st_eqb (if st_eqb (wst w0 t) TLost then TInit else wst w0 t) TInit = true)
      by (destruct S0 as [X|X]; rewrite X; reflexivity).
    rewrite R in E. inversion E; subst. apply in_or_app. right. left. reflexivity.
  - intros Ne Hok. destruct Ws as [_ A]. specialize (A t).
    assert (M : mem t (if b then [u] else []) = false).
    { destruct b; [|reflexivity]. unfold mem. simpl. rewrite orb_false_r. apply Nat.eqb_neq. congruence. }
    rewrite M in A. unfold resub_ok in *.
    destruct (tchg_false _ _ A) as [Eq|[Cl [c [Ea [Ge Eb]]]]]; unfold tv in *.
    + injection Eq as E1 E2 E3. rewrite <- E1, <- E2, <- E3. exact Hok.
    + exfalso. injection Ea as E1 E2 E3. destruct Hok as [X|[_ X]]; [congruence|].
      specialize (X Cl E3). lia.
Qed.

Lemma dispatch_fold_runs t : forall ts w ws runs w' ws' runs',
  fold_left (dispatch_one clo) ts (w, ws, runs) = (w', ws', runs') ->
  (In t runs -> In t runs') /\
  (In t ts -> resub_ok w t -> In t runs').
Proof.
  induction ts as [|u r IH]; intros w ws runs w' ws' runs' E; cbn [fold_left] in E.
  - inversion E; subst. split; [auto | intros []].
  - destruct (dispatch_one clo (w, ws, runs) u) as [[w1 ws1] runs1] eqn:D.
    destruct (IH _ _ _ _ _ _ E) as [K1 K2].
    destruct (dispatch_one_runs t _ _ _ _ _ _ _ D) as [D1 [D2 D3]].
    split; [intro H; apply K1, D1, H|].
    intros Hin Hok. destruct (Nat.eq_dec u t) as [Eq|Ne].
    + apply K1, D2; assumption.
    + destruct Hin as [Hin|Hin]; [contradiction|]. apply (K2 Hin), D3; assumption.
Qed.

Lemma main_top_acc : forall k ev w acc, incl acc (snd (main_top clo eda g k ev w acc)).
Proof.
  induction k as [|k IH]; intros ev w acc; simpl; [apply incl_refl|].
  destruct (sdone _); [apply incl_refl|]. destruct (is_nil _); [apply incl_refl|].
  destruct (dispatch clo _ w) as [[ev1 w1] runs]. eapply incl_tran; [|apply IH]. apply incl_appl, incl_refl.
Qed.

Lemma quiesce_acc : forall k sy acc, incl acc (snd (fst (quiesce_v clo eda g k sy acc))).
Proof.
  induction k as [|k IH]; intros sy acc; cbn [quiesce_v]; [apply incl_refl|].
  destruct (sched_wait sy) as [|l lw] eqn:W; [destruct (sched_main sy) as [|m lm] eqn:M; [apply incl_refl|]|];
    repeat (match goal with |- context [exec_v ?a ?b ?c ?d ?e] => destruct (exec_v a b c d e) as [? ?] end);
    (eapply incl_tran; [|apply IH]); apply incl_appl, incl_refl.
Qed.

(* Eval is the runner of task t, all of whose dependencies are still done; the
   task is lost, fewer than maxConsecutiveLost times in a row: the loss is
   counted and the task is handed to the executor again in the same lock-step. *)
Theorem lost_resubmitted (Hwf : wf g) w ev t :
  eres ev = None -> soof (est ev) = false -> stodo (est ev) = [] ->
  quiet1 w ev -> find_waiter t (ewait ev) = Some true ->
  (wcl w t + 1 < max_consecutive_lost)%Z ->
  deps_done eda g (wst w) t ->
  In (0, t) (snd (fst (lock_step_v clo eda g (S1 w ev) (LSet t TLost)))).
Proof.
  intros Hr O Et Q F Hc Hd. rewrite lock_step_set. destruct quiesce_fuel_SS as [k ->].
  assert (G : ge_ok (wst (set_state w t TLost) t) = true) by (simpl; rewrite upd_same; reflexivity).
  rewrite (quiesce_round (S k) (set_state w t TLost) ev t true [] Hr (proj1 Q) F G (others_quiet w ev t TLost Q Hr)).
  set (ev2 := mkE (eroots ev) (estarted ev) (est ev)
                  (filter (fun p => negb (Nat.eqb t (fst p))) (ewait ev)) [t] None).
  set (w2 := bookkeep clo (set_state w t TLost) t).
  apply quiesce_acc. simpl. apply in_map.
  (* the world after the waiter's bookkeeping: t still LOST, everything else as before *)
  assert (W2 : wst w2 = upd (wst w) t TLost).
  { subst w2. unfold bookkeep. simpl. rewrite upd_same.
    assert (X : (wcl w t + 1 >=? max_consecutive_lost)%Z = false) by (rewrite Z.geb_leb; apply Z.leb_gt; lia).
    destruct clo.
    - unfold count_lost. simpl. destruct (wlu w t); [rewrite X|]; reflexivity.
    - rewrite X. reflexivity. }
  assert (W2t : wst w2 t = TLost) by (rewrite W2; apply upd_same).
  assert (Hd2 : deps_done eda g (wst w2) t).
  { intros d Hdd v Hv. rewrite W2. destruct (Nat.eq_dec v t) as [->|Ne].
    - (* t in a dependency phase of itself: impossible on a well-formed graph *)
      exfalso. destruct Hwf as [_ [_ [_ [rk [_ Hrk]]]]]. specialize (Hrk t d t Hdd Hv). lia.
    - rewrite upd_other by exact Ne. apply (Hd d Hdd v Hv). }
  pose proof (wf_closed g Hwf) as Hcl. destruct Hwf as [H1 [H2 [H3 [rk [Hb Hrk]]]]].
  subst ev2. unfold step_main. cbn [eres edonec eroots estarted est ewait].
  unfold ret. rewrite W2t. cbn [ret_class].
  set (s0 := mkS (sdeps (est ev)) (scounts (est ev)) (stodo (est ev)) (set_rm t (spending (est ev)))
                 (fun _ => None) (serr (est ev)) (soof (est ev))).
  assert (I0 : inv eda g (wst w2) s0) by (apply inv_empty; [exact Et | reflexivity]).
  pose proof (enqueue_top_no_oof eda g (wst w2) rk Hrk Hb s0 t O) as O1.
  destruct (enqueue eda g (wst w2) (fuel_of g) s0 t) as [s1 n] eqn:E. cbn [fst] in *.
  assert (T1 : In t (stodo s1)).
  { apply (enqueue_sched (wst w2) Hcl s0 t s1 n E I0 O1 eq_refl t (H1 t)); [rewrite W2t; reflexivity | exact Hd2|].
    simpl. intro X. apply set_rm_In in X. destruct X as [_ X]. apply X. reflexivity. }
  unfold main_cont. cbn [est].
  assert (B : negb (sdone s1) && is_nil (stodo s1) = false).
  { destruct (stodo s1); [destruct T1|]. apply andb_false_r. }
  rewrite B.
  match goal with |- context [dispatch clo ?e w2] => destruct (dispatch clo e w2) as [[ev1 w1] runs1] eqn:Dp end.
  apply main_top_acc.
  unfold dispatch in Dp. cbn [est runnable ewait] in Dp.
  destruct (fold_left (dispatch_one clo) (stodo s1) (w2, filter (fun p => negb (Nat.eqb t (fst p))) (ewait ev), [])) as [[wx wsx] rx] eqn:Fd.
  inversion Dp; subst.
  apply (proj2 (dispatch_fold_runs t _ _ _ _ _ _ _ Fd) T1). right. split; [exact W2t|].
  intros Cl Lu. exfalso. clear -Cl Lu Hc. subst w2. unfold bookkeep in Lu. simpl in Lu. rewrite upd_same in Lu.
  rewrite Cl in Lu. unfold count_lost in Lu. simpl in Lu.
  assert (X : (wcl w t + 1 >=? max_consecutive_lost)%Z = false) by (rewrite Z.geb_leb; apply Z.leb_gt; lia).
  destruct (wlu w t) eqn:L; [rewrite X in Lu; simpl in Lu; rewrite upd_same in Lu | simpl in Lu; rewrite L in Lu]; discriminate.
Qed.

End Lock.

(* C03 — safety of the evaluator over all interleavings: invariants of the
   atomic steps, then the theorems over traces of [exec]. *)
From Coq Require Import List ZArith Bool Lia Arith.
Import ListNotations.
Require Import BS.Gen.C03_params BS.C03.Model BS.C03.Proofs.

(* ------------------------------------------------------------------ well-formed graphs *)

Definition wf (g : list tnode) : Prop :=
  (forall t, In t (phase g t)) /\
  (forall t, In (head g t) (phase g t)) /\
  (forall t u, In u (phase g t) -> phase g u = phase g t) /\
  exists rk : nat -> nat,
    (forall t, rk t <= length g) /\
    (forall t d u, In d (tdeps (node g t)) -> In u (phase g d) -> rk u < rk t).

Lemma wf_closed g : wf g -> closed g.
Proof. intros [_ [H2 [H3 _]]] t. apply H3, H2. Qed.

Lemma phase_nonempty g t : phase g t <> [].
Proof. unfold phase. destruct (tgroup (node g t)); discriminate. Qed.

(* ------------------------------------------------------------------ Enqueue never runs out of fuel on acyclic graphs *)

Section NoOof.
Variable eda : bool.
Variable g : list tnode.
Variable w : nat -> tstate.
Variable rk : nat -> nat.
Hypothesis Hrk : forall t d u, In d (tdeps (node g t)) -> In u (phase g d) -> rk u < rk t.

Definition rec_ok (rec : state -> nat -> state * nat) (f : nat) : Prop :=
  forall s d, (forall v, In v (phase g d) -> rk v < f) -> soof s = false -> soof (fst (rec s d)) = false.

Lemma enq_deps_no_oof rec u f : rec_ok rec f ->
  forall ds, (forall d v, In d ds -> In v (phase g d) -> rk v < f) ->
  forall s ready, soof s = false -> soof (fst (enq_deps rec u ds s ready)) = false.
Proof.
  intros Hrec. induction ds as [|d r IH]; intros Hd s ready O; simpl; [exact O|].
  pose proof (Hrec s d (fun v Hv => Hd d v (or_introl eq_refl) Hv) O) as O1.
  destruct (rec s d) as [s1 k]. simpl in O1.
  assert (Hd' : forall d0 v, In d0 r -> In v (phase g d0) -> rk v < f) by (intros; eapply Hd; [right|]; eassumption).
  destruct k; [apply IH; assumption|].
  apply IH; [assumption|]. destruct (add_fields s1 d u (S k)) as [_ [_ [_ [_ E]]]]. congruence.
Qed.

Lemma enq_phase_no_oof rec f : rec_ok rec f ->
  forall us, (forall u, In u us -> rk u <= f) ->
  forall s n, soof s = false -> soof (fst (enq_phase eda g w rec us s n)) = false.
Proof.
  intros Hrec. induction us as [|u r IH]; intros Hu s n O; simpl; [exact O|].
  assert (Hu' : forall x, In x r -> rk x <= f) by (intros; apply Hu; right; assumption).
  destruct (enq_class eda (w u)).
  - apply IH; assumption.
  - apply IH; [assumption|]. destruct (schedule_fields s u) as [_ [_ [_ [_ [_ E]]]]]. congruence.
  - pose proof (enq_deps_no_oof rec u f Hrec (tdeps (node g u))) as D.
    specialize (D (fun d v Hd Hv => Nat.lt_le_trans _ _ _ (Hrk u d v Hd Hv) (Hu u (or_introl eq_refl)))).
    specialize (D (clear g s u) true O).
    destruct (enq_deps rec u (tdeps (node g u)) (clear g s u) true) as [s1 ready]. simpl in D.
    apply IH; [assumption|]. destruct ready; [|exact D].
    destruct (schedule_fields s1 u) as [_ [_ [_ [_ [_ E]]]]]. congruence.
Qed.

Lemma enqueue_no_oof : forall fuel, rec_ok (enqueue eda g w fuel) fuel.
Proof.
  induction fuel as [|f IH]; intros s d Hd O; simpl.
  - destruct (swait s (head g d)); simpl; [exact O|].
    exfalso. destruct (phase g d) as [|v r] eqn:P; [exact (phase_nonempty g d P)|].
    specialize (Hd v (or_introl eq_refl)). lia.
  - destruct (swait s (head g d)); simpl; [exact O|].
    pose proof (enq_phase_no_oof _ f IH (phase g d)) as P.
    specialize (P (fun u Hu => proj1 (Nat.lt_succ_r _ _) (Hd u Hu)) s 0 O).
    destruct (enq_phase eda g w (enqueue eda g w f) (phase g d) s 0) as [s1 n]. simpl in *. exact P.
Qed.

Hypothesis Hbound : forall t, rk t <= length g.

Lemma enqueue_top_no_oof s t : soof s = false -> soof (fst (enqueue eda g w (fuel_of g) s t)) = false.
Proof.
  intro O. apply enqueue_no_oof; [|exact O]. intros v _. unfold fuel_of. specialize (Hbound v). lia.
Qed.

Lemma enqueue_all_no_oof : forall ts s, soof s = false -> soof (enqueue_all eda g w s ts) = false.
Proof.
  unfold enqueue_all. induction ts as [|t r IH]; intros s O; cbn [fold_left]; [exact O|].
  apply IH, enqueue_top_no_oof, O.
Qed.

End NoOof.

(* ------------------------------------------------------------------ how one step changes the world *)

(* What Eval's dispatch loop does to one task, exactly: the task's state,
   consecutiveLost and lossUncounted before and after, and whether it was handed
   to the executor.  [clo] selects the loss accounting (see Model). *)
Definition tv (w : world) (t : nat) : tstate * Z * bool := (wst w t, wcl w t, wlu w t).

Inductive tchg (clo : bool) : tstate * Z * bool -> tstate * Z * bool -> bool -> Prop :=
| tc_id v : tchg clo v v false
| tc_start c l : tchg clo (TInit, c, l) (TWaiting, c, if clo then true else l) true
| tc_resub_old c l : clo = false -> tchg clo (TLost, c, l) (TWaiting, c, l) true
| tc_resub c : clo = true -> tchg clo (TLost, c, false) (TWaiting, c, true) true
| tc_count_resub c : clo = true -> (c + 1 < max_consecutive_lost)%Z ->
    tchg clo (TLost, c, true) (TWaiting, (c + 1)%Z, true) true
| tc_count_err c : clo = true -> (c + 1 >= max_consecutive_lost)%Z ->
    tchg clo (TLost, c, true) (TErr, (c + 1)%Z, false) false.

Definition wstep (clo : bool) (w w' : world) (runs : list nat) : Prop :=
  NoDup runs /\ forall t, tchg clo (tv w t) (tv w' t) (mem t runs).

Lemma nodup_app (a b : list nat) :
  NoDup a -> NoDup b -> (forall t, In t a -> In t b -> False) -> NoDup (a ++ b).
Proof.
  induction a as [|x a IH]; intros Ha Hb D; simpl; [exact Hb|].
  inversion Ha; subst. constructor.
  - intro H. apply in_app_or in H. destruct H as [H|H]; [contradiction|]. apply (D x); [left; reflexivity | exact H].
  - apply IH; auto. intros t Ht1 Ht2. apply (D t); [right; exact Ht1 | exact Ht2].
Qed.

Lemma mem_app t a b : mem t (a ++ b) = mem t a || mem t b.
Proof. unfold mem. apply existsb_app. Qed.

Lemma wstep_refl clo w : wstep clo w w [].
Proof. split; [constructor | intro t; apply tc_id]. Qed.

Lemma tchg_trans clo a b c e1 e2 :
  tchg clo a b e1 -> tchg clo b c e2 -> tchg clo a c (e1 || e2) /\ e1 && e2 = false.
Proof.
  intros H1 H2. inversion H1; subst; simpl.
  - split; [exact H2 | reflexivity].
  - inversion H2; subst. split; [exact H1 | reflexivity].
  - inversion H2; subst. split; [exact H1 | reflexivity].
  - inversion H2; subst. split; [exact H1 | reflexivity].
  - inversion H2; subst. split; [exact H1 | reflexivity].
  - inversion H2; subst. split; [exact H1 | reflexivity].
Qed.

Lemma wstep_trans clo w w1 w2 r1 r2 :
  wstep clo w w1 r1 -> wstep clo w1 w2 r2 -> wstep clo w w2 (r1 ++ r2).
Proof.
  intros [N1 A1] [N2 A2]. split.
  - apply nodup_app; auto. intros t H1 H2.
    destruct (tchg_trans _ _ _ _ _ _ (A1 t) (A2 t)) as [_ E].
    apply mem_In in H1, H2. rewrite H1, H2 in E. discriminate.
  - intro t. rewrite mem_app. apply (tchg_trans _ _ _ _ _ _ (A1 t) (A2 t)).
Qed.

(* the coarse reading used by the safety proofs *)
Lemma wstep_nodup clo w w' runs : wstep clo w w' runs -> NoDup runs.
Proof. intros [N _]. exact N. Qed.

Lemma wstep_run clo w w' runs t : wstep clo w w' runs -> In t runs ->
  (wst w t = TInit \/ wst w t = TLost) /\ wst w' t = TWaiting.
Proof.
  intros [_ A] H. specialize (A t). apply mem_In in H. rewrite H in A. unfold tv in A.
  inversion A; subst; auto.
Qed.

Lemma wstep_other clo w w' runs t : wstep clo w w' runs -> ~ In t runs ->
  wst w' t = wst w t \/ (clo = true /\ wst w t = TLost /\ wst w' t = TErr).
Proof.
  intros [_ A] H. specialize (A t). apply mem_false in H. rewrite H in A. unfold tv in A.
  inversion A; subst; auto.
Qed.

Lemma wstep_done clo eda w w' runs : (clo = true -> eda = false) -> wstep clo w w' runs ->
  forall u, enq_class eda (wst w u) = CDone <-> enq_class eda (wst w' u) = CDone.
Proof.
  intros Hv W u. destruct (in_dec Nat.eq_dec u runs) as [H|H].
  - destruct (wstep_run _ _ _ _ _ W H) as [[E|E] E']; rewrite E, E'; simpl; split; discriminate.
  - destruct (wstep_other _ _ _ _ _ W H) as [E|[C [E E']]]; [rewrite E; reflexivity|].
    rewrite E, E', (Hv C). simpl. split; discriminate.
Qed.

Lemma wstep_not_init clo w w' runs t : wstep clo w w' runs -> wst w t <> TInit -> wst w' t <> TInit.
Proof.
  intros W H. destruct (in_dec Nat.eq_dec t runs) as [I|I].
  - destruct (wstep_run _ _ _ _ _ W I) as [_ E]. rewrite E. discriminate.
  - destruct (wstep_other _ _ _ _ _ W I) as [E|[_ [_ E]]]; rewrite E; [exact H | discriminate].
Qed.

(* a handed-out task stays handed out, and is not handed out again *)
Lemma wstep_keep clo w w' runs t : wstep clo w w' runs ->
  (wst w t = TWaiting \/ wst w t = TRunning) -> wst w' t = wst w t /\ ~ In t runs.
Proof.
  intros W H.
  assert (N : ~ In t runs).
  { intro I. destruct (wstep_run _ _ _ _ _ W I) as [[X|X] _]; destruct H as [Y|Y]; congruence. }
  split; [|exact N].
  destruct (wstep_other _ _ _ _ _ W N) as [E|[_ [E _]]]; [exact E|]. destruct H as [Y|Y]; congruence.
Qed.

(* ------------------------------------------------------------------ Return, Runnable, dispatch *)

Lemma done_fold_fields : forall l s ready,
  let r := fold_left done_one l (s, ready) in
  sdeps (fst r) = sdeps s /\ stodo (fst r) = stodo s /\ spending (fst r) = spending s /\
  swait (fst r) = swait s /\ serr (fst r) = serr s /\ soof (fst r) = soof s.
Proof.
  induction l as [|x l IH]; intros s ready; simpl; [repeat split|].
  specialize (IH (mkS (sdeps s) (upd (scounts s) x (scounts s x - 1)%Z) (stodo s) (spending s) (swait s) (serr s) (soof s))
                 (if ((scounts s x - 1) =? 0)%Z then ready ++ [x] else ready)).
  simpl in IH. exact IH.
Qed.

Lemma inv_fields eda g w s s' :
  stodo s' = stodo s -> swait s' = swait s -> spending s' = spending s -> inv eda g w s -> inv eda g w s'.
Proof.
  intros Et Ew Ep [M T]. split.
  - apply (memo_ok_same_wait eda g w s); [exact Ew | | exact M].
    unfold busy. rewrite Et, Ep. auto.
  - intros u Hu. rewrite Et in Hu. auto.
Qed.

Lemma inv_empty eda g w s : stodo s = [] -> (forall h, swait s h = None) -> inv eda g w s.
Proof.
  intros Et Ew. split.
  - intros h n H. rewrite Ew in H. discriminate.
  - intros u Hu. rewrite Et in Hu. destruct Hu.
Qed.

Lemma inv_world eda g w w' s :
  (forall u, enq_class eda (w u) = CDone <-> enq_class eda (w' u) = CDone) ->
  stodo s = [] -> inv eda g w s -> inv eda g w' s.
Proof.
  intros D Et [M _]. split.
  - intros h n H. destruct (M h n H) as [A B]. split; [|exact B].
    rewrite A. unfold all_done_l. split; intros X u Hu; apply D, X, Hu.
  - intros u Hu. rewrite Et in Hu. destruct Hu.
Qed.

Section Steps.
Variable clo : bool.
Variable eda : bool.
Variable g : list tnode.
Hypothesis Hwf : wf g.

Lemma ret_spec w s t :
  soof s = false -> stodo s = [] -> w t <> TInit ->
  inv eda g w (ret eda g w s t) /\ soof (ret eda g w s t) = false /\
  spending (ret eda g w s t) = set_rm t (spending s).
Proof.
  intros O Et Ht. destruct Hwf as [_ [_ [_ [rk [Hb Hrk]]]]]. pose proof (wf_closed g Hwf) as Hc.
  unfold ret.
  set (s0 := mkS (sdeps s) (scounts s) (stodo s) (set_rm t (spending s)) (fun _ => None) (serr s) (soof s)).
  assert (I0 : inv eda g w s0) by (apply inv_empty; [exact Et | reflexivity]).
  destruct (ret_class (w t)) eqn:C.
  - split; [|split].
    + apply inv_schedule; [exact I0|]. intro X. exfalso.
      destruct (w t); simpl in *; try discriminate; congruence.
    + destruct (schedule_fields s0 t) as [_ [_ [_ [_ [_ E]]]]]. rewrite E. exact O.
    + destruct (schedule_fields s0 t) as [_ [_ [E _]]]. rewrite E. reflexivity.
  - split; [|split]; try reflexivity; try exact O.
    apply (inv_fields eda g w s0); [reflexivity | reflexivity | reflexivity | exact I0].
  - pose proof (done_fold_fields (sdeps s0 (head g t)) s0 []) as F. unfold done_op.
    destruct (fold_left done_one (sdeps s0 (head g t)) (s0, [])) as [s1 ready]. simpl in F.
    destruct F as [_ [F1 [F2 [F3 [F4 F5]]]]].
    assert (I1 : inv eda g w s1) by (apply (inv_fields eda g w s0 s1); [exact F1 | exact F3 | exact F2 | exact I0]).
    assert (O1 : soof (enqueue_all eda g w s1 ready) = false).
    { apply (enqueue_all_no_oof eda g w rk Hrk Hb). rewrite F5. exact O. }
    split; [|split].
    + apply (enqueue_all_spec eda g w Hc ready s1 I1 O1).
    + exact O1.
    + rewrite (ext_pending _ _ (enqueue_all_ext eda g w ready s1)). exact F2.
  - pose proof (enqueue_ext eda g w (fuel_of g) s0 t) as X.
    pose proof (enqueue_top_no_oof eda g w rk Hrk Hb s0 t O) as O1.
    destruct (enqueue eda g w (fuel_of g) s0 t) as [s1 k] eqn:E. cbn [fst] in *.
    split; [|split].
    + apply (enqueue_spec eda g w Hc _ _ _ _ _ E I0 O1).
    + exact O1.
    + apply (ext_pending _ _ X).
Qed.

(* ---- dispatch ---- *)

Lemma count_lost_tv w u :
  (forall t, t <> u -> tv (fst (count_lost w u)) t = tv w t) /\
  (wlu w u = false -> fst (count_lost w u) = w) /\
  (wlu w u = true -> (wcl w u + 1 >= max_consecutive_lost)%Z ->
     tv (fst (count_lost w u)) u = (TErr, (wcl w u + 1)%Z, false)) /\
  (wlu w u = true -> (wcl w u + 1 < max_consecutive_lost)%Z ->
     tv (fst (count_lost w u)) u = (wst w u, (wcl w u + 1)%Z, false)).
Proof.
  unfold count_lost. destruct (wlu w u) eqn:L.
  - destruct (wcl w u + 1 >=? max_consecutive_lost)%Z eqn:G; cbn [fst].
    + split; [intros t Ht; unfold tv; cbn [wst wcl wlu]; rewrite !upd_other by exact Ht; reflexivity|].
      split; [discriminate|]. split.
      * intros _ _. unfold tv. cbn [wst wcl wlu]. rewrite !upd_same. reflexivity.
      * intros _ Hlt. apply Z.geb_le in G. lia.
    + split; [intros t Ht; unfold tv; cbn [wst wcl wlu]; rewrite !upd_other by exact Ht; reflexivity|].
      split; [discriminate|]. split.
      * intros _ Hge. rewrite Z.geb_leb in G. apply Z.leb_gt in G. lia.
      * intros _ _. unfold tv. cbn [wst wcl wlu]. rewrite !upd_same. reflexivity.
  - cbn [fst]. split; [reflexivity|]. split; [reflexivity|]. split; discriminate.
Qed.

Lemma dispatch_one_single w ws runs u w' ws' runs' :
  dispatch_one clo (w, ws, runs) u = (w', ws', runs') ->
  exists b, ws' = ws ++ [(u, b)] /\ runs' = runs ++ (if b then [u] else []) /\
            wstep clo w w' (if b then [u] else []).
Proof.
  unfold dispatch_one. intro E.
  set (w0 := if clo && st_eqb (wst w u) TLost then fst (count_lost w u) else w) in *.
  destruct (count_lost_tv w u) as [C1 [C2 [C3 C4]]].
  assert (H0 : forall t, t <> u -> tv w0 t = tv w t).
  { intros t Ht. subst w0. destruct (clo && st_eqb (wst w u) TLost); [apply C1, Ht | reflexivity]. }
  (* the transition of u itself, up to the count *)
  assert (Hu : tv w0 u = tv w u \/
               (clo = true /\ wst w u = TLost /\ wlu w u = true /\
                ((wcl w u + 1 >= max_consecutive_lost)%Z /\ tv w0 u = (TErr, (wcl w u + 1)%Z, false) \/
                 (wcl w u + 1 < max_consecutive_lost)%Z /\ tv w0 u = (TLost, (wcl w u + 1)%Z, false)))).
  { subst w0. destruct clo; [|left; reflexivity]. destruct (st_eqb (wst w u) TLost) eqn:S; [|left; reflexivity].
    apply st_eqb_eq in S. simpl. destruct (wlu w u) eqn:L; [|left; rewrite (C2 eq_refl); reflexivity].
    right. split; [reflexivity|]. split; [exact S|]. split; [reflexivity|].
    destruct (Z_lt_ge_dec (wcl w u + 1) max_consecutive_lost) as [Lt|Ge].
    - right. split; [exact Lt|]. rewrite (C4 eq_refl Lt), S. reflexivity.
    - left. split; [exact Ge|]. apply (C3 eq_refl Ge). }
  destruct (st_eqb (if st_eqb (wst w0 u) TLost then TInit else wst w0 u) TInit) eqn:R;
    inversion E; subst w' ws' runs'; clear E.
  - exists true. split; [reflexivity|]. split; [reflexivity|]. split; [repeat constructor; intros []|].
    intro t. unfold mem. simpl. destruct (Nat.eqb t u) eqn:Q.
    + apply Nat.eqb_eq in Q. subst t. simpl.
      assert (Post : tv (mkW (upd (wst w0) u TWaiting) (wcl w0) (if clo then upd (wlu w0) u true else wlu w0)) u
                     = (TWaiting, wcl w0 u, if clo then true else wlu w0 u)).
      { unfold tv. cbn [wst wcl wlu]. rewrite upd_same. destruct clo; [rewrite upd_same|]; reflexivity. }
      rewrite Post. clear Post.
      assert (R' : wst w0 u = TLost \/ wst w0 u = TInit).
      { destruct (st_eqb (wst w0 u) TLost) eqn:S; [left; apply st_eqb_eq, S | right; apply st_eqb_eq, R]. }
      destruct Hu as [Hu|[Cl [S [L [[Ge Hu]|[Lt Hu]]]]]].
      * unfold tv in Hu. injection Hu as Hs Hc Hl. rewrite Hs in R'. rewrite Hc, Hl. unfold tv.
        destruct R' as [S|S]; rewrite S.
        -- destruct clo eqn:Cl.
           ++ (* counts once, state LOST, w0 = w: lossUncounted was false *)
              destruct (wlu w u) eqn:L; [|apply tc_resub; reflexivity].
              exfalso. subst w0. simpl in Hs. rewrite S in Hs. simpl in Hs.
              destruct (Z_lt_ge_dec (wcl w u + 1) max_consecutive_lost) as [Lt|Ge].
              ** pose proof (C4 eq_refl Lt) as X. unfold tv in X. injection X as _ Xc _.
                 simpl in Hc. rewrite S in Hc. simpl in Hc. lia.
              ** pose proof (C3 eq_refl Ge) as X. unfold tv in X. injection X as Xs _ _. congruence.
           ++ apply tc_resub_old. reflexivity.
        -- apply tc_start.
      * exfalso. unfold tv in Hu. injection Hu as Hs _ _. destruct R' as [X|X]; congruence.
      * unfold tv in Hu. injection Hu as Hs Hc Hl. unfold tv. rewrite S, L, Hc, Cl.
        apply tc_count_resub; [reflexivity | exact Lt].
    + apply Nat.eqb_neq in Q. simpl.
      replace (tv (mkW (upd (wst w0) u TWaiting) (wcl w0) (if clo then upd (wlu w0) u true else wlu w0)) t)
        with (tv w0 t).
      * rewrite (H0 t Q). apply tc_id.
      * unfold tv. cbn [wst wcl wlu]. rewrite upd_other by exact Q.
        destruct clo; [rewrite upd_other by exact Q|]; reflexivity.
  - exists false. split; [reflexivity|]. split; [rewrite app_nil_r; reflexivity|]. split; [constructor|].
    intro t. simpl. destruct (Nat.eq_dec t u) as [->|Q]; [|rewrite (H0 t Q); apply tc_id].
    destruct Hu as [Hu|[Cl [S [L [[Ge Hu]|[Lt Hu]]]]]].
    + rewrite Hu. apply tc_id.
    + rewrite Hu. unfold tv. rewrite S, L. apply tc_count_err; assumption.
    + exfalso. unfold tv in Hu. injection Hu as Hs _ _. rewrite Hs in R. simpl in R. discriminate.
Qed.

Lemma dispatch_one_spec w0 w ws runs u w' ws' runs' :
  dispatch_one clo (w, ws, runs) u = (w', ws', runs') -> wstep clo w0 w runs ->
  wstep clo w0 w' runs' /\ (forall r, In r runs' -> In r runs \/ r = u) /\
  (exists b, ws' = ws ++ [(u, b)]).
Proof.
  intros E W. destruct (dispatch_one_single _ _ _ _ _ _ _ E) as [b [Ew [Er Ws]]]. subst runs'.
  split; [apply (wstep_trans _ _ _ _ _ _ W Ws)|]. split; [|exists b; exact Ew].
  intros r Hr. apply in_app_or in Hr. destruct Hr as [Hr|Hr]; [left; exact Hr|].
  destruct b; [destruct Hr as [<-|[]]; right; reflexivity | destruct Hr].
Qed.

Lemma dispatch_fold_spec w0 : forall ts w ws runs w' ws' runs',
  fold_left (dispatch_one clo) ts (w, ws, runs) = (w', ws', runs') -> wstep clo w0 w runs ->
  wstep clo w0 w' runs' /\ (forall r, In r runs' -> In r runs \/ In r ts) /\
  (forall p, In p ws' -> In p ws \/ In (fst p) ts).
Proof.
  induction ts as [|u r IH]; intros w ws runs w' ws' runs' E W; cbn [fold_left] in E.
  - inversion E; subst. split; [exact W|]. split; auto.
  - destruct (dispatch_one clo (w, ws, runs) u) as [[w1 ws1] runs1] eqn:D.
    destruct (dispatch_one_spec w0 _ _ _ _ _ _ _ D W) as [W1 [R1 [b Eb]]].
    destruct (IH _ _ _ _ _ _ E W1) as [W' [R' P']]. split; [exact W'|]. split.
    + intros x Hx. destruct (R' x Hx) as [H|H]; [|right; right; exact H].
      destruct (R1 x H) as [H1| ->]; [left; exact H1 | right; left; reflexivity].
    + intros p Hp. destruct (P' p Hp) as [H|H]; [|right; right; exact H].
      subst ws1. apply in_app_or in H. destruct H as [H|[<-|[]]]; [left; exact H | right; left; reflexivity].
Qed.

Lemma dispatch_spec ev w ev' w' runs :
  dispatch clo ev w = (ev', w', runs) ->
  wstep clo w w' runs /\ (forall r, In r runs -> In r (stodo (est ev))) /\
  est ev' = snd (runnable (est ev)) /\ eroots ev' = eroots ev /\ estarted ev' = estarted ev /\
  edonec ev' = edonec ev /\ eres ev' = eres ev /\
  (forall p, In p (ewait ev') -> In p (ewait ev) \/ In (fst p) (stodo (est ev))).
Proof.
  unfold dispatch. simpl.
  destruct (fold_left (dispatch_one clo) (stodo (est ev)) (w, ewait ev, [])) as [[w1 ws] rs] eqn:F.
  intro E. inversion E; subst. clear E. simpl.
  destruct (dispatch_fold_spec w _ _ _ _ _ _ _ F (wstep_refl clo w)) as [W [R P]].
  split; [exact W|]. split; [|repeat split; auto].
  intros r Hr. destruct (R r Hr) as [[]|H]. exact H.
Qed.

Lemma runnable_fields s :
  let s' := snd (runnable s) in
  stodo s' = [] /\ swait s' = swait s /\ serr s' = serr s /\ soof s' = soof s /\
  sdeps s' = sdeps s /\ scounts s' = scounts s /\
  (forall x, In x (spending s') <-> In x (spending s) \/ In x (stodo s)).
Proof.
  simpl. repeat split; auto.
  - revert x. generalize (spending s). induction (stodo s) as [|t r IH]; intros p x H; simpl in H; [left; exact H|].
    destruct (IH _ _ H) as [H1|H1]; [|right; right; exact H1].
    apply set_add_In in H1. destruct H1 as [->|H1]; [right; left; reflexivity | left; exact H1].
  - revert x. generalize (spending s). induction (stodo s) as [|t r IH]; intros p x H; simpl.
    + destruct H as [H|[]]. exact H.
    + apply IH. destruct H as [H|[->|H]].
      * left. apply set_add_In. right. exact H.
      * left. apply set_add_In. left. reflexivity.
      * right. exact H.
Qed.

(* ---- the main loop ---- *)

Lemma enqueue_memo_hit w fuel s t n : swait s (head g t) = Some n -> enqueue eda g w fuel s t = (s, n).
Proof. intro H. destruct fuel; simpl; rewrite H; reflexivity. Qed.

Lemma enqueue_all_hits w : forall ts s,
  (forall t, In t ts -> swait s (head g t) <> None) -> enqueue_all eda g w s ts = s.
Proof.
  unfold enqueue_all. induction ts as [|t r IH]; intros s H; cbn [fold_left]; [reflexivity|].
  destruct (swait s (head g t)) as [n|] eqn:W; [|exfalso; apply (H t); [left; reflexivity | exact W]].
  rewrite (enqueue_memo_hit w _ s t n W). simpl. apply IH. intros; apply H; right; assumption.
Qed.

Lemma set_est_id ev : set_est ev (est ev) = ev.
Proof. destruct ev; reflexivity. Qed.

(* once the roots are memoised, nothing is to do and something is pending, the loop blocks *)
Lemma main_top_settled k ev w acc :
  (forall t, In t (eroots ev) -> swait (est ev) (head g t) <> None) ->
  stodo (est ev) = [] -> spending (est ev) <> [] -> serr (est ev) = false ->
  main_top clo eda g (S k) ev w acc = (ev, w, acc).
Proof.
  intros Hm Et Ep Ee. simpl. rewrite (enqueue_all_hits (wst w) _ _ Hm).
  unfold sdone. rewrite Ee, Et. simpl.
  destruct (spending (est ev)) eqn:P; [congruence|]. simpl. rewrite set_est_id. reflexivity.
Qed.

Definition top_result (ev : evaluator) (w : world) (acc : list nat) : evaluator * world * list nat :=
  let s1 := enqueue_all eda g (wst w) (est ev) (eroots ev) in
  if sdone s1 then (mkE (eroots ev) true s1 [] [] (Some (serr s1)), w, acc)
  else if is_nil (stodo s1) then (set_est ev s1, w, acc)
  else let '(ev1, w1, runs) := dispatch clo (set_est ev s1) w in (ev1, w1, acc ++ runs).

Lemma main_top_eq k ev w acc :
  inv eda g (wst w) (est ev) -> soof (est ev) = false ->
  main_top clo eda g (S (S k)) ev w acc = top_result ev w acc.
Proof.
  intros I O. destruct Hwf as [_ [_ [_ [rk [Hb Hrk]]]]]. pose proof (wf_closed g Hwf) as Hc.
  unfold top_result. cbn [main_top].
  set (s1 := enqueue_all eda g (wst w) (est ev) (eroots ev)).
  assert (O1 : soof s1 = false) by (apply (enqueue_all_no_oof eda g (wst w) rk Hrk Hb); exact O).
  destruct (enqueue_all_spec eda g (wst w) Hc (eroots ev) (est ev) I O1) as [I1 W1]. fold s1 in I1, W1.
  destruct (sdone s1) eqn:D; [reflexivity|].
  destruct (is_nil (stodo s1)) eqn:N; [reflexivity|].
  destruct (dispatch clo (set_est ev s1) w) as [[ev1 w1] runs] eqn:Dp.
  destruct (dispatch_spec _ _ _ _ _ Dp) as [_ [_ [Es [Er _]]]]. simpl in Es, Er.
  destruct (runnable_fields s1) as [Ft [Fw [Fe [_ [_ [_ Fp]]]]]]. simpl in Ft, Fw, Fe, Fp.
  apply main_top_settled.
  - rewrite Es, Er. simpl. intros t Ht. apply W1. exact Ht.
  - rewrite Es. reflexivity.
  - rewrite Es. simpl. destruct (stodo s1) as [|x r] eqn:T; [discriminate|].
    intro Z. assert (In x (fold_left (fun p t => set_add t p) (x :: r) (spending s1))) by (apply Fp; right; left; reflexivity).
    rewrite Z in H. exact H.
  - rewrite Es. simpl. unfold sdone in D. apply orb_false_iff in D. apply D.
Qed.

Lemma inv_runnable w s : inv eda g w s -> inv eda g w (snd (runnable s)).
Proof.
  intros [M _]. destruct (runnable_fields s) as [Ft [Fw [_ [_ [_ [_ Fp]]]]]].
  split.
  - apply (memo_ok_same_wait eda g w s); [exact Fw | | exact M].
    intros [B|B]; right; intro Z.
    + destruct (stodo s) as [|x r] eqn:T; [congruence|].
      assert (In x (spending (snd (runnable s)))) by (apply Fp; right; left; reflexivity).
      rewrite Z in H. exact H.
    + destruct (spending s) as [|x r] eqn:T; [congruence|].
      assert (In x (spending (snd (runnable s)))) by (apply Fp; left; left; reflexivity).
      rewrite Z in H. exact H.
  - intros u Hu. rewrite Ft in Hu. destruct Hu.
Qed.

Hypothesis Hver : clo = true -> eda = false.

(* what one activation of the main loop (LStart, or LMain after its Return) guarantees *)
Definition main_post (ev : evaluator) (w : world) (ev' : evaluator) (w' : world) (runs : list nat) : Prop :=
  wstep clo w w' runs /\
  (forall r, In r runs -> deps_done eda g (wst w) r) /\
  soof (est ev') = false /\
  (eres ev' = None -> stodo (est ev') = []) /\
  (eres ev' = Some false -> forall r, In r (eroots ev) -> all_done_l eda (wst w') (phase g r)) /\
  eroots ev' = eroots ev /\ incl (edonec ev') (edonec ev).

Lemma deps_done_world w w' u :
  (forall v, enq_class eda (w v) = CDone <-> enq_class eda (w' v) = CDone) ->
  deps_done eda g w' u -> deps_done eda g w u.
Proof. intros D H d Hd v Hv. apply D, (H d Hd v Hv). Qed.

Lemma runs_ready w w' s runs :
  todo_ok eda g (wst w) s -> wstep clo w w' runs -> (forall r, In r runs -> In r (stodo s)) ->
  forall r, In r runs -> deps_done eda g (wst w) r.
Proof.
  intros T W Hin r Hr. apply T; [apply Hin, Hr|].
  destruct (wstep_run _ _ _ _ _ W Hr) as [[E|E] _]; rewrite E; reflexivity.
Qed.

Lemma top_result_spec ev w ev' w' runs :
  top_result ev w [] = (ev', w', runs) ->
  inv eda g (wst w) (est ev) -> soof (est ev) = false -> eres ev = None ->
  main_post ev w ev' w' runs.
Proof.
  intros E I O Hr. destruct Hwf as [_ [_ [_ [rk [Hb Hrk]]]]]. pose proof (wf_closed g Hwf) as Hc.
  unfold top_result in E.
  set (s1 := enqueue_all eda g (wst w) (est ev) (eroots ev)) in *.
  assert (O1 : soof s1 = false) by (apply (enqueue_all_no_oof eda g (wst w) rk Hrk Hb); exact O).
  destruct (enqueue_all_spec eda g (wst w) Hc (eroots ev) (est ev) I O1) as [I1 W1]. fold s1 in I1, W1.
  destruct (sdone s1) eqn:D.
  - inversion E; subst. clear E. unfold main_post. simpl.
    split; [apply wstep_refl|]. split; [intros r []|]. split; [exact O1|]. split; [discriminate|].
    split; [|split; [reflexivity | intros x []]].
    intros Hs r Hin. inversion Hs as [Hs']. unfold sdone in D. rewrite Hs' in D. simpl in D.
    apply andb_true_iff in D. destruct D as [D1 D2]. apply is_nil_true in D1, D2.
    destruct (swait s1 (head g r)) as [n|] eqn:Wn; [|exfalso; exact (W1 r Hin Wn)].
    destruct (proj1 I1 _ _ Wn) as [A B]. rewrite (Hc r) in A. apply A.
    destruct n; [reflexivity|]. exfalso. destruct (B (Nat.neq_succ_0 n)) as [X|X]; congruence.
  - destruct (is_nil (stodo s1)) eqn:N.
    + inversion E; subst. clear E. unfold main_post. simpl.
      split; [apply wstep_refl|]. split; [intros r []|]. split; [exact O1|].
      split; [intros _; apply is_nil_true; exact N|]. split; [congruence|]. split; [reflexivity | apply incl_refl].
    + destruct (dispatch clo (set_est ev s1) w) as [[ev1 w1] runs1] eqn:Dp. inversion E; subst. clear E.
      destruct (dispatch_spec _ _ _ _ _ Dp) as [Ws [Rin [Es [Er [_ [Ed [Ee _]]]]]]]. simpl in *.
      split; [exact Ws|]. split; [apply (runs_ready w w' s1); [apply I1 | exact Ws | exact Rin]|].
      split; [rewrite Es; exact O1|]. split; [intros _; rewrite Es; reflexivity|].
      split; [congruence|]. split; [exact Er | rewrite Ed; apply incl_refl].
Qed.

Lemma main_post_trans ev w ev1 w1 runs1 ev' w' runs2 :
  wstep clo w w1 runs1 -> (forall r, In r runs1 -> deps_done eda g (wst w) r) ->
  eroots ev1 = eroots ev -> incl (edonec ev1) (edonec ev) ->
  main_post ev1 w1 ev' w' runs2 -> main_post ev w ev' w' (runs1 ++ runs2).
Proof.
  intros W1 R1 Er Ed [W2 [R2 [O [T [S [Er' Ed']]]]]].
  split; [eapply wstep_trans; eassumption|]. split.
  - intros r Hr. apply in_app_or in Hr. destruct Hr as [Hr|Hr]; [apply R1, Hr|].
    apply (deps_done_world (wst w) (wst w1)); [apply (wstep_done clo eda _ _ _ Hver W1) | apply R2, Hr].
  - split; [exact O|]. split; [exact T|]. split; [rewrite <- Er; exact S|].
    split; [congruence | eapply incl_tran; eassumption].
Qed.

Lemma main_cont_spec ev w ev' w' runs :
  main_cont clo eda g ev w = (ev', w', runs) ->
  inv eda g (wst w) (est ev) -> soof (est ev) = false -> eres ev = None ->
  main_post ev w ev' w' runs.
Proof.
  unfold main_cont. intros E I O Hr.
  destruct (negb (sdone (est ev)) && is_nil (stodo (est ev))) eqn:B.
  - inversion E; subst. apply andb_true_iff in B. destruct B as [_ B]. apply is_nil_true in B.
    split; [apply wstep_refl|]. split; [intros r []|]. split; [exact O|]. split; [auto|].
    split; [congruence|]. split; [reflexivity | apply incl_refl].
  - destruct (dispatch clo ev w) as [[ev1 w1] runs1] eqn:Dp.
    destruct (dispatch_spec _ _ _ _ _ Dp) as [Ws [Rin [Es [Er [_ [Ed [Ee _]]]]]]].
    assert (I1 : inv eda g (wst w1) (est ev1)).
    { rewrite Es. apply (inv_world eda g (wst w)); [apply (wstep_done clo eda _ _ _ Hver Ws) | reflexivity | apply inv_runnable, I]. }
    assert (O1 : soof (est ev1) = false) by (rewrite Es; exact O).
    unfold main_fuel in E. rewrite (main_top_eq 2 ev1 w1 runs1 I1 O1) in E.
    assert (Ht : exists runs2, top_result ev1 w1 [] = (ev', w', runs2) /\ runs = runs1 ++ runs2).
    { unfold top_result in *.
      set (s1 := enqueue_all eda g (wst w1) (est ev1) (eroots ev1)) in *.
      destruct (sdone s1); [|destruct (is_nil (stodo s1))].
      - inversion E; subst. exists []. rewrite app_nil_r. split; reflexivity.
      - inversion E; subst. exists []. rewrite app_nil_r. split; reflexivity.
      - destruct (dispatch clo (set_est ev1 s1) w1) as [[e2 w2] r2]. inversion E; subst. exists r2. split; reflexivity. }
    destruct Ht as [runs2 [Et ->]].
    apply (main_post_trans ev w ev1 w1 runs1); auto.
    + apply (runs_ready w w1 (est ev)); [apply I | exact Ws | exact Rin].
    + rewrite Ed. apply incl_refl.
    + apply top_result_spec; [exact Et | exact I1 | exact O1 | congruence].
Qed.

Lemma step_start_spec ev w ev' w' runs :
  step_start clo eda g ev w = (ev', w', runs) -> estarted ev = false ->
  main_post ev w ev' w' runs.
Proof.
  unfold step_start. intros E Hs. rewrite Hs in E. unfold main_fuel in E.
  set (ev0 := mkE (eroots ev) true new_state [] [] None) in *.
  assert (I0 : inv eda g (wst w) (est ev0)) by (apply inv_empty; reflexivity).
  rewrite (main_top_eq 2 ev0 w [] I0 eq_refl) in E.
  pose proof (top_result_spec ev0 w ev' w' runs E I0 eq_refl eq_refl) as [W [R [O [T [S [Er Ed]]]]]].
  split; [exact W|]. split; [exact R|]. split; [exact O|]. split; [exact T|]. split; [exact S|].
  split; [exact Er|]. intros x Hx. destruct (Ed x Hx).
Qed.

Lemma step_main_spec ev w ev' w' runs t rest :
  step_main clo eda g ev w = (ev', w', runs) -> eres ev = None -> edonec ev = t :: rest ->
  soof (est ev) = false -> stodo (est ev) = [] -> wst w t <> TInit ->
  main_post ev w ev' w' runs.
Proof.
  unfold step_main. intros E Hr Hd O Et Ht. rewrite Hr, Hd in E.
  destruct (ret_spec (wst w) (est ev) t O Et Ht) as [I1 [O1 _]].
  set (ev1 := mkE (eroots ev) (estarted ev) (ret eda g (wst w) (est ev) t) (ewait ev) rest None) in *.
  pose proof (main_cont_spec ev1 w ev' w' runs E I1 O1 eq_refl) as [W [R [O' [T [S [Er Ed]]]]]].
  split; [exact W|]. split; [exact R|]. split; [exact O'|]. split; [exact T|]. split; [exact S|].
  split; [exact Er|]. rewrite Hd. intros x Hx. right. apply Ed, Hx.
Qed.

End Steps.

(* ------------------------------------------------------------------ the system: invariant of every reachable state *)

Lemma set_nth_In {A} (l : list A) i x y : In y (set_nth l i x) -> y = x \/ In y l.
Proof.
  revert i. induction l as [|a l IH]; intros i H; simpl in H; [destruct H|].
  destruct i; simpl in H.
  - destruct H as [<-|H]; [left; reflexivity | right; right; exact H].
  - destruct H as [<-|H]; [right; left; reflexivity|]. destruct (IH _ H); [left | right; right]; assumption.
Qed.

Lemma set_nth_length {A} (l : list A) i x : length (set_nth l i x) = length l.
Proof. revert i. induction l as [|a l IH]; intros [|i]; simpl; auto. Qed.

Lemma nth_set_nth_same {A} (l : list A) i x d : i < length l -> nth i (set_nth l i x) d = x.
Proof. revert i. induction l as [|a l IH]; intros [|i] H; simpl in *; try lia; auto. apply IH. lia. Qed.

Lemma nth_set_nth_other {A} (l : list A) i j x d : i <> j -> nth j (set_nth l i x) d = nth j l d.
Proof.
  revert i j. induction l as [|a l IH]; intros [|i] [|j] H; simpl; auto; try congruence.
Qed.

Definition handed (s : tstate) : Prop := s = TWaiting \/ s = TRunning.

Definition legal_label (l : label) : Prop :=
  match l with LSet _ TInit => False | _ => True end.

Inductive reachable_v (clo eda : bool) (g : list tnode) (sy0 : sys) : sys -> Prop :=
| reach_init : reachable_v clo eda g sy0 sy0
| reach_step sy l : reachable_v clo eda g sy0 sy -> legal_label l ->
                    reachable_v clo eda g sy0 (fst (step_v clo eda g sy l)).

(* the code version that goes with [eda] (see Model.ver) *)
Definition reachable (eda : bool) (g : list tnode) := reachable_v (ver eda) eda g.

Lemma ver_ok eda : ver eda = true -> eda = false.
Proof. unfold ver. destruct eda; [rewrite andb_false_r; discriminate | reflexivity]. Qed.

Section Sys.
Variable clo : bool.
Variable eda : bool.
Hypothesis Hver : clo = true -> eda = false.
Variable g : list tnode.
Hypothesis Hwf : wf g.

Definition ev_ok (w : world) (ev : evaluator) : Prop :=
  soof (est ev) = false /\
  (eres ev = None -> stodo (est ev) = []) /\
  (forall t, In t (edonec ev) -> wst w t <> TInit).

Definition sys_ok (sy : sys) : Prop := forall ev, In ev (sevs sy) -> ev_ok (sw sy) ev.

Lemma init_sys_ok st0 rootss : sys_ok (init_sys st0 rootss).
Proof.
  intros ev H. unfold init_sys in H. simpl in H. apply in_map_iff in H. destruct H as [r [<- _]].
  repeat split; simpl; auto.
Qed.

Lemma ev_ok_world w w' ev :
  (forall t, wst w t <> TInit -> wst w' t <> TInit) -> ev_ok w ev -> ev_ok w' ev.
Proof. intros H [A [B C]]. repeat split; auto. Qed.

Lemma get_ev_In sy e : e < length (sevs sy) -> In (get_ev sy e) (sevs sy).
Proof. intro H. apply nth_In. exact H. Qed.

Lemma bookkeep_spec w t :
  (forall u, u <> t -> wst (bookkeep clo w t) u = wst w u) /\
  (wst (bookkeep clo w t) t = wst w t \/ (wst w t = TLost /\ wst (bookkeep clo w t) t = TErr)).
Proof.
  unfold bookkeep. destruct (wst w t) eqn:E; simpl; try (split; [reflexivity | left; exact E]).
  destruct clo.
  - destruct (count_lost_tv w t) as [C1 [C2 [C3 C4]]]. split.
    + intros u Hu. specialize (C1 u Hu). unfold tv in C1. injection C1 as X _ _. exact X.
    + destruct (wlu w t) eqn:L; [|rewrite (C2 eq_refl); left; exact E].
      destruct (Z_lt_ge_dec (wcl w t + 1) max_consecutive_lost) as [Lt|Ge].
      * specialize (C4 eq_refl Lt). unfold tv in C4. injection C4 as X _ _. left. rewrite X. exact E.
      * specialize (C3 eq_refl Ge). unfold tv in C3. injection C3 as X _ _. right. split; [reflexivity | exact X].
  - destruct (wcl w t + 1 >=? max_consecutive_lost)%Z; simpl.
    + split; [intros u Hu; apply upd_other; exact Hu | right; split; [reflexivity | apply upd_same]].
    + split; [reflexivity | left; exact E].
Qed.

(* everything the theorems need to know about one step *)
Record step_facts (sy : sys) (l : label) (sy' : sys) (runs : list (nat * nat)) : Prop := mkSF {
  sf_ok : sys_ok sy';
  sf_len : length (sevs sy') = length (sevs sy);
  sf_roots : forall e, eroots (get_ev sy' e) = eroots (get_ev sy e);
  sf_ready : forall e r, In (e, r) runs -> deps_done eda g (wst (sw sy)) r;
  sf_success : forall e, eres (get_ev sy e) = None -> eres (get_ev sy' e) = Some false ->
               forall r, In r (eroots (get_ev sy e)) -> all_done_l eda (wst (sw sy')) (phase g r);
  sf_nodup : NoDup (map snd runs);
  sf_run : forall e r, In (e, r) runs ->
           (wst (sw sy) r = TInit \/ wst (sw sy) r = TLost) /\ wst (sw sy') r = TWaiting;
  sf_keep : forall t, (forall s, l <> LSet t s) -> handed (wst (sw sy) t) ->
            handed (wst (sw sy') t) /\ forall e, ~ In (e, t) runs;
  (* a step of a main loop changes the world exactly as [wstep] says *)
  sf_main : (forall e t, l <> LWait e t) -> (forall t s, l <> LSet t s) ->
            exists rs, wstep clo (sw sy) (sw sy') rs /\ map snd runs = rs }.

Lemma main_step_facts sy e l ev' w' rs :
  e < length (sevs sy) -> sys_ok sy -> (forall t s, l <> LSet t s) ->
  main_post clo eda g (get_ev sy e) (sw sy) ev' w' rs ->
  (eres (get_ev sy e) = None) ->
  (forall t, In t (edonec ev') -> In t (edonec (get_ev sy e))) ->
  step_facts sy l (mkSys w' (set_nth (sevs sy) e ev')) (map (pair e) rs).
Proof.
  intros He Hok Hl [W [R [O [T [S [Er Ed]]]]]] Hn Hd.
  assert (NI : forall t, wst (sw sy) t <> TInit -> wst w' t <> TInit) by (intros t; apply (wstep_not_init _ _ _ _ _ W)).
  constructor; simpl.
  - intros ev Hev. apply set_nth_In in Hev. destruct Hev as [->|Hev].
    + split; [exact O|]. split; [exact T|]. intros t Ht. apply NI.
      destruct (Hok _ (get_ev_In sy e He)) as [_ [_ C]]. apply C, Hd, Ht.
    + apply (ev_ok_world (sw sy)); [exact NI | apply Hok, Hev].
  - apply set_nth_length.
  - intro e'. unfold get_ev. simpl. destruct (Nat.eq_dec e e') as [<-|Ne].
    + rewrite nth_set_nth_same; [exact Er | exact He].
    + rewrite nth_set_nth_other; [reflexivity | exact Ne].
  - intros e' r Hr. apply in_map_iff in Hr. destruct Hr as [x [Hx Hin]]. inversion Hx; subst. apply R, Hin.
  - intros e' Hn' Hs r Hr. unfold get_ev in Hs. simpl in Hs. destruct (Nat.eq_dec e e') as [<-|Ne].
    + rewrite nth_set_nth_same in Hs by exact He. apply S; assumption.
    + rewrite nth_set_nth_other in Hs by exact Ne. unfold get_ev in Hn'. congruence.
  - rewrite map_map. simpl. rewrite map_id. apply (wstep_nodup _ _ _ _ W).
  - intros e' r Hr. apply in_map_iff in Hr. destruct Hr as [x [Hx Hin]]. inversion Hx; subst.
    apply (wstep_run _ _ _ _ _ W Hin).
  - intros t _ Ht. destruct (wstep_keep _ _ _ _ _ W Ht) as [Eq Nin].
    split; [rewrite Eq; exact Ht|].
    intros e' Hin. apply in_map_iff in Hin. destruct Hin as [x [Hx Hin]]. inversion Hx; subst. contradiction.
  - intros _ _. exists rs. split; [exact W | rewrite map_map; simpl; apply map_id].
Qed.

Lemma noop_facts sy l : sys_ok sy -> step_facts sy l sy [].
Proof.
  intro Hok. constructor.
  - exact Hok.
  - reflexivity.
  - reflexivity.
  - intros e r [].
  - intros e Hn Hs. congruence.
  - constructor.
  - intros e r [].
  - intros t _ Ht. split; [exact Ht | intros e []].
  - intros _ _. exists []. split; [apply wstep_refl | reflexivity].
Qed.

Lemma sys_eta sy : mkSys (sw sy) (sevs sy) = sy.
Proof. destruct sy; reflexivity. Qed.

Lemma step_spec sy l :
  sys_ok sy -> legal_label l ->
  step_facts sy l (fst (step_v clo eda g sy l)) (snd (step_v clo eda g sy l)).
Proof.
  intros Hok Hl. destruct l as [t s|e|e t|e]; simpl.
  - (* LSet *)
    constructor; simpl.
    + intros ev Hev. apply (ev_ok_world (sw sy)); [|apply Hok, Hev].
      intros u Hu. simpl. unfold upd. destruct (Nat.eqb u t); [|exact Hu].
      destruct s; simpl in Hl; try discriminate. contradiction.
    + reflexivity.
    + reflexivity.
    + intros e r [].
    + intros e Hn Hs. unfold get_ev in *. simpl in Hs. congruence.
    + constructor.
    + intros e r [].
    + intros u Hu Hh. split; [|intros e []]. rewrite upd_other; [exact Hh|].
      intro; subst. apply (Hu s). reflexivity.
    + intros _ H. exfalso. apply (H t s). reflexivity.
  - (* LStart *)
    destruct (Nat.ltb e (length (sevs sy))) eqn:L; [|apply noop_facts, Hok].
    apply Nat.ltb_lt in L.
    destruct (step_start clo eda g (get_ev sy e) (sw sy)) as [[ev' w'] rs] eqn:E. simpl.
    destruct (estarted (get_ev sy e)) eqn:St.
    + unfold step_start in E. rewrite St in E. inversion E; subst. simpl.
      assert (X : set_nth (sevs sy) e (get_ev sy e) = sevs sy).
      { unfold get_ev. clear. revert e. induction (sevs sy) as [|a l IH]; intros [|e]; simpl; auto. f_equal. apply IH. }
      rewrite X, sys_eta. apply noop_facts, Hok.
    + pose proof (step_start_spec clo eda g Hwf _ _ _ _ _ E St) as MP.
      assert (Hn : eres ev' = eres ev' ) by reflexivity.
      destruct MP as [W [R [O [T [S [Er Ed]]]]]].
      (* an evaluation that was never started has returned nothing yet *)
      constructor; simpl.
      * intros ev Hev. apply set_nth_In in Hev. destruct Hev as [->|Hev].
        -- split; [exact O|]. split; [exact T|]. intros t Ht.
           unfold step_start in E. rewrite St in E. exfalso. clear -E Ht Hwf Hver.
           unfold main_fuel in E.
           set (ev0 := mkE (eroots (get_ev sy e)) true new_state [] [] None) in *.
           assert (I0 : inv eda g (wst (sw sy)) (est ev0)) by (apply inv_empty; reflexivity).
           rewrite (main_top_eq clo eda g Hwf 2 ev0 (sw sy) [] I0 eq_refl) in E.
           pose proof (top_result_spec clo eda g Hwf ev0 (sw sy) ev' w' rs E I0 eq_refl eq_refl) as [_ [_ [_ [_ [_ [_ Ed]]]]]].
           destruct (Ed t Ht).
        -- apply (ev_ok_world (sw sy)); [intros t; apply (wstep_not_init _ _ _ _ _ W) | apply Hok, Hev].
      * apply set_nth_length.
      * intro e'. unfold get_ev. simpl. destruct (Nat.eq_dec e e') as [<-|Ne].
        -- rewrite nth_set_nth_same; [exact Er | exact L].
        -- rewrite nth_set_nth_other; [reflexivity | exact Ne].
      * intros e' r Hr. apply in_map_iff in Hr. destruct Hr as [x [Hx Hin]]. inversion Hx; subst. apply R, Hin.
      * intros e' Hn' Hs r Hr. unfold get_ev in Hs. simpl in Hs. destruct (Nat.eq_dec e e') as [<-|Ne].
        -- rewrite nth_set_nth_same in Hs by exact L. apply S; assumption.
        -- rewrite nth_set_nth_other in Hs by exact Ne. unfold get_ev in Hn'. congruence.
      * rewrite map_map. simpl. rewrite map_id. apply (wstep_nodup _ _ _ _ W).
      * intros e' r Hr. apply in_map_iff in Hr. destruct Hr as [x [Hx Hin]]. inversion Hx; subst.
        apply (wstep_run _ _ _ _ _ W Hin).
      * intros t _ Ht. destruct (wstep_keep _ _ _ _ _ W Ht) as [Eq Nin].
        split; [rewrite Eq; exact Ht|].
        intros e' Hin. apply in_map_iff in Hin. destruct Hin as [x [Hx Hin]]. inversion Hx; subst. contradiction.
      * intros _ _. exists rs. split; [exact W | rewrite map_map; simpl; apply map_id].
  - (* LWait *)
    destruct (Nat.ltb e (length (sevs sy))) eqn:L; [|apply noop_facts, Hok].
    apply Nat.ltb_lt in L.
    destruct (step_wait clo (get_ev sy e) (sw sy) t) as [ev' w'] eqn:E. simpl.
    unfold step_wait in E.
    destruct (eres (get_ev sy e)) eqn:Hr.
    { inversion E; subst.
      assert (X : set_nth (sevs sy) e (get_ev sy e) = sevs sy).
      { unfold get_ev. clear. revert e. induction (sevs sy) as [|a l IH]; intros [|e]; simpl; auto. f_equal. apply IH. }
      rewrite X, sys_eta. apply noop_facts, Hok. }
    destruct (find_waiter t (ewait (get_ev sy e))) as [r|] eqn:F;
      [destruct (ge_ok (wst (sw sy) t)) eqn:G|].
    2,3: inversion E; subst;
      assert (X : set_nth (sevs sy) e (get_ev sy e) = sevs sy)
        by (unfold get_ev; clear; revert e; induction (sevs sy) as [|a l IH]; intros [|e]; simpl; auto; f_equal; apply IH);
      rewrite X, sys_eta; apply noop_facts, Hok.
    inversion E; subst. clear E.
    set (w' := if r then bookkeep clo (sw sy) t else sw sy).
    assert (Hw : (forall u, u <> t -> wst w' u = wst (sw sy) u) /\
                 (wst w' t = wst (sw sy) t \/ (wst (sw sy) t = TLost /\ wst w' t = TErr))).
    { subst w'. destruct r; [apply bookkeep_spec | split; [reflexivity | left; reflexivity]]. }
    destruct Hw as [Hw1 Hw2].
    assert (NI : forall u, wst (sw sy) u <> TInit -> wst w' u <> TInit).
    { intros u Hu. destruct (Nat.eq_dec u t) as [->|Ne]; [|rewrite Hw1; assumption].
      destruct Hw2 as [->|[_ ->]]; [exact Hu | discriminate]. }
    destruct (Hok _ (get_ev_In sy e L)) as [A [B C]].
    constructor; simpl.
    + intros ev Hev. apply set_nth_In in Hev. destruct Hev as [->|Hev].
      * split; [exact A|]. split; [intros _; apply B, Hr|]. simpl. intros u Hu. apply in_app_or in Hu.
        destruct Hu as [Hu|[<-|[]]]; [apply NI, C, Hu|]. apply NI. intro Z. rewrite Z in G. discriminate.
      * apply (ev_ok_world (sw sy)); [exact NI | apply Hok, Hev].
    + apply set_nth_length.
    + intro e'. unfold get_ev. simpl. destruct (Nat.eq_dec e e') as [<-|Ne].
      * rewrite nth_set_nth_same; [reflexivity | exact L].
      * rewrite nth_set_nth_other; [reflexivity | exact Ne].
    + intros e' r' [].
    + intros e' Hn Hs. exfalso. unfold get_ev in Hs. simpl in Hs. destruct (Nat.eq_dec e e') as [<-|Ne].
      * rewrite nth_set_nth_same in Hs by exact L. simpl in Hs. congruence.
      * rewrite nth_set_nth_other in Hs by exact Ne. unfold get_ev in Hn. congruence.
    + constructor.
    + intros e' r' [].
    + intros u _ Hu. split; [|intros e' []].
      destruct (Nat.eq_dec u t) as [->|Ne]; [|rewrite Hw1; assumption].
      destruct Hw2 as [->|[Z _]]; [exact Hu|]. destruct Hu as [Y|Y]; congruence.
    + intros H _. exfalso. apply (H e t). reflexivity.
  - (* LMain *)
    destruct (Nat.ltb e (length (sevs sy))) eqn:L; [|apply noop_facts, Hok].
    apply Nat.ltb_lt in L.
    destruct (step_main clo eda g (get_ev sy e) (sw sy)) as [[ev' w'] rs] eqn:E. simpl.
    destruct (eres (get_ev sy e)) eqn:Hr; [|destruct (edonec (get_ev sy e)) as [|t rest] eqn:Hd].
    1,2: unfold step_main in E; rewrite Hr in E; try rewrite Hd in E; inversion E; subst;
      assert (X : set_nth (sevs sy) e (get_ev sy e) = sevs sy)
        by (unfold get_ev; clear; revert e; induction (sevs sy) as [|a l IH]; intros [|e]; simpl; auto; f_equal; apply IH);
      simpl; rewrite X, sys_eta; apply noop_facts, Hok.
    destruct (Hok _ (get_ev_In sy e L)) as [A [B C]].
    pose proof (step_main_spec clo eda g Hwf Hver _ _ _ _ _ _ _ E Hr Hd A (B Hr) (C t ltac:(rewrite Hd; left; reflexivity))) as MP.
    apply main_step_facts; auto.
    + intros; discriminate.
    + destruct MP as [_ [_ [_ [_ [_ [_ Ed]]]]]]. exact Ed.
Qed.

Lemma reachable_ok sy0 sy : sys_ok sy0 -> reachable_v clo eda g sy0 sy -> sys_ok sy.
Proof.
  intros H0 R. induction R; [exact H0|]. apply (sf_ok _ _ _ _ (step_spec sy l IHR H)).
Qed.

End Sys.

(* C03 — needed_only: whatever is scheduled, pending, waited for or handed to the
   executor by an evaluation lies in the cone of its roots. *)
From Coq Require Import List ZArith Bool Lia Arith.
Import ListNotations.
Require Import BS.C03.Model BS.C03.Proofs BS.C03.Safety.

(* the cone of the roots: their phases and, transitively, every task of every
   dependency phase *)
Inductive needed (g : list tnode) (roots : list nat) : nat -> Prop :=
| N_root r u : In r roots -> In u (phase g r) -> needed g roots u
| N_dep t d u : needed g roots t -> In d (tdeps (node g t)) -> In u (phase g d) -> needed g roots u.

Section Needed.
Variable clo : bool.
Variable eda : bool.
Variable g : list tnode.
Variable P : nat -> Prop.
Hypothesis Pdep : forall t d u, P t -> In d (tdeps (node g t)) -> In u (phase g d) -> P u.
Hypothesis Pphase : forall t u, P t -> In u (phase g t) -> P u.

Definition nd_ok (s : state) : Prop :=
  (forall t, In t (stodo s) -> P t) /\ (forall t, In t (spending s) -> P t) /\
  (forall a b, In b (sdeps s a) -> P b).

Lemma nd_schedule s u : nd_ok s -> P u -> nd_ok (schedule s u).
Proof.
  intros [A [B C]] Hu. destruct (schedule_fields s u) as [Ed [_ [Ep _]]]. split; [|split].
  - intros t Ht. apply schedule_todo in Ht. destruct Ht as [Ht|[-> _]]; auto.
  - rewrite Ep. exact B.
  - rewrite Ed. exact C.
Qed.

Lemma clear_deps_incl s t a b : In b (sdeps (clear g s t) a) -> In b (sdeps s a).
Proof.
  unfold clear. simpl. generalize (sdeps s). induction (tdeps (node g t)) as [|d r IH]; intros dm H; simpl in H; [exact H|].
  apply IH in H. unfold upd in H. destruct (Nat.eqb a d) eqn:E; [|exact H].
  apply set_rm_In in H. apply Nat.eqb_eq in E. subst. apply H.
Qed.

Lemma nd_clear s t : nd_ok s -> nd_ok (clear g s t).
Proof.
  intros [A [B C]]. split; [exact A|]. split; [exact B|].
  intros a b H. apply (C a). apply (clear_deps_incl s t a b H).
Qed.

Lemma nd_add s a b n : nd_ok s -> P b -> nd_ok (add s a b n).
Proof.
  intros [A [B C]] Hb. unfold add. destruct (mem b (sdeps s a)); [split; [|split]; assumption|].
  split; [exact A|]. split; [exact B|]. simpl. intros x y H. unfold upd in H.
  destruct (Nat.eqb x a); [|apply (C x y H)].
  apply in_app_or in H. destruct H as [H|[<-|[]]]; [apply (C a y H) | exact Hb].
Qed.

Definition nd_rec (rec : state -> nat -> state * nat) : Prop :=
  forall s d, (forall v, In v (phase g d) -> P v) -> nd_ok s -> nd_ok (fst (rec s d)).

Lemma nd_enq_deps rec u : nd_rec rec -> P u ->
  forall ds, (forall d, In d ds -> In d (tdeps (node g u))) ->
  forall s ready, nd_ok s -> nd_ok (fst (enq_deps rec u ds s ready)).
Proof.
  intros Hrec Hu. induction ds as [|d r IH]; intros Hd s ready N; simpl; [exact N|].
  assert (Hp : forall v, In v (phase g d) -> P v).
  { intros v Hv. apply (Pdep u d v Hu); [apply Hd; left; reflexivity | exact Hv]. }
  pose proof (Hrec s d Hp N) as N1. destruct (rec s d) as [s1 k]. simpl in N1.
  assert (Hd' : forall d0, In d0 r -> In d0 (tdeps (node g u))) by (intros; apply Hd; right; assumption).
  destruct k; [apply IH; assumption|]. apply IH; [assumption|]. apply nd_add; assumption.
Qed.

Lemma nd_enq_phase w rec : nd_rec rec ->
  forall us, (forall u, In u us -> P u) ->
  forall s n, nd_ok s -> nd_ok (fst (enq_phase eda g w rec us s n)).
Proof.
  intros Hrec. induction us as [|u r IH]; intros Hu s n N; simpl; [exact N|].
  assert (Hu' : forall x, In x r -> P x) by (intros; apply Hu; right; assumption).
  assert (Pu : P u) by (apply Hu; left; reflexivity).
  destruct (enq_class eda (w u)).
  - apply IH; assumption.
  - apply IH; [assumption|]. apply nd_schedule; assumption.
  - pose proof (nd_enq_deps rec u Hrec Pu (tdeps (node g u)) (fun d H => H) (clear g s u) true (nd_clear s u N)) as D.
    destruct (enq_deps rec u (tdeps (node g u)) (clear g s u) true) as [s1 ready]. simpl in D.
    apply IH; [assumption|]. destruct ready; [apply nd_schedule; assumption | exact D].
Qed.

Lemma nd_set_wait s t n : nd_ok s -> nd_ok (set_wait s t n).
Proof. intros [A [B C]]. split; [|split]; assumption. Qed.

Lemma nd_enqueue w : forall fuel, nd_rec (enqueue eda g w fuel).
Proof.
  induction fuel as [|f IH]; intros s d Hd N; simpl.
  - destruct (swait s (head g d)); simpl; [exact N|]. destruct N as [A [B C]]. split; [|split]; assumption.
  - destruct (swait s (head g d)); simpl; [exact N|].
    pose proof (nd_enq_phase w _ IH (phase g d) Hd s 0 N) as X.
    destruct (enq_phase eda g w (enqueue eda g w f) (phase g d) s 0) as [s1 n]. simpl in *.
    apply nd_set_wait. exact X.
Qed.

Lemma nd_enqueue_all w : forall ts s, (forall t, In t ts -> P t) -> nd_ok s -> nd_ok (enqueue_all eda g w s ts).
Proof.
  unfold enqueue_all. induction ts as [|t r IH]; intros s Ht N; cbn [fold_left]; [exact N|].
  apply IH; [intros; apply Ht; right; assumption|].
  apply nd_enqueue; [|exact N]. intros v Hv. apply (Pphase t v); [apply Ht; left; reflexivity | exact Hv].
Qed.

Lemma done_fold_ready : forall l s ready,
  (forall x, In x ready -> P x) -> (forall x, In x l -> P x) ->
  forall x, In x (snd (fold_left done_one l (s, ready))) -> P x.
Proof.
  induction l as [|y l IH]; intros s ready Hr Hl x Hx; simpl in Hx; [apply Hr, Hx|].
  eapply IH; [| |exact Hx].
  - intros z Hz. destruct (scounts s y - 1 =? 0)%Z; [|apply Hr, Hz].
    apply in_app_or in Hz. destruct Hz as [Hz|[<-|[]]]; [apply Hr, Hz | apply Hl; left; reflexivity].
  - intros z Hz. apply Hl. right. exact Hz.
Qed.

Lemma nd_ret w s t : nd_ok s -> P t -> nd_ok (ret eda g w s t).
Proof.
  intros [A [B C]] Pt. unfold ret.
  set (s0 := mkS (sdeps s) (scounts s) (stodo s) (set_rm t (spending s)) (fun _ => None) (serr s) (soof s)).
  assert (N0 : nd_ok s0).
  { split; [exact A|]. split; [|exact C]. simpl. intros x Hx. apply set_rm_In in Hx. apply B, Hx. }
  destruct (ret_class (w t)).
  - apply nd_schedule; assumption.
  - destruct N0 as [A0 [B0 C0]]. split; [|split]; assumption.
  - unfold done_op.
    pose proof (done_fold_fields (sdeps s0 (head g t)) s0 []) as F.
    pose proof (done_fold_ready (sdeps s0 (head g t)) s0 [] (fun x (H : In x []) => match H with end)
                  (fun x H => C (head g t) x H)) as Rd.
    destruct (fold_left done_one (sdeps s0 (head g t)) (s0, [])) as [s1 ready]. simpl in F, Rd.
    destruct F as [F0 [F1 [F2 _]]].
    apply nd_enqueue_all; [exact Rd|].
    destruct N0 as [A0 [B0 C0]]. split; [rewrite F1; exact A0|]. split; [rewrite F2; exact B0 | rewrite F0; exact C0].
  - apply nd_enqueue; [|exact N0]. intros v Hv. apply (Pphase t v Pt Hv).
Qed.

Definition nev_ok (ev : evaluator) : Prop :=
  nd_ok (est ev) /\ (forall t, In t (edonec ev) -> P t) /\ (forall p, In p (ewait ev) -> P (fst p)).

Lemma nd_dispatch ev w ev' w' runs :
  dispatch clo ev w = (ev', w', runs) -> nev_ok ev -> nev_ok ev' /\ forall r, In r runs -> P r.
Proof.
  intros E [[A [B C]] [D W]].
  destruct (dispatch_spec _ _ _ _ _ _ E) as [_ [Rin [Es [_ [_ [Ed [_ Ew]]]]]]].
  destruct (runnable_fields (est ev)) as [Ft [_ [_ [_ [Fd [_ Fp]]]]]].
  split; [|intros r Hr; apply A, Rin, Hr].
  split; [|split].
  - rewrite Es. split; [rewrite Ft; intros t []|]. split.
    + intros t Ht. apply Fp in Ht. destruct Ht; auto.
    + rewrite Fd. exact C.
  - rewrite Ed. exact D.
  - intros p Hp. destruct (Ew p Hp) as [H|H]; [apply W, H | apply A, H].
Qed.

Lemma nd_main_top roots : (forall r, In r roots -> P r) ->
  forall k ev w acc ev' w' runs,
  main_top clo eda g k ev w acc = (ev', w', runs) -> eroots ev = roots -> nev_ok ev ->
  (forall r, In r acc -> P r) ->
  nev_ok ev' /\ (forall r, In r runs -> P r) /\ eroots ev' = roots.
Proof.
  intros Hroots. induction k as [|k IH]; intros ev w acc ev' w' runs E Er N Hacc; simpl in E.
  - inversion E; subst. split; [|split; [exact Hacc | reflexivity]].
    destruct N as [[A [B C]] [D W]]. split; [split; [|split]; assumption | split; assumption].
  - set (s1 := enqueue_all eda g (wst w) (est ev) (eroots ev)) in *.
    assert (N1 : nd_ok s1).
    { subst s1. apply nd_enqueue_all; [rewrite Er; exact Hroots | apply N]. }
    destruct (sdone s1).
    + inversion E; subst. split; [|split; [exact Hacc | reflexivity]].
      split; [exact N1|]. split; simpl; intros ? [].
    + destruct (is_nil (stodo s1)).
      * inversion E; subst. split; [|split; [exact Hacc | reflexivity]].
        destruct N as [_ [D W]]. split; [exact N1 | split; assumption].
      * destruct (dispatch clo (set_est ev s1) w) as [[ev1 w1] runs1] eqn:Dp.
        assert (N2 : nev_ok (set_est ev s1)) by (destruct N as [_ [D W]]; split; [exact N1 | split; assumption]).
        destruct (nd_dispatch _ _ _ _ _ Dp N2) as [N3 R3].
        destruct (dispatch_spec _ _ _ _ _ _ Dp) as [_ [_ [_ [Er1 _]]]]. simpl in Er1.
        apply (IH ev1 w1 (acc ++ runs1) ev' w' runs E); [congruence | exact N3|].
        intros r Hr. apply in_app_or in Hr. destruct Hr; auto.
Qed.

Lemma nd_main_cont roots ev w ev' w' runs : (forall r, In r roots -> P r) ->
  main_cont clo eda g ev w = (ev', w', runs) -> eroots ev = roots -> nev_ok ev ->
  nev_ok ev' /\ (forall r, In r runs -> P r) /\ eroots ev' = roots.
Proof.
  intros Hroots E Er N. unfold main_cont in E.
  destruct (negb (sdone (est ev)) && is_nil (stodo (est ev))).
  - inversion E; subst. split; [exact N|]. split; [intros r [] | reflexivity].
  - destruct (dispatch clo ev w) as [[ev1 w1] runs1] eqn:Dp.
    destruct (nd_dispatch _ _ _ _ _ Dp N) as [N1 R1].
    destruct (dispatch_spec _ _ _ _ _ _ Dp) as [_ [_ [_ [Er1 _]]]].
    apply (nd_main_top roots Hroots _ _ _ _ _ _ _ E); [congruence | exact N1 | exact R1].
Qed.

End Needed.

Lemma needed_dep g roots t d u :
  needed g roots t -> In d (tdeps (node g t)) -> In u (phase g d) -> needed g roots u.
Proof. intros. eapply N_dep; eassumption. Qed.

Lemma needed_phase g roots : wf g -> forall t u, needed g roots t -> In u (phase g t) -> needed g roots u.
Proof.
  intros [_ [_ [H3 _]]] t u Ht Hu. destruct Ht as [r t Hr Ht | t0 d t Ht0 Hd Ht].
  - apply (N_root g roots r u Hr). rewrite <- (H3 r t Ht). exact Hu.
  - apply (N_dep g roots t0 d u Ht0 Hd). rewrite <- (H3 d t Ht). exact Hu.
Qed.

Lemma needed_root g roots : wf g -> forall r, In r roots -> needed g roots r.
Proof. intros [H1 _] r Hr. apply (N_root g roots r r Hr). apply H1. Qed.

Section NeededSys.
Variable clo : bool.
Variable eda : bool.
Variable g : list tnode.
Hypothesis Hwf : wf g.

Definition nsys_ok (sy : sys) : Prop :=
  forall e, e < length (sevs sy) -> nev_ok (needed g (eroots (get_ev sy e))) (get_ev sy e).

Lemma init_nsys_ok st0 rootss : nsys_ok (init_sys st0 rootss).
Proof.
  intros e He. unfold get_ev, init_sys in *. simpl in *. rewrite map_length in He.
  rewrite (nth_indep _ dead_eval (new_eval []) ) by (rewrite map_length; exact He).
  change (new_eval []) with (new_eval (@nil nat)). rewrite (map_nth new_eval rootss [] e).
  unfold nev_ok, nd_ok. simpl. repeat split; intros; contradiction.
Qed.

Lemma nstep sy l :
  nsys_ok sy ->
  nsys_ok (fst (step_v clo eda g sy l)) /\
  forall e r, In (e, r) (snd (step_v clo eda g sy l)) -> needed g (eroots (get_ev sy e)) r.
Proof.
  intro N.
  assert (Keep : forall e ev' w', e < length (sevs sy) ->
            eroots ev' = eroots (get_ev sy e) -> nev_ok (needed g (eroots (get_ev sy e))) ev' ->
            nsys_ok (mkSys w' (set_nth (sevs sy) e ev'))).
  { intros e ev' w' He Er Nev e' He'. unfold get_ev in *. simpl in *. rewrite set_nth_length in He'.
    destruct (Nat.eq_dec e e') as [<-|Ne].
    - rewrite nth_set_nth_same by exact He. rewrite Er. exact Nev.
    - rewrite nth_set_nth_other by exact Ne. apply N. exact He'. }
  destruct l as [t s|e|e t|e]; simpl.
  - split; [|intros e r []]. intros e He. apply (N e He).
  - destruct (Nat.ltb e (length (sevs sy))) eqn:L; [|split; [exact N | intros e' r []]].
    apply Nat.ltb_lt in L.
    destruct (step_start clo eda g (get_ev sy e) (sw sy)) as [[ev' w'] rs] eqn:E. simpl.
    unfold step_start in E. destruct (estarted (get_ev sy e)).
    + inversion E; subst. split; [|intros e' r []]. apply (Keep e _ _ L eq_refl (N e L)).
    + set (roots := eroots (get_ev sy e)) in *.
      destruct (nd_main_top clo eda g (needed g roots) (needed_dep g roots) (needed_phase g roots Hwf) roots
                  (needed_root g roots Hwf) _ _ _ _ _ _ _ E eq_refl) as [N' [R' Er']].
      { unfold nev_ok, nd_ok. simpl. repeat split; intros; contradiction. }
      { intros r []. }
      split; [apply (Keep e _ _ L Er' N')|].
      intros e' r Hr. apply in_map_iff in Hr. destruct Hr as [x [Hx Hin]]. inversion Hx; subst. apply R', Hin.
  - destruct (Nat.ltb e (length (sevs sy))) eqn:L; [|split; [exact N | intros e' r []]].
    apply Nat.ltb_lt in L.
    destruct (step_wait clo (get_ev sy e) (sw sy) t) as [ev' w'] eqn:E. simpl. split; [|intros e' r []].
    unfold step_wait in E. destruct (N e L) as [Ns [Nd Nw]].
    destruct (eres (get_ev sy e)); [inversion E; subst; apply (Keep e _ _ L eq_refl (N e L))|].
    destruct (find_waiter t (ewait (get_ev sy e))) as [r|] eqn:F; [|inversion E; subst; apply (Keep e _ _ L eq_refl (N e L))].
    destruct (ge_ok (wst (sw sy) t)); [|inversion E; subst; apply (Keep e _ _ L eq_refl (N e L))].
    inversion E; subst. apply Keep; [exact L | reflexivity |]. split; [exact Ns|]. simpl. split.
    + intros u Hu. apply in_app_or in Hu. destruct Hu as [Hu|[<-|[]]]; [apply Nd, Hu|].
      clear -F Nw. induction (ewait (get_ev sy e)) as [|[u b] l IH]; simpl in F; [discriminate|].
      destruct (Nat.eqb t u) eqn:Q.
      * apply Nat.eqb_eq in Q. subst. apply (Nw (u, b)). left. reflexivity.
      * apply IH; [exact F|]. intros p Hp. apply Nw. right. exact Hp.
    + intros p Hp. apply filter_In in Hp. apply Nw, Hp.
  - destruct (Nat.ltb e (length (sevs sy))) eqn:L; [|split; [exact N | intros e' r []]].
    apply Nat.ltb_lt in L.
    destruct (step_main clo eda g (get_ev sy e) (sw sy)) as [[ev' w'] rs] eqn:E. simpl.
    unfold step_main in E. destruct (N e L) as [Ns [Nd Nw]].
    destruct (eres (get_ev sy e)); [inversion E; subst; split; [apply (Keep e _ _ L eq_refl (N e L)) | intros e' r []]|].
    destruct (edonec (get_ev sy e)) as [|t rest] eqn:Hd;
      [inversion E; subst; split; [apply (Keep e _ _ L eq_refl (N e L)) | intros e' r []]|].
    set (roots := eroots (get_ev sy e)) in *.
    destruct (nd_main_cont clo eda g (needed g roots) (needed_dep g roots) (needed_phase g roots Hwf) roots
                _ _ _ _ _ (needed_root g roots Hwf) E eq_refl) as [N' [R' Er']].
    { split; [|split]; simpl.
      - apply nd_ret; [apply needed_dep | apply needed_phase, Hwf | exact Ns | apply Nd; left; reflexivity].
      - intros u Hu. apply Nd. right. exact Hu.
      - exact Nw. }
    split; [apply (Keep e _ _ L Er' N')|].
    intros e' r Hr. apply in_map_iff in Hr. destruct Hr as [x [Hx Hin]]. inversion Hx; subst. apply R', Hin.
Qed.

(* Every task handed to the executor by evaluation e is needed by e's roots. *)
Theorem needed_only_v st0 rootss sy l :
  reachable_v clo eda g (init_sys st0 rootss) sy ->
  forall e r, In (e, r) (snd (step_v clo eda g sy l)) -> needed g (eroots (get_ev sy e)) r.
Proof.
  intros R. apply nstep. induction R; [apply init_nsys_ok|]. apply nstep. exact IHR.
Qed.

End NeededSys.

Theorem needed_only eda g (Hwf : wf g) st0 rootss sy l :
  reachable eda g (init_sys st0 rootss) sy ->
  forall e r, In (e, r) (snd (step eda g sy l)) -> needed g (eroots (get_ev sy e)) r.
Proof. exact (needed_only_v (ver eda) eda g Hwf st0 rootss sy l). Qed.

(* C03 — lemmas about the scheduling state: sets, Enqueue, Return, Runnable. *)
From Coq Require Import List ZArith Bool Lia Arith.
Import ListNotations.
Require Import BS.C03.Model.

(* ------------------------------------------------------------------ sets and maps *)

Lemma mem_In x l : mem x l = true <-> In x l.
Proof.
  unfold mem. rewrite existsb_exists. split.
  - intros [y [Hy E]]. apply Nat.eqb_eq in E. subst. exact Hy.
  - intro H. exists x. split; [exact H | apply Nat.eqb_refl].
Qed.

Lemma mem_false x l : mem x l = false <-> ~ In x l.
Proof.
  rewrite <- mem_In. destruct (mem x l); split; intro H.
  - discriminate.
  - exfalso; apply H; reflexivity.
  - intro; discriminate.
  - reflexivity.
Qed.

Lemma set_add_In x y l : In y (set_add x l) <-> y = x \/ In y l.
Proof.
  unfold set_add. destruct (mem x l) eqn:E.
  - apply mem_In in E. split; [auto | intros [->|H]; assumption].
  - rewrite in_app_iff. simpl. split.
    + intros [H|[H|[]]]; auto.
    + intros [->|H]; auto.
Qed.

Lemma set_add_incl x l : incl l (set_add x l).
Proof. intros y H. apply set_add_In. auto. Qed.

Lemma set_rm_In x y l : In y (set_rm x l) <-> In y l /\ y <> x.
Proof.
  unfold set_rm. rewrite filter_In. split; intros [H1 H2]; split; auto.
  - apply negb_true_iff, Nat.eqb_neq in H2. auto.
  - apply negb_true_iff, Nat.eqb_neq. auto.
Qed.

Lemma upd_same {A} (f : nat -> A) k v : upd f k v k = v.
Proof. unfold upd. rewrite Nat.eqb_refl. reflexivity. Qed.

Lemma upd_other {A} (f : nat -> A) k v x : x <> k -> upd f k v x = f x.
Proof. unfold upd. intro H. apply Nat.eqb_neq in H. rewrite H. reflexivity. Qed.

Lemma is_nil_true {A} (l : list A) : is_nil l = true <-> l = [].
Proof. destruct l; simpl; split; intro; try reflexivity; discriminate. Qed.

Lemma st_eqb_eq a b : st_eqb a b = true <-> a = b.
Proof. destruct a, b; simpl; split; intro; try reflexivity; discriminate. Qed.

Lemma st_eqb_refl a : st_eqb a a = true.
Proof. destruct a; reflexivity. Qed.

(* ------------------------------------------------------------------ frame ("extension") facts *)

Definition busy (s : state) : Prop := stodo s <> [] \/ spending s <> [].

(* what every helper of Enqueue guarantees whatever its arguments *)
Record ext (s s' : state) : Prop := mkExt {
  ext_pending : spending s' = spending s;
  ext_err : serr s' = serr s;
  ext_todo : incl (stodo s) (stodo s');
  ext_wait : forall h, swait s h <> None -> swait s' h <> None;
  ext_oof : soof s = true -> soof s' = true }.

Lemma ext_refl s : ext s s.
Proof. constructor; auto. apply incl_refl. Qed.

Lemma ext_trans a b c : ext a b -> ext b c -> ext a c.
Proof.
  intros [p1 e1 t1 w1 o1] [p2 e2 t2 w2 o2]. constructor; try congruence; auto.
  eapply incl_tran; eassumption.
Qed.

Lemma ext_busy s s' : ext s s' -> busy s -> busy s'.
Proof.
  intros E [H|H].
  - left. intro N. destruct (stodo s) as [|x r] eqn:T; [congruence|].
    assert (In x (stodo s')) by (apply (ext_todo _ _ E); rewrite T; left; reflexivity).
    rewrite N in H0. exact H0.
  - right. rewrite (ext_pending _ _ E). exact H.
Qed.

Lemma ext_oof_false s s' : ext s s' -> soof s' = false -> soof s = false.
Proof.
  intros E H. destruct (soof s) eqn:O; [|reflexivity].
  rewrite (ext_oof _ _ E O) in H. discriminate.
Qed.

Lemma schedule_ext s t : ext s (schedule s t).
Proof.
  unfold schedule. destruct (mem t (spending s)); [apply ext_refl|].
  constructor; simpl; auto. apply set_add_incl.
Qed.

Lemma schedule_todo s t x :
  In x (stodo (schedule s t)) <-> In x (stodo s) \/ (x = t /\ ~ In t (spending s)).
Proof.
  unfold schedule. destruct (mem t (spending s)) eqn:E.
  - apply mem_In in E. split; [auto | intros [H|[_ H]]; [exact H | contradiction]].
  - apply mem_false in E. simpl. rewrite set_add_In. split.
    + intros [->|H]; auto.
    + intros [H|[-> _]]; auto.
Qed.

Lemma schedule_busy s t : busy (schedule s t).
Proof.
  unfold busy, schedule. destruct (mem t (spending s)) eqn:E.
  - right. apply mem_In in E. intro N. rewrite N in E. exact E.
  - left. simpl. intro N.
    assert (In t (set_add t (stodo s))) by (apply set_add_In; auto).
    rewrite N in H. exact H.
Qed.

Lemma schedule_fields s t :
  sdeps (schedule s t) = sdeps s /\ scounts (schedule s t) = scounts s /\
  spending (schedule s t) = spending s /\ swait (schedule s t) = swait s /\
  serr (schedule s t) = serr s /\ soof (schedule s t) = soof s.
Proof. unfold schedule. destruct (mem t (spending s)); simpl; repeat split. Qed.

Lemma clear_ext g s t : ext s (clear g s t).
Proof. constructor; simpl; auto. apply incl_refl. Qed.

Lemma add_ext s a b n : ext s (add s a b n).
Proof. unfold add. destruct (mem b (sdeps s a)); [apply ext_refl|]. constructor; simpl; auto. apply incl_refl. Qed.

Lemma add_fields s a b n :
  stodo (add s a b n) = stodo s /\ spending (add s a b n) = spending s /\
  swait (add s a b n) = swait s /\ serr (add s a b n) = serr s /\ soof (add s a b n) = soof s.
Proof. unfold add. destruct (mem b (sdeps s a)); simpl; repeat split. Qed.

Lemma set_wait_ext s t n : ext s (set_wait s t n).
Proof.
  constructor; simpl; auto. apply incl_refl.
  intros h H. unfold upd. destruct (Nat.eqb h t); [discriminate | exact H].
Qed.

Lemma set_oof_ext s : ext s (set_oof s).
Proof. constructor; simpl; auto. apply incl_refl. Qed.

(* ------------------------------------------------------------------ Enqueue: frame *)

Section Enqueue.
Variable eda : bool.
Variable g : list tnode.
Variable w : nat -> tstate.

Lemma enq_deps_ext rec u :
  (forall s d, ext s (fst (rec s d))) ->
  forall ds s ready, ext s (fst (enq_deps rec u ds s ready)).
Proof.
  intros Hrec. induction ds as [|d r IH]; intros s ready; simpl.
  - apply ext_refl.
  - specialize (Hrec s d). destruct (rec s d) as [s1 k]. simpl in Hrec.
    destruct k.
    + eapply ext_trans; [exact Hrec | apply IH].
    + eapply ext_trans; [exact Hrec |]. eapply ext_trans; [apply add_ext | apply IH].
Qed.

Lemma enq_phase_ext rec :
  (forall s d, ext s (fst (rec s d))) ->
  forall us s n, ext s (fst (enq_phase eda g w rec us s n)).
Proof.
  intros Hrec. induction us as [|u r IH]; intros s n; simpl.
  - apply ext_refl.
  - destruct (enq_class eda (w u)).
    + apply IH.
    + eapply ext_trans; [apply schedule_ext | apply IH].
    + pose proof (enq_deps_ext rec u Hrec (tdeps (node g u)) (clear g s u) true) as Hd.
      destruct (enq_deps rec u (tdeps (node g u)) (clear g s u) true) as [s1 ready]. simpl in Hd.
      eapply ext_trans; [apply clear_ext|]. eapply ext_trans; [exact Hd|].
      destruct ready.
      * eapply ext_trans; [apply schedule_ext | apply IH].
      * apply IH.
Qed.

Lemma enqueue_ext : forall fuel s t, ext s (fst (enqueue eda g w fuel s t)).
Proof.
  induction fuel as [|f IH]; intros s t; simpl.
  - destruct (swait s (head g t)); simpl; [apply ext_refl | apply set_oof_ext].
  - destruct (swait s (head g t)); simpl; [apply ext_refl|].
    pose proof (enq_phase_ext (enqueue eda g w f) IH (phase g t) s 0) as Hp.
    destruct (enq_phase eda g w (enqueue eda g w f) (phase g t) s 0) as [s1 n]. simpl in *.
    eapply ext_trans; [exact Hp | apply set_wait_ext].
Qed.

Lemma enqueue_all_ext : forall ts s, ext s (enqueue_all eda g w s ts).
Proof.
  unfold enqueue_all. induction ts as [|t r IH]; intro s; cbn [fold_left].
  - apply ext_refl.
  - eapply ext_trans; [apply enqueue_ext | apply IH].
Qed.

(* ------------------------------------------------------------------ Enqueue: what the memo means *)

(* phases are closed: the head's phase is the phase *)
Definition closed : Prop := forall t, phase g (head g t) = phase g t.

Definition all_done_l (l : list nat) : Prop := forall u, In u l -> enq_class eda (w u) = CDone.
Definition deps_done (u : nat) : Prop :=
  forall d, In d (tdeps (node g u)) -> all_done_l (phase g d).

Definition memo_ok (s : state) : Prop :=
  forall h n, swait s h = Some n -> (n = 0 <-> all_done_l (phase g h)) /\ (n <> 0 -> busy s).
(* whatever is in todo in a traversable state had all its dependencies done *)
Definition todo_ok (s : state) : Prop :=
  forall u, In u (stodo s) -> enq_class eda (w u) = CTrav -> deps_done u.

Definition inv (s : state) : Prop := memo_ok s /\ todo_ok s.

Lemma memo_ok_same_wait s s' :
  swait s' = swait s -> (busy s -> busy s') -> memo_ok s -> memo_ok s'.
Proof.
  intros Ew Hb M h n H. rewrite Ew in H. destruct (M h n H) as [A B]. split; auto.
Qed.

Lemma inv_schedule s u :
  inv s -> (enq_class eda (w u) = CTrav -> deps_done u) -> inv (schedule s u).
Proof.
  intros [M T] Hu. split.
  - apply (memo_ok_same_wait s); [apply schedule_fields | | exact M].
    apply ext_busy, schedule_ext.
  - intros x Hx Hc. apply schedule_todo in Hx. destruct Hx as [Hx|[-> _]]; auto.
Qed.

Lemma inv_add s a b n : inv s -> inv (add s a b n).
Proof.
  intros [M T]. destruct (add_fields s a b n) as [Et [Ep [Ew _]]]. split.
  - apply (memo_ok_same_wait s); [exact Ew | | exact M]. apply ext_busy, add_ext.
  - intros x Hx. rewrite Et in Hx. auto.
Qed.

Lemma inv_clear s t : inv s -> inv (clear g s t).
Proof.
  intros [M T]. split.
  - apply (memo_ok_same_wait s); [reflexivity | | exact M]. apply ext_busy, clear_ext.
  - exact T.
Qed.

(* the specification one recursive call must meet *)
Definition rec_spec (rec : state -> nat -> state * nat) : Prop :=
  forall s d s' k, rec s d = (s', k) -> inv s -> soof s' = false ->
    inv s' /\ (k = 0 <-> all_done_l (phase g d)) /\ (k <> 0 -> busy s') /\ swait s' (head g d) <> None.

Lemma enq_deps_spec rec u :
  (forall s d, ext s (fst (rec s d))) -> rec_spec rec ->
  forall ds s ready s' ready',
    enq_deps rec u ds s ready = (s', ready') -> inv s -> soof s' = false ->
    inv s' /\
    (ready' = true -> ready = true /\ forall d, In d ds -> all_done_l (phase g d)) /\
    (ready' = false -> ready = false \/ busy s').
Proof.
  intros Hext Hrec. induction ds as [|d r IH]; intros s ready s' ready' E I O; simpl in E.
  - inversion E; subst. split; [exact I|]. split.
    + intro; split; [assumption | intros d []].
    + intro; left; assumption.
  - destruct (rec s d) as [s1 k] eqn:R.
    assert (X1 : ext s s1) by (specialize (Hext s d); rewrite R in Hext; exact Hext).
    destruct k.
    + pose proof (enq_deps_ext rec u Hext r s1 ready) as X2. rewrite E in X2. simpl in X2.
      destruct (Hrec s d s1 0 R I (ext_oof_false _ _ X2 O)) as [I1 [K1 _]].
      destruct (IH s1 ready s' ready' E I1 O) as [I' [A B]]. split; [exact I'|]. split.
      * intro Hr. destruct (A Hr) as [A1 A2]. split; [exact A1|].
        intros d' [<-|Hd']; [apply K1; reflexivity | auto].
      * exact B.
    + pose proof (enq_deps_ext rec u Hext r (add s1 d u (S k)) false) as X2. rewrite E in X2. simpl in X2.
      assert (O1 : soof s1 = false).
      { eapply ext_oof_false; [apply add_ext|]. eapply ext_oof_false; [exact X2 | exact O]. }
      destruct (Hrec s d s1 (S k) R I O1) as [I1 [_ [B1 _]]].
      destruct (IH (add s1 d u (S k)) false s' ready' E (inv_add _ _ _ _ I1) O) as [I' [A B]].
      split; [exact I'|]. split.
      * intro Hr. destruct (A Hr) as [A1 _]. discriminate.
      * intros _. right. eapply ext_busy; [exact X2|]. eapply ext_busy; [apply add_ext|].
        apply B1. discriminate.
Qed.

Lemma enq_phase_spec rec :
  (forall s d, ext s (fst (rec s d))) -> rec_spec rec ->
  forall us s n s' n',
    enq_phase eda g w rec us s n = (s', n') -> inv s -> soof s' = false ->
    inv s' /\ n <= n' /\
    (n' = n <-> all_done_l us) /\ (n' <> n -> busy s').
Proof.
  intros Hext Hrec. induction us as [|u r IH]; intros s n s' n' E I O; simpl in E.
  - inversion E; subst. split; [exact I|]. split; [lia|]. split; [|intro; congruence].
    split; [intros _ x [] | reflexivity].
  - destruct (enq_class eda (w u)) eqn:C.
    + destruct (IH s n s' n' E I O) as [I' [L [A B]]]. split; [exact I'|]. split; [exact L|]. split; [|exact B].
      rewrite A. split.
      * intros H x [<-|Hx]; auto.
      * intros H x Hx. apply H. right. exact Hx.
    + assert (I1 : inv (schedule s u)) by (apply inv_schedule; [exact I | intro; congruence]).
      destruct (IH (schedule s u) (S n) s' n' E I1 O) as [I' [L [A B]]].
      split; [exact I'|]. split; [lia|]. split.
      * split; [intro; lia|]. intro H. specialize (H u (or_introl eq_refl)). congruence.
      * intros _. pose proof (enq_phase_ext rec Hext r (schedule s u) (S n)) as X. rewrite E in X.
        eapply ext_busy; [exact X | apply schedule_busy].
    + destruct (enq_deps rec u (tdeps (node g u)) (clear g s u) true) as [s1 ready] eqn:D.
      pose proof (enq_deps_ext rec u Hext (tdeps (node g u)) (clear g s u) true) as X1.
      rewrite D in X1. simpl in X1.
      set (s2 := if ready then schedule s1 u else s1) in *.
      assert (X2 : ext s1 s2) by (subst s2; destruct ready; [apply schedule_ext | apply ext_refl]).
      pose proof (enq_phase_ext rec Hext r s2 (S n)) as X3. rewrite E in X3. simpl in X3.
      assert (O1 : soof s1 = false).
      { eapply ext_oof_false; [exact X2|]. eapply ext_oof_false; [exact X3 | exact O]. }
      destruct (enq_deps_spec rec u Hext Hrec _ _ _ _ _ D (inv_clear _ _ I) O1) as [I1 [A1 B1]].
      assert (I2 : inv s2).
      { subst s2. destruct ready; [|exact I1]. apply inv_schedule; [exact I1|].
        intros _ d Hd. apply (proj2 (A1 eq_refl)). exact Hd. }
      destruct (IH s2 (S n) s' n' E I2 O) as [I' [L [A B]]].
      split; [exact I'|]. split; [lia|]. split.
      * split; [intro; lia|]. intro H. specialize (H u (or_introl eq_refl)). congruence.
      * intros _. eapply ext_busy; [exact X3|]. subst s2. destruct ready.
        -- apply schedule_busy.
        -- destruct (B1 eq_refl) as [F|Bz]; [discriminate | exact Bz].
Qed.

Hypothesis Hclosed : closed.

Lemma enqueue_spec : forall fuel, rec_spec (enqueue eda g w fuel).
Proof.
  induction fuel as [|f IH]; intros s t s' k E I O; simpl in E.
  - destruct (swait s (head g t)) as [n|] eqn:W.
    + inversion E; subst. split; [exact I|]. destruct (proj1 I _ _ W) as [A B].
      rewrite Hclosed in A. split; [exact A|]. split; [exact B | congruence].
    + inversion E; subst. simpl in O. discriminate.
  - destruct (swait s (head g t)) as [n|] eqn:W.
    + inversion E; subst. split; [exact I|]. destruct (proj1 I _ _ W) as [A B].
      rewrite Hclosed in A. split; [exact A|]. split; [exact B | congruence].
    + destruct (enq_phase eda g w (enqueue eda g w f) (phase g t) s 0) as [s1 n] eqn:P.
      inversion E; subst. clear E. simpl in O.
      destruct (enq_phase_spec _ (enqueue_ext f) IH _ _ _ _ _ P I O) as [[M1 T1] [_ [A B]]].
      split; [split|].
      * intros h m Hw. simpl in Hw. unfold upd in Hw. destruct (Nat.eqb h (head g t)) eqn:Eh.
        -- apply Nat.eqb_eq in Eh. subst h. inversion Hw; subst m. rewrite Hclosed.
           split; [exact A|]. intro Hn. eapply ext_busy; [apply set_wait_ext | apply B; exact Hn].
        -- destruct (M1 h m Hw) as [A' B']. split; [exact A'|].
           intro Hn. eapply ext_busy; [apply set_wait_ext | apply B'; exact Hn].
      * exact T1.
      * split; [exact A|]. split.
        -- intro Hn. eapply ext_busy; [apply set_wait_ext | apply B; exact Hn].
        -- simpl. rewrite upd_same. discriminate.
Qed.

Lemma enqueue_all_spec : forall ts s,
  inv s -> soof (enqueue_all eda g w s ts) = false ->
  inv (enqueue_all eda g w s ts) /\
  forall t, In t ts -> swait (enqueue_all eda g w s ts) (head g t) <> None.
Proof.
  unfold enqueue_all. induction ts as [|t r IH]; intros s I O; cbn [fold_left] in *.
  - split; [exact I | intros t []].
  - destruct (enqueue eda g w (fuel_of g) s t) as [s1 k] eqn:E. cbn [fst] in *.
    pose proof (enqueue_all_ext r s1) as X. unfold enqueue_all in X.
    destruct (enqueue_spec _ _ _ _ _ E I (ext_oof_false _ _ X O)) as [I1 [_ [_ W1]]].
    destruct (IH s1 I1 O) as [I' W']. split; [exact I'|].
    intros t' [<-|Ht']; [apply (ext_wait _ _ X); exact W1 | apply W'; exact Ht'].
Qed.

End Enqueue.

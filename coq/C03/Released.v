(* C03 — "released work starts at once", on the model (the judge check no. 9 of Corr.v
   had no theorem behind it).  Enqueue is complete as well as sound: from a cleared
   memo, a traversable task (INIT, or LOST) all of whose dependencies are done, and
   which is not pending already, IS put on the todo list — by one Enqueue, by the
   Enqueue of any task of its phase, and by the Return that released it. *)
From Coq Require Import List ZArith Bool Lia Arith.
Import ListNotations.
Require Import BS.Gen.C03_params BS.C03.Model BS.C03.Proofs BS.C03.Safety.

Section Released.
Variable eda : bool.
Variable g : list tnode.
Variable w : nat -> tstate.

(* with every dependency done, the dependency loop leaves [ready] as it was *)
Lemma enq_deps_ready rec u :
  (forall s d, ext s (fst (rec s d))) -> rec_spec eda g w rec ->
  forall ds s ready s' ready',
    enq_deps rec u ds s ready = (s', ready') -> inv eda g w s -> soof s' = false ->
    (forall d, In d ds -> all_done_l eda w (phase g d)) -> ready' = ready.
Proof.
  intros Hext Hrec. induction ds as [|d r IH]; intros s ready s' ready' E I O Hd; simpl in E.
  - inversion E; reflexivity.
  - destruct (rec s d) as [s1 k] eqn:R.
    assert (X2 : ext s1 s').
    { destruct k.
      - pose proof (enq_deps_ext rec u Hext r s1 ready) as X. rewrite E in X. exact X.
      - pose proof (enq_deps_ext rec u Hext r (add s1 d u (S k)) false) as X. rewrite E in X.
        eapply ext_trans; [apply add_ext | exact X]. }
    destruct (Hrec s d s1 k R I (ext_oof_false _ _ X2 O)) as [I1 [K1 _]].
    assert (k = 0) by (apply K1, Hd; left; reflexivity). subst k.
    apply (IH s1 ready s' ready' E I1 O). intros d' Hd'. apply Hd. right. exact Hd'.
Qed.

(* the phase loop schedules every traversable member whose dependencies are done *)
Lemma enq_phase_schedules rec u :
  (forall s d, ext s (fst (rec s d))) -> rec_spec eda g w rec ->
  enq_class eda (w u) = CTrav -> deps_done eda g w u ->
  forall us s n s' n',
    enq_phase eda g w rec us s n = (s', n') -> inv eda g w s -> soof s' = false ->
    In u us -> ~ In u (spending s) -> In u (stodo s').
Proof.
  intros Hext Hrec Cu Du. induction us as [|x r IH]; intros s n s' n' E I O Hin Hp; [destruct Hin|].
  pose proof (enq_phase_spec eda g w rec Hext Hrec [x] s n) as Hone.
  simpl in E. simpl in Hone.
  destruct (enq_class eda (w x)) eqn:C.
  - (* done: x <> u *)
    destruct Hin as [->|Hin]; [congruence|]. exact (IH _ _ _ _ E I O Hin Hp).
  - pose proof (enq_phase_ext eda g w rec Hext r (schedule s x) (S n)) as X. rewrite E in X. simpl in X.
    destruct (Hone _ _ eq_refl I (ext_oof_false _ _ X O)) as [I1 _].
    destruct Hin as [->|Hin].
    + apply (ext_todo _ _ X). apply schedule_todo. right. split; [reflexivity | exact Hp].
    + apply (IH _ _ _ _ E I1 O Hin). rewrite (ext_pending _ _ (schedule_ext s x)). exact Hp.
  - destruct (enq_deps rec x (tdeps (node g x)) (clear g s x) true) as [s1 ready] eqn:D.
    pose proof (enq_deps_ext rec x Hext (tdeps (node g x)) (clear g s x) true) as X1.
    rewrite D in X1. simpl in X1.
    set (s2 := if ready then schedule s1 x else s1) in *.
    assert (X2 : ext s1 s2) by (subst s2; destruct ready; [apply schedule_ext | apply ext_refl]).
    pose proof (enq_phase_ext eda g w rec Hext r s2 (S n)) as X3. rewrite E in X3. simpl in X3.
    assert (O2 : soof s2 = false) by (eapply ext_oof_false; [exact X3 | exact O]).
    assert (O1 : soof s1 = false) by (eapply ext_oof_false; [exact X2 | exact O2]).
    destruct (Hone _ _ eq_refl I O2) as [I2 _].
    assert (P2 : spending s2 = spending s).
    { rewrite (ext_pending _ _ X2), (ext_pending _ _ X1). apply (ext_pending _ _ (clear_ext g s x)). }
    destruct Hin as [->|Hin].
    + assert (ready = true).
      { apply (enq_deps_ready rec u Hext Hrec _ _ _ _ _ D (inv_clear eda g w _ _ I) O1). exact Du. }
      subst ready. apply (ext_todo _ _ X3). subst s2. apply schedule_todo. right.
      split; [reflexivity|]. rewrite (ext_pending _ _ X1). rewrite (ext_pending _ _ (clear_ext g s u)). exact Hp.
    + apply (IH _ _ _ _ E I2 O Hin). rewrite P2. exact Hp.
Qed.

Hypothesis Hclosed : closed g.

(* one Enqueue of any task [t] of u's phase, from a state whose memo does not cover the phase *)
Lemma enqueue_schedules fuel s t u s' k :
  enqueue eda g w fuel s t = (s', k) -> inv eda g w s -> soof s' = false ->
  swait s (head g t) = None ->
  In u (phase g t) -> enq_class eda (w u) = CTrav -> deps_done eda g w u ->
  ~ In u (spending s) -> In u (stodo s').
Proof.
  intros E I O W Hin Cu Du Hp. destruct fuel as [|f]; simpl in E; rewrite W in E.
  - inversion E; subst. simpl in O. discriminate.
  - destruct (enq_phase eda g w (enqueue eda g w f) (phase g t) s 0) as [s1 n] eqn:P.
    inversion E; subst. clear E. simpl in O. simpl.
    apply (enq_phase_schedules _ u (enqueue_ext eda g w f) (enqueue_spec eda g w Hclosed f) Cu Du _ _ _ _ _ P I O Hin Hp).
Qed.

End Released.

(* Return of a LOST task (eval.go: "case TaskLost: s.Enqueue(task)"): the task — and every
   traversable member of its phase whose dependencies are done — is back on the todo
   list when Return returns, so the evaluator's next Runnable hands it out: released
   work starts at once. *)
Theorem lost_task_rescheduled_at_once eda g w s t u :
  wf g -> soof s = false -> stodo s = [] ->
  ret_class (w t) = RLost ->
  In u (phase g t) -> enq_class eda (w u) = CTrav -> deps_done eda g w u ->
  (u = t \/ ~ In u (spending s)) ->
  In u (stodo (ret eda g w s t)).
Proof.
  intros Hwf O Et C Hin Cu Du Hp.
  pose proof (wf_closed g Hwf) as Hc.
  destruct Hwf as [_ [_ [_ [rk [Hb Hrk]]]]].
  unfold ret. rewrite C.
  set (s0 := mkS (sdeps s) (scounts s) (stodo s) (set_rm t (spending s)) (fun _ => None) (serr s) (soof s)).
  assert (I0 : inv eda g w s0) by (apply inv_empty; [exact Et | reflexivity]).
  pose proof (enqueue_top_no_oof eda g w rk Hrk Hb s0 t O) as O1.
  destruct (enqueue eda g w (fuel_of g) s0 t) as [s1 k] eqn:E. cbn [fst] in *.
  apply (enqueue_schedules eda g w Hc _ _ _ _ _ _ E I0 O1 eq_refl Hin Cu Du).
  simpl. rewrite set_rm_In. intros [H1 H2]. destruct Hp as [->|Hp]; [apply H2; reflexivity | exact (Hp H1)].
Qed.

(* ------------------------------------------------------------------ the OK release *)
(* Coverage invariant of the memo: whenever the memo covers a phase, every traversable
   member of it whose dependencies are done and which is not pending is on todo.  It
   holds for the cleared memo, every Enqueue preserves it, and an Enqueue leaves its
   own phase covered — so after Return's Enqueue of all released tasks each of them
   that is ready to run is on todo. *)
Section Cover.
Variable eda : bool.
Variable g : list tnode.
Variable w : nat -> tstate.
Hypothesis Hwf : wf g.

Definition cov (s : state) : Prop :=
  forall u, swait s (head g u) <> None -> enq_class eda (w u) = CTrav -> deps_done eda g w u ->
            ~ In u (spending s) -> In u (stodo s).

Lemma cov_mono s s' :
  ext s s' -> (forall h, swait s' h <> None -> swait s h <> None) -> cov s -> cov s'.
Proof.
  intros X Hm C u Hw Cu Du Hp. apply (ext_todo _ _ X). apply C; auto.
  rewrite <- (ext_pending _ _ X). exact Hp.
Qed.

Lemma cov_schedule s x : cov s -> cov (schedule s x).
Proof.
  apply cov_mono; [apply schedule_ext|]. intros h H.
  destruct (schedule_fields s x) as [_ [_ [_ [E _]]]]. rewrite E in H. exact H.
Qed.
Lemma cov_clear s x : cov s -> cov (clear g s x).
Proof. apply cov_mono; [apply clear_ext | intros h H; exact H]. Qed.
Lemma cov_add s a b n : cov s -> cov (add s a b n).
Proof.
  apply cov_mono; [apply add_ext|]. intros h H.
  destruct (add_fields s a b n) as [_ [_ [E _]]]. rewrite E in H. exact H.
Qed.

Definition rec_cov (rec : state -> nat -> state * nat) : Prop :=
  forall s d s' k, rec s d = (s', k) -> inv eda g w s -> cov s -> soof s' = false -> cov s'.

Lemma enq_deps_cov rec x :
  (forall s d, ext s (fst (rec s d))) -> rec_spec eda g w rec -> rec_cov rec ->
  forall ds s ready s' ready',
    enq_deps rec x ds s ready = (s', ready') -> inv eda g w s -> cov s -> soof s' = false -> cov s'.
Proof.
  intros Hext Hrec Hcov. induction ds as [|d r IH]; intros s ready s' ready' E I C O; simpl in E.
  - inversion E; subst. exact C.
  - destruct (rec s d) as [s1 k] eqn:R.
    assert (X2 : ext s1 s').
    { destruct k.
      - pose proof (enq_deps_ext rec x Hext r s1 ready) as X. rewrite E in X. exact X.
      - pose proof (enq_deps_ext rec x Hext r (add s1 d x (S k)) false) as X. rewrite E in X.
        eapply ext_trans; [apply add_ext | exact X]. }
    pose proof (ext_oof_false _ _ X2 O) as O1.
    destruct (Hrec s d s1 k R I O1) as [I1 _].
    pose proof (Hcov s d s1 k R I C O1) as C1.
    destruct k.
    + exact (IH _ _ _ _ E I1 C1 O).
    + exact (IH _ _ _ _ E (inv_add eda g w _ _ _ _ I1) (cov_add _ _ _ _ C1) O).
Qed.

Lemma enq_phase_cov rec :
  (forall s d, ext s (fst (rec s d))) -> rec_spec eda g w rec -> rec_cov rec ->
  forall us s n s' n',
    enq_phase eda g w rec us s n = (s', n') -> inv eda g w s -> cov s -> soof s' = false -> cov s'.
Proof.
  intros Hext Hrec Hcov. induction us as [|x r IH]; intros s n s' n' E I C O.
  - simpl in E. inversion E; subst. exact C.
  - pose proof (enq_phase_spec eda g w rec Hext Hrec [x] s n) as Hone.
    simpl in E. simpl in Hone.
    destruct (enq_class eda (w x)) eqn:Cx.
    + exact (IH _ _ _ _ E I C O).
    + pose proof (enq_phase_ext eda g w rec Hext r (schedule s x) (S n)) as X. rewrite E in X. simpl in X.
      destruct (Hone _ _ eq_refl I (ext_oof_false _ _ X O)) as [I1 _].
      exact (IH _ _ _ _ E I1 (cov_schedule _ _ C) O).
    + destruct (enq_deps rec x (tdeps (node g x)) (clear g s x) true) as [s1 ready] eqn:D.
      set (s2 := if ready then schedule s1 x else s1) in *.
      assert (X2 : ext s1 s2) by (subst s2; destruct ready; [apply schedule_ext | apply ext_refl]).
      pose proof (enq_phase_ext eda g w rec Hext r s2 (S n)) as X3. rewrite E in X3. simpl in X3.
      assert (O2 : soof s2 = false) by (eapply ext_oof_false; [exact X3 | exact O]).
      assert (O1 : soof s1 = false) by (eapply ext_oof_false; [exact X2 | exact O2]).
      destruct (Hone _ _ eq_refl I O2) as [I2 _].
      pose proof (enq_deps_cov rec x Hext Hrec Hcov _ _ _ _ _ D (inv_clear eda g w _ _ I) (cov_clear _ _ C) O1) as C1.
      assert (C2 : cov s2) by (subst s2; destruct ready; [apply cov_schedule; exact C1 | exact C1]).
      exact (IH _ _ _ _ E I2 C2 O).
Qed.

Lemma same_head_in_phase t u : head g u = head g t -> In u (phase g t).
Proof.
  intro H. pose proof (wf_closed g Hwf) as Hc. destruct Hwf as [H1 _].
  rewrite <- (Hc t), <- H, (Hc u). apply H1.
Qed.

Lemma enqueue_cov : forall fuel, rec_cov (enqueue eda g w fuel).
Proof.
  pose proof (wf_closed g Hwf) as Hc.
  induction fuel as [|f IH]; intros s t s' k E I C O; simpl in E.
  - destruct (swait s (head g t)) as [n|] eqn:W; inversion E; subst; [exact C|]. simpl in O. discriminate.
  - destruct (swait s (head g t)) as [n|] eqn:W; [inversion E; subst; exact C|].
    destruct (enq_phase eda g w (enqueue eda g w f) (phase g t) s 0) as [s1 n] eqn:P.
    inversion E; subst. clear E. simpl in O.
    pose proof (enq_phase_cov _ (enqueue_ext eda g w f) (enqueue_spec eda g w Hc f) IH _ _ _ _ _ P I C O) as C1.
    pose proof (enq_phase_ext eda g w _ (enqueue_ext eda g w f) (phase g t) s 0) as X. rewrite P in X. simpl in X.
    intros u Hw Cu Du Hp. simpl in *. unfold upd in Hw.
    destruct (Nat.eqb (head g u) (head g t)) eqn:Eh.
    + apply Nat.eqb_eq in Eh.
      apply (enq_phase_schedules eda g w _ u (enqueue_ext eda g w f) (enqueue_spec eda g w Hc f) Cu Du _ _ _ _ _ P I O).
      * apply same_head_in_phase. exact Eh.
      * rewrite <- (ext_pending _ _ X). exact Hp.
    + apply C1; auto.
Qed.

Lemma enqueue_all_cov : forall ts s,
  inv eda g w s -> cov s -> soof (enqueue_all eda g w s ts) = false -> cov (enqueue_all eda g w s ts).
Proof.
  pose proof (wf_closed g Hwf) as Hc.
  unfold enqueue_all. induction ts as [|t r IH]; intros s I C O; cbn [fold_left] in *; [exact C|].
  destruct (enqueue eda g w (fuel_of g) s t) as [s1 k] eqn:E. cbn [fst] in *.
  pose proof (enqueue_all_ext eda g w r s1) as X. unfold enqueue_all in X.
  pose proof (ext_oof_false _ _ X O) as O1.
  destruct (enqueue_spec eda g w Hc _ _ _ _ _ E I O1) as [I1 _].
  exact (IH s1 I1 (enqueue_cov _ _ _ _ _ E I C O1) O).
Qed.

End Cover.

(* what Return's "case TaskOk" computes before it enqueues: the tasks whose count of
   outstanding dependencies reaches zero with the completion of [t] (state.done) *)
Definition ret_ready (g : list tnode) (s : state) (t : nat) : list nat :=
  snd (done_op (mkS (sdeps s) (scounts s) (stodo s) (set_rm t (spending s)) (fun _ => None) (serr s) (soof s))
               (head g t)).

(* Return of an OK task: every task it releases that is traversable, has all its
   dependencies done and is not pending is on todo when Return returns. *)
Theorem released_by_ok_at_once eda g w s t u :
  wf g -> soof s = false -> stodo s = [] ->
  ret_class (w t) = ROk ->
  In u (ret_ready g s t) -> enq_class eda (w u) = CTrav -> deps_done eda g w u ->
  ~ In u (spending s) ->
  In u (stodo (ret eda g w s t)).
Proof.
  intros Hwf O Et C Hin Cu Du Hp.
  pose proof (wf_closed g Hwf) as Hc.
  pose proof Hwf as [_ [_ [_ [rk [Hb Hrk]]]]].
  unfold ret. rewrite C. unfold ret_ready in Hin.
  set (s0 := mkS (sdeps s) (scounts s) (stodo s) (set_rm t (spending s)) (fun _ => None) (serr s) (soof s)) in *.
  assert (I0 : inv eda g w s0) by (apply inv_empty; [exact Et | reflexivity]).
  pose proof (done_fold_fields (sdeps s0 (head g t)) s0 []) as F. unfold done_op in *.
  destruct (fold_left done_one (sdeps s0 (head g t)) (s0, [])) as [s1 ready]. simpl in F, Hin.
  destruct F as [_ [F1 [F2 [F3 [F4 F5]]]]].
  assert (I1 : inv eda g w s1) by (apply (inv_fields eda g w s0 s1); [exact F1 | exact F3 | exact F2 | exact I0]).
  assert (C1 : cov eda g w s1) by (intros x Hw; rewrite F3 in Hw; simpl in Hw; congruence).
  assert (O1 : soof (enqueue_all eda g w s1 ready) = false).
  { apply (enqueue_all_no_oof eda g w rk Hrk Hb). rewrite F5. exact O. }
  pose proof (enqueue_all_cov eda g w Hwf ready s1 I1 C1 O1) as C2.
  destruct (enqueue_all_spec eda g w Hc ready s1 I1 O1) as [_ W2].
  apply C2; auto.
  rewrite (ext_pending _ _ (enqueue_all_ext eda g w ready s1)), F2. simpl.
  rewrite set_rm_In. intros [H _]. exact (Hp H).
Qed.

(* C03 — "released work starts at once", on the model (the judge check no. 9 of Corr.v
   had no theorem behind it).  Enqueue is complete as well as sound: from a cleared
   memo, a traversable task (INIT, or LOST) all of whose dependencies are done, and
   which is not pending already, IS put on the todo list — by one Enqueue, by the
   Enqueue of any task of its phase, and by the Return that released it. *)
From Coq Require Import List ZArith Bool Lia Arith.
Import ListNotations.
Require Import BS.Gen.C03_params BS.C03.Model BS.C03.Proofs BS.C03.Safety.

Section Released.
Variable eda : bool.
Variable g : list tnode.
Variable w : nat -> tstate.

(* with every dependency done, the dependency loop leaves [ready] as it was *)
Lemma enq_deps_ready rec u :
  (forall s d, ext s (fst (rec s d))) -> rec_spec eda g w rec ->
  forall ds s ready s' ready',
    enq_deps rec u ds s ready = (s', ready') -> inv eda g w s -> soof s' = false ->
    (forall d, In d ds -> all_done_l eda w (phase g d)) -> ready' = ready.
Proof.
  intros Hext Hrec. induction ds as [|d r IH]; intros s ready s' ready' E I O Hd; simpl in E.
  - inversion E; reflexivity.
  - destruct (rec s d) as [s1 k] eqn:R.
    assert (X2 : ext s1 s').
    { destruct k.
      - pose proof (enq_deps_ext rec u Hext r s1 ready) as X. rewrite E in X. exact X.
      - pose proof (enq_deps_ext rec u Hext r (add s1 d u (S k)) false) as X. rewrite E in X.
        eapply ext_trans; [apply add_ext | exact X]. }
    destruct (Hrec s d s1 k R I (ext_oof_false _ _ X2 O)) as [I1 [K1 _]].
    assert (k = 0) by (apply K1, Hd; left; reflexivity). subst k.
    apply (IH s1 ready s' ready' E I1 O). intros d' Hd'. apply Hd. right. exact Hd'.
Qed.

(* the phase loop schedules every traversable member whose dependencies are done *)
Lemma enq_phase_schedules rec u :
  (forall s d, ext s (fst (rec s d))) -> rec_spec eda g w rec ->
  enq_class eda (w u) = CTrav -> deps_done eda g w u ->
  forall us s n s' n',
    enq_phase eda g w rec us s n = (s', n') -> inv eda g w s -> soof s' = false ->
    In u us -> ~ In u (spending s) -> In u (stodo s').
Proof.
  intros Hext Hrec Cu Du. induction us as [|x r IH]; intros s n s' n' E I O Hin Hp; [destruct Hin|].
  pose proof (enq_phase_spec eda g w rec Hext Hrec [x] s n) as Hone.
  simpl in E. simpl in Hone.
  destruct (enq_class eda (w x)) eqn:C.
  - (* done: x <> u *)
    destruct Hin as [->|Hin]; [congruence|]. exact (IH _ _ _ _ E I O Hin Hp).
  - pose proof (enq_phase_ext eda g w rec Hext r (schedule s x) (S n)) as X. rewrite E in X. simpl in X.
    destruct (Hone _ _ eq_refl I (ext_oof_false _ _ X O)) as [I1 _].
    destruct Hin as [->|Hin].
    + apply (ext_todo _ _ X). apply schedule_todo. right. split; [reflexivity | exact Hp].
    + apply (IH _ _ _ _ E I1 O Hin). rewrite (ext_pending _ _ (schedule_ext s x)). exact Hp.
  - destruct (enq_deps rec x (tdeps (node g x)) (clear g s x) true) as [s1 ready] eqn:D.
    pose proof (enq_deps_ext rec x Hext (tdeps (node g x)) (clear g s x) true) as X1.
    rewrite D in X1. simpl in X1.
    set (s2 := if ready then schedule s1 x else s1) in *.
    assert (X2 : ext s1 s2) by (subst s2; destruct ready; [apply schedule_ext | apply ext_refl]).
    pose proof (enq_phase_ext eda g w rec Hext r s2 (S n)) as X3. rewrite E in X3. simpl in X3.
    assert (O2 : soof s2 = false) by (eapply ext_oof_false; [exact X3 | exact O]).
    assert (O1 : soof s1 = false) by (eapply ext_oof_false; [exact X2 | exact O2]).
    destruct (Hone _ _ eq_refl I O2) as [I2 _].
    assert (P2 : spending s2 = spending s).
    { rewrite (ext_pending _ _ X2), (ext_pending _ _ X1). apply (ext_pending _ _ (clear_ext g s x)). }
    destruct Hin as [->|Hin].
    + assert (ready = true).
      { apply (enq_deps_ready rec u Hext Hrec _ _ _ _ _ D (inv_clear eda g w _ _ I) O1). exact Du. }
      subst ready. apply (ext_todo _ _ X3). subst s2. apply schedule_todo. right.
      split; [reflexivity|]. rewrite (ext_pending _ _ X1). rewrite (ext_pending _ _ (clear_ext g s u)). exact Hp.
    + apply (IH _ _ _ _ E I2 O Hin). rewrite P2. exact Hp.
Qed.

Hypothesis Hclosed : closed g.

(* one Enqueue of any task [t] of u's phase, from a state whose memo does not cover the phase *)
Lemma enqueue_schedules fuel s t u s' k :
  enqueue eda g w fuel s t = (s', k) -> inv eda g w s -> soof s' = false ->
  swait s (head g t) = None ->
  In u (phase g t) -> enq_class eda (w u) = CTrav -> deps_done eda g w u ->
  ~ In u (spending s) -> In u (stodo s').
Proof.
  intros E I O W Hin Cu Du Hp. destruct fuel as [|f]; simpl in E; rewrite W in E.
  - inversion E; subst. simpl in O. discriminate.
  - destruct (enq_phase eda g w (enqueue eda g w f) (phase g t) s 0) as [s1 n] eqn:P.
    inversion E; subst. clear E. simpl in O. simpl.
    apply (enq_phase_schedules _ u (enqueue_ext eda g w f) (enqueue_spec eda g w Hclosed f) Cu Du _ _ _ _ _ P I O Hin Hp).
Qed.

End Released.

(* Return of a LOST task (eval.go: "case TaskLost: s.Enqueue(task)"): the task — and every
   traversable member of its phase whose dependencies are done — is back on the todo
   list when Return returns, so the evaluator's next Runnable hands it out: released
   work starts at once. *)
Theorem lost_task_rescheduled_at_once eda g w s t u :
  wf g -> soof s = false -> stodo s = [] ->
  ret_class (w t) = RLost ->
  In u (phase g t) -> enq_class eda (w u) = CTrav -> deps_done eda g w u ->
  (u = t \/ ~ In u (spending s)) ->
  In u (stodo (ret eda g w s t)).
Proof.
  intros Hwf O Et C Hin Cu Du Hp.
  pose proof (wf_closed g Hwf) as Hc.
  destruct Hwf as [_ [_ [_ [rk [Hb Hrk]]]]].
  unfold ret. rewrite C.
  set (s0 := mkS (sdeps s) (scounts s) (stodo s) (set_rm t (spending s)) (fun _ => None) (serr s) (soof s)).
  assert (I0 : inv eda g w s0) by (apply inv_empty; [exact Et | reflexivity]).
  pose proof (enqueue_top_no_oof eda g w rk Hrk Hb s0 t O) as O1.
  destruct (enqueue eda g w (fuel_of g) s0 t) as [s1 k] eqn:E. cbn [fst] in *.
  apply (enqueue_schedules eda g w Hc _ _ _ _ _ _ E I0 O1 eq_refl Hin Cu Du).
  simpl. rewrite set_rm_In. intros [H1 H2]. destruct Hp as [->|Hp]; [apply H2; reflexivity | exact (Hp H1)].
Qed.

(* C03 — the loss accounting of Eval (0540c52) for ANY number of evaluations and
   all interleavings of their atomic steps: each lost run of a task is counted
   exactly once, the max_consecutive_lost-th consecutive loss puts the task in
   ERR and every evaluation awaiting it reports an error, fewer losses are
   resubmitted with exactly one hand-out. *)
From Coq Require Import List ZArith Bool Lia Arith.
Import ListNotations.
Require Import BS.Gen.C03_params BS.C03.Model BS.C03.Proofs BS.C03.Safety BS.C03.Theorems
               BS.C03.Lockstep BS.C03.Progress.

(* ------------------------------------------------------------------ frame facts of Return and of the main loop *)

Section Track.
Variable clo : bool.
Variable eda : bool.
Variable g : list tnode.

Lemma ret_frame w s u :
  spending (ret eda g w s u) = set_rm u (spending s) /\
  (serr s = true -> serr (ret eda g w s u) = true) /\
  (forall x, In x (stodo s) -> In x (stodo (ret eda g w s u))).
Proof.
  unfold ret.
  set (s0 := mkS (sdeps s) (scounts s) (stodo s) (set_rm u (spending s)) (fun _ => None) (serr s) (soof s)).
  destruct (ret_class (w u)).
  - pose proof (schedule_ext s0 u) as X. split; [apply (ext_pending _ _ X)|].
    split; [intro H; rewrite (ext_err _ _ X); exact H | apply (ext_todo _ _ X)].
  - simpl. split; [reflexivity|]. split; auto.
  - pose proof (done_fold_fields (sdeps s0 (head g u)) s0 []) as F. unfold done_op.
    destruct (fold_left done_one (sdeps s0 (head g u)) (s0, [])) as [s1 ready]. simpl in F.
    destruct F as [_ [F1 [F2 [_ [F4 _]]]]].
    pose proof (enqueue_all_ext eda g w ready s1) as X.
    split; [rewrite (ext_pending _ _ X); exact F2|].
    split; [intro H; rewrite (ext_err _ _ X), F4; exact H|].
    intros x Hx. apply (ext_todo _ _ X). rewrite F1. exact Hx.
  - pose proof (enqueue_ext eda g w (fuel_of g) s0 u) as X.
    split; [apply (ext_pending _ _ X)|].
    split; [intro H; rewrite (ext_err _ _ X); exact H | apply (ext_todo _ _ X)].
Qed.

(* the evaluation keeps track of t: it has failed, or t is pending / about to be dispatched *)
Definition tracks (t : nat) (s : state) : Prop :=
  serr s = true \/ In t (spending s) \/ In t (stodo s).
Definition tracked (t : nat) (ev : evaluator) : Prop :=
  eres ev = Some true \/ (eres ev = None /\ tracks t (est ev)).

Lemma tracks_ext t s s' : ext s s' -> tracks t s -> tracks t s'.
Proof.
  intros X [H|[H|H]].
  - left. rewrite (ext_err _ _ X). exact H.
  - right. left. rewrite (ext_pending _ _ X). exact H.
  - right. right. apply (ext_todo _ _ X), H.
Qed.

Lemma tracks_runnable t s : tracks t s -> tracks t (snd (runnable s)).
Proof.
  destruct (runnable_fields s) as [_ [_ [Fe [_ [_ [_ Fp]]]]]].
  intros [H|[H|H]]; [left; rewrite Fe; exact H | right; left; apply Fp; left; exact H | right; left; apply Fp; right; exact H].
Qed.

Lemma main_top_tracked t : forall k ev w acc ev' w' runs,
  main_top clo eda g k ev w acc = (ev', w', runs) ->
  eres ev = None -> tracks t (est ev) -> tracked t ev'.
Proof.
  induction k as [|k IH]; intros ev w acc ev' w' runs E Hr T; simpl in E.
  - inversion E; subst. right. split; [exact Hr|]. simpl.
    destruct T as [H|[H|H]]; [left | right; left | right; right]; exact H.
  - set (s1 := enqueue_all eda g (wst w) (est ev) (eroots ev)) in *.
    assert (T1 : tracks t s1) by (apply (tracks_ext t (est ev)); [apply enqueue_all_ext | exact T]).
    destruct (sdone s1) eqn:D.
    + inversion E; subst. simpl. unfold sdone in D. destruct (serr s1) eqn:Se; [left; reflexivity|].
      exfalso. simpl in D. apply andb_true_iff in D. destruct D as [D1 D2]. apply is_nil_true in D1, D2.
      destruct T1 as [H|[H|H]]; [congruence | rewrite D2 in H; exact H | rewrite D1 in H; exact H].
    + destruct (is_nil (stodo s1)).
      * inversion E; subst. right. split; [exact Hr | exact T1].
      * destruct (dispatch clo (set_est ev s1) w) as [[ev1 w1] runs1] eqn:Dp.
        destruct (dispatch_spec _ _ _ _ _ _ Dp) as [_ [_ [Es [_ [_ [_ [Ee _]]]]]]]. simpl in Es, Ee.
        apply (IH ev1 w1 (acc ++ runs1) ev' w' runs E); [congruence|]. rewrite Es. apply tracks_runnable, T1.
Qed.

Lemma main_cont_tracked t ev w ev' w' runs :
  main_cont clo eda g ev w = (ev', w', runs) ->
  eres ev = None -> tracks t (est ev) -> tracked t ev'.
Proof.
  unfold main_cont. intros E Hr T.
  destruct (negb (sdone (est ev)) && is_nil (stodo (est ev))).
  - inversion E; subst. right. split; assumption.
  - destruct (dispatch clo ev w) as [[ev1 w1] runs1] eqn:Dp.
    destruct (dispatch_spec _ _ _ _ _ _ Dp) as [_ [_ [Es [_ [_ [_ [Ee _]]]]]]].
    apply (main_top_tracked t _ _ _ _ _ _ _ E); [congruence|]. rewrite Es. apply tracks_runnable, T.
Qed.

(* started evaluations stay started *)
Lemma main_top_started : forall k ev w acc ev' w' runs,
  main_top clo eda g k ev w acc = (ev', w', runs) -> estarted ev = true -> estarted ev' = true.
Proof.
  induction k as [|k IH]; intros ev w acc ev' w' runs E Hs; simpl in E.
  - inversion E; subst. exact Hs.
  - destruct (sdone _); [inversion E; subst; reflexivity|].
    destruct (is_nil _); [inversion E; subst; exact Hs|].
    destruct (dispatch clo _ w) as [[ev1 w1] runs1] eqn:Dp.
    destruct (dispatch_spec _ _ _ _ _ _ Dp) as [_ [_ [_ [_ [Est _]]]]]. simpl in Est.
    apply (IH _ _ _ _ _ _ E). congruence.
Qed.

Lemma step_started sy l e :
  estarted (get_ev sy e) = true -> estarted (get_ev (fst (step_v clo eda g sy l)) e) = true.
Proof.
  intro Hs.
  assert (Keep : forall e0 ev' w', estarted ev' = true \/ e0 <> e ->
            estarted (get_ev (mkSys w' (set_nth (sevs sy) e0 ev')) e) = true).
  { intros e0 ev' w' H. unfold get_ev in *. simpl.
    destruct (Nat.eq_dec e0 e) as [->|Ne].
    - destruct (Nat.lt_ge_cases e (length (sevs sy))) as [L|L].
      + rewrite nth_set_nth_same by exact L. destruct H as [H|H]; [exact H | congruence].
      + rewrite nth_overflow by (rewrite set_nth_length; exact L). reflexivity.
    - rewrite nth_set_nth_other by exact Ne. exact Hs. }
  destruct l as [t s|e0|e0 t|e0]; simpl.
  - exact Hs.
  - destruct (Nat.ltb e0 (length (sevs sy))); [|exact Hs].
    destruct (step_start clo eda g (get_ev sy e0) (sw sy)) as [[ev' w'] rs] eqn:E. simpl.
    apply Keep. unfold step_start in E. destruct (estarted (get_ev sy e0)) eqn:S0.
    + inversion E; subst. left. exact S0.
    + left. apply (main_top_started _ _ _ _ _ _ _ E). reflexivity.
  - destruct (Nat.ltb e0 (length (sevs sy))); [|exact Hs].
    destruct (step_wait clo (get_ev sy e0) (sw sy) t) as [ev' w'] eqn:E. simpl.
    apply Keep. destruct (Nat.eq_dec e0 e) as [->|Ne]; [left | right; exact Ne].
    unfold step_wait in E. destruct (eres (get_ev sy e)); [inversion E; subst; exact Hs|].
    destruct (find_waiter t (ewait (get_ev sy e))); [|inversion E; subst; exact Hs].
    destruct (ge_ok _); inversion E; subst; exact Hs.
  - destruct (Nat.ltb e0 (length (sevs sy))); [|exact Hs].
    destruct (step_main clo eda g (get_ev sy e0) (sw sy)) as [[ev' w'] rs] eqn:E. simpl.
    apply Keep. destruct (Nat.eq_dec e0 e) as [->|Ne]; [left | right; exact Ne].
    unfold step_main in E. destruct (eres (get_ev sy e)); [inversion E; subst; exact Hs|].
    destruct (edonec (get_ev sy e)); [inversion E; subst; exact Hs|].
    unfold main_cont in E. cbn [est] in E.
    destruct (negb _ && _); [inversion E; subst; exact Hs|].
    destruct (dispatch clo _ (sw sy)) as [[ev1 w1] runs1] eqn:Dp.
    destruct (dispatch_spec _ _ _ _ _ _ Dp) as [_ [_ [_ [_ [Est _]]]]]. simpl in Est.
    apply (main_top_started _ _ _ _ _ _ _ E). congruence.
Qed.

End Track.

(* ------------------------------------------------------------------ Return of a watched task *)

Lemma ret_lost_sched eda g (Hwf : wf g) w s t :
  soof s = false -> stodo s = [] -> w t = TLost -> deps_done eda g w t ->
  In t (stodo (ret eda g w s t)).
Proof.
  intros O Et Ht Hd. pose proof (wf_closed g Hwf) as Hcl. destruct Hwf as [H1 [_ [_ [rk [Hb Hrk]]]]].
  unfold ret. rewrite Ht. cbn [ret_class].
  set (s0 := mkS (sdeps s) (scounts s) (stodo s) (set_rm t (spending s)) (fun _ => None) (serr s) (soof s)).
  assert (I0 : inv eda g w s0) by (apply inv_empty; [exact Et | reflexivity]).
  pose proof (enqueue_top_no_oof eda g w rk Hrk Hb s0 t O) as O1.
  destruct (enqueue eda g w (fuel_of g) s0 t) as [s1 n] eqn:E. cbn [fst] in *.
  apply (enqueue_sched eda g w Hcl s0 t s1 n E I0 O1 eq_refl t (H1 t)); [rewrite Ht; destruct eda; reflexivity | exact Hd|].
  simpl. intro X. apply set_rm_In in X. destruct X as [_ X]. apply X. reflexivity.
Qed.

Lemma ret_err eda g w s t : w t = TErr -> serr (ret eda g w s t) = true.
Proof. intro H. unfold ret. rewrite H. reflexivity. Qed.

Lemma ret_handed_sched eda g w s t : handed (w t) -> In t (stodo (ret eda g w s t)).
Proof.
  intro H. unfold ret.
  assert (C : ret_class (w t) = RDefault) by (destruct H as [X|X]; rewrite X; reflexivity).
  rewrite C. apply schedule_todo. right. split; [reflexivity|]. simpl.
  intro X. apply set_rm_In in X. destruct X as [_ X]. apply X. reflexivity.
Qed.

(* ------------------------------------------------------------------ the accounting of one task, step by step *)

(* what the runner's waiter does to a task's (state, consecutiveLost, lossUncounted) *)
Inductive wchg : tstate * Z * bool -> tstate * Z * bool -> Prop :=
| wc_id v : wchg v v
| wc_ok c l : wchg (TOk, c, l) (TOk, 0%Z, false)
| wc_cnt c : (c + 1 < max_consecutive_lost)%Z -> wchg (TLost, c, true) (TLost, (c + 1)%Z, false)
| wc_err c : (c + 1 >= max_consecutive_lost)%Z -> wchg (TLost, c, true) (TErr, (c + 1)%Z, false).

Lemma bookkeep_tv w u t : wchg (tv w t) (tv (bookkeep true w u) t).
Proof.
  unfold bookkeep. destruct (wst w u) eqn:Su; try apply wc_id.
  - (* OK *)
    destruct (Nat.eq_dec t u) as [->|Ne].
    + unfold tv. cbn [wst wcl wlu]. rewrite !upd_same, Su. apply wc_ok.
    + unfold tv. cbn [wst wcl wlu]. rewrite !upd_other by exact Ne. apply wc_id.
  - (* LOST *)
    destruct (count_lost_tv w u) as [C1 [C2 [C3 C4]]].
    destruct (Nat.eq_dec t u) as [->|Ne]; [|rewrite (C1 t Ne); apply wc_id].
    destruct (wlu w u) eqn:L; [|rewrite (C2 eq_refl); apply wc_id].
    destruct (Z_lt_ge_dec (wcl w u + 1) max_consecutive_lost) as [Lt|Ge].
    + rewrite (C4 eq_refl Lt). unfold tv. rewrite Su, L. apply wc_cnt, Lt.
    + rewrite (C3 eq_refl Ge). unfold tv. rewrite Su, L. apply wc_err, Ge.
Qed.

Definition ev_label (l : label) : Prop := match l with LSet _ _ => False | _ => True end.

Lemma ev_label_legal l : ev_label l -> legal_label l.
Proof. destruct l; simpl; auto. intros []. Qed.

Section Acct.
Variable g : list tnode.
Hypothesis Hwf : wf g.

Local Notation Hver := (fun (_ : true = true) => @eq_refl bool false).

(* one evaluator step in a reachable state: either a main loop ([wstep]) or a waiter ([wchg]) *)
Lemma ev_step_world sy l :
  sys_ok sy -> ev_label l ->
  (exists rs, wstep true (sw sy) (sw (fst (step_v true false g sy l))) rs /\
              map snd (snd (step_v true false g sy l)) = rs) \/
  (snd (step_v true false g sy l) = [] /\
   forall t, wchg (tv (sw sy) t) (tv (sw (fst (step_v true false g sy l))) t)).
Proof.
  intros Hok Hl.
  pose proof (step_spec true false Hver g Hwf sy l Hok (ev_label_legal l Hl)) as F.
  destruct l as [t s|e|e u|e]; [destruct Hl | | |].
  - left. apply (sf_main _ _ _ _ _ _ _ F); intros; discriminate.
  - right. simpl. destruct (Nat.ltb e (length (sevs sy))); [|split; [reflexivity | intro; apply wc_id]].
    destruct (step_wait true (get_ev sy e) (sw sy) u) as [ev' w'] eqn:E. simpl. split; [reflexivity|].
    unfold step_wait in E. destruct (eres (get_ev sy e)); [inversion E; subst; intro; apply wc_id|].
    destruct (find_waiter u (ewait (get_ev sy e))) as [r|]; [|inversion E; subst; intro; apply wc_id].
    destruct (ge_ok (wst (sw sy) u)); [|inversion E; subst; intro; apply wc_id].
    inversion E; subst. intro t. destruct r; [apply bookkeep_tv | apply wc_id].
  - left. apply (sf_main _ _ _ _ _ _ _ F); intros; discriminate.
Qed.

Definition cnt (t : nat) (runs : list (nat * nat)) : nat :=
  length (filter (fun p => Nat.eqb (snd p) t) runs).

Lemma cnt_app t a b : cnt t (a ++ b) = cnt t a + cnt t b.
Proof. unfold cnt. rewrite filter_app, app_length. reflexivity. Qed.

Lemma cnt_mem t runs : NoDup (map snd runs) -> cnt t runs = if mem t (map snd runs) then 1 else 0.
Proof.
  unfold cnt. induction runs as [|[e r] l IH]; intro N; [reflexivity|]. simpl in *.
  inversion N as [|x xs Nx Nl]; subst. specialize (IH Nl).
  destruct (Nat.eqb r t) eqn:Q.
  - apply Nat.eqb_eq in Q. subst r. simpl. rewrite Nat.eqb_refl. simpl. rewrite IH.
    destruct (mem t (map snd l)) eqn:M; [apply mem_In in M; contradiction | reflexivity].
  - rewrite IH. unfold mem at 2. simpl. rewrite Nat.eqb_sym, Q. reflexivity.
Qed.

Definition acct_props (s : tstate) (c : Z) (l : bool) (s' : tstate) (c' : Z) (l' : bool) (em : bool) : Prop :=
  (c' = c \/ c' = 0%Z \/ (c' = (c + 1)%Z /\ l = true /\ (l' = false \/ em = true))) /\
  (l' = true -> l = true \/ em = true) /\
  (em = true -> l' = true /\ (l = true -> s = TLost -> c' = (c + 1)%Z)) /\
  ((c < max_consecutive_lost)%Z -> (c' >= max_consecutive_lost)%Z -> s' = TErr /\ em = false).

Lemma tchg_props s c l s' c' l' em : tchg true (s, c, l) (s', c', l') em -> acct_props s c l s' c' l' em.
Proof.
  intro A. unfold acct_props. inversion A; subst.
  - intuition (auto; try lia; try congruence).
  - intuition (auto; try lia; try congruence).
  - discriminate.
  - intuition (auto; try lia; try congruence).
  - intuition (auto; try lia; try congruence).
  - intuition (auto; try lia; try congruence).
Qed.

Lemma wchg_props s c l s' c' l' : wchg (s, c, l) (s', c', l') -> acct_props s c l s' c' l' false.
Proof.
  intro A. assert (Mp : (0 < max_consecutive_lost)%Z) by reflexivity.
  unfold acct_props. inversion A; subst; intuition (auto; try lia; try congruence).
Qed.

(* no loss is counted twice, none is skipped, and the max-th puts the task in ERR:
   in every reachable state, for every step of whichever evaluation and every task *)
Theorem loss_counted_once st0 rootss sy l t :
  reachable_v true false g (init_sys st0 rootss) sy -> legal_label l ->
  let sy' := fst (step_v true false g sy l) in
  let runs := snd (step_v true false g sy l) in
  (* consecutiveLost is left alone, reset, or incremented by one - the latter
     consumes lossUncounted (which the same step raises again if it resubmits the task) *)
  (wcl (sw sy') t = wcl (sw sy) t \/ wcl (sw sy') t = 0%Z \/
   (wcl (sw sy') t = (wcl (sw sy) t + 1)%Z /\ wlu (sw sy) t = true /\
    (wlu (sw sy') t = false \/ exists e, In (e, t) runs))) /\
  (* lossUncounted is raised only by a hand-out of the task *)
  (wlu (sw sy') t = true -> wlu (sw sy) t = true \/ exists e, In (e, t) runs) /\
  (* a hand-out raises it, and finds it lowered or lowers it itself, counting the loss *)
  (forall e, In (e, t) runs ->
     wlu (sw sy') t = true /\
     (wlu (sw sy) t = true -> wst (sw sy) t = TLost -> wcl (sw sy') t = (wcl (sw sy) t + 1)%Z)) /\
  (* the count that reaches the limit puts the task in ERR and hands nothing out *)
  ((wcl (sw sy) t < max_consecutive_lost)%Z -> (wcl (sw sy') t >= max_consecutive_lost)%Z ->
     wst (sw sy') t = TErr /\ forall e, ~ In (e, t) runs).
Proof.
  intros R Hl sy' runs.
  pose proof (reachable_ok true false Hver g Hwf _ _ (init_sys_ok st0 rootss) R) as Hok.
  assert (P : exists em, acct_props (wst (sw sy) t) (wcl (sw sy) t) (wlu (sw sy) t)
                                    (wst (sw sy') t) (wcl (sw sy') t) (wlu (sw sy') t) em /\
                         (forall e, In (e, t) runs -> em = true) /\
                         (em = true -> exists e, In (e, t) runs)).
  { subst sy' runs. destruct l as [u s|e|e u|e].
    - exists false. simpl. split; [|split; [intros e [] | discriminate]].
      unfold acct_props. repeat split; intros; auto; try lia; try congruence.
    - destruct (ev_step_world sy (LStart e) Hok I) as [[rs [W E]]|[E Wc]].
      + exists (mem t rs). destruct W as [_ A]. split; [apply tchg_props, A|]. split.
        * intros e0 H. apply mem_In. rewrite <- E. apply in_map_iff. exists (e0, t). split; [reflexivity | exact H].
        * intro M. apply mem_In in M. rewrite <- E in M. apply in_map_iff in M. destruct M as [[e0 x] [Hx Hin]].
          simpl in Hx. subst x. exists e0. exact Hin.
      + exists false. split; [apply wchg_props, Wc|]. rewrite E. split; [intros e0 [] | discriminate].
    - destruct (ev_step_world sy (LWait e u) Hok I) as [[rs [W E]]|[E Wc]].
      + exists (mem t rs). destruct W as [_ A]. split; [apply tchg_props, A|]. split.
        * intros e0 H. apply mem_In. rewrite <- E. apply in_map_iff. exists (e0, t). split; [reflexivity | exact H].
        * intro M. apply mem_In in M. rewrite <- E in M. apply in_map_iff in M. destruct M as [[e0 x] [Hx Hin]].
          simpl in Hx. subst x. exists e0. exact Hin.
      + exists false. split; [apply wchg_props, Wc|]. rewrite E. split; [intros e0 [] | discriminate].
    - destruct (ev_step_world sy (LMain e) Hok I) as [[rs [W E]]|[E Wc]].
      + exists (mem t rs). destruct W as [_ A]. split; [apply tchg_props, A|]. split.
        * intros e0 H. apply mem_In. rewrite <- E. apply in_map_iff. exists (e0, t). split; [reflexivity | exact H].
        * intro M. apply mem_In in M. rewrite <- E in M. apply in_map_iff in M. destruct M as [[e0 x] [Hx Hin]].
          simpl in Hx. subst x. exists e0. exact Hin.
      + exists false. split; [apply wchg_props, Wc|]. rewrite E. split; [intros e0 [] | discriminate]. }
  destruct P as [em [[P1 [P2 [P3 P4]]] [In1 In2]]].
  split.
  { destruct P1 as [X|[X|[X [Y Z]]]]; [left; exact X | right; left; exact X|].
    right. right. split; [exact X|]. split; [exact Y|].
    destruct Z as [Z|Z]; [left; exact Z | right; apply In2, Z]. }
  split.
  - intro H. destruct (P2 H) as [X|X]; [left; exact X | right; apply In2, X].
  - split.
    + intros e H. apply P3, (In1 e H).
    + intros A B. destruct (P4 A B) as [X Y]. split; [exact X|]. intros e H. rewrite (In1 e H) in Y. discriminate.
Qed.

End Acct.

(* ------------------------------------------------------------------ one loss of a handed-out task, any number of evaluations, any schedule *)

Section Phase.
Variable g : list tnode.
Hypothesis Hwf : wf g.
Variable st0 : nat -> tstate.
Variable rootss : list (list nat).
Variable t : nat.      (* the task that is lost *)
Variable c0 : Z.       (* its consecutiveLost before the loss *)
Variable W : nat -> Prop.   (* the evaluations awaiting it *)

Local Notation Hver := (fun (_ : true = true) => @eq_refl bool false).
Local Notation stepv := (step_v true false g).
Local Notation execv := (exec_v true false g).
Local Notation reach := (reachable_v true false g (init_sys st0 rootss)).

(* where the accounting of this loss stands, and how often t was handed out since *)
Inductive acct : tstate * Z * bool -> nat -> Prop :=
| ac_lost : acct (TLost, c0, true) 0
| ac_counted : (c0 + 1 < max_consecutive_lost)%Z -> acct (TLost, (c0 + 1)%Z, false) 0
| ac_err : (c0 + 1 >= max_consecutive_lost)%Z -> acct (TErr, (c0 + 1)%Z, false) 0
| ac_resub s : handed s -> (c0 + 1 < max_consecutive_lost)%Z -> acct (s, (c0 + 1)%Z, true) 1.

Record PH (sy : sys) (n : nat) : Prop := mkPH {
  ph_reach : reach sy;
  ph_acct : acct (tv (sw sy) t) n;
  ph_B : forall e, W e ->
         tracked t (get_ev sy e) /\ estarted (get_ev sy e) = true /\ e < length (sevs sy);
  ph_deps : deps_done false g (wst (sw sy)) t }.

Lemma acct_tchg a b em n : tchg true a b em -> acct a n -> acct b (n + if em then 1 else 0).
Proof.
  intros A Ac. destruct Ac as [|Lt|Ge|s Hs Lt]; inversion A; subst; simpl;
    try discriminate;
    try (exfalso; destruct Hs; discriminate).
  - apply ac_lost.
  - apply (ac_resub TWaiting); [left; reflexivity | assumption].
  - apply ac_err. assumption.
  - apply ac_counted. assumption.
  - apply (ac_resub TWaiting); [left; reflexivity | assumption].
  - apply ac_err. assumption.
  - apply ac_resub; assumption.
Qed.

Lemma acct_wstep w w' rs n :
  wstep true w w' rs -> acct (tv w t) n -> acct (tv w' t) (n + if mem t rs then 1 else 0).
Proof. intros [_ A] Ac. apply (acct_tchg _ _ _ _ (A t) Ac). Qed.

Lemma acct_wchg w w' n :
  wchg (tv w t) (tv w' t) -> acct (tv w t) n -> acct (tv w' t) n.
Proof.
  intros A Ac. destruct (tv w t) as [[s c] l]. destruct (tv w' t) as [[s' c'] l'].
  destruct Ac as [|Lt|Ge|s0 Hs Lt]; inversion A; subst;
    try discriminate; try (exfalso; destruct Hs; discriminate).
  - apply ac_lost.
  - apply ac_counted. assumption.
  - apply ac_err. assumption.
  - apply ac_counted. assumption.
  - apply ac_err. assumption.
  - apply ac_resub; assumption.
Qed.

Lemma wchg_ok w w' u : wchg (tv w u) (tv w' u) -> (wst w u = TOk <-> wst w' u = TOk).
Proof.
  unfold tv. intro A. inversion A; subst; split; congruence.
Qed.

Lemma get_ev_set_other sy e e' ev' w' : e <> e' ->
  get_ev (mkSys w' (set_nth (sevs sy) e ev')) e' = get_ev sy e'.
Proof. intro Ne. unfold get_ev. simpl. apply nth_set_nth_other. exact Ne. Qed.

Lemma get_ev_set_same sy e ev' w' : e < length (sevs sy) ->
  get_ev (mkSys w' (set_nth (sevs sy) e ev')) e = ev'.
Proof. intro L. unfold get_ev. simpl. apply nth_set_nth_same. exact L. Qed.

Lemma step_length sy l : length (sevs (fst (stepv sy l))) = length (sevs sy).
Proof.
  destruct l as [u s|e|e u|e]; simpl; try reflexivity;
    destruct (Nat.ltb e (length (sevs sy))); try reflexivity.
  - destruct (step_start true false g (get_ev sy e) (sw sy)) as [[a b] c]. simpl. apply set_nth_length.
  - destruct (step_wait true (get_ev sy e) (sw sy) u) as [a b]. simpl. apply set_nth_length.
  - destruct (step_main true false g (get_ev sy e) (sw sy)) as [[a b] c]. simpl. apply set_nth_length.
Qed.

(* the evaluation e keeps track of t across one step *)
Lemma tracked_step sy n l e :
  PH sy n -> ev_label l -> W e -> tracked t (get_ev (fst (stepv sy l)) e).
Proof.
  intros P Hl He. destruct (ph_B sy n P e He) as [T [St L]].
  pose proof (reachable_ok true false Hver g Hwf _ _ (init_sys_ok st0 rootss) (ph_reach sy n P)) as Hok.
  destruct l as [u s|e0|e0 u|e0]; [destruct Hl | | |]; simpl;
    (destruct (Nat.ltb e0 (length (sevs sy))) eqn:L0; [|exact T]).
  - (* LStart: e is started already *)
    destruct (step_start true false g (get_ev sy e0) (sw sy)) as [[ev' w'] rs] eqn:E. simpl.
    destruct (Nat.eq_dec e0 e) as [->|Ne]; [|rewrite get_ev_set_other by exact Ne; exact T].
    rewrite get_ev_set_same by exact L. unfold step_start in E. rewrite St in E. inversion E; subst. exact T.
  - destruct (step_wait true (get_ev sy e0) (sw sy) u) as [ev' w'] eqn:E. simpl.
    destruct (Nat.eq_dec e0 e) as [->|Ne]; [|rewrite get_ev_set_other by exact Ne; exact T].
    rewrite get_ev_set_same by exact L. unfold step_wait in E.
    destruct T as [T|[Hr T]].
    + rewrite T in E. inversion E; subst. left. exact T.
    + rewrite Hr in E.
      destruct (find_waiter u (ewait (get_ev sy e))); [|inversion E; subst; right; split; assumption].
      destruct (ge_ok _); inversion E; subst; right; (split; [first [assumption | reflexivity] | exact T]).
  - destruct (step_main true false g (get_ev sy e0) (sw sy)) as [[ev' w'] rs] eqn:E. simpl.
    destruct (Nat.eq_dec e0 e) as [->|Ne]; [|rewrite get_ev_set_other by exact Ne; exact T].
    rewrite get_ev_set_same by exact L. unfold step_main in E.
    destruct T as [T|[Hr T]]; [rewrite T in E; inversion E; subst; left; exact T|].
    rewrite Hr in E.
    destruct (edonec (get_ev sy e)) as [|u rest] eqn:Hd; [inversion E; subst; right; split; assumption|].
    apply (main_cont_tracked true false g t _ _ _ _ _ E eq_refl). cbn [est].
    destruct (ret_frame false g (wst (sw sy)) (est (get_ev sy e)) u) as [Fp [Fe Ft]].
    destruct (Hok _ (get_ev_In sy e L)) as [O [Td _]]. specialize (Td Hr).
    destruct T as [T|[T|T]].
    + left. apply Fe, T.
    + destruct (Nat.eq_dec u t) as [->|Ne].
      * (* the task itself is returned: what happens depends on where its accounting stands *)
        pose proof (ph_acct sy n P) as Ac. pose proof (ph_deps sy n P) as Dp. unfold tv in Ac. clear P.
        remember (wst (sw sy) t, wcl (sw sy) t, wlu (sw sy) t) as v eqn:Ev.
        destruct Ac as [|Lt|Ge|s0 Hs Lt]; injection Ev as E1 E2 E3.
        -- right. right. apply (ret_lost_sched false g Hwf); [exact O | exact Td | congruence | exact Dp].
        -- right. right. apply (ret_lost_sched false g Hwf); [exact O | exact Td | congruence | exact Dp].
        -- left. apply ret_err. congruence.
        -- right. right. apply ret_handed_sched. rewrite <- E1. exact Hs.
      * right. left. rewrite Fp. apply set_rm_In. split; [exact T | congruence].
    + right. right. apply Ft, T.
Qed.

Lemma PH_step sy n l :
  PH sy n -> ev_label l -> PH (fst (stepv sy l)) (n + cnt t (snd (stepv sy l))).
Proof.
  intros P Hl.
  pose proof (reachable_ok true false Hver g Hwf _ _ (init_sys_ok st0 rootss) (ph_reach sy n P)) as Hok.
  pose proof (step_spec true false Hver g Hwf sy l Hok (ev_label_legal l Hl)) as F.
  constructor.
  - apply reach_step; [apply (ph_reach sy n P) | apply ev_label_legal, Hl].
  - destruct (ev_step_world g Hwf sy l Hok Hl) as [[rs [Ws E]]|[E Wc]].
    + rewrite (cnt_mem t _ (sf_nodup _ _ _ _ _ _ _ F)), E. apply (acct_wstep (sw sy) _ rs n Ws), (ph_acct sy n P).
    + rewrite E. unfold cnt. simpl. rewrite Nat.add_0_r. apply (acct_wchg (sw sy) _ n (Wc t)), (ph_acct sy n P).
  - intros e He. destruct (ph_B sy n P e He) as [_ [St L]]. split; [apply (tracked_step sy n l e P Hl He)|].
    split; [apply step_started, St | rewrite step_length; exact L].
  - intros d Hd v Hv. apply class_done_false.
    pose proof (ph_deps sy n P d Hd v Hv) as X. apply class_done_false in X.
    destruct (ev_step_world g Hwf sy l Hok Hl) as [[rs [Ws E]]|[E Wc]].
    + apply class_done_false. apply (wstep_done true false _ _ _ Hver Ws). apply class_done_false. exact X.
    + apply (wchg_ok _ _ _ (Wc v)). exact X.
Qed.

Lemma PH_exec : forall ls sy n,
  PH sy n -> Forall ev_label ls ->
  PH (fst (execv sy ls)) (n + cnt t (runs_of (snd (execv sy ls)))).
Proof.
  induction ls as [|l ls IH]; intros sy n P Hl; simpl.
  - unfold cnt. simpl. rewrite Nat.add_0_r. exact P.
  - inversion Hl; subst. pose proof (PH_step sy n l P H1) as P1.
    destruct (stepv sy l) as [sy1 runs] eqn:E. simpl in P1.
    specialize (IH sy1 _ P1 H2). destruct (execv sy1 ls) as [sy2 tr]. simpl in *.
    unfold runs_of. simpl. fold (runs_of tr). rewrite cnt_app, Nat.add_assoc. exact IH.
Qed.

End Phase.

(* ------------------------------------------------------------------ the theorems *)

Section Final.
Variable g : list tnode.
Hypothesis Hwf : wf g.
Variable st0 : nat -> tstate.
Variable rootss : list (list nat).

Local Notation Hver := (fun (_ : true = true) => @eq_refl bool false).
Local Notation stepv := (step_v true false g).
Local Notation execv := (exec_v true false g).
Local Notation reach := (reachable_v true false g (init_sys st0 rootss)).

(* evaluation e has been started, has not returned, and task t is pending in it *)
Definition awaiting (sy : sys) (t e : nat) : Prop :=
  e < length (sevs sy) /\ estarted (get_ev sy e) = true /\ eres (get_ev sy e) = None /\
  In t (spending (est (get_ev sy e))).

Lemma PH_init sy0 t :
  reach sy0 -> wlu (sw sy0) t = true -> deps_done false g (wst (sw sy0)) t ->
  PH g st0 rootss t (wcl (sw sy0) t) (awaiting sy0 t) (fst (stepv sy0 (LSet t TLost))) 0.
Proof.
  intros R Lu Hd. constructor.
  - apply reach_step; [exact R | exact I].
  - simpl. unfold tv. simpl. rewrite upd_same, Lu. apply ac_lost.
  - intros e [L [St [Hr Hp]]]. simpl. unfold get_ev in *. simpl.
    split; [right; split; [exact Hr | right; left; exact Hp]|]. split; assumption.
  - intros d Hdd v Hv. simpl. destruct (Nat.eq_dec v t) as [->|Ne].
    + exfalso. destruct Hwf as [_ [_ [_ [rk [_ Hrk]]]]]. specialize (Hrk t d t Hdd Hv). lia.
    + rewrite upd_other by exact Ne. apply (Hd d Hdd v Hv).
Qed.

Lemma exec_lost_cons sy0 t ls :
  fst (execv sy0 (LSet t TLost :: ls)) = fst (execv (fst (stepv sy0 (LSet t TLost))) ls) /\
  runs_of (snd (execv sy0 (LSet t TLost :: ls))) = runs_of (snd (execv (fst (stepv sy0 (LSet t TLost))) ls)).
Proof.
  simpl. destruct (execv _ ls) as [sy2 tr]. split; reflexivity.
Qed.

(* what a live evaluation at a quiescent point cannot be: tracking a task that is not handed out *)
Lemma tracked_quiescent sy t e :
  reach sy -> quiescent sy -> e < length (sevs sy) -> estarted (get_ev sy e) = true ->
  ~ handed (wst (sw sy) t) -> tracked t (get_ev sy e) -> eres (get_ev sy e) = Some true.
Proof.
  intros R Q L St Nh [T|[Hr T]]; [exact T|]. exfalso.
  destruct (progress_v true false Hver g st0 rootss sy Hwf R Q e L St Hr) as [Td [_ [Se Hp]]].
  destruct T as [T|[T|T]]; [congruence | apply Nh, Hp, T | rewrite Td in T; exact T].
Qed.

(* The loss that reaches the limit.  Task t is with an executor, handed out by one
   of the evaluations (lossUncounted), its dependencies are done, it has been lost
   c times in a row and c + 1 >= max_consecutive_lost.  It is lost once more; the
   evaluations then take their steps in ANY order until nothing is left to do.
   Then: every evaluation that was awaiting t has returned an error, t was not handed
   out again, and t is in ERR with the loss counted once - unless every awaiting
   evaluation failed (for some other task) before any of them looked at t. *)
Theorem lost_limit_all_evaluators sy0 t ls :
  reach sy0 -> handed (wst (sw sy0) t) -> wlu (sw sy0) t = true ->
  deps_done false g (wst (sw sy0)) t ->
  (wcl (sw sy0) t + 1 >= max_consecutive_lost)%Z ->
  Forall ev_label ls ->
  let r := execv sy0 (LSet t TLost :: ls) in
  quiescent (fst r) ->
  (forall e, awaiting sy0 t e -> eres (get_ev (fst r) e) = Some true) /\
  cnt t (runs_of (snd r)) = 0 /\
  (tv (sw (fst r)) t = (TErr, (wcl (sw sy0) t + 1)%Z, false) \/
   tv (sw (fst r)) t = (TLost, wcl (sw sy0) t, true)).
Proof.
  intros R Hh Lu Hd Hc Hl r Q. subst r.
  destruct (exec_lost_cons sy0 t ls) as [E1 E2]. rewrite E1 in *. rewrite E2.
  pose proof (PH_exec g Hwf st0 rootss t _ _ ls _ 0 (PH_init sy0 t R Lu Hd) Hl) as P.
  set (sy2 := fst (execv (fst (stepv sy0 (LSet t TLost))) ls)) in *.
  set (n := cnt t (runs_of (snd (execv (fst (stepv sy0 (LSet t TLost))) ls)))) in *.
  simpl in P. destruct P as [R2 Ac B _].
  assert (Nh : ~ handed (wst (sw sy2) t) /\ n = 0 /\
               (tv (sw sy2) t = (TErr, (wcl (sw sy0) t + 1)%Z, false) \/ tv (sw sy2) t = (TLost, wcl (sw sy0) t, true))).
  { unfold tv in *. remember (wst (sw sy2) t, wcl (sw sy2) t, wlu (sw sy2) t) as v eqn:Ev.
    destruct Ac as [|Lt|Ge|s Hs Lt]; try lia; injection Ev as X1 X2 X3; rewrite <- X1.
    - split; [intros [Z|Z]; discriminate|]. split; [reflexivity | right; reflexivity].
    - split; [intros [Z|Z]; discriminate|]. split; [reflexivity | left; reflexivity]. }
  destruct Nh as [Nh [N0 St]]. split; [|split; [exact N0 | exact St]].
  intros e He. destruct (B e He) as [T [Sd L]].
  apply (tracked_quiescent sy2 t e R2 Q L Sd Nh T).
Qed.

(* Fewer losses.  Same situation with c + 1 < max_consecutive_lost: whatever the order
   of the evaluations' steps, at the next quiescent point the loss has been counted
   exactly once and the task has been handed to the executor exactly once (by
   whichever evaluation got there first) - unless every awaiting evaluation failed
   for some other task first, in which case the task stays LOST and nobody runs it. *)
Theorem lost_resubmitted_all_evaluators sy0 t ls :
  reach sy0 -> handed (wst (sw sy0) t) -> wlu (sw sy0) t = true ->
  deps_done false g (wst (sw sy0)) t ->
  (wcl (sw sy0) t + 1 < max_consecutive_lost)%Z ->
  Forall ev_label ls ->
  let r := execv sy0 (LSet t TLost :: ls) in
  quiescent (fst r) ->
  (cnt t (runs_of (snd r)) = 1 /\ handed (wst (sw (fst r)) t) /\
   wcl (sw (fst r)) t = (wcl (sw sy0) t + 1)%Z /\ wlu (sw (fst r)) t = true) \/
  (cnt t (runs_of (snd r)) = 0 /\ wst (sw (fst r)) t = TLost /\
   (wcl (sw (fst r)) t = wcl (sw sy0) t \/ wcl (sw (fst r)) t = (wcl (sw sy0) t + 1)%Z) /\
   forall e, awaiting sy0 t e -> eres (get_ev (fst r) e) = Some true).
Proof.
  intros R Hh Lu Hd Hc Hl r Q. subst r.
  destruct (exec_lost_cons sy0 t ls) as [E1 E2]. rewrite E1 in *. rewrite E2.
  pose proof (PH_exec g Hwf st0 rootss t _ _ ls _ 0 (PH_init sy0 t R Lu Hd) Hl) as P.
  set (sy2 := fst (execv (fst (stepv sy0 (LSet t TLost))) ls)) in *.
  set (n := cnt t (runs_of (snd (execv (fst (stepv sy0 (LSet t TLost))) ls)))) in *.
  simpl in P. destruct P as [R2 Ac B _].
  unfold tv in Ac. remember (wst (sw sy2) t, wcl (sw sy2) t, wlu (sw sy2) t) as v eqn:Ev.
  assert (Fail : wst (sw sy2) t = TLost -> forall e, awaiting sy0 t e -> eres (get_ev sy2 e) = Some true).
  { intros X e He. destruct (B e He) as [T [Sd L]].
    apply (tracked_quiescent sy2 t e R2 Q L Sd); [rewrite X; intros [Z|Z]; discriminate | exact T]. }
  destruct Ac as [|Lt|Ge|s Hs Lt]; try lia; injection Ev as X1 X2 X3.
  - right. split; [reflexivity|]. split; [congruence|]. split; [left; congruence | apply Fail; congruence].
  - right. split; [reflexivity|]. split; [congruence|]. split; [right; congruence | apply Fail; congruence].
  - left. split; [reflexivity|]. split; [rewrite <- X1; exact Hs|]. split; congruence.
Qed.

End Final.

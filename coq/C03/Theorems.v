(* C03 — the safety theorems: over all well-formed graphs, all initial task
   states, any number of evaluations, all interleavings of their atomic steps with
   environment events (every history that never resets a task to INIT). *)
From Coq Require Import List ZArith Bool Lia Arith.
Import ListNotations.
Require Import BS.Gen.C03_params BS.C03.Model BS.C03.Proofs BS.C03.Safety.

(* ------------------------------------------------------------------ the executable graph check implies wf *)

Lemma nat_list_eqb_eq a b : nat_list_eqb a b = true -> a = b.
Proof.
  unfold nat_list_eqb. revert b. induction a as [|x a IH]; intros [|y b] H; simpl in H; try discriminate; auto.
  apply andb_true_iff in H. destruct H as [L F]. apply andb_true_iff in F. destruct F as [E F]. simpl in E.
  apply Nat.eqb_eq in E. subst. f_equal. apply IH. apply andb_true_iff. split; assumption.
Qed.

Lemma node_overflow g t : length g <= t -> node g t = mkT [] [].
Proof. intro H. unfold node. apply nth_overflow. exact H. Qed.

Lemma wf_node_of g t : wf_graphb g = true -> t < length g -> wf_node g t = true.
Proof.
  unfold wf_graphb. intros H L. rewrite forallb_forall in H. apply H. apply in_seq. lia.
Qed.

Lemma wf_node_group g t h r :
  wf_node g t = true -> tgroup (node g t) = h :: r ->
  In t (h :: r) /\ forall u, In u (h :: r) -> tgroup (node g u) = h :: r.
Proof.
  unfold wf_node. intros N G. rewrite G in N.
  apply andb_true_iff in N. destruct N as [_ N]. cbn [is_nil orb] in N.
  apply andb_true_iff in N. destruct N as [N N2].
  apply andb_true_iff in N. destruct N as [N1 _].
  split; [apply mem_In; exact N1|].
  intros u Hu. rewrite forallb_forall in N2. specialize (N2 u Hu).
  apply andb_true_iff in N2. destruct N2 as [_ N2]. apply nat_list_eqb_eq in N2. exact N2.
Qed.

Lemma wf_node_deps g t d u :
  wf_node g t = true -> In d (tdeps (node g t)) -> In u (phase g d) -> u < t.
Proof.
  unfold wf_node. intros N Hd Hu.
  apply andb_true_iff in N. destruct N as [N _]. rewrite forallb_forall in N.
  specialize (N d Hd). apply andb_true_iff in N. destruct N as [_ N]. rewrite forallb_forall in N.
  specialize (N u Hu). apply Nat.ltb_lt in N. exact N.
Qed.

Theorem wf_graphb_sound g : wf_graphb g = true -> wf g.
Proof.
  intro H. split; [|split; [|split]].
  - intro t. unfold phase. destruct (tgroup (node g t)) as [|h r] eqn:G; [left; reflexivity|].
    destruct (Nat.lt_ge_cases t (length g)) as [L|L].
    + apply (wf_node_group g t h r (wf_node_of g t H L) G).
    + rewrite (node_overflow g t L) in G. discriminate.
  - intro t. unfold phase, head. destruct (tgroup (node g t)); left; reflexivity.
  - intros t u Hu. unfold phase in *. destruct (tgroup (node g t)) as [|h r] eqn:G.
    + destruct Hu as [<-|[]]. rewrite G. reflexivity.
    + destruct (Nat.lt_ge_cases t (length g)) as [L|L]; [|rewrite (node_overflow g t L) in G; discriminate].
      destruct (wf_node_group g t h r (wf_node_of g t H L) G) as [_ N]. rewrite (N u Hu). reflexivity.
  - exists (fun t => if Nat.ltb t (length g) then t else length g). split.
    + intro t. destruct (Nat.ltb t (length g)) eqn:L; [apply Nat.ltb_lt in L; lia | lia].
    + intros t d u Hd Hu.
      destruct (Nat.lt_ge_cases t (length g)) as [L|L]; [|rewrite (node_overflow g t L) in Hd; destruct Hd].
      pose proof (wf_node_deps g t d u (wf_node_of g t H L) Hd Hu) as N.
      assert (Lu : Nat.ltb u (length g) = true) by (apply Nat.ltb_lt; lia).
      assert (Lt : Nat.ltb t (length g) = true) by (apply Nat.ltb_lt; lia).
      rewrite Lu, Lt. exact N.
Qed.

(* ------------------------------------------------------------------ classification *)

Lemma class_done_false s : enq_class false s = CDone <-> s = TOk.
Proof. destruct s; simpl; split; intro; try reflexivity; discriminate. Qed.

Lemma class_done_true s : enq_class true s = CDone <-> s = TOk \/ s = TErr.
Proof. destruct s; simpl; split; intro H; auto; try discriminate; destruct H; discriminate. Qed.

(* ------------------------------------------------------------------ ready_only *)

Section Thm.
Variable clo : bool.
Variable eda : bool.
Hypothesis Hver : clo = true -> eda = false.
Variable g : list tnode.
Hypothesis Hwf : wf g.
Variable st0 : nat -> tstate.
Variable rootss : list (list nat).

Lemma reachable_sys_ok_v sy : reachable_v clo eda g (init_sys st0 rootss) sy -> sys_ok sy.
Proof. apply (reachable_ok clo eda Hver g Hwf); apply init_sys_ok. Qed.

(* Every Run handed to the executor, by any evaluation, in any reachable state:
   every task of every dependency phase is in a state Enqueue classifies as done. *)
Theorem ready_only_gen_v sy l :
  reachable_v clo eda g (init_sys st0 rootss) sy -> legal_label l ->
  forall e r, In (e, r) (snd (step_v clo eda g sy l)) ->
  forall d u, In d (tdeps (node g r)) -> In u (phase g d) ->
  enq_class eda (wst (sw sy) u) = CDone.
Proof.
  intros R Hl e r Hr d u Hd Hu.
  pose proof (step_spec clo eda Hver g Hwf sy l (reachable_sys_ok_v sy R) Hl) as F.
  exact (sf_ready _ _ _ _ _ _ _ F e r Hr d Hd u Hu).
Qed.

(* Eval returns nil only when every root is in a state Enqueue classifies as done. *)
Theorem success_sound_gen_v sy l :
  reachable_v clo eda g (init_sys st0 rootss) sy -> legal_label l ->
  forall e, eres (get_ev sy e) = None -> eres (get_ev (fst (step_v clo eda g sy l)) e) = Some false ->
  forall r, In r (eroots (get_ev sy e)) ->
  enq_class eda (wst (sw (fst (step_v clo eda g sy l))) r) = CDone.
Proof.
  intros R Hl e Hn Hs r Hr.
  pose proof (step_spec clo eda Hver g Hwf sy l (reachable_sys_ok_v sy R) Hl) as F.
  apply (sf_success _ _ _ _ _ _ _ F e Hn Hs r Hr). destruct Hwf as [H1 _]. apply H1.
Qed.

(* A task is handed out only from INIT or LOST, becomes WAITING in the same atomic
   step, and at most once per step. *)
Theorem no_double_handout_v sy l :
  reachable_v clo eda g (init_sys st0 rootss) sy -> legal_label l ->
  NoDup (map snd (snd (step_v clo eda g sy l))) /\
  forall e r, In (e, r) (snd (step_v clo eda g sy l)) ->
    ~ handed (wst (sw sy) r) /\ wst (sw (fst (step_v clo eda g sy l))) r = TWaiting.
Proof.
  intros R Hl. pose proof (step_spec clo eda Hver g Hwf sy l (reachable_sys_ok_v sy R) Hl) as F.
  split; [exact (sf_nodup _ _ _ _ _ _ _ F)|].
  intros e r Hr. destruct (sf_run _ _ _ _ _ _ _ F e r Hr) as [A B]. split; [|exact B].
  intros [X|X]; destruct A as [Y|Y]; congruence.
Qed.

Lemma exec_cons_fst_v sy l ls : fst (exec_v clo eda g sy (l :: ls)) = fst (exec_v clo eda g (fst (step_v clo eda g sy l)) ls).
Proof.
  simpl. destruct (step_v clo eda g sy l) as [sy1 runs]. simpl.
  destruct (exec_v clo eda g sy1 ls) as [sy2 tr]. reflexivity.
Qed.

Lemma exec_reachable_v sy ls :
  reachable_v clo eda g (init_sys st0 rootss) sy -> Forall legal_label ls ->
  reachable_v clo eda g (init_sys st0 rootss) (fst (exec_v clo eda g sy ls)).
Proof.
  revert sy. induction ls as [|l ls IH]; intros sy R L; [exact R|].
  rewrite exec_cons_fst_v. inversion L; subst. apply IH; [|assumption]. apply reach_step; assumption.
Qed.

Lemma handed_dec s : {handed s} + {~ handed s}.
Proof. destruct s; try (left; unfold handed; auto; fail); right; intros [X|X]; discriminate. Qed.

(* Between two hand-outs of the same task - by the same or by different
   evaluations - the environment has taken the task out of WAITING/RUNNING
   (reported it lost): while a task is with an executor nobody hands it out again. *)
Theorem single_runner_v : forall ls2 sy l2 t e2,
  reachable_v clo eda g (init_sys st0 rootss) sy -> Forall legal_label ls2 -> legal_label l2 ->
  handed (wst (sw sy) t) ->
  In (e2, t) (snd (step_v clo eda g (fst (exec_v clo eda g sy ls2)) l2)) ->
  exists s, In (LSet t s) ls2 /\ ~ handed s.
Proof.
  induction ls2 as [|l ls IH]; intros sy l2 t e2 R L L2 Hh Hin.
  - exfalso. simpl in Hin.
    pose proof (step_spec clo eda Hver g Hwf sy l2 (reachable_sys_ok_v sy R) L2) as F.
    assert (Hne : forall s, l2 <> LSet t s).
    { intros s ->. simpl in Hin. destruct Hin. }
    destruct (sf_keep _ _ _ _ _ _ _ F t Hne Hh) as [_ N]. exact (N e2 Hin).
  - rewrite exec_cons_fst_v in Hin. inversion L; subst.
    pose proof (step_spec clo eda Hver g Hwf sy l (reachable_sys_ok_v sy R) H1) as F.
    assert (R1 : reachable_v clo eda g (init_sys st0 rootss) (fst (step_v clo eda g sy l))) by (apply reach_step; assumption).
    assert (Dl : (exists s, l = LSet t s) \/ (forall s, l <> LSet t s)).
    { destruct l as [t' s'|e|e t'|e]; try (right; intros; discriminate).
      destruct (Nat.eq_dec t' t) as [->|Ne]; [left; eexists; reflexivity | right; intros s X; inversion X; congruence]. }
    destruct Dl as [[s ->]|Dl].
    + destruct (handed_dec s) as [Hs|Hs].
      * assert (Hh1 : handed (wst (sw (fst (step_v clo eda g sy (LSet t s)))) t)) by (simpl; rewrite upd_same; exact Hs).
        destruct (IH _ l2 t e2 R1 H2 L2 Hh1 Hin) as [s' [A B]]. exists s'. split; [right; exact A | exact B].
      * exists s. split; [left; reflexivity | exact Hs].
    + destruct (sf_keep _ _ _ _ _ _ _ F t Dl Hh) as [Hh1 _].
      destruct (IH _ l2 t e2 R1 H2 L2 Hh1 Hin) as [s' [A B]]. exists s'. split; [right; exact A | exact B].
Qed.

End Thm.

(* ---- the same, for the code version that goes with [eda] ---- *)

Theorem ready_only_gen eda g (Hwf : wf g) st0 rootss sy l :
  reachable eda g (init_sys st0 rootss) sy -> legal_label l ->
  forall e r, In (e, r) (snd (step eda g sy l)) ->
  forall d u, In d (tdeps (node g r)) -> In u (phase g d) ->
  enq_class eda (wst (sw sy) u) = CDone.
Proof. exact (ready_only_gen_v (ver eda) eda (ver_ok eda) g Hwf st0 rootss sy l). Qed.

Theorem success_sound_gen eda g (Hwf : wf g) st0 rootss sy l :
  reachable eda g (init_sys st0 rootss) sy -> legal_label l ->
  forall e, eres (get_ev sy e) = None -> eres (get_ev (fst (step eda g sy l)) e) = Some false ->
  forall r, In r (eroots (get_ev sy e)) ->
  enq_class eda (wst (sw (fst (step eda g sy l))) r) = CDone.
Proof. exact (success_sound_gen_v (ver eda) eda (ver_ok eda) g Hwf st0 rootss sy l). Qed.

Theorem no_double_handout eda g (Hwf : wf g) st0 rootss sy l :
  reachable eda g (init_sys st0 rootss) sy -> legal_label l ->
  NoDup (map snd (snd (step eda g sy l))) /\
  forall e r, In (e, r) (snd (step eda g sy l)) ->
    ~ handed (wst (sw sy) r) /\ wst (sw (fst (step eda g sy l))) r = TWaiting.
Proof. exact (no_double_handout_v (ver eda) eda (ver_ok eda) g Hwf st0 rootss sy l). Qed.

Theorem single_runner eda g (Hwf : wf g) st0 rootss : forall ls2 sy l2 t e2,
  reachable eda g (init_sys st0 rootss) sy -> Forall legal_label ls2 -> legal_label l2 ->
  handed (wst (sw sy) t) ->
  In (e2, t) (snd (step eda g (fst (exec eda g sy ls2)) l2)) ->
  exists s, In (LSet t s) ls2 /\ ~ handed s.
Proof. exact (single_runner_v (ver eda) eda (ver_ok eda) g Hwf st0 rootss). Qed.

(* ------------------------------------------------------------------ instances *)

(* the repaired switch: dependencies are OK, success means all roots OK *)
Theorem ready_only g st0 rootss sy l :
  wf g -> reachable false g (init_sys st0 rootss) sy -> legal_label l ->
  forall e r, In (e, r) (snd (step false g sy l)) ->
  forall d u, In d (tdeps (node g r)) -> In u (phase g d) -> wst (sw sy) u = TOk.
Proof. intros. apply class_done_false. eapply ready_only_gen; eassumption. Qed.

Theorem success_sound g st0 rootss sy l :
  wf g -> reachable false g (init_sys st0 rootss) sy -> legal_label l ->
  forall e, eres (get_ev sy e) = None -> eres (get_ev (fst (step false g sy l)) e) = Some false ->
  forall r, In r (eroots (get_ev sy e)) -> wst (sw (fst (step false g sy l))) r = TOk.
Proof. intros. apply class_done_false. eapply success_sound_gen; eassumption. Qed.

(* the code as it is: true as long as no dependency / root is in ERR *)
Theorem ready_only_no_err g st0 rootss sy l :
  wf g -> reachable true g (init_sys st0 rootss) sy -> legal_label l ->
  forall e r, In (e, r) (snd (step true g sy l)) ->
  forall d u, In d (tdeps (node g r)) -> In u (phase g d) ->
  wst (sw sy) u <> TErr -> wst (sw sy) u = TOk.
Proof.
  intros Hwf R Hl e r Hr d u Hd Hu Ne.
  destruct (proj1 (class_done_true _) (ready_only_gen true g Hwf st0 rootss sy l R Hl e r Hr d u Hd Hu)) as [X|X];
    [exact X | contradiction].
Qed.

Theorem success_sound_no_err g st0 rootss sy l :
  wf g -> reachable true g (init_sys st0 rootss) sy -> legal_label l ->
  forall e, eres (get_ev sy e) = None -> eres (get_ev (fst (step true g sy l)) e) = Some false ->
  forall r, In r (eroots (get_ev sy e)) ->
  wst (sw (fst (step true g sy l))) r <> TErr -> wst (sw (fst (step true g sy l))) r = TOk.
Proof.
  intros Hwf R Hl e Hn Hs r Hr Ne.
  destruct (proj1 (class_done_true _) (success_sound_gen true g Hwf st0 rootss sy l R Hl e Hn Hs r Hr)) as [X|X];
    [exact X | contradiction].
Qed.

(* ... and false otherwise: a two-task chain whose first task an earlier
   invocation left in ERR; one task already in ERR as the only root. *)
Definition chain2 : list tnode := [mkT [] []; mkT [0] []].

Theorem ready_only_refuted :
  exists g st0 rootss l e r d u,
    wf g /\ legal_label l /\
    In (e, r) (snd (step true g (init_sys st0 rootss) l)) /\
    In d (tdeps (node g r)) /\ In u (phase g d) /\ wst (sw (init_sys st0 rootss)) u <> TOk.
Proof.
  exists chain2, (fun t => match t with 0 => TErr | _ => TInit end), [[1]], (LStart 0), 0, 1, 0, 0.
  split; [apply wf_graphb_sound; vm_compute; reflexivity|].
  split; [exact I|]. split; [vm_compute; left; reflexivity|].
  split; [left; reflexivity|]. split; [left; reflexivity|]. simpl. discriminate.
Qed.

Theorem success_refuted :
  exists g st0 rootss l r,
    wf g /\ legal_label l /\
    eres (get_ev (init_sys st0 rootss) 0) = None /\
    eres (get_ev (fst (step true g (init_sys st0 rootss) l)) 0) = Some false /\
    In r (eroots (get_ev (init_sys st0 rootss) 0)) /\
    wst (sw (fst (step true g (init_sys st0 rootss) l))) r <> TOk.
Proof.
  exists [mkT [] []], (fun _ => TErr), [[0]], (LStart 0), 0.
  split; [apply wf_graphb_sound; vm_compute; reflexivity|].
  split; [exact I|]. split; [reflexivity|]. split; [vm_compute; reflexivity|].
  split; [left; reflexivity|]. vm_compute. discriminate.
Qed.

(* ------------------------------------------------------------------ two evaluations: the loss counter can be bypassed *)

(* The accounting before 0540c52 (clo = false).
   One task, two evaluations of it. Whenever the task is lost, the evaluation
   that did NOT hand it out notices first and resubmits it before the runner's
   waiter goroutine has looked at the task; that waiter then sees WAITING again
   and keeps waiting, so the loss is never counted by it. Five losses in a row of a
   task that was handed out every time, no error, counter at 4.  (Both orders of
   the two goroutines are possible in the Go code: they only synchronise on the
   task mutex.) *)
Definition race_round (first second : nat) : list label :=
  [LSet 0 TLost; LWait first 0; LMain first; LWait second 0].
Definition race_schedule : list label :=
  [LStart 0; LStart 1] ++ race_round 1 0 ++ race_round 0 1 ++ race_round 1 0 ++ race_round 0 1 ++ race_round 1 0.

Theorem lost_limit_two_evaluators_refuted :
  exists g st0 rootss ls,
    wf g /\ Forall legal_label ls /\
    length (filter (fun l => match l with LSet 0 TLost => true | _ => false end) ls) = Z.to_nat max_consecutive_lost /\
    let r := exec_v false false g (init_sys st0 rootss) ls in
    (* every loss hit the task while it was handed out ... *)
    forallb (fun x => match fst (fst x) with
                      | LSet 0 TLost => st_eqb (wst (snd (fst x)) 0) TWaiting
                      | _ => true end) (snd r) = true /\
    (* ... it was handed out again every time ... *)
    map snd (runs_of (snd r)) = [0; 0; 0; 0; 0; 0] /\
    (* ... and nobody reports an error *)
    eres (get_ev (fst r) 0) = None /\ eres (get_ev (fst r) 1) = None /\
    wst (sw (fst r)) 0 = TWaiting /\ (wcl (sw (fst r)) 0 < max_consecutive_lost)%Z.
Proof.
  exists [mkT [] []], (fun _ => TInit), [[0]; [0]], race_schedule.
  split; [apply wf_graphb_sound; vm_compute; reflexivity|].
  split; [repeat constructor|].
  vm_compute. repeat split; reflexivity.
Qed.

(* The same schedule under the accounting of 0540c52: every loss is counted (by the
   evaluation that resubmits, on behalf of the runner), the fifth puts the task in
   ERR, and once the remaining goroutines have run both evaluations have failed. *)
Theorem race_schedule_now_reports :
  let r := exec_v true false [mkT [] []] (init_sys (fun _ => TInit) [[0]; [0]])
                  (race_schedule ++ [LMain 0; LWait 1 0; LMain 1]) in
  eres (get_ev (fst r) 0) = Some true /\ eres (get_ev (fst r) 1) = Some true /\
  wst (sw (fst r)) 0 = TErr /\ wcl (sw (fst r)) 0 = max_consecutive_lost.
Proof. vm_compute. repeat split; reflexivity. Qed.
